%T160 = type { i1, %T36* }
%T267 = type { i1, %T104*, %T8* }
%T116 = type { i32, %T238*, %T56*, %T16* }
%T72 = type opaque
%T249 = type { i1, %T201* }
%T232 = type <{ i1, %T186* }>
%T137 = type { i32, %T10*, %T1* }
%T101 = type { i32, %T59* }
%T168 = type { i64, %T291*, %T25* }
%T13 = type { i8, %T169*, %T196*, %T134* }
%T87 = type opaque
%T51 = type { i16, %T93*, %T225*, %T149* }
%T165 = type <{ i32, %T129*, %T79*, %T5* }>
%T152 = type { i8, %T21*, %T155* }
%T263 = type { i1, %T281* }
%T134 = type { i64, %T98* }
%T76 = type { i1, %T30* }
%T37 = type opaque
%T49 = type { i8, %T296* }
%T236 = type <{ i32, %T289* }>
%T133 = type { i16, %T92* }
%T171 = type { i64, %T72*, %T187* }
%T103 = type { i1, %T143*, %T213* }
%T278 = type { i64, %T50* }
%T121 = type opaque
%T154 = type { i64, %T45*, %T140*, %T172* }
%T251 = type <{ i32, %T154* }>
%T262 = type { i8, %T128* }
%T179 = type { i16, %T89*, %T102*, %T31* }
%T194 = type { i64, %T32*, %T50*, %T137* }
%T16 = type { i1, %T19*, %T145* }
%T138 = type opaque
%T45 = type { i32, %T234* }
%T109 = type <{ i64, %T184*, %T145* }>
%T11 = type { i8, %T217* }
%T217 = type { i32, %T245*, %T144*, %T216* }
%T162 = type { i32, %T219*, %T97*, %T215* }
%T180 = type { i1, %T219*, %T274*, %T208* }
%T100 = type opaque
%T36 = type { i64, %T111*, %T87* }
%T280 = type <{ i64, %T233* }>
%T243 = type { i8, %T24*, %T3* }
%T146 = type { i32, %T223*, %T261* }
%T47 = type { i8, %T2*, %T275* }
%T50 = type { i64, %T270* }
%T70 = type opaque
%T174 = type { i1, %T121* }
%T177 = type <{ i1, %T95*, %T256* }>
%T91 = type { i32, %T143* }
%T54 = type { i16, %T56*, %T270* }
%T246 = type { i1, %T110* }
%T4 = type { i64, %T255*, %T149*, %T295* }
%T41 = type opaque
%T94 = type { i32, %T64* }
%T64 = type <{ i16, %T211*, %T28*, %T43* }>
%T195 = type { i32, %T281*, %T88*, %T246* }
%T172 = type { i16, %T30* }
%T84 = type { i64, %T150* }
%T33 = type { i8, %T67*, %T97*, %T184* }
%T197 = type opaque
%T118 = type { i16, %T197* }
%T214 = type <{ i8, %T44*, %T297*, %T201* }>
%T83 = type { i32, %T207*, %T64* }
%T62 = type { i32, %T69*, %T51*, %T158* }
%T242 = type { i8, %T194*, %T244*, %T119* }
%T196 = type { i16, %T207*, %T163*, %T197* }
%T190 = type opaque
%T58 = type { i1, %T52*, %T168*, %T37* }
%T145 = type <{ i64, %T52* }>
%T67 = type { i16, %T83* }
%T193 = type { i64, %T115*, %T132* }
%T119 = type { i64, %T226*, %T110* }
%T227 = type { i64, %T279* }
%T213 = type opaque
%T288 = type { i16, %T254*, %T167*, %T108* }
%T68 = type <{ i8, %T226*, %T26*, %T188* }>
%T238 = type { i32, %T75*, %T83* }
%T159 = type { i1, %T122*, %T268* }
%T264 = type { i1, %T283* }
%T59 = type { i16, %T117*, %T190* }
%T43 = type opaque
%T210 = type { i16, %T259* }
%T99 = type <{ i1, %T106*, %T198*, %T230* }>
%T203 = type { i32, %T109* }
%T149 = type { i8, %T145*, %T256*, %T156* }
%T271 = type { i16, %T47*, %T48*, %T222* }
%T93 = type { i8, %T115*, %T27* }
%T144 = type opaque
%T157 = type { i1, %T265*, %T272*, %T41* }
%T9 = type <{ i32, %T20*, %T146* }>
%T247 = type { i8, %T224*, %T27* }
%T230 = type { i32, %T7* }
%T8 = type { i16, %T82* }
%T182 = type { i32, %T215*, %T3*, %T87* }
%T114 = type opaque
%T69 = type { i8, %T156*, %T158*, %T205* }
%T185 = type <{ i64, %T241*, %T111*, %T27* }>
%T139 = type { i8, %T193* }
%T268 = type { i64, %T150* }
%T46 = type { i64, %T69* }
%T283 = type { i1, %T103*, %T294*, %T35* }
%T25 = type opaque
%T123 = type { i16, %T3* }
%T299 = type <{ i64, %T188*, %T232* }>
%T167 = type { i64, %T150* }
%T234 = type { i64, %T234*, %T93*, %T59* }
%T90 = type { i16, %T19* }
%T281 = type { i16, %T36*, %T1* }
%T183 = type opaque
%T163 = type { i1, %T209*, %T244*, %T292* }
%T202 = type <{ i32, %T78* }>
%T225 = type { i32, %T227*, %T198* }
%T12 = type { i32, %T51* }
%T277 = type { i16, %T23*, %T106*, %T223* }
%T120 = type { i32, %T73* }
%T260 = type opaque
%T81 = type { i16, %T140* }
%T17 = type <{ i1, %T154*, %T133* }>
%T122 = type { i32, %T136* }
%T108 = type { i32, %T258*, %T229*, %T288* }
%T127 = type { i1, %T45*, %T224* }
%T199 = type { i1, %T69*, %T28*, %T266* }
%T1 = type opaque
%T273 = type { i8, %T49*, %T228* }
%T253 = type <{ i32, %T65*, %T81* }>
%T52 = type { i16, %T46* }
%T261 = type { i32, %T106* }
%T73 = type { i8, %T227*, %T249* }
%T148 = type { i32, %T192*, %T88*, %T79* }
%T65 = type opaque
%T21 = type { i1, %T24*, %T210* }
%T153 = type <{ i16, %T4* }>
%T40 = type { i32, %T48*, %T184*, %T227* }
%T23 = type { i1, %T299*, %T172*, %T221* }
%T39 = type { i1, %T84* }
%T117 = type { i64, %T122*, %T284*, %T145* }
%T31 = type opaque
%T86 = type { i32, %T82* }
%T71 = type <{ i8, %T63*, %T221*, %T197* }>
%T259 = type { i32, %T188*, %T253* }
%T82 = type { i64, %T199*, %T217* }
%T209 = type { i16, %T104*, %T100* }
%T158 = type { i8, %T7*, %T133* }
%T150 = type opaque
%T42 = type { i1, %T188*, %T127*, %T289* }
%T126 = type <{ i16, %T53*, %T178* }>
%T92 = type { i8, %T261*, %T1* }
%T98 = type { i8, %T57*, %T234* }
%T110 = type { i16, %T3*, %T231*, %T76* }
%T111 = type { i64, %T172* }
%T115 = type opaque
%T207 = type { i64, %T117* }
%T97 = type <{ i8, %T250*, %T288*, %T158* }>
%T219 = type { i8, %T183* }
%T224 = type { i64, %T227*, %T170*, %T70* }
%T2 = type { i16, %T51*, %T182* }
%T198 = type { i1, %T286*, %T71* }
%T173 = type opaque
%T14 = type { i16, %T226*, %T60*, %T102* }
%T184 = type <{ i32, %T0* }>
%T220 = type { i32, %T264*, %T235* }
%T20 = type { i8, %T214*, %T109*, %T15* }
%T26 = type { i32, %T256* }
%T229 = type { i64, %T245* }
%T143 = type opaque
%T66 = type { i1, %T169*, %T289* }
%T241 = type <{ i64, %T271*, %T194* }>
%T266 = type { i16, %T210*, %T296* }
%T22 = type { i8, %T115*, %T198* }
%T128 = type { i16, %T283*, %T249* }
%T10 = type { i16, %T84*, %T190*, %T244* }
%T298 = type opaque
%T256 = type { i64, %T8*, %T111*, %T37* }
%T169 = type <{ i32, %T134*, %T208* }>
%T77 = type { i16, %T30* }
%T255 = type { i8, %T118*, %T238* }
%T296 = type { i16, %T200*, %T134* }
%T258 = type { i64, %T174*, %T58* }
%T186 = type opaque
%T215 = type { i8, %T47* }
%T34 = type <{ i64, %T186*, %T246*, %T278* }>
%T131 = type { i1, %T140* }
%T28 = type { i16, %T269*, %T140*, %T232* }
%T254 = type { i1, %T148*, %T245* }
%T289 = type { i16, %T76* }
%T53 = type opaque
%T293 = type { i64, %T64*, %T147* }
%T239 = type <{ i64, %T278*, %T58* }>
%T175 = type { i64, %T271*, %T232*, %T184* }
%T24 = type { i1, %T211*, %T77*, %T54* }
%T208 = type { i1, %T139* }
%T75 = type { i64, %T72*, %T198*, %T251* }
%T274 = type opaque
%T0 = type { i16, %T276*, %T129*, %T253* }
%T250 = type <{ i32, %T188*, %T152* }>
%T248 = type { i64, %T239*, %T10* }
%T102 = type { i8, %T25*, %T117*, %T218* }
%T287 = type { i8, %T277*, %T247*, %T91* }
%T187 = type { i64, %T270*, %T99* }
%T178 = type opaque
%T192 = type { i16, %T35*, %T267* }
%T80 = type <{ i32, %T178*, %T116*, %T207* }>
%T222 = type { i64, %T19*, %T145*, %T58* }
%T63 = type { i32, %T145*, %T161* }
%T181 = type { i32, %T244* }
%T155 = type { i8, %T160*, %T181* }
%T204 = type opaque
%T272 = type { i64, %T171*, %T43*, %T95* }
%T245 = type <{ i32, %T172* }>
%T223 = type { i32, %T33*, %T224*, %T152* }
%T265 = type { i32, %T271*, %T299*, %T136* }
%T78 = type { i8, %T67* }
%T282 = type { i1, %T146*, %T238*, %T295* }
%T191 = type opaque
%T164 = type { i16, %T23*, %T47*, %T283* }
%T15 = type <{ i32, %T99*, %T83* }>
%T95 = type { i32, %T50*, %T269*, %T101* }
%T56 = type { i64, %T79*, %T214*, %T188* }
%T205 = type { i16, %T78*, %T76*, %T49* }
%T284 = type { i8, %T66*, %T192*, %T297* }
%T212 = type opaque
%T55 = type { i1, %T111*, %T239* }
%T244 = type <{ i32, %T106* }>
%T269 = type { i16, %T65*, %T182* }
%T89 = type { i8, %T214*, %T81* }
%T156 = type { i64, %T226*, %T197*, %T271* }
%T161 = type { i16, %T282*, %T89*, %T15* }
%T292 = type opaque
%T96 = type { i8, %T66*, %T16* }
%T48 = type <{ i32, %T33*, %T155* }>
%T104 = type { i64, %T192*, %T72*, %T29* }
%T79 = type { i8, %T77*, %T233* }
%T3 = type { i32, %T219*, %T227*, %T284* }
%T6 = type { i32, %T213* }
%T35 = type opaque
%T113 = type { i32, %T161*, %T130*, %T134* }
%T32 = type <{ i64, %T99* }>
%T27 = type { i1, %T57*, %T246* }
%T106 = type { i64, %T163*, %T30*, %T205* }
%T297 = type { i16, %T296*, %T190*, %T182* }
%T285 = type { i8, %T229* }
%T151 = type opaque
%T201 = type { i64, %T257*, %T109*, %T218* }
%T57 = type <{ i64, %T242*, %T109*, %T210* }>
%T124 = type { i8, %T253*, %T216* }
%T5 = type { i1, %T132*, %T134*, %T24* }
%T295 = type { i64, %T151*, %T37*, %T230* }
%T30 = type { i1, %T256*, %T180*, %T160* }
%T216 = type opaque
%T61 = type { i32, %T297*, %T238* }
%T129 = type <{ i16, %T247*, %T184*, %T56* }>
%T107 = type { i64, %T286* }
%T147 = type { i16, %T20*, %T237*, %T86* }
%T132 = type { i32, %T38*, %T237* }
%T206 = type { i1, %T249*, %T19*, %T73* }
%T233 = type opaque
%T88 = type { i8, %T279* }
%T140 = type <{ i1, %T213* }>
%T270 = type { i32, %T238*, %T70* }
%T60 = type { i32, %T42* }
%T211 = type { i8, %T241*, %T173* }
%T200 = type { i32, %T48*, %T46* }
%T85 = type opaque
%T19 = type { i64, %T111*, %T149*, %T175* }
%T141 = type <{ i16, %T263*, %T208* }>
%T228 = type { i8, %T174* }
%T221 = type { i64, %T167* }
%T231 = type { i64, %T233*, %T173* }
%T235 = type { i32, %T54*, %T157* }
%T252 = type opaque
%T257 = type { i8, %T71*, %T173*, %T32* }
%T112 = type <{ i64, %T54* }>
%T237 = type { i64, %T218*, %T286*, %T162* }
%T130 = type { i16, %T86*, %T139*, %T24* }
%T38 = type { i64, %T73*, %T220* }
%T166 = type { i1, %T291* }
%T240 = type opaque
%T189 = type { i1, %T126*, %T255*, %T245* }
%T44 = type <{ i16, %T47* }>
%T18 = type { i32, %T61*, %T31*, %T38* }
%T136 = type { i8, %T195*, %T225* }
%T105 = type { i8, %T128* }
%T135 = type { i32, %T155*, %T143*, %T198* }
%T294 = type opaque
%T125 = type { i8, %T48*, %T107* }
%T276 = type <{ i1, %T172* }>
%T290 = type { i16, %T199*, %T150* }
%T176 = type { i32, %T108* }
%T170 = type { i1, %T271*, %T278* }
%T275 = type { i16, %T225* }
%T226 = type opaque
%T188 = type { i8, %T160*, %T82* }
%T142 = type <{ i64, %T159*, %T155*, %T144* }>
%T218 = type { i8, %T52* }
%T29 = type { i8, %T280*, %T220*, %T25* }
%T291 = type { i16, %T177*, %T150* }
%T286 = type { i64, %T282*, %T171*, %T35* }
%T74 = type opaque
%T279 = type { i8, %T120*, %T229*, %T170* }
%T7 = type <{ i64, %T153* }>

$cd0 = comdat any
$cd1 = comdat any
$cd2 = comdat nodeduplicate
$cd3 = comdat any
$cd4 = comdat samesize
$cd5 = comdat samesize
$cd6 = comdat samesize
$cd7 = comdat any
$cd8 = comdat any
$cd9 = comdat largest
$cd10 = comdat largest
$cd11 = comdat nodeduplicate
$cd12 = comdat exactmatch
$cd13 = comdat largest
$cd14 = comdat exactmatch
$cd15 = comdat nodeduplicate
$cd16 = comdat largest
$cd17 = comdat samesize
$cd18 = comdat samesize
$cd19 = comdat samesize
$cd20 = comdat exactmatch
$cd21 = comdat largest
$cd22 = comdat exactmatch
$cd23 = comdat exactmatch
$cd24 = comdat largest
$cd25 = comdat any
$cd26 = comdat exactmatch
$cd27 = comdat largest
$cd28 = comdat any
$cd29 = comdat samesize
$cd30 = comdat any
$cd31 = comdat largest
$cd32 = comdat nodeduplicate
$cd33 = comdat exactmatch
$cd34 = comdat largest
$cd35 = comdat exactmatch
$cd36 = comdat samesize
$cd37 = comdat exactmatch
$cd38 = comdat exactmatch
$cd39 = comdat nodeduplicate
$cd40 = comdat any
$cd41 = comdat any
$cd42 = comdat samesize
$cd43 = comdat samesize
$cd44 = comdat largest
$cd45 = comdat nodeduplicate
$cd46 = comdat nodeduplicate
$cd47 = comdat samesize
$cd48 = comdat exactmatch
$cd49 = comdat any
$cd50 = comdat exactmatch
$cd51 = comdat exactmatch
$cd52 = comdat samesize
$cd53 = comdat any
$cd54 = comdat exactmatch
$cd55 = comdat samesize
$cd56 = comdat nodeduplicate
$cd57 = comdat largest
$cd58 = comdat nodeduplicate
$cd59 = comdat any

@0 = global i32 0
@gv1 = global i32* @gv42, comdat($cd21)
@gv2 = global %T102* null
@gv3 = constant void ()* @fn139
@gv4 = global i8* bitcast (i32* @gv594 to i8*), !md !129
@1 = external global i64
@gv6 = global i32 6
@gv7 = global i32* @18
@gv8 = global %T94* null
@gv9 = constant void ()* @fn197, comdat($cd48)
@2 = global i8* bitcast (i32* @gv468 to i8*), !md !216
@gv11 = external global i64
@gv12 = global i32 12
@gv13 = global i32* @gv18, comdat($cd28)
@gv14 = global %T87* null
@3 = constant void ()* @fn96
@gv16 = global i8* bitcast (i32* @60 to i8*), !md !559
@gv17 = external global i64
@gv18 = global i32 18
@gv19 = global i32* @60
@4 = global %T269* null
@gv21 = constant void ()* @fn236, comdat($cd7)
@gv22 = global i8* bitcast (i32* @gv426 to i8*), !md !100
@gv23 = external global i64
@gv24 = global i32 24
@5 = global i32* @gv306, comdat($cd7)
@gv26 = global %T25* null
@gv27 = constant void ()* @fn220
@gv28 = global i8* bitcast (i32* @gv588 to i8*), !md !103
@gv29 = external global i64
@6 = global i32 30
@gv31 = global i32* @gv336
@gv32 = global %T26* null
@gv33 = constant void ()* @fn64, comdat($cd17)
@gv34 = global i8* bitcast (i32* @96 to i8*), !md !464
@7 = external global i64
@gv36 = global i32 36
@gv37 = global i32* @gv582, comdat($cd4)
@gv38 = global %T114* null
@gv39 = constant void ()* @fn114
@8 = global i8* bitcast (i32* @gv486 to i8*), !md !475
@gv41 = external global i64
@gv42 = global i32 42
@gv43 = global i32* @gv372
@gv44 = global %T66* null
@9 = constant void ()* @fn14, comdat($cd1)
@gv46 = global i8* bitcast (i32* @gv78 to i8*), !md !851
@gv47 = external global i64
@gv48 = global i32 48
@gv49 = global i32* @gv348, comdat($cd8)
@10 = global %T127* null
@gv51 = constant void ()* @fn191
@gv52 = global i8* bitcast (i32* @gv162 to i8*), !md !32
@gv53 = external global i64
@gv54 = global i32 54
@11 = global i32* @gv132
@gv56 = global %T216* null
@gv57 = constant void ()* @fn87, comdat($cd3)
@gv58 = global i8* bitcast (i32* @gv378 to i8*), !md !658
@gv59 = external global i64
@12 = global i32 60
@gv61 = global i32* @gv168, comdat($cd56)
@gv62 = global %T254* null
@gv63 = constant void ()* @fn62
@gv64 = global i8* bitcast (i32* @gv486 to i8*), !md !463
@13 = external global i64
@gv66 = global i32 66
@gv67 = global i32* @gv558
@gv68 = global %T44* null
@gv69 = constant void ()* @fn10, comdat($cd27)
@14 = global i8* bitcast (i32* @gv186 to i8*), !md !665
@gv71 = external global i64
@gv72 = global i32 72
@gv73 = global i32* @gv378, comdat($cd34)
@gv74 = global %T71* null
@15 = constant void ()* @fn175
@gv76 = global i8* bitcast (i32* @gv12 to i8*), !md !707
@gv77 = external global i64
@gv78 = global i32 78
@gv79 = global i32* @gv258
@16 = global %T83* null
@gv81 = constant void ()* @fn83, comdat($cd44)
@gv82 = global i8* bitcast (i32* @gv42 to i8*), !md !36
@gv83 = external global i64
@gv84 = global i32 84
@17 = global i32* @gv414, comdat($cd46)
@gv86 = global %T100* null
@gv87 = constant void ()* @fn156
@gv88 = global i8* bitcast (i32* @gv126 to i8*), !md !352
@gv89 = external global i64
@18 = global i32 90
@gv91 = global i32* @gv318
@gv92 = global %T256* null
@gv93 = constant void ()* @fn195, comdat($cd59)
@gv94 = global i8* bitcast (i32* @36 to i8*), !md !132
@19 = external global i64
@gv96 = global i32 96
@gv97 = global i32* @gv48, comdat($cd21)
@gv98 = global %T87* null
@gv99 = constant void ()* @fn152
@20 = global i8* bitcast (i32* @48 to i8*), !md !566
@gv101 = external global i64
@gv102 = global i32 102
@gv103 = global i32* @gv138
@gv104 = global %T287* null
@21 = constant void ()* @fn20, comdat($cd32)
@gv106 = global i8* bitcast (i32* @gv216 to i8*), !md !84
@gv107 = external global i64
@gv108 = global i32 108
@gv109 = global i32* @gv138, comdat($cd11)
@22 = global %T251* null
@gv111 = constant void ()* @fn139
@gv112 = global i8* bitcast (i32* @gv144 to i8*), !md !264
@gv113 = external global i64
@gv114 = global i32 114
@23 = global i32* @78
@gv116 = global %T150* null
@gv117 = constant void ()* @fn259, comdat($cd9)
@gv118 = global i8* bitcast (i32* @gv468 to i8*), !md !56
@gv119 = external global i64
@24 = global i32 120
@gv121 = global i32* @gv264, comdat($cd55)
@gv122 = global %T144* null
@gv123 = constant void ()* @fn28
@gv124 = global i8* bitcast (i32* @gv48 to i8*), !md !486
@25 = external global i64
@gv126 = global i32 126
@gv127 = global i32* @gv96
@gv128 = global %T263* null
@gv129 = constant void ()* @fn181, comdat($cd31)
@26 = global i8* bitcast (i32* @gv186 to i8*), !md !694
@gv131 = external global i64
@gv132 = global i32 132
@gv133 = global i32* @gv438, comdat($cd56)
@gv134 = global %T65* null
@27 = constant void ()* @fn180
@gv136 = global i8* bitcast (i32* @gv408 to i8*), !md !516
@gv137 = external global i64
@gv138 = global i32 138
@gv139 = global i32* @gv366
@28 = global %T238* null
@gv141 = constant void ()* @fn182, comdat($cd13)
@gv142 = global i8* bitcast (i32* @12 to i8*), !md !339
@gv143 = external global i64
@gv144 = global i32 144
@29 = global i32* @24, comdat($cd26)
@gv146 = global %T261* null
@gv147 = constant void ()* @fn23
@gv148 = global i8* bitcast (i32* @gv18 to i8*), !md !520
@gv149 = external global i64
@30 = global i32 150
@gv151 = global i32* @gv534
@gv152 = global %T30* null
@gv153 = constant void ()* @fn16, comdat($cd36)
@gv154 = global i8* bitcast (i32* @gv402 to i8*), !md !427
@31 = external global i64
@gv156 = global i32 156
@gv157 = global i32* @gv528, comdat($cd38)
@gv158 = global %T148* null
@gv159 = constant void ()* @fn88
@32 = global i8* bitcast (i32* @gv408 to i8*), !md !144
@gv161 = external global i64
@gv162 = global i32 162
@gv163 = global i32* @gv336
@gv164 = global %T130* null
@33 = constant void ()* @fn199, comdat($cd34)
@gv166 = global i8* bitcast (i32* @gv276 to i8*), !md !397
@gv167 = external global i64
@gv168 = global i32 168
@gv169 = global i32* @gv558, comdat($cd12)
@34 = global %T60* null
@gv171 = constant void ()* @fn147
@gv172 = global i8* bitcast (i32* @84 to i8*), !md !858
@gv173 = external global i64
@gv174 = global i32 174
@35 = global i32* @gv216
@gv176 = global %T287* null
@gv177 = constant void ()* @fn142, comdat($cd9)
@gv178 = global i8* bitcast (i32* @gv186 to i8*), !md !148
@gv179 = external global i64
@36 = global i32 180
@gv181 = global i32* @gv162, comdat($cd8)
@gv182 = global %T74* null
@gv183 = constant void ()* @fn108
@gv184 = global i8* bitcast (i32* @72 to i8*), !md !728
@37 = external global i64
@gv186 = global i32 186
@gv187 = global i32* @gv576
@gv188 = global %T99* null
@gv189 = constant void ()* @fn125, comdat($cd10)
@38 = global i8* bitcast (i32* @96 to i8*), !md !103
@gv191 = external global i64
@gv192 = global i32 192
@gv193 = global i32* @gv498, comdat($cd30)
@gv194 = global %T63* null
@39 = constant void ()* @fn121
@gv196 = global i8* bitcast (i32* @gv276 to i8*), !md !189
@gv197 = external global i64
@gv198 = global i32 198
@gv199 = global i32* @gv318
@40 = global %T42* null
@gv201 = constant void ()* @fn221, comdat($cd31)
@gv202 = global i8* bitcast (i32* @gv114 to i8*), !md !287
@gv203 = external global i64
@gv204 = global i32 204
@41 = global i32* @gv48, comdat($cd7)
@gv206 = global %T228* null
@gv207 = constant void ()* @fn22
@gv208 = global i8* bitcast (i32* @gv516 to i8*), !md !713
@gv209 = external global i64
@42 = global i32 210
@gv211 = global i32* @gv474
@gv212 = global %T91* null
@gv213 = constant void ()* @fn123, comdat($cd36)
@gv214 = global i8* bitcast (i32* @gv546 to i8*), !md !634
@43 = external global i64
@gv216 = global i32 216
@gv217 = global i32* @gv132, comdat($cd18)
@gv218 = global %T265* null
@gv219 = constant void ()* @fn179
@44 = global i8* bitcast (i32* @gv138 to i8*), !md !590
@gv221 = external global i64
@gv222 = global i32 222
@gv223 = global i32* @gv576
@gv224 = global %T30* null
@45 = constant void ()* @fn162, comdat($cd46)
@gv226 = global i8* bitcast (i32* @gv222 to i8*), !md !790
@gv227 = external global i64
@gv228 = global i32 228
@gv229 = global i32* @gv552, comdat($cd29)
@46 = global %T112* null
@gv231 = constant void ()* @fn169
@gv232 = global i8* bitcast (i32* @gv222 to i8*), !md !346
@gv233 = external global i64
@gv234 = global i32 234
@47 = global i32* @gv132
@gv236 = global %T86* null
@gv237 = constant void ()* @fn243, comdat($cd22)
@gv238 = global i8* bitcast (i32* @gv264 to i8*), !md !480
@gv239 = external global i64
@48 = global i32 240
@gv241 = global i32* @36, comdat($cd16)
@gv242 = global %T109* null
@gv243 = constant void ()* @fn198
@gv244 = global i8* bitcast (i32* @gv594 to i8*), !md !491
@49 = external global i64
@gv246 = global i32 246
@gv247 = global i32* @114
@gv248 = global %T93* null
@gv249 = constant void ()* @fn136, comdat($cd14)
@50 = global i8* bitcast (i32* @gv78 to i8*), !md !709
@gv251 = external global i64
@gv252 = global i32 252
@gv253 = global i32* @gv96, comdat($cd40)
@gv254 = global %T6* null
@51 = constant void ()* @fn130
@gv256 = global i8* bitcast (i32* @gv204 to i8*), !md !658
@gv257 = external global i64
@gv258 = global i32 258
@gv259 = global i32* @gv228
@52 = global %T299* null
@gv261 = constant void ()* @fn114, comdat($cd38)
@gv262 = global i8* bitcast (i32* @gv144 to i8*), !md !21
@gv263 = external global i64
@gv264 = global i32 264
@53 = global i32* @gv378, comdat($cd51)
@gv266 = global %T151* null
@gv267 = constant void ()* @fn32
@gv268 = global i8* bitcast (i32* @18 to i8*), !md !236
@gv269 = external global i64
@54 = global i32 270
@gv271 = global i32* @gv498
@gv272 = global %T188* null
@gv273 = constant void ()* @fn239, comdat($cd13)
@gv274 = global i8* bitcast (i32* @gv54 to i8*), !md !309
@55 = external global i64
@gv276 = global i32 276
@gv277 = global i32* @gv528, comdat($cd48)
@gv278 = global %T196* null
@gv279 = constant void ()* @fn177
@56 = global i8* bitcast (i32* @gv96 to i8*), !md !110
@gv281 = external global i64
@gv282 = global i32 282
@gv283 = global i32* @102
@gv284 = global %T246* null
@57 = constant void ()* @fn15, comdat($cd2)
@gv286 = global i8* bitcast (i32* @gv492 to i8*), !md !187
@gv287 = external global i64
@gv288 = global i32 288
@gv289 = global i32* @gv438, comdat($cd54)
@58 = global %T197* null
@gv291 = constant void ()* @fn200
@gv292 = global i8* bitcast (i32* @gv72 to i8*), !md !580
@gv293 = external global i64
@gv294 = global i32 294
@59 = global i32* @66
@gv296 = global %T247* null
@gv297 = constant void ()* @fn259, comdat($cd19)
@gv298 = global i8* bitcast (i32* @gv324 to i8*), !md !501
@gv299 = external global i64
@60 = global i32 300
@gv301 = global i32* @gv402, comdat($cd44)
@gv302 = global %T8* null
@gv303 = constant void ()* @fn191
@gv304 = global i8* bitcast (i32* @gv174 to i8*), !md !415
@61 = external global i64
@gv306 = global i32 306
@gv307 = global i32* @gv552
@gv308 = global %T151* null
@gv309 = constant void ()* @fn223, comdat($cd26)
@62 = global i8* bitcast (i32* @gv594 to i8*), !md !612
@gv311 = external global i64
@gv312 = global i32 312
@gv313 = global i32* @gv156, comdat($cd11)
@gv314 = global %T260* null
@63 = constant void ()* @fn47
@gv316 = global i8* bitcast (i32* @gv156 to i8*), !md !102
@gv317 = external global i64
@gv318 = global i32 318
@gv319 = global i32* @gv234
@64 = global %T206* null
@gv321 = constant void ()* @fn43, comdat($cd38)
@gv322 = global i8* bitcast (i32* @48 to i8*), !md !324
@gv323 = external global i64
@gv324 = global i32 324
@65 = global i32* @gv366, comdat($cd23)
@gv326 = global %T242* null
@gv327 = constant void ()* @fn210
@gv328 = global i8* bitcast (i32* @36 to i8*), !md !682
@gv329 = external global i64
@66 = global i32 330
@gv331 = global i32* @gv96
@gv332 = global %T14* null
@gv333 = constant void ()* @fn65, comdat($cd3)
@gv334 = global i8* bitcast (i32* @gv126 to i8*), !md !822
@67 = external global i64
@gv336 = global i32 336
@gv337 = global i32* @gv492, comdat($cd41)
@gv338 = global %T269* null
@gv339 = constant void ()* @fn78
@68 = global i8* bitcast (i32* @gv216 to i8*), !md !453
@gv341 = external global i64
@gv342 = global i32 342
@gv343 = global i32* @gv486
@gv344 = global %T101* null
@69 = constant void ()* @fn189, comdat($cd18)
@gv346 = global i8* bitcast (i32* @96 to i8*), !md !346
@gv347 = external global i64
@gv348 = global i32 348
@gv349 = global i32* @gv546, comdat($cd44)
@70 = global %T237* null
@gv351 = constant void ()* @fn25
@gv352 = global i8* bitcast (i32* @90 to i8*), !md !173
@gv353 = external global i64
@gv354 = global i32 354
@71 = global i32* @gv192
@gv356 = global %T229* null
@gv357 = constant void ()* @fn183, comdat($cd47)
@gv358 = global i8* bitcast (i32* @90 to i8*), !md !773
@gv359 = external global i64
@72 = global i32 360
@gv361 = global i32* @gv204, comdat($cd46)
@gv362 = global %T196* null
@gv363 = constant void ()* @fn22
@gv364 = global i8* bitcast (i32* @gv498 to i8*), !md !861
@73 = external global i64
@gv366 = global i32 366
@gv367 = global i32* @gv294
@gv368 = global %T279* null
@gv369 = constant void ()* @fn158, comdat($cd53)
@74 = global i8* bitcast (i32* @gv126 to i8*), !md !894
@gv371 = external global i64
@gv372 = global i32 372
@gv373 = global i32* @42, comdat($cd12)
@gv374 = global %T119* null
@75 = constant void ()* @fn3
@gv376 = global i8* bitcast (i32* @gv66 to i8*), !md !426
@gv377 = external global i64
@gv378 = global i32 378
@gv379 = global i32* @gv324
@76 = global %T89* null
@gv381 = constant void ()* @fn79, comdat($cd4)
@gv382 = global i8* bitcast (i32* @gv132 to i8*), !md !391
@gv383 = external global i64
@gv384 = global i32 384
@77 = global i32* @gv354, comdat($cd15)
@gv386 = global %T112* null
@gv387 = constant void ()* @fn125
@gv388 = global i8* bitcast (i32* @gv156 to i8*), !md !599
@gv389 = external global i64
@78 = global i32 390
@gv391 = global i32* @gv486
@gv392 = global %T82* null
@gv393 = constant void ()* @fn194, comdat($cd34)
@gv394 = global i8* bitcast (i32* @gv264 to i8*), !md !381
@79 = external global i64
@gv396 = global i32 396
@gv397 = global i32* @gv486, comdat($cd56)
@gv398 = global %T234* null
@gv399 = constant void ()* @fn56
@80 = global i8* bitcast (i32* @gv12 to i8*), !md !846
@gv401 = external global i64
@gv402 = global i32 402
@gv403 = global i32* @gv84
@gv404 = global %T298* null
@81 = constant void ()* @fn93, comdat($cd28)
@gv406 = global i8* bitcast (i32* @gv66 to i8*), !md !103
@gv407 = external global i64
@gv408 = global i32 408
@gv409 = global i32* @gv36, comdat($cd36)
@82 = global %T186* null
@gv411 = constant void ()* @fn109
@gv412 = global i8* bitcast (i32* @gv588 to i8*), !md !661
@gv413 = external global i64
@gv414 = global i32 414
@83 = global i32* @gv162
@gv416 = global %T195* null
@gv417 = constant void ()* @fn107, comdat($cd55)
@gv418 = global i8* bitcast (i32* @gv528 to i8*), !md !705
@gv419 = external global i64
@84 = global i32 420
@gv421 = global i32* @gv294, comdat($cd33)
@gv422 = global %T103* null
@gv423 = constant void ()* @fn127
@gv424 = global i8* bitcast (i32* @48 to i8*), !md !562
@85 = external global i64
@gv426 = global i32 426
@gv427 = global i32* @gv138
@gv428 = global %T228* null
@gv429 = constant void ()* @fn241, comdat($cd44)
@86 = global i8* bitcast (i32* @gv204 to i8*), !md !151
@gv431 = external global i64
@gv432 = global i32 432
@gv433 = global i32* @gv546, comdat($cd30)
@gv434 = global %T201* null
@87 = constant void ()* @fn16
@gv436 = global i8* bitcast (i32* @gv384 to i8*), !md !618
@gv437 = external global i64
@gv438 = global i32 438
@gv439 = global i32* @gv192
@88 = global %T118* null
@gv441 = constant void ()* @fn85, comdat($cd34)
@gv442 = global i8* bitcast (i32* @gv18 to i8*), !md !280
@gv443 = external global i64
@gv444 = global i32 444
@89 = global i32* @gv204, comdat($cd56)
@gv446 = global %T144* null
@gv447 = constant void ()* @fn251
@gv448 = global i8* bitcast (i32* @gv276 to i8*), !md !584
@gv449 = external global i64
@90 = global i32 450
@gv451 = global i32* @gv186
@gv452 = global %T208* null
@gv453 = constant void ()* @fn97, comdat($cd1)
@gv454 = global i8* bitcast (i32* @gv282 to i8*), !md !155
@91 = external global i64
@gv456 = global i32 456
@gv457 = global i32* @gv192, comdat($cd7)
@gv458 = global %T95* null
@gv459 = constant void ()* @fn64
@92 = global i8* bitcast (i32* @gv168 to i8*), !md !589
@gv461 = external global i64
@gv462 = global i32 462
@gv463 = global i32* @gv36
@gv464 = global %T229* null
@93 = constant void ()* @fn213, comdat($cd28)
@gv466 = global i8* bitcast (i32* @gv384 to i8*), !md !807
@gv467 = external global i64
@gv468 = global i32 468
@gv469 = global i32* @gv354, comdat($cd42)
@94 = global %T200* null
@gv471 = constant void ()* @fn225
@gv472 = global i8* bitcast (i32* @gv102 to i8*), !md !386
@gv473 = external global i64
@gv474 = global i32 474
@95 = global i32* @gv294
@gv476 = global %T46* null
@gv477 = constant void ()* @fn24, comdat($cd31)
@gv478 = global i8* bitcast (i32* @gv42 to i8*), !md !427
@gv479 = external global i64
@96 = global i32 480
@gv481 = global i32* @gv18, comdat($cd40)
@gv482 = global %T42* null
@gv483 = constant void ()* @fn123
@gv484 = global i8* bitcast (i32* @gv408 to i8*), !md !806
@97 = external global i64
@gv486 = global i32 486
@gv487 = global i32* @gv468
@gv488 = global %T72* null
@gv489 = constant void ()* @fn69, comdat($cd44)
@98 = global i8* bitcast (i32* @gv546 to i8*), !md !428
@gv491 = external global i64
@gv492 = global i32 492
@gv493 = global i32* @gv366, comdat($cd33)
@gv494 = global %T19* null
@99 = constant void ()* @fn42
@gv496 = global i8* bitcast (i32* @gv48 to i8*), !md !734
@gv497 = external global i64
@gv498 = global i32 498
@gv499 = global i32* @gv486
@100 = global %T99* null
@gv501 = constant void ()* @fn91, comdat($cd45)
@gv502 = global i8* bitcast (i32* @gv216 to i8*), !md !119
@gv503 = external global i64
@gv504 = global i32 504
@101 = global i32* @gv534, comdat($cd43)
@gv506 = global %T154* null
@gv507 = constant void ()* @fn174
@gv508 = global i8* bitcast (i32* @gv552 to i8*), !md !501
@gv509 = external global i64
@102 = global i32 510
@gv511 = global i32* @gv462
@gv512 = global %T140* null
@gv513 = constant void ()* @fn137, comdat($cd22)
@gv514 = global i8* bitcast (i32* @gv264 to i8*), !md !619
@103 = external global i64
@gv516 = global i32 516
@gv517 = global i32* @36, comdat($cd1)
@gv518 = global %T257* null
@gv519 = constant void ()* @fn112
@104 = global i8* bitcast (i32* @gv318 to i8*), !md !883
@gv521 = external global i64
@gv522 = global i32 522
@gv523 = global i32* @18
@gv524 = global %T245* null
@105 = constant void ()* @fn151, comdat($cd25)
@gv526 = global i8* bitcast (i32* @72 to i8*), !md !235
@gv527 = external global i64
@gv528 = global i32 528
@gv529 = global i32* @gv252, comdat($cd45)
@106 = global %T178* null
@gv531 = constant void ()* @fn114
@gv532 = global i8* bitcast (i32* @gv342 to i8*), !md !263
@gv533 = external global i64
@gv534 = global i32 534
@107 = global i32* @gv6
@gv536 = global %T277* null
@gv537 = constant void ()* @fn3, comdat($cd16)
@gv538 = global i8* bitcast (i32* @gv294 to i8*), !md !152
@gv539 = external global i64
@108 = global i32 540
@gv541 = global i32* @gv84, comdat($cd33)
@gv542 = global %T36* null
@gv543 = constant void ()* @fn89
@gv544 = global i8* bitcast (i32* @gv486 to i8*), !md !52
@109 = external global i64
@gv546 = global i32 546
@gv547 = global i32* @gv558
@gv548 = global %T270* null
@gv549 = constant void ()* @fn119, comdat($cd7)
@110 = global i8* bitcast (i32* @gv294 to i8*), !md !854
@gv551 = external global i64
@gv552 = global i32 552
@gv553 = global i32* @gv204, comdat($cd53)
@gv554 = global %T180* null
@111 = constant void ()* @fn133
@gv556 = global i8* bitcast (i32* @gv78 to i8*), !md !495
@gv557 = external global i64
@gv558 = global i32 558
@gv559 = global i32* @gv432
@112 = global %T237* null
@gv561 = constant void ()* @fn76, comdat($cd45)
@gv562 = global i8* bitcast (i32* @gv384 to i8*), !md !73
@gv563 = external global i64
@gv564 = global i32 564
@113 = global i32* @gv396, comdat($cd24)
@gv566 = global %T184* null
@gv567 = constant void ()* @fn207
@gv568 = global i8* bitcast (i32* @gv18 to i8*), !md !192
@gv569 = external global i64
@114 = global i32 570
@gv571 = global i32* @gv198
@gv572 = global %T8* null
@gv573 = constant void ()* @fn79, comdat($cd15)
@gv574 = global i8* bitcast (i32* @gv138 to i8*), !md !146
@115 = external global i64
@gv576 = global i32 576
@gv577 = global i32* @gv468, comdat($cd41)
@gv578 = global %T92* null
@gv579 = constant void ()* @fn229
@116 = global i8* bitcast (i32* @gv138 to i8*), !md !64
@gv581 = external global i64
@gv582 = global i32 582
@gv583 = global i32* @gv486
@gv584 = global %T162* null
@117 = constant void ()* @fn180, comdat($cd45)
@gv586 = global i8* bitcast (i32* @gv408 to i8*), !md !43
@gv587 = external global i64
@gv588 = global i32 588
@gv589 = global i32* @gv228, comdat($cd15)
@118 = global %T164* null
@gv591 = constant void ()* @fn192
@gv592 = global i8* bitcast (i32* @gv138 to i8*), !md !333
@gv593 = external global i64
@gv594 = global i32 594
@119 = global i32* @gv306
@gv596 = global %T4* null
@gv597 = constant void ()* @fn201, comdat($cd46)
@gv598 = global i8* bitcast (i32* @96 to i8*), !md !423
@gv599 = external global i64

@alias0 = alias i32, i32* @gv72
@alias1 = alias i32, i32* @gv552
@alias2 = alias i32, i32* @90
@alias3 = alias i32, i32* @gv528
@alias4 = alias i32, i32* @42
@alias5 = alias i32, i32* @gv288

define void @fn0()  !dbgx !332 {
  %v0_0 = load i32, i32* @gv144, !tag !81
  %v0_1 = load i32, i32* @102, !tag !51
  %v0_2 = load i32, i32* @gv348, !tag !179
  %v0_3 = load i32, i32* @gv354, !tag !453
  call void @fn239() #44
  ret void
}

define void @fn1() #70 #67 {
  %v0_0 = load i32, i32* @gv468, !tag !210
  call void @fn172() #29
  ret void
}

define void @fn2() #66 {
  %v0_0 = load i32, i32* @gv216, !tag !686
  %v0_1 = load i32, i32* @gv432, !tag !229
  call void @fn194() #49
  br label %b1
b1:
  %v1_0 = load i32, i32* @gv564, !tag !835
  %v1_1 = load i32, i32* @gv258, !tag !857
  %v1_2 = load i32, i32* @gv546, !tag !21
  call void @fn212() #16
  br label %b2
b2:
  %v2_0 = load i32, i32* @gv408, !tag !39
  %v2_1 = load i32, i32* @gv294, !tag !562
  %v2_2 = load i32, i32* @gv228, !tag !884
  call void @fn41() #40
  ret void
}

define void @fn3() #26 #7 !dbgx !377 {
  %v0_0 = load i32, i32* @gv522, !tag !373
  %v0_1 = load i32, i32* @gv564, !tag !2
  %v0_2 = load i32, i32* @gv294, !tag !589
  call void @fn89() #16
  br label %b1
b1:
  %v1_0 = load i32, i32* @gv342, !tag !10
  %v1_1 = load i32, i32* @gv582, !tag !616
  %v1_2 = load i32, i32* @gv54, !tag !753
  call void @fn40() #44
  ret void
}

define void @fn4()  {
  %v0_0 = load i32, i32* @gv594, !tag !408
  %v0_1 = load i32, i32* @gv384, !tag !775
  call void @fn202() #23
  br label %b1
b1:
  %v1_0 = load i32, i32* @gv498, !tag !727
  call void @fn117() #43
  ret void
}

define void @fn5()  {
  %v0_0 = load i32, i32* @78, !tag !90
  %v0_1 = load i32, i32* @gv48, !tag !36
  call void @fn238() #8
  br label %b1
b1:
  %v1_0 = load i32, i32* @gv156, !tag !90
  %v1_1 = load i32, i32* @gv306, !tag !423
  %v1_2 = load i32, i32* @gv72, !tag !276
  %v1_3 = load i32, i32* @72, !tag !324
  call void @fn2() #20
  ret void
}

define void @fn6() #50 !dbgx !189 {
  %v0_0 = load i32, i32* @gv18, !tag !105
  %v0_1 = load i32, i32* @gv72, !tag !493
  %v0_2 = load i32, i32* @gv588, !tag !842
  %v0_3 = load i32, i32* @gv594, !tag !649
  call void @fn186() #0
  ret void
}

define void @fn7() #12 {
  %v0_0 = load i32, i32* @gv174, !tag !242
  %v0_1 = load i32, i32* @gv402, !tag !739
  %v0_2 = load i32, i32* @102, !tag !25
  %v0_3 = load i32, i32* @18, !tag !441
  call void @fn29() #47
  br label %b1
b1:
  %v1_0 = load i32, i32* @gv18, !tag !8
  call void @fn228() #43
  ret void
}

define void @fn8()  {
  %v0_0 = load i32, i32* @gv144, !tag !708
  call void @fn221() #8
  br label %b1
b1:
  %v1_0 = load i32, i32* @gv264, !tag !94
  %v1_1 = load i32, i32* @gv468, !tag !109
  %v1_2 = load i32, i32* @gv366, !tag !388
  %v1_3 = load i32, i32* @gv6, !tag !809
  call void @fn254() #65
  ret void
}

define void @fn9() #21 !dbgx !17 {
  %v0_0 = load i32, i32* @gv426, !tag !510
  %v0_1 = load i32, i32* @gv108, !tag !29
  %v0_2 = load i32, i32* @gv222, !tag !143
  call void @fn230() #22
  br label %b1
b1:
  %v1_0 = load i32, i32* @48, !tag !74
  %v1_1 = load i32, i32* @gv222, !tag !607
  %v1_2 = load i32, i32* @gv216, !tag !498
  %v1_3 = load i32, i32* @gv588, !tag !732
  call void @fn84() #7
  ret void
}

define void @fn10() #53 #25 {
  %v0_0 = load i32, i32* @66, !tag !381
  %v0_1 = load i32, i32* @gv498, !tag !123
  %v0_2 = load i32, i32* @gv282, !tag !199
  call void @fn107() #15
  ret void
}

define void @fn11() #59 {
  %v0_0 = load i32, i32* @gv186, !tag !559
  %v0_1 = load i32, i32* @gv234, !tag !427
  %v0_2 = load i32, i32* @gv546, !tag !354
  %v0_3 = load i32, i32* @gv228, !tag !497
  call void @fn203() #68
  br label %b1
b1:
  %v1_0 = load i32, i32* @gv474, !tag !235
  %v1_1 = load i32, i32* @gv468, !tag !165
  %v1_2 = load i32, i32* @0, !tag !743
  call void @fn42() #70
  br label %b2
b2:
  %v2_0 = load i32, i32* @48, !tag !345
  %v2_1 = load i32, i32* @gv222, !tag !280
  %v2_2 = load i32, i32* @gv84, !tag !125
  call void @fn216() #17
  ret void
}

define void @fn12() #6 !dbgx !799 {
  %v0_0 = load i32, i32* @gv408, !tag !454
  %v0_1 = load i32, i32* @36, !tag !207
  %v0_2 = load i32, i32* @60, !tag !792
  %v0_3 = load i32, i32* @gv132, !tag !866
  call void @fn243() #47
  br label %b1
b1:
  %v1_0 = load i32, i32* @gv324, !tag !675
  %v1_1 = load i32, i32* @gv426, !tag !416
  %v1_2 = load i32, i32* @gv594, !tag !620
  %v1_3 = load i32, i32* @gv594, !tag !346
  call void @fn166() #66
  br label %b2
b2:
  %v2_0 = load i32, i32* @gv576, !tag !669
  call void @fn239() #71
  ret void
}

define void @fn13() #24 #2 {
  %v0_0 = load i32, i32* @gv126, !tag !1
  call void @fn240() #39
  br label %b1
b1:
  %v1_0 = load i32, i32* @gv498, !tag !826
  call void @fn185() #24
  ret void
}

define void @fn14()  {
  %v0_0 = load i32, i32* @gv204, !tag !629
  %v0_1 = load i32, i32* @gv354, !tag !879
  call void @fn235() #65
  ret void
}

define void @fn15()  !dbgx !882 {
  %v0_0 = load i32, i32* @gv42, !tag !273
  %v0_1 = load i32, i32* @gv234, !tag !569
  %v0_2 = load i32, i32* @108, !tag !183
  call void @fn79() #22
  ret void
}

define void @fn16() #26 #39 {
  %v0_0 = load i32, i32* @gv336, !tag !97
  %v0_1 = load i32, i32* @gv312, !tag !0
  %v0_2 = load i32, i32* @gv114, !tag !629
  %v0_3 = load i32, i32* @gv132, !tag !757
  call void @fn48() #26
  br label %b1
b1:
  %v1_0 = load i32, i32* @54, !tag !558
  %v1_1 = load i32, i32* @gv216, !tag !544
  call void @fn82() #21
  ret void
}

define void @fn17() #8 #17 {
  %v0_0 = load i32, i32* @72, !tag !833
  %v0_1 = load i32, i32* @gv288, !tag !25
  %v0_2 = load i32, i32* @gv36, !tag !537
  call void @fn90() #26
  ret void
}

define void @fn18()  !dbgx !675 {
  %v0_0 = load i32, i32* @12, !tag !762
  %v0_1 = load i32, i32* @gv438, !tag !322
  %v0_2 = load i32, i32* @gv216, !tag !693
  call void @fn122() #30
  ret void
}

define void @fn19() #32 {
  %v0_0 = load i32, i32* @66, !tag !386
  %v0_1 = load i32, i32* @60, !tag !550
  %v0_2 = load i32, i32* @gv186, !tag !544
  call void @fn213() #58
  br label %b1
b1:
  %v1_0 = load i32, i32* @gv132, !tag !81
  %v1_1 = load i32, i32* @gv408, !tag !818
  %v1_2 = load i32, i32* @84, !tag !537
  call void @fn183() #75
  ret void
}

define void @fn20()  {
  %v0_0 = load i32, i32* @gv252, !tag !79
  %v0_1 = load i32, i32* @gv252, !tag !584
  call void @fn219() #43
  ret void
}

define void @fn21() #11 !dbgx !443 {
  %v0_0 = load i32, i32* @gv426, !tag !863
  %v0_1 = load i32, i32* @gv354, !tag !411
  %v0_2 = load i32, i32* @gv498, !tag !554
  call void @fn6() #13
  br label %b1
b1:
  %v1_0 = load i32, i32* @gv264, !tag !114
  %v1_1 = load i32, i32* @gv96, !tag !657
  %v1_2 = load i32, i32* @gv204, !tag !536
  %v1_3 = load i32, i32* @gv144, !tag !411
  call void @fn154() #54
  ret void
}

define void @fn22() #77 {
  %v0_0 = load i32, i32* @gv168, !tag !764
  call void @fn199() #25
  br label %b1
b1:
  %v1_0 = load i32, i32* @gv378, !tag !321
  %v1_1 = load i32, i32* @gv372, !tag !38
  call void @fn217() #3
  ret void
}

define void @fn23() #65 {
  %v0_0 = load i32, i32* @gv204, !tag !87
  %v0_1 = load i32, i32* @108, !tag !649
  call void @fn176() #13
  br label %b1
b1:
  %v1_0 = load i32, i32* @gv492, !tag !701
  call void @fn228() #75
  ret void
}

define void @fn24()  !dbgx !297 {
  %v0_0 = load i32, i32* @90, !tag !856
  %v0_1 = load i32, i32* @gv108, !tag !818
  %v0_2 = load i32, i32* @gv372, !tag !385
  %v0_3 = load i32, i32* @gv312, !tag !211
  call void @fn146() #71
  br label %b1
b1:
  %v1_0 = load i32, i32* @gv354, !tag !208
  %v1_1 = load i32, i32* @12, !tag !352
  %v1_2 = load i32, i32* @gv498, !tag !142
  %v1_3 = load i32, i32* @gv42, !tag !449
  call void @fn60() #8
  br label %b2
b2:
  %v2_0 = load i32, i32* @gv174, !tag !226
  %v2_1 = load i32, i32* @108, !tag !97
  call void @fn95() #68
  ret void
}

define void @fn25() #19 #29 {
  %v0_0 = load i32, i32* @gv354, !tag !63
  %v0_1 = load i32, i32* @gv468, !tag !484
  %v0_2 = load i32, i32* @gv468, !tag !570
  %v0_3 = load i32, i32* @gv354, !tag !770
  call void @fn92() #41
  br label %b1
b1:
  %v1_0 = load i32, i32* @gv462, !tag !49
  %v1_1 = load i32, i32* @gv252, !tag !351
  %v1_2 = load i32, i32* @84, !tag !825
  %v1_3 = load i32, i32* @gv336, !tag !81
  call void @fn216() #69
  br label %b2
b2:
  %v2_0 = load i32, i32* @gv276, !tag !899
  call void @fn201() #61
  ret void
}

define void @fn26()  {
  %v0_0 = load i32, i32* @gv108, !tag !755
  %v0_1 = load i32, i32* @gv216, !tag !299
  %v0_2 = load i32, i32* @gv444, !tag !650
  %v0_3 = load i32, i32* @108, !tag !112
  call void @fn99() #78
  br label %b1
b1:
  %v1_0 = load i32, i32* @24, !tag !292
  call void @fn180() #64
  ret void
}

define void @fn27() #78 !dbgx !603 {
  %v0_0 = load i32, i32* @gv384, !tag !186
  %v0_1 = load i32, i32* @30, !tag !419
  %v0_2 = load i32, i32* @gv276, !tag !133
  %v0_3 = load i32, i32* @gv144, !tag !139
  call void @fn148() #41
  br label %b1
b1:
  %v1_0 = load i32, i32* @gv294, !tag !589
  %v1_1 = load i32, i32* @gv192, !tag !169
  %v1_2 = load i32, i32* @gv114, !tag !237
  call void @fn117() #79
  br label %b2
b2:
  %v2_0 = load i32, i32* @gv564, !tag !28
  call void @fn159() #37
  ret void
}

define void @fn28() #39 {
  %v0_0 = load i32, i32* @gv498, !tag !624
  call void @fn52() #10
  ret void
}

define void @fn29() #29 {
  %v0_0 = load i32, i32* @gv336, !tag !504
  %v0_1 = load i32, i32* @gv522, !tag !346
  %v0_2 = load i32, i32* @114, !tag !400
  %v0_3 = load i32, i32* @gv192, !tag !870
  call void @fn113() #37
  br label %b1
b1:
  %v1_0 = load i32, i32* @gv222, !tag !82
  %v1_1 = load i32, i32* @gv294, !tag !595
  call void @fn217() #62
  br label %b2
b2:
  %v2_0 = load i32, i32* @gv246, !tag !119
  %v2_1 = load i32, i32* @gv186, !tag !61
  call void @fn114() #29
  ret void
}

define void @fn30() #61 !dbgx !732 {
  %v0_0 = load i32, i32* @gv48, !tag !514
  call void @fn206() #27
  ret void
}

define void @fn31() #69 {
  %v0_0 = load i32, i32* @gv294, !tag !83
  %v0_1 = load i32, i32* @114, !tag !527
  %v0_2 = load i32, i32* @gv18, !tag !34
  %v0_3 = load i32, i32* @90, !tag !658
  call void @fn17() #67
  br label %b1
b1:
  %v1_0 = load i32, i32* @0, !tag !582
  call void @fn97() #73
  ret void
}

define void @fn32() #59 {
  %v0_0 = load i32, i32* @gv552, !tag !646
  %v0_1 = load i32, i32* @36, !tag !544
  call void @fn25() #21
  br label %b1
b1:
  %v1_0 = load i32, i32* @gv258, !tag !851
  %v1_1 = load i32, i32* @gv36, !tag !257
  %v1_2 = load i32, i32* @gv528, !tag !401
  %v1_3 = load i32, i32* @gv396, !tag !313
  call void @fn62() #33
  ret void
}

define void @fn33()  !dbgx !793 {
  %v0_0 = load i32, i32* @gv48, !tag !304
  %v0_1 = load i32, i32* @60, !tag !195
  call void @fn58() #79
  br label %b1
b1:
  %v1_0 = load i32, i32* @gv414, !tag !122
  %v1_1 = load i32, i32* @gv594, !tag !872
  %v1_2 = load i32, i32* @gv6, !tag !134
  %v1_3 = load i32, i32* @gv318, !tag !163
  call void @fn153() #13
  br label %b2
b2:
  %v2_0 = load i32, i32* @30, !tag !98
  %v2_1 = load i32, i32* @gv324, !tag !24
  %v2_2 = load i32, i32* @60, !tag !548
  call void @fn204() #29
  ret void
}

define void @fn34() #48 #17 {
  %v0_0 = load i32, i32* @gv204, !tag !40
  call void @fn195() #14
  br label %b1
b1:
  %v1_0 = load i32, i32* @gv438, !tag !580
  %v1_1 = load i32, i32* @gv546, !tag !591
  %v1_2 = load i32, i32* @gv342, !tag !436
  call void @fn120() #42
  br label %b2
b2:
  %v2_0 = load i32, i32* @6, !tag !580
  %v2_1 = load i32, i32* @gv534, !tag !880
  %v2_2 = load i32, i32* @gv306, !tag !570
  %v2_3 = load i32, i32* @gv306, !tag !384
  call void @fn198() #67
  ret void
}

define void @fn35()  {
  %v0_0 = load i32, i32* @gv204, !tag !634
  %v0_1 = load i32, i32* @gv486, !tag !396
  %v0_2 = load i32, i32* @48, !tag !154
  call void @fn216() #17
  br label %b1
b1:
  %v1_0 = load i32, i32* @gv456, !tag !550
  call void @fn16() #49
  ret void
}

define void @fn36() #12 !dbgx !498 {
  %v0_0 = load i32, i32* @gv234, !tag !778
  call void @fn59() #6
  br label %b1
b1:
  %v1_0 = load i32, i32* @gv384, !tag !570
  %v1_1 = load i32, i32* @gv276, !tag !826
  %v1_2 = load i32, i32* @gv306, !tag !263
  %v1_3 = load i32, i32* @gv306, !tag !53
  call void @fn210() #40
  ret void
}

define void @fn37() #8 {
  %v0_0 = load i32, i32* @gv288, !tag !147
  %v0_1 = load i32, i32* @gv186, !tag !855
  %v0_2 = load i32, i32* @gv372, !tag !831
  call void @fn36() #7
  ret void
}

define void @fn38()  {
  %v0_0 = load i32, i32* @gv24, !tag !633
  %v0_1 = load i32, i32* @gv426, !tag !786
  %v0_2 = load i32, i32* @gv546, !tag !2
  call void @fn43() #11
  br label %b1
b1:
  %v1_0 = load i32, i32* @78, !tag !377
  %v1_1 = load i32, i32* @gv456, !tag !265
  %v1_2 = load i32, i32* @gv234, !tag !182
  %v1_3 = load i32, i32* @gv564, !tag !483
  call void @fn30() #59
  ret void
}

define void @fn39() #61 #3 !dbgx !549 {
  %v0_0 = load i32, i32* @gv432, !tag !209
  call void @fn100() #28
  br label %b1
b1:
  %v1_0 = load i32, i32* @gv78, !tag !31
  %v1_1 = load i32, i32* @gv222, !tag !739
  %v1_2 = load i32, i32* @gv588, !tag !67
  call void @fn2() #45
  ret void
}

define void @fn40() #2 {
  %v0_0 = load i32, i32* @gv354, !tag !831
  %v0_1 = load i32, i32* @gv396, !tag !397
  %v0_2 = load i32, i32* @gv558, !tag !897
  call void @fn242() #25
  br label %b1
b1:
  %v1_0 = load i32, i32* @gv492, !tag !394
  %v1_1 = load i32, i32* @gv408, !tag !125
  %v1_2 = load i32, i32* @gv426, !tag !594
  %v1_3 = load i32, i32* @gv234, !tag !810
  call void @fn27() #21
  br label %b2
b2:
  %v2_0 = load i32, i32* @gv402, !tag !4
  %v2_1 = load i32, i32* @gv216, !tag !634
  %v2_2 = load i32, i32* @96, !tag !599
  call void @fn59() #48
  ret void
}

define void @fn41() #29 {
  %v0_0 = load i32, i32* @gv378, !tag !402
  %v0_1 = load i32, i32* @gv528, !tag !899
  call void @fn56() #57
  br label %b1
b1:
  %v1_0 = load i32, i32* @90, !tag !278
  %v1_1 = load i32, i32* @60, !tag !525
  %v1_2 = load i32, i32* @gv162, !tag !656
  call void @fn150() #19
  ret void
}

define void @fn42() #5 #57 !dbgx !295 {
  %v0_0 = load i32, i32* @gv6, !tag !478
  %v0_1 = load i32, i32* @gv402, !tag !213
  %v0_2 = load i32, i32* @gv54, !tag !355
  call void @fn130() #33
  br label %b1
b1:
  %v1_0 = load i32, i32* @gv174, !tag !417
  call void @fn159() #36
  br label %b2
b2:
  %v2_0 = load i32, i32* @gv486, !tag !405
  %v2_1 = load i32, i32* @108, !tag !258
  call void @fn149() #33
  ret void
}

define void @fn43() #39 #28 {
  %v0_0 = load i32, i32* @gv552, !tag !173
  %v0_1 = load i32, i32* @gv54, !tag !249
  call void @fn238() #9
  br label %b1
b1:
  %v1_0 = load i32, i32* @66, !tag !600
  call void @fn135() #35
  br label %b2
b2:
  %v2_0 = load i32, i32* @gv576, !tag !65
  call void @fn67() #0
  ret void
}

define void @fn44() #10 #3 {
  %v0_0 = load i32, i32* @gv378, !tag !603
  call void @fn22() #13
  ret void
}

define void @fn45()  !dbgx !511 {
  %v0_0 = load i32, i32* @gv534, !tag !811
  %v0_1 = load i32, i32* @gv402, !tag !729
  %v0_2 = load i32, i32* @gv324, !tag !285
  call void @fn188() #48
  ret void
}

define void @fn46()  {
  %v0_0 = load i32, i32* @gv6, !tag !662
  %v0_1 = load i32, i32* @48, !tag !127
  call void @fn130() #21
  br label %b1
b1:
  %v1_0 = load i32, i32* @42, !tag !216
  %v1_1 = load i32, i32* @96, !tag !232
  %v1_2 = load i32, i32* @gv342, !tag !458
  %v1_3 = load i32, i32* @gv258, !tag !821
  call void @fn16() #49
  br label %b2
b2:
  %v2_0 = load i32, i32* @gv246, !tag !344
  %v2_1 = load i32, i32* @gv438, !tag !443
  %v2_2 = load i32, i32* @gv156, !tag !523
  call void @fn177() #39
  ret void
}

define void @fn47() #67 #43 {
  %v0_0 = load i32, i32* @gv42, !tag !482
  %v0_1 = load i32, i32* @48, !tag !546
  %v0_2 = load i32, i32* @gv432, !tag !720
  %v0_3 = load i32, i32* @gv228, !tag !150
  call void @fn88() #21
  ret void
}

define void @fn48()  !dbgx !321 {
  %v0_0 = load i32, i32* @gv342, !tag !251
  %v0_1 = load i32, i32* @gv36, !tag !473
  call void @fn215() #50
  br label %b1
b1:
  %v1_0 = load i32, i32* @gv138, !tag !780
  %v1_1 = load i32, i32* @gv396, !tag !383
  call void @fn34() #9
  br label %b2
b2:
  %v2_0 = load i32, i32* @gv138, !tag !554
  %v2_1 = load i32, i32* @24, !tag !706
  %v2_2 = load i32, i32* @gv6, !tag !155
  %v2_3 = load i32, i32* @96, !tag !851
  call void @fn25() #78
  ret void
}

define void @fn49() #40 #11 {
  %v0_0 = load i32, i32* @gv108, !tag !632
  call void @fn213() #40
  br label %b1
b1:
  %v1_0 = load i32, i32* @114, !tag !406
  %v1_1 = load i32, i32* @gv156, !tag !762
  %v1_2 = load i32, i32* @102, !tag !0
  %v1_3 = load i32, i32* @gv366, !tag !157
  call void @fn113() #76
  ret void
}

define void @fn50() #5 {
  %v0_0 = load i32, i32* @gv36, !tag !42
  %v0_1 = load i32, i32* @gv564, !tag !49
  %v0_2 = load i32, i32* @gv222, !tag !91
  call void @fn183() #26
  br label %b1
b1:
  %v1_0 = load i32, i32* @gv306, !tag !352
  %v1_1 = load i32, i32* @24, !tag !157
  call void @fn109() #6
  ret void
}

define void @fn51() #72 !dbgx !822 {
  %v0_0 = load i32, i32* @72, !tag !668
  %v0_1 = load i32, i32* @gv534, !tag !28
  %v0_2 = load i32, i32* @gv36, !tag !721
  call void @fn216() #50
  br label %b1
b1:
  %v1_0 = load i32, i32* @gv588, !tag !677
  call void @fn221() #45
  ret void
}

define void @fn52() #61 #55 {
  %v0_0 = load i32, i32* @gv276, !tag !220
  call void @fn15() #68
  ret void
}

define void @fn53()  {
  %v0_0 = load i32, i32* @gv558, !tag !644
  call void @fn173() #77
  br label %b1
b1:
  %v1_0 = load i32, i32* @gv276, !tag !881
  %v1_1 = load i32, i32* @0, !tag !59
  %v1_2 = load i32, i32* @gv114, !tag !509
  call void @fn117() #75
  br label %b2
b2:
  %v2_0 = load i32, i32* @gv102, !tag !779
  %v2_1 = load i32, i32* @gv6, !tag !462
  %v2_2 = load i32, i32* @72, !tag !840
  call void @fn170() #29
  ret void
}

define void @fn54() #10 !dbgx !875 {
  %v0_0 = load i32, i32* @84, !tag !94
  %v0_1 = load i32, i32* @gv162, !tag !293
  %v0_2 = load i32, i32* @gv276, !tag !69
  call void @fn72() #42
  ret void
}

define void @fn55() #70 {
  %v0_0 = load i32, i32* @gv252, !tag !30
  call void @fn35() #64
  br label %b1
b1:
  %v1_0 = load i32, i32* @gv414, !tag !22
  %v1_1 = load i32, i32* @108, !tag !724
  call void @fn231() #46
  br label %b2
b2:
  %v2_0 = load i32, i32* @18, !tag !571
  %v2_1 = load i32, i32* @gv96, !tag !576
  %v2_2 = load i32, i32* @gv378, !tag !225
  %v2_3 = load i32, i32* @72, !tag !137
  call void @fn123() #62
  ret void
}

define void @fn56() #36 #10 {
  %v0_0 = load i32, i32* @gv66, !tag !536
  %v0_1 = load i32, i32* @gv402, !tag !767
  call void @fn250() #1
  ret void
}

define void @fn57()  !dbgx !706 {
  %v0_0 = load i32, i32* @gv456, !tag !507
  call void @fn112() #3
  br label %b1
b1:
  %v1_0 = load i32, i32* @gv192, !tag !797
  %v1_1 = load i32, i32* @gv36, !tag !724
  %v1_2 = load i32, i32* @gv516, !tag !268
  call void @fn98() #49
  ret void
}

define void @fn58() #73 #15 {
  %v0_0 = load i32, i32* @84, !tag !223
  call void @fn140() #78
  br label %b1
b1:
  %v1_0 = load i32, i32* @gv234, !tag !510
  call void @fn130() #7
  br label %b2
b2:
  %v2_0 = load i32, i32* @gv594, !tag !714
  call void @fn216() #73
  ret void
}

define void @fn59()  {
  %v0_0 = load i32, i32* @12, !tag !399
  %v0_1 = load i32, i32* @gv594, !tag !646
  call void @fn185() #69
  ret void
}

define void @fn60()  !dbgx !93 {
  %v0_0 = load i32, i32* @gv498, !tag !99
  %v0_1 = load i32, i32* @gv132, !tag !308
  %v0_2 = load i32, i32* @gv348, !tag !478
  call void @fn9() #24
  ret void
}

define void @fn61()  {
  %v0_0 = load i32, i32* @gv426, !tag !890
  call void @fn105() #49
  br label %b1
b1:
  %v1_0 = load i32, i32* @gv372, !tag !717
  %v1_1 = load i32, i32* @gv114, !tag !750
  %v1_2 = load i32, i32* @gv162, !tag !477
  %v1_3 = load i32, i32* @6, !tag !28
  call void @fn161() #14
  ret void
}

define void @fn62() #43 #70 {
  %v0_0 = load i32, i32* @gv342, !tag !629
  %v0_1 = load i32, i32* @gv372, !tag !395
  %v0_2 = load i32, i32* @102, !tag !54
  call void @fn170() #77
  ret void
}

define void @fn63() #28 !dbgx !676 {
  %v0_0 = load i32, i32* @gv492, !tag !228
  %v0_1 = load i32, i32* @gv492, !tag !375
  %v0_2 = load i32, i32* @gv294, !tag !185
  %v0_3 = load i32, i32* @gv426, !tag !518
  call void @fn4() #5
  br label %b1
b1:
  %v1_0 = load i32, i32* @72, !tag !163
  %v1_1 = load i32, i32* @gv24, !tag !357
  %v1_2 = load i32, i32* @gv84, !tag !734
  call void @fn240() #38
  br label %b2
b2:
  %v2_0 = load i32, i32* @48, !tag !776
  %v2_1 = load i32, i32* @84, !tag !529
  call void @fn235() #41
  ret void
}

define void @fn64() #20 #64 {
  %v0_0 = load i32, i32* @gv144, !tag !100
  call void @fn109() #20
  br label %b1
b1:
  %v1_0 = load i32, i32* @gv258, !tag !550
  %v1_1 = load i32, i32* @gv468, !tag !768
  call void @fn177() #34
  br label %b2
b2:
  %v2_0 = load i32, i32* @gv108, !tag !12
  %v2_1 = load i32, i32* @gv222, !tag !731
  %v2_2 = load i32, i32* @gv174, !tag !46
  call void @fn245() #20
  ret void
}

define void @fn65() #24 {
  %v0_0 = load i32, i32* @gv294, !tag !316
  %v0_1 = load i32, i32* @gv252, !tag !534
  call void @fn171() #0
  br label %b1
b1:
  %v1_0 = load i32, i32* @gv54, !tag !287
  %v1_1 = load i32, i32* @gv546, !tag !91
  call void @fn127() #9
  br label %b2
b2:
  %v2_0 = load i32, i32* @gv138, !tag !396
  call void @fn138() #77
  ret void
}

define void @fn66() #71 !dbgx !21 {
  %v0_0 = load i32, i32* @gv24, !tag !304
  call void @fn105() #63
  br label %b1
b1:
  %v1_0 = load i32, i32* @gv594, !tag !61
  %v1_1 = load i32, i32* @gv432, !tag !888
  call void @fn151() #16
  ret void
}

define void @fn67()  {
  %v0_0 = load i32, i32* @gv444, !tag !743
  %v0_1 = load i32, i32* @30, !tag !838
  %v0_2 = load i32, i32* @gv222, !tag !250
  call void @fn86() #65
  br label %b1
b1:
  %v1_0 = load i32, i32* @gv144, !tag !187
  %v1_1 = load i32, i32* @gv456, !tag !895
  %v1_2 = load i32, i32* @gv48, !tag !270
  call void @fn6() #73
  ret void
}

define void @fn68() #79 #50 {
  %v0_0 = load i32, i32* @gv582, !tag !164
  %v0_1 = load i32, i32* @gv156, !tag !712
  call void @fn252() #50
  ret void
}

define void @fn69()  !dbgx !784 {
  %v0_0 = load i32, i32* @gv156, !tag !278
  call void @fn4() #50
  br label %b1
b1:
  %v1_0 = load i32, i32* @gv384, !tag !824
  %v1_1 = load i32, i32* @gv372, !tag !526
  call void @fn161() #15
  br label %b2
b2:
  %v2_0 = load i32, i32* @96, !tag !570
  %v2_1 = load i32, i32* @gv498, !tag !407
  call void @fn38() #51
  ret void
}

define void @fn70() #19 #39 {
  %v0_0 = load i32, i32* @gv312, !tag !833
  %v0_1 = load i32, i32* @gv366, !tag !191
  %v0_2 = load i32, i32* @78, !tag !158
  %v0_3 = load i32, i32* @gv456, !tag !488
  call void @fn99() #56
  br label %b1
b1:
  %v1_0 = load i32, i32* @60, !tag !349
  %v1_1 = load i32, i32* @30, !tag !17
  %v1_2 = load i32, i32* @gv294, !tag !748
  call void @fn259() #36
  ret void
}

define void @fn71()  {
  %v0_0 = load i32, i32* @gv348, !tag !374
  %v0_1 = load i32, i32* @6, !tag !676
  %v0_2 = load i32, i32* @gv72, !tag !718
  call void @fn36() #75
  br label %b1
b1:
  %v1_0 = load i32, i32* @gv198, !tag !98
  %v1_1 = load i32, i32* @gv222, !tag !158
  %v1_2 = load i32, i32* @78, !tag !602
  %v1_3 = load i32, i32* @gv402, !tag !339
  call void @fn115() #76
  ret void
}

define void @fn72() #5 !dbgx !836 {
  %v0_0 = load i32, i32* @gv324, !tag !448
  %v0_1 = load i32, i32* @gv486, !tag !376
  %v0_2 = load i32, i32* @gv204, !tag !171
  %v0_3 = load i32, i32* @gv546, !tag !483
  call void @fn131() #53
  br label %b1
b1:
  %v1_0 = load i32, i32* @gv432, !tag !160
  %v1_1 = load i32, i32* @gv48, !tag !680
  call void @fn63() #42
  br label %b2
b2:
  %v2_0 = load i32, i32* @gv408, !tag !121
  %v2_1 = load i32, i32* @gv444, !tag !443
  %v2_2 = load i32, i32* @gv108, !tag !616
  %v2_3 = load i32, i32* @gv252, !tag !25
  call void @fn69() #72
  ret void
}

define void @fn73() #51 {
  %v0_0 = load i32, i32* @gv318, !tag !435
  %v0_1 = load i32, i32* @gv516, !tag !161
  %v0_2 = load i32, i32* @gv174, !tag !831
  call void @fn17() #46
  br label %b1
b1:
  %v1_0 = load i32, i32* @gv516, !tag !87
  %v1_1 = load i32, i32* @54, !tag !116
  %v1_2 = load i32, i32* @gv396, !tag !518
  call void @fn127() #19
  ret void
}

define void @fn74() #48 #35 {
  %v0_0 = load i32, i32* @gv282, !tag !146
  %v0_1 = load i32, i32* @gv12, !tag !777
  %v0_2 = load i32, i32* @12, !tag !221
  %v0_3 = load i32, i32* @6, !tag !285
  call void @fn220() #24
  ret void
}

define void @fn75() #47 !dbgx !841 {
  %v0_0 = load i32, i32* @114, !tag !24
  %v0_1 = load i32, i32* @gv294, !tag !807
  call void @fn253() #61
  br label %b1
b1:
  %v1_0 = load i32, i32* @gv186, !tag !821
  %v1_1 = load i32, i32* @gv336, !tag !858
  %v1_2 = load i32, i32* @gv204, !tag !109
  %v1_3 = load i32, i32* @gv474, !tag !100
  call void @fn147() #62
  ret void
}

define void @fn76()  {
  %v0_0 = load i32, i32* @gv132, !tag !763
  %v0_1 = load i32, i32* @gv534, !tag !711
  %v0_2 = load i32, i32* @gv192, !tag !518
  call void @fn0() #23
  br label %b1
b1:
  %v1_0 = load i32, i32* @gv42, !tag !742
  %v1_1 = load i32, i32* @gv54, !tag !307
  %v1_2 = load i32, i32* @66, !tag !367
  %v1_3 = load i32, i32* @gv234, !tag !398
  call void @fn245() #20
  ret void
}

define void @fn77()  {
  %v0_0 = load i32, i32* @84, !tag !220
  %v0_1 = load i32, i32* @gv144, !tag !421
  %v0_2 = load i32, i32* @gv198, !tag !354
  call void @fn7() #47
  ret void
}

define void @fn78() #30 !dbgx !348 {
  %v0_0 = load i32, i32* @114, !tag !267
  %v0_1 = load i32, i32* @gv78, !tag !415
  %v0_2 = load i32, i32* @18, !tag !673
  call void @fn179() #74
  ret void
}

define void @fn79() #67 {
  %v0_0 = load i32, i32* @gv222, !tag !31
  call void @fn175() #11
  br label %b1
b1:
  %v1_0 = load i32, i32* @gv72, !tag !553
  call void @fn176() #65
  br label %b2
b2:
  %v2_0 = load i32, i32* @gv246, !tag !695
  %v2_1 = load i32, i32* @gv6, !tag !475
  %v2_2 = load i32, i32* @gv252, !tag !448
  %v2_3 = load i32, i32* @84, !tag !109
  call void @fn90() #35
  ret void
}

define void @fn80() #10 {
  %v0_0 = load i32, i32* @gv12, !tag !542
  %v0_1 = load i32, i32* @24, !tag !887
  %v0_2 = load i32, i32* @gv342, !tag !404
  %v0_3 = load i32, i32* @gv192, !tag !581
  call void @fn132() #70
  ret void
}

define void @fn81() #57 #40 !dbgx !478 {
  %v0_0 = load i32, i32* @gv582, !tag !326
  %v0_1 = load i32, i32* @gv258, !tag !199
  %v0_2 = load i32, i32* @gv18, !tag !318
  %v0_3 = load i32, i32* @gv594, !tag !822
  call void @fn123() #60
  ret void
}

define void @fn82() #6 {
  %v0_0 = load i32, i32* @gv66, !tag !896
  %v0_1 = load i32, i32* @gv138, !tag !625
  %v0_2 = load i32, i32* @gv342, !tag !61
  %v0_3 = load i32, i32* @gv228, !tag !219
  call void @fn160() #35
  br label %b1
b1:
  %v1_0 = load i32, i32* @gv12, !tag !390
  %v1_1 = load i32, i32* @gv384, !tag !853
  %v1_2 = load i32, i32* @gv504, !tag !475
  call void @fn23() #75
  ret void
}

define void @fn83() #28 {
  %v0_0 = load i32, i32* @gv222, !tag !683
  %v0_1 = load i32, i32* @gv42, !tag !318
  %v0_2 = load i32, i32* @gv84, !tag !660
  %v0_3 = load i32, i32* @gv84, !tag !30
  call void @fn136() #24
  br label %b1
b1:
  %v1_0 = load i32, i32* @gv492, !tag !21
  %v1_1 = load i32, i32* @gv102, !tag !731
  %v1_2 = load i32, i32* @gv246, !tag !209
  call void @fn249() #31
  ret void
}

define void @fn84() #17 !dbgx !378 {
  %v0_0 = load i32, i32* @gv78, !tag !303
  %v0_1 = load i32, i32* @gv306, !tag !468
  %v0_2 = load i32, i32* @gv114, !tag !842
  call void @fn207() #79
  ret void
}

define void @fn85() #64 #64 {
  %v0_0 = load i32, i32* @gv378, !tag !158
  %v0_1 = load i32, i32* @gv72, !tag !98
  %v0_2 = load i32, i32* @gv426, !tag !680
  %v0_3 = load i32, i32* @18, !tag !2
  call void @fn35() #8
  br label %b1
b1:
  %v1_0 = load i32, i32* @30, !tag !309
  call void @fn27() #18
  ret void
}

define void @fn86()  {
  %v0_0 = load i32, i32* @gv432, !tag !722
  %v0_1 = load i32, i32* @gv522, !tag !272
  %v0_2 = load i32, i32* @gv546, !tag !246
  call void @fn177() #16
  ret void
}

define void @fn87() #77 !dbgx !699 {
  %v0_0 = load i32, i32* @gv468, !tag !575
  %v0_1 = load i32, i32* @gv444, !tag !433
  call void @fn221() #74
  br label %b1
b1:
  %v1_0 = load i32, i32* @gv462, !tag !820
  %v1_1 = load i32, i32* @48, !tag !556
  %v1_2 = load i32, i32* @gv144, !tag !545
  call void @fn65() #3
  br label %b2
b2:
  %v2_0 = load i32, i32* @6, !tag !374
  %v2_1 = load i32, i32* @gv432, !tag !390
  %v2_2 = load i32, i32* @48, !tag !62
  call void @fn132() #37
  ret void
}

define void @fn88()  {
  %v0_0 = load i32, i32* @gv6, !tag !499
  %v0_1 = load i32, i32* @gv84, !tag !272
  call void @fn138() #50
  br label %b1
b1:
  %v1_0 = load i32, i32* @gv474, !tag !787
  %v1_1 = load i32, i32* @gv306, !tag !591
  %v1_2 = load i32, i32* @gv294, !tag !620
  call void @fn169() #70
  br label %b2
b2:
  %v2_0 = load i32, i32* @gv558, !tag !890
  %v2_1 = load i32, i32* @gv204, !tag !863
  call void @fn149() #24
  ret void
}

define void @fn89() #4 #62 {
  %v0_0 = load i32, i32* @gv534, !tag !254
  %v0_1 = load i32, i32* @gv486, !tag !235
  %v0_2 = load i32, i32* @78, !tag !420
  %v0_3 = load i32, i32* @gv222, !tag !307
  call void @fn73() #21
  ret void
}

define void @fn90()  !dbgx !2 {
  %v0_0 = load i32, i32* @gv354, !tag !847
  call void @fn13() #73
  br label %b1
b1:
  %v1_0 = load i32, i32* @gv486, !tag !219
  %v1_1 = load i32, i32* @gv294, !tag !472
  %v1_2 = load i32, i32* @gv408, !tag !402
  call void @fn1() #43
  br label %b2
b2:
  %v2_0 = load i32, i32* @gv534, !tag !186
  call void @fn181() #9
  ret void
}

define void @fn91() #14 #17 {
  %v0_0 = load i32, i32* @gv426, !tag !144
  %v0_1 = load i32, i32* @gv174, !tag !471
  call void @fn9() #25
  br label %b1
b1:
  %v1_0 = load i32, i32* @gv546, !tag !127
  %v1_1 = load i32, i32* @gv42, !tag !676
  %v1_2 = load i32, i32* @gv114, !tag !284
  %v1_3 = load i32, i32* @gv78, !tag !806
  call void @fn176() #45
  ret void
}

define void @fn92()  {
  %v0_0 = load i32, i32* @gv414, !tag !171
  %v0_1 = load i32, i32* @114, !tag !303
  call void @fn54() #68
  ret void
}

define void @fn93() #40 #49 !dbgx !547 {
  %v0_0 = load i32, i32* @gv528, !tag !592
  %v0_1 = load i32, i32* @gv6, !tag !428
  %v0_2 = load i32, i32* @gv414, !tag !18
  call void @fn67() #47
  ret void
}

define void @fn94()  {
  %v0_0 = load i32, i32* @gv246, !tag !786
  call void @fn147() #45
  ret void
}

define void @fn95() #50 #26 {
  %v0_0 = load i32, i32* @gv378, !tag !830
  %v0_1 = load i32, i32* @108, !tag !33
  call void @fn242() #75
  br label %b1
b1:
  %v1_0 = load i32, i32* @72, !tag !847
  %v1_1 = load i32, i32* @gv24, !tag !241
  %v1_2 = load i32, i32* @gv276, !tag !714
  call void @fn169() #8
  ret void
}

define void @fn96() #1 !dbgx !562 {
  %v0_0 = load i32, i32* @gv444, !tag !850
  %v0_1 = load i32, i32* @42, !tag !287
  %v0_2 = load i32, i32* @gv492, !tag !55
  %v0_3 = load i32, i32* @gv426, !tag !743
  call void @fn249() #3
  br label %b1
b1:
  %v1_0 = load i32, i32* @gv222, !tag !644
  call void @fn101() #52
  br label %b2
b2:
  %v2_0 = load i32, i32* @gv276, !tag !704
  %v2_1 = load i32, i32* @gv96, !tag !644
  %v2_2 = load i32, i32* @30, !tag !373
  call void @fn235() #59
  ret void
}

define void @fn97() #48 #19 {
  %v0_0 = load i32, i32* @gv282, !tag !290
  %v0_1 = load i32, i32* @gv324, !tag !229
  %v0_2 = load i32, i32* @gv198, !tag !729
  %v0_3 = load i32, i32* @gv348, !tag !839
  call void @fn0() #75
  br label %b1
b1:
  %v1_0 = load i32, i32* @60, !tag !87
  %v1_1 = load i32, i32* @gv474, !tag !127
  %v1_2 = load i32, i32* @gv534, !tag !831
  %v1_3 = load i32, i32* @96, !tag !874
  call void @fn179() #69
  ret void
}

define void @fn98() #58 #63 {
  %v0_0 = load i32, i32* @18, !tag !824
  %v0_1 = load i32, i32* @gv258, !tag !471
  call void @fn36() #21
  br label %b1
b1:
  %v1_0 = load i32, i32* @gv102, !tag !807
  %v1_1 = load i32, i32* @gv258, !tag !284
  call void @fn75() #74
  ret void
}

define void @fn99() #3 !dbgx !537 {
  %v0_0 = load i32, i32* @30, !tag !191
  call void @fn95() #27
  br label %b1
b1:
  %v1_0 = load i32, i32* @gv246, !tag !227
  %v1_1 = load i32, i32* @gv156, !tag !546
  call void @fn41() #0
  br label %b2
b2:
  %v2_0 = load i32, i32* @gv306, !tag !496
  %v2_1 = load i32, i32* @gv24, !tag !1
  %v2_2 = load i32, i32* @gv396, !tag !34
  %v2_3 = load i32, i32* @66, !tag !806
  call void @fn247() #34
  ret void
}

define void @fn100() #28 {
  %v0_0 = load i32, i32* @gv66, !tag !633
  %v0_1 = load i32, i32* @114, !tag !636
  call void @fn67() #10
  ret void
}

define void @fn101() #7 {
  %v0_0 = load i32, i32* @gv132, !tag !586
  %v0_1 = load i32, i32* @gv306, !tag !464
  call void @fn241() #12
  br label %b1
b1:
  %v1_0 = load i32, i32* @gv114, !tag !537
  call void @fn92() #59
  ret void
}

define void @fn102() #61 #2 !dbgx !881 {
  %v0_0 = load i32, i32* @gv522, !tag !325
  %v0_1 = load i32, i32* @gv36, !tag !194
  %v0_2 = load i32, i32* @gv228, !tag !309
  %v0_3 = load i32, i32* @gv354, !tag !823
  call void @fn142() #47
  br label %b1
b1:
  %v1_0 = load i32, i32* @gv48, !tag !786
  %v1_1 = load i32, i32* @gv162, !tag !261
  %v1_2 = load i32, i32* @gv504, !tag !786
  %v1_3 = load i32, i32* @72, !tag !491
  call void @fn184() #6
  ret void
}

define void @fn103()  {
  %v0_0 = load i32, i32* @gv168, !tag !819
  %v0_1 = load i32, i32* @gv336, !tag !438
  call void @fn111() #5
  br label %b1
b1:
  %v1_0 = load i32, i32* @gv462, !tag !251
  %v1_1 = load i32, i32* @gv78, !tag !525
  %v1_2 = load i32, i32* @36, !tag !632
  %v1_3 = load i32, i32* @gv264, !tag !823
  call void @fn55() #34
  ret void
}

define void @fn104() #26 {
  %v0_0 = load i32, i32* @gv354, !tag !419
  %v0_1 = load i32, i32* @gv246, !tag !853
  call void @fn170() #1
  ret void
}

define void @fn105() #24 #47 !dbgx !356 {
  %v0_0 = load i32, i32* @gv228, !tag !242
  %v0_1 = load i32, i32* @96, !tag !372
  %v0_2 = load i32, i32* @gv492, !tag !139
  call void @fn186() #45
  br label %b1
b1:
  %v1_0 = load i32, i32* @gv402, !tag !870
  call void @fn162() #6
  br label %b2
b2:
  %v2_0 = load i32, i32* @72, !tag !777
  call void @fn9() #31
  ret void
}

define void @fn106() #47 #16 {
  %v0_0 = load i32, i32* @gv36, !tag !890
  %v0_1 = load i32, i32* @gv174, !tag !842
  %v0_2 = load i32, i32* @gv6, !tag !831
  %v0_3 = load i32, i32* @gv192, !tag !383
  call void @fn190() #45
  br label %b1
b1:
  %v1_0 = load i32, i32* @102, !tag !513
  call void @fn99() #58
  br label %b2
b2:
  %v2_0 = load i32, i32* @gv528, !tag !793
  call void @fn137() #61
  ret void
}

define void @fn107()  {
  %v0_0 = load i32, i32* @gv528, !tag !478
  %v0_1 = load i32, i32* @114, !tag !717
  %v0_2 = load i32, i32* @gv228, !tag !569
  call void @fn66() #32
  br label %b1
b1:
  %v1_0 = load i32, i32* @gv456, !tag !214
  %v1_1 = load i32, i32* @6, !tag !315
  %v1_2 = load i32, i32* @gv96, !tag !406
  call void @fn91() #36
  br label %b2
b2:
  %v2_0 = load i32, i32* @gv432, !tag !111
  %v2_1 = load i32, i32* @gv516, !tag !568
  %v2_2 = load i32, i32* @gv192, !tag !184
  %v2_3 = load i32, i32* @gv126, !tag !54
  call void @fn66() #62
  ret void
}

define void @fn108() #29 !dbgx !735 {
  %v0_0 = load i32, i32* @54, !tag !859
  %v0_1 = load i32, i32* @gv564, !tag !241
  %v0_2 = load i32, i32* @60, !tag !103
  %v0_3 = load i32, i32* @gv402, !tag !401
  call void @fn52() #72
  br label %b1
b1:
  %v1_0 = load i32, i32* @gv96, !tag !507
  call void @fn225() #6
  ret void
}

define void @fn109() #68 #39 {
  %v0_0 = load i32, i32* @78, !tag !682
  %v0_1 = load i32, i32* @gv198, !tag !320
  call void @fn27() #79
  br label %b1
b1:
  %v1_0 = load i32, i32* @gv138, !tag !237
  %v1_1 = load i32, i32* @gv474, !tag !77
  call void @fn191() #69
  ret void
}

define void @fn110() #39 #59 {
  %v0_0 = load i32, i32* @gv564, !tag !575
  call void @fn109() #17
  br label %b1
b1:
  %v1_0 = load i32, i32* @gv528, !tag !341
  %v1_1 = load i32, i32* @gv294, !tag !273
  call void @fn235() #35
  ret void
}

define void @fn111()  !dbgx !571 {
  %v0_0 = load i32, i32* @0, !tag !523
  %v0_1 = load i32, i32* @gv354, !tag !29
  %v0_2 = load i32, i32* @gv138, !tag !265
  call void @fn91() #51
  br label %b1
b1:
  %v1_0 = load i32, i32* @gv276, !tag !634
  %v1_1 = load i32, i32* @gv234, !tag !30
  call void @fn18() #79
  ret void
}

define void @fn112() #10 #15 {
  %v0_0 = load i32, i32* @gv336, !tag !405
  %v0_1 = load i32, i32* @24, !tag !535
  call void @fn94() #2
  ret void
}

define void @fn113() #77 {
  %v0_0 = load i32, i32* @gv504, !tag !693
  call void @fn199() #35
  br label %b1
b1:
  %v1_0 = load i32, i32* @gv174, !tag !772
  %v1_1 = load i32, i32* @gv372, !tag !142
  call void @fn243() #49
  ret void
}

define void @fn114() #20 #63 !dbgx !820 {
  %v0_0 = load i32, i32* @gv306, !tag !642
  %v0_1 = load i32, i32* @gv246, !tag !758
  call void @fn231() #20
  br label %b1
b1:
  %v1_0 = load i32, i32* @gv324, !tag !156
  %v1_1 = load i32, i32* @0, !tag !264
  call void @fn227() #48
  br label %b2
b2:
  %v2_0 = load i32, i32* @gv378, !tag !326
  call void @fn178() #18
  ret void
}

define void @fn115() #56 #45 {
  %v0_0 = load i32, i32* @84, !tag !787
  call void @fn72() #36
  br label %b1
b1:
  %v1_0 = load i32, i32* @gv426, !tag !506
  %v1_1 = load i32, i32* @108, !tag !742
  %v1_2 = load i32, i32* @gv492, !tag !520
  %v1_3 = load i32, i32* @gv396, !tag !280
  call void @fn135() #43
  ret void
}

define void @fn116() #29 #64 {
  %v0_0 = load i32, i32* @gv492, !tag !148
  %v0_1 = load i32, i32* @gv528, !tag !806
  %v0_2 = load i32, i32* @96, !tag !81
  %v0_3 = load i32, i32* @gv84, !tag !192
  call void @fn145() #56
  br label %b1
b1:
  %v1_0 = load i32, i32* @gv318, !tag !490
  %v1_1 = load i32, i32* @gv552, !tag !615
  call void @fn14() #8
  ret void
}

define void @fn117() #61 #29 !dbgx !136 {
  %v0_0 = load i32, i32* @30, !tag !579
  %v0_1 = load i32, i32* @gv534, !tag !313
  call void @fn164() #42
  br label %b1
b1:
  %v1_0 = load i32, i32* @gv12, !tag !184
  call void @fn200() #67
  ret void
}

define void @fn118() #53 {
  %v0_0 = load i32, i32* @gv534, !tag !34
  call void @fn212() #29
  ret void
}

define void @fn119()  {
  %v0_0 = load i32, i32* @6, !tag !898
  %v0_1 = load i32, i32* @gv132, !tag !377
  %v0_2 = load i32, i32* @gv216, !tag !483
  %v0_3 = load i32, i32* @gv552, !tag !413
  call void @fn200() #28
  br label %b1
b1:
  %v1_0 = load i32, i32* @gv462, !tag !507
  %v1_1 = load i32, i32* @gv168, !tag !115
  %v1_2 = load i32, i32* @102, !tag !735
  call void @fn196() #13
  br label %b2
b2:
  %v2_0 = load i32, i32* @gv138, !tag !499
  %v2_1 = load i32, i32* @gv582, !tag !192
  %v2_2 = load i32, i32* @gv96, !tag !664
  call void @fn245() #34
  ret void
}

define void @fn120()  !dbgx !144 {
  %v0_0 = load i32, i32* @gv306, !tag !411
  %v0_1 = load i32, i32* @gv72, !tag !490
  call void @fn227() #56
  br label %b1
b1:
  %v1_0 = load i32, i32* @gv342, !tag !229
  %v1_1 = load i32, i32* @gv84, !tag !622
  %v1_2 = load i32, i32* @0, !tag !601
  call void @fn180() #77
  ret void
}

define void @fn121() #62 {
  %v0_0 = load i32, i32* @24, !tag !886
  %v0_1 = load i32, i32* @gv264, !tag !267
  %v0_2 = load i32, i32* @gv576, !tag !847
  %v0_3 = load i32, i32* @gv282, !tag !62
  call void @fn12() #41
  ret void
}

define void @fn122() #74 #13 {
  %v0_0 = load i32, i32* @90, !tag !689
  call void @fn141() #44
  br label %b1
b1:
  %v1_0 = load i32, i32* @gv228, !tag !543
  %v1_1 = load i32, i32* @gv42, !tag !729
  %v1_2 = load i32, i32* @60, !tag !632
  call void @fn123() #40
  br label %b2
b2:
  %v2_0 = load i32, i32* @gv42, !tag !51
  call void @fn133() #0
  ret void
}

define void @fn123()  !dbgx !145 {
  %v0_0 = load i32, i32* @gv312, !tag !624
  %v0_1 = load i32, i32* @gv474, !tag !698
  call void @fn146() #7
  br label %b1
b1:
  %v1_0 = load i32, i32* @gv474, !tag !125
  call void @fn199() #63
  ret void
}

define void @fn124() #61 #0 {
  %v0_0 = load i32, i32* @gv408, !tag !118
  %v0_1 = load i32, i32* @gv498, !tag !409
  call void @fn100() #55
  ret void
}

define void @fn125() #7 {
  %v0_0 = load i32, i32* @gv396, !tag !199
  call void @fn99() #21
  ret void
}

define void @fn126() #1 !dbgx !267 {
  %v0_0 = load i32, i32* @gv426, !tag !440
  %v0_1 = load i32, i32* @gv96, !tag !10
  %v0_2 = load i32, i32* @gv366, !tag !660
  %v0_3 = load i32, i32* @gv198, !tag !321
  call void @fn24() #6
  br label %b1
b1:
  %v1_0 = load i32, i32* @gv486, !tag !206
  %v1_1 = load i32, i32* @gv474, !tag !475
  %v1_2 = load i32, i32* @gv192, !tag !575
  call void @fn178() #63
  ret void
}

define void @fn127() #16 #43 {
  %v0_0 = load i32, i32* @0, !tag !404
  call void @fn148() #16
  br label %b1
b1:
  %v1_0 = load i32, i32* @gv336, !tag !814
  %v1_1 = load i32, i32* @gv54, !tag !737
  %v1_2 = load i32, i32* @gv384, !tag !258
  %v1_3 = load i32, i32* @gv594, !tag !405
  call void @fn72() #57
  br label %b2
b2:
  %v2_0 = load i32, i32* @114, !tag !265
  %v2_1 = load i32, i32* @36, !tag !386
  %v2_2 = load i32, i32* @6, !tag !369
  call void @fn199() #7
  ret void
}

define void @fn128()  {
  %v0_0 = load i32, i32* @114, !tag !253
  call void @fn42() #68
  br label %b1
b1:
  %v1_0 = load i32, i32* @gv504, !tag !795
  %v1_1 = load i32, i32* @gv78, !tag !148
  call void @fn30() #44
  ret void
}

define void @fn129() #75 #22 !dbgx !104 {
  %v0_0 = load i32, i32* @gv546, !tag !457
  call void @fn130() #2
  ret void
}

define void @fn130() #13 {
  %v0_0 = load i32, i32* @gv144, !tag !19
  %v0_1 = load i32, i32* @gv372, !tag !733
  call void @fn201() #56
  ret void
}

define void @fn131()  {
  %v0_0 = load i32, i32* @gv522, !tag !781
  %v0_1 = load i32, i32* @96, !tag !176
  %v0_2 = load i32, i32* @gv246, !tag !140
  %v0_3 = load i32, i32* @90, !tag !234
  call void @fn115() #25
  ret void
}

define void @fn132() #50 #35 !dbgx !617 {
  %v0_0 = load i32, i32* @114, !tag !496
  %v0_1 = load i32, i32* @30, !tag !649
  %v0_2 = load i32, i32* @gv114, !tag !811
  %v0_3 = load i32, i32* @gv378, !tag !855
  call void @fn103() #30
  br label %b1
b1:
  %v1_0 = load i32, i32* @36, !tag !844
  %v1_1 = load i32, i32* @gv528, !tag !878
  %v1_2 = load i32, i32* @gv78, !tag !627
  %v1_3 = load i32, i32* @0, !tag !753
  call void @fn153() #20
  ret void
}

define void @fn133() #18 {
  %v0_0 = load i32, i32* @72, !tag !398
  %v0_1 = load i32, i32* @gv162, !tag !505
  %v0_2 = load i32, i32* @gv228, !tag !700
  %v0_3 = load i32, i32* @gv108, !tag !672
  call void @fn238() #29
  br label %b1
b1:
  %v1_0 = load i32, i32* @18, !tag !338
  call void @fn80() #56
  br label %b2
b2:
  %v2_0 = load i32, i32* @30, !tag !91
  %v2_1 = load i32, i32* @gv168, !tag !118
  %v2_2 = load i32, i32* @72, !tag !860
  %v2_3 = load i32, i32* @gv372, !tag !284
  call void @fn24() #9
  ret void
}

define void @fn134() #63 #47 {
  %v0_0 = load i32, i32* @gv36, !tag !750
  call void @fn133() #68
  ret void
}

define void @fn135() #4 #25 !dbgx !505 {
  %v0_0 = load i32, i32* @gv306, !tag !236
  call void @fn40() #43
  br label %b1
b1:
  %v1_0 = load i32, i32* @gv96, !tag !812
  %v1_1 = load i32, i32* @gv228, !tag !346
  %v1_2 = load i32, i32* @gv456, !tag !279
  %v1_3 = load i32, i32* @gv444, !tag !184
  call void @fn106() #70
  br label %b2
b2:
  %v2_0 = load i32, i32* @gv198, !tag !239
  %v2_1 = load i32, i32* @gv594, !tag !430
  %v2_2 = load i32, i32* @108, !tag !818
  call void @fn20() #44
  ret void
}

define void @fn136() #3 {
  %v0_0 = load i32, i32* @gv294, !tag !705
  %v0_1 = load i32, i32* @gv12, !tag !433
  %v0_2 = load i32, i32* @gv456, !tag !634
  call void @fn76() #51
  br label %b1
b1:
  %v1_0 = load i32, i32* @gv588, !tag !293
  call void @fn171() #30
  ret void
}

define void @fn137() #52 #10 {
  %v0_0 = load i32, i32* @gv24, !tag !274
  call void @fn198() #63
  ret void
}

define void @fn138() #51 !dbgx !254 {
  %v0_0 = load i32, i32* @gv384, !tag !250
  %v0_1 = load i32, i32* @gv372, !tag !372
  %v0_2 = load i32, i32* @gv462, !tag !769
  %v0_3 = load i32, i32* @gv558, !tag !607
  call void @fn145() #45
  ret void
}

define void @fn139()  {
  %v0_0 = load i32, i32* @gv42, !tag !821
  %v0_1 = load i32, i32* @gv192, !tag !528
  call void @fn106() #78
  br label %b1
b1:
  %v1_0 = load i32, i32* @gv522, !tag !239
  %v1_1 = load i32, i32* @gv504, !tag !503
  call void @fn88() #75
  br label %b2
b2:
  %v2_0 = load i32, i32* @gv252, !tag !98
  %v2_1 = load i32, i32* @gv546, !tag !850
  %v2_2 = load i32, i32* @gv276, !tag !576
  %v2_3 = load i32, i32* @gv456, !tag !215
  call void @fn31() #41
  ret void
}

define void @fn140() #57 {
  %v0_0 = load i32, i32* @36, !tag !761
  call void @fn238() #31
  ret void
}

define void @fn141() #44 !dbgx !653 {
  %v0_0 = load i32, i32* @gv516, !tag !840
  %v0_1 = load i32, i32* @gv252, !tag !69
  %v0_2 = load i32, i32* @gv198, !tag !603
  call void @fn225() #37
  ret void
}

define void @fn142() #18 {
  %v0_0 = load i32, i32* @gv72, !tag !729
  %v0_1 = load i32, i32* @gv144, !tag !280
  call void @fn12() #43
  ret void
}

define void @fn143() #27 {
  %v0_0 = load i32, i32* @gv186, !tag !756
  %v0_1 = load i32, i32* @102, !tag !763
  call void @fn154() #23
  br label %b1
b1:
  %v1_0 = load i32, i32* @gv138, !tag !635
  %v1_1 = load i32, i32* @gv186, !tag !684
  call void @fn142() #40
  br label %b2
b2:
  %v2_0 = load i32, i32* @gv162, !tag !223
  %v2_1 = load i32, i32* @gv546, !tag !829
  %v2_2 = load i32, i32* @gv126, !tag !98
  call void @fn204() #68
  ret void
}

define void @fn144() #64 !dbgx !889 {
  %v0_0 = load i32, i32* @gv12, !tag !785
  %v0_1 = load i32, i32* @gv342, !tag !54
  %v0_2 = load i32, i32* @gv222, !tag !566
  call void @fn191() #41
  ret void
}

define void @fn145() #51 #58 {
  %v0_0 = load i32, i32* @gv258, !tag !227
  %v0_1 = load i32, i32* @6, !tag !838
  %v0_2 = load i32, i32* @gv84, !tag !728
  %v0_3 = load i32, i32* @gv312, !tag !464
  call void @fn198() #22
  ret void
}

define void @fn146()  {
  %v0_0 = load i32, i32* @gv78, !tag !750
  call void @fn150() #78
  ret void
}

define void @fn147()  !dbgx !3 {
  %v0_0 = load i32, i32* @102, !tag !331
  %v0_1 = load i32, i32* @gv102, !tag !516
  call void @fn32() #51
  br label %b1
b1:
  %v1_0 = load i32, i32* @gv162, !tag !883
  call void @fn207() #33
  br label %b2
b2:
  %v2_0 = load i32, i32* @gv12, !tag !528
  call void @fn94() #15
  ret void
}

define void @fn148() #73 #44 {
  %v0_0 = load i32, i32* @gv258, !tag !169
  %v0_1 = load i32, i32* @gv588, !tag !768
  %v0_2 = load i32, i32* @gv246, !tag !843
  %v0_3 = load i32, i32* @gv48, !tag !212
  call void @fn166() #29
  ret void
}

define void @fn149()  {
  %v0_0 = load i32, i32* @gv432, !tag !832
  %v0_1 = load i32, i32* @gv564, !tag !773
  %v0_2 = load i32, i32* @gv156, !tag !36
  call void @fn198() #21
  br label %b1
b1:
  %v1_0 = load i32, i32* @gv12, !tag !232
  %v1_1 = load i32, i32* @gv108, !tag !167
  %v1_2 = load i32, i32* @gv324, !tag !266
  call void @fn258() #37
  ret void
}

define void @fn150()  !dbgx !76 {
  %v0_0 = load i32, i32* @gv354, !tag !127
  %v0_1 = load i32, i32* @gv186, !tag !780
  %v0_2 = load i32, i32* @gv234, !tag !406
  %v0_3 = load i32, i32* @gv132, !tag !315
  call void @fn185() #42
  ret void
}

define void @fn151() #64 #60 {
  %v0_0 = load i32, i32* @gv354, !tag !627
  %v0_1 = load i32, i32* @gv84, !tag !458
  call void @fn41() #29
  br label %b1
b1:
  %v1_0 = load i32, i32* @gv294, !tag !463
  %v1_1 = load i32, i32* @gv132, !tag !312
  %v1_2 = load i32, i32* @72, !tag !355
  %v1_3 = load i32, i32* @gv204, !tag !171
  call void @fn170() #40
  br label %b2
b2:
  %v2_0 = load i32, i32* @gv48, !tag !826
  call void @fn166() #28
  ret void
}

define void @fn152() #4 #19 {
  %v0_0 = load i32, i32* @gv324, !tag !737
  %v0_1 = load i32, i32* @gv168, !tag !445
  %v0_2 = load i32, i32* @108, !tag !640
  %v0_3 = load i32, i32* @gv216, !tag !601
  call void @fn140() #5
  br label %b1
b1:
  %v1_0 = load i32, i32* @102, !tag !363
  %v1_1 = load i32, i32* @gv348, !tag !97
  %v1_2 = load i32, i32* @54, !tag !668
  call void @fn33() #15
  ret void
}

define void @fn153()  !dbgx !568 {
  %v0_0 = load i32, i32* @gv204, !tag !131
  call void @fn253() #33
  ret void
}

define void @fn154()  {
  %v0_0 = load i32, i32* @48, !tag !121
  call void @fn159() #0
  br label %b1
b1:
  %v1_0 = load i32, i32* @gv318, !tag !44
  %v1_1 = load i32, i32* @gv186, !tag !290
  %v1_2 = load i32, i32* @gv378, !tag !380
  %v1_3 = load i32, i32* @18, !tag !536
  call void @fn243() #56
  ret void
}

define void @fn155() #0 {
  %v0_0 = load i32, i32* @18, !tag !318
  %v0_1 = load i32, i32* @gv78, !tag !605
  %v0_2 = load i32, i32* @gv366, !tag !51
  %v0_3 = load i32, i32* @60, !tag !629
  call void @fn141() #42
  br label %b1
b1:
  %v1_0 = load i32, i32* @gv252, !tag !665
  call void @fn20() #2
  ret void
}

define void @fn156()  !dbgx !791 {
  %v0_0 = load i32, i32* @gv204, !tag !45
  %v0_1 = load i32, i32* @gv378, !tag !341
  call void @fn171() #33
  br label %b1
b1:
  %v1_0 = load i32, i32* @gv342, !tag !467
  %v1_1 = load i32, i32* @gv294, !tag !756
  %v1_2 = load i32, i32* @gv168, !tag !765
  %v1_3 = load i32, i32* @gv186, !tag !726
  call void @fn36() #53
  br label %b2
b2:
  %v2_0 = load i32, i32* @gv294, !tag !317
  %v2_1 = load i32, i32* @0, !tag !535
  %v2_2 = load i32, i32* @12, !tag !278
  %v2_3 = load i32, i32* @gv108, !tag !622
  call void @fn81() #23
  ret void
}

define void @fn157()  {
  %v0_0 = load i32, i32* @gv276, !tag !418
  %v0_1 = load i32, i32* @0, !tag !339
  %v0_2 = load i32, i32* @gv492, !tag !148
  %v0_3 = load i32, i32* @gv282, !tag !559
  call void @fn100() #66
  br label %b1
b1:
  %v1_0 = load i32, i32* @gv474, !tag !122
  %v1_1 = load i32, i32* @66, !tag !531
  call void @fn12() #49
  br label %b2
b2:
  %v2_0 = load i32, i32* @gv492, !tag !377
  %v2_1 = load i32, i32* @gv246, !tag !247
  %v2_2 = load i32, i32* @48, !tag !785
  %v2_3 = load i32, i32* @gv36, !tag !150
  call void @fn206() #20
  ret void
}

define void @fn158()  {
  %v0_0 = load i32, i32* @gv102, !tag !527
  %v0_1 = load i32, i32* @gv336, !tag !856
  call void @fn196() #26
  ret void
}

define void @fn159() #79 #22 !dbgx !866 {
  %v0_0 = load i32, i32* @0, !tag !659
  call void @fn167() #74
  br label %b1
b1:
  %v1_0 = load i32, i32* @12, !tag !846
  %v1_1 = load i32, i32* @gv564, !tag !21
  %v1_2 = load i32, i32* @gv594, !tag !87
  call void @fn16() #67
  br label %b2
b2:
  %v2_0 = load i32, i32* @gv414, !tag !8
  %v2_1 = load i32, i32* @96, !tag !589
  %v2_2 = load i32, i32* @102, !tag !27
  %v2_3 = load i32, i32* @gv354, !tag !811
  call void @fn43() #50
  ret void
}

define void @fn160()  {
  %v0_0 = load i32, i32* @gv522, !tag !748
  %v0_1 = load i32, i32* @gv324, !tag !841
  %v0_2 = load i32, i32* @gv486, !tag !36
  call void @fn130() #7
  br label %b1
b1:
  %v1_0 = load i32, i32* @gv546, !tag !580
  %v1_1 = load i32, i32* @54, !tag !555
  %v1_2 = load i32, i32* @48, !tag !625
  %v1_3 = load i32, i32* @gv384, !tag !131
  call void @fn178() #73
  ret void
}

define void @fn161() #9 #38 {
  %v0_0 = load i32, i32* @gv42, !tag !164
  %v0_1 = load i32, i32* @gv432, !tag !346
  %v0_2 = load i32, i32* @gv414, !tag !797
  call void @fn139() #15
  br label %b1
b1:
  %v1_0 = load i32, i32* @gv216, !tag !167
  %v1_1 = load i32, i32* @gv6, !tag !13
  %v1_2 = load i32, i32* @gv246, !tag !129
  %v1_3 = load i32, i32* @gv36, !tag !20
  call void @fn122() #60
  ret void
}

define void @fn162() #37 #14 !dbgx !583 {
  %v0_0 = load i32, i32* @gv132, !tag !869
  %v0_1 = load i32, i32* @gv174, !tag !563
  %v0_2 = load i32, i32* @48, !tag !810
  call void @fn173() #15
  br label %b1
b1:
  %v1_0 = load i32, i32* @gv414, !tag !429
  %v1_1 = load i32, i32* @gv546, !tag !689
  %v1_2 = load i32, i32* @gv522, !tag !378
  %v1_3 = load i32, i32* @gv258, !tag !266
  call void @fn23() #29
  ret void
}

define void @fn163() #0 #70 {
  %v0_0 = load i32, i32* @gv246, !tag !364
  call void @fn58() #8
  ret void
}

define void @fn164()  {
  %v0_0 = load i32, i32* @gv444, !tag !805
  %v0_1 = load i32, i32* @gv138, !tag !808
  %v0_2 = load i32, i32* @gv414, !tag !182
  %v0_3 = load i32, i32* @gv474, !tag !126
  call void @fn97() #46
  br label %b1
b1:
  %v1_0 = load i32, i32* @gv18, !tag !330
  %v1_1 = load i32, i32* @gv354, !tag !175
  %v1_2 = load i32, i32* @66, !tag !319
  call void @fn97() #16
  ret void
}

define void @fn165()  !dbgx !262 {
  %v0_0 = load i32, i32* @42, !tag !527
  call void @fn83() #13
  br label %b1
b1:
  %v1_0 = load i32, i32* @gv492, !tag !699
  %v1_1 = load i32, i32* @gv264, !tag !832
  %v1_2 = load i32, i32* @gv468, !tag !100
  %v1_3 = load i32, i32* @gv498, !tag !667
  call void @fn29() #32
  br label %b2
b2:
  %v2_0 = load i32, i32* @gv558, !tag !731
  %v2_1 = load i32, i32* @90, !tag !686
  call void @fn91() #6
  ret void
}

define void @fn166() #58 #12 {
  %v0_0 = load i32, i32* @gv462, !tag !848
  %v0_1 = load i32, i32* @gv228, !tag !606
  %v0_2 = load i32, i32* @gv54, !tag !896
  %v0_3 = load i32, i32* @gv234, !tag !98
  call void @fn109() #9
  br label %b1
b1:
  %v1_0 = load i32, i32* @72, !tag !242
  %v1_1 = load i32, i32* @gv144, !tag !206
  %v1_2 = load i32, i32* @gv162, !tag !408
  call void @fn235() #49
  br label %b2
b2:
  %v2_0 = load i32, i32* @gv18, !tag !792
  call void @fn8() #32
  ret void
}

define void @fn167() #52 #39 {
  %v0_0 = load i32, i32* @gv114, !tag !870
  call void @fn69() #49
  br label %b1
b1:
  %v1_0 = load i32, i32* @0, !tag !376
  %v1_1 = load i32, i32* @gv456, !tag !609
  call void @fn21() #53
  ret void
}

define void @fn168() #54 !dbgx !460 {
  %v0_0 = load i32, i32* @114, !tag !891
  %v0_1 = load i32, i32* @60, !tag !247
  %v0_2 = load i32, i32* @gv258, !tag !328
  call void @fn256() #10
  br label %b1
b1:
  %v1_0 = load i32, i32* @gv258, !tag !869
  call void @fn171() #73
  br label %b2
b2:
  %v2_0 = load i32, i32* @72, !tag !413
  %v2_1 = load i32, i32* @gv318, !tag !10
  call void @fn188() #50
  ret void
}

define void @fn169() #73 #51 {
  %v0_0 = load i32, i32* @gv576, !tag !165
  %v0_1 = load i32, i32* @gv174, !tag !849
  %v0_2 = load i32, i32* @gv66, !tag !314
  call void @fn3() #5
  br label %b1
b1:
  %v1_0 = load i32, i32* @54, !tag !832
  %v1_1 = load i32, i32* @gv156, !tag !580
  %v1_2 = load i32, i32* @gv474, !tag !730
  call void @fn6() #30
  ret void
}

define void @fn170()  {
  %v0_0 = load i32, i32* @gv444, !tag !95
  call void @fn82() #27
  ret void
}

define void @fn171() #38 !dbgx !557 {
  %v0_0 = load i32, i32* @gv192, !tag !765
  %v0_1 = load i32, i32* @gv402, !tag !331
  %v0_2 = load i32, i32* @60, !tag !219
  %v0_3 = load i32, i32* @gv402, !tag !671
  call void @fn83() #64
  br label %b1
b1:
  %v1_0 = load i32, i32* @gv114, !tag !258
  %v1_1 = load i32, i32* @84, !tag !664
  %v1_2 = load i32, i32* @gv252, !tag !776
  call void @fn93() #72
  ret void
}

define void @fn172() #72 {
  %v0_0 = load i32, i32* @gv108, !tag !830
  %v0_1 = load i32, i32* @6, !tag !743
  %v0_2 = load i32, i32* @gv324, !tag !662
  call void @fn240() #45
  ret void
}

define void @fn173() #17 #38 {
  %v0_0 = load i32, i32* @60, !tag !500
  %v0_1 = load i32, i32* @gv252, !tag !314
  %v0_2 = load i32, i32* @48, !tag !857
  %v0_3 = load i32, i32* @gv42, !tag !529
  call void @fn242() #75
  br label %b1
b1:
  %v1_0 = load i32, i32* @gv156, !tag !577
  %v1_1 = load i32, i32* @gv312, !tag !325
  %v1_2 = load i32, i32* @78, !tag !476
  call void @fn159() #10
  br label %b2
b2:
  %v2_0 = load i32, i32* @gv504, !tag !370
  %v2_1 = load i32, i32* @gv102, !tag !143
  call void @fn72() #63
  ret void
}

define void @fn174() #22 #77 !dbgx !322 {
  %v0_0 = load i32, i32* @6, !tag !510
  %v0_1 = load i32, i32* @gv564, !tag !610
  %v0_2 = load i32, i32* @0, !tag !318
  call void @fn208() #56
  br label %b1
b1:
  %v1_0 = load i32, i32* @78, !tag !684
  call void @fn58() #53
  br label %b2
b2:
  %v2_0 = load i32, i32* @gv534, !tag !255
  call void @fn139() #29
  ret void
}

define void @fn175() #44 #34 {
  %v0_0 = load i32, i32* @gv264, !tag !736
  %v0_1 = load i32, i32* @gv438, !tag !561
  %v0_2 = load i32, i32* @102, !tag !19
  call void @fn221() #2
  br label %b1
b1:
  %v1_0 = load i32, i32* @48, !tag !838
  %v1_1 = load i32, i32* @gv516, !tag !823
  %v1_2 = load i32, i32* @gv48, !tag !522
  call void @fn162() #63
  br label %b2
b2:
  %v2_0 = load i32, i32* @gv258, !tag !382
  %v2_1 = load i32, i32* @66, !tag !848
  %v2_2 = load i32, i32* @24, !tag !411
  call void @fn17() #28
  ret void
}

define void @fn176() #58 {
  %v0_0 = load i32, i32* @gv216, !tag !11
  %v0_1 = load i32, i32* @gv546, !tag !484
  %v0_2 = load i32, i32* @gv492, !tag !189
  %v0_3 = load i32, i32* @0, !tag !781
  call void @fn45() #16
  ret void
}

define void @fn177()  !dbgx !759 {
  %v0_0 = load i32, i32* @gv594, !tag !282
  call void @fn134() #26
  br label %b1
b1:
  %v1_0 = load i32, i32* @gv576, !tag !340
  %v1_1 = load i32, i32* @60, !tag !345
  call void @fn214() #39
  br label %b2
b2:
  %v2_0 = load i32, i32* @gv474, !tag !765
  %v2_1 = load i32, i32* @gv324, !tag !127
  call void @fn193() #2
  ret void
}

define void @fn178()  {
  %v0_0 = load i32, i32* @gv456, !tag !394
  %v0_1 = load i32, i32* @gv486, !tag !287
  %v0_2 = load i32, i32* @78, !tag !727
  call void @fn43() #2
  br label %b1
b1:
  %v1_0 = load i32, i32* @gv54, !tag !94
  %v1_1 = load i32, i32* @gv342, !tag !787
  %v1_2 = load i32, i32* @gv288, !tag !561
  call void @fn253() #43
  br label %b2
b2:
  %v2_0 = load i32, i32* @gv156, !tag !612
  %v2_1 = load i32, i32* @gv486, !tag !289
  call void @fn167() #44
  ret void
}

define void @fn179() #39 {
  %v0_0 = load i32, i32* @gv126, !tag !732
  %v0_1 = load i32, i32* @gv336, !tag !554
  %v0_2 = load i32, i32* @gv192, !tag !474
  call void @fn188() #53
  ret void
}

define void @fn180() #18 #63 !dbgx !313 {
  %v0_0 = load i32, i32* @60, !tag !465
  %v0_1 = load i32, i32* @gv378, !tag !165
  %v0_2 = load i32, i32* @gv462, !tag !754
  %v0_3 = load i32, i32* @gv522, !tag !786
  call void @fn197() #24
  br label %b1
b1:
  %v1_0 = load i32, i32* @gv36, !tag !249
  %v1_1 = load i32, i32* @gv426, !tag !609
  call void @fn135() #56
  br label %b2
b2:
  %v2_0 = load i32, i32* @gv438, !tag !116
  %v2_1 = load i32, i32* @gv18, !tag !43
  call void @fn93() #59
  ret void
}

define void @fn181()  {
  %v0_0 = load i32, i32* @gv174, !tag !343
  call void @fn20() #55
  br label %b1
b1:
  %v1_0 = load i32, i32* @gv474, !tag !795
  call void @fn30() #50
  br label %b2
b2:
  %v2_0 = load i32, i32* @gv306, !tag !798
  call void @fn47() #34
  ret void
}

define void @fn182()  {
  %v0_0 = load i32, i32* @gv474, !tag !79
  %v0_1 = load i32, i32* @gv558, !tag !159
  %v0_2 = load i32, i32* @gv216, !tag !504
  call void @fn124() #18
  ret void
}

define void @fn183() #20 #72 !dbgx !289 {
  %v0_0 = load i32, i32* @24, !tag !368
  %v0_1 = load i32, i32* @gv294, !tag !733
  call void @fn111() #35
  ret void
}

define void @fn184() #31 #30 {
  %v0_0 = load i32, i32* @gv396, !tag !420
  %v0_1 = load i32, i32* @24, !tag !659
  call void @fn219() #65
  br label %b1
b1:
  %v1_0 = load i32, i32* @gv522, !tag !760
  call void @fn223() #66
  br label %b2
b2:
  %v2_0 = load i32, i32* @gv234, !tag !265
  call void @fn232() #39
  ret void
}

define void @fn185() #19 #67 {
  %v0_0 = load i32, i32* @gv504, !tag !198
  %v0_1 = load i32, i32* @gv528, !tag !150
  call void @fn204() #14
  ret void
}

define void @fn186() #38 #6 !dbgx !187 {
  %v0_0 = load i32, i32* @gv222, !tag !776
  %v0_1 = load i32, i32* @gv234, !tag !847
  %v0_2 = load i32, i32* @gv258, !tag !838
  call void @fn222() #12
  ret void
}

define void @fn187() #50 #40 {
  %v0_0 = load i32, i32* @24, !tag !610
  call void @fn207() #59
  br label %b1
b1:
  %v1_0 = load i32, i32* @gv6, !tag !90
  %v1_1 = load i32, i32* @gv516, !tag !371
  %v1_2 = load i32, i32* @102, !tag !196
  %v1_3 = load i32, i32* @gv372, !tag !42
  call void @fn151() #39
  ret void
}

define void @fn188() #17 {
  %v0_0 = load i32, i32* @84, !tag !603
  %v0_1 = load i32, i32* @gv42, !tag !755
  %v0_2 = load i32, i32* @gv384, !tag !464
  %v0_3 = load i32, i32* @gv366, !tag !228
  call void @fn96() #77
  ret void
}

define void @fn189()  !dbgx !423 {
  %v0_0 = load i32, i32* @0, !tag !593
  %v0_1 = load i32, i32* @gv102, !tag !727
  %v0_2 = load i32, i32* @gv396, !tag !169
  %v0_3 = load i32, i32* @gv366, !tag !873
  call void @fn228() #6
  br label %b1
b1:
  %v1_0 = load i32, i32* @gv354, !tag !467
  %v1_1 = load i32, i32* @102, !tag !681
  %v1_2 = load i32, i32* @gv414, !tag !883
  call void @fn142() #51
  ret void
}

define void @fn190() #19 #41 {
  %v0_0 = load i32, i32* @gv234, !tag !543
  call void @fn224() #32
  br label %b1
b1:
  %v1_0 = load i32, i32* @gv552, !tag !216
  %v1_1 = load i32, i32* @24, !tag !229
  %v1_2 = load i32, i32* @gv174, !tag !623
  call void @fn185() #8
  ret void
}

define void @fn191() #46 #48 {
  %v0_0 = load i32, i32* @gv66, !tag !223
  %v0_1 = load i32, i32* @gv228, !tag !563
  %v0_2 = load i32, i32* @gv336, !tag !225
  %v0_3 = load i32, i32* @gv438, !tag !419
  call void @fn192() #79
  ret void
}

define void @fn192() #5 #36 !dbgx !123 {
  %v0_0 = load i32, i32* @36, !tag !324
  %v0_1 = load i32, i32* @6, !tag !717
  %v0_2 = load i32, i32* @gv168, !tag !751
  %v0_3 = load i32, i32* @gv126, !tag !807
  call void @fn45() #46
  ret void
}

define void @fn193() #35 #22 {
  %v0_0 = load i32, i32* @gv192, !tag !389
  %v0_1 = load i32, i32* @gv414, !tag !382
  call void @fn159() #56
  br label %b1
b1:
  %v1_0 = load i32, i32* @gv66, !tag !553
  %v1_1 = load i32, i32* @72, !tag !644
  %v1_2 = load i32, i32* @42, !tag !484
  %v1_3 = load i32, i32* @gv576, !tag !438
  call void @fn259() #53
  br label %b2
b2:
  %v2_0 = load i32, i32* @gv138, !tag !74
  %v2_1 = load i32, i32* @gv168, !tag !576
  call void @fn33() #22
  ret void
}

define void @fn194() #28 {
  %v0_0 = load i32, i32* @gv492, !tag !43
  %v0_1 = load i32, i32* @gv84, !tag !433
  %v0_2 = load i32, i32* @gv534, !tag !142
  %v0_3 = load i32, i32* @96, !tag !68
  call void @fn204() #41
  br label %b1
b1:
  %v1_0 = load i32, i32* @gv534, !tag !54
  %v1_1 = load i32, i32* @gv546, !tag !578
  call void @fn56() #2
  br label %b2
b2:
  %v2_0 = load i32, i32* @gv6, !tag !434
  %v2_1 = load i32, i32* @gv462, !tag !367
  %v2_2 = load i32, i32* @gv318, !tag !353
  %v2_3 = load i32, i32* @gv144, !tag !299
  call void @fn41() #28
  ret void
}

define void @fn195() #58 #71 !dbgx !384 {
  %v0_0 = load i32, i32* @gv216, !tag !32
  %v0_1 = load i32, i32* @gv198, !tag !415
  call void @fn87() #10
  ret void
}

define void @fn196()  {
  %v0_0 = load i32, i32* @gv282, !tag !386
  %v0_1 = load i32, i32* @gv582, !tag !614
  %v0_2 = load i32, i32* @gv54, !tag !404
  call void @fn163() #51
  br label %b1
b1:
  %v1_0 = load i32, i32* @gv18, !tag !93
  %v1_1 = load i32, i32* @66, !tag !846
  %v1_2 = load i32, i32* @gv192, !tag !801
  call void @fn144() #60
  br label %b2
b2:
  %v2_0 = load i32, i32* @gv126, !tag !411
  call void @fn232() #77
  ret void
}

define void @fn197() #58 {
  %v0_0 = load i32, i32* @gv336, !tag !401
  %v0_1 = load i32, i32* @gv444, !tag !668
  %v0_2 = load i32, i32* @gv144, !tag !751
  call void @fn155() #49
  br label %b1
b1:
  %v1_0 = load i32, i32* @gv294, !tag !293
  %v1_1 = load i32, i32* @114, !tag !410
  call void @fn119() #7
  br label %b2
b2:
  %v2_0 = load i32, i32* @gv378, !tag !70
  %v2_1 = load i32, i32* @60, !tag !423
  %v2_2 = load i32, i32* @gv246, !tag !849
  call void @fn235() #76
  ret void
}

define void @fn198()  !dbgx !226 {
  %v0_0 = load i32, i32* @gv282, !tag !692
  call void @fn35() #59
  br label %b1
b1:
  %v1_0 = load i32, i32* @gv138, !tag !253
  %v1_1 = load i32, i32* @gv96, !tag !735
  %v1_2 = load i32, i32* @gv504, !tag !237
  %v1_3 = load i32, i32* @114, !tag !212
  call void @fn5() #62
  ret void
}

define void @fn199() #19 #55 {
  %v0_0 = load i32, i32* @6, !tag !157
  %v0_1 = load i32, i32* @gv36, !tag !800
  %v0_2 = load i32, i32* @18, !tag !639
  %v0_3 = load i32, i32* @gv402, !tag !67
  call void @fn8() #57
  ret void
}

define void @fn200() #5 {
  %v0_0 = load i32, i32* @6, !tag !788
  call void @fn66() #0
  br label %b1
b1:
  %v1_0 = load i32, i32* @gv432, !tag !343
  %v1_1 = load i32, i32* @gv438, !tag !266
  %v1_2 = load i32, i32* @90, !tag !647
  call void @fn29() #46
  ret void
}

define void @fn201()  !dbgx !338 {
  %v0_0 = load i32, i32* @gv462, !tag !311
  %v0_1 = load i32, i32* @gv162, !tag !393
  call void @fn153() #54
  br label %b1
b1:
  %v1_0 = load i32, i32* @gv24, !tag !660
  %v1_1 = load i32, i32* @gv108, !tag !605
  %v1_2 = load i32, i32* @gv36, !tag !577
  call void @fn93() #36
  br label %b2
b2:
  %v2_0 = load i32, i32* @42, !tag !758
  %v2_1 = load i32, i32* @90, !tag !868
  %v2_2 = load i32, i32* @gv216, !tag !74
  %v2_3 = load i32, i32* @gv306, !tag !769
  call void @fn137() #19
  ret void
}

define void @fn202()  {
  %v0_0 = load i32, i32* @gv78, !tag !695
  %v0_1 = load i32, i32* @gv114, !tag !546
  call void @fn156() #70
  br label %b1
b1:
  %v1_0 = load i32, i32* @96, !tag !861
  call void @fn162() #70
  ret void
}

define void @fn203()  {
  %v0_0 = load i32, i32* @gv96, !tag !829
  call void @fn139() #30
  ret void
}

define void @fn204()  !dbgx !474 {
  %v0_0 = load i32, i32* @gv318, !tag !180
  call void @fn19() #70
  br label %b1
b1:
  %v1_0 = load i32, i32* @gv396, !tag !806
  %v1_1 = load i32, i32* @gv132, !tag !155
  %v1_2 = load i32, i32* @gv516, !tag !603
  call void @fn138() #73
  ret void
}

define void @fn205()  {
  %v0_0 = load i32, i32* @gv312, !tag !653
  call void @fn56() #11
  br label %b1
b1:
  %v1_0 = load i32, i32* @gv246, !tag !711
  call void @fn197() #51
  br label %b2
b2:
  %v2_0 = load i32, i32* @gv582, !tag !655
  call void @fn253() #21
  ret void
}

define void @fn206()  {
  %v0_0 = load i32, i32* @gv66, !tag !407
  %v0_1 = load i32, i32* @gv198, !tag !304
  %v0_2 = load i32, i32* @gv384, !tag !734
  call void @fn246() #32
  br label %b1
b1:
  %v1_0 = load i32, i32* @gv474, !tag !617
  %v1_1 = load i32, i32* @gv408, !tag !510
  call void @fn222() #2
  br label %b2
b2:
  %v2_0 = load i32, i32* @72, !tag !731
  %v2_1 = load i32, i32* @gv84, !tag !30
  call void @fn12() #64
  ret void
}

define void @fn207() #63 #62 !dbgx !880 {
  %v0_0 = load i32, i32* @114, !tag !864
  %v0_1 = load i32, i32* @18, !tag !525
  %v0_2 = load i32, i32* @gv414, !tag !190
  call void @fn199() #49
  br label %b1
b1:
  %v1_0 = load i32, i32* @gv318, !tag !282
  call void @fn248() #46
  ret void
}

define void @fn208() #50 {
  %v0_0 = load i32, i32* @gv24, !tag !372
  %v0_1 = load i32, i32* @gv222, !tag !188
  %v0_2 = load i32, i32* @gv102, !tag !203
  %v0_3 = load i32, i32* @gv546, !tag !856
  call void @fn164() #18
  br label %b1
b1:
  %v1_0 = load i32, i32* @gv144, !tag !284
  %v1_1 = load i32, i32* @gv288, !tag !257
  call void @fn153() #68
  ret void
}

define void @fn209() #28 #25 {
  %v0_0 = load i32, i32* @gv462, !tag !318
  call void @fn6() #38
  br label %b1
b1:
  %v1_0 = load i32, i32* @gv24, !tag !645
  call void @fn29() #50
  ret void
}

define void @fn210()  !dbgx !177 {
  %v0_0 = load i32, i32* @gv564, !tag !704
  %v0_1 = load i32, i32* @gv408, !tag !700
  %v0_2 = load i32, i32* @gv288, !tag !418
  call void @fn191() #44
  br label %b1
b1:
  %v1_0 = load i32, i32* @24, !tag !69
  %v1_1 = load i32, i32* @gv12, !tag !63
  %v1_2 = load i32, i32* @108, !tag !555
  %v1_3 = load i32, i32* @gv222, !tag !91
  call void @fn210() #5
  br label %b2
b2:
  %v2_0 = load i32, i32* @gv312, !tag !334
  %v2_1 = load i32, i32* @gv438, !tag !193
  call void @fn137() #73
  ret void
}

define void @fn211()  {
  %v0_0 = load i32, i32* @gv264, !tag !216
  %v0_1 = load i32, i32* @42, !tag !804
  call void @fn221() #34
  br label %b1
b1:
  %v1_0 = load i32, i32* @72, !tag !197
  %v1_1 = load i32, i32* @gv204, !tag !190
  call void @fn104() #39
  ret void
}

define void @fn212()  {
  %v0_0 = load i32, i32* @gv162, !tag !283
  %v0_1 = load i32, i32* @6, !tag !492
  call void @fn84() #74
  br label %b1
b1:
  %v1_0 = load i32, i32* @gv336, !tag !717
  call void @fn238() #8
  br label %b2
b2:
  %v2_0 = load i32, i32* @gv228, !tag !365
  %v2_1 = load i32, i32* @gv306, !tag !148
  %v2_2 = load i32, i32* @gv174, !tag !799
  %v2_3 = load i32, i32* @gv144, !tag !307
  call void @fn49() #58
  ret void
}

define void @fn213() #24 !dbgx !283 {
  %v0_0 = load i32, i32* @30, !tag !360
  %v0_1 = load i32, i32* @102, !tag !689
  %v0_2 = load i32, i32* @gv594, !tag !627
  call void @fn240() #31
  br label %b1
b1:
  %v1_0 = load i32, i32* @gv324, !tag !178
  call void @fn205() #15
  br label %b2
b2:
  %v2_0 = load i32, i32* @gv468, !tag !383
  %v2_1 = load i32, i32* @gv96, !tag !442
  call void @fn164() #63
  ret void
}

define void @fn214() #33 #54 {
  %v0_0 = load i32, i32* @12, !tag !13
  %v0_1 = load i32, i32* @gv522, !tag !791
  %v0_2 = load i32, i32* @gv156, !tag !21
  %v0_3 = load i32, i32* @78, !tag !67
  call void @fn120() #64
  ret void
}

define void @fn215()  {
  %v0_0 = load i32, i32* @gv354, !tag !552
  call void @fn48() #42
  br label %b1
b1:
  %v1_0 = load i32, i32* @gv348, !tag !679
  %v1_1 = load i32, i32* @gv162, !tag !79
  call void @fn225() #1
  ret void
}

define void @fn216()  !dbgx !842 {
  %v0_0 = load i32, i32* @gv366, !tag !410
  %v0_1 = load i32, i32* @gv66, !tag !119
  call void @fn7() #79
  br label %b1
b1:
  %v1_0 = load i32, i32* @gv462, !tag !500
  %v1_1 = load i32, i32* @gv396, !tag !844
  %v1_2 = load i32, i32* @30, !tag !22
  call void @fn83() #62
  br label %b2
b2:
  %v2_0 = load i32, i32* @gv204, !tag !156
  %v2_1 = load i32, i32* @gv306, !tag !751
  call void @fn4() #1
  ret void
}

define void @fn217()  {
  %v0_0 = load i32, i32* @gv228, !tag !882
  %v0_1 = load i32, i32* @gv498, !tag !865
  call void @fn252() #72
  br label %b1
b1:
  %v1_0 = load i32, i32* @gv558, !tag !571
  %v1_1 = load i32, i32* @gv222, !tag !730
  %v1_2 = load i32, i32* @gv78, !tag !467
  call void @fn250() #62
  ret void
}

define void @fn218() #75 #56 {
  %v0_0 = load i32, i32* @gv36, !tag !489
  call void @fn31() #18
  br label %b1
b1:
  %v1_0 = load i32, i32* @gv258, !tag !66
  %v1_1 = load i32, i32* @84, !tag !371
  %v1_2 = load i32, i32* @gv348, !tag !145
  %v1_3 = load i32, i32* @gv336, !tag !885
  call void @fn256() #51
  br label %b2
b2:
  %v2_0 = load i32, i32* @gv288, !tag !793
  %v2_1 = load i32, i32* @gv6, !tag !822
  %v2_2 = load i32, i32* @gv12, !tag !302
  call void @fn218() #32
  ret void
}

define void @fn219() #45 #47 !dbgx !141 {
  %v0_0 = load i32, i32* @78, !tag !197
  %v0_1 = load i32, i32* @gv444, !tag !370
  %v0_2 = load i32, i32* @gv222, !tag !172
  call void @fn237() #14
  br label %b1
b1:
  %v1_0 = load i32, i32* @18, !tag !808
  %v1_1 = load i32, i32* @12, !tag !187
  %v1_2 = load i32, i32* @gv438, !tag !851
  call void @fn184() #11
  br label %b2
b2:
  %v2_0 = load i32, i32* @gv372, !tag !250
  %v2_1 = load i32, i32* @gv168, !tag !113
  %v2_2 = load i32, i32* @72, !tag !677
  call void @fn89() #2
  ret void
}

define void @fn220() #63 #20 {
  %v0_0 = load i32, i32* @36, !tag !153
  %v0_1 = load i32, i32* @gv492, !tag !682
  %v0_2 = load i32, i32* @gv582, !tag !711
  call void @fn77() #19
  br label %b1
b1:
  %v1_0 = load i32, i32* @gv366, !tag !239
  %v1_1 = load i32, i32* @gv336, !tag !213
  %v1_2 = load i32, i32* @gv462, !tag !79
  call void @fn165() #78
  ret void
}

define void @fn221() #36 {
  %v0_0 = load i32, i32* @gv228, !tag !714
  call void @fn73() #8
  ret void
}

define void @fn222() #45 !dbgx !820 {
  %v0_0 = load i32, i32* @gv198, !tag !771
  %v0_1 = load i32, i32* @gv444, !tag !32
  %v0_2 = load i32, i32* @gv414, !tag !667
  call void @fn154() #42
  br label %b1
b1:
  %v1_0 = load i32, i32* @6, !tag !680
  %v1_1 = load i32, i32* @gv558, !tag !183
  %v1_2 = load i32, i32* @gv168, !tag !164
  %v1_3 = load i32, i32* @gv456, !tag !360
  call void @fn58() #44
  ret void
}

define void @fn223() #41 #31 {
  %v0_0 = load i32, i32* @gv288, !tag !259
  %v0_1 = load i32, i32* @gv186, !tag !417
  %v0_2 = load i32, i32* @gv552, !tag !775
  %v0_3 = load i32, i32* @78, !tag !54
  call void @fn136() #53
  ret void
}

define void @fn224() #62 {
  %v0_0 = load i32, i32* @gv168, !tag !876
  %v0_1 = load i32, i32* @gv588, !tag !574
  %v0_2 = load i32, i32* @gv522, !tag !41
  %v0_3 = load i32, i32* @gv576, !tag !509
  call void @fn258() #27
  br label %b1
b1:
  %v1_0 = load i32, i32* @gv186, !tag !646
  %v1_1 = load i32, i32* @36, !tag !193
  call void @fn35() #23
  ret void
}

define void @fn225() #61 #34 !dbgx !13 {
  %v0_0 = load i32, i32* @gv528, !tag !514
  %v0_1 = load i32, i32* @gv354, !tag !6
  %v0_2 = load i32, i32* @gv378, !tag !704
  call void @fn128() #42
  br label %b1
b1:
  %v1_0 = load i32, i32* @gv222, !tag !162
  %v1_1 = load i32, i32* @102, !tag !333
  call void @fn138() #65
  ret void
}

define void @fn226()  {
  %v0_0 = load i32, i32* @gv522, !tag !755
  call void @fn120() #11
  br label %b1
b1:
  %v1_0 = load i32, i32* @gv384, !tag !421
  call void @fn248() #20
  br label %b2
b2:
  %v2_0 = load i32, i32* @gv504, !tag !333
  call void @fn13() #34
  ret void
}

define void @fn227() #21 #24 {
  %v0_0 = load i32, i32* @30, !tag !397
  call void @fn169() #23
  br label %b1
b1:
  %v1_0 = load i32, i32* @gv312, !tag !309
  %v1_1 = load i32, i32* @gv408, !tag !266
  %v1_2 = load i32, i32* @gv138, !tag !798
  call void @fn54() #64
  ret void
}

define void @fn228()  !dbgx !624 {
  %v0_0 = load i32, i32* @gv576, !tag !224
  %v0_1 = load i32, i32* @30, !tag !806
  %v0_2 = load i32, i32* @66, !tag !391
  call void @fn82() #45
  ret void
}

define void @fn229() #76 {
  %v0_0 = load i32, i32* @54, !tag !496
  call void @fn144() #64
  br label %b1
b1:
  %v1_0 = load i32, i32* @gv354, !tag !237
  %v1_1 = load i32, i32* @gv282, !tag !390
  %v1_2 = load i32, i32* @gv96, !tag !422
  call void @fn146() #25
  br label %b2
b2:
  %v2_0 = load i32, i32* @gv444, !tag !799
  %v2_1 = load i32, i32* @gv456, !tag !391
  %v2_2 = load i32, i32* @gv54, !tag !648
  call void @fn139() #2
  ret void
}

define void @fn230() #12 #29 {
  %v0_0 = load i32, i32* @gv186, !tag !404
  %v0_1 = load i32, i32* @gv276, !tag !787
  %v0_2 = load i32, i32* @gv456, !tag !748
  call void @fn216() #59
  ret void
}

define void @fn231()  !dbgx !224 {
  %v0_0 = load i32, i32* @gv132, !tag !177
  %v0_1 = load i32, i32* @gv198, !tag !778
  %v0_2 = load i32, i32* @gv306, !tag !157
  call void @fn180() #31
  br label %b1
b1:
  %v1_0 = load i32, i32* @gv12, !tag !34
  %v1_1 = load i32, i32* @gv42, !tag !260
  call void @fn258() #52
  br label %b2
b2:
  %v2_0 = load i32, i32* @gv78, !tag !591
  %v2_1 = load i32, i32* @gv252, !tag !12
  %v2_2 = load i32, i32* @gv408, !tag !253
  %v2_3 = load i32, i32* @gv294, !tag !269
  call void @fn115() #66
  ret void
}

define void @fn232() #22 #38 {
  %v0_0 = load i32, i32* @gv468, !tag !22
  %v0_1 = load i32, i32* @gv78, !tag !39
  %v0_2 = load i32, i32* @102, !tag !455
  call void @fn70() #68
  ret void
}

define void @fn233() #19 {
  %v0_0 = load i32, i32* @gv552, !tag !436
  %v0_1 = load i32, i32* @gv516, !tag !51
  %v0_2 = load i32, i32* @gv348, !tag !594
  %v0_3 = load i32, i32* @108, !tag !664
  call void @fn188() #51
  ret void
}

define void @fn234() #50 !dbgx !827 {
  %v0_0 = load i32, i32* @gv216, !tag !521
  %v0_1 = load i32, i32* @gv492, !tag !208
  call void @fn108() #6
  br label %b1
b1:
  %v1_0 = load i32, i32* @gv48, !tag !87
  %v1_1 = load i32, i32* @66, !tag !810
  %v1_2 = load i32, i32* @gv348, !tag !357
  %v1_3 = load i32, i32* @gv348, !tag !549
  call void @fn202() #79
  br label %b2
b2:
  %v2_0 = load i32, i32* @0, !tag !5
  call void @fn211() #60
  ret void
}

define void @fn235() #27 {
  %v0_0 = load i32, i32* @72, !tag !710
  %v0_1 = load i32, i32* @96, !tag !808
  %v0_2 = load i32, i32* @gv468, !tag !373
  %v0_3 = load i32, i32* @gv594, !tag !412
  call void @fn186() #24
  br label %b1
b1:
  %v1_0 = load i32, i32* @gv426, !tag !323
  call void @fn74() #71
  br label %b2
b2:
  %v2_0 = load i32, i32* @84, !tag !359
  %v2_1 = load i32, i32* @72, !tag !404
  %v2_2 = load i32, i32* @gv36, !tag !279
  %v2_3 = load i32, i32* @gv288, !tag !804
  call void @fn111() #27
  ret void
}

define void @fn236() #66 #64 {
  %v0_0 = load i32, i32* @gv114, !tag !501
  %v0_1 = load i32, i32* @gv84, !tag !809
  %v0_2 = load i32, i32* @gv102, !tag !612
  %v0_3 = load i32, i32* @gv348, !tag !124
  call void @fn198() #20
  br label %b1
b1:
  %v1_0 = load i32, i32* @gv486, !tag !684
  call void @fn91() #8
  ret void
}

define void @fn237() #70 !dbgx !477 {
  %v0_0 = load i32, i32* @gv558, !tag !297
  %v0_1 = load i32, i32* @18, !tag !46
  %v0_2 = load i32, i32* @108, !tag !890
  call void @fn119() #23
  ret void
}

define void @fn238() #68 #19 {
  %v0_0 = load i32, i32* @0, !tag !583
  %v0_1 = load i32, i32* @gv234, !tag !460
  call void @fn231() #43
  ret void
}

define void @fn239() #18 #53 {
  %v0_0 = load i32, i32* @gv372, !tag !437
  %v0_1 = load i32, i32* @gv96, !tag !259
  %v0_2 = load i32, i32* @0, !tag !761
  %v0_3 = load i32, i32* @gv408, !tag !698
  call void @fn242() #62
  br label %b1
b1:
  %v1_0 = load i32, i32* @gv234, !tag !558
  %v1_1 = load i32, i32* @gv282, !tag !82
  call void @fn242() #71
  br label %b2
b2:
  %v2_0 = load i32, i32* @gv558, !tag !663
  %v2_1 = load i32, i32* @gv396, !tag !765
  %v2_2 = load i32, i32* @gv396, !tag !885
  %v2_3 = load i32, i32* @60, !tag !201
  call void @fn256() #58
  ret void
}

define void @fn240() #44 !dbgx !581 {
  %v0_0 = load i32, i32* @30, !tag !643
  call void @fn46() #0
  br label %b1
b1:
  %v1_0 = load i32, i32* @gv522, !tag !431
  %v1_1 = load i32, i32* @gv402, !tag !208
  %v1_2 = load i32, i32* @36, !tag !216
  call void @fn133() #77
  ret void
}

define void @fn241() #18 #37 {
  %v0_0 = load i32, i32* @gv546, !tag !91
  %v0_1 = load i32, i32* @gv462, !tag !701
  call void @fn134() #9
  br label %b1
b1:
  %v1_0 = load i32, i32* @36, !tag !72
  %v1_1 = load i32, i32* @gv12, !tag !771
  call void @fn73() #55
  br label %b2
b2:
  %v2_0 = load i32, i32* @18, !tag !603
  %v2_1 = load i32, i32* @60, !tag !206
  %v2_2 = load i32, i32* @gv594, !tag !14
  %v2_3 = load i32, i32* @gv84, !tag !839
  call void @fn162() #38
  ret void
}

define void @fn242()  {
  %v0_0 = load i32, i32* @gv156, !tag !648
  %v0_1 = load i32, i32* @gv222, !tag !530
  %v0_2 = load i32, i32* @gv114, !tag !678
  call void @fn89() #46
  ret void
}

define void @fn243() #48 #14 !dbgx !424 {
  %v0_0 = load i32, i32* @gv246, !tag !866
  %v0_1 = load i32, i32* @gv546, !tag !734
  %v0_2 = load i32, i32* @gv474, !tag !285
  call void @fn205() #77
  br label %b1
b1:
  %v1_0 = load i32, i32* @gv144, !tag !563
  %v1_1 = load i32, i32* @gv24, !tag !707
  call void @fn246() #21
  br label %b2
b2:
  %v2_0 = load i32, i32* @gv174, !tag !410
  call void @fn84() #4
  ret void
}

define void @fn244()  {
  %v0_0 = load i32, i32* @gv582, !tag !16
  %v0_1 = load i32, i32* @gv426, !tag !775
  call void @fn95() #69
  br label %b1
b1:
  %v1_0 = load i32, i32* @gv426, !tag !163
  %v1_1 = load i32, i32* @gv468, !tag !361
  call void @fn111() #41
  ret void
}

define void @fn245() #30 #56 {
  %v0_0 = load i32, i32* @114, !tag !714
  %v0_1 = load i32, i32* @114, !tag !839
  %v0_2 = load i32, i32* @gv336, !tag !391
  %v0_3 = load i32, i32* @24, !tag !332
  call void @fn3() #73
  ret void
}

define void @fn246()  !dbgx !892 {
  %v0_0 = load i32, i32* @gv126, !tag !459
  %v0_1 = load i32, i32* @gv216, !tag !475
  call void @fn255() #28
  br label %b1
b1:
  %v1_0 = load i32, i32* @gv216, !tag !2
  %v1_1 = load i32, i32* @gv216, !tag !812
  call void @fn5() #72
  br label %b2
b2:
  %v2_0 = load i32, i32* @30, !tag !18
  %v2_1 = load i32, i32* @114, !tag !401
  %v2_2 = load i32, i32* @gv66, !tag !50
  %v2_3 = load i32, i32* @gv36, !tag !248
  call void @fn32() #60
  ret void
}

define void @fn247() #60 {
  %v0_0 = load i32, i32* @gv276, !tag !346
  %v0_1 = load i32, i32* @gv144, !tag !572
  %v0_2 = load i32, i32* @gv516, !tag !287
  %v0_3 = load i32, i32* @gv246, !tag !495
  call void @fn249() #59
  br label %b1
b1:
  %v1_0 = load i32, i32* @gv528, !tag !563
  %v1_1 = load i32, i32* @gv258, !tag !296
  %v1_2 = load i32, i32* @gv132, !tag !607
  call void @fn161() #63
  ret void
}

define void @fn248() #30 {
  %v0_0 = load i32, i32* @gv318, !tag !611
  %v0_1 = load i32, i32* @gv528, !tag !646
  %v0_2 = load i32, i32* @gv54, !tag !47
  %v0_3 = load i32, i32* @gv126, !tag !100
  call void @fn229() #28
  ret void
}

define void @fn249() #67 #61 !dbgx !360 {
  %v0_0 = load i32, i32* @36, !tag !15
  %v0_1 = load i32, i32* @42, !tag !449
  call void @fn208() #1
  ret void
}

define void @fn250() #46 #28 {
  %v0_0 = load i32, i32* @gv246, !tag !510
  %v0_1 = load i32, i32* @gv6, !tag !610
  %v0_2 = load i32, i32* @gv186, !tag !313
  call void @fn41() #68
  ret void
}

define void @fn251() #72 #46 {
  %v0_0 = load i32, i32* @gv222, !tag !719
  %v0_1 = load i32, i32* @gv474, !tag !521
  %v0_2 = load i32, i32* @gv126, !tag !119
  %v0_3 = load i32, i32* @gv186, !tag !480
  call void @fn99() #65
  ret void
}

define void @fn252() #63 #26 !dbgx !280 {
  %v0_0 = load i32, i32* @gv18, !tag !710
  %v0_1 = load i32, i32* @90, !tag !641
  %v0_2 = load i32, i32* @gv36, !tag !693
  call void @fn87() #57
  ret void
}

define void @fn253()  {
  %v0_0 = load i32, i32* @gv96, !tag !263
  %v0_1 = load i32, i32* @gv318, !tag !260
  %v0_2 = load i32, i32* @gv426, !tag !771
  call void @fn37() #26
  br label %b1
b1:
  %v1_0 = load i32, i32* @gv426, !tag !672
  call void @fn123() #44
  ret void
}

define void @fn254() #3 #17 {
  %v0_0 = load i32, i32* @114, !tag !441
  %v0_1 = load i32, i32* @gv42, !tag !218
  %v0_2 = load i32, i32* @gv594, !tag !274
  call void @fn54() #73
  ret void
}

define void @fn255() #48 !dbgx !559 {
  %v0_0 = load i32, i32* @gv306, !tag !129
  %v0_1 = load i32, i32* @gv378, !tag !25
  %v0_2 = load i32, i32* @gv132, !tag !577
  call void @fn89() #55
  br label %b1
b1:
  %v1_0 = load i32, i32* @gv108, !tag !877
  %v1_1 = load i32, i32* @gv72, !tag !620
  %v1_2 = load i32, i32* @gv42, !tag !564
  call void @fn237() #8
  ret void
}

define void @fn256() #39 #12 {
  %v0_0 = load i32, i32* @108, !tag !48
  call void @fn152() #76
  ret void
}

define void @fn257()  {
  %v0_0 = load i32, i32* @gv132, !tag !496
  %v0_1 = load i32, i32* @gv306, !tag !386
  call void @fn48() #76
  br label %b1
b1:
  %v1_0 = load i32, i32* @0, !tag !802
  %v1_1 = load i32, i32* @gv42, !tag !571
  %v1_2 = load i32, i32* @gv234, !tag !216
  call void @fn128() #34
  br label %b2
b2:
  %v2_0 = load i32, i32* @gv408, !tag !272
  %v2_1 = load i32, i32* @gv228, !tag !526
  %v2_2 = load i32, i32* @gv18, !tag !897
  call void @fn242() #15
  ret void
}

define void @fn258() #74 #78 !dbgx !876 {
  %v0_0 = load i32, i32* @6, !tag !50
  call void @fn73() #52
  br label %b1
b1:
  %v1_0 = load i32, i32* @gv72, !tag !676
  %v1_1 = load i32, i32* @gv312, !tag !559
  call void @fn19() #73
  ret void
}

define void @fn259() #28 #65 {
  %v0_0 = load i32, i32* @72, !tag !379
  %v0_1 = load i32, i32* @gv36, !tag !671
  call void @fn21() #62
  br label %b1
b1:
  %v1_0 = load i32, i32* @gv534, !tag !597
  %v1_1 = load i32, i32* @gv312, !tag !503
  %v1_2 = load i32, i32* @gv78, !tag !228
  %v1_3 = load i32, i32* @30, !tag !283
  call void @fn256() #13
  br label %b2
b2:
  %v2_0 = load i32, i32* @gv276, !tag !161
  %v2_1 = load i32, i32* @12, !tag !864
  call void @fn214() #8
  ret void
}

attributes #0 = { nounwind }
attributes #1 = { noinline }
attributes #2 = { cold optsize }
attributes #2 = { "again" ssp }
attributes #3 = { nofree norecurse }
attributes #4 = { norecurse nofree }
attributes #5 = { cold norecurse }
attributes #6 = { norecurse minsize willreturn }
attributes #7 = { nofree }
attributes #8 = { cold readnone }
attributes #8 = { "again" ssp }
attributes #9 = { nofree "k9"="v" willreturn }
attributes #10 = { optsize "k10"="v" minsize }
attributes #11 = { willreturn noinline minsize }
attributes #12 = { optsize minsize }
attributes #13 = { nofree noinline "k13"="v" }
attributes #14 = { nofree }
attributes #14 = { "again" ssp }
attributes #15 = { minsize nofree optsize }
attributes #16 = { minsize "k16"="v" }
attributes #17 = { nofree nounwind }
attributes #18 = { optsize cold }
attributes #19 = { readnone willreturn }
attributes #20 = { readnone optsize nofree }
attributes #20 = { ssp uwtable }
attributes #21 = { willreturn }
attributes #22 = { "k22"="v" }
attributes #23 = { optsize willreturn }
attributes #24 = { norecurse }
attributes #25 = { noinline norecurse minsize }
attributes #26 = { readnone noinline norecurse }
attributes #26 = { "again" uwtable }
attributes #27 = { readnone norecurse nounwind }
attributes #28 = { readnone optsize }
attributes #29 = { noinline }
attributes #30 = { nounwind noinline }
attributes #31 = { nofree cold noinline }
attributes #32 = { norecurse minsize }
attributes #32 = { uwtable "again" }
attributes #33 = { nounwind noinline }
attributes #34 = { noinline "k34"="v" }
attributes #35 = { willreturn minsize nounwind }
attributes #36 = { optsize nounwind }
attributes #37 = { willreturn }
attributes #38 = { optsize }
attributes #38 = { uwtable ssp }
attributes #39 = { minsize "k39"="v" optsize }
attributes #40 = { noinline nofree cold }
attributes #41 = { "k41"="v" willreturn }
attributes #42 = { minsize nofree readnone }
attributes #43 = { "k43"="v" nofree }
attributes #44 = { willreturn }
attributes #44 = { ssp uwtable }
attributes #45 = { noinline nounwind nofree }
attributes #46 = { optsize }
attributes #47 = { readnone }
attributes #48 = { noinline }
attributes #49 = { cold nofree }
attributes #50 = { cold "k50"="v" readnone }
attributes #50 = { "again" uwtable }
attributes #51 = { optsize }
attributes #52 = { willreturn }
attributes #53 = { nounwind }
attributes #54 = { noinline "k54"="v" }
attributes #55 = { cold optsize }
attributes #56 = { nounwind cold nofree }
attributes #56 = { "again" ssp }
attributes #57 = { cold norecurse }
attributes #58 = { "k58"="v" nofree optsize }
attributes #59 = { nounwind cold willreturn }
attributes #60 = { cold }
attributes #61 = { nofree cold }
attributes #62 = { norecurse cold nofree }
attributes #62 = { ssp "again" }
attributes #63 = { norecurse noinline cold }
attributes #64 = { optsize }
attributes #65 = { readnone optsize minsize }
attributes #66 = { minsize noinline }
attributes #67 = { readnone }
attributes #68 = { willreturn "k68"="v" minsize }
attributes #68 = { ssp "again" }
attributes #69 = { readnone nofree }
attributes #70 = { noinline }
attributes #71 = { noinline nounwind }
attributes #72 = { "k72"="v" nounwind }
attributes #73 = { nofree }
attributes #74 = { willreturn nounwind readnone }
attributes #74 = { uwtable ssp }
attributes #75 = { nofree }
attributes #76 = { readnone noinline }
attributes #77 = { norecurse nounwind }
attributes #78 = { nounwind }
attributes #79 = { nounwind }

!nm0 = !{!388}
!nm1 = !{!550, !146}
!nm1 = !{!82}
!nm2 = !{!646}
!nm3 = !{}
!nm4 = !{}
!nm5 = !{!696, !699, !349, !350}
!nm6 = !{!686, !656, !817, !33}
!nm6 = !{!161}
!nm7 = !{!280, !684}
!nm8 = !{!869, !782}
!nm9 = !{!114, !475, !203}
!nm10 = !{!662, !567, !238, !627}
!nm11 = !{!325, !562}
!nm11 = !{!826}
!nm12 = !{!297}
!nm13 = !{}
!nm14 = !{!553, !396, !1}
!nm15 = !{}
!nm16 = !{!220}
!nm16 = !{!532}
!nm17 = !{!788, !242, !408}
!nm18 = !{!149, !591}
!nm19 = !{!122}
!nm20 = !{!737}
!nm21 = !{}
!nm21 = !{!360}
!nm22 = !{!495}
!nm23 = !{}
!nm24 = !{!420, !279}
!nm25 = !{!641, !239}
!nm26 = !{!397, !873, !678, !560}
!nm26 = !{!556}
!nm27 = !{!364, !854, !575}
!nm28 = !{}
!nm29 = !{!50, !550, !207, !376}
!nm30 = !{!574}
!nm31 = !{!521, !892, !885}
!nm31 = !{!55}
!nm32 = !{!698, !824, !328, !798}
!nm33 = !{}
!nm34 = !{!564}
!nm35 = !{!194, !616, !87, !579}
!nm36 = !{!149, !373, !250}
!nm36 = !{!488}
!nm37 = !{}
!nm38 = !{!740, !303, !699, !490}
!nm39 = !{!53, !111, !572}
!nm40 = !{!241, !226}
!nm41 = !{!658, !842, !20, !528}
!nm41 = !{!184}
!nm42 = !{!545, !329, !733}
!nm43 = !{!434}
!nm44 = !{!867}
!nm45 = !{}
!nm46 = !{!693, !310, !173}
!nm46 = !{!618}
!nm47 = !{!896, !493, !619}
!nm48 = !{}
!nm49 = !{!469, !828, !374, !352}
!nm50 = !{!876, !883, !103, !408}
!nm51 = !{!781}
!nm51 = !{!788}
!nm52 = !{!567, !780, !189, !292}
!nm53 = !{!776, !231, !536, !342}
!nm54 = !{!262, !119}
!nm55 = !{}
!nm56 = !{!342, !55, !550, !302}
!nm56 = !{!689}
!nm57 = !{!715, !157}
!nm58 = !{}
!nm59 = !{!482, !146}
!nm60 = !{!602, !851}
!nm61 = !{}
!nm61 = !{!596}
!nm62 = !{!270}
!nm63 = !{}
!nm64 = !{!614, !690}
!nm65 = !{!497}
!nm66 = !{!212, !54, !126}
!nm66 = !{!560}
!nm67 = !{!193, !110, !737, !191}
!nm68 = !{}
!nm69 = !{!360}
!nm70 = !{!524, !638, !552}
!nm71 = !{!48, !610}
!nm71 = !{!443}
!nm72 = !{!602, !531}
!nm73 = !{!711, !213, !264, !549}
!nm74 = !{!726, !132}
!nm75 = !{!85, !385, !89, !343}
!nm76 = !{!581}
!nm76 = !{!764}
!nm77 = !{!813, !485}
!nm78 = !{!551, !619}
!nm79 = !{}
!nm80 = !{!649, !574}
!nm81 = !{!587, !571}
!nm81 = !{!322}
!nm82 = !{!305}
!nm83 = !{!314, !880, !15}
!nm84 = !{}
!nm85 = !{!666, !480}
!nm86 = !{!847, !154, !60, !508}
!nm86 = !{!324}
!nm87 = !{!55, !224, !55}
!nm88 = !{!628, !204, !263}
!nm89 = !{!584, !127}
!nm90 = !{}
!nm91 = !{!613}
!nm91 = !{!118}
!nm92 = !{!71, !323, !269, !139}
!nm93 = !{!704, !895, !43, !898}
!nm94 = !{!412}
!nm95 = !{!116, !393, !662, !513}
!nm96 = !{!532, !830}
!nm96 = !{!250}
!nm97 = !{!364, !527, !206}
!nm98 = !{}
!nm99 = !{!856}
!nm100 = !{!388}
!nm101 = !{!597}
!nm101 = !{!703}
!nm102 = !{!602, !230}
!nm103 = !{!589, !888, !765, !266}
!nm104 = !{!201, !193}
!nm105 = !{!406, !349, !517, !593}
!nm106 = !{!287, !810, !216}
!nm106 = !{!811}
!nm107 = !{}
!nm108 = !{!639}
!nm109 = !{!623}
!nm110 = !{!70}
!nm111 = !{!487, !599, !156, !416}
!nm111 = !{!8}
!nm112 = !{!111, !554}
!nm113 = !{!187, !315, !752}
!nm114 = !{}
!nm115 = !{}
!nm116 = !{!503, !6, !388}
!nm116 = !{!658}
!nm117 = !{}
!nm118 = !{!560}
!nm119 = !{}

!349 = !{null, i32 126}
!145 = !{}
!77 = !{null, !533, !769, !"s86"}
!375 = !{}
!830 = !{i32 17}
!353 = !{null, i32 857, null, null}
!667 = !{!"s15", null}
!442 = !{!371, !"s62", i32 868}
!138 = !{null}
!235 = !{null, !"s92", i32 905}
!614 = !{i32 11}
!363 = !{}
!645 = !{}
!401 = !{}
!54 = !{null, i32 296, !405, null}
!671 = !{!"s24", null}
!33 = !{!734, i32 150, !"s26", !"s21"}
!652 = distinct !{null, !676, null, null}
!185 = !{!"s31"}
!76 = distinct !{!585, i32 587, i32 541}
!812 = distinct !{!"s28", !"s54", !47, !"s66"}
!216 = distinct !{i32 957, !"s6"}
!608 = distinct !{!515, i32 431, !"s14"}
!607 = !{!455, !455, null}
!731 = !{}
!313 = !{null}
!212 = distinct !{!829, !"s65"}
!45 = !{null, i32 295, i32 311}
!343 = !{!"s24", !812, !"s91"}
!222 = !{}
!335 = !{}
!270 = !{!813, !"s43", !"s98"}
!392 = distinct !{}
!886 = !{!369, null, null}
!172 = distinct !{!"s76", !"s74"}
!559 = !{i32 502}
!15 = !{null}
!344 = distinct !{!510}
!444 = distinct !{null, i32 202, !"s34"}
!878 = !{i32 857, null, !"s96"}
!312 = distinct !{i32 513, !395}
!802 = !{}
!561 = !{}
!71 = !{i32 753, null}
!65 = !{!"s74", !"s10"}
!96 = distinct !{!"s67"}
!575 = !{!153, i32 663}
!532 = distinct !{i32 633, i32 952, !736, null}
!90 = !{!"s53"}
!639 = !{!161}
!362 = !{!333}
!107 = !{!"s93", !"s90", !"s67", !327}
!805 = !{}
!108 = distinct !{!"s83", !"s43", !"s81", !"s47"}
!398 = !{null, i32 774, i32 510}
!429 = !{!809, i32 894, null, !"s31"}
!237 = !{null, !"s86", !8, !381}
!460 = distinct !{i32 967, i32 455, null}
!703 = !{}
!770 = !{i32 924, !171}
!730 = !{!537, !743, !"s31"}
!579 = !{!410, null, !"s20", null}
!761 = !{}
!699 = !{!"s86", !171}
!121 = !{}
!357 = !{!177, !199, !"s92"}
!833 = !{}
!535 = !{null, i32 773}
!547 = !{!"s25"}
!859 = !{!678, i32 179, !332, i32 840}
!258 = !{null, null}
!404 = distinct !{null, !"s31", !"s43", i32 999}
!502 = !{!321}
!16 = distinct !{null}
!351 = !{i32 995, i32 137, !"s24", i32 660}
!127 = !{null, i32 724}
!67 = !{!395}
!31 = !{!"s17"}
!336 = distinct !{}
!339 = !{!"s4", null}
!624 = distinct !{null, !"s17", i32 281}
!849 = !{!519}
!627 = !{}
!852 = distinct !{!"s26", i32 121, !732, !"s6"}
!776 = distinct !{null, !"s50", i32 67, i32 325}
!262 = !{i32 32}
!785 = !{!483, !"s77"}
!163 = !{!"s20"}
!430 = !{}
!168 = distinct !{null}
!664 = distinct !{!821, i32 560, null}
!786 = !{}
!528 = distinct !{!"s26", i32 363}
!792 = distinct !{i32 219}
!656 = distinct !{i32 371, !"s18", null}
!278 = !{null, !87, !"s68", i32 247}
!378 = !{i32 617, !"s84"}
!439 = !{!"s15", !"s69", !674}
!585 = !{!896, !662, !682}
!582 = !{i32 582}
!399 = !{!66, i32 100, null, !"s45"}
!468 = distinct !{!478, !649, !258, !801}
!741 = !{!637}
!225 = !{!"s96", null, !"s90", i32 435}
!478 = !{!484, i32 576}
!706 = !{null, !"s48"}
!588 = distinct !{!320, !323, null}
!229 = !{}
!118 = !{!"s2"}
!359 = !{null}
!719 = !{null}
!670 = !{i32 980, !607}
!129 = !{i32 199, null}
!616 = distinct !{}
!13 = !{!573, null, !883, !"s81"}
!601 = !{}
!826 = !{i32 326, i32 373, !361}
!438 = !{!"s62", !102}
!400 = distinct !{i32 900}
!740 = distinct !{i32 504, !"s94", !"s53"}
!74 = !{}
!57 = !{!888, i32 755, !576}
!322 = !{!"s20", null, null, null}
!688 = distinct !{null, !"s23", !843, null}
!647 = !{!688, !168, !"s26"}
!132 = distinct !{i32 337, i32 30, !154, null}
!540 = distinct !{!"s32", i32 745, !"s64", !"s59"}
!228 = distinct !{null, null}
!818 = !{null, null}
!317 = !{}
!51 = !{null}
!134 = !{!"s5"}
!496 = distinct !{!"s57", null}
!897 = !{null, !218, null, null}
!415 = !{}
!487 = !{i32 319, null}
!804 = distinct !{}
!256 = distinct !{!748, !807}
!238 = !{null, null, i32 401, !"s36"}
!320 = distinct !{!392}
!183 = !{null, !478}
!744 = distinct !{!105}
!508 = distinct !{!502, null}
!211 = !{!358, i32 720, null}
!158 = !{!278, null, !"s49", null}
!12 = distinct !{}
!548 = distinct !{null, !754, !492, i32 411}
!111 = !{!770}
!207 = !{!"s23", i32 93, null}
!285 = !{!"s44"}
!590 = !{}
!279 = !{!"s1", !"s9", !106, i32 909}
!665 = !{}
!669 = !{}
!448 = distinct !{!614}
!150 = !{null, !"s29", !"s30", null}
!598 = !{i32 103, !"s62", !360, !"s34"}
!694 = !{}
!437 = !{i32 981, null}
!282 = !{}
!6 = !{}
!302 = !{null, !"s15"}
!420 = distinct !{!126}
!289 = !{!"s1", null, i32 422}
!301 = !{null, i32 235, i32 698, !784}
!390 = !{i32 156}
!832 = distinct !{i32 952, !"s72"}
!808 = distinct !{}
!461 = !{null, null}
!463 = !{null}
!462 = !{!769, !"s23"}
!610 = !{}
!651 = !{}
!581 = !{!102, !"s69", i32 651, null}
!599 = !{!316, !"s77"}
!705 = !{!170}
!147 = !{i32 520, i32 222, null}
!861 = !{!596}
!135 = !{!"s92", !"s83", !213, null}
!140 = distinct !{}
!872 = distinct !{null, i32 220, null, !"s46"}
!296 = distinct !{i32 857, !747, !37, null}
!324 = distinct !{null, !264, !"s65", !"s6"}
!123 = !{!769, i32 999}
!466 = !{!845, !327, i32 740, !"s21"}
!156 = distinct !{null, !"s10", null}
!809 = !{null, null}
!264 = distinct !{null, !774, !"s39", !"s29"}
!227 = !{i32 740, null}
!323 = !{!"s48", !136, !"s2", !"s44"}
!577 = !{}
!578 = !{}
!26 = !{}
!885 = !{i32 503}
!5 = !{}
!574 = !{!421, i32 24}
!244 = distinct !{!502, !"s61", !"s76"}
!689 = !{null, !"s98", !73, !"s88"}
!94 = !{i32 954, !"s66", !"s94"}
!397 = !{}
!686 = !{i32 613, !"s82"}
!476 = distinct !{i32 630, !520, i32 169}
!766 = !{}
!355 = !{null, i32 747, i32 104, !616}
!843 = !{!818, i32 589, i32 842}
!294 = !{i32 453, !107, i32 437}
!455 = !{null}
!120 = distinct !{i32 746, !270, i32 922, !"s24"}
!354 = !{i32 165, !"s81", null, null}
!752 = distinct !{null}
!710 = !{null}
!381 = !{!683, null}
!306 = !{}
!433 = !{!657, null, i32 697}
!457 = !{i32 645, !743, null}
!210 = !{!"s56", i32 432, !"s64", !"s60"}
!10 = !{}
!721 = !{}
!19 = !{i32 627, null, i32 648}
!325 = !{!55, !"s67", !701, !94}
!60 = distinct !{null, null, !"s62"}
!25 = !{i32 417}
!162 = !{!"s16", null, i32 561, i32 785}
!735 = !{}
!631 = !{!"s49", !787, i32 584, !355}
!584 = distinct !{!"s59", i32 861, !492}
!328 = distinct !{!259, null, !844, null}
!765 = !{i32 28, null}
!801 = !{!"s78", i32 993, null, !"s71"}
!4 = distinct !{}
!224 = distinct !{!712, null, i32 895}
!709 = !{!200, !"s92"}
!233 = !{}
!424 = distinct !{}
!22 = !{i32 747}
!690 = !{!"s50"}
!143 = !{!860, i32 387}
!618 = !{}
!788 = distinct !{null, i32 64, i32 123, !"s82"}
!626 = !{}
!292 = distinct !{i32 778, !698, i32 65, !392}
!410 = !{!"s23", !741, null}
!393 = !{!556, i32 982}
!451 = !{!883, i32 509}
!405 = !{!804, !435, !533}
!612 = distinct !{i32 915, !14}
!287 = !{}
!696 = distinct !{i32 741, i32 237}
!230 = !{i32 164, !756, !321}
!768 = distinct !{!"s72", null}
!825 = !{null, i32 983, !62, !"s26"}
!402 = !{!603, !774}
!530 = !{null}
!284 = distinct !{null, !"s16", !735, !710}
!352 = distinct !{null, i32 96, !"s19", !4}
!523 = !{i32 982, !392}
!499 = !{}
!251 = !{!806}
!518 = !{!"s58", i32 193}
!522 = !{}
!338 = !{i32 382}
!187 = !{i32 963, !595}
!234 = !{i32 837, null, i32 7, !56}
!388 = distinct !{i32 518, i32 250, !879}
!213 = !{}
!621 = !{}
!680 = distinct !{}
!505 = !{!191, i32 753, !790}
!88 = distinct !{i32 770, !"s99", !225, i32 319}
!562 = !{null, !279, null, null}
!729 = !{!70, null, i32 270}
!715 = !{!"s55", i32 488, i32 463, i32 560}
!813 = !{null, !359, !880, null}
!52 = distinct !{i32 621, !802, !"s97"}
!136 = distinct !{!673, !883, i32 486}
!677 = !{!"s89", !460, null, !"s89"}
!81 = !{null, null, i32 918}
!541 = !{!"s99", !"s78", !284}
!419 = !{!"s24", null, null, !"s45"}
!56 = distinct !{}
!539 = !{}
!650 = !{null, i32 234, !730, !762}
!790 = !{!185, i32 488, !28}
!473 = !{null, null, null, i32 772}
!642 = !{i32 163, i32 915, i32 664}
!11 = !{}
!464 = distinct !{i32 278, null, !546}
!236 = distinct !{!797, !"s78"}
!164 = distinct !{null, null}
!151 = !{!"s17", !340}
!552 = distinct !{i32 261, null, !"s36"}
!396 = distinct !{!"s38"}
!0 = distinct !{!"s37"}
!784 = distinct !{}
!9 = !{}
!18 = !{!179, null}
!835 = !{i32 406, null, !"s28"}
!426 = !{!"s1", !"s65"}
!174 = !{!264, !619}
!63 = !{!"s55", !"s88"}
!543 = !{}
!157 = !{}
!245 = !{i32 77, !"s17", i32 559, !680}
!876 = distinct !{i32 690, i32 14, !"s96"}
!798 = !{}
!241 = !{!"s47"}
!160 = distinct !{i32 969}
!597 = !{}
!288 = distinct !{null}
!707 = !{i32 982}
!395 = !{i32 244, i32 289, i32 45}
!545 = !{!"s72"}
!628 = distinct !{}
!43 = !{!339}
!166 = !{null, null, i32 776}
!169 = !{i32 692, i32 861, i32 716, !"s12"}
!855 = !{!"s56", null, null}
!2 = !{!768, null, null, null}
!364 = distinct !{!"s93"}
!762 = !{!"s58"}
!239 = !{i32 920}
!609 = !{!409, null, !779, null}
!38 = !{!"s60", !453, !"s45"}
!751 = !{null, null, i32 90}
!345 = !{null, null, !143, null}
!899 = !{null, !448, i32 723}
!714 = !{i32 357, !"s26", null}
!748 = distinct !{!"s70"}
!367 = !{null, i32 459, !706, !852}
!619 = !{}
!110 = !{!"s9", !146}
!538 = !{!361, i32 135, !700}
!427 = !{}
!316 = distinct !{}
!869 = !{null}
!746 = !{null}
!866 = !{}
!501 = !{}
!564 = distinct !{}
!299 = !{!"s46", i32 945, null, null}
!93 = !{!367, !634}
!695 = !{i32 840, !"s24", i32 711}
!431 = !{null, null}
!27 = !{null, !625, !462, i32 99}
!775 = !{null, !211}
!190 = !{!"s8", !90, null}
!28 = distinct !{!"s71"}
!252 = distinct !{i32 757}
!7 = !{}
!743 = !{}
!674 = !{!117, null}
!492 = distinct !{!"s43", !"s96", i32 11}
!30 = !{}
!848 = distinct !{}
!778 = !{null, !"s76", i32 490, i32 289}
!509 = !{i32 929}
!834 = !{null, !505, !280}
!113 = !{!66, i32 303}
!734 = !{i32 723, i32 415, i32 350, i32 766}
!512 = distinct !{}
!646 = !{!649}
!589 = !{!"s47", null, !233, !757}
!421 = !{!91, null}
!191 = !{!833}
!542 = !{}
!80 = distinct !{null, i32 369, i32 990}
!827 = !{i32 265, null}
!819 = !{!"s69", !547, !"s1", null}
!453 = !{!546, !813}
!459 = !{!180, !"s34", !"s98", !"s72"}
!188 = distinct !{i32 32, !"s53", !"s99", null}
!403 = !{}
!198 = !{i32 162}
!844 = distinct !{}
!514 = !{!46}
!274 = !{}
!259 = !{null, !749}
!700 = distinct !{}
!638 = !{!"s56"}
!1 = !{!29, !"s77"}
!515 = !{!137, i32 688, !"s77", null}
!568 = distinct !{i32 11, i32 102}
!417 = !{!"s89", null}
!109 = !{null, i32 232}
!660 = distinct !{null, i32 653}
!189 = !{null, !92}
!203 = !{}
!382 = !{}
!29 = !{null, !100}
!72 = distinct !{null, null}
!774 = !{!852, null, null, i32 288}
!555 = !{null, null}
!838 = !{null, i32 929, null}
!370 = !{i32 281}
!281 = !{null, !849}
!280 = distinct !{!"s45", !"s52", !877, !"s42"}
!546 = !{}
!726 = !{}
!780 = distinct !{!442, i32 451}
!474 = !{i32 684}
!877 = !{null}
!3 = !{i32 603, i32 876, !"s24", !649}
!304 = distinct !{!"s24", i32 364}
!527 = !{null, i32 361, i32 806, null}
!481 = !{!"s67", null, !850}
!845 = !{}
!133 = !{null}
!407 = !{!"s15", !"s49"}
!764 = distinct !{!140}
!853 = !{}
!170 = !{null, null}
!479 = !{}
!112 = distinct !{!"s56"}
!334 = !{!49, !136}
!196 = distinct !{i32 75}
!558 = !{}
!644 = distinct !{!"s88"}
!635 = !{!"s81", !"s10"}
!87 = !{null, !107, i32 768, i32 322}
!632 = distinct !{}
!176 = distinct !{!"s75", null, !"s61"}
!197 = !{}
!510 = !{null, i32 403, i32 497}
!242 = !{!358, null, i32 334}
!824 = distinct !{}
!796 = distinct !{i32 256, !"s55", null}
!643 = !{!"s33", !879}
!116 = distinct !{!603, !324, !"s39"}
!759 = !{i32 788}
!657 = !{!123, !"s70"}
!137 = !{null}
!39 = !{}
!303 = !{null}
!513 = !{null, !"s2", i32 944, !"s43"}
!472 = distinct !{!805, i32 335, !"s21", null}
!767 = !{!193}
!220 = distinct !{!147, !"s28", null}
!563 = !{null, !"s23", i32 342}
!857 = !{}
!368 = distinct !{null, i32 178, !"s9", i32 157}
!126 = !{null, !"s62", i32 440}
!889 = !{!"s74", null, null, null}
!192 = distinct !{!"s67", null}
!668 = distinct !{}
!329 = !{i32 900, i32 98, null, !"s45"}
!125 = !{!"s5", !141}
!75 = !{null, !"s64", !160}
!769 = !{!"s16", null, !688}
!586 = !{}
!130 = !{}
!673 = !{null}
!366 = !{}
!506 = !{!491, i32 838, !510, i32 747}
!658 = !{i32 735, null, i32 81}
!391 = !{!"s65"}
!347 = !{!"s79", !"s12", i32 163, !668}
!711 = !{!"s89", !"s73", !"s86", null}
!605 = !{null, !852, null}
!895 = !{!"s92", null, !805, !"s31"}
!350 = !{!5, i32 543}
!141 = !{i32 606, i32 729, !541, null}
!383 = !{!220, !"s45"}
!327 = !{!"s54"}
!432 = distinct !{!"s78", !652}
!208 = distinct !{}
!630 = !{null, null, i32 918}
!794 = !{!386, null, null, !"s35"}
!811 = !{!510, !880, null, !303}
!681 = !{!"s94", !803}
!847 = !{i32 65, i32 637}
!261 = !{!105}
!663 = !{!"s72", !"s76"}
!371 = !{!121, !"s38", !245, !"s34"}
!839 = !{}
!747 = !{}
!275 = !{i32 683, !"s48", !432, null}
!549 = !{!"s1", i32 793}
!55 = !{i32 489}
!799 = !{!323, !"s0"}
!823 = !{!"s93", !355}
!662 = !{!810, i32 536}
!471 = !{null}
!842 = !{i32 279, !661}
!871 = !{i32 415, i32 464, !839}
!485 = !{!173, i32 262}
!149 = !{i32 607, null, i32 620, !"s88"}
!486 = !{!171, !"s77", null, !"s11"}
!477 = !{!696, !"s58"}
!374 = !{}
!498 = !{i32 176}
!565 = !{i32 23}
!821 = !{}
!394 = !{i32 765}
!250 = !{!"s8", !"s13", i32 298}
!155 = !{!873}
!814 = !{!612, !4, i32 979}
!449 = !{}
!594 = !{}
!678 = !{!"s74"}
!867 = !{!"s71", !"s38", !678}
!516 = distinct !{!19}
!305 = !{}
!520 = distinct !{!"s50"}
!84 = distinct !{}
!622 = !{}
!781 = !{!"s63", i32 292, !571}
!341 = !{i32 60, i32 708, i32 770}
!713 = !{null, !798}
!758 = !{}
!35 = !{!320, i32 401, !"s72", !"s0"}
!214 = !{i32 277, i32 448, !"s47"}
!511 = !{i32 210}
!553 = !{!668, i32 922, null, !"s53"}
!318 = !{}
!583 = !{i32 388, i32 774, !"s64"}
!23 = !{!"s65"}
!46 = !{}
!199 = !{!"s0", i32 170, null, !"s31"}
!373 = !{!"s94", !"s4"}
!53 = !{i32 637, !632, !"s16"}
!893 = !{}
!732 = distinct !{null, i32 548}
!793 = !{!"s54"}
!727 = !{}
!267 = !{}
!810 = !{null, null}
!576 = distinct !{i32 591, !"s63", null}
!263 = !{!183, i32 86, null, !"s48"}
!450 = !{!"s25", i32 665, i32 793}
!452 = distinct !{!343, !342, !"s49"}
!102 = !{i32 991, !747, !"s87", i32 994}
!892 = distinct !{null, i32 637, null, !723}
!504 = distinct !{!"s16", !671, null}
!385 = !{i32 180, i32 161, !"s35"}
!795 = !{!326, i32 502, i32 427, !"s17"}
!738 = !{!"s45", !"s2", !198, i32 86}
!633 = !{}
!269 = !{!"s56"}
!723 = !{!812, i32 750, !143, !570}
!653 = !{null, !"s10", !"s83"}
!41 = !{}
!534 = !{null, i32 391, !"s4"}
!868 = distinct !{i32 27}
!243 = !{i32 36, !70, i32 796}
!881 = !{}
!648 = distinct !{i32 479, null, !"s32"}
!754 = !{}
!85 = !{!784, !"s63", !845}
!757 = !{!480, null, !141}
!733 = !{!"s56", !"s69", null}
!698 = !{!146, i32 352, i32 701}
!290 = !{null, i32 753, i32 726}
!271 = !{!394, !809, !"s47"}
!782 = !{null}
!295 = !{!882}
!61 = !{}
!675 = !{!96, i32 815, !832}
!495 = !{null}
!566 = !{null, !316, !"s4"}
!702 = !{null, i32 124, !764, null}
!69 = !{}
!771 = !{null, !"s66"}
!641 = !{!145, !823, null, !"s11"}
!48 = distinct !{!"s51", !571}
!488 = distinct !{}
!556 = distinct !{null, !262, !"s73", i32 493}
!636 = distinct !{}
!822 = !{}
!684 = distinct !{!419, !"s7", !"s68", !"s69"}
!194 = !{}
!92 = distinct !{i32 987, i32 737, !"s95"}
!435 = !{!"s10", i32 8, !"s3", !738}
!595 = !{i32 401, i32 930, !"s15", null}
!456 = distinct !{i32 621}
!521 = !{!193, null, !507}
!131 = !{null}
!753 = !{i32 808, !"s40", !49, !804}
!773 = !{i32 572, !"s39", null, null}
!691 = !{i32 52}
!470 = !{i32 285, null, !"s86"}
!750 = !{!"s18", !"s48"}
!91 = !{!"s72", !237}
!418 = !{}
!500 = distinct !{!"s88", !333, !552}
!377 = !{!"s34", !473}
!682 = !{!861, !"s11"}
!24 = distinct !{null, !"s1", i32 923, !"s16"}
!592 = distinct !{}
!708 = distinct !{!"s30", !96}
!148 = distinct !{!692, !"s54", null}
!97 = !{}
!182 = !{i32 378, !"s38", null}
!153 = !{!"s79"}
!484 = distinct !{!324, !703, i32 182}
!122 = !{}
!503 = !{null, i32 637}
!800 = distinct !{!723, null}
!888 = distinct !{null, null}
!749 = !{!104, i32 703}
!178 = !{!867, null, !"s4"}
!297 = !{}
!144 = distinct !{!80, i32 879}
!40 = distinct !{i32 289, i32 122, null}
!634 = !{}
!850 = !{}
!697 = !{!"s13", !391, i32 931}
!779 = !{}
!898 = !{i32 642, i32 92, i32 103, null}
!745 = !{}
!161 = !{!"s20"}
!337 = !{i32 383, !441, null}
!206 = !{}
!365 = !{i32 12}
!249 = !{!"s69"}
!807 = !{null, null, !455}
!640 = distinct !{!272, !329}
!175 = !{null}
!266 = !{}
!791 = !{i32 300}
!219 = !{}
!654 = !{!"s60", i32 695}
!587 = !{null, !"s45"}
!611 = !{null, !"s2", !"s22"}
!687 = !{!"s50", !470, null}
!298 = !{!"s6"}
!482 = !{i32 24, !504, i32 794, i32 262}
!272 = distinct !{}
!321 = !{!514, !883}
!440 = distinct !{}
!99 = !{null, !"s1"}
!717 = !{}
!896 = distinct !{!897}
!326 = !{null}
!223 = !{!306, i32 499, null}
!679 = !{null, !43, !449}
!475 = !{null}
!319 = !{}
!376 = distinct !{null, !"s39", !"s47", !"s19"}
!89 = !{i32 982, !"s8", i32 422}
!369 = !{i32 698}
!340 = distinct !{!697}
!384 = distinct !{}
!739 = !{!83, null, null}
!139 = !{i32 374, !397, !201, !"s59"}
!856 = distinct !{!"s55", !"s68"}
!66 = !{null, null, !"s28", i32 569}
!637 = !{!618, null, !"s8"}
!247 = !{null, !"s44"}
!629 = !{i32 204, i32 730}
!409 = !{!365, i32 571}
!841 = !{}
!180 = distinct !{null, i32 706}
!268 = distinct !{!"s32", null, !"s94"}
!571 = !{!275, null, null}
!736 = distinct !{i32 173, !792, i32 324, null}
!36 = distinct !{i32 350, !"s22", !95}
!103 = !{}
!436 = distinct !{i32 218, null}
!718 = !{!897, null}
!494 = !{i32 894, i32 965, i32 399, i32 225}
!884 = distinct !{}
!573 = !{!"s30", !"s19", !"s49", i32 701}
!863 = !{!848, !"s94"}
!62 = !{null, !358}
!725 = !{null, !854, !874, i32 501}
!469 = !{null, !164, null, i32 991}
!676 = distinct !{}
!193 = !{}
!184 = distinct !{!"s22", i32 845, !"s18", null}
!507 = !{!160, !324, i32 761, !"s2"}
!434 = !{i32 473, !"s23", !"s84", i32 394}
!315 = !{!"s57"}
!445 = !{!"s63", null, null}
!311 = !{}
!425 = !{!785, !"s98"}
!544 = distinct !{null, null}
!59 = !{!"s0", !624}
!310 = !{!"s15", i32 81}
!517 = !{null}
!159 = !{!171, !700, !33}
!862 = !{!"s61", !425}
!883 = !{!"s97", i32 937, i32 518}
!724 = distinct !{null, null, !531, null}
!332 = distinct !{!892, !"s52", !"s82"}
!218 = !{}
!447 = !{!286, i32 651}
!701 = !{!475, i32 482, i32 821}
!253 = !{!746}
!333 = !{i32 878}
!655 = !{!94, !896, !433, !"s20"}
!567 = !{i32 236, !"s17", i32 605}
!692 = distinct !{i32 142, i32 947, !"s44"}
!613 = !{null, i32 724}
!260 = distinct !{}
!458 = !{}
!875 = !{!"s43"}
!309 = !{i32 702, !"s43", null, null}
!78 = !{i32 314, !"s24", !209}
!865 = !{!"s41"}
!537 = !{i32 71, null, !516}
!737 = !{}
!831 = !{}
!106 = !{}
!891 = !{!"s75", i32 444, !"s27", i32 760}
!342 = !{null, i32 326}
!105 = !{}
!283 = !{!397, !"s32", null}
!173 = !{null, null, null}
!720 = distinct !{}
!815 = !{!546, !117, !"s51", !"s58"}
!221 = !{}
!593 = !{}
!300 = distinct !{!"s66"}
!806 = !{i32 321, !"s99"}
!489 = !{}
!531 = !{!572}
!820 = distinct !{i32 760}
!179 = !{null, !346}
!880 = distinct !{i32 639, !464, !"s56", null}
!255 = !{null, !262}
!661 = !{null}
!846 = !{null, null}
!879 = !{}
!551 = !{!"s34"}
!615 = !{!434, !411, !867, null}
!602 = !{}
!490 = !{!549, null, !"s81", !737}
!8 = distinct !{i32 825, null, !507}
!837 = !{!828, i32 560, !"s6", null}
!554 = !{}
!483 = !{null, i32 498, i32 93}
!882 = !{}
!467 = !{!855, i32 69, !482}
!742 = !{!"s63", null, !"s87", i32 356}
!146 = !{null, !"s63"}
!491 = !{null, null}
!248 = distinct !{null}
!659 = !{i32 214, !800}
!493 = !{!"s9"}
!497 = !{}
!246 = !{!"s70", null, !"s5"}
!683 = !{!"s11", !448, !191, null}
!70 = !{}
!454 = !{i32 219, !118, null, !524}
!803 = !{!129, !186, !586}
!580 = distinct !{!"s7", null, null, !753}
!83 = !{i32 981, !246}
!836 = distinct !{null}
!623 = !{}
!379 = !{!"s85", null}
!186 = !{i32 373}
!204 = distinct !{i32 461, !625, !313}
!348 = distinct !{}
!372 = distinct !{i32 539, !"s33"}
!358 = !{!"s65", i32 983, !375}
!789 = !{}
!314 = !{!"s44"}
!114 = !{!604, i32 880, !"s19"}
!569 = !{!"s60", null, i32 647}
!625 = !{}
!34 = !{i32 473, i32 264, !"s45"}
!572 = distinct !{!316}
!177 = !{!417, null}
!98 = !{!718, null, null, null}
!672 = distinct !{!741, i32 547, !287, !"s9"}
!408 = distinct !{!262, i32 598}
!202 = !{!"s71"}
!864 = distinct !{!"s40", !"s15", !221, null}
!887 = !{null, null, i32 268, !714}
!874 = !{!"s8", !601, !"s13"}
!620 = distinct !{null, !864, null, !"s71"}
!840 = distinct !{null}
!446 = !{!"s33", !727, i32 736}
!666 = !{i32 995, null, !201, !368}
!716 = distinct !{null, null, i32 520}
!755 = !{}
!529 = !{i32 336, null, null}
!525 = !{null}
!890 = !{!322, null, !"s41", i32 941}
!273 = !{null, !455}
!423 = !{i32 682, !"s51", i32 402, null}
!519 = !{!621, i32 186}
!894 = !{!"s25", null}
!380 = distinct !{null, !303, !765}
!617 = !{!"s77", i32 733}
!693 = !{!300, null}
!124 = distinct !{!"s45", !188, i32 18}
!181 = !{!"s56", null}
!783 = !{i32 939, !584}
!428 = distinct !{!"s87", !"s43", null, !"s48"}
!101 = !{}
!115 = !{i32 158}
!406 = !{null, i32 78, !847, null}
!596 = distinct !{}
!387 = !{null, i32 435}
!356 = distinct !{!"s99"}
!200 = distinct !{!"s50", i32 793}
!533 = !{null, null}
!50 = !{}
!649 = !{!"s44", i32 960}
!604 = distinct !{i32 416, i32 759, null, i32 321}
!277 = !{!84}
!154 = !{}
!44 = distinct !{i32 368, null, i32 473}
!685 = !{!226, !"s88", !288, i32 423}
!346 = !{null, !"s89", null}
!308 = distinct !{i32 309, !"s36"}
!389 = !{i32 893}
!32 = distinct !{!397, null, !"s46"}
!215 = !{}
!870 = !{!"s22"}
!226 = !{!630, null, !528}
!291 = !{!"s46", !158, !"s29"}
!526 = !{null, i32 702}
!817 = !{i32 714, i32 273, !583}
!557 = !{!"s38", i32 366}
!816 = distinct !{i32 128, null, null}
!722 = !{}
!240 = distinct !{null, null}
!152 = distinct !{}
!712 = distinct !{!636}
!95 = !{}
!20 = distinct !{!"s20", null, !"s12", !"s65"}
!42 = !{null}
!37 = !{null}
!570 = !{i32 434}
!854 = !{i32 267, !"s66", i32 233, !"s58"}
!307 = !{!705, !596, i32 787}
!104 = distinct !{!"s54"}
!606 = !{!449, !887, !174}
!165 = !{null}
!480 = distinct !{!358, i32 590, !584, null}
!777 = !{null, !"s49", !807, null}
!47 = !{i32 39, !387}
!119 = !{null, null}
!14 = !{i32 664, !"s89", null}
!217 = !{i32 642}
!416 = distinct !{}
!591 = !{i32 222}
!361 = !{!"s0"}
!411 = !{i32 985, i32 965, !628}
!100 = distinct !{}
!82 = !{i32 305, !74, null}
!167 = !{null, !248}
!360 = distinct !{}
!600 = distinct !{!104, !898, !812}
!858 = !{}
!58 = !{}
!331 = !{}
!524 = distinct !{!620, !545, null}
!441 = !{}
!276 = distinct !{}
!79 = !{!643, !"s3"}
!828 = distinct !{null, null}
!265 = !{i32 733, null, !"s66"}
!17 = !{null, !"s41", null}
!205 = !{}
!293 = !{!645, i32 579}
!64 = distinct !{!"s19", !"s76"}
!756 = distinct !{!"s45", null, !"s2"}
!603 = !{!"s90"}
!171 = !{!15}
!128 = distinct !{!"s23", null, i32 238, null}
!860 = distinct !{null, !887}
!728 = distinct !{!851, !"s29", !"s8", !"s94"}
!209 = !{null, !"s68", !645, null}
!330 = !{!"s16", !68, i32 368}
!386 = !{}
!413 = !{!208}
!257 = !{}
!414 = !{!"s20", !"s69", i32 345, null}
!232 = distinct !{}
!465 = !{i32 612, i32 689, !627, !267}
!787 = !{!"s6", !642, null}
!851 = !{!"s45", !864, !869}
!763 = !{null}
!443 = !{null, !240, i32 298, !"s79"}
!412 = distinct !{!223, !238, !"s87"}
!536 = distinct !{}
!201 = !{i32 419, null}
!195 = !{!69, !341, i32 745}
!49 = !{!"s78", !860, i32 944, i32 376}
!286 = !{}
!254 = !{}
!873 = !{!"s47", i32 184, null, i32 969}
!21 = !{i32 228, !327}
!73 = !{!"s6", !274, null, null}
!550 = !{!"s71", i32 500, i32 41, null}
!231 = !{!398, i32 396}
!772 = distinct !{}
!560 = distinct !{null, !"s44", !678}
!422 = !{}
!142 = !{}
!760 = distinct !{!"s9", !"s30", !122}
!117 = !{}
!68 = distinct !{null}
!704 = distinct !{!"s40", !831, !770, !"s64"}
!829 = !{null, !"s65", !123, null}
!797 = !{}
!86 = !{null, i32 184, !"s2", !"s97"}
