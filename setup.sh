#!/bin/bash
# Build the framework from files on disk only (offline) and warm the Go build cache.
set -e
export GOFLAGS=-mod=mod GOPROXY=off GOSUMDB=off GOTOOLCHAIN=local
cd "$(dirname "$0")/sim"
mkdir -p ../bin ../evidence ../replays
go build -o ../bin/instrument ./cmd/instrument
go build -o ../bin/simcheck ./cmd/simcheck
cd ..
bin/simcheck -prewarm
