; Several custom (non-LLVM) metadata attachment kinds on one entity, in an order
; that is not alphabetical; mdkinds_b.ll mentions the same kinds in another order.
@g = global i32 0, !zeta.hint !0, !alpha.hint !1, !mid.hint !0

define void @f(i32* %p) !zeta.hint !0 !alpha.hint !1 {
  %v = load i32, i32* %p, !zeta.hint !0, !alpha.hint !1, !mid.hint !0
  store i32 %v, i32* @g, !mid.hint !1, !alpha.hint !0
  ret void, !omega.hint !1, !beta.hint !0
}

!0 = !{i32 1}
!1 = !{i32 2}
