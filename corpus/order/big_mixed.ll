%T39 = type { i8, %T3* }
%T25 = type { i1, %T29*, %T34*, %T14* }
%T16 = type { i64, %T2*, %T18*, %T33* }
%T31 = type opaque
%T13 = type { i64, %T25*, %T28*, %T26* }
%T19 = type <{ i8, %T14*, %T20* }>
%T20 = type { i1, %T36*, %T25* }
%T37 = type { i32, %T14*, %T5* }
%T36 = type { i32, %T0*, %T1*, %T35* }
%T30 = type { i8, %T28* }
%T4 = type opaque
%T18 = type { i1, %T35*, %T25* }
%T5 = type <{ i32, %T15*, %T28*, %T6* }>
%T12 = type { i8, %T23*, %T39* }
%T26 = type { i16, %T25*, %T20* }
%T15 = type { i8, %T12*, %T37*, %T23* }
%T38 = type { i64, %T34* }
%T2 = type opaque
%T22 = type { i8, %T16*, %T23*, %T19* }
%T21 = type <{ i1, %T38*, %T3*, %T5* }>
%T6 = type { i64, %T17* }
%T8 = type { i16, %T23* }
%T1 = type { i32, %T1* }
%T32 = type { i32, %T20*, %T10* }
%T7 = type opaque
%T29 = type { i1, %T10* }
%T14 = type <{ i16, %T6*, %T15* }>
%T11 = type { i8, %T37*, %T33* }
%T10 = type { i32, %T4* }
%T33 = type { i16, %T35*, %T34*, %T19* }
%T24 = type { i16, %T35*, %T22* }
%T28 = type opaque
%T23 = type { i1, %T35* }
%T17 = type <{ i64, %T0* }>
%T27 = type { i64, %T20* }
%T3 = type { i16, %T7*, %T14* }
%T35 = type { i8, %T31*, %T4* }
%T9 = type { i8, %T32* }
%T34 = type opaque
%T0 = type { i32, %T13* }

$cd0 = comdat largest
$cd1 = comdat any
$cd2 = comdat samesize
$cd3 = comdat samesize
$cd4 = comdat largest
$cd5 = comdat any
$cd6 = comdat nodeduplicate
$cd7 = comdat exactmatch
$cd8 = comdat samesize
$cd9 = comdat exactmatch
$cd10 = comdat samesize
$cd11 = comdat exactmatch
$cd12 = comdat largest
$cd13 = comdat largest
$cd14 = comdat largest
$cd15 = comdat nodeduplicate
$cd16 = comdat any
$cd17 = comdat nodeduplicate
$cd18 = comdat any
$cd19 = comdat exactmatch

@0 = global i32 0
@gv1 = global i32* @gv24, comdat($cd0)
@gv2 = global %T34* null
@gv3 = constant void ()* @fn4
@gv4 = global i8* bitcast (i32* @6 to i8*), !md !59
@1 = external global i64
@gv6 = global i32 6
@gv7 = global i32* @gv36
@gv8 = global %T16* null
@gv9 = constant void ()* @fn5, comdat($cd5)
@2 = global i8* bitcast (i32* @6 to i8*), !md !31
@gv11 = external global i64
@gv12 = global i32 12
@gv13 = global i32* @0, comdat($cd12)
@gv14 = global %T6* null
@3 = constant void ()* @fn8
@gv16 = global i8* bitcast (i32* @gv6 to i8*), !md !40
@gv17 = external global i64
@gv18 = global i32 18
@gv19 = global i32* @6
@4 = global %T34* null
@gv21 = constant void ()* @fn1, comdat($cd2)
@gv22 = global i8* bitcast (i32* @6 to i8*), !md !33
@gv23 = external global i64
@gv24 = global i32 24
@5 = global i32* @0, comdat($cd13)
@gv26 = global %T20* null
@gv27 = constant void ()* @fn11
@gv28 = global i8* bitcast (i32* @gv18 to i8*), !md !55
@gv29 = external global i64
@6 = global i32 30
@gv31 = global i32* @6
@gv32 = global %T4* null
@gv33 = constant void ()* @fn9, comdat($cd15)
@gv34 = global i8* bitcast (i32* @gv18 to i8*), !md !34
@7 = external global i64
@gv36 = global i32 36
@gv37 = global i32* @gv18, comdat($cd13)
@gv38 = global %T18* null
@gv39 = constant void ()* @fn11

@alias0 = alias i32, i32* @gv24
@alias1 = alias i32, i32* @6
@alias2 = alias i32, i32* @0
@alias3 = alias i32, i32* @gv6
@alias4 = alias i32, i32* @gv24
@alias5 = alias i32, i32* @6

define void @fn0() #12 !dbgx !20 {
  %v0_0 = load i32, i32* @gv36, !tag !12
  call void @fn3() #18
  br label %b1
b1:
  %v1_0 = load i32, i32* @0, !tag !25
  %v1_1 = load i32, i32* @gv12, !tag !54
  call void @fn8() #10
  ret void
}

define void @fn1()  {
  %v0_0 = load i32, i32* @gv12, !tag !51
  %v0_1 = load i32, i32* @gv24, !tag !4
  %v0_2 = load i32, i32* @gv18, !tag !5
  call void @fn3() #14
  ret void
}

define void @fn2() #3 {
  %v0_0 = load i32, i32* @gv6, !tag !4
  %v0_1 = load i32, i32* @gv36, !tag !47
  %v0_2 = load i32, i32* @0, !tag !17
  call void @fn7() #5
  ret void
}

define void @fn3()  !dbgx !40 {
  %v0_0 = load i32, i32* @gv18, !tag !3
  %v0_1 = load i32, i32* @gv36, !tag !27
  call void @fn6() #19
  br label %b1
b1:
  %v1_0 = load i32, i32* @gv12, !tag !46
  %v1_1 = load i32, i32* @6, !tag !30
  %v1_2 = load i32, i32* @0, !tag !30
  call void @fn1() #0
  br label %b2
b2:
  %v2_0 = load i32, i32* @6, !tag !0
  %v2_1 = load i32, i32* @gv18, !tag !21
  %v2_2 = load i32, i32* @gv6, !tag !31
  call void @fn0() #4
  ret void
}

define void @fn4() #10 {
  %v0_0 = load i32, i32* @gv24, !tag !42
  %v0_1 = load i32, i32* @gv12, !tag !39
  call void @fn2() #0
  br label %b1
b1:
  %v1_0 = load i32, i32* @gv12, !tag !20
  %v1_1 = load i32, i32* @0, !tag !18
  call void @fn10() #5
  br label %b2
b2:
  %v2_0 = load i32, i32* @gv36, !tag !40
  %v2_1 = load i32, i32* @6, !tag !46
  call void @fn2() #9
  ret void
}

define void @fn5() #15 #14 {
  %v0_0 = load i32, i32* @gv18, !tag !53
  %v0_1 = load i32, i32* @gv12, !tag !16
  %v0_2 = load i32, i32* @gv18, !tag !42
  %v0_3 = load i32, i32* @gv6, !tag !10
  call void @fn3() #0
  br label %b1
b1:
  %v1_0 = load i32, i32* @gv12, !tag !39
  call void @fn3() #15
  br label %b2
b2:
  %v2_0 = load i32, i32* @gv12, !tag !25
  call void @fn8() #11
  ret void
}

define void @fn6()  !dbgx !52 {
  %v0_0 = load i32, i32* @gv6, !tag !57
  %v0_1 = load i32, i32* @gv36, !tag !23
  call void @fn7() #6
  br label %b1
b1:
  %v1_0 = load i32, i32* @6, !tag !23
  %v1_1 = load i32, i32* @gv12, !tag !49
  %v1_2 = load i32, i32* @0, !tag !24
  call void @fn9() #8
  ret void
}

define void @fn7() #4 {
  %v0_0 = load i32, i32* @6, !tag !5
  call void @fn8() #19
  ret void
}

define void @fn8() #12 #15 {
  %v0_0 = load i32, i32* @gv24, !tag !54
  %v0_1 = load i32, i32* @gv36, !tag !38
  %v0_2 = load i32, i32* @gv36, !tag !58
  call void @fn1() #18
  br label %b1
b1:
  %v1_0 = load i32, i32* @6, !tag !42
  call void @fn8() #5
  ret void
}

define void @fn9()  !dbgx !44 {
  %v0_0 = load i32, i32* @gv12, !tag !13
  %v0_1 = load i32, i32* @6, !tag !59
  call void @fn7() #12
  br label %b1
b1:
  %v1_0 = load i32, i32* @gv12, !tag !36
  %v1_1 = load i32, i32* @gv18, !tag !5
  %v1_2 = load i32, i32* @0, !tag !53
  call void @fn9() #10
  ret void
}

define void @fn10() #4 #2 {
  %v0_0 = load i32, i32* @gv24, !tag !46
  %v0_1 = load i32, i32* @gv36, !tag !51
  call void @fn10() #5
  br label %b1
b1:
  %v1_0 = load i32, i32* @gv36, !tag !13
  %v1_1 = load i32, i32* @gv36, !tag !30
  call void @fn4() #9
  ret void
}

define void @fn11()  {
  %v0_0 = load i32, i32* @0, !tag !10
  call void @fn11() #13
  br label %b1
b1:
  %v1_0 = load i32, i32* @gv18, !tag !30
  %v1_1 = load i32, i32* @gv24, !tag !19
  call void @fn10() #9
  br label %b2
b2:
  %v2_0 = load i32, i32* @gv36, !tag !26
  %v2_1 = load i32, i32* @6, !tag !19
  %v2_2 = load i32, i32* @gv36, !tag !56
  call void @fn6() #11
  ret void
}

attributes #0 = { "k0"="v" }
attributes #1 = { nofree readnone noinline }
attributes #2 = { minsize }
attributes #2 = { uwtable ssp }
attributes #3 = { cold nofree optsize }
attributes #4 = { nofree noinline }
attributes #5 = { "k5"="v" norecurse }
attributes #6 = { norecurse }
attributes #7 = { minsize noinline }
attributes #8 = { willreturn }
attributes #8 = { "again" ssp }
attributes #9 = { norecurse readnone }
attributes #10 = { nounwind }
attributes #11 = { optsize }
attributes #12 = { optsize readnone }
attributes #13 = { optsize }
attributes #14 = { norecurse "k14"="v" }
attributes #14 = { "again" uwtable }
attributes #15 = { minsize }
attributes #16 = { optsize }
attributes #17 = { noinline nofree willreturn }
attributes #18 = { cold minsize }
attributes #19 = { readnone }

!nm0 = !{!37, !32, !22}
!nm1 = !{!20}
!nm1 = !{!36}
!nm2 = !{!32}
!nm3 = !{}
!nm4 = !{!55, !14, !30}
!nm5 = !{!1, !58}
!nm6 = !{!55, !37}
!nm6 = !{!50}
!nm7 = !{!8, !19, !19, !12}
!nm8 = !{!15, !35}
!nm9 = !{!2}
!nm10 = !{}
!nm11 = !{!35, !34}
!nm11 = !{!52}
!nm12 = !{!45, !47, !30}
!nm13 = !{!28}
!nm14 = !{!51, !49}
!nm15 = !{}
!nm16 = !{!47, !11, !49}
!nm16 = !{!1}
!nm17 = !{!51, !27}
!nm18 = !{!50, !54, !3, !54}
!nm19 = !{!8, !9, !43}

!20 = distinct !{i32 751, null}
!4 = distinct !{!"s34", i32 525}
!57 = !{i32 182, !12, !28}
!47 = !{!"s43", null, !"s75", !51}
!0 = distinct !{null, i32 309, i32 475}
!27 = !{!35}
!43 = !{null, null, !54, !54}
!12 = distinct !{i32 841, !30}
!32 = distinct !{i32 475, !"s15", null}
!30 = !{i32 782}
!44 = distinct !{i32 693, null}
!35 = !{}
!48 = distinct !{!18, !"s77", null}
!5 = !{null, !"s75"}
!42 = !{i32 475, !"s17"}
!54 = !{!"s35"}
!22 = !{!"s23", !35, null, !13}
!10 = !{null, !55}
!34 = !{i32 892, null, !39}
!16 = distinct !{i32 828}
!8 = distinct !{!"s21", !"s77", !39, i32 389}
!29 = !{}
!37 = !{i32 18}
!51 = !{!46, i32 755, null}
!55 = !{!53, !44, null}
!41 = !{i32 864, !"s39", null}
!25 = !{}
!24 = distinct !{}
!26 = !{i32 758, null, null}
!28 = distinct !{!"s31", null}
!3 = !{null, !32, i32 471}
!53 = !{}
!45 = !{}
!50 = !{}
!38 = !{}
!19 = !{null, i32 327, !"s58", null}
!33 = !{}
!31 = !{!45, !"s45"}
!59 = !{!31, !"s90"}
!21 = !{null, !46}
!17 = !{!"s38", i32 788, !"s56", !12}
!46 = !{!"s59", null}
!14 = !{!"s1", !"s64", null}
!39 = !{null, null, !47, null}
!49 = !{i32 328, i32 162, !7}
!9 = !{}
!56 = distinct !{null, i32 145}
!2 = !{!"s14", !51, !7}
!52 = distinct !{}
!15 = !{null}
!36 = distinct !{!17}
!11 = !{null}
!1 = !{i32 892}
!6 = !{null, !10, null}
!23 = !{!"s97", null, null, !"s8"}
!58 = !{i32 461, !57, i32 474, !11}
!7 = !{!27, i32 881, null, !"s46"}
!13 = !{}
!40 = distinct !{i32 399, i32 442, !"s30"}
!18 = !{i32 867}
