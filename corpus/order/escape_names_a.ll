; Named metadata whose names need escaping (space, line feed, quote): the same bytes
; appear as string constants in escape_names_b.ll; names and strings are escaped by
; different rules.
!hello\20world\0A = !{!0}
!a\22quoted\22\20name = !{!0, !1}
!tab\09here = !{!1}
!0 = !{!"hello world\0A", !"a \22quoted\22 name"}
!1 = !{!"tab\09here"}
