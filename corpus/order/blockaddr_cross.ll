; functions that take the address of blocks of each other (and of themselves);
; forward references go to unnamed blocks, so that the printed number depends on
; the numbering of the other function.
@tab = global [2 x i8*] [i8* blockaddress(@ping, %pa), i8* blockaddress(@pong, %2)]

define i8* @ping(i32 %x) {
  br label %pa

pa:
  %1 = icmp eq i32 %x, 0
  %2 = select i1 %1, i8* blockaddress(@pong, %2), i8* blockaddress(@ping, %pa)
  ret i8* %2
}

define i8* @pong(i32) {
  br label %2

2:
  %3 = ptrtoint i8* blockaddress(@ping, %pa) to i64
  %4 = inttoptr i64 %3 to i8*
  indirectbr i8* %4, [label %2, label %pz]

pz:
  ret i8* blockaddress(@third, %1)
}

define void @third() {
  br label %1

1:
  store i8* blockaddress(@pong, %pz), i8** getelementptr ([2 x i8*], [2 x i8*]* @tab, i32 0, i32 1)
  ret void
}
