; metadata definitions with forward and cyclic references, distinct nodes, DI
; nodes, ten named metadata (one defined three times), attachments on globals,
; functions and instructions.
@g = global i32 0, !dbg !20, !custom !3

define void @f(i32 %x) !dbg !12 !prof !4 {
entry:
  %y = add i32 %x, 1, !dbg !16, !custom.r !5
  call void @llvm.dbg.value(metadata i32 %y, metadata !17, metadata !DIExpression()), !dbg !16
  store i32 %y, i32* @g, !tbaa !6, !nontemporal !{i32 1}
  ret void, !dbg !18
}

declare void @llvm.dbg.value(metadata, metadata, metadata)

!llvm.dbg.cu = !{!9}
!llvm.module.flags = !{!0, !1}
!llvm.ident = !{!2}
!named.a = !{!3, !4}
!named.b = !{!5}
!named.b = !{!6, !7}
!named.b = !{!8}
!named.c = !{!19, !3}
!named.d = !{!0}
!named.e = !{}
!named.f = !{!7, !7, !7}
!named.g = !{!21}
!named.h = !{!22, !23}

!0 = !{i32 2, !"Dwarf Version", i32 4}
!1 = !{i32 2, !"Debug Info Version", i32 3}
!2 = !{!"hand\5Cwritten \22v1\22"}
!3 = distinct !{!3, !4}
!4 = !{!"function_entry_count", i64 10}
!5 = !{i32 0, i32 100}
!6 = !{!7, !7, i64 0}
!7 = !{!"int", !8, i64 0}
!8 = !{!"omnipotent char", !19, i64 0}
!9 = distinct !DICompileUnit(language: DW_LANG_C99, file: !10, producer: "handwritten", isOptimized: false, runtimeVersion: 0, emissionKind: FullDebug, enums: !11, globals: !24)
!10 = !DIFile(filename: "m.c", directory: "/tmp")
!11 = !{}
!12 = distinct !DISubprogram(name: "f", scope: !10, file: !10, line: 1, type: !13, scopeLine: 1, spFlags: DISPFlagDefinition, unit: !9, retainedNodes: !11)
!13 = !DISubroutineType(types: !14)
!14 = !{null, !15}
!15 = !DIBasicType(name: "int", size: 32, encoding: DW_ATE_signed)
!16 = !DILocation(line: 2, column: 3, scope: !12)
!17 = !DILocalVariable(name: "y", scope: !12, file: !10, line: 2, type: !15)
!18 = !DILocation(line: 3, column: 1, scope: !12)
!19 = !{!"Simple C/C++ TBAA"}
!20 = !DIGlobalVariableExpression(var: !25, expr: !DIExpression())
!21 = !{!22}
!22 = distinct !{!23}
!23 = !{!21, null, !"cycle"}
!24 = !{!20}
!25 = distinct !DIGlobalVariable(name: "g", scope: !9, file: !10, line: 1, type: !15, isLocal: false, isDefinition: true)
