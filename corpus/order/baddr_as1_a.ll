; A function in a non-zero address space whose block address is taken (sibling of baddr_as1_b.ll).
@t = global i8* blockaddress(@g, %bb)
define void @g() addrspace(1) {
entry:
  br label %bb
bb:
  ret void
}
define i8* @h() addrspace(2) {
  br label %x
x:
  ret i8* blockaddress(@h, %x)
}
