; ten comdats of every selection kind, used explicitly and implicitly.
$c0 = comdat any
$c1 = comdat exactmatch
$c2 = comdat largest
$c3 = comdat nodeduplicate
$c4 = comdat samesize
$c5 = comdat any
$"c\206" = comdat any
$c7 = comdat any
$c8 = comdat any
$c9 = comdat largest
$c10 = comdat any
$fn = comdat any
$g_implicit = comdat any

@g0 = global i32 0, comdat($c0)
@g1 = global i32 1, comdat($c1)
@g2 = global i32 2, comdat($c2)
@g3 = global i32 3, comdat($c3)
@g4 = global i32 4, comdat($c4)
@g5 = global i32 5, comdat($c5)
@g6 = global i32 6, comdat($"c\206")
@g7 = global i32 7, comdat($c7)
@g_implicit = global i32 8, comdat
@g9 = global i32 9, comdat($c9)
@g10 = global i32 10, comdat($c0)

define void @fn() comdat {
  ret void
}

define void @fn8() comdat($c8) {
  ret void
}

define void @fn10() comdat($c10) {
  ret void
}
