; twelve attribute groups, two of them defined twice (merged), referenced by
; declarations, definitions and call sites.
declare void @d0() #0
declare void @d1() #1
declare void @d2() #2
declare void @d3() #3 #4
declare void @d11() #11

define void @f5() #5 {
  call void @d0() #6
  call void @d1() #7
  ret void
}

define void @f8() #8 #9 {
  call void @d2() #10
  ret void
}

define i32 @f12(i32 %x) #12 {
  ret i32 %x
}

attributes #0 = { nounwind }
attributes #1 = { readnone "key"="value" "k\22q"="v\5Cw" }
attributes #2 = { noinline optnone }
attributes #3 = { alwaysinline }
attributes #4 = { cold }
attributes #5 = { nounwind uwtable }
attributes #5 = { "frame-pointer"="all" nounwind }
attributes #6 = { nobuiltin }
attributes #7 = { noreturn }
attributes #8 = { minsize }
attributes #9 = { optsize "a" }
attributes #9 = { "b"="c" optsize }
attributes #10 = { readonly }
attributes #11 = { norecurse "no-jump-tables"="true" }
attributes #12 = { alignstack=16 ssp }
