; use-list order directives, global and per function, and for basic blocks.
@a = global i32 1
@b = global i32* @a
@c = global i32* @a
@d = global i32* @a

define i32 @f(i32 %x) {
entry:
  %p = add i32 %x, 1
  %q = add i32 %p, %p
  %r = mul i32 %p, %q
  br label %next

next:
  br i1 undef, label %next, label %exit

exit:
  ret i32 %r

  uselistorder i32 %p, { 2, 0, 1 }
  uselistorder label %next, { 1, 0 }
}

define void @g() {
a:
  br label %b
b:
  br label %b
}

@ba0 = global i8* blockaddress(@g, %b)
@ba1 = global i8* blockaddress(@g, %b)

uselistorder i32* @a, { 2, 0, 1 }
uselistorder i8* blockaddress(@g, %b), { 1, 0 }
uselistorder_bb @g, %b, { 2, 0, 1 }
