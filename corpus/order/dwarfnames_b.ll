; As dwarfnames_a.ll, with a tag and an operation name from a newer LLVM release (the grammar takes any
; DW_TAG_* / DW_OP_* word; the translator gives up on names it does not know).
@g = global i32 0, !dbg !5
!llvm.dbg.cu = !{!0}
!llvm.module.flags = !{!2}
!0 = distinct !DICompileUnit(language: DW_LANG_C99, file: !1, emissionKind: FullDebug, globals: !3)
!1 = !DIFile(filename: "b.c", directory: "/")
!2 = !{i32 2, !"Debug Info Version", i32 3}
!3 = !{!5}
!4 = !DIBasicType(name: "int", size: 32, encoding: DW_ATE_signed)
!5 = !DIGlobalVariableExpression(var: !6, expr: !DIExpression(DW_OP_LLVM_extract_bits_sext, 0, 8))
!6 = distinct !DIGlobalVariable(name: "g", scope: !0, file: !1, line: 1, type: !7, isLocal: false, isDefinition: true)
!7 = !DIDerivedType(tag: DW_TAG_LLVM_ptrauth_type, baseType: !4)
