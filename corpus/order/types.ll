; twelve named types: forward, backward and cyclic references, an opaque type,
; packed structs, function types, arrays and vectors of named types.
%t0 = type { i32, %t1*, %t11* }
%t1 = type { %t2, [4 x %t3*] }
%t2 = type <{ i8, %t0* }>
%t3 = type { %t3*, %t4* }
%t4 = type { %t5*, %t3* }
%t5 = type { %t4*, %t10 (i32, %t6*)* }
%t6 = type opaque
%t7 = type [3 x %t8]
%t8 = type { <4 x i32>, %t9* }
%t9 = type { %t7*, %t0* }
%t10 = type { i64, double }
%t11 = type { %t0*, %t1*, %t2*, %t5*, %t9* }
%"quoted\20type" = type { %t11*, %"42"* }
%"42" = type { i1 }
%13 = type { %"quoted\20type"*, %14* }
%14 = type { %13* }

@g0 = global %t0 zeroinitializer
@g1 = external global %t6
@g2 = global %t11* null
@g3 = global %13* null
@g4 = global %"quoted\20type"* null

define %t10 @f(%t3* %p, %t9* %q) {
entry:
  %a = getelementptr %t3, %t3* %p, i32 0, i32 1
  %b = load %t4*, %t4** %a
  %c = getelementptr %t9, %t9* %q, i32 0, i32 1
  %d = load %t0*, %t0** %c
  %e = insertvalue %t10 undef, i64 1, 0
  ret %t10 %e
}
