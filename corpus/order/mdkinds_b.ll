; The custom attachment kinds of mdkinds_a.ll, first seen here in another order.
@h = global i32 1, !alpha.hint !0

define void @k(i32* %p) !mid.hint !0 {
  %v = load i32, i32* %p, !beta.hint !0, !alpha.hint !1
  store i32 %v, i32* @h, !omega.hint !0, !zeta.hint !1
  ret void
}

!0 = !{i32 3}
!1 = !{i32 4}
