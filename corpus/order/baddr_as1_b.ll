; The ordinary case (sibling of baddr_as1_a.ll): block addresses of functions in address space 0.
@t = global i8* blockaddress(@g, %bb)
@u = global [2 x i8*] [i8* blockaddress(@g, %bb), i8* blockaddress(@g, %entry2)]
define void @g() {
entry:
  br label %bb
bb:
  br label %entry2
entry2:
  ret void
}
