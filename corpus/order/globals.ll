; many globals, aliases, ifuncs and functions that refer to each other forwards,
; backwards and cyclically; unnamed globals and functions interleaved with named
; ones; blockaddress of blocks in later functions.
@a = global i32* @b
@b = global i32 7
@c = global i32** @a
@0 = global i32 1
@d = global [3 x i32*] [i32* @b, i32* @0, i32* @1]
@1 = global i32 2
@e = constant { i32*, void ()* } { i32* @1, void ()* @f2 }
@ring0 = global i8* bitcast (i8** @ring1 to i8*)
@ring1 = global i8* bitcast (i8** @ring2 to i8*)
@ring2 = global i8* bitcast (i8** @ring0 to i8*)
@2 = private unnamed_addr constant [6 x i8] c"hello\00"
@str = global i8* getelementptr inbounds ([6 x i8], [6 x i8]* @2, i32 0, i32 0)
@ba0 = global i8* blockaddress(@f3, %later)
@ba1 = global i8* blockaddress(@f3, %2)
@tl = thread_local(initialexec) global i32 0, align 4
@ext = external global i32
@wk = weak global i32 0, section "my\5Csec", align 16

@al0 = alias i32, i32* @b
@al1 = internal alias i32, i32* @al0
@al2 = alias i8, bitcast (i32* @0 to i8*)
@if0 = ifunc void (), void ()* ()* @resolver

declare void @ext_fn(i32)

define void ()* @resolver() {
  ret void ()* @f2
}

define void @f1() {
entry:
  call void @f2()
  call void @3(i32 1)
  %v = load i32, i32* @al0
  call void @ext_fn(i32 %v)
  ret void
}

define void @f2() {
  call void @f1()
  ret void
}

define void @3(i32) {
  %2 = add i32 %0, 1
  store i32 %2, i32* @b
  ret void
}

define i32 @f3(i32 %x) {
  %1 = icmp eq i32 %x, 0
  br i1 %1, label %2, label %later

2:
  br label %later

later:
  %r = phi i32 [ 1, %0 ], [ 2, %2 ]
  indirectbr i8* blockaddress(@f3, %2), [label %2]
}

define i32 @4() {
  %1 = call i32 @f3(i32 3)
  %2 = call i32 @4()
  %3 = add i32 %1, %2
  ret i32 %3
}
