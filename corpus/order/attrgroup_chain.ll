; Attribute groups that refer to other attribute groups, in chains of depth 1 to 4, with and without
; shared tails (llir's grammar takes them; what a group ends up containing must not depend on the order
; in which the groups are visited).
define void @f0() #0 { ret void }
define void @f1() #1 { ret void }
define void @f3() #3 { ret void }
define void @f5() #5 { ret void }
define void @f8() #8 { ret void }
define void @f9() #9 { ret void }
attributes #0 = { #1 "a0" }
attributes #1 = { #2 noinline }
attributes #2 = { #4 nounwind "k"="v" }
attributes #3 = { #0 #4 }
attributes #4 = { readnone "a4" }
attributes #5 = { #6 }
attributes #6 = { #7 }
attributes #7 = { #2 "a7" }
attributes #8 = { #5 #3 "a8" }
attributes #9 = { #8 }
attributes #10 = { #9 #0 }
attributes #11 = { #10 optsize }
