; Attribute groups spelt like the ones of reject/attrgroup_undefined_type_late.ll.
define void @f() #0 {
  ret void
}

define void @g() #1 {
  ret void
}

define void @h() #2 {
  ret void
}

attributes #0 = { nounwind readnone "frame-pointer"="all" }
attributes #1 = { noinline nounwind willreturn "probe-stack"="x" }
attributes #2 = { nounwind "frame-pointer"="all" willreturn readnone noinline }
