; Names whose numeric parts have 20 and more digits (they do not fit 64 bits):
; the natural-order sort of type definitions, comdats and named metadata must
; still be a total order.
%t.55555555555555555555 = type { i32 }
%t.44444444444444444444 = type { i64 }
%t.18446744073709551616 = type { i8 }
%t.18446744073709551615 = type { i16 }
%t.99999999999999999999999 = type { i1 }
%t.100000000000000000000000 = type { float }
%t.7 = type { double }

$c.55555555555555555555 = comdat any
$c.44444444444444444444 = comdat any
$c.99999999999999999999 = comdat largest
$c.30000000000000000000 = comdat any

@a = global %t.55555555555555555555 zeroinitializer, comdat($c.55555555555555555555)
@b = global %t.44444444444444444444 zeroinitializer, comdat($c.44444444444444444444)
@c = global %t.18446744073709551616 zeroinitializer, comdat($c.99999999999999999999)
@d = global %t.18446744073709551615 zeroinitializer, comdat($c.30000000000000000000)
@e = global %t.99999999999999999999999 zeroinitializer
@f = global %t.100000000000000000000000 zeroinitializer
@g = global %t.7 zeroinitializer

!n.55555555555555555555 = !{!0}
!n.44444444444444444444 = !{!1}
!n.99999999999999999999 = !{!0, !1}
!n.20000000000000000000 = !{!1}

!0 = !{i32 1}
!1 = !{i32 2}
