; CRLF line ends, and raw CR LF bytes INSIDE string literals (a string literal may span lines):
; every entry point must see the same bytes.
module asm ".text
.globl crlf"
@s = constant [9 x i8] c"line 1
\00"
@t = constant [4 x i8] c"ab\00"

define i32 @f() {
  ret i32 7
}
