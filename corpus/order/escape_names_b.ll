; String constants with the bytes that escape_names_a.ll uses as metadata names.
@s0 = constant [12 x i8] c"hello world\0A"
@s1 = constant [15 x i8] c"a \22quoted\22 name"
@s2 = constant [8 x i8] c"tab\09here"
!strs = !{!0}
!0 = !{!"hello world\0A", !"tab\09here"}
