; DWARF tag and operation names (sibling of dwarfnames_b.ll, which uses names this version does not know).
@g = global i32 0, !dbg !5
!llvm.dbg.cu = !{!0}
!llvm.module.flags = !{!2}
!0 = distinct !DICompileUnit(language: DW_LANG_C99, file: !1, emissionKind: FullDebug, globals: !3)
!1 = !DIFile(filename: "a.c", directory: "/")
!2 = !{i32 2, !"Debug Info Version", i32 3}
!3 = !{!5}
!4 = !DIBasicType(name: "int", size: 32, encoding: DW_ATE_signed)
!5 = !DIGlobalVariableExpression(var: !6, expr: !DIExpression(DW_OP_plus_uconst, 4, DW_OP_deref, DW_OP_stack_value))
!6 = distinct !DIGlobalVariable(name: "g", scope: !0, file: !1, line: 1, type: !7, isLocal: false, isDefinition: true)
!7 = !DIDerivedType(tag: DW_TAG_const_type, baseType: !8)
!8 = !DIDerivedType(tag: DW_TAG_volatile_type, baseType: !9)
!9 = !DICompositeType(tag: DW_TAG_array_type, baseType: !4, size: 64, elements: !10)
!10 = !{!11}
!11 = !DISubrange(count: 2)
