; named non-struct types (LLVM resolves them away) next to named struct types.
%inner = type { i32, %inner* }
%num = type i64
%fp = type double
%vec = type <4 x i32>
%arr = type [4 x %num]
%fn = type void (%inner*, %num)
%bool = type i1

@g0 = global %inner zeroinitializer
@g2 = global %num 7
@g3 = global %arr zeroinitializer
@g4 = global %fn* null
@g5 = global %fp 1.5
@g6 = global %vec zeroinitializer
@flag = global %bool true
@noflag = global %bool false

define void @f(%inner* %p, %num %n) {
  %r = add %num %n, 1
  %s = getelementptr %inner, %inner* %p, i32 0, i32 0
  %t = select %bool true, %num %n, %num 3
  %u = and %bool false, true
  ret void
}
