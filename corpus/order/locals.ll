; the same local names in different functions; unnamed parameters, blocks and
; values; void and non-void calls and invokes.
declare void @vf(i32)
declare i32 @nf(i32)
declare i32 @__gxx_personality_v0(...)

define i32 @f(i32 %x, i32, i32 %z) {
  %2 = add i32 %x, %0
  call void @vf(i32 %2)
  %3 = call i32 @nf(i32 %z)
  %tmp = add i32 %2, %3
  br label %4

4:
  %5 = phi i32 [ %tmp, %1 ], [ %6, %4 ]
  %6 = add i32 %5, 1
  %7 = icmp slt i32 %6, 10
  br i1 %7, label %4, label %"ex\20it"

"ex\20it":
  ret i32 %6
}

define i32 @g(i32 %x, i32, i32 %z) personality i32 (...)* @__gxx_personality_v0 {
  %2 = add i32 %x, %0
  invoke void @vf(i32 %2) to label %3 unwind label %lpad

3:
  %4 = invoke i32 @nf(i32 %z) to label %5 unwind label %lpad

5:
  %tmp = add i32 %2, %4
  ret i32 %tmp

lpad:
  %6 = landingpad { i8*, i32 } cleanup
  resume { i8*, i32 } %6
}

define void @h() {
  ret void
}
