; Several top-level entities per line (legal: the grammar needs no newline between them). Order of
; occurrence must come from the text, not from anything that is only unique per line.
@sl0 = global i32 0 @sl1 = global i32 1 @sl2 = global i32 2 @sl3 = global i32 3 @sl4 = global i32 4 @sl5 = global i32 5 @sl6 = global i32 6 @sl7 = global i32 7 @sl8 = global i32 8 @sl9 = global i32 9 @sl10 = global i32 10 @sl11 = global i32 11
declare void @sd0() declare void @sd1() declare void @sd2() declare void @sd3() declare void @sd4() declare void @sd5() declare void @sd6() declare void @sd7() declare void @sd8() declare void @sd9()
%st0 = type { i32, [1 x i8] } %st1 = type { i32, [2 x i8] } %st2 = type { i32, [3 x i8] } %st3 = type { i32, [4 x i8] } %st4 = type { i32, [5 x i8] } %st5 = type { i32, [6 x i8] } %st6 = type { i32, [7 x i8] } %st7 = type { i32, [8 x i8] } %st8 = type { i32, [9 x i8] }
$sc0 = comdat any $sc1 = comdat any $sc2 = comdat any $sc3 = comdat any $sc4 = comdat any $sc5 = comdat any $sc6 = comdat any $sc7 = comdat any $sc8 = comdat any
@m1 = global i32 1 declare void @m2() @m3 = global %st0 zeroinitializer define void @m4() #0 { ret void } @m5 = alias i32, i32* @m1 @m6 = global i32 6, comdat($sc0)
define i32 @sf0() { ret i32 0 } define i32 @sf1() { ret i32 1 } define i32 @sf2() { ret i32 2 } define i32 @sf3() { ret i32 3 } define i32 @sf4() { ret i32 4 } define i32 @sf5() { ret i32 5 } define i32 @sf6() { ret i32 6 } define i32 @sf7() { ret i32 7 } define i32 @sf8() { ret i32 8 } define i32 @sf9() { ret i32 9 }
@sa0 = alias i32, i32* @sl0 @sa1 = alias i32, i32* @sl1 @sa2 = alias i32, i32* @sl2 @sa3 = alias i32, i32* @sl3 @sa4 = alias i32, i32* @sl4 @sa5 = alias i32, i32* @sl5 @sa6 = alias i32, i32* @sl6 @sa7 = alias i32, i32* @sl7 @sa8 = alias i32, i32* @sl8
!5 = !{i32 5} !3 = !{i32 3} !8 = !{i32 8} !0 = !{i32 0} !1 = !{i32 1} !7 = !{i32 7} !2 = !{i32 2} !6 = !{i32 6} !4 = !{i32 4}
!snm0 = !{!0} !snm1 = !{!1} !snm2 = !{!2} !snm3 = !{!3} !snm4 = !{!4} !snm5 = !{!5} !snm6 = !{!6} !snm7 = !{!7} !snm8 = !{!8}
attributes #3 = { "k3" } attributes #1 = { "k1" } attributes #2 = { "k2" } attributes #0 = { "k0" }
