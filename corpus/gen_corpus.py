#!/usr/bin/env python3
"""Generates order/big_mixed.ll (no argument) or ../corpus-large/huge.ll (argument "large"): many entries in every translator index, densely
cross-referenced. Deterministic; the output is committed."""
import random
r = random.Random(20260924)
import sys
BIG = len(sys.argv) > 1 and sys.argv[1] == "large"
N_T, N_G, N_C, N_A, N_NM, N_MD, N_F = (40, 40, 20, 20, 20, 60, 12) if not BIG else (300, 600, 60, 80, 120, 900, 260)
out = []
w = out.append
names_t = ["T%d" % i for i in range(N_T)]
r.shuffle(names_t)
for i, n in enumerate(names_t):
    refs = [r.choice(names_t) for _ in range(r.randint(1, 3))]
    fields = ", ".join(["i%d" % r.choice([1, 8, 16, 32, 64])] + ["%%%s*" % x for x in refs])
    if i % 7 == 3:
        w("%%%s = type opaque" % n)
    elif i % 7 == 5:
        w("%%%s = type <{ %s }>" % (n, fields))
    else:
        w("%%%s = type { %s }" % (n, fields))
w("")
for i in range(N_C):
    w("$cd%d = comdat %s" % (i, r.choice(["any", "largest", "samesize", "exactmatch", "nodeduplicate"])))
w("")
gl = []
unnamed = 0
order = list(range(N_G))
for i in order:
    if i % 5 == 0:
        name = "@%d" % unnamed
        unnamed += 1
    else:
        name = "@gv%d" % i
    gl.append(name)
for i, name in enumerate(gl):
    kind = i % 6
    cd = ", comdat($cd%d)" % r.randrange(N_C) if i % 4 == 1 else ""
    if kind == 0:
        w("%s = global i32 %d%s" % (name, i, cd))
    elif kind == 1:
        tgt = r.choice([g for j, g in enumerate(gl) if j % 6 == 0])
        w("%s = global i32* %s%s" % (name, tgt, cd))
    elif kind == 2:
        t = r.choice(names_t)
        w("%s = global %%%s* null%s" % (name, t, cd))
    elif kind == 3:
        f = r.randrange(N_F)
        w("%s = constant void ()* @fn%d%s" % (name, f, cd))
    elif kind == 4:
        tgt = r.choice([g for j, g in enumerate(gl) if j % 6 == 0])
        w("%s = global i8* bitcast (i32* %s to i8*)%s, !md !%d" % (name, tgt, cd, r.randrange(N_MD)))
    else:
        w("%s = external global i64" % name)
w("")
for i in range(6):
    tgt = r.choice([g for j, g in enumerate(gl) if j % 6 == 0])
    w("@alias%d = alias i32, i32* %s" % (i, tgt))
w("")
for i in range(N_F):
    attrs = " ".join("#%d" % r.randrange(N_A) for _ in range(r.randint(0, 2)))
    md = " !dbgx !%d" % r.randrange(N_MD) if i % 3 == 0 else ""
    w("define void @fn%d() %s%s {" % (i, attrs, md))
    nb = r.randint(1, 3)
    for b in range(nb):
        if b:
            w("b%d:" % b)
        for k in range(r.randint(1, 4)):
            g = r.choice([g for j, g in enumerate(gl) if j % 6 == 0])
            w("  %%v%d_%d = load i32, i32* %s, !tag !%d" % (b, k, g, r.randrange(N_MD)))
        callee = r.randrange(N_F)
        w("  call void @fn%d() #%d" % (callee, r.randrange(N_A)))
        if b + 1 < nb:
            w("  br label %%b%d" % (b + 1))
        else:
            w("  ret void")
    w("}")
    w("")
for i in range(N_A):
    attrs = r.sample(["nounwind", "readnone", "noinline", "cold", "minsize", "optsize", "norecurse", "nofree", "willreturn", '"k%d"="v"' % i], r.randint(1, 3))
    w("attributes #%d = { %s }" % (i, " ".join(attrs)))
    if i % 6 == 2:
        w("attributes #%d = { %s }" % (i, " ".join(r.sample(["ssp", "uwtable", '"again"'], 2))))
w("")
for i in range(N_NM):
    w("!nm%d = !{%s}" % (i, ", ".join("!%d" % r.randrange(N_MD) for _ in range(r.randint(0, 4)))))
    if i % 5 == 1:
        w("!nm%d = !{!%d}" % (i, r.randrange(N_MD)))
w("")
ids = list(range(N_MD))
r.shuffle(ids)
for i in ids:
    fields = []
    for _ in range(r.randint(0, 4)):
        c = r.randrange(4)
        if c == 0:
            fields.append("!%d" % r.randrange(N_MD))
        elif c == 1:
            fields.append('!"s%d"' % r.randrange(100))
        elif c == 2:
            fields.append("i32 %d" % r.randrange(1000))
        else:
            fields.append("null")
    d = "distinct " if i % 4 == 0 else ""
    w("!%d = %s!{%s}" % (i, d, ", ".join(fields)))
open("../corpus-large/huge.ll" if BIG else "order/big_mixed.ll", "w").write("\n".join(out) + "\n")
