@a = global i32 1
@b = global i32 2
@a = global i32 3
