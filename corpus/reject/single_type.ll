; one type definition of twelve refers to an undefined type
%t0 = type { i32, %t1* }
%t1 = type { i32, %t2* }
%t2 = type { i32, %t3* }
%t3 = type { i32, %t4* }
%t4 = type { i32, %missing* }
%t5 = type { i32, %t6* }
%t6 = type { i32, %t7* }
%t7 = type { i32, %t8* }
%t8 = type { i32, %t9* }
%t9 = type { i32, %t10* }
%t10 = type { i32, %t11* }
%t11 = type { i32, %t0* }
@g = global %t0 zeroinitializer
