define i32 @f(i32 %x) {
  %y = add i32 %x, %nope
  ret i32 %y
}
