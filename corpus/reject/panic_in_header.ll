; the translator gives up on the HEADER of one function (a literal that does not fit 64 bits) while
; other, well-formed functions are still untranslated: whatever is returned must not depend on the order
@g = global i32 7
define i32 @f1(i32 %x) {
  %r = add i32 %x, 1
  ret i32 %r
}
define i32 @f2(i32 %x) {
  %r = add i32 %x, 2
  ret i32 %r
}
define void @gives_up() allocsize(99999999999999999999) {
  ret void
}
define i32 @f3(i32 %x) {
  %r = add i32 %x, 3
  ret i32 %r
}
define i32 @f4(i32 %x) {
  %r = call i32 @f3(i32 %x)
  ret i32 %r
}
define i32 @f5(i32 %x) {
  %r = call i32 @f1(i32 %x)
  ret i32 %r
}
