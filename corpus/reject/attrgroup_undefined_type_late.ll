; An attribute group whose LAST attribute names an undefined type: the translator
; has already seen the attributes in front of it when it gives up (whatever it
; keeps per process must not remember them).
define void @f() #0 {
  ret void
}

attributes #0 = { nounwind "frame-pointer"="all" readnone willreturn preallocated(%nosuch) }
attributes #1 = { noinline "probe-stack"="x" preallocated(%nosuch.either) }
