; extractvalue with an index past the end of the aggregate
define i32 @bad({ i32, i32 } %agg) {
  %v = extractvalue { i32, i32 } %agg, 7
  ret i32 %v
}
define i32 @fine(i32 %x) {
  ret i32 %x
}
