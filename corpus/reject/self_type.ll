%a = type %b
%b = type %c
%c = type %a
@g = global i32 0
