@a = global i32* @nope
@b = global i32 1
