; As order/baddr_as1_a.ll, with the constant typed in the function's address space.
@t = global i8 addrspace(1)* blockaddress(@g, %bb)
define void @g() addrspace(1) {
entry:
  br label %bb
bb:
  ret void
}
