%t = type { i32 }
%u = type { %t* }
%t = type { i64 }
@g = global %u zeroinitializer
