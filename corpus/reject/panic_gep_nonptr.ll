; getelementptr whose source operand is not a pointer
define i32 @first(i32 %x) {
  ret i32 %x
}
define i32* @bad(i32 %x) {
  %p = getelementptr i32, i32 %x, i32 1
  ret i32* %p
}
define i32 @last(i32 %x) {
  %y = call i32 @first(i32 %x)
  ret i32 %y
}
