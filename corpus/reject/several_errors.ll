; several independent naming errors; which one is reported first may depend on
; the order of translation, but the input must always be rejected.
%t0 = type { %missing_type* }
@a = global i32* @missing_a
@b = global i32* @missing_b
@c = global i32* @missing_c
@d = global i32* @missing_d
@e = global i32* @missing_e
@f = global i32* @missing_f
@g = global i32* @missing_g
@h = global i32* @missing_h
@i = global i32* @missing_i
define void @fn() !dbg !99 {
  %x = add i32 %nope, 1
  ret void
}
!named = !{!42}
!0 = !{!77}
!1 = !{!78}
!2 = !{!79}
