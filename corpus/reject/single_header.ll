; one function header of twelve names an undefined personality function
declare i32 @pers(...)
define void @h0() personality i32 (...)* @pers {
  ret void
}
define void @h1() personality i32 (...)* @pers {
  ret void
}
define void @h2() personality i32 (...)* @pers {
  ret void
}
define void @h3() personality i32 (...)* @pers {
  ret void
}
define void @h4() personality i32 (...)* @pers {
  ret void
}
define void @h5() personality i32 (...)* @pers {
  ret void
}
define void @h6() personality i32 (...)* @pers {
  ret void
}
define void @h7() personality i32 (...)* @pers {
  ret void
}
define void @h8() personality i32 (...)* @pers {
  ret void
}
define void @h9() personality i32 (...)* @missing {
  ret void
}
define void @h10() personality i32 (...)* @pers {
  ret void
}
define void @h11() personality i32 (...)* @pers {
  ret void
}
