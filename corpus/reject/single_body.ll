; one function body of twelve refers to an undefined local
define i32 @f0(i32 %x) {
  %r = add i32 %x, 0
  ret i32 %r
}
define i32 @f1(i32 %x) {
  %r = add i32 %x, 1
  ret i32 %r
}
define i32 @f2(i32 %x) {
  %r = add i32 %x, 2
  ret i32 %r
}
define i32 @f3(i32 %x) {
  %r = add i32 %missing, 3
  ret i32 %r
}
define i32 @f4(i32 %x) {
  %r = add i32 %x, 4
  ret i32 %r
}
define i32 @f5(i32 %x) {
  %r = add i32 %x, 5
  ret i32 %r
}
define i32 @f6(i32 %x) {
  %r = add i32 %x, 6
  ret i32 %r
}
define i32 @f7(i32 %x) {
  %r = add i32 %x, 7
  ret i32 %r
}
define i32 @f8(i32 %x) {
  %r = add i32 %x, 8
  ret i32 %r
}
define i32 @f9(i32 %x) {
  %r = add i32 %x, 9
  ret i32 %r
}
define i32 @f10(i32 %x) {
  %r = add i32 %x, 10
  ret i32 %r
}
define i32 @f11(i32 %x) {
  %r = add i32 %x, 11
  ret i32 %r
}
