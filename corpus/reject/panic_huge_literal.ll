; an integer literal that does not fit 64 bits (the translator gives up on it)
@ok = global i32 1
@msg = global [99999999999999999999 x i8] c"abc"
define i32 @f(i32 %x) {
  ret i32 %x
}
