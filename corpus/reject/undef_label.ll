define void @f() {
entry:
  br label %nowhere
}
