$c = comdat any
@g = global i32 0, comdat($d)
