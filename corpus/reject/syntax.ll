@a = global i32 1
define void @f( {
  ret void
}
