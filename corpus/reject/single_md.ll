; one metadata definition of twelve refers to an undefined ID
@g = global i32 0, !k !0
!0 = !{!1}
!1 = !{!2}
!2 = !{!3}
!3 = !{!4}
!4 = !{!5}
!5 = !{!6}
!6 = !{!77}
!7 = !{!8}
!8 = !{!9}
!9 = !{!10}
!10 = !{!11}
!11 = !{!0}
