; a call whose callee is a global variable of integer type; several well-formed
; functions around it (in which order they are translated must not matter)
@g = global i32 0
define i32 @a(i32 %x) {
  %r = add i32 %x, 1
  ret i32 %r
}
define void @bad() {
  call void @g()
  ret void
}
define i32 @b(i32 %x) {
  %r = mul i32 %x, 3
  ret i32 %r
}
define i32 @c(i32 %x) {
  %r = call i32 @a(i32 %x)
  ret i32 %r
}
define i32 @d(i32 %x) {
  %r = call i32 @b(i32 %x)
  ret i32 %r
}
