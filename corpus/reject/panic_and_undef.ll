; two independent defects: one entity the translator gives up on and one
; reference to an undefined global; rejected whichever is met first
@ptr = global i32* @missing
define void @bad() {
  call void @ptr()
  ret void
}
define i32 @ok1(i32 %x) {
  ret i32 %x
}
define i32 @ok2(i32 %x) {
  %r = call i32 @ok1(i32 %x)
  ret i32 %r
}
