@a = global i8* blockaddress(@f, %nope)
define void @f() {
entry:
  ret void
}
