; quoted and escaped names and strings of every kind.
source_filename = "dir with space/a\22quoted\22.c"
target datalayout = "e-m:e-i64:64"
target triple = "x86_64-pc-linux-gnu"

module asm ".globl \22sym\22"
module asm "\09nop"

%"struct.with space" = type { i32, %"a\5Cb"* }
%"a\5Cb" = type { i8 }

$"com\20dat" = comdat any

@"global with space" = global i32 1, section "sec\5Ction", comdat($"com\20dat")
@"tab\09name" = global %"struct.with space" zeroinitializer
@"\01_raw" = global i32 2
@str = private constant [8 x i8] c"a\22b\5Cc\0A\00\FF", align 1
@"quote\22inside" = alias i32, i32* @"global with space"

define i32 @"fn name"(i32 %"arg one") gc "shadow\2Dstack" {
"entry block":
  %"a value" = add i32 %"arg one", 1
  %"b\0Avalue" = call i32 asm "mov $1, $0\0A\09", "=r,r,~{dirflag}"(i32 %"a value")
  br label %"next\20block"

"next\20block":
  ret i32 %"b\0Avalue"
}

!named\20md = !{!0}
!0 = !{!"string with \22quotes\22 and \5C backslash", !"nul\00inside", !1}
!1 = !{!"plain"}
