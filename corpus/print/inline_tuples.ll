; metadata tuples written inline (no ID of their own): as fields of other tuples,
; as attachments and as named metadata operands are not allowed, so only the first two
@g = global i32 0, !note !{!"on a global", i32 1, !{!"inner", i64 2, i8 3, i16 4, i32 5}}

define i32 @f(i32 %x) !prof !{!"function_entry_count", i64 100} {
entry:
  %y = add i32 %x, 1, !note !{!"a", !"b", !"c", !"d", !"e", !"f", !"g", !"h", !{!"nested", !{!"twice", i32 7}}}
  ret i32 %y, !note !{i32 1, i32 2, i32 3, i32 4, i32 5, i32 6, i32 7, i32 8, i32 9, i32 10}
}

!0 = !{!{i32 1, !"one", !{!"deep", !{!"deeper", i1 true}}}, !{}, !1}
!1 = !{!"wide", !{!"w1", i32 1, i32 2, i32 3, i32 4, i32 5, i32 6, i32 7, i32 8, i32 9, i32 10, i32 11, i32 12}}
!outer = !{!0, !1}
