; Debug info written by hand (or by an old front end): subprogram DEFINITIONS that
; are not marked distinct, a compile unit that is not distinct either.
define void @f() !dbg !3 {
  ret void, !dbg !7
}

define void @g() !dbg !8 {
  ret void
}

!llvm.dbg.cu = !{!0}
!llvm.module.flags = !{!2}

!0 = distinct !DICompileUnit(language: DW_LANG_C99, file: !1, producer: "hand", isOptimized: false, runtimeVersion: 0, emissionKind: FullDebug)
!1 = !DIFile(filename: "n.c", directory: "/")
!2 = !{i32 2, !"Debug Info Version", i32 3}
!3 = !DISubprogram(name: "f", scope: !1, file: !1, line: 1, type: !4, scopeLine: 1, spFlags: DISPFlagDefinition, unit: !0, retainedNodes: !5)
!4 = !DISubroutineType(types: !5)
!5 = !{}
!7 = !DILocation(line: 2, column: 1, scope: !3)
!8 = !DISubprogram(name: "g", scope: !1, file: !1, line: 5, type: !4, isLocal: false, isDefinition: true, scopeLine: 5, unit: !0)
