; Constructs no other corpus file contains: every kind of constant expression, freeze/fneg,
; x86_mmx / scalable-vector / token types, none / dso_local_equivalent / no_cfi constants,
; and the specialised metadata nodes clang does not emit for C/C++.
source_filename = "grammar_rest.ll"
target datalayout = "e-m:e-p270:32:32-p271:32:32-p272:64:64-i64:64-f80:128-n8:16:32:64-S128"

%pair = type { i32, i64 }
%vecs = type { <4 x i32>, <vscale x 2 x i64>*, x86_mmx* }

@a = global i32 7
@b = global [4 x i32] [i32 1, i32 2, i32 3, i32 4]
@p = global %pair { i32 1, i64 2 }
@as1 = addrspace(1) global i32 0

@ce_add = global i64 add (i64 ptrtoint (i32* @a to i64), i64 16)
@ce_sub = global i64 sub nuw nsw (i64 ptrtoint (i32* @a to i64), i64 ptrtoint ([4 x i32]* @b to i64))
@ce_mul = global i64 mul nsw (i64 ptrtoint (%pair* @p to i64), i64 3)
@ce_shl = global i64 shl nuw (i64 ptrtoint (i32* @a to i64), i64 1)
@ce_lshr = global i64 lshr exact (i64 ptrtoint (i32* @a to i64), i64 2)
@ce_ashr = global i64 ashr (i64 ptrtoint (i32* @a to i64), i64 3)
@ce_and = global i64 and (i64 ptrtoint (i32* @a to i64), i64 255)
@ce_or = global i64 or (i64 ptrtoint (i32* @a to i64), i64 1)
@ce_xor = global i64 xor (i64 ptrtoint (i32* @a to i64), i64 -1)
@ce_fneg = global double fneg (double bitcast (i64 ptrtoint (i32* @a to i64) to double))
@ce_trunc = global i16 trunc (i64 ptrtoint (i32* @a to i64) to i16)
@ce_zext = global i128 zext (i64 ptrtoint (i32* @a to i64) to i128)
@ce_sext = global i128 sext (i64 ptrtoint (i32* @a to i64) to i128)
@ce_fptrunc = global float fptrunc (double bitcast (i64 ptrtoint (i32* @a to i64) to double) to float)
@ce_fpext = global fp128 fpext (double bitcast (i64 ptrtoint (i32* @a to i64) to double) to fp128)
@ce_fptoui = global i32 fptoui (double bitcast (i64 ptrtoint (i32* @a to i64) to double) to i32)
@ce_fptosi = global i32 fptosi (double bitcast (i64 ptrtoint (i32* @a to i64) to double) to i32)
@ce_uitofp = global double uitofp (i64 ptrtoint (i32* @a to i64) to double)
@ce_sitofp = global double sitofp (i64 ptrtoint (i32* @a to i64) to double)
@ce_inttoptr = global %pair* inttoptr (i64 add (i64 ptrtoint (%pair* @p to i64), i64 16) to %pair*)
@ce_ascast = global i32* addrspacecast (i32 addrspace(1)* @as1 to i32*)
@ce_icmp = global i1 icmp ult (i32* @a, i32* getelementptr inbounds ([4 x i32], [4 x i32]* @b, i64 0, i64 1))
@ce_fcmp = global i1 fcmp oeq (double bitcast (i64 ptrtoint (i32* @a to i64) to double), double 1.0)
@ce_select = global i32* select (i1 icmp eq (i32* @a, i32* null), i32* @a, i32* getelementptr inbounds ([4 x i32], [4 x i32]* @b, i64 0, i64 2))
@ce_extractelement = global i64 extractelement (<2 x i64> <i64 ptrtoint (i32* @a to i64), i64 1>, i32 0)
@ce_insertelement = global <2 x i64> insertelement (<2 x i64> <i64 1, i64 2>, i64 ptrtoint (i32* @a to i64), i32 1)
@ce_shufflevector = global <2 x i64> shufflevector (<2 x i64> <i64 ptrtoint (i32* @a to i64), i64 1>, <2 x i64> undef, <2 x i32> <i32 1, i32 0>)
@ce_gep_struct = global i64* getelementptr inbounds (%pair, %pair* @p, i32 0, i32 1)
@ce_gep_inrange = global i32* getelementptr ([4 x i32], [4 x i32]* @b, i64 0, inrange i32 1)
@ce_bitcast_vec = global <2 x i32> bitcast (i64 ptrtoint (i32* @a to i64) to <2 x i32>)
@ce_poison = global %pair poison
@ce_undef = global [2 x %pair] undef
@ce_splat = global <4 x i32> <i32 1, i32 1, i32 1, i32 1>
@ce_fn_ptr_int = global i64 ptrtoint (void ()* @callee to i64)

declare token @llvm.experimental.gc.statepoint.p0f_isVoidf(i64, i32, void ()*, i32, i32, ...)
declare void @llvm.dbg.value(metadata, metadata, metadata)
declare void @use_mmx(x86_mmx)
declare x86_mmx @make_mmx()

define dso_local void @callee() {
  ret void
}
@ce_dsoeq = global void ()* dso_local_equivalent @callee
@ce_nocfi = global void ()* no_cfi @callee


define <vscale x 4 x i32> @scalable(<vscale x 4 x i32> %x, <vscale x 4 x i32> %y) {
  %s = add <vscale x 4 x i32> %x, %y
  %f = freeze <vscale x 4 x i32> %s
  ret <vscale x 4 x i32> %f
}

define double @unary(double %x, float %y, <2 x double> %v, i32 %i, i32* %ptr) !dbg !20 {
entry:
  %n = fneg double %x
  %n2 = fneg fast float %y
  %nv = fneg nnan ninf <2 x double> %v
  %fi = freeze i32 %i
  %fp = freeze i32* %ptr
  %fv = freeze <2 x double> %nv
  call void @llvm.dbg.value(metadata !DIArgList(i32 %fi, double %n), metadata !24, metadata !DIExpression(DW_OP_LLVM_arg, 0, DW_OP_LLVM_arg, 1, DW_OP_plus, DW_OP_stack_value)), !dbg !25
  %e = fpext float %n2 to double
  %r = fadd double %n, %e
  %mm = call x86_mmx @make_mmx()
  call void @use_mmx(x86_mmx %mm)
  ret double %r, !dbg !25
}

define void @token_user(void ()* %fn) gc "statepoint-example" {
  %tok = call token (i64, i32, void ()*, i32, i32, ...) @llvm.experimental.gc.statepoint.p0f_isVoidf(i64 0, i32 0, void ()* elementtype(void ()) %fn, i32 0, i32 0, i32 0, i32 0)
  ret void
}

define void @eh_none() personality i32 (...)* @__gxx_personality_v0 {
entry:
  invoke void @callee() to label %ok unwind label %pad
ok:
  ret void
pad:
  %cs = catchswitch within none [label %handler] unwind to caller
handler:
  %cp = catchpad within %cs [i8* null, i32 64, i8* null]
  catchret from %cp to label %ok
}

declare i32 @__gxx_personality_v0(...)

!llvm.dbg.cu = !{!0}
!llvm.module.flags = !{!3, !4}
!rare = !{!30, !31, !33, !34, !36, !37, !38, !39, !41}

!0 = distinct !DICompileUnit(language: DW_LANG_Fortran95, file: !1, producer: "hand", isOptimized: false, runtimeVersion: 0, emissionKind: FullDebug, enums: !2, macros: !42, nameTableKind: GNU)
!1 = !DIFile(filename: "rest.f90", directory: "/tmp", checksumkind: CSK_MD5, checksum: "00112233445566778899aabbccddeeff")
!2 = !{}
!3 = !{i32 7, !"Dwarf Version", i32 4}
!4 = !{i32 2, !"Debug Info Version", i32 3}
!20 = distinct !DISubprogram(name: "unary", scope: !1, file: !1, line: 1, type: !21, scopeLine: 1, virtuality: DW_VIRTUALITY_pure_virtual, virtualIndex: 2, spFlags: DISPFlagDefinition | DISPFlagPureVirtual, unit: !0, retainedNodes: !2)
!21 = !DISubroutineType(cc: DW_CC_LLVM_vectorcall, types: !22)
!22 = !{!23, !23}
!23 = !DIBasicType(name: "double", size: 64, encoding: DW_ATE_float)
!24 = !DILocalVariable(name: "t", scope: !26, file: !1, line: 2, type: !23)
!25 = !DILocation(line: 2, column: 1, scope: !26)
!26 = !DILexicalBlockFile(scope: !20, file: !1, discriminator: 3)
!30 = !DICommonBlock(scope: !20, declaration: !32, name: "blk", file: !1, line: 4)
!31 = !DIModule(scope: !0, name: "mod", configMacros: "-DX=1", includePath: "/inc", apinotes: "notes", file: !1, line: 5, isDecl: true)
!32 = distinct !DIGlobalVariable(name: "blk", scope: !0, file: !1, line: 4, type: !23, isLocal: false, isDefinition: true)
!33 = !DIObjCProperty(name: "prop", file: !1, line: 6, setter: "setProp:", getter: "prop", attributes: 7, type: !23)
!34 = !DIStringType(name: "character(*)", stringLength: !35, stringLengthExpression: !DIExpression(), size: 32, align: 8)
!35 = !DILocalVariable(name: "len", scope: !20, file: !1, line: 7, type: !23, flags: DIFlagArtificial)
!36 = !GenericDINode(tag: DW_TAG_GNU_call_site, header: "hdr", operands: {!23, !"s", null})
!37 = !DIStringType(name: "character(3)", size: 24, encoding: DW_ATE_ASCII)
!38 = !DIGlobalVariableExpression(var: !32, expr: !DIExpression(DW_OP_plus_uconst, 8))
!39 = !DISubrange(count: 4, lowerBound: 1, stride: !40)
!40 = !DIExpression(DW_OP_constu, 4)
!41 = !DIImportedEntity(tag: DW_TAG_imported_module, scope: !20, entity: !31, file: !1, line: 8, elements: !2)
!42 = !{!43}
!43 = !DIMacroFile(line: 0, file: !1, nodes: !44)
!44 = !{!45, !46}
!45 = !DIMacro(type: DW_MACINFO_define, line: 1, name: "N", value: "4")
!46 = !DIMacro(type: DW_MACINFO_undef, line: 2, name: "N")
