; Constants of every floating-point kind, including the wide ones that are always
; printed in hexadecimal (x86_fp80, fp128, ppc_fp128) and special values.
@h = global half 0xH3C00
@f = global float 0x3FF0000020000000
@d = global double 0x3FF0000000000001
@x = global x86_fp80 0xK4000C000000000000000
@q = global fp128 0xL00000000000000004000000000000000
@p = global ppc_fp128 0xM400C0000000030000000000000000000
@p2 = global ppc_fp128 0xM3FF00000000000000000000000000000
@inf = global double 0x7FF0000000000000
@nan = global float 0x7FF8000000000000
@nz = global double -0.0

define ppc_fp128 @use(ppc_fp128 %a) {
  %r = fadd ppc_fp128 %a, 0xM400C0000000030000000000000000000
  ret ppc_fp128 %r
}
