; 300 small functions, no module header lines (no source_filename / datalayout / triple).
@g = global i32 7

define i32 @fn0(i32 %x) {
  %r = add i32 %x, 0
  ret i32 %r
}

define i32 @fn1(i32 %x) {
  %r = add i32 %x, 1
  ret i32 %r
}

define i32 @fn2(i32 %x) {
  %r = add i32 %x, 2
  ret i32 %r
}

define i32 @fn3(i32 %x) {
  %r = add i32 %x, 3
  ret i32 %r
}

define i32 @fn4(i32 %x) {
  %r = add i32 %x, 4
  ret i32 %r
}

define i32 @fn5(i32 %x) {
  %r = add i32 %x, 5
  ret i32 %r
}

define i32 @fn6(i32 %x) {
  %r = add i32 %x, 6
  ret i32 %r
}

define i32 @fn7(i32 %x) {
  %r = add i32 %x, 7
  ret i32 %r
}

define i32 @fn8(i32 %x) {
  %r = add i32 %x, 8
  ret i32 %r
}

define i32 @fn9(i32 %x) {
  %r = add i32 %x, 9
  ret i32 %r
}

define i32 @fn10(i32 %x) {
  %r = add i32 %x, 10
  ret i32 %r
}

define i32 @fn11(i32 %x) {
  %r = add i32 %x, 11
  ret i32 %r
}

define i32 @fn12(i32 %x) {
  %r = add i32 %x, 12
  ret i32 %r
}

define i32 @fn13(i32 %x) {
  %r = add i32 %x, 13
  ret i32 %r
}

define i32 @fn14(i32 %x) {
  %r = add i32 %x, 14
  ret i32 %r
}

define i32 @fn15(i32 %x) {
  %r = add i32 %x, 15
  ret i32 %r
}

define i32 @fn16(i32 %x) {
  %r = add i32 %x, 16
  ret i32 %r
}

define i32 @fn17(i32 %x) {
  %r = add i32 %x, 17
  ret i32 %r
}

define i32 @fn18(i32 %x) {
  %r = add i32 %x, 18
  ret i32 %r
}

define i32 @fn19(i32 %x) {
  %r = add i32 %x, 19
  ret i32 %r
}

define i32 @fn20(i32 %x) {
  %r = add i32 %x, 20
  ret i32 %r
}

define i32 @fn21(i32 %x) {
  %r = add i32 %x, 21
  ret i32 %r
}

define i32 @fn22(i32 %x) {
  %r = add i32 %x, 22
  ret i32 %r
}

define i32 @fn23(i32 %x) {
  %r = add i32 %x, 23
  ret i32 %r
}

define i32 @fn24(i32 %x) {
  %r = add i32 %x, 24
  ret i32 %r
}

define i32 @fn25(i32 %x) {
  %r = add i32 %x, 25
  ret i32 %r
}

define i32 @fn26(i32 %x) {
  %r = add i32 %x, 26
  ret i32 %r
}

define i32 @fn27(i32 %x) {
  %r = add i32 %x, 27
  ret i32 %r
}

define i32 @fn28(i32 %x) {
  %r = add i32 %x, 28
  ret i32 %r
}

define i32 @fn29(i32 %x) {
  %r = add i32 %x, 29
  ret i32 %r
}

define i32 @fn30(i32 %x) {
  %r = add i32 %x, 30
  ret i32 %r
}

define i32 @fn31(i32 %x) {
  %r = add i32 %x, 31
  ret i32 %r
}

define i32 @fn32(i32 %x) {
  %r = add i32 %x, 32
  ret i32 %r
}

define i32 @fn33(i32 %x) {
  %r = add i32 %x, 33
  ret i32 %r
}

define i32 @fn34(i32 %x) {
  %r = add i32 %x, 34
  ret i32 %r
}

define i32 @fn35(i32 %x) {
  %r = add i32 %x, 35
  ret i32 %r
}

define i32 @fn36(i32 %x) {
  %r = add i32 %x, 36
  ret i32 %r
}

define i32 @fn37(i32 %x) {
  %r = add i32 %x, 37
  ret i32 %r
}

define i32 @fn38(i32 %x) {
  %r = add i32 %x, 38
  ret i32 %r
}

define i32 @fn39(i32 %x) {
  %r = add i32 %x, 39
  ret i32 %r
}

define i32 @fn40(i32 %x) {
  %r = add i32 %x, 40
  ret i32 %r
}

define i32 @fn41(i32 %x) {
  %r = add i32 %x, 41
  ret i32 %r
}

define i32 @fn42(i32 %x) {
  %r = add i32 %x, 42
  ret i32 %r
}

define i32 @fn43(i32 %x) {
  %r = add i32 %x, 43
  ret i32 %r
}

define i32 @fn44(i32 %x) {
  %r = add i32 %x, 44
  ret i32 %r
}

define i32 @fn45(i32 %x) {
  %r = add i32 %x, 45
  ret i32 %r
}

define i32 @fn46(i32 %x) {
  %r = add i32 %x, 46
  ret i32 %r
}

define i32 @fn47(i32 %x) {
  %r = add i32 %x, 47
  ret i32 %r
}

define i32 @fn48(i32 %x) {
  %r = add i32 %x, 48
  ret i32 %r
}

define i32 @fn49(i32 %x) {
  %r = add i32 %x, 49
  ret i32 %r
}

define i32 @fn50(i32 %x) {
  %r = add i32 %x, 50
  ret i32 %r
}

define i32 @fn51(i32 %x) {
  %r = add i32 %x, 51
  ret i32 %r
}

define i32 @fn52(i32 %x) {
  %r = add i32 %x, 52
  ret i32 %r
}

define i32 @fn53(i32 %x) {
  %r = add i32 %x, 53
  ret i32 %r
}

define i32 @fn54(i32 %x) {
  %r = add i32 %x, 54
  ret i32 %r
}

define i32 @fn55(i32 %x) {
  %r = add i32 %x, 55
  ret i32 %r
}

define i32 @fn56(i32 %x) {
  %r = add i32 %x, 56
  ret i32 %r
}

define i32 @fn57(i32 %x) {
  %r = add i32 %x, 57
  ret i32 %r
}

define i32 @fn58(i32 %x) {
  %r = add i32 %x, 58
  ret i32 %r
}

define i32 @fn59(i32 %x) {
  %r = add i32 %x, 59
  ret i32 %r
}

define i32 @fn60(i32 %x) {
  %r = add i32 %x, 60
  ret i32 %r
}

define i32 @fn61(i32 %x) {
  %r = add i32 %x, 61
  ret i32 %r
}

define i32 @fn62(i32 %x) {
  %r = add i32 %x, 62
  ret i32 %r
}

define i32 @fn63(i32 %x) {
  %r = add i32 %x, 63
  ret i32 %r
}

define i32 @fn64(i32 %x) {
  %r = add i32 %x, 64
  ret i32 %r
}

define i32 @fn65(i32 %x) {
  %r = add i32 %x, 65
  ret i32 %r
}

define i32 @fn66(i32 %x) {
  %r = add i32 %x, 66
  ret i32 %r
}

define i32 @fn67(i32 %x) {
  %r = add i32 %x, 67
  ret i32 %r
}

define i32 @fn68(i32 %x) {
  %r = add i32 %x, 68
  ret i32 %r
}

define i32 @fn69(i32 %x) {
  %r = add i32 %x, 69
  ret i32 %r
}

define i32 @fn70(i32 %x) {
  %r = add i32 %x, 70
  ret i32 %r
}

define i32 @fn71(i32 %x) {
  %r = add i32 %x, 71
  ret i32 %r
}

define i32 @fn72(i32 %x) {
  %r = add i32 %x, 72
  ret i32 %r
}

define i32 @fn73(i32 %x) {
  %r = add i32 %x, 73
  ret i32 %r
}

define i32 @fn74(i32 %x) {
  %r = add i32 %x, 74
  ret i32 %r
}

define i32 @fn75(i32 %x) {
  %r = add i32 %x, 75
  ret i32 %r
}

define i32 @fn76(i32 %x) {
  %r = add i32 %x, 76
  ret i32 %r
}

define i32 @fn77(i32 %x) {
  %r = add i32 %x, 77
  ret i32 %r
}

define i32 @fn78(i32 %x) {
  %r = add i32 %x, 78
  ret i32 %r
}

define i32 @fn79(i32 %x) {
  %r = add i32 %x, 79
  ret i32 %r
}

define i32 @fn80(i32 %x) {
  %r = add i32 %x, 80
  ret i32 %r
}

define i32 @fn81(i32 %x) {
  %r = add i32 %x, 81
  ret i32 %r
}

define i32 @fn82(i32 %x) {
  %r = add i32 %x, 82
  ret i32 %r
}

define i32 @fn83(i32 %x) {
  %r = add i32 %x, 83
  ret i32 %r
}

define i32 @fn84(i32 %x) {
  %r = add i32 %x, 84
  ret i32 %r
}

define i32 @fn85(i32 %x) {
  %r = add i32 %x, 85
  ret i32 %r
}

define i32 @fn86(i32 %x) {
  %r = add i32 %x, 86
  ret i32 %r
}

define i32 @fn87(i32 %x) {
  %r = add i32 %x, 87
  ret i32 %r
}

define i32 @fn88(i32 %x) {
  %r = add i32 %x, 88
  ret i32 %r
}

define i32 @fn89(i32 %x) {
  %r = add i32 %x, 89
  ret i32 %r
}

define i32 @fn90(i32 %x) {
  %r = add i32 %x, 90
  ret i32 %r
}

define i32 @fn91(i32 %x) {
  %r = add i32 %x, 91
  ret i32 %r
}

define i32 @fn92(i32 %x) {
  %r = add i32 %x, 92
  ret i32 %r
}

define i32 @fn93(i32 %x) {
  %r = add i32 %x, 93
  ret i32 %r
}

define i32 @fn94(i32 %x) {
  %r = add i32 %x, 94
  ret i32 %r
}

define i32 @fn95(i32 %x) {
  %r = add i32 %x, 95
  ret i32 %r
}

define i32 @fn96(i32 %x) {
  %r = add i32 %x, 96
  ret i32 %r
}

define i32 @fn97(i32 %x) {
  %r = add i32 %x, 97
  ret i32 %r
}

define i32 @fn98(i32 %x) {
  %r = add i32 %x, 98
  ret i32 %r
}

define i32 @fn99(i32 %x) {
  %r = add i32 %x, 99
  ret i32 %r
}

define i32 @fn100(i32 %x) {
  %r = add i32 %x, 100
  ret i32 %r
}

define i32 @fn101(i32 %x) {
  %r = add i32 %x, 101
  ret i32 %r
}

define i32 @fn102(i32 %x) {
  %r = add i32 %x, 102
  ret i32 %r
}

define i32 @fn103(i32 %x) {
  %r = add i32 %x, 103
  ret i32 %r
}

define i32 @fn104(i32 %x) {
  %r = add i32 %x, 104
  ret i32 %r
}

define i32 @fn105(i32 %x) {
  %r = add i32 %x, 105
  ret i32 %r
}

define i32 @fn106(i32 %x) {
  %r = add i32 %x, 106
  ret i32 %r
}

define i32 @fn107(i32 %x) {
  %r = add i32 %x, 107
  ret i32 %r
}

define i32 @fn108(i32 %x) {
  %r = add i32 %x, 108
  ret i32 %r
}

define i32 @fn109(i32 %x) {
  %r = add i32 %x, 109
  ret i32 %r
}

define i32 @fn110(i32 %x) {
  %r = add i32 %x, 110
  ret i32 %r
}

define i32 @fn111(i32 %x) {
  %r = add i32 %x, 111
  ret i32 %r
}

define i32 @fn112(i32 %x) {
  %r = add i32 %x, 112
  ret i32 %r
}

define i32 @fn113(i32 %x) {
  %r = add i32 %x, 113
  ret i32 %r
}

define i32 @fn114(i32 %x) {
  %r = add i32 %x, 114
  ret i32 %r
}

define i32 @fn115(i32 %x) {
  %r = add i32 %x, 115
  ret i32 %r
}

define i32 @fn116(i32 %x) {
  %r = add i32 %x, 116
  ret i32 %r
}

define i32 @fn117(i32 %x) {
  %r = add i32 %x, 117
  ret i32 %r
}

define i32 @fn118(i32 %x) {
  %r = add i32 %x, 118
  ret i32 %r
}

define i32 @fn119(i32 %x) {
  %r = add i32 %x, 119
  ret i32 %r
}

define i32 @fn120(i32 %x) {
  %r = add i32 %x, 120
  ret i32 %r
}

define i32 @fn121(i32 %x) {
  %r = add i32 %x, 121
  ret i32 %r
}

define i32 @fn122(i32 %x) {
  %r = add i32 %x, 122
  ret i32 %r
}

define i32 @fn123(i32 %x) {
  %r = add i32 %x, 123
  ret i32 %r
}

define i32 @fn124(i32 %x) {
  %r = add i32 %x, 124
  ret i32 %r
}

define i32 @fn125(i32 %x) {
  %r = add i32 %x, 125
  ret i32 %r
}

define i32 @fn126(i32 %x) {
  %r = add i32 %x, 126
  ret i32 %r
}

define i32 @fn127(i32 %x) {
  %r = add i32 %x, 127
  ret i32 %r
}

define i32 @fn128(i32 %x) {
  %r = add i32 %x, 128
  ret i32 %r
}

define i32 @fn129(i32 %x) {
  %r = add i32 %x, 129
  ret i32 %r
}

define i32 @fn130(i32 %x) {
  %r = add i32 %x, 130
  ret i32 %r
}

define i32 @fn131(i32 %x) {
  %r = add i32 %x, 131
  ret i32 %r
}

define i32 @fn132(i32 %x) {
  %r = add i32 %x, 132
  ret i32 %r
}

define i32 @fn133(i32 %x) {
  %r = add i32 %x, 133
  ret i32 %r
}

define i32 @fn134(i32 %x) {
  %r = add i32 %x, 134
  ret i32 %r
}

define i32 @fn135(i32 %x) {
  %r = add i32 %x, 135
  ret i32 %r
}

define i32 @fn136(i32 %x) {
  %r = add i32 %x, 136
  ret i32 %r
}

define i32 @fn137(i32 %x) {
  %r = add i32 %x, 137
  ret i32 %r
}

define i32 @fn138(i32 %x) {
  %r = add i32 %x, 138
  ret i32 %r
}

define i32 @fn139(i32 %x) {
  %r = add i32 %x, 139
  ret i32 %r
}

define i32 @fn140(i32 %x) {
  %r = add i32 %x, 140
  ret i32 %r
}

define i32 @fn141(i32 %x) {
  %r = add i32 %x, 141
  ret i32 %r
}

define i32 @fn142(i32 %x) {
  %r = add i32 %x, 142
  ret i32 %r
}

define i32 @fn143(i32 %x) {
  %r = add i32 %x, 143
  ret i32 %r
}

define i32 @fn144(i32 %x) {
  %r = add i32 %x, 144
  ret i32 %r
}

define i32 @fn145(i32 %x) {
  %r = add i32 %x, 145
  ret i32 %r
}

define i32 @fn146(i32 %x) {
  %r = add i32 %x, 146
  ret i32 %r
}

define i32 @fn147(i32 %x) {
  %r = add i32 %x, 147
  ret i32 %r
}

define i32 @fn148(i32 %x) {
  %r = add i32 %x, 148
  ret i32 %r
}

define i32 @fn149(i32 %x) {
  %r = add i32 %x, 149
  ret i32 %r
}

define i32 @fn150(i32 %x) {
  %r = add i32 %x, 150
  ret i32 %r
}

define i32 @fn151(i32 %x) {
  %r = add i32 %x, 151
  ret i32 %r
}

define i32 @fn152(i32 %x) {
  %r = add i32 %x, 152
  ret i32 %r
}

define i32 @fn153(i32 %x) {
  %r = add i32 %x, 153
  ret i32 %r
}

define i32 @fn154(i32 %x) {
  %r = add i32 %x, 154
  ret i32 %r
}

define i32 @fn155(i32 %x) {
  %r = add i32 %x, 155
  ret i32 %r
}

define i32 @fn156(i32 %x) {
  %r = add i32 %x, 156
  ret i32 %r
}

define i32 @fn157(i32 %x) {
  %r = add i32 %x, 157
  ret i32 %r
}

define i32 @fn158(i32 %x) {
  %r = add i32 %x, 158
  ret i32 %r
}

define i32 @fn159(i32 %x) {
  %r = add i32 %x, 159
  ret i32 %r
}

define i32 @fn160(i32 %x) {
  %r = add i32 %x, 160
  ret i32 %r
}

define i32 @fn161(i32 %x) {
  %r = add i32 %x, 161
  ret i32 %r
}

define i32 @fn162(i32 %x) {
  %r = add i32 %x, 162
  ret i32 %r
}

define i32 @fn163(i32 %x) {
  %r = add i32 %x, 163
  ret i32 %r
}

define i32 @fn164(i32 %x) {
  %r = add i32 %x, 164
  ret i32 %r
}

define i32 @fn165(i32 %x) {
  %r = add i32 %x, 165
  ret i32 %r
}

define i32 @fn166(i32 %x) {
  %r = add i32 %x, 166
  ret i32 %r
}

define i32 @fn167(i32 %x) {
  %r = add i32 %x, 167
  ret i32 %r
}

define i32 @fn168(i32 %x) {
  %r = add i32 %x, 168
  ret i32 %r
}

define i32 @fn169(i32 %x) {
  %r = add i32 %x, 169
  ret i32 %r
}

define i32 @fn170(i32 %x) {
  %r = add i32 %x, 170
  ret i32 %r
}

define i32 @fn171(i32 %x) {
  %r = add i32 %x, 171
  ret i32 %r
}

define i32 @fn172(i32 %x) {
  %r = add i32 %x, 172
  ret i32 %r
}

define i32 @fn173(i32 %x) {
  %r = add i32 %x, 173
  ret i32 %r
}

define i32 @fn174(i32 %x) {
  %r = add i32 %x, 174
  ret i32 %r
}

define i32 @fn175(i32 %x) {
  %r = add i32 %x, 175
  ret i32 %r
}

define i32 @fn176(i32 %x) {
  %r = add i32 %x, 176
  ret i32 %r
}

define i32 @fn177(i32 %x) {
  %r = add i32 %x, 177
  ret i32 %r
}

define i32 @fn178(i32 %x) {
  %r = add i32 %x, 178
  ret i32 %r
}

define i32 @fn179(i32 %x) {
  %r = add i32 %x, 179
  ret i32 %r
}

define i32 @fn180(i32 %x) {
  %r = add i32 %x, 180
  ret i32 %r
}

define i32 @fn181(i32 %x) {
  %r = add i32 %x, 181
  ret i32 %r
}

define i32 @fn182(i32 %x) {
  %r = add i32 %x, 182
  ret i32 %r
}

define i32 @fn183(i32 %x) {
  %r = add i32 %x, 183
  ret i32 %r
}

define i32 @fn184(i32 %x) {
  %r = add i32 %x, 184
  ret i32 %r
}

define i32 @fn185(i32 %x) {
  %r = add i32 %x, 185
  ret i32 %r
}

define i32 @fn186(i32 %x) {
  %r = add i32 %x, 186
  ret i32 %r
}

define i32 @fn187(i32 %x) {
  %r = add i32 %x, 187
  ret i32 %r
}

define i32 @fn188(i32 %x) {
  %r = add i32 %x, 188
  ret i32 %r
}

define i32 @fn189(i32 %x) {
  %r = add i32 %x, 189
  ret i32 %r
}

define i32 @fn190(i32 %x) {
  %r = add i32 %x, 190
  ret i32 %r
}

define i32 @fn191(i32 %x) {
  %r = add i32 %x, 191
  ret i32 %r
}

define i32 @fn192(i32 %x) {
  %r = add i32 %x, 192
  ret i32 %r
}

define i32 @fn193(i32 %x) {
  %r = add i32 %x, 193
  ret i32 %r
}

define i32 @fn194(i32 %x) {
  %r = add i32 %x, 194
  ret i32 %r
}

define i32 @fn195(i32 %x) {
  %r = add i32 %x, 195
  ret i32 %r
}

define i32 @fn196(i32 %x) {
  %r = add i32 %x, 196
  ret i32 %r
}

define i32 @fn197(i32 %x) {
  %r = add i32 %x, 197
  ret i32 %r
}

define i32 @fn198(i32 %x) {
  %r = add i32 %x, 198
  ret i32 %r
}

define i32 @fn199(i32 %x) {
  %r = add i32 %x, 199
  ret i32 %r
}

define i32 @fn200(i32 %x) {
  %r = add i32 %x, 200
  ret i32 %r
}

define i32 @fn201(i32 %x) {
  %r = add i32 %x, 201
  ret i32 %r
}

define i32 @fn202(i32 %x) {
  %r = add i32 %x, 202
  ret i32 %r
}

define i32 @fn203(i32 %x) {
  %r = add i32 %x, 203
  ret i32 %r
}

define i32 @fn204(i32 %x) {
  %r = add i32 %x, 204
  ret i32 %r
}

define i32 @fn205(i32 %x) {
  %r = add i32 %x, 205
  ret i32 %r
}

define i32 @fn206(i32 %x) {
  %r = add i32 %x, 206
  ret i32 %r
}

define i32 @fn207(i32 %x) {
  %r = add i32 %x, 207
  ret i32 %r
}

define i32 @fn208(i32 %x) {
  %r = add i32 %x, 208
  ret i32 %r
}

define i32 @fn209(i32 %x) {
  %r = add i32 %x, 209
  ret i32 %r
}

define i32 @fn210(i32 %x) {
  %r = add i32 %x, 210
  ret i32 %r
}

define i32 @fn211(i32 %x) {
  %r = add i32 %x, 211
  ret i32 %r
}

define i32 @fn212(i32 %x) {
  %r = add i32 %x, 212
  ret i32 %r
}

define i32 @fn213(i32 %x) {
  %r = add i32 %x, 213
  ret i32 %r
}

define i32 @fn214(i32 %x) {
  %r = add i32 %x, 214
  ret i32 %r
}

define i32 @fn215(i32 %x) {
  %r = add i32 %x, 215
  ret i32 %r
}

define i32 @fn216(i32 %x) {
  %r = add i32 %x, 216
  ret i32 %r
}

define i32 @fn217(i32 %x) {
  %r = add i32 %x, 217
  ret i32 %r
}

define i32 @fn218(i32 %x) {
  %r = add i32 %x, 218
  ret i32 %r
}

define i32 @fn219(i32 %x) {
  %r = add i32 %x, 219
  ret i32 %r
}

define i32 @fn220(i32 %x) {
  %r = add i32 %x, 220
  ret i32 %r
}

define i32 @fn221(i32 %x) {
  %r = add i32 %x, 221
  ret i32 %r
}

define i32 @fn222(i32 %x) {
  %r = add i32 %x, 222
  ret i32 %r
}

define i32 @fn223(i32 %x) {
  %r = add i32 %x, 223
  ret i32 %r
}

define i32 @fn224(i32 %x) {
  %r = add i32 %x, 224
  ret i32 %r
}

define i32 @fn225(i32 %x) {
  %r = add i32 %x, 225
  ret i32 %r
}

define i32 @fn226(i32 %x) {
  %r = add i32 %x, 226
  ret i32 %r
}

define i32 @fn227(i32 %x) {
  %r = add i32 %x, 227
  ret i32 %r
}

define i32 @fn228(i32 %x) {
  %r = add i32 %x, 228
  ret i32 %r
}

define i32 @fn229(i32 %x) {
  %r = add i32 %x, 229
  ret i32 %r
}

define i32 @fn230(i32 %x) {
  %r = add i32 %x, 230
  ret i32 %r
}

define i32 @fn231(i32 %x) {
  %r = add i32 %x, 231
  ret i32 %r
}

define i32 @fn232(i32 %x) {
  %r = add i32 %x, 232
  ret i32 %r
}

define i32 @fn233(i32 %x) {
  %r = add i32 %x, 233
  ret i32 %r
}

define i32 @fn234(i32 %x) {
  %r = add i32 %x, 234
  ret i32 %r
}

define i32 @fn235(i32 %x) {
  %r = add i32 %x, 235
  ret i32 %r
}

define i32 @fn236(i32 %x) {
  %r = add i32 %x, 236
  ret i32 %r
}

define i32 @fn237(i32 %x) {
  %r = add i32 %x, 237
  ret i32 %r
}

define i32 @fn238(i32 %x) {
  %r = add i32 %x, 238
  ret i32 %r
}

define i32 @fn239(i32 %x) {
  %r = add i32 %x, 239
  ret i32 %r
}

define i32 @fn240(i32 %x) {
  %r = add i32 %x, 240
  ret i32 %r
}

define i32 @fn241(i32 %x) {
  %r = add i32 %x, 241
  ret i32 %r
}

define i32 @fn242(i32 %x) {
  %r = add i32 %x, 242
  ret i32 %r
}

define i32 @fn243(i32 %x) {
  %r = add i32 %x, 243
  ret i32 %r
}

define i32 @fn244(i32 %x) {
  %r = add i32 %x, 244
  ret i32 %r
}

define i32 @fn245(i32 %x) {
  %r = add i32 %x, 245
  ret i32 %r
}

define i32 @fn246(i32 %x) {
  %r = add i32 %x, 246
  ret i32 %r
}

define i32 @fn247(i32 %x) {
  %r = add i32 %x, 247
  ret i32 %r
}

define i32 @fn248(i32 %x) {
  %r = add i32 %x, 248
  ret i32 %r
}

define i32 @fn249(i32 %x) {
  %r = add i32 %x, 249
  ret i32 %r
}

define i32 @fn250(i32 %x) {
  %r = add i32 %x, 250
  ret i32 %r
}

define i32 @fn251(i32 %x) {
  %r = add i32 %x, 251
  ret i32 %r
}

define i32 @fn252(i32 %x) {
  %r = add i32 %x, 252
  ret i32 %r
}

define i32 @fn253(i32 %x) {
  %r = add i32 %x, 253
  ret i32 %r
}

define i32 @fn254(i32 %x) {
  %r = add i32 %x, 254
  ret i32 %r
}

define i32 @fn255(i32 %x) {
  %r = add i32 %x, 255
  ret i32 %r
}

define i32 @fn256(i32 %x) {
  %r = add i32 %x, 256
  ret i32 %r
}

define i32 @fn257(i32 %x) {
  %r = add i32 %x, 257
  ret i32 %r
}

define i32 @fn258(i32 %x) {
  %r = add i32 %x, 258
  ret i32 %r
}

define i32 @fn259(i32 %x) {
  %r = add i32 %x, 259
  ret i32 %r
}

define i32 @fn260(i32 %x) {
  %r = add i32 %x, 260
  ret i32 %r
}

define i32 @fn261(i32 %x) {
  %r = add i32 %x, 261
  ret i32 %r
}

define i32 @fn262(i32 %x) {
  %r = add i32 %x, 262
  ret i32 %r
}

define i32 @fn263(i32 %x) {
  %r = add i32 %x, 263
  ret i32 %r
}

define i32 @fn264(i32 %x) {
  %r = add i32 %x, 264
  ret i32 %r
}

define i32 @fn265(i32 %x) {
  %r = add i32 %x, 265
  ret i32 %r
}

define i32 @fn266(i32 %x) {
  %r = add i32 %x, 266
  ret i32 %r
}

define i32 @fn267(i32 %x) {
  %r = add i32 %x, 267
  ret i32 %r
}

define i32 @fn268(i32 %x) {
  %r = add i32 %x, 268
  ret i32 %r
}

define i32 @fn269(i32 %x) {
  %r = add i32 %x, 269
  ret i32 %r
}

define i32 @fn270(i32 %x) {
  %r = add i32 %x, 270
  ret i32 %r
}

define i32 @fn271(i32 %x) {
  %r = add i32 %x, 271
  ret i32 %r
}

define i32 @fn272(i32 %x) {
  %r = add i32 %x, 272
  ret i32 %r
}

define i32 @fn273(i32 %x) {
  %r = add i32 %x, 273
  ret i32 %r
}

define i32 @fn274(i32 %x) {
  %r = add i32 %x, 274
  ret i32 %r
}

define i32 @fn275(i32 %x) {
  %r = add i32 %x, 275
  ret i32 %r
}

define i32 @fn276(i32 %x) {
  %r = add i32 %x, 276
  ret i32 %r
}

define i32 @fn277(i32 %x) {
  %r = add i32 %x, 277
  ret i32 %r
}

define i32 @fn278(i32 %x) {
  %r = add i32 %x, 278
  ret i32 %r
}

define i32 @fn279(i32 %x) {
  %r = add i32 %x, 279
  ret i32 %r
}

define i32 @fn280(i32 %x) {
  %r = add i32 %x, 280
  ret i32 %r
}

define i32 @fn281(i32 %x) {
  %r = add i32 %x, 281
  ret i32 %r
}

define i32 @fn282(i32 %x) {
  %r = add i32 %x, 282
  ret i32 %r
}

define i32 @fn283(i32 %x) {
  %r = add i32 %x, 283
  ret i32 %r
}

define i32 @fn284(i32 %x) {
  %r = add i32 %x, 284
  ret i32 %r
}

define i32 @fn285(i32 %x) {
  %r = add i32 %x, 285
  ret i32 %r
}

define i32 @fn286(i32 %x) {
  %r = add i32 %x, 286
  ret i32 %r
}

define i32 @fn287(i32 %x) {
  %r = add i32 %x, 287
  ret i32 %r
}

define i32 @fn288(i32 %x) {
  %r = add i32 %x, 288
  ret i32 %r
}

define i32 @fn289(i32 %x) {
  %r = add i32 %x, 289
  ret i32 %r
}

define i32 @fn290(i32 %x) {
  %r = add i32 %x, 290
  ret i32 %r
}

define i32 @fn291(i32 %x) {
  %r = add i32 %x, 291
  ret i32 %r
}

define i32 @fn292(i32 %x) {
  %r = add i32 %x, 292
  ret i32 %r
}

define i32 @fn293(i32 %x) {
  %r = add i32 %x, 293
  ret i32 %r
}

define i32 @fn294(i32 %x) {
  %r = add i32 %x, 294
  ret i32 %r
}

define i32 @fn295(i32 %x) {
  %r = add i32 %x, 295
  ret i32 %r
}

define i32 @fn296(i32 %x) {
  %r = add i32 %x, 296
  ret i32 %r
}

define i32 @fn297(i32 %x) {
  %r = add i32 %x, 297
  ret i32 %r
}

define i32 @fn298(i32 %x) {
  %r = add i32 %x, 298
  ret i32 %r
}

define i32 @fn299(i32 %x) {
  %r = add i32 %x, 299
  ret i32 %r
}

