; 80 small functions: thresholds on the number of functions (parallel rendering,
; chunked work lists) only show on modules of this size.
@g = global i32 7
@0 = global i32 1

define i32 @f0(i32 %0) {
  %2 = add i32 %0, 0
  %3 = load i32, i32* @0
  %4 = add i32 %2, %3
  ret i32 %4
}

define i32 @f1(i32 %x, i32 %y) {
entry:
  %s = mul i32 %x, %y
  %c = icmp slt i32 %s, 1
  br i1 %c, label %a, label %b
a:
  %r = call i32 @f0(i32 %s)
  ret i32 %r
b:
  ret i32 %s
}

define void @f2() {
  %1 = call i32 @f0(i32 2)
  store i32 %1, i32* @g
  ret void
}

define i32 @f3(i32 %0) {
  %2 = add i32 %0, 3
  %3 = load i32, i32* @0
  %4 = add i32 %2, %3
  ret i32 %4
}

define i32 @f4(i32 %x, i32 %y) {
entry:
  %s = mul i32 %x, %y
  %c = icmp slt i32 %s, 4
  br i1 %c, label %a, label %b
a:
  %r = call i32 @f3(i32 %s)
  ret i32 %r
b:
  ret i32 %s
}

define void @f5() {
  %1 = call i32 @f3(i32 5)
  store i32 %1, i32* @g
  ret void
}

define i32 @f6(i32 %0) {
  %2 = add i32 %0, 6
  %3 = load i32, i32* @0
  %4 = add i32 %2, %3
  ret i32 %4
}

define i32 @f7(i32 %x, i32 %y) {
entry:
  %s = mul i32 %x, %y
  %c = icmp slt i32 %s, 7
  br i1 %c, label %a, label %b
a:
  %r = call i32 @f6(i32 %s)
  ret i32 %r
b:
  ret i32 %s
}

define void @f8() {
  %1 = call i32 @f6(i32 8)
  store i32 %1, i32* @g
  ret void
}

define i32 @f9(i32 %0) {
  %2 = add i32 %0, 9
  %3 = load i32, i32* @0
  %4 = add i32 %2, %3
  ret i32 %4
}

define i32 @f10(i32 %x, i32 %y) {
entry:
  %s = mul i32 %x, %y
  %c = icmp slt i32 %s, 10
  br i1 %c, label %a, label %b
a:
  %r = call i32 @f9(i32 %s)
  ret i32 %r
b:
  ret i32 %s
}

define void @f11() {
  %1 = call i32 @f9(i32 11)
  store i32 %1, i32* @g
  ret void
}

define i32 @f12(i32 %0) {
  %2 = add i32 %0, 12
  %3 = load i32, i32* @0
  %4 = add i32 %2, %3
  ret i32 %4
}

define i32 @f13(i32 %x, i32 %y) {
entry:
  %s = mul i32 %x, %y
  %c = icmp slt i32 %s, 13
  br i1 %c, label %a, label %b
a:
  %r = call i32 @f12(i32 %s)
  ret i32 %r
b:
  ret i32 %s
}

define void @f14() {
  %1 = call i32 @f12(i32 14)
  store i32 %1, i32* @g
  ret void
}

define i32 @f15(i32 %0) {
  %2 = add i32 %0, 15
  %3 = load i32, i32* @0
  %4 = add i32 %2, %3
  ret i32 %4
}

define i32 @f16(i32 %x, i32 %y) {
entry:
  %s = mul i32 %x, %y
  %c = icmp slt i32 %s, 16
  br i1 %c, label %a, label %b
a:
  %r = call i32 @f15(i32 %s)
  ret i32 %r
b:
  ret i32 %s
}

define void @f17() {
  %1 = call i32 @f15(i32 17)
  store i32 %1, i32* @g
  ret void
}

define i32 @f18(i32 %0) {
  %2 = add i32 %0, 18
  %3 = load i32, i32* @0
  %4 = add i32 %2, %3
  ret i32 %4
}

define i32 @f19(i32 %x, i32 %y) {
entry:
  %s = mul i32 %x, %y
  %c = icmp slt i32 %s, 19
  br i1 %c, label %a, label %b
a:
  %r = call i32 @f18(i32 %s)
  ret i32 %r
b:
  ret i32 %s
}

define void @f20() {
  %1 = call i32 @f18(i32 20)
  store i32 %1, i32* @g
  ret void
}

define i32 @f21(i32 %0) {
  %2 = add i32 %0, 21
  %3 = load i32, i32* @0
  %4 = add i32 %2, %3
  ret i32 %4
}

define i32 @f22(i32 %x, i32 %y) {
entry:
  %s = mul i32 %x, %y
  %c = icmp slt i32 %s, 22
  br i1 %c, label %a, label %b
a:
  %r = call i32 @f21(i32 %s)
  ret i32 %r
b:
  ret i32 %s
}

define void @f23() {
  %1 = call i32 @f21(i32 23)
  store i32 %1, i32* @g
  ret void
}

define i32 @f24(i32 %0) {
  %2 = add i32 %0, 24
  %3 = load i32, i32* @0
  %4 = add i32 %2, %3
  ret i32 %4
}

define i32 @f25(i32 %x, i32 %y) {
entry:
  %s = mul i32 %x, %y
  %c = icmp slt i32 %s, 25
  br i1 %c, label %a, label %b
a:
  %r = call i32 @f24(i32 %s)
  ret i32 %r
b:
  ret i32 %s
}

define void @f26() {
  %1 = call i32 @f24(i32 26)
  store i32 %1, i32* @g
  ret void
}

define i32 @f27(i32 %0) {
  %2 = add i32 %0, 27
  %3 = load i32, i32* @0
  %4 = add i32 %2, %3
  ret i32 %4
}

define i32 @f28(i32 %x, i32 %y) {
entry:
  %s = mul i32 %x, %y
  %c = icmp slt i32 %s, 28
  br i1 %c, label %a, label %b
a:
  %r = call i32 @f27(i32 %s)
  ret i32 %r
b:
  ret i32 %s
}

define void @f29() {
  %1 = call i32 @f27(i32 29)
  store i32 %1, i32* @g
  ret void
}

define i32 @f30(i32 %0) {
  %2 = add i32 %0, 30
  %3 = load i32, i32* @0
  %4 = add i32 %2, %3
  ret i32 %4
}

define i32 @f31(i32 %x, i32 %y) {
entry:
  %s = mul i32 %x, %y
  %c = icmp slt i32 %s, 31
  br i1 %c, label %a, label %b
a:
  %r = call i32 @f30(i32 %s)
  ret i32 %r
b:
  ret i32 %s
}

define void @f32() {
  %1 = call i32 @f30(i32 32)
  store i32 %1, i32* @g
  ret void
}

define i32 @f33(i32 %0) {
  %2 = add i32 %0, 33
  %3 = load i32, i32* @0
  %4 = add i32 %2, %3
  ret i32 %4
}

define i32 @f34(i32 %x, i32 %y) {
entry:
  %s = mul i32 %x, %y
  %c = icmp slt i32 %s, 34
  br i1 %c, label %a, label %b
a:
  %r = call i32 @f33(i32 %s)
  ret i32 %r
b:
  ret i32 %s
}

define void @f35() {
  %1 = call i32 @f33(i32 35)
  store i32 %1, i32* @g
  ret void
}

define i32 @f36(i32 %0) {
  %2 = add i32 %0, 36
  %3 = load i32, i32* @0
  %4 = add i32 %2, %3
  ret i32 %4
}

define i32 @f37(i32 %x, i32 %y) {
entry:
  %s = mul i32 %x, %y
  %c = icmp slt i32 %s, 37
  br i1 %c, label %a, label %b
a:
  %r = call i32 @f36(i32 %s)
  ret i32 %r
b:
  ret i32 %s
}

define void @f38() {
  %1 = call i32 @f36(i32 38)
  store i32 %1, i32* @g
  ret void
}

define i32 @f39(i32 %0) {
  %2 = add i32 %0, 39
  %3 = load i32, i32* @0
  %4 = add i32 %2, %3
  ret i32 %4
}

define i32 @f40(i32 %x, i32 %y) {
entry:
  %s = mul i32 %x, %y
  %c = icmp slt i32 %s, 40
  br i1 %c, label %a, label %b
a:
  %r = call i32 @f39(i32 %s)
  ret i32 %r
b:
  ret i32 %s
}

define void @f41() {
  %1 = call i32 @f39(i32 41)
  store i32 %1, i32* @g
  ret void
}

define i32 @f42(i32 %0) {
  %2 = add i32 %0, 42
  %3 = load i32, i32* @0
  %4 = add i32 %2, %3
  ret i32 %4
}

define i32 @f43(i32 %x, i32 %y) {
entry:
  %s = mul i32 %x, %y
  %c = icmp slt i32 %s, 43
  br i1 %c, label %a, label %b
a:
  %r = call i32 @f42(i32 %s)
  ret i32 %r
b:
  ret i32 %s
}

define void @f44() {
  %1 = call i32 @f42(i32 44)
  store i32 %1, i32* @g
  ret void
}

define i32 @f45(i32 %0) {
  %2 = add i32 %0, 45
  %3 = load i32, i32* @0
  %4 = add i32 %2, %3
  ret i32 %4
}

define i32 @f46(i32 %x, i32 %y) {
entry:
  %s = mul i32 %x, %y
  %c = icmp slt i32 %s, 46
  br i1 %c, label %a, label %b
a:
  %r = call i32 @f45(i32 %s)
  ret i32 %r
b:
  ret i32 %s
}

define void @f47() {
  %1 = call i32 @f45(i32 47)
  store i32 %1, i32* @g
  ret void
}

define i32 @f48(i32 %0) {
  %2 = add i32 %0, 48
  %3 = load i32, i32* @0
  %4 = add i32 %2, %3
  ret i32 %4
}

define i32 @f49(i32 %x, i32 %y) {
entry:
  %s = mul i32 %x, %y
  %c = icmp slt i32 %s, 49
  br i1 %c, label %a, label %b
a:
  %r = call i32 @f48(i32 %s)
  ret i32 %r
b:
  ret i32 %s
}

define void @f50() {
  %1 = call i32 @f48(i32 50)
  store i32 %1, i32* @g
  ret void
}

define i32 @f51(i32 %0) {
  %2 = add i32 %0, 51
  %3 = load i32, i32* @0
  %4 = add i32 %2, %3
  ret i32 %4
}

define i32 @f52(i32 %x, i32 %y) {
entry:
  %s = mul i32 %x, %y
  %c = icmp slt i32 %s, 52
  br i1 %c, label %a, label %b
a:
  %r = call i32 @f51(i32 %s)
  ret i32 %r
b:
  ret i32 %s
}

define void @f53() {
  %1 = call i32 @f51(i32 53)
  store i32 %1, i32* @g
  ret void
}

define i32 @f54(i32 %0) {
  %2 = add i32 %0, 54
  %3 = load i32, i32* @0
  %4 = add i32 %2, %3
  ret i32 %4
}

define i32 @f55(i32 %x, i32 %y) {
entry:
  %s = mul i32 %x, %y
  %c = icmp slt i32 %s, 55
  br i1 %c, label %a, label %b
a:
  %r = call i32 @f54(i32 %s)
  ret i32 %r
b:
  ret i32 %s
}

define void @f56() {
  %1 = call i32 @f54(i32 56)
  store i32 %1, i32* @g
  ret void
}

define i32 @f57(i32 %0) {
  %2 = add i32 %0, 57
  %3 = load i32, i32* @0
  %4 = add i32 %2, %3
  ret i32 %4
}

define i32 @f58(i32 %x, i32 %y) {
entry:
  %s = mul i32 %x, %y
  %c = icmp slt i32 %s, 58
  br i1 %c, label %a, label %b
a:
  %r = call i32 @f57(i32 %s)
  ret i32 %r
b:
  ret i32 %s
}

define void @f59() {
  %1 = call i32 @f57(i32 59)
  store i32 %1, i32* @g
  ret void
}

define i32 @f60(i32 %0) {
  %2 = add i32 %0, 60
  %3 = load i32, i32* @0
  %4 = add i32 %2, %3
  ret i32 %4
}

define i32 @f61(i32 %x, i32 %y) {
entry:
  %s = mul i32 %x, %y
  %c = icmp slt i32 %s, 61
  br i1 %c, label %a, label %b
a:
  %r = call i32 @f60(i32 %s)
  ret i32 %r
b:
  ret i32 %s
}

define void @f62() {
  %1 = call i32 @f60(i32 62)
  store i32 %1, i32* @g
  ret void
}

define i32 @f63(i32 %0) {
  %2 = add i32 %0, 63
  %3 = load i32, i32* @0
  %4 = add i32 %2, %3
  ret i32 %4
}

define i32 @f64(i32 %x, i32 %y) {
entry:
  %s = mul i32 %x, %y
  %c = icmp slt i32 %s, 64
  br i1 %c, label %a, label %b
a:
  %r = call i32 @f63(i32 %s)
  ret i32 %r
b:
  ret i32 %s
}

define void @f65() {
  %1 = call i32 @f63(i32 65)
  store i32 %1, i32* @g
  ret void
}

define i32 @f66(i32 %0) {
  %2 = add i32 %0, 66
  %3 = load i32, i32* @0
  %4 = add i32 %2, %3
  ret i32 %4
}

define i32 @f67(i32 %x, i32 %y) {
entry:
  %s = mul i32 %x, %y
  %c = icmp slt i32 %s, 67
  br i1 %c, label %a, label %b
a:
  %r = call i32 @f66(i32 %s)
  ret i32 %r
b:
  ret i32 %s
}

define void @f68() {
  %1 = call i32 @f66(i32 68)
  store i32 %1, i32* @g
  ret void
}

define i32 @f69(i32 %0) {
  %2 = add i32 %0, 69
  %3 = load i32, i32* @0
  %4 = add i32 %2, %3
  ret i32 %4
}

define i32 @f70(i32 %x, i32 %y) {
entry:
  %s = mul i32 %x, %y
  %c = icmp slt i32 %s, 70
  br i1 %c, label %a, label %b
a:
  %r = call i32 @f69(i32 %s)
  ret i32 %r
b:
  ret i32 %s
}

define void @f71() {
  %1 = call i32 @f69(i32 71)
  store i32 %1, i32* @g
  ret void
}

define i32 @f72(i32 %0) {
  %2 = add i32 %0, 72
  %3 = load i32, i32* @0
  %4 = add i32 %2, %3
  ret i32 %4
}

define i32 @f73(i32 %x, i32 %y) {
entry:
  %s = mul i32 %x, %y
  %c = icmp slt i32 %s, 73
  br i1 %c, label %a, label %b
a:
  %r = call i32 @f72(i32 %s)
  ret i32 %r
b:
  ret i32 %s
}

define void @f74() {
  %1 = call i32 @f72(i32 74)
  store i32 %1, i32* @g
  ret void
}

define i32 @f75(i32 %0) {
  %2 = add i32 %0, 75
  %3 = load i32, i32* @0
  %4 = add i32 %2, %3
  ret i32 %4
}

define i32 @f76(i32 %x, i32 %y) {
entry:
  %s = mul i32 %x, %y
  %c = icmp slt i32 %s, 76
  br i1 %c, label %a, label %b
a:
  %r = call i32 @f75(i32 %s)
  ret i32 %r
b:
  ret i32 %s
}

define void @f77() {
  %1 = call i32 @f75(i32 77)
  store i32 %1, i32* @g
  ret void
}

define i32 @f78(i32 %0) {
  %2 = add i32 %0, 78
  %3 = load i32, i32* @0
  %4 = add i32 %2, %3
  ret i32 %4
}

define i32 @f79(i32 %x, i32 %y) {
entry:
  %s = mul i32 %x, %y
  %c = icmp slt i32 %s, 79
  br i1 %c, label %a, label %b
a:
  %r = call i32 @f78(i32 %s)
  ret i32 %r
b:
  ret i32 %s
}
