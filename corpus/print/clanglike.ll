; a module in the style of front-end output: data layout, aligned globals and
; memory accesses, attribute groups, keyword and numeric calling conventions,
; parameter attributes, fast-math flags, TBAA, debug locations, inline asm.
source_filename = "clanglike.c"
target datalayout = "e-m:e-p270:32:32-p271:32:32-p272:64:64-i64:64-f80:128-n8:16:32:64-S128"
target triple = "x86_64-unknown-linux-gnu"

%struct.point = type { i32, i32, double }
%struct.list = type { %struct.list*, %struct.point, [4 x i8] }

$inline_fn = comdat any

@.str = private unnamed_addr constant [7 x i8] c"%d %f\0A\00", align 1
@origin = dso_local global %struct.point { i32 1, i32 2, double 3.500000e+00 }, align 8
@head = dso_local local_unnamed_addr global %struct.list* null, align 8
@counter = internal global i64 0, align 8
@table = dso_local constant [3 x i32 (i32)*] [i32 (i32)* @twice, i32 (i32)* @fast_helper, i32 (i32)* @odd_cc], align 16
@tls_var = thread_local(localdynamic) global i32 5, align 4

declare i32 @printf(i8* nocapture noundef readonly, ...) #2
declare void @llvm.dbg.declare(metadata, metadata, metadata) #3
declare i32 @__gxx_personality_v0(...)
declare void @may_throw(i32) #2

define dso_local i32 @twice(i32 noundef %x) #0 !dbg !10 {
entry:
  %x.addr = alloca i32, align 4
  store i32 %x, i32* %x.addr, align 4, !tbaa !20
  call void @llvm.dbg.declare(metadata i32* %x.addr, metadata !14, metadata !DIExpression()), !dbg !15
  %0 = load i32, i32* %x.addr, align 4, !dbg !16, !tbaa !20
  %mul = mul nsw i32 %0, 2, !dbg !16
  ret i32 %mul, !dbg !17
}

define internal fastcc i32 @fast_helper(i32 %a) unnamed_addr #1 {
  %r = add nuw nsw i32 %a, 1
  ret i32 %r
}

define cc 10 i32 @odd_cc(i32 %a) #1 align 32 {
  %r = tail call cc 10 i32 @odd_cc2(i32 %a, i32 7)
  ret i32 %r
}

define cc 99 i32 @odd_cc2(i32 %a, i32 %b) #1 {
  %r = xor i32 %a, %b
  ret i32 %r
}

define linkonce_odr dso_local double @inline_fn(%struct.point* noalias nocapture noundef readonly byval(%struct.point) align 8 %p, double %scale) #0 comdat align 2 {
entry:
  %z = getelementptr inbounds %struct.point, %struct.point* %p, i32 0, i32 2
  %0 = load double, double* %z, align 8, !tbaa !24
  %m = fmul fast double %0, %scale
  %c = fcmp ogt double %m, 1.000000e+00
  %s = select i1 %c, double %m, double 1.000000e+00
  ret double %s
}

define dso_local void @walk(%struct.list* noundef %l, void (%struct.point*)* %visit) #0 personality i8* bitcast (i32 (...)* @__gxx_personality_v0 to i8*) {
entry:
  %cur = alloca %struct.list*, align 8
  store %struct.list* %l, %struct.list** %cur, align 8
  br label %loop

loop:
  %v1 = load %struct.list*, %struct.list** %cur, align 8
  %done = icmp eq %struct.list* %v1, null
  br i1 %done, label %exit, label %body, !llvm.loop !26

body:
  %pt = getelementptr inbounds %struct.list, %struct.list* %v1, i32 0, i32 1
  invoke void %visit(%struct.point* noundef %pt)
          to label %cont unwind label %lpad

cont:
  %next = getelementptr inbounds %struct.list, %struct.list* %v1, i32 0, i32 0
  %v2 = load %struct.list*, %struct.list** %next, align 8
  store %struct.list* %v2, %struct.list** %cur, align 8
  %old = atomicrmw add i64* @counter, i64 1 seq_cst, align 8
  br label %loop

lpad:
  %lp = landingpad { i8*, i32 }
          cleanup
  call void asm sideeffect "nop", "~{memory},~{dirflag},~{fpsr},~{flags}"() #4
  resume { i8*, i32 } %lp

exit:
  %v3 = load i32, i32* @tls_var, align 4
  %call = call i32 (i8*, ...) @printf(i8* noundef getelementptr inbounds ([7 x i8], [7 x i8]* @.str, i64 0, i64 0), i32 noundef %v3, double noundef 2.500000e-01)
  ret void
}

define dso_local i32 @classify(i32 noundef %v) local_unnamed_addr #1 section ".text.hot" {
entry:
  switch i32 %v, label %other [
    i32 0, label %zero
    i32 1, label %one
    i32 -1, label %one
  ]

zero:
  br label %join

one:
  %t = call fastcc i32 @fast_helper(i32 %v)
  br label %join

other:
  %u = call cc 10 i32 @odd_cc(i32 %v)
  br label %join

join:
  %res = phi i32 [ 0, %zero ], [ %t, %one ], [ %u, %other ]
  ret i32 %res
}

attributes #0 = { noinline nounwind optnone uwtable "frame-pointer"="all" "min-legal-vector-width"="0" "no-trapping-math"="true" "stack-protector-buffer-size"="8" "target-cpu"="x86-64" }
attributes #1 = { mustprogress nofree norecurse nosync nounwind readnone willreturn uwtable alignstack=16 }
attributes #2 = { "frame-pointer"="all" "no-trapping-math"="true" }
attributes #3 = { nofree nosync nounwind readnone speculatable willreturn }
attributes #4 = { nounwind }

!llvm.dbg.cu = !{!0}
!llvm.module.flags = !{!3, !4, !5, !6}
!llvm.ident = !{!7}

!0 = distinct !DICompileUnit(language: DW_LANG_C99, file: !1, producer: "clang version 14.0.0", isOptimized: false, runtimeVersion: 0, emissionKind: FullDebug, enums: !2, splitDebugInlining: false, nameTableKind: None)
!1 = !DIFile(filename: "clanglike.c", directory: "/tmp")
!2 = !{}
!3 = !{i32 7, !"Dwarf Version", i32 5}
!4 = !{i32 2, !"Debug Info Version", i32 3}
!5 = !{i32 1, !"wchar_size", i32 4}
!6 = !{i32 7, !"uwtable", i32 1}
!7 = !{!"clang version 14.0.0"}
!10 = distinct !DISubprogram(name: "twice", scope: !1, file: !1, line: 3, type: !11, scopeLine: 3, flags: DIFlagPrototyped, spFlags: DISPFlagDefinition, unit: !0, retainedNodes: !2)
!11 = !DISubroutineType(types: !12)
!12 = !{!13, !13}
!13 = !DIBasicType(name: "int", size: 32, encoding: DW_ATE_signed)
!14 = !DILocalVariable(name: "x", arg: 1, scope: !10, file: !1, line: 3, type: !13)
!15 = !DILocation(line: 3, column: 15, scope: !10)
!16 = !DILocation(line: 4, column: 10, scope: !10)
!17 = !DILocation(line: 4, column: 3, scope: !10)
!20 = !{!21, !21, i64 0}
!21 = !{!"int", !22, i64 0}
!22 = !{!"omnipotent char", !23, i64 0}
!23 = !{!"Simple C/C++ TBAA"}
!24 = !{!25, !25, i64 0}
!25 = !{!"double", !22, i64 0}
!26 = distinct !{!26, !27}
!27 = !{!"llvm.loop.mustprogress"}
