; 420 distinct identifiers that need quoting: whatever is keyed, hashed or cached by identifier text
; (tables with a few thousand slots, caches with eviction) meets collisions and growth here.

@"?f0@@YAXXZ.g" = global i32 0
@"?f3@@YAXXZ.g" = global i32 3
@"?f6@@YAXXZ.g" = global i32 6
@"?f9@@YAXXZ.g" = global i32 9
@"?f12@@YAXXZ.g" = global i32 12
@"?f15@@YAXXZ.g" = global i32 15
@"?f18@@YAXXZ.g" = global i32 18
@"?f21@@YAXXZ.g" = global i32 21
@"?f24@@YAXXZ.g" = global i32 24
@"?f27@@YAXXZ.g" = global i32 27
@"?f30@@YAXXZ.g" = global i32 30
@"?f33@@YAXXZ.g" = global i32 33
@"?f36@@YAXXZ.g" = global i32 36
@"?f39@@YAXXZ.g" = global i32 39
@"?f42@@YAXXZ.g" = global i32 42
@"?f45@@YAXXZ.g" = global i32 45
@"?f48@@YAXXZ.g" = global i32 48
@"?f51@@YAXXZ.g" = global i32 51
@"?f54@@YAXXZ.g" = global i32 54
@"?f57@@YAXXZ.g" = global i32 57
@"?f60@@YAXXZ.g" = global i32 60
@"?f63@@YAXXZ.g" = global i32 63
@"?f66@@YAXXZ.g" = global i32 66
@"?f69@@YAXXZ.g" = global i32 69
@"?f72@@YAXXZ.g" = global i32 72
@"?f75@@YAXXZ.g" = global i32 75
@"?f78@@YAXXZ.g" = global i32 78
@"?f81@@YAXXZ.g" = global i32 81
@"?f84@@YAXXZ.g" = global i32 84
@"?f87@@YAXXZ.g" = global i32 87
@"?f90@@YAXXZ.g" = global i32 90
@"?f93@@YAXXZ.g" = global i32 93
@"?f96@@YAXXZ.g" = global i32 96
@"?f99@@YAXXZ.g" = global i32 99
@"?f102@@YAXXZ.g" = global i32 102
@"?f105@@YAXXZ.g" = global i32 105
@"?f108@@YAXXZ.g" = global i32 108
@"?f111@@YAXXZ.g" = global i32 111
@"?f114@@YAXXZ.g" = global i32 114
@"?f117@@YAXXZ.g" = global i32 117
@"?f120@@YAXXZ.g" = global i32 120
@"?f123@@YAXXZ.g" = global i32 123
@"?f126@@YAXXZ.g" = global i32 126
@"?f129@@YAXXZ.g" = global i32 129
@"?f132@@YAXXZ.g" = global i32 132
@"?f135@@YAXXZ.g" = global i32 135
@"?f138@@YAXXZ.g" = global i32 138
@"?f141@@YAXXZ.g" = global i32 141
@"?f144@@YAXXZ.g" = global i32 144
@"?f147@@YAXXZ.g" = global i32 147
@"?f150@@YAXXZ.g" = global i32 150
@"?f153@@YAXXZ.g" = global i32 153
@"?f156@@YAXXZ.g" = global i32 156
@"?f159@@YAXXZ.g" = global i32 159
@"?f162@@YAXXZ.g" = global i32 162
@"?f165@@YAXXZ.g" = global i32 165
@"?f168@@YAXXZ.g" = global i32 168
@"?f171@@YAXXZ.g" = global i32 171
@"?f174@@YAXXZ.g" = global i32 174
@"?f177@@YAXXZ.g" = global i32 177
@"?f180@@YAXXZ.g" = global i32 180
@"?f183@@YAXXZ.g" = global i32 183
@"?f186@@YAXXZ.g" = global i32 186
@"?f189@@YAXXZ.g" = global i32 189
@"?f192@@YAXXZ.g" = global i32 192
@"?f195@@YAXXZ.g" = global i32 195
@"?f198@@YAXXZ.g" = global i32 198
@"?f201@@YAXXZ.g" = global i32 201
@"?f204@@YAXXZ.g" = global i32 204
@"?f207@@YAXXZ.g" = global i32 207
@"?f210@@YAXXZ.g" = global i32 210
@"?f213@@YAXXZ.g" = global i32 213
@"?f216@@YAXXZ.g" = global i32 216
@"?f219@@YAXXZ.g" = global i32 219
@"?f222@@YAXXZ.g" = global i32 222
@"?f225@@YAXXZ.g" = global i32 225
@"?f228@@YAXXZ.g" = global i32 228
@"?f231@@YAXXZ.g" = global i32 231
@"?f234@@YAXXZ.g" = global i32 234
@"?f237@@YAXXZ.g" = global i32 237
@"?f240@@YAXXZ.g" = global i32 240
@"?f243@@YAXXZ.g" = global i32 243
@"?f246@@YAXXZ.g" = global i32 246
@"?f249@@YAXXZ.g" = global i32 249
@"?f252@@YAXXZ.g" = global i32 252
@"?f255@@YAXXZ.g" = global i32 255
@"?f258@@YAXXZ.g" = global i32 258
@"?f261@@YAXXZ.g" = global i32 261
@"?f264@@YAXXZ.g" = global i32 264
@"?f267@@YAXXZ.g" = global i32 267
@"?f270@@YAXXZ.g" = global i32 270
@"?f273@@YAXXZ.g" = global i32 273
@"?f276@@YAXXZ.g" = global i32 276
@"?f279@@YAXXZ.g" = global i32 279
@"?f282@@YAXXZ.g" = global i32 282
@"?f285@@YAXXZ.g" = global i32 285
@"?f288@@YAXXZ.g" = global i32 288
@"?f291@@YAXXZ.g" = global i32 291
@"?f294@@YAXXZ.g" = global i32 294
@"?f297@@YAXXZ.g" = global i32 297
@"has space 0.g" = global i32 300
@"has space 3.g" = global i32 303
@"has space 6.g" = global i32 306
@"has space 9.g" = global i32 309
@"has space 12.g" = global i32 312
@"has space 15.g" = global i32 315
@"has space 18.g" = global i32 318
@"has space 21.g" = global i32 321
@"has space 24.g" = global i32 324
@"has space 27.g" = global i32 327
@"has space 30.g" = global i32 330
@"has space 33.g" = global i32 333
@"has space 36.g" = global i32 336
@"has space 39.g" = global i32 339
@"has space 42.g" = global i32 342
@"has space 45.g" = global i32 345
@"has space 48.g" = global i32 348
@"has space 51.g" = global i32 351
@"has space 54.g" = global i32 354
@"has space 57.g" = global i32 357
@"caf\C3\A9.0.g" = global i32 360
@"caf\C3\A9.3.g" = global i32 363
@"caf\C3\A9.6.g" = global i32 366
@"caf\C3\A9.9.g" = global i32 369
@"caf\C3\A9.12.g" = global i32 372
@"caf\C3\A9.15.g" = global i32 375
@"caf\C3\A9.18.g" = global i32 378
@"caf\C3\A9.21.g" = global i32 381
@"caf\C3\A9.24.g" = global i32 384
@"caf\C3\A9.27.g" = global i32 387
@"caf\C3\A9.30.g" = global i32 390
@"caf\C3\A9.33.g" = global i32 393
@"caf\C3\A9.36.g" = global i32 396
@"caf\C3\A9.39.g" = global i32 399
@"q\22uote\22.2.g" = global i32 402
@"q\22uote\22.5.g" = global i32 405
@"q\22uote\22.8.g" = global i32 408
@"q\22uote\22.11.g" = global i32 411
@"q\22uote\22.14.g" = global i32 414
@"q\22uote\22.17.g" = global i32 417
define i32 @"?f0@@YAXXZ"(i32 %"arg 0") {
"entry 0":
  %"r 0" = add i32 %"arg 0", 0
  store i32 %"r 0", i32* @"?f0@@YAXXZ.g"
  ret i32 %"r 0"
}

define i32 @"?f1@@YAXXZ"(i32 %"arg 1") {
"entry 1":
  %"r 1" = add i32 %"arg 1", 1
  ret i32 %"r 1"
}

define i32 @"?f2@@YAXXZ"(i32 %"arg 2") {
"entry 2":
  %"r 2" = call i32 @"?f1@@YAXXZ"(i32 %"arg 2")
  ret i32 %"r 2"
}

define i32 @"?f3@@YAXXZ"(i32 %"arg 3") {
"entry 3":
  %"r 3" = add i32 %"arg 3", 3
  store i32 %"r 3", i32* @"?f3@@YAXXZ.g"
  ret i32 %"r 3"
}

define i32 @"?f4@@YAXXZ"(i32 %"arg 4") {
"entry 4":
  %"r 4" = call i32 @"?f3@@YAXXZ"(i32 %"arg 4")
  ret i32 %"r 4"
}

define i32 @"?f5@@YAXXZ"(i32 %"arg 5") {
"entry 5":
  %"r 5" = add i32 %"arg 5", 5
  ret i32 %"r 5"
}

define i32 @"?f6@@YAXXZ"(i32 %"arg 6") {
"entry 6":
  %"r 6" = call i32 @"?f5@@YAXXZ"(i32 %"arg 6")
  store i32 %"r 6", i32* @"?f6@@YAXXZ.g"
  ret i32 %"r 6"
}

define i32 @"?f7@@YAXXZ"(i32 %"arg 7") {
"entry 7":
  %"r 7" = add i32 %"arg 7", 7
  ret i32 %"r 7"
}

define i32 @"?f8@@YAXXZ"(i32 %"arg 8") {
"entry 8":
  %"r 8" = call i32 @"?f7@@YAXXZ"(i32 %"arg 8")
  ret i32 %"r 8"
}

define i32 @"?f9@@YAXXZ"(i32 %"arg 9") {
"entry 9":
  %"r 9" = add i32 %"arg 9", 9
  store i32 %"r 9", i32* @"?f9@@YAXXZ.g"
  ret i32 %"r 9"
}

define i32 @"?f10@@YAXXZ"(i32 %"arg 10") {
"entry 10":
  %"r 10" = call i32 @"?f9@@YAXXZ"(i32 %"arg 10")
  ret i32 %"r 10"
}

define i32 @"?f11@@YAXXZ"(i32 %"arg 11") {
"entry 11":
  %"r 11" = add i32 %"arg 11", 11
  ret i32 %"r 11"
}

define i32 @"?f12@@YAXXZ"(i32 %"arg 12") {
"entry 12":
  %"r 12" = call i32 @"?f11@@YAXXZ"(i32 %"arg 12")
  store i32 %"r 12", i32* @"?f12@@YAXXZ.g"
  ret i32 %"r 12"
}

define i32 @"?f13@@YAXXZ"(i32 %"arg 13") {
"entry 13":
  %"r 13" = add i32 %"arg 13", 13
  ret i32 %"r 13"
}

define i32 @"?f14@@YAXXZ"(i32 %"arg 14") {
"entry 14":
  %"r 14" = call i32 @"?f13@@YAXXZ"(i32 %"arg 14")
  ret i32 %"r 14"
}

define i32 @"?f15@@YAXXZ"(i32 %"arg 15") {
"entry 15":
  %"r 15" = add i32 %"arg 15", 15
  store i32 %"r 15", i32* @"?f15@@YAXXZ.g"
  ret i32 %"r 15"
}

define i32 @"?f16@@YAXXZ"(i32 %"arg 16") {
"entry 16":
  %"r 16" = call i32 @"?f15@@YAXXZ"(i32 %"arg 16")
  ret i32 %"r 16"
}

define i32 @"?f17@@YAXXZ"(i32 %"arg 17") {
"entry 17":
  %"r 17" = add i32 %"arg 17", 17
  ret i32 %"r 17"
}

define i32 @"?f18@@YAXXZ"(i32 %"arg 18") {
"entry 18":
  %"r 18" = call i32 @"?f17@@YAXXZ"(i32 %"arg 18")
  store i32 %"r 18", i32* @"?f18@@YAXXZ.g"
  ret i32 %"r 18"
}

define i32 @"?f19@@YAXXZ"(i32 %"arg 19") {
"entry 19":
  %"r 19" = add i32 %"arg 19", 19
  ret i32 %"r 19"
}

define i32 @"?f20@@YAXXZ"(i32 %"arg 20") {
"entry 20":
  %"r 20" = call i32 @"?f19@@YAXXZ"(i32 %"arg 20")
  ret i32 %"r 20"
}

define i32 @"?f21@@YAXXZ"(i32 %"arg 21") {
"entry 21":
  %"r 21" = add i32 %"arg 21", 21
  store i32 %"r 21", i32* @"?f21@@YAXXZ.g"
  ret i32 %"r 21"
}

define i32 @"?f22@@YAXXZ"(i32 %"arg 22") {
"entry 22":
  %"r 22" = call i32 @"?f21@@YAXXZ"(i32 %"arg 22")
  ret i32 %"r 22"
}

define i32 @"?f23@@YAXXZ"(i32 %"arg 23") {
"entry 23":
  %"r 23" = add i32 %"arg 23", 23
  ret i32 %"r 23"
}

define i32 @"?f24@@YAXXZ"(i32 %"arg 24") {
"entry 24":
  %"r 24" = call i32 @"?f23@@YAXXZ"(i32 %"arg 24")
  store i32 %"r 24", i32* @"?f24@@YAXXZ.g"
  ret i32 %"r 24"
}

define i32 @"?f25@@YAXXZ"(i32 %"arg 25") {
"entry 25":
  %"r 25" = add i32 %"arg 25", 25
  ret i32 %"r 25"
}

define i32 @"?f26@@YAXXZ"(i32 %"arg 26") {
"entry 26":
  %"r 26" = call i32 @"?f25@@YAXXZ"(i32 %"arg 26")
  ret i32 %"r 26"
}

define i32 @"?f27@@YAXXZ"(i32 %"arg 27") {
"entry 27":
  %"r 27" = add i32 %"arg 27", 27
  store i32 %"r 27", i32* @"?f27@@YAXXZ.g"
  ret i32 %"r 27"
}

define i32 @"?f28@@YAXXZ"(i32 %"arg 28") {
"entry 28":
  %"r 28" = call i32 @"?f27@@YAXXZ"(i32 %"arg 28")
  ret i32 %"r 28"
}

define i32 @"?f29@@YAXXZ"(i32 %"arg 29") {
"entry 29":
  %"r 29" = add i32 %"arg 29", 29
  ret i32 %"r 29"
}

define i32 @"?f30@@YAXXZ"(i32 %"arg 30") {
"entry 30":
  %"r 30" = call i32 @"?f29@@YAXXZ"(i32 %"arg 30")
  store i32 %"r 30", i32* @"?f30@@YAXXZ.g"
  ret i32 %"r 30"
}

define i32 @"?f31@@YAXXZ"(i32 %"arg 31") {
"entry 31":
  %"r 31" = add i32 %"arg 31", 31
  ret i32 %"r 31"
}

define i32 @"?f32@@YAXXZ"(i32 %"arg 32") {
"entry 32":
  %"r 32" = call i32 @"?f31@@YAXXZ"(i32 %"arg 32")
  ret i32 %"r 32"
}

define i32 @"?f33@@YAXXZ"(i32 %"arg 33") {
"entry 33":
  %"r 33" = add i32 %"arg 33", 33
  store i32 %"r 33", i32* @"?f33@@YAXXZ.g"
  ret i32 %"r 33"
}

define i32 @"?f34@@YAXXZ"(i32 %"arg 34") {
"entry 34":
  %"r 34" = call i32 @"?f33@@YAXXZ"(i32 %"arg 34")
  ret i32 %"r 34"
}

define i32 @"?f35@@YAXXZ"(i32 %"arg 35") {
"entry 35":
  %"r 35" = add i32 %"arg 35", 35
  ret i32 %"r 35"
}

define i32 @"?f36@@YAXXZ"(i32 %"arg 36") {
"entry 36":
  %"r 36" = call i32 @"?f35@@YAXXZ"(i32 %"arg 36")
  store i32 %"r 36", i32* @"?f36@@YAXXZ.g"
  ret i32 %"r 36"
}

define i32 @"?f37@@YAXXZ"(i32 %"arg 37") {
"entry 37":
  %"r 37" = add i32 %"arg 37", 37
  ret i32 %"r 37"
}

define i32 @"?f38@@YAXXZ"(i32 %"arg 38") {
"entry 38":
  %"r 38" = call i32 @"?f37@@YAXXZ"(i32 %"arg 38")
  ret i32 %"r 38"
}

define i32 @"?f39@@YAXXZ"(i32 %"arg 39") {
"entry 39":
  %"r 39" = add i32 %"arg 39", 39
  store i32 %"r 39", i32* @"?f39@@YAXXZ.g"
  ret i32 %"r 39"
}

define i32 @"?f40@@YAXXZ"(i32 %"arg 40") {
"entry 40":
  %"r 40" = call i32 @"?f39@@YAXXZ"(i32 %"arg 40")
  ret i32 %"r 40"
}

define i32 @"?f41@@YAXXZ"(i32 %"arg 41") {
"entry 41":
  %"r 41" = add i32 %"arg 41", 41
  ret i32 %"r 41"
}

define i32 @"?f42@@YAXXZ"(i32 %"arg 42") {
"entry 42":
  %"r 42" = call i32 @"?f41@@YAXXZ"(i32 %"arg 42")
  store i32 %"r 42", i32* @"?f42@@YAXXZ.g"
  ret i32 %"r 42"
}

define i32 @"?f43@@YAXXZ"(i32 %"arg 43") {
"entry 43":
  %"r 43" = add i32 %"arg 43", 43
  ret i32 %"r 43"
}

define i32 @"?f44@@YAXXZ"(i32 %"arg 44") {
"entry 44":
  %"r 44" = call i32 @"?f43@@YAXXZ"(i32 %"arg 44")
  ret i32 %"r 44"
}

define i32 @"?f45@@YAXXZ"(i32 %"arg 45") {
"entry 45":
  %"r 45" = add i32 %"arg 45", 45
  store i32 %"r 45", i32* @"?f45@@YAXXZ.g"
  ret i32 %"r 45"
}

define i32 @"?f46@@YAXXZ"(i32 %"arg 46") {
"entry 46":
  %"r 46" = call i32 @"?f45@@YAXXZ"(i32 %"arg 46")
  ret i32 %"r 46"
}

define i32 @"?f47@@YAXXZ"(i32 %"arg 47") {
"entry 47":
  %"r 47" = add i32 %"arg 47", 47
  ret i32 %"r 47"
}

define i32 @"?f48@@YAXXZ"(i32 %"arg 48") {
"entry 48":
  %"r 48" = call i32 @"?f47@@YAXXZ"(i32 %"arg 48")
  store i32 %"r 48", i32* @"?f48@@YAXXZ.g"
  ret i32 %"r 48"
}

define i32 @"?f49@@YAXXZ"(i32 %"arg 49") {
"entry 49":
  %"r 49" = add i32 %"arg 49", 49
  ret i32 %"r 49"
}

define i32 @"?f50@@YAXXZ"(i32 %"arg 50") {
"entry 50":
  %"r 50" = call i32 @"?f49@@YAXXZ"(i32 %"arg 50")
  ret i32 %"r 50"
}

define i32 @"?f51@@YAXXZ"(i32 %"arg 51") {
"entry 51":
  %"r 51" = add i32 %"arg 51", 51
  store i32 %"r 51", i32* @"?f51@@YAXXZ.g"
  ret i32 %"r 51"
}

define i32 @"?f52@@YAXXZ"(i32 %"arg 52") {
"entry 52":
  %"r 52" = call i32 @"?f51@@YAXXZ"(i32 %"arg 52")
  ret i32 %"r 52"
}

define i32 @"?f53@@YAXXZ"(i32 %"arg 53") {
"entry 53":
  %"r 53" = add i32 %"arg 53", 53
  ret i32 %"r 53"
}

define i32 @"?f54@@YAXXZ"(i32 %"arg 54") {
"entry 54":
  %"r 54" = call i32 @"?f53@@YAXXZ"(i32 %"arg 54")
  store i32 %"r 54", i32* @"?f54@@YAXXZ.g"
  ret i32 %"r 54"
}

define i32 @"?f55@@YAXXZ"(i32 %"arg 55") {
"entry 55":
  %"r 55" = add i32 %"arg 55", 55
  ret i32 %"r 55"
}

define i32 @"?f56@@YAXXZ"(i32 %"arg 56") {
"entry 56":
  %"r 56" = call i32 @"?f55@@YAXXZ"(i32 %"arg 56")
  ret i32 %"r 56"
}

define i32 @"?f57@@YAXXZ"(i32 %"arg 57") {
"entry 57":
  %"r 57" = add i32 %"arg 57", 57
  store i32 %"r 57", i32* @"?f57@@YAXXZ.g"
  ret i32 %"r 57"
}

define i32 @"?f58@@YAXXZ"(i32 %"arg 58") {
"entry 58":
  %"r 58" = call i32 @"?f57@@YAXXZ"(i32 %"arg 58")
  ret i32 %"r 58"
}

define i32 @"?f59@@YAXXZ"(i32 %"arg 59") {
"entry 59":
  %"r 59" = add i32 %"arg 59", 59
  ret i32 %"r 59"
}

define i32 @"?f60@@YAXXZ"(i32 %"arg 60") {
"entry 60":
  %"r 60" = call i32 @"?f59@@YAXXZ"(i32 %"arg 60")
  store i32 %"r 60", i32* @"?f60@@YAXXZ.g"
  ret i32 %"r 60"
}

define i32 @"?f61@@YAXXZ"(i32 %"arg 61") {
"entry 61":
  %"r 61" = add i32 %"arg 61", 61
  ret i32 %"r 61"
}

define i32 @"?f62@@YAXXZ"(i32 %"arg 62") {
"entry 62":
  %"r 62" = call i32 @"?f61@@YAXXZ"(i32 %"arg 62")
  ret i32 %"r 62"
}

define i32 @"?f63@@YAXXZ"(i32 %"arg 63") {
"entry 63":
  %"r 63" = add i32 %"arg 63", 63
  store i32 %"r 63", i32* @"?f63@@YAXXZ.g"
  ret i32 %"r 63"
}

define i32 @"?f64@@YAXXZ"(i32 %"arg 64") {
"entry 64":
  %"r 64" = call i32 @"?f63@@YAXXZ"(i32 %"arg 64")
  ret i32 %"r 64"
}

define i32 @"?f65@@YAXXZ"(i32 %"arg 65") {
"entry 65":
  %"r 65" = add i32 %"arg 65", 65
  ret i32 %"r 65"
}

define i32 @"?f66@@YAXXZ"(i32 %"arg 66") {
"entry 66":
  %"r 66" = call i32 @"?f65@@YAXXZ"(i32 %"arg 66")
  store i32 %"r 66", i32* @"?f66@@YAXXZ.g"
  ret i32 %"r 66"
}

define i32 @"?f67@@YAXXZ"(i32 %"arg 67") {
"entry 67":
  %"r 67" = add i32 %"arg 67", 67
  ret i32 %"r 67"
}

define i32 @"?f68@@YAXXZ"(i32 %"arg 68") {
"entry 68":
  %"r 68" = call i32 @"?f67@@YAXXZ"(i32 %"arg 68")
  ret i32 %"r 68"
}

define i32 @"?f69@@YAXXZ"(i32 %"arg 69") {
"entry 69":
  %"r 69" = add i32 %"arg 69", 69
  store i32 %"r 69", i32* @"?f69@@YAXXZ.g"
  ret i32 %"r 69"
}

define i32 @"?f70@@YAXXZ"(i32 %"arg 70") {
"entry 70":
  %"r 70" = call i32 @"?f69@@YAXXZ"(i32 %"arg 70")
  ret i32 %"r 70"
}

define i32 @"?f71@@YAXXZ"(i32 %"arg 71") {
"entry 71":
  %"r 71" = add i32 %"arg 71", 71
  ret i32 %"r 71"
}

define i32 @"?f72@@YAXXZ"(i32 %"arg 72") {
"entry 72":
  %"r 72" = call i32 @"?f71@@YAXXZ"(i32 %"arg 72")
  store i32 %"r 72", i32* @"?f72@@YAXXZ.g"
  ret i32 %"r 72"
}

define i32 @"?f73@@YAXXZ"(i32 %"arg 73") {
"entry 73":
  %"r 73" = add i32 %"arg 73", 73
  ret i32 %"r 73"
}

define i32 @"?f74@@YAXXZ"(i32 %"arg 74") {
"entry 74":
  %"r 74" = call i32 @"?f73@@YAXXZ"(i32 %"arg 74")
  ret i32 %"r 74"
}

define i32 @"?f75@@YAXXZ"(i32 %"arg 75") {
"entry 75":
  %"r 75" = add i32 %"arg 75", 75
  store i32 %"r 75", i32* @"?f75@@YAXXZ.g"
  ret i32 %"r 75"
}

define i32 @"?f76@@YAXXZ"(i32 %"arg 76") {
"entry 76":
  %"r 76" = call i32 @"?f75@@YAXXZ"(i32 %"arg 76")
  ret i32 %"r 76"
}

define i32 @"?f77@@YAXXZ"(i32 %"arg 77") {
"entry 77":
  %"r 77" = add i32 %"arg 77", 77
  ret i32 %"r 77"
}

define i32 @"?f78@@YAXXZ"(i32 %"arg 78") {
"entry 78":
  %"r 78" = call i32 @"?f77@@YAXXZ"(i32 %"arg 78")
  store i32 %"r 78", i32* @"?f78@@YAXXZ.g"
  ret i32 %"r 78"
}

define i32 @"?f79@@YAXXZ"(i32 %"arg 79") {
"entry 79":
  %"r 79" = add i32 %"arg 79", 79
  ret i32 %"r 79"
}

define i32 @"?f80@@YAXXZ"(i32 %"arg 80") {
"entry 80":
  %"r 80" = call i32 @"?f79@@YAXXZ"(i32 %"arg 80")
  ret i32 %"r 80"
}

define i32 @"?f81@@YAXXZ"(i32 %"arg 81") {
"entry 81":
  %"r 81" = add i32 %"arg 81", 81
  store i32 %"r 81", i32* @"?f81@@YAXXZ.g"
  ret i32 %"r 81"
}

define i32 @"?f82@@YAXXZ"(i32 %"arg 82") {
"entry 82":
  %"r 82" = call i32 @"?f81@@YAXXZ"(i32 %"arg 82")
  ret i32 %"r 82"
}

define i32 @"?f83@@YAXXZ"(i32 %"arg 83") {
"entry 83":
  %"r 83" = add i32 %"arg 83", 83
  ret i32 %"r 83"
}

define i32 @"?f84@@YAXXZ"(i32 %"arg 84") {
"entry 84":
  %"r 84" = call i32 @"?f83@@YAXXZ"(i32 %"arg 84")
  store i32 %"r 84", i32* @"?f84@@YAXXZ.g"
  ret i32 %"r 84"
}

define i32 @"?f85@@YAXXZ"(i32 %"arg 85") {
"entry 85":
  %"r 85" = add i32 %"arg 85", 85
  ret i32 %"r 85"
}

define i32 @"?f86@@YAXXZ"(i32 %"arg 86") {
"entry 86":
  %"r 86" = call i32 @"?f85@@YAXXZ"(i32 %"arg 86")
  ret i32 %"r 86"
}

define i32 @"?f87@@YAXXZ"(i32 %"arg 87") {
"entry 87":
  %"r 87" = add i32 %"arg 87", 87
  store i32 %"r 87", i32* @"?f87@@YAXXZ.g"
  ret i32 %"r 87"
}

define i32 @"?f88@@YAXXZ"(i32 %"arg 88") {
"entry 88":
  %"r 88" = call i32 @"?f87@@YAXXZ"(i32 %"arg 88")
  ret i32 %"r 88"
}

define i32 @"?f89@@YAXXZ"(i32 %"arg 89") {
"entry 89":
  %"r 89" = add i32 %"arg 89", 89
  ret i32 %"r 89"
}

define i32 @"?f90@@YAXXZ"(i32 %"arg 90") {
"entry 90":
  %"r 90" = call i32 @"?f89@@YAXXZ"(i32 %"arg 90")
  store i32 %"r 90", i32* @"?f90@@YAXXZ.g"
  ret i32 %"r 90"
}

define i32 @"?f91@@YAXXZ"(i32 %"arg 91") {
"entry 91":
  %"r 91" = add i32 %"arg 91", 91
  ret i32 %"r 91"
}

define i32 @"?f92@@YAXXZ"(i32 %"arg 92") {
"entry 92":
  %"r 92" = call i32 @"?f91@@YAXXZ"(i32 %"arg 92")
  ret i32 %"r 92"
}

define i32 @"?f93@@YAXXZ"(i32 %"arg 93") {
"entry 93":
  %"r 93" = add i32 %"arg 93", 93
  store i32 %"r 93", i32* @"?f93@@YAXXZ.g"
  ret i32 %"r 93"
}

define i32 @"?f94@@YAXXZ"(i32 %"arg 94") {
"entry 94":
  %"r 94" = call i32 @"?f93@@YAXXZ"(i32 %"arg 94")
  ret i32 %"r 94"
}

define i32 @"?f95@@YAXXZ"(i32 %"arg 95") {
"entry 95":
  %"r 95" = add i32 %"arg 95", 95
  ret i32 %"r 95"
}

define i32 @"?f96@@YAXXZ"(i32 %"arg 96") {
"entry 96":
  %"r 96" = call i32 @"?f95@@YAXXZ"(i32 %"arg 96")
  store i32 %"r 96", i32* @"?f96@@YAXXZ.g"
  ret i32 %"r 96"
}

define i32 @"?f97@@YAXXZ"(i32 %"arg 97") {
"entry 97":
  %"r 97" = add i32 %"arg 97", 97
  ret i32 %"r 97"
}

define i32 @"?f98@@YAXXZ"(i32 %"arg 98") {
"entry 98":
  %"r 98" = call i32 @"?f97@@YAXXZ"(i32 %"arg 98")
  ret i32 %"r 98"
}

define i32 @"?f99@@YAXXZ"(i32 %"arg 99") {
"entry 99":
  %"r 99" = add i32 %"arg 99", 99
  store i32 %"r 99", i32* @"?f99@@YAXXZ.g"
  ret i32 %"r 99"
}

define i32 @"?f100@@YAXXZ"(i32 %"arg 100") {
"entry 100":
  %"r 100" = call i32 @"?f99@@YAXXZ"(i32 %"arg 100")
  ret i32 %"r 100"
}

define i32 @"?f101@@YAXXZ"(i32 %"arg 101") {
"entry 101":
  %"r 101" = add i32 %"arg 101", 101
  ret i32 %"r 101"
}

define i32 @"?f102@@YAXXZ"(i32 %"arg 102") {
"entry 102":
  %"r 102" = call i32 @"?f101@@YAXXZ"(i32 %"arg 102")
  store i32 %"r 102", i32* @"?f102@@YAXXZ.g"
  ret i32 %"r 102"
}

define i32 @"?f103@@YAXXZ"(i32 %"arg 103") {
"entry 103":
  %"r 103" = add i32 %"arg 103", 103
  ret i32 %"r 103"
}

define i32 @"?f104@@YAXXZ"(i32 %"arg 104") {
"entry 104":
  %"r 104" = call i32 @"?f103@@YAXXZ"(i32 %"arg 104")
  ret i32 %"r 104"
}

define i32 @"?f105@@YAXXZ"(i32 %"arg 105") {
"entry 105":
  %"r 105" = add i32 %"arg 105", 105
  store i32 %"r 105", i32* @"?f105@@YAXXZ.g"
  ret i32 %"r 105"
}

define i32 @"?f106@@YAXXZ"(i32 %"arg 106") {
"entry 106":
  %"r 106" = call i32 @"?f105@@YAXXZ"(i32 %"arg 106")
  ret i32 %"r 106"
}

define i32 @"?f107@@YAXXZ"(i32 %"arg 107") {
"entry 107":
  %"r 107" = add i32 %"arg 107", 107
  ret i32 %"r 107"
}

define i32 @"?f108@@YAXXZ"(i32 %"arg 108") {
"entry 108":
  %"r 108" = call i32 @"?f107@@YAXXZ"(i32 %"arg 108")
  store i32 %"r 108", i32* @"?f108@@YAXXZ.g"
  ret i32 %"r 108"
}

define i32 @"?f109@@YAXXZ"(i32 %"arg 109") {
"entry 109":
  %"r 109" = add i32 %"arg 109", 109
  ret i32 %"r 109"
}

define i32 @"?f110@@YAXXZ"(i32 %"arg 110") {
"entry 110":
  %"r 110" = call i32 @"?f109@@YAXXZ"(i32 %"arg 110")
  ret i32 %"r 110"
}

define i32 @"?f111@@YAXXZ"(i32 %"arg 111") {
"entry 111":
  %"r 111" = add i32 %"arg 111", 111
  store i32 %"r 111", i32* @"?f111@@YAXXZ.g"
  ret i32 %"r 111"
}

define i32 @"?f112@@YAXXZ"(i32 %"arg 112") {
"entry 112":
  %"r 112" = call i32 @"?f111@@YAXXZ"(i32 %"arg 112")
  ret i32 %"r 112"
}

define i32 @"?f113@@YAXXZ"(i32 %"arg 113") {
"entry 113":
  %"r 113" = add i32 %"arg 113", 113
  ret i32 %"r 113"
}

define i32 @"?f114@@YAXXZ"(i32 %"arg 114") {
"entry 114":
  %"r 114" = call i32 @"?f113@@YAXXZ"(i32 %"arg 114")
  store i32 %"r 114", i32* @"?f114@@YAXXZ.g"
  ret i32 %"r 114"
}

define i32 @"?f115@@YAXXZ"(i32 %"arg 115") {
"entry 115":
  %"r 115" = add i32 %"arg 115", 115
  ret i32 %"r 115"
}

define i32 @"?f116@@YAXXZ"(i32 %"arg 116") {
"entry 116":
  %"r 116" = call i32 @"?f115@@YAXXZ"(i32 %"arg 116")
  ret i32 %"r 116"
}

define i32 @"?f117@@YAXXZ"(i32 %"arg 117") {
"entry 117":
  %"r 117" = add i32 %"arg 117", 117
  store i32 %"r 117", i32* @"?f117@@YAXXZ.g"
  ret i32 %"r 117"
}

define i32 @"?f118@@YAXXZ"(i32 %"arg 118") {
"entry 118":
  %"r 118" = call i32 @"?f117@@YAXXZ"(i32 %"arg 118")
  ret i32 %"r 118"
}

define i32 @"?f119@@YAXXZ"(i32 %"arg 119") {
"entry 119":
  %"r 119" = add i32 %"arg 119", 119
  ret i32 %"r 119"
}

define i32 @"?f120@@YAXXZ"(i32 %"arg 120") {
"entry 120":
  %"r 120" = call i32 @"?f119@@YAXXZ"(i32 %"arg 120")
  store i32 %"r 120", i32* @"?f120@@YAXXZ.g"
  ret i32 %"r 120"
}

define i32 @"?f121@@YAXXZ"(i32 %"arg 121") {
"entry 121":
  %"r 121" = add i32 %"arg 121", 121
  ret i32 %"r 121"
}

define i32 @"?f122@@YAXXZ"(i32 %"arg 122") {
"entry 122":
  %"r 122" = call i32 @"?f121@@YAXXZ"(i32 %"arg 122")
  ret i32 %"r 122"
}

define i32 @"?f123@@YAXXZ"(i32 %"arg 123") {
"entry 123":
  %"r 123" = add i32 %"arg 123", 123
  store i32 %"r 123", i32* @"?f123@@YAXXZ.g"
  ret i32 %"r 123"
}

define i32 @"?f124@@YAXXZ"(i32 %"arg 124") {
"entry 124":
  %"r 124" = call i32 @"?f123@@YAXXZ"(i32 %"arg 124")
  ret i32 %"r 124"
}

define i32 @"?f125@@YAXXZ"(i32 %"arg 125") {
"entry 125":
  %"r 125" = add i32 %"arg 125", 125
  ret i32 %"r 125"
}

define i32 @"?f126@@YAXXZ"(i32 %"arg 126") {
"entry 126":
  %"r 126" = call i32 @"?f125@@YAXXZ"(i32 %"arg 126")
  store i32 %"r 126", i32* @"?f126@@YAXXZ.g"
  ret i32 %"r 126"
}

define i32 @"?f127@@YAXXZ"(i32 %"arg 127") {
"entry 127":
  %"r 127" = add i32 %"arg 127", 127
  ret i32 %"r 127"
}

define i32 @"?f128@@YAXXZ"(i32 %"arg 128") {
"entry 128":
  %"r 128" = call i32 @"?f127@@YAXXZ"(i32 %"arg 128")
  ret i32 %"r 128"
}

define i32 @"?f129@@YAXXZ"(i32 %"arg 129") {
"entry 129":
  %"r 129" = add i32 %"arg 129", 129
  store i32 %"r 129", i32* @"?f129@@YAXXZ.g"
  ret i32 %"r 129"
}

define i32 @"?f130@@YAXXZ"(i32 %"arg 130") {
"entry 130":
  %"r 130" = call i32 @"?f129@@YAXXZ"(i32 %"arg 130")
  ret i32 %"r 130"
}

define i32 @"?f131@@YAXXZ"(i32 %"arg 131") {
"entry 131":
  %"r 131" = add i32 %"arg 131", 131
  ret i32 %"r 131"
}

define i32 @"?f132@@YAXXZ"(i32 %"arg 132") {
"entry 132":
  %"r 132" = call i32 @"?f131@@YAXXZ"(i32 %"arg 132")
  store i32 %"r 132", i32* @"?f132@@YAXXZ.g"
  ret i32 %"r 132"
}

define i32 @"?f133@@YAXXZ"(i32 %"arg 133") {
"entry 133":
  %"r 133" = add i32 %"arg 133", 133
  ret i32 %"r 133"
}

define i32 @"?f134@@YAXXZ"(i32 %"arg 134") {
"entry 134":
  %"r 134" = call i32 @"?f133@@YAXXZ"(i32 %"arg 134")
  ret i32 %"r 134"
}

define i32 @"?f135@@YAXXZ"(i32 %"arg 135") {
"entry 135":
  %"r 135" = add i32 %"arg 135", 135
  store i32 %"r 135", i32* @"?f135@@YAXXZ.g"
  ret i32 %"r 135"
}

define i32 @"?f136@@YAXXZ"(i32 %"arg 136") {
"entry 136":
  %"r 136" = call i32 @"?f135@@YAXXZ"(i32 %"arg 136")
  ret i32 %"r 136"
}

define i32 @"?f137@@YAXXZ"(i32 %"arg 137") {
"entry 137":
  %"r 137" = add i32 %"arg 137", 137
  ret i32 %"r 137"
}

define i32 @"?f138@@YAXXZ"(i32 %"arg 138") {
"entry 138":
  %"r 138" = call i32 @"?f137@@YAXXZ"(i32 %"arg 138")
  store i32 %"r 138", i32* @"?f138@@YAXXZ.g"
  ret i32 %"r 138"
}

define i32 @"?f139@@YAXXZ"(i32 %"arg 139") {
"entry 139":
  %"r 139" = add i32 %"arg 139", 139
  ret i32 %"r 139"
}

define i32 @"?f140@@YAXXZ"(i32 %"arg 140") {
"entry 140":
  %"r 140" = call i32 @"?f139@@YAXXZ"(i32 %"arg 140")
  ret i32 %"r 140"
}

define i32 @"?f141@@YAXXZ"(i32 %"arg 141") {
"entry 141":
  %"r 141" = add i32 %"arg 141", 141
  store i32 %"r 141", i32* @"?f141@@YAXXZ.g"
  ret i32 %"r 141"
}

define i32 @"?f142@@YAXXZ"(i32 %"arg 142") {
"entry 142":
  %"r 142" = call i32 @"?f141@@YAXXZ"(i32 %"arg 142")
  ret i32 %"r 142"
}

define i32 @"?f143@@YAXXZ"(i32 %"arg 143") {
"entry 143":
  %"r 143" = add i32 %"arg 143", 143
  ret i32 %"r 143"
}

define i32 @"?f144@@YAXXZ"(i32 %"arg 144") {
"entry 144":
  %"r 144" = call i32 @"?f143@@YAXXZ"(i32 %"arg 144")
  store i32 %"r 144", i32* @"?f144@@YAXXZ.g"
  ret i32 %"r 144"
}

define i32 @"?f145@@YAXXZ"(i32 %"arg 145") {
"entry 145":
  %"r 145" = add i32 %"arg 145", 145
  ret i32 %"r 145"
}

define i32 @"?f146@@YAXXZ"(i32 %"arg 146") {
"entry 146":
  %"r 146" = call i32 @"?f145@@YAXXZ"(i32 %"arg 146")
  ret i32 %"r 146"
}

define i32 @"?f147@@YAXXZ"(i32 %"arg 147") {
"entry 147":
  %"r 147" = add i32 %"arg 147", 147
  store i32 %"r 147", i32* @"?f147@@YAXXZ.g"
  ret i32 %"r 147"
}

define i32 @"?f148@@YAXXZ"(i32 %"arg 148") {
"entry 148":
  %"r 148" = call i32 @"?f147@@YAXXZ"(i32 %"arg 148")
  ret i32 %"r 148"
}

define i32 @"?f149@@YAXXZ"(i32 %"arg 149") {
"entry 149":
  %"r 149" = add i32 %"arg 149", 149
  ret i32 %"r 149"
}

define i32 @"?f150@@YAXXZ"(i32 %"arg 150") {
"entry 150":
  %"r 150" = call i32 @"?f149@@YAXXZ"(i32 %"arg 150")
  store i32 %"r 150", i32* @"?f150@@YAXXZ.g"
  ret i32 %"r 150"
}

define i32 @"?f151@@YAXXZ"(i32 %"arg 151") {
"entry 151":
  %"r 151" = add i32 %"arg 151", 151
  ret i32 %"r 151"
}

define i32 @"?f152@@YAXXZ"(i32 %"arg 152") {
"entry 152":
  %"r 152" = call i32 @"?f151@@YAXXZ"(i32 %"arg 152")
  ret i32 %"r 152"
}

define i32 @"?f153@@YAXXZ"(i32 %"arg 153") {
"entry 153":
  %"r 153" = add i32 %"arg 153", 153
  store i32 %"r 153", i32* @"?f153@@YAXXZ.g"
  ret i32 %"r 153"
}

define i32 @"?f154@@YAXXZ"(i32 %"arg 154") {
"entry 154":
  %"r 154" = call i32 @"?f153@@YAXXZ"(i32 %"arg 154")
  ret i32 %"r 154"
}

define i32 @"?f155@@YAXXZ"(i32 %"arg 155") {
"entry 155":
  %"r 155" = add i32 %"arg 155", 155
  ret i32 %"r 155"
}

define i32 @"?f156@@YAXXZ"(i32 %"arg 156") {
"entry 156":
  %"r 156" = call i32 @"?f155@@YAXXZ"(i32 %"arg 156")
  store i32 %"r 156", i32* @"?f156@@YAXXZ.g"
  ret i32 %"r 156"
}

define i32 @"?f157@@YAXXZ"(i32 %"arg 157") {
"entry 157":
  %"r 157" = add i32 %"arg 157", 157
  ret i32 %"r 157"
}

define i32 @"?f158@@YAXXZ"(i32 %"arg 158") {
"entry 158":
  %"r 158" = call i32 @"?f157@@YAXXZ"(i32 %"arg 158")
  ret i32 %"r 158"
}

define i32 @"?f159@@YAXXZ"(i32 %"arg 159") {
"entry 159":
  %"r 159" = add i32 %"arg 159", 159
  store i32 %"r 159", i32* @"?f159@@YAXXZ.g"
  ret i32 %"r 159"
}

define i32 @"?f160@@YAXXZ"(i32 %"arg 160") {
"entry 160":
  %"r 160" = call i32 @"?f159@@YAXXZ"(i32 %"arg 160")
  ret i32 %"r 160"
}

define i32 @"?f161@@YAXXZ"(i32 %"arg 161") {
"entry 161":
  %"r 161" = add i32 %"arg 161", 161
  ret i32 %"r 161"
}

define i32 @"?f162@@YAXXZ"(i32 %"arg 162") {
"entry 162":
  %"r 162" = call i32 @"?f161@@YAXXZ"(i32 %"arg 162")
  store i32 %"r 162", i32* @"?f162@@YAXXZ.g"
  ret i32 %"r 162"
}

define i32 @"?f163@@YAXXZ"(i32 %"arg 163") {
"entry 163":
  %"r 163" = add i32 %"arg 163", 163
  ret i32 %"r 163"
}

define i32 @"?f164@@YAXXZ"(i32 %"arg 164") {
"entry 164":
  %"r 164" = call i32 @"?f163@@YAXXZ"(i32 %"arg 164")
  ret i32 %"r 164"
}

define i32 @"?f165@@YAXXZ"(i32 %"arg 165") {
"entry 165":
  %"r 165" = add i32 %"arg 165", 165
  store i32 %"r 165", i32* @"?f165@@YAXXZ.g"
  ret i32 %"r 165"
}

define i32 @"?f166@@YAXXZ"(i32 %"arg 166") {
"entry 166":
  %"r 166" = call i32 @"?f165@@YAXXZ"(i32 %"arg 166")
  ret i32 %"r 166"
}

define i32 @"?f167@@YAXXZ"(i32 %"arg 167") {
"entry 167":
  %"r 167" = add i32 %"arg 167", 167
  ret i32 %"r 167"
}

define i32 @"?f168@@YAXXZ"(i32 %"arg 168") {
"entry 168":
  %"r 168" = call i32 @"?f167@@YAXXZ"(i32 %"arg 168")
  store i32 %"r 168", i32* @"?f168@@YAXXZ.g"
  ret i32 %"r 168"
}

define i32 @"?f169@@YAXXZ"(i32 %"arg 169") {
"entry 169":
  %"r 169" = add i32 %"arg 169", 169
  ret i32 %"r 169"
}

define i32 @"?f170@@YAXXZ"(i32 %"arg 170") {
"entry 170":
  %"r 170" = call i32 @"?f169@@YAXXZ"(i32 %"arg 170")
  ret i32 %"r 170"
}

define i32 @"?f171@@YAXXZ"(i32 %"arg 171") {
"entry 171":
  %"r 171" = add i32 %"arg 171", 171
  store i32 %"r 171", i32* @"?f171@@YAXXZ.g"
  ret i32 %"r 171"
}

define i32 @"?f172@@YAXXZ"(i32 %"arg 172") {
"entry 172":
  %"r 172" = call i32 @"?f171@@YAXXZ"(i32 %"arg 172")
  ret i32 %"r 172"
}

define i32 @"?f173@@YAXXZ"(i32 %"arg 173") {
"entry 173":
  %"r 173" = add i32 %"arg 173", 173
  ret i32 %"r 173"
}

define i32 @"?f174@@YAXXZ"(i32 %"arg 174") {
"entry 174":
  %"r 174" = call i32 @"?f173@@YAXXZ"(i32 %"arg 174")
  store i32 %"r 174", i32* @"?f174@@YAXXZ.g"
  ret i32 %"r 174"
}

define i32 @"?f175@@YAXXZ"(i32 %"arg 175") {
"entry 175":
  %"r 175" = add i32 %"arg 175", 175
  ret i32 %"r 175"
}

define i32 @"?f176@@YAXXZ"(i32 %"arg 176") {
"entry 176":
  %"r 176" = call i32 @"?f175@@YAXXZ"(i32 %"arg 176")
  ret i32 %"r 176"
}

define i32 @"?f177@@YAXXZ"(i32 %"arg 177") {
"entry 177":
  %"r 177" = add i32 %"arg 177", 177
  store i32 %"r 177", i32* @"?f177@@YAXXZ.g"
  ret i32 %"r 177"
}

define i32 @"?f178@@YAXXZ"(i32 %"arg 178") {
"entry 178":
  %"r 178" = call i32 @"?f177@@YAXXZ"(i32 %"arg 178")
  ret i32 %"r 178"
}

define i32 @"?f179@@YAXXZ"(i32 %"arg 179") {
"entry 179":
  %"r 179" = add i32 %"arg 179", 179
  ret i32 %"r 179"
}

define i32 @"?f180@@YAXXZ"(i32 %"arg 180") {
"entry 180":
  %"r 180" = call i32 @"?f179@@YAXXZ"(i32 %"arg 180")
  store i32 %"r 180", i32* @"?f180@@YAXXZ.g"
  ret i32 %"r 180"
}

define i32 @"?f181@@YAXXZ"(i32 %"arg 181") {
"entry 181":
  %"r 181" = add i32 %"arg 181", 181
  ret i32 %"r 181"
}

define i32 @"?f182@@YAXXZ"(i32 %"arg 182") {
"entry 182":
  %"r 182" = call i32 @"?f181@@YAXXZ"(i32 %"arg 182")
  ret i32 %"r 182"
}

define i32 @"?f183@@YAXXZ"(i32 %"arg 183") {
"entry 183":
  %"r 183" = add i32 %"arg 183", 183
  store i32 %"r 183", i32* @"?f183@@YAXXZ.g"
  ret i32 %"r 183"
}

define i32 @"?f184@@YAXXZ"(i32 %"arg 184") {
"entry 184":
  %"r 184" = call i32 @"?f183@@YAXXZ"(i32 %"arg 184")
  ret i32 %"r 184"
}

define i32 @"?f185@@YAXXZ"(i32 %"arg 185") {
"entry 185":
  %"r 185" = add i32 %"arg 185", 185
  ret i32 %"r 185"
}

define i32 @"?f186@@YAXXZ"(i32 %"arg 186") {
"entry 186":
  %"r 186" = call i32 @"?f185@@YAXXZ"(i32 %"arg 186")
  store i32 %"r 186", i32* @"?f186@@YAXXZ.g"
  ret i32 %"r 186"
}

define i32 @"?f187@@YAXXZ"(i32 %"arg 187") {
"entry 187":
  %"r 187" = add i32 %"arg 187", 187
  ret i32 %"r 187"
}

define i32 @"?f188@@YAXXZ"(i32 %"arg 188") {
"entry 188":
  %"r 188" = call i32 @"?f187@@YAXXZ"(i32 %"arg 188")
  ret i32 %"r 188"
}

define i32 @"?f189@@YAXXZ"(i32 %"arg 189") {
"entry 189":
  %"r 189" = add i32 %"arg 189", 189
  store i32 %"r 189", i32* @"?f189@@YAXXZ.g"
  ret i32 %"r 189"
}

define i32 @"?f190@@YAXXZ"(i32 %"arg 190") {
"entry 190":
  %"r 190" = call i32 @"?f189@@YAXXZ"(i32 %"arg 190")
  ret i32 %"r 190"
}

define i32 @"?f191@@YAXXZ"(i32 %"arg 191") {
"entry 191":
  %"r 191" = add i32 %"arg 191", 191
  ret i32 %"r 191"
}

define i32 @"?f192@@YAXXZ"(i32 %"arg 192") {
"entry 192":
  %"r 192" = call i32 @"?f191@@YAXXZ"(i32 %"arg 192")
  store i32 %"r 192", i32* @"?f192@@YAXXZ.g"
  ret i32 %"r 192"
}

define i32 @"?f193@@YAXXZ"(i32 %"arg 193") {
"entry 193":
  %"r 193" = add i32 %"arg 193", 193
  ret i32 %"r 193"
}

define i32 @"?f194@@YAXXZ"(i32 %"arg 194") {
"entry 194":
  %"r 194" = call i32 @"?f193@@YAXXZ"(i32 %"arg 194")
  ret i32 %"r 194"
}

define i32 @"?f195@@YAXXZ"(i32 %"arg 195") {
"entry 195":
  %"r 195" = add i32 %"arg 195", 195
  store i32 %"r 195", i32* @"?f195@@YAXXZ.g"
  ret i32 %"r 195"
}

define i32 @"?f196@@YAXXZ"(i32 %"arg 196") {
"entry 196":
  %"r 196" = call i32 @"?f195@@YAXXZ"(i32 %"arg 196")
  ret i32 %"r 196"
}

define i32 @"?f197@@YAXXZ"(i32 %"arg 197") {
"entry 197":
  %"r 197" = add i32 %"arg 197", 197
  ret i32 %"r 197"
}

define i32 @"?f198@@YAXXZ"(i32 %"arg 198") {
"entry 198":
  %"r 198" = call i32 @"?f197@@YAXXZ"(i32 %"arg 198")
  store i32 %"r 198", i32* @"?f198@@YAXXZ.g"
  ret i32 %"r 198"
}

define i32 @"?f199@@YAXXZ"(i32 %"arg 199") {
"entry 199":
  %"r 199" = add i32 %"arg 199", 199
  ret i32 %"r 199"
}

define i32 @"?f200@@YAXXZ"(i32 %"arg 200") {
"entry 200":
  %"r 200" = call i32 @"?f199@@YAXXZ"(i32 %"arg 200")
  ret i32 %"r 200"
}

define i32 @"?f201@@YAXXZ"(i32 %"arg 201") {
"entry 201":
  %"r 201" = add i32 %"arg 201", 201
  store i32 %"r 201", i32* @"?f201@@YAXXZ.g"
  ret i32 %"r 201"
}

define i32 @"?f202@@YAXXZ"(i32 %"arg 202") {
"entry 202":
  %"r 202" = call i32 @"?f201@@YAXXZ"(i32 %"arg 202")
  ret i32 %"r 202"
}

define i32 @"?f203@@YAXXZ"(i32 %"arg 203") {
"entry 203":
  %"r 203" = add i32 %"arg 203", 203
  ret i32 %"r 203"
}

define i32 @"?f204@@YAXXZ"(i32 %"arg 204") {
"entry 204":
  %"r 204" = call i32 @"?f203@@YAXXZ"(i32 %"arg 204")
  store i32 %"r 204", i32* @"?f204@@YAXXZ.g"
  ret i32 %"r 204"
}

define i32 @"?f205@@YAXXZ"(i32 %"arg 205") {
"entry 205":
  %"r 205" = add i32 %"arg 205", 205
  ret i32 %"r 205"
}

define i32 @"?f206@@YAXXZ"(i32 %"arg 206") {
"entry 206":
  %"r 206" = call i32 @"?f205@@YAXXZ"(i32 %"arg 206")
  ret i32 %"r 206"
}

define i32 @"?f207@@YAXXZ"(i32 %"arg 207") {
"entry 207":
  %"r 207" = add i32 %"arg 207", 207
  store i32 %"r 207", i32* @"?f207@@YAXXZ.g"
  ret i32 %"r 207"
}

define i32 @"?f208@@YAXXZ"(i32 %"arg 208") {
"entry 208":
  %"r 208" = call i32 @"?f207@@YAXXZ"(i32 %"arg 208")
  ret i32 %"r 208"
}

define i32 @"?f209@@YAXXZ"(i32 %"arg 209") {
"entry 209":
  %"r 209" = add i32 %"arg 209", 209
  ret i32 %"r 209"
}

define i32 @"?f210@@YAXXZ"(i32 %"arg 210") {
"entry 210":
  %"r 210" = call i32 @"?f209@@YAXXZ"(i32 %"arg 210")
  store i32 %"r 210", i32* @"?f210@@YAXXZ.g"
  ret i32 %"r 210"
}

define i32 @"?f211@@YAXXZ"(i32 %"arg 211") {
"entry 211":
  %"r 211" = add i32 %"arg 211", 211
  ret i32 %"r 211"
}

define i32 @"?f212@@YAXXZ"(i32 %"arg 212") {
"entry 212":
  %"r 212" = call i32 @"?f211@@YAXXZ"(i32 %"arg 212")
  ret i32 %"r 212"
}

define i32 @"?f213@@YAXXZ"(i32 %"arg 213") {
"entry 213":
  %"r 213" = add i32 %"arg 213", 213
  store i32 %"r 213", i32* @"?f213@@YAXXZ.g"
  ret i32 %"r 213"
}

define i32 @"?f214@@YAXXZ"(i32 %"arg 214") {
"entry 214":
  %"r 214" = call i32 @"?f213@@YAXXZ"(i32 %"arg 214")
  ret i32 %"r 214"
}

define i32 @"?f215@@YAXXZ"(i32 %"arg 215") {
"entry 215":
  %"r 215" = add i32 %"arg 215", 215
  ret i32 %"r 215"
}

define i32 @"?f216@@YAXXZ"(i32 %"arg 216") {
"entry 216":
  %"r 216" = call i32 @"?f215@@YAXXZ"(i32 %"arg 216")
  store i32 %"r 216", i32* @"?f216@@YAXXZ.g"
  ret i32 %"r 216"
}

define i32 @"?f217@@YAXXZ"(i32 %"arg 217") {
"entry 217":
  %"r 217" = add i32 %"arg 217", 217
  ret i32 %"r 217"
}

define i32 @"?f218@@YAXXZ"(i32 %"arg 218") {
"entry 218":
  %"r 218" = call i32 @"?f217@@YAXXZ"(i32 %"arg 218")
  ret i32 %"r 218"
}

define i32 @"?f219@@YAXXZ"(i32 %"arg 219") {
"entry 219":
  %"r 219" = add i32 %"arg 219", 219
  store i32 %"r 219", i32* @"?f219@@YAXXZ.g"
  ret i32 %"r 219"
}

define i32 @"?f220@@YAXXZ"(i32 %"arg 220") {
"entry 220":
  %"r 220" = call i32 @"?f219@@YAXXZ"(i32 %"arg 220")
  ret i32 %"r 220"
}

define i32 @"?f221@@YAXXZ"(i32 %"arg 221") {
"entry 221":
  %"r 221" = add i32 %"arg 221", 221
  ret i32 %"r 221"
}

define i32 @"?f222@@YAXXZ"(i32 %"arg 222") {
"entry 222":
  %"r 222" = call i32 @"?f221@@YAXXZ"(i32 %"arg 222")
  store i32 %"r 222", i32* @"?f222@@YAXXZ.g"
  ret i32 %"r 222"
}

define i32 @"?f223@@YAXXZ"(i32 %"arg 223") {
"entry 223":
  %"r 223" = add i32 %"arg 223", 223
  ret i32 %"r 223"
}

define i32 @"?f224@@YAXXZ"(i32 %"arg 224") {
"entry 224":
  %"r 224" = call i32 @"?f223@@YAXXZ"(i32 %"arg 224")
  ret i32 %"r 224"
}

define i32 @"?f225@@YAXXZ"(i32 %"arg 225") {
"entry 225":
  %"r 225" = add i32 %"arg 225", 225
  store i32 %"r 225", i32* @"?f225@@YAXXZ.g"
  ret i32 %"r 225"
}

define i32 @"?f226@@YAXXZ"(i32 %"arg 226") {
"entry 226":
  %"r 226" = call i32 @"?f225@@YAXXZ"(i32 %"arg 226")
  ret i32 %"r 226"
}

define i32 @"?f227@@YAXXZ"(i32 %"arg 227") {
"entry 227":
  %"r 227" = add i32 %"arg 227", 227
  ret i32 %"r 227"
}

define i32 @"?f228@@YAXXZ"(i32 %"arg 228") {
"entry 228":
  %"r 228" = call i32 @"?f227@@YAXXZ"(i32 %"arg 228")
  store i32 %"r 228", i32* @"?f228@@YAXXZ.g"
  ret i32 %"r 228"
}

define i32 @"?f229@@YAXXZ"(i32 %"arg 229") {
"entry 229":
  %"r 229" = add i32 %"arg 229", 229
  ret i32 %"r 229"
}

define i32 @"?f230@@YAXXZ"(i32 %"arg 230") {
"entry 230":
  %"r 230" = call i32 @"?f229@@YAXXZ"(i32 %"arg 230")
  ret i32 %"r 230"
}

define i32 @"?f231@@YAXXZ"(i32 %"arg 231") {
"entry 231":
  %"r 231" = add i32 %"arg 231", 231
  store i32 %"r 231", i32* @"?f231@@YAXXZ.g"
  ret i32 %"r 231"
}

define i32 @"?f232@@YAXXZ"(i32 %"arg 232") {
"entry 232":
  %"r 232" = call i32 @"?f231@@YAXXZ"(i32 %"arg 232")
  ret i32 %"r 232"
}

define i32 @"?f233@@YAXXZ"(i32 %"arg 233") {
"entry 233":
  %"r 233" = add i32 %"arg 233", 233
  ret i32 %"r 233"
}

define i32 @"?f234@@YAXXZ"(i32 %"arg 234") {
"entry 234":
  %"r 234" = call i32 @"?f233@@YAXXZ"(i32 %"arg 234")
  store i32 %"r 234", i32* @"?f234@@YAXXZ.g"
  ret i32 %"r 234"
}

define i32 @"?f235@@YAXXZ"(i32 %"arg 235") {
"entry 235":
  %"r 235" = add i32 %"arg 235", 235
  ret i32 %"r 235"
}

define i32 @"?f236@@YAXXZ"(i32 %"arg 236") {
"entry 236":
  %"r 236" = call i32 @"?f235@@YAXXZ"(i32 %"arg 236")
  ret i32 %"r 236"
}

define i32 @"?f237@@YAXXZ"(i32 %"arg 237") {
"entry 237":
  %"r 237" = add i32 %"arg 237", 237
  store i32 %"r 237", i32* @"?f237@@YAXXZ.g"
  ret i32 %"r 237"
}

define i32 @"?f238@@YAXXZ"(i32 %"arg 238") {
"entry 238":
  %"r 238" = call i32 @"?f237@@YAXXZ"(i32 %"arg 238")
  ret i32 %"r 238"
}

define i32 @"?f239@@YAXXZ"(i32 %"arg 239") {
"entry 239":
  %"r 239" = add i32 %"arg 239", 239
  ret i32 %"r 239"
}

define i32 @"?f240@@YAXXZ"(i32 %"arg 240") {
"entry 240":
  %"r 240" = call i32 @"?f239@@YAXXZ"(i32 %"arg 240")
  store i32 %"r 240", i32* @"?f240@@YAXXZ.g"
  ret i32 %"r 240"
}

define i32 @"?f241@@YAXXZ"(i32 %"arg 241") {
"entry 241":
  %"r 241" = add i32 %"arg 241", 241
  ret i32 %"r 241"
}

define i32 @"?f242@@YAXXZ"(i32 %"arg 242") {
"entry 242":
  %"r 242" = call i32 @"?f241@@YAXXZ"(i32 %"arg 242")
  ret i32 %"r 242"
}

define i32 @"?f243@@YAXXZ"(i32 %"arg 243") {
"entry 243":
  %"r 243" = add i32 %"arg 243", 243
  store i32 %"r 243", i32* @"?f243@@YAXXZ.g"
  ret i32 %"r 243"
}

define i32 @"?f244@@YAXXZ"(i32 %"arg 244") {
"entry 244":
  %"r 244" = call i32 @"?f243@@YAXXZ"(i32 %"arg 244")
  ret i32 %"r 244"
}

define i32 @"?f245@@YAXXZ"(i32 %"arg 245") {
"entry 245":
  %"r 245" = add i32 %"arg 245", 245
  ret i32 %"r 245"
}

define i32 @"?f246@@YAXXZ"(i32 %"arg 246") {
"entry 246":
  %"r 246" = call i32 @"?f245@@YAXXZ"(i32 %"arg 246")
  store i32 %"r 246", i32* @"?f246@@YAXXZ.g"
  ret i32 %"r 246"
}

define i32 @"?f247@@YAXXZ"(i32 %"arg 247") {
"entry 247":
  %"r 247" = add i32 %"arg 247", 247
  ret i32 %"r 247"
}

define i32 @"?f248@@YAXXZ"(i32 %"arg 248") {
"entry 248":
  %"r 248" = call i32 @"?f247@@YAXXZ"(i32 %"arg 248")
  ret i32 %"r 248"
}

define i32 @"?f249@@YAXXZ"(i32 %"arg 249") {
"entry 249":
  %"r 249" = add i32 %"arg 249", 249
  store i32 %"r 249", i32* @"?f249@@YAXXZ.g"
  ret i32 %"r 249"
}

define i32 @"?f250@@YAXXZ"(i32 %"arg 250") {
"entry 250":
  %"r 250" = call i32 @"?f249@@YAXXZ"(i32 %"arg 250")
  ret i32 %"r 250"
}

define i32 @"?f251@@YAXXZ"(i32 %"arg 251") {
"entry 251":
  %"r 251" = add i32 %"arg 251", 251
  ret i32 %"r 251"
}

define i32 @"?f252@@YAXXZ"(i32 %"arg 252") {
"entry 252":
  %"r 252" = call i32 @"?f251@@YAXXZ"(i32 %"arg 252")
  store i32 %"r 252", i32* @"?f252@@YAXXZ.g"
  ret i32 %"r 252"
}

define i32 @"?f253@@YAXXZ"(i32 %"arg 253") {
"entry 253":
  %"r 253" = add i32 %"arg 253", 253
  ret i32 %"r 253"
}

define i32 @"?f254@@YAXXZ"(i32 %"arg 254") {
"entry 254":
  %"r 254" = call i32 @"?f253@@YAXXZ"(i32 %"arg 254")
  ret i32 %"r 254"
}

define i32 @"?f255@@YAXXZ"(i32 %"arg 255") {
"entry 255":
  %"r 255" = add i32 %"arg 255", 255
  store i32 %"r 255", i32* @"?f255@@YAXXZ.g"
  ret i32 %"r 255"
}

define i32 @"?f256@@YAXXZ"(i32 %"arg 256") {
"entry 256":
  %"r 256" = call i32 @"?f255@@YAXXZ"(i32 %"arg 256")
  ret i32 %"r 256"
}

define i32 @"?f257@@YAXXZ"(i32 %"arg 257") {
"entry 257":
  %"r 257" = add i32 %"arg 257", 257
  ret i32 %"r 257"
}

define i32 @"?f258@@YAXXZ"(i32 %"arg 258") {
"entry 258":
  %"r 258" = call i32 @"?f257@@YAXXZ"(i32 %"arg 258")
  store i32 %"r 258", i32* @"?f258@@YAXXZ.g"
  ret i32 %"r 258"
}

define i32 @"?f259@@YAXXZ"(i32 %"arg 259") {
"entry 259":
  %"r 259" = add i32 %"arg 259", 259
  ret i32 %"r 259"
}

define i32 @"?f260@@YAXXZ"(i32 %"arg 260") {
"entry 260":
  %"r 260" = call i32 @"?f259@@YAXXZ"(i32 %"arg 260")
  ret i32 %"r 260"
}

define i32 @"?f261@@YAXXZ"(i32 %"arg 261") {
"entry 261":
  %"r 261" = add i32 %"arg 261", 261
  store i32 %"r 261", i32* @"?f261@@YAXXZ.g"
  ret i32 %"r 261"
}

define i32 @"?f262@@YAXXZ"(i32 %"arg 262") {
"entry 262":
  %"r 262" = call i32 @"?f261@@YAXXZ"(i32 %"arg 262")
  ret i32 %"r 262"
}

define i32 @"?f263@@YAXXZ"(i32 %"arg 263") {
"entry 263":
  %"r 263" = add i32 %"arg 263", 263
  ret i32 %"r 263"
}

define i32 @"?f264@@YAXXZ"(i32 %"arg 264") {
"entry 264":
  %"r 264" = call i32 @"?f263@@YAXXZ"(i32 %"arg 264")
  store i32 %"r 264", i32* @"?f264@@YAXXZ.g"
  ret i32 %"r 264"
}

define i32 @"?f265@@YAXXZ"(i32 %"arg 265") {
"entry 265":
  %"r 265" = add i32 %"arg 265", 265
  ret i32 %"r 265"
}

define i32 @"?f266@@YAXXZ"(i32 %"arg 266") {
"entry 266":
  %"r 266" = call i32 @"?f265@@YAXXZ"(i32 %"arg 266")
  ret i32 %"r 266"
}

define i32 @"?f267@@YAXXZ"(i32 %"arg 267") {
"entry 267":
  %"r 267" = add i32 %"arg 267", 267
  store i32 %"r 267", i32* @"?f267@@YAXXZ.g"
  ret i32 %"r 267"
}

define i32 @"?f268@@YAXXZ"(i32 %"arg 268") {
"entry 268":
  %"r 268" = call i32 @"?f267@@YAXXZ"(i32 %"arg 268")
  ret i32 %"r 268"
}

define i32 @"?f269@@YAXXZ"(i32 %"arg 269") {
"entry 269":
  %"r 269" = add i32 %"arg 269", 269
  ret i32 %"r 269"
}

define i32 @"?f270@@YAXXZ"(i32 %"arg 270") {
"entry 270":
  %"r 270" = call i32 @"?f269@@YAXXZ"(i32 %"arg 270")
  store i32 %"r 270", i32* @"?f270@@YAXXZ.g"
  ret i32 %"r 270"
}

define i32 @"?f271@@YAXXZ"(i32 %"arg 271") {
"entry 271":
  %"r 271" = add i32 %"arg 271", 271
  ret i32 %"r 271"
}

define i32 @"?f272@@YAXXZ"(i32 %"arg 272") {
"entry 272":
  %"r 272" = call i32 @"?f271@@YAXXZ"(i32 %"arg 272")
  ret i32 %"r 272"
}

define i32 @"?f273@@YAXXZ"(i32 %"arg 273") {
"entry 273":
  %"r 273" = add i32 %"arg 273", 273
  store i32 %"r 273", i32* @"?f273@@YAXXZ.g"
  ret i32 %"r 273"
}

define i32 @"?f274@@YAXXZ"(i32 %"arg 274") {
"entry 274":
  %"r 274" = call i32 @"?f273@@YAXXZ"(i32 %"arg 274")
  ret i32 %"r 274"
}

define i32 @"?f275@@YAXXZ"(i32 %"arg 275") {
"entry 275":
  %"r 275" = add i32 %"arg 275", 275
  ret i32 %"r 275"
}

define i32 @"?f276@@YAXXZ"(i32 %"arg 276") {
"entry 276":
  %"r 276" = call i32 @"?f275@@YAXXZ"(i32 %"arg 276")
  store i32 %"r 276", i32* @"?f276@@YAXXZ.g"
  ret i32 %"r 276"
}

define i32 @"?f277@@YAXXZ"(i32 %"arg 277") {
"entry 277":
  %"r 277" = add i32 %"arg 277", 277
  ret i32 %"r 277"
}

define i32 @"?f278@@YAXXZ"(i32 %"arg 278") {
"entry 278":
  %"r 278" = call i32 @"?f277@@YAXXZ"(i32 %"arg 278")
  ret i32 %"r 278"
}

define i32 @"?f279@@YAXXZ"(i32 %"arg 279") {
"entry 279":
  %"r 279" = add i32 %"arg 279", 279
  store i32 %"r 279", i32* @"?f279@@YAXXZ.g"
  ret i32 %"r 279"
}

define i32 @"?f280@@YAXXZ"(i32 %"arg 280") {
"entry 280":
  %"r 280" = call i32 @"?f279@@YAXXZ"(i32 %"arg 280")
  ret i32 %"r 280"
}

define i32 @"?f281@@YAXXZ"(i32 %"arg 281") {
"entry 281":
  %"r 281" = add i32 %"arg 281", 281
  ret i32 %"r 281"
}

define i32 @"?f282@@YAXXZ"(i32 %"arg 282") {
"entry 282":
  %"r 282" = call i32 @"?f281@@YAXXZ"(i32 %"arg 282")
  store i32 %"r 282", i32* @"?f282@@YAXXZ.g"
  ret i32 %"r 282"
}

define i32 @"?f283@@YAXXZ"(i32 %"arg 283") {
"entry 283":
  %"r 283" = add i32 %"arg 283", 283
  ret i32 %"r 283"
}

define i32 @"?f284@@YAXXZ"(i32 %"arg 284") {
"entry 284":
  %"r 284" = call i32 @"?f283@@YAXXZ"(i32 %"arg 284")
  ret i32 %"r 284"
}

define i32 @"?f285@@YAXXZ"(i32 %"arg 285") {
"entry 285":
  %"r 285" = add i32 %"arg 285", 285
  store i32 %"r 285", i32* @"?f285@@YAXXZ.g"
  ret i32 %"r 285"
}

define i32 @"?f286@@YAXXZ"(i32 %"arg 286") {
"entry 286":
  %"r 286" = call i32 @"?f285@@YAXXZ"(i32 %"arg 286")
  ret i32 %"r 286"
}

define i32 @"?f287@@YAXXZ"(i32 %"arg 287") {
"entry 287":
  %"r 287" = add i32 %"arg 287", 287
  ret i32 %"r 287"
}

define i32 @"?f288@@YAXXZ"(i32 %"arg 288") {
"entry 288":
  %"r 288" = call i32 @"?f287@@YAXXZ"(i32 %"arg 288")
  store i32 %"r 288", i32* @"?f288@@YAXXZ.g"
  ret i32 %"r 288"
}

define i32 @"?f289@@YAXXZ"(i32 %"arg 289") {
"entry 289":
  %"r 289" = add i32 %"arg 289", 289
  ret i32 %"r 289"
}

define i32 @"?f290@@YAXXZ"(i32 %"arg 290") {
"entry 290":
  %"r 290" = call i32 @"?f289@@YAXXZ"(i32 %"arg 290")
  ret i32 %"r 290"
}

define i32 @"?f291@@YAXXZ"(i32 %"arg 291") {
"entry 291":
  %"r 291" = add i32 %"arg 291", 291
  store i32 %"r 291", i32* @"?f291@@YAXXZ.g"
  ret i32 %"r 291"
}

define i32 @"?f292@@YAXXZ"(i32 %"arg 292") {
"entry 292":
  %"r 292" = call i32 @"?f291@@YAXXZ"(i32 %"arg 292")
  ret i32 %"r 292"
}

define i32 @"?f293@@YAXXZ"(i32 %"arg 293") {
"entry 293":
  %"r 293" = add i32 %"arg 293", 293
  ret i32 %"r 293"
}

define i32 @"?f294@@YAXXZ"(i32 %"arg 294") {
"entry 294":
  %"r 294" = call i32 @"?f293@@YAXXZ"(i32 %"arg 294")
  store i32 %"r 294", i32* @"?f294@@YAXXZ.g"
  ret i32 %"r 294"
}

define i32 @"?f295@@YAXXZ"(i32 %"arg 295") {
"entry 295":
  %"r 295" = add i32 %"arg 295", 295
  ret i32 %"r 295"
}

define i32 @"?f296@@YAXXZ"(i32 %"arg 296") {
"entry 296":
  %"r 296" = call i32 @"?f295@@YAXXZ"(i32 %"arg 296")
  ret i32 %"r 296"
}

define i32 @"?f297@@YAXXZ"(i32 %"arg 297") {
"entry 297":
  %"r 297" = add i32 %"arg 297", 297
  store i32 %"r 297", i32* @"?f297@@YAXXZ.g"
  ret i32 %"r 297"
}

define i32 @"?f298@@YAXXZ"(i32 %"arg 298") {
"entry 298":
  %"r 298" = call i32 @"?f297@@YAXXZ"(i32 %"arg 298")
  ret i32 %"r 298"
}

define i32 @"?f299@@YAXXZ"(i32 %"arg 299") {
"entry 299":
  %"r 299" = add i32 %"arg 299", 299
  ret i32 %"r 299"
}

define i32 @"has space 0"(i32 %"arg 300") {
"entry 300":
  %"r 300" = call i32 @"?f299@@YAXXZ"(i32 %"arg 300")
  store i32 %"r 300", i32* @"has space 0.g"
  ret i32 %"r 300"
}

define i32 @"has space 1"(i32 %"arg 301") {
"entry 301":
  %"r 301" = add i32 %"arg 301", 301
  ret i32 %"r 301"
}

define i32 @"has space 2"(i32 %"arg 302") {
"entry 302":
  %"r 302" = call i32 @"has space 1"(i32 %"arg 302")
  ret i32 %"r 302"
}

define i32 @"has space 3"(i32 %"arg 303") {
"entry 303":
  %"r 303" = add i32 %"arg 303", 303
  store i32 %"r 303", i32* @"has space 3.g"
  ret i32 %"r 303"
}

define i32 @"has space 4"(i32 %"arg 304") {
"entry 304":
  %"r 304" = call i32 @"has space 3"(i32 %"arg 304")
  ret i32 %"r 304"
}

define i32 @"has space 5"(i32 %"arg 305") {
"entry 305":
  %"r 305" = add i32 %"arg 305", 305
  ret i32 %"r 305"
}

define i32 @"has space 6"(i32 %"arg 306") {
"entry 306":
  %"r 306" = call i32 @"has space 5"(i32 %"arg 306")
  store i32 %"r 306", i32* @"has space 6.g"
  ret i32 %"r 306"
}

define i32 @"has space 7"(i32 %"arg 307") {
"entry 307":
  %"r 307" = add i32 %"arg 307", 307
  ret i32 %"r 307"
}

define i32 @"has space 8"(i32 %"arg 308") {
"entry 308":
  %"r 308" = call i32 @"has space 7"(i32 %"arg 308")
  ret i32 %"r 308"
}

define i32 @"has space 9"(i32 %"arg 309") {
"entry 309":
  %"r 309" = add i32 %"arg 309", 309
  store i32 %"r 309", i32* @"has space 9.g"
  ret i32 %"r 309"
}

define i32 @"has space 10"(i32 %"arg 310") {
"entry 310":
  %"r 310" = call i32 @"has space 9"(i32 %"arg 310")
  ret i32 %"r 310"
}

define i32 @"has space 11"(i32 %"arg 311") {
"entry 311":
  %"r 311" = add i32 %"arg 311", 311
  ret i32 %"r 311"
}

define i32 @"has space 12"(i32 %"arg 312") {
"entry 312":
  %"r 312" = call i32 @"has space 11"(i32 %"arg 312")
  store i32 %"r 312", i32* @"has space 12.g"
  ret i32 %"r 312"
}

define i32 @"has space 13"(i32 %"arg 313") {
"entry 313":
  %"r 313" = add i32 %"arg 313", 313
  ret i32 %"r 313"
}

define i32 @"has space 14"(i32 %"arg 314") {
"entry 314":
  %"r 314" = call i32 @"has space 13"(i32 %"arg 314")
  ret i32 %"r 314"
}

define i32 @"has space 15"(i32 %"arg 315") {
"entry 315":
  %"r 315" = add i32 %"arg 315", 315
  store i32 %"r 315", i32* @"has space 15.g"
  ret i32 %"r 315"
}

define i32 @"has space 16"(i32 %"arg 316") {
"entry 316":
  %"r 316" = call i32 @"has space 15"(i32 %"arg 316")
  ret i32 %"r 316"
}

define i32 @"has space 17"(i32 %"arg 317") {
"entry 317":
  %"r 317" = add i32 %"arg 317", 317
  ret i32 %"r 317"
}

define i32 @"has space 18"(i32 %"arg 318") {
"entry 318":
  %"r 318" = call i32 @"has space 17"(i32 %"arg 318")
  store i32 %"r 318", i32* @"has space 18.g"
  ret i32 %"r 318"
}

define i32 @"has space 19"(i32 %"arg 319") {
"entry 319":
  %"r 319" = add i32 %"arg 319", 319
  ret i32 %"r 319"
}

define i32 @"has space 20"(i32 %"arg 320") {
"entry 320":
  %"r 320" = call i32 @"has space 19"(i32 %"arg 320")
  ret i32 %"r 320"
}

define i32 @"has space 21"(i32 %"arg 321") {
"entry 321":
  %"r 321" = add i32 %"arg 321", 321
  store i32 %"r 321", i32* @"has space 21.g"
  ret i32 %"r 321"
}

define i32 @"has space 22"(i32 %"arg 322") {
"entry 322":
  %"r 322" = call i32 @"has space 21"(i32 %"arg 322")
  ret i32 %"r 322"
}

define i32 @"has space 23"(i32 %"arg 323") {
"entry 323":
  %"r 323" = add i32 %"arg 323", 323
  ret i32 %"r 323"
}

define i32 @"has space 24"(i32 %"arg 324") {
"entry 324":
  %"r 324" = call i32 @"has space 23"(i32 %"arg 324")
  store i32 %"r 324", i32* @"has space 24.g"
  ret i32 %"r 324"
}

define i32 @"has space 25"(i32 %"arg 325") {
"entry 325":
  %"r 325" = add i32 %"arg 325", 325
  ret i32 %"r 325"
}

define i32 @"has space 26"(i32 %"arg 326") {
"entry 326":
  %"r 326" = call i32 @"has space 25"(i32 %"arg 326")
  ret i32 %"r 326"
}

define i32 @"has space 27"(i32 %"arg 327") {
"entry 327":
  %"r 327" = add i32 %"arg 327", 327
  store i32 %"r 327", i32* @"has space 27.g"
  ret i32 %"r 327"
}

define i32 @"has space 28"(i32 %"arg 328") {
"entry 328":
  %"r 328" = call i32 @"has space 27"(i32 %"arg 328")
  ret i32 %"r 328"
}

define i32 @"has space 29"(i32 %"arg 329") {
"entry 329":
  %"r 329" = add i32 %"arg 329", 329
  ret i32 %"r 329"
}

define i32 @"has space 30"(i32 %"arg 330") {
"entry 330":
  %"r 330" = call i32 @"has space 29"(i32 %"arg 330")
  store i32 %"r 330", i32* @"has space 30.g"
  ret i32 %"r 330"
}

define i32 @"has space 31"(i32 %"arg 331") {
"entry 331":
  %"r 331" = add i32 %"arg 331", 331
  ret i32 %"r 331"
}

define i32 @"has space 32"(i32 %"arg 332") {
"entry 332":
  %"r 332" = call i32 @"has space 31"(i32 %"arg 332")
  ret i32 %"r 332"
}

define i32 @"has space 33"(i32 %"arg 333") {
"entry 333":
  %"r 333" = add i32 %"arg 333", 333
  store i32 %"r 333", i32* @"has space 33.g"
  ret i32 %"r 333"
}

define i32 @"has space 34"(i32 %"arg 334") {
"entry 334":
  %"r 334" = call i32 @"has space 33"(i32 %"arg 334")
  ret i32 %"r 334"
}

define i32 @"has space 35"(i32 %"arg 335") {
"entry 335":
  %"r 335" = add i32 %"arg 335", 335
  ret i32 %"r 335"
}

define i32 @"has space 36"(i32 %"arg 336") {
"entry 336":
  %"r 336" = call i32 @"has space 35"(i32 %"arg 336")
  store i32 %"r 336", i32* @"has space 36.g"
  ret i32 %"r 336"
}

define i32 @"has space 37"(i32 %"arg 337") {
"entry 337":
  %"r 337" = add i32 %"arg 337", 337
  ret i32 %"r 337"
}

define i32 @"has space 38"(i32 %"arg 338") {
"entry 338":
  %"r 338" = call i32 @"has space 37"(i32 %"arg 338")
  ret i32 %"r 338"
}

define i32 @"has space 39"(i32 %"arg 339") {
"entry 339":
  %"r 339" = add i32 %"arg 339", 339
  store i32 %"r 339", i32* @"has space 39.g"
  ret i32 %"r 339"
}

define i32 @"has space 40"(i32 %"arg 340") {
"entry 340":
  %"r 340" = call i32 @"has space 39"(i32 %"arg 340")
  ret i32 %"r 340"
}

define i32 @"has space 41"(i32 %"arg 341") {
"entry 341":
  %"r 341" = add i32 %"arg 341", 341
  ret i32 %"r 341"
}

define i32 @"has space 42"(i32 %"arg 342") {
"entry 342":
  %"r 342" = call i32 @"has space 41"(i32 %"arg 342")
  store i32 %"r 342", i32* @"has space 42.g"
  ret i32 %"r 342"
}

define i32 @"has space 43"(i32 %"arg 343") {
"entry 343":
  %"r 343" = add i32 %"arg 343", 343
  ret i32 %"r 343"
}

define i32 @"has space 44"(i32 %"arg 344") {
"entry 344":
  %"r 344" = call i32 @"has space 43"(i32 %"arg 344")
  ret i32 %"r 344"
}

define i32 @"has space 45"(i32 %"arg 345") {
"entry 345":
  %"r 345" = add i32 %"arg 345", 345
  store i32 %"r 345", i32* @"has space 45.g"
  ret i32 %"r 345"
}

define i32 @"has space 46"(i32 %"arg 346") {
"entry 346":
  %"r 346" = call i32 @"has space 45"(i32 %"arg 346")
  ret i32 %"r 346"
}

define i32 @"has space 47"(i32 %"arg 347") {
"entry 347":
  %"r 347" = add i32 %"arg 347", 347
  ret i32 %"r 347"
}

define i32 @"has space 48"(i32 %"arg 348") {
"entry 348":
  %"r 348" = call i32 @"has space 47"(i32 %"arg 348")
  store i32 %"r 348", i32* @"has space 48.g"
  ret i32 %"r 348"
}

define i32 @"has space 49"(i32 %"arg 349") {
"entry 349":
  %"r 349" = add i32 %"arg 349", 349
  ret i32 %"r 349"
}

define i32 @"has space 50"(i32 %"arg 350") {
"entry 350":
  %"r 350" = call i32 @"has space 49"(i32 %"arg 350")
  ret i32 %"r 350"
}

define i32 @"has space 51"(i32 %"arg 351") {
"entry 351":
  %"r 351" = add i32 %"arg 351", 351
  store i32 %"r 351", i32* @"has space 51.g"
  ret i32 %"r 351"
}

define i32 @"has space 52"(i32 %"arg 352") {
"entry 352":
  %"r 352" = call i32 @"has space 51"(i32 %"arg 352")
  ret i32 %"r 352"
}

define i32 @"has space 53"(i32 %"arg 353") {
"entry 353":
  %"r 353" = add i32 %"arg 353", 353
  ret i32 %"r 353"
}

define i32 @"has space 54"(i32 %"arg 354") {
"entry 354":
  %"r 354" = call i32 @"has space 53"(i32 %"arg 354")
  store i32 %"r 354", i32* @"has space 54.g"
  ret i32 %"r 354"
}

define i32 @"has space 55"(i32 %"arg 355") {
"entry 355":
  %"r 355" = add i32 %"arg 355", 355
  ret i32 %"r 355"
}

define i32 @"has space 56"(i32 %"arg 356") {
"entry 356":
  %"r 356" = call i32 @"has space 55"(i32 %"arg 356")
  ret i32 %"r 356"
}

define i32 @"has space 57"(i32 %"arg 357") {
"entry 357":
  %"r 357" = add i32 %"arg 357", 357
  store i32 %"r 357", i32* @"has space 57.g"
  ret i32 %"r 357"
}

define i32 @"has space 58"(i32 %"arg 358") {
"entry 358":
  %"r 358" = call i32 @"has space 57"(i32 %"arg 358")
  ret i32 %"r 358"
}

define i32 @"has space 59"(i32 %"arg 359") {
"entry 359":
  %"r 359" = add i32 %"arg 359", 359
  ret i32 %"r 359"
}

define i32 @"caf\C3\A9.0"(i32 %"arg 360") {
"entry 360":
  %"r 360" = call i32 @"has space 59"(i32 %"arg 360")
  store i32 %"r 360", i32* @"caf\C3\A9.0.g"
  ret i32 %"r 360"
}

define i32 @"caf\C3\A9.1"(i32 %"arg 361") {
"entry 361":
  %"r 361" = add i32 %"arg 361", 361
  ret i32 %"r 361"
}

define i32 @"caf\C3\A9.2"(i32 %"arg 362") {
"entry 362":
  %"r 362" = call i32 @"caf\C3\A9.1"(i32 %"arg 362")
  ret i32 %"r 362"
}

define i32 @"caf\C3\A9.3"(i32 %"arg 363") {
"entry 363":
  %"r 363" = add i32 %"arg 363", 363
  store i32 %"r 363", i32* @"caf\C3\A9.3.g"
  ret i32 %"r 363"
}

define i32 @"caf\C3\A9.4"(i32 %"arg 364") {
"entry 364":
  %"r 364" = call i32 @"caf\C3\A9.3"(i32 %"arg 364")
  ret i32 %"r 364"
}

define i32 @"caf\C3\A9.5"(i32 %"arg 365") {
"entry 365":
  %"r 365" = add i32 %"arg 365", 365
  ret i32 %"r 365"
}

define i32 @"caf\C3\A9.6"(i32 %"arg 366") {
"entry 366":
  %"r 366" = call i32 @"caf\C3\A9.5"(i32 %"arg 366")
  store i32 %"r 366", i32* @"caf\C3\A9.6.g"
  ret i32 %"r 366"
}

define i32 @"caf\C3\A9.7"(i32 %"arg 367") {
"entry 367":
  %"r 367" = add i32 %"arg 367", 367
  ret i32 %"r 367"
}

define i32 @"caf\C3\A9.8"(i32 %"arg 368") {
"entry 368":
  %"r 368" = call i32 @"caf\C3\A9.7"(i32 %"arg 368")
  ret i32 %"r 368"
}

define i32 @"caf\C3\A9.9"(i32 %"arg 369") {
"entry 369":
  %"r 369" = add i32 %"arg 369", 369
  store i32 %"r 369", i32* @"caf\C3\A9.9.g"
  ret i32 %"r 369"
}

define i32 @"caf\C3\A9.10"(i32 %"arg 370") {
"entry 370":
  %"r 370" = call i32 @"caf\C3\A9.9"(i32 %"arg 370")
  ret i32 %"r 370"
}

define i32 @"caf\C3\A9.11"(i32 %"arg 371") {
"entry 371":
  %"r 371" = add i32 %"arg 371", 371
  ret i32 %"r 371"
}

define i32 @"caf\C3\A9.12"(i32 %"arg 372") {
"entry 372":
  %"r 372" = call i32 @"caf\C3\A9.11"(i32 %"arg 372")
  store i32 %"r 372", i32* @"caf\C3\A9.12.g"
  ret i32 %"r 372"
}

define i32 @"caf\C3\A9.13"(i32 %"arg 373") {
"entry 373":
  %"r 373" = add i32 %"arg 373", 373
  ret i32 %"r 373"
}

define i32 @"caf\C3\A9.14"(i32 %"arg 374") {
"entry 374":
  %"r 374" = call i32 @"caf\C3\A9.13"(i32 %"arg 374")
  ret i32 %"r 374"
}

define i32 @"caf\C3\A9.15"(i32 %"arg 375") {
"entry 375":
  %"r 375" = add i32 %"arg 375", 375
  store i32 %"r 375", i32* @"caf\C3\A9.15.g"
  ret i32 %"r 375"
}

define i32 @"caf\C3\A9.16"(i32 %"arg 376") {
"entry 376":
  %"r 376" = call i32 @"caf\C3\A9.15"(i32 %"arg 376")
  ret i32 %"r 376"
}

define i32 @"caf\C3\A9.17"(i32 %"arg 377") {
"entry 377":
  %"r 377" = add i32 %"arg 377", 377
  ret i32 %"r 377"
}

define i32 @"caf\C3\A9.18"(i32 %"arg 378") {
"entry 378":
  %"r 378" = call i32 @"caf\C3\A9.17"(i32 %"arg 378")
  store i32 %"r 378", i32* @"caf\C3\A9.18.g"
  ret i32 %"r 378"
}

define i32 @"caf\C3\A9.19"(i32 %"arg 379") {
"entry 379":
  %"r 379" = add i32 %"arg 379", 379
  ret i32 %"r 379"
}

define i32 @"caf\C3\A9.20"(i32 %"arg 380") {
"entry 380":
  %"r 380" = call i32 @"caf\C3\A9.19"(i32 %"arg 380")
  ret i32 %"r 380"
}

define i32 @"caf\C3\A9.21"(i32 %"arg 381") {
"entry 381":
  %"r 381" = add i32 %"arg 381", 381
  store i32 %"r 381", i32* @"caf\C3\A9.21.g"
  ret i32 %"r 381"
}

define i32 @"caf\C3\A9.22"(i32 %"arg 382") {
"entry 382":
  %"r 382" = call i32 @"caf\C3\A9.21"(i32 %"arg 382")
  ret i32 %"r 382"
}

define i32 @"caf\C3\A9.23"(i32 %"arg 383") {
"entry 383":
  %"r 383" = add i32 %"arg 383", 383
  ret i32 %"r 383"
}

define i32 @"caf\C3\A9.24"(i32 %"arg 384") {
"entry 384":
  %"r 384" = call i32 @"caf\C3\A9.23"(i32 %"arg 384")
  store i32 %"r 384", i32* @"caf\C3\A9.24.g"
  ret i32 %"r 384"
}

define i32 @"caf\C3\A9.25"(i32 %"arg 385") {
"entry 385":
  %"r 385" = add i32 %"arg 385", 385
  ret i32 %"r 385"
}

define i32 @"caf\C3\A9.26"(i32 %"arg 386") {
"entry 386":
  %"r 386" = call i32 @"caf\C3\A9.25"(i32 %"arg 386")
  ret i32 %"r 386"
}

define i32 @"caf\C3\A9.27"(i32 %"arg 387") {
"entry 387":
  %"r 387" = add i32 %"arg 387", 387
  store i32 %"r 387", i32* @"caf\C3\A9.27.g"
  ret i32 %"r 387"
}

define i32 @"caf\C3\A9.28"(i32 %"arg 388") {
"entry 388":
  %"r 388" = call i32 @"caf\C3\A9.27"(i32 %"arg 388")
  ret i32 %"r 388"
}

define i32 @"caf\C3\A9.29"(i32 %"arg 389") {
"entry 389":
  %"r 389" = add i32 %"arg 389", 389
  ret i32 %"r 389"
}

define i32 @"caf\C3\A9.30"(i32 %"arg 390") {
"entry 390":
  %"r 390" = call i32 @"caf\C3\A9.29"(i32 %"arg 390")
  store i32 %"r 390", i32* @"caf\C3\A9.30.g"
  ret i32 %"r 390"
}

define i32 @"caf\C3\A9.31"(i32 %"arg 391") {
"entry 391":
  %"r 391" = add i32 %"arg 391", 391
  ret i32 %"r 391"
}

define i32 @"caf\C3\A9.32"(i32 %"arg 392") {
"entry 392":
  %"r 392" = call i32 @"caf\C3\A9.31"(i32 %"arg 392")
  ret i32 %"r 392"
}

define i32 @"caf\C3\A9.33"(i32 %"arg 393") {
"entry 393":
  %"r 393" = add i32 %"arg 393", 393
  store i32 %"r 393", i32* @"caf\C3\A9.33.g"
  ret i32 %"r 393"
}

define i32 @"caf\C3\A9.34"(i32 %"arg 394") {
"entry 394":
  %"r 394" = call i32 @"caf\C3\A9.33"(i32 %"arg 394")
  ret i32 %"r 394"
}

define i32 @"caf\C3\A9.35"(i32 %"arg 395") {
"entry 395":
  %"r 395" = add i32 %"arg 395", 395
  ret i32 %"r 395"
}

define i32 @"caf\C3\A9.36"(i32 %"arg 396") {
"entry 396":
  %"r 396" = call i32 @"caf\C3\A9.35"(i32 %"arg 396")
  store i32 %"r 396", i32* @"caf\C3\A9.36.g"
  ret i32 %"r 396"
}

define i32 @"caf\C3\A9.37"(i32 %"arg 397") {
"entry 397":
  %"r 397" = add i32 %"arg 397", 397
  ret i32 %"r 397"
}

define i32 @"caf\C3\A9.38"(i32 %"arg 398") {
"entry 398":
  %"r 398" = call i32 @"caf\C3\A9.37"(i32 %"arg 398")
  ret i32 %"r 398"
}

define i32 @"caf\C3\A9.39"(i32 %"arg 399") {
"entry 399":
  %"r 399" = add i32 %"arg 399", 399
  store i32 %"r 399", i32* @"caf\C3\A9.39.g"
  ret i32 %"r 399"
}

define i32 @"q\22uote\22.0"(i32 %"arg 400") {
"entry 400":
  %"r 400" = call i32 @"caf\C3\A9.39"(i32 %"arg 400")
  ret i32 %"r 400"
}

define i32 @"q\22uote\22.1"(i32 %"arg 401") {
"entry 401":
  %"r 401" = add i32 %"arg 401", 401
  ret i32 %"r 401"
}

define i32 @"q\22uote\22.2"(i32 %"arg 402") {
"entry 402":
  %"r 402" = call i32 @"q\22uote\22.1"(i32 %"arg 402")
  store i32 %"r 402", i32* @"q\22uote\22.2.g"
  ret i32 %"r 402"
}

define i32 @"q\22uote\22.3"(i32 %"arg 403") {
"entry 403":
  %"r 403" = add i32 %"arg 403", 403
  ret i32 %"r 403"
}

define i32 @"q\22uote\22.4"(i32 %"arg 404") {
"entry 404":
  %"r 404" = call i32 @"q\22uote\22.3"(i32 %"arg 404")
  ret i32 %"r 404"
}

define i32 @"q\22uote\22.5"(i32 %"arg 405") {
"entry 405":
  %"r 405" = add i32 %"arg 405", 405
  store i32 %"r 405", i32* @"q\22uote\22.5.g"
  ret i32 %"r 405"
}

define i32 @"q\22uote\22.6"(i32 %"arg 406") {
"entry 406":
  %"r 406" = call i32 @"q\22uote\22.5"(i32 %"arg 406")
  ret i32 %"r 406"
}

define i32 @"q\22uote\22.7"(i32 %"arg 407") {
"entry 407":
  %"r 407" = add i32 %"arg 407", 407
  ret i32 %"r 407"
}

define i32 @"q\22uote\22.8"(i32 %"arg 408") {
"entry 408":
  %"r 408" = call i32 @"q\22uote\22.7"(i32 %"arg 408")
  store i32 %"r 408", i32* @"q\22uote\22.8.g"
  ret i32 %"r 408"
}

define i32 @"q\22uote\22.9"(i32 %"arg 409") {
"entry 409":
  %"r 409" = add i32 %"arg 409", 409
  ret i32 %"r 409"
}

define i32 @"q\22uote\22.10"(i32 %"arg 410") {
"entry 410":
  %"r 410" = call i32 @"q\22uote\22.9"(i32 %"arg 410")
  ret i32 %"r 410"
}

define i32 @"q\22uote\22.11"(i32 %"arg 411") {
"entry 411":
  %"r 411" = add i32 %"arg 411", 411
  store i32 %"r 411", i32* @"q\22uote\22.11.g"
  ret i32 %"r 411"
}

define i32 @"q\22uote\22.12"(i32 %"arg 412") {
"entry 412":
  %"r 412" = call i32 @"q\22uote\22.11"(i32 %"arg 412")
  ret i32 %"r 412"
}

define i32 @"q\22uote\22.13"(i32 %"arg 413") {
"entry 413":
  %"r 413" = add i32 %"arg 413", 413
  ret i32 %"r 413"
}

define i32 @"q\22uote\22.14"(i32 %"arg 414") {
"entry 414":
  %"r 414" = call i32 @"q\22uote\22.13"(i32 %"arg 414")
  store i32 %"r 414", i32* @"q\22uote\22.14.g"
  ret i32 %"r 414"
}

define i32 @"q\22uote\22.15"(i32 %"arg 415") {
"entry 415":
  %"r 415" = add i32 %"arg 415", 415
  ret i32 %"r 415"
}

define i32 @"q\22uote\22.16"(i32 %"arg 416") {
"entry 416":
  %"r 416" = call i32 @"q\22uote\22.15"(i32 %"arg 416")
  ret i32 %"r 416"
}

define i32 @"q\22uote\22.17"(i32 %"arg 417") {
"entry 417":
  %"r 417" = add i32 %"arg 417", 417
  store i32 %"r 417", i32* @"q\22uote\22.17.g"
  ret i32 %"r 417"
}

define i32 @"q\22uote\22.18"(i32 %"arg 418") {
"entry 418":
  %"r 418" = call i32 @"q\22uote\22.17"(i32 %"arg 418")
  ret i32 %"r 418"
}

define i32 @"q\22uote\22.19"(i32 %"arg 419") {
"entry 419":
  %"r 419" = add i32 %"arg 419", 419
  ret i32 %"r 419"
}
