; metadata IDs with gaps (LLVM allows any numbering); a reference to an ID that
; falls into a gap is undefined.
@g = global i32 0, !a !2, !b !40

define void @f() !x !7 {
  ret void, !y !11
}

!named = !{!2, !7, !40}
!other = !{!11}

!2 = !{!"two", !7}
!7 = distinct !{!"seven", !11, !40}
!11 = !{!"eleven"}
!40 = !{!"forty", !2}
