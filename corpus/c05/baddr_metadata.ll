; blockaddress constants on both sides of the module: in a global initialiser and function bodies,
; and in metadata definitions (what -g builds of code with computed goto contain)
@tbl = global [12 x i8*] [i8* blockaddress(@f, %b0), i8* blockaddress(@f, %b1), i8* blockaddress(@f, %b2), i8* blockaddress(@f, %b3), i8* blockaddress(@f, %b4), i8* blockaddress(@f, %b5), i8* blockaddress(@f, %b0), i8* blockaddress(@f, %b1), i8* blockaddress(@f, %b2), i8* blockaddress(@f, %b3), i8* blockaddress(@f, %b4), i8* blockaddress(@f, %b5)]
@one = global i8* blockaddress(@g, %exit)
define i32 @f(i32 %x) {
entry:
  %p = getelementptr [12 x i8*], [12 x i8*]* @tbl, i32 0, i32 %x
  %t = load i8*, i8** %p
  indirectbr i8* %t, [label %b0, label %b1, label %b2, label %b3, label %b4, label %b5]
b0:
  ret i32 0
b1:
  ret i32 1
b2:
  ret i32 2
b3:
  ret i32 3
b4:
  ret i32 4
b5:
  ret i32 5
}
define i8* @g() {
entry:
  br label %exit
exit:
  ret i8* blockaddress(@f, %b3), !note !20
}
!0 = !{i8* blockaddress(@f, %b0)}
!1 = !{i8* blockaddress(@f, %b5)}
!2 = !{i8* blockaddress(@f, %b4)}
!3 = !{i8* blockaddress(@f, %b3)}
!4 = !{i8* blockaddress(@f, %b2)}
!5 = !{i8* blockaddress(@f, %b1)}
!6 = !{i8* blockaddress(@f, %b0)}
!7 = !{i8* blockaddress(@f, %b5)}
!8 = !{i8* blockaddress(@f, %b4)}
!9 = !{i8* blockaddress(@f, %b3)}
!10 = !{i8* blockaddress(@f, %b2)}
!11 = !{i8* blockaddress(@f, %b1)}
!20 = !{i8* blockaddress(@g, %exit), i8* blockaddress(@f, %b0)}
!labels = !{!0, !1, !2, !3, !4, !5, !6, !7, !8, !9, !10, !11, !20}
