; module-level use-list orders of globals, a function and constants of them
@counter = global i32 1
@alias.a = global i32* @counter
@alias.b = global i32* @counter
@alias.c = global i32* @counter
@table = global [2 x i32 (i32)*] [i32 (i32)* @callee, i32 (i32)* @callee]

define i32 @callee(i32 %v) {
entry:
  %l = load i32, i32* @counter
  %s = add i32 %l, %v
  ret i32 %s
}

uselistorder i32* @counter, { 3, 1, 0, 2 }
uselistorder i32 (i32)* @callee, { 1, 0 }
