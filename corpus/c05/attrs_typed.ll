; Attributes that carry types or numbers, on parameters, returns, functions and call sites; indirect
; symbols with every optional field; exception-pad arguments; vector getelementptr; debug-info nodes
; with their less common fields. Every %T / @g / !N here is a reference site of its own.
%T = type { i32, i64 }
%U = type { %T*, [2 x i8] }

@g = global %T zeroinitializer
@h = thread_local(localdynamic) global i32 0, align 8

@a1 = dso_local unnamed_addr alias %T, %T* @g
@a2 = weak_odr hidden alias i32, getelementptr inbounds (%T, %T* @g, i32 0, i32 0)
@a3 = internal thread_local alias i32, i32* @h
@i1 = dso_preemptable local_unnamed_addr ifunc void (), void ()* ()* @resolver
@i2 = weak protected ifunc i32 (i32), i32 (i32)* ()* @resolver2

define internal void ()* @resolver() {
  ret void ()* @callee
}

define internal i32 (i32)* @resolver2() {
  ret i32 (i32)* @id
}

define void @callee() {
  ret void
}

define i32 @id(i32 returned %x) {
  ret i32 %x
}

declare void @byval_user(%T* byval(%T) align 8, %U* byref(%U), %T* inalloca(%T))
declare void @sret_user(%T* sret(%T) noalias nocapture align 4 dereferenceable(16), i8* dereferenceable_or_null(8) nonnull)
declare dereferenceable(16) %T* @ret_attrs(i64 zeroext, i32 signext, i8* readonly, i8* writeonly, i8* nest)
declare noalias nonnull dereferenceable_or_null(4) i8* @ret_attrs2(i32 inreg, %T* swiftself, i8**)
declare void @prealloc_user(%T* preallocated(%T))
declare token @llvm.call.preallocated.setup(i32)
declare i8* @llvm.call.preallocated.arg(token, i32)

define void @fn_attrs() alignstack(16) vscale_range(1,4) uwtable "no-frame-pointer-elim"="true" "probe-stack" nounwind readnone {
  ret void
}

define i8* @fn_attrs2(i32 %n, i32 %m) allocsize(0,1) noinline optnone sspstrong {
  ret i8* null
}

define void @callsites(%T* %p, %U* %q, i8* %r, i8** %e) personality i32 (...)* @__gxx_personality_v0 {
entry:
  call void @byval_user(%T* byval(%T) align 8 %p, %U* byref(%U) %q, %T* inalloca(%T) %p)
  call void @sret_user(%T* sret(%T) align 4 %p, i8* dereferenceable_or_null(8) %r)
  %ra = call dereferenceable(16) %T* @ret_attrs(i64 zeroext 1, i32 signext 2, i8* readonly %r, i8* writeonly %r, i8* nest %r)
  %rb = call noalias i8* @ret_attrs2(i32 inreg 1, %T* swiftself %p, i8** %e) #0
  %tok = call token @llvm.call.preallocated.setup(i32 1)
  %arg = call i8* @llvm.call.preallocated.arg(token %tok, i32 0) preallocated(%T)
  %argT = bitcast i8* %arg to %T*
  call void @prealloc_user(%T* preallocated(%T) %argT) [ "preallocated"(token %tok) ]
  %ld = load %T, %T* %p, align 4
  %v = getelementptr %T, <2 x %T*> <%T* @g, %T* @g>, <2 x i64> <i64 0, i64 1>, i32 1
  %v2 = getelementptr inbounds %U, %U* %q, <4 x i32> zeroinitializer, i32 1, <4 x i64> <i64 0, i64 1, i64 0, i64 1>
  invoke void @callee() to label %ok unwind label %pad
ok:
  ret void
pad:
  %cs = catchswitch within none [label %handler] unwind label %cleanup
handler:
  %cp = catchpad within %cs [%T* @g, i32 64, i8* %r, metadata !50]
  call void @callee() [ "funclet"(token %cp) ]
  catchret from %cp to label %ok
cleanup:
  %cl = cleanuppad within none [i32 7, %T* %p]
  cleanupret from %cl unwind to caller
}

declare i32 @__gxx_personality_v0(...)

attributes #0 = { nounwind "call-attr"="x" }

!llvm.dbg.cu = !{!0}
!llvm.module.flags = !{!3}
!keep = !{!10, !20, !30, !40, !50}

!0 = distinct !DICompileUnit(language: DW_LANG_C_plus_plus_14, file: !1, producer: "hand", isOptimized: true, flags: "-O2", runtimeVersion: 2, splitDebugFilename: "x.dwo", emissionKind: LineTablesOnly, enums: !2, retainedTypes: !2, globals: !4, imports: !2, dwoId: 42, splitDebugInlining: false, debugInfoForProfiling: true, nameTableKind: None, rangesBaseAddress: true, sysroot: "/", sdk: "sdk")
!1 = !DIFile(filename: "attrs.cpp", directory: "/tmp", source: "int x;")
!2 = !{}
!3 = !{i32 2, !"Debug Info Version", i32 3}
!4 = !{!5}
!5 = !DIGlobalVariableExpression(var: !6, expr: !DIExpression())
!6 = distinct !DIGlobalVariable(name: "g", linkageName: "_Z1g", scope: !0, file: !1, line: 3, type: !10, isLocal: false, isDefinition: true, declaration: !7, templateParams: !8, align: 64, annotations: !9)
!7 = !DIDerivedType(tag: DW_TAG_member, name: "g", scope: !10, file: !1, line: 2, baseType: !11, size: 32, align: 32, offset: 0, flags: DIFlagStaticMember | DIFlagPublic, extraData: i32 5, annotations: !9)
!8 = !{!12, !13}
!9 = !{!14}
!10 = distinct !DICompositeType(tag: DW_TAG_class_type, name: "T", scope: !0, file: !1, line: 1, baseType: !11, size: 96, align: 32, offset: 8, flags: DIFlagTypePassByValue | DIFlagNonTrivial, elements: !15, runtimeLang: DW_LANG_C_plus_plus, vtableHolder: !10, templateParams: !8, identifier: "_ZTS1T", annotations: !9)
!11 = !DIBasicType(name: "int", size: 32, align: 32, encoding: DW_ATE_signed, flags: DIFlagBigEndian)
!12 = !DITemplateTypeParameter(name: "X", type: !11, defaulted: true)
!13 = !DITemplateValueParameter(tag: DW_TAG_GNU_template_template_param, name: "V", type: !11, defaulted: false, value: i32 7)
!14 = !{!"note", !"value"}
!15 = !{!7, !17, !18}
!16 = !DILocalVariable(name: "assoc", arg: 1, scope: !20, file: !1, line: 9, type: !11, flags: DIFlagArtificial | DIFlagObjectPointer, align: 32, annotations: !9)
!17 = !DIEnumerator(name: "E", value: 18446744073709551615, isUnsigned: true)
!18 = !DIDerivedType(tag: DW_TAG_inheritance, scope: !10, baseType: !10, flags: DIFlagVirtual, extraData: i32 0)
!20 = distinct !DISubprogram(name: "callsites", linkageName: "_Z9callsites", scope: !10, file: !1, line: 9, type: !21, scopeLine: 9, containingType: !10, virtuality: DW_VIRTUALITY_virtual, virtualIndex: 1, thisAdjustment: 8, flags: DIFlagPrototyped | DIFlagAllCallsDescribed, spFlags: DISPFlagLocalToUnit | DISPFlagDefinition | DISPFlagOptimized, unit: !0, templateParams: !8, declaration: !22, retainedNodes: !23, thrownTypes: !26, annotations: !9)
!21 = !DISubroutineType(flags: DIFlagLValueReference, cc: DW_CC_nocall, types: !24)
!22 = !DISubprogram(name: "callsites", scope: !10, file: !1, line: 9, type: !21, spFlags: 0)
!23 = !{!16, !25}
!24 = !{null, !11, !10}
!26 = !{!10}
!25 = !DILabel(scope: !20, name: "again", file: !1, line: 11)
!30 = !DINamespace(name: "ns", scope: !0, exportSymbols: true)
!40 = !DILexicalBlock(scope: !20, file: !1, line: 10, column: 3)
!50 = !DILocation(line: 10, column: 5, scope: !40, inlinedAt: !51, isImplicitCode: true)
!51 = distinct !DILocation(line: 20, column: 1, scope: !20)
