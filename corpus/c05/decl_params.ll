; A declaration with named parameters: the names are not indexed as locals (there
; is no body), yet they must be unique.
declare i32 @named_params(i32 %left, i32 %right)

define i32 @caller(i32 %x) {
  %r = call i32 @named_params(i32 %x, i32 1)
  ret i32 %r
}
