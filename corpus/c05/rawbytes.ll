; quoted names that carry both a backslash escape and raw bytes that are not UTF-8
; (the "do not mangle" prefix \01 in front of a Latin-1 name)
$"\01grpé" = comdat any
%"\01tyèpe" = type { i32 }
@"\01café" = global i32 1, comdat($"\01grpé")
@"\01thé" = global %"\01tyèpe" zeroinitializer
@"user" = global i32* @"\01café"
define i32 @"\01føø"(i32 %"\01ärg") {
"\01blöck":
  %"\01väl" = load i32, i32* @"\01café"
  %s = add i32 %"\01väl", %"\01ärg"
  br label %"\01näxt"
"\01näxt":
  %c = call i32 @"\01føø"(i32 %s)
  ret i32 %c
}
