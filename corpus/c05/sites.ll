; one module with as many different kinds of reference sites as possible.
%pair = type { i32, %node* }
%node = type { %pair, [2 x %node*], void (%pair*)* }
%vt = type <{ i8, %pair }>

$grp = comdat any
$solo = comdat largest
$own_name = comdat any
$tables = comdat largest

@counter = global i32 0, comdat($grp), !info !1
@table = global [2 x i32*] [i32* @counter, i32* getelementptr (%pair, %pair* @apair, i32 0, i32 0)]
@apair = global %pair { i32 3, %node* @anode }
@anode = global %node zeroinitializer
@packed = global %vt <{ i8 1, %pair { i32 4, %node* null } }>
@fptr = global void (%pair*)* @use_pair
@sel = global i32* select (i1 icmp eq (i32* @counter, i32* null), i32* @counter, i32* bitcast (%pair* @apair to i32*))
@jump = global i8* blockaddress(@dispatch, %case_b)
@cnt_alias = alias i32, i32* @counter
@res_ifunc = ifunc void (%pair*), void (%pair*)* ()* @pick

declare i32 @__personality(...)
declare void @llvm.dbg.value(metadata, metadata, metadata)
declare void @may_throw() #0
; a function in a comdat that is NOT the one named like the function (which exists too)
define void @own_name() comdat($tables) {
  ret void
}
; a declaration that carries a metadata attachment and whose header refers to a
; global (prefix data) and to a named type (byval)
declare !info !1 void @decl_with_attachment(%pair* byval(%pair) %p) prefix i32* @counter
; a declaration with named parameters (their names must still be unique)
declare i32 @named_params(i32 %left, i32 %right, i8* %buf)

define void (%pair*)* @pick() {
  ret void (%pair*)* @use_pair
}

define void @use_pair(%pair* %p) comdat($solo) prefix i32 7 prologue i8* bitcast (i32* @counter to i8*) !dbg !7 {
entry:
  %slot = alloca %pair, align 8
  %fld = getelementptr inbounds %pair, %pair* %p, i32 0, i32 0
  %val = load i32, i32* %fld, !tbaa !3
  %cast = bitcast %pair* %p to %vt*
  %nodeptr = getelementptr %pair, %pair* %p, i32 0, i32 1
  %nd = load %node*, %node** %nodeptr
  call void @llvm.dbg.value(metadata i32 %val, metadata !9, metadata !DIExpression()), !dbg !10
  store i32 %val, i32* @cnt_alias
  ret void
}

define i32 @dispatch(i32 %x, i8* %where) personality i32 (...)* @__personality {
start:
  %c = icmp eq i32 %x, 0
  br i1 %c, label %case_a, label %sw

sw:
  switch i32 %x, label %case_b [
    i32 1, label %case_a
    i32 2, label %case_c
  ]

case_a:
  indirectbr i8* %where, [label %case_b, label %case_c]

case_b:
  invoke void @may_throw() to label %case_c unwind label %lp

case_c:
  %r = phi i32 [ 1, %sw ], [ 2, %case_a ], [ 3, %case_b ]
  %f = load void (%pair*)*, void (%pair*)** @fptr
  call void %f(%pair* @apair)
  %t = tail call i32 @dispatch(i32 %r, i8* blockaddress(@dispatch, %case_a))
  ret i32 %t

lp:
  %lpv = landingpad { i8*, i32 } catch i8* bitcast (i32* @counter to i8*)
  resume { i8*, i32 } %lpv

  uselistorder i32 %x, { 1, 0 }
}

define void @seh() personality i32 (...)* @__personality {
entry:
  invoke void @may_throw() to label %done unwind label %dispatchblk

dispatchblk:
  %cs = catchswitch within none [label %handler] unwind label %cleanup

handler:
  %cp = catchpad within %cs [i8* null]
  catchret from %cp to label %done

cleanup:
  %clp = cleanuppad within none []
  cleanupret from %clp unwind to caller

done:
  ret void
}

define i32 @named_invoke(i32 %a, i32, i32 %c) personality i32 (...)* @__personality {
entry:
  %sum = add i32 %a, %0
  %res = invoke i32 @dispatch(i32 %sum, i8* null) to label %ok unwind label %bad

ok:
  %twice = add i32 %res, %c
  ret i32 %twice

bad:
  %lp2 = landingpad { i8*, i32 } cleanup
  resume { i8*, i32 } %lp2
}

define void @unused_invoke_result(i32 %a) personality i32 (...)* @__personality {
entry:
  %first = add i32 %a, 1
  %second = invoke i32 @dispatch(i32 %first, i8* null) to label %fine unwind label %broken

fine:
  ret void

broken:
  %lp3 = landingpad { i8*, i32 } cleanup
  resume { i8*, i32 } %lp3
}

declare void @bundle_callee(i32)

define i32 @bundles_and_callbr(i32 %x, i8* %p) {
entry:
  %inc = add i32 %x, 1
  call void @bundle_callee(i32 %inc) [ "deopt"(i32 %x, i8* %p), "tag"(i32 %inc) ], !annot !{!1, !2}
  callbr void asm "", "r,X"(i32 %inc, i8* blockaddress(@bundles_and_callbr, %indirect)) to label %fallthrough [label %indirect]

fallthrough:
  ret i32 %inc

indirect:
  ret i32 %x
}

declare void @prealloc_callee(%pair*)

define void @typed_attributes(%pair* %arg) preallocated(%pair) {
entry:
  call void @prealloc_callee(%pair* %arg)
  ret void
}

define i32 @numbered(i32, i32) {
  %3 = add i32 %0, %1
  %4 = mul i32 %3, %3
  %5 = sub i32 %4, %0
  %6 = xor i32 %5, %1
  %7 = and i32 %6, %3
  %8 = or i32 %7, %4
  ret i32 %8
}

define i32 @small_numbered(i32) {
  %2 = add i32 %0, 1
  ret i32 %2
}

uselistorder_bb @dispatch, %case_c, { 2, 0, 1 }

attributes #0 = { nounwind preallocated(%vt) }

!llvm.dbg.cu = !{!4}
!llvm.module.flags = !{!0}
!extra = !{!1, !2, !3}

!0 = !{i32 2, !"Debug Info Version", i32 3}
!1 = !{!"info", !2}
!2 = distinct !{!2, !1}
!3 = !{!11, !11, i64 0}
!4 = distinct !DICompileUnit(language: DW_LANG_C99, file: !5, producer: "x", isOptimized: false, runtimeVersion: 0, emissionKind: FullDebug, enums: !6)
!5 = !DIFile(filename: "s.c", directory: "/")
!6 = !{}
!7 = distinct !DISubprogram(name: "use_pair", scope: !5, file: !5, line: 1, type: !8, scopeLine: 1, spFlags: DISPFlagDefinition, unit: !4, retainedNodes: !6)
!8 = !DISubroutineType(types: !6)
!9 = !DILocalVariable(name: "val", scope: !7, file: !5, line: 2, type: !12)
!10 = !DILocation(line: 2, column: 1, scope: !7)
!11 = !{!"int", !13, i64 0}
!12 = !DIBasicType(name: "int", size: 32, encoding: DW_ATE_signed)
!13 = !{!"root"}
