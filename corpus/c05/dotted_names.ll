; names with separators in them: a function and a block of it spell, put together,
; what another function and a block of that one spell (dispatch + op.sub / dispatch.op + sub)
%pair.first = type { i32, i8* }
%pair = type { %pair.first, i32 }
$grp.one = comdat any
@dispatch.tbl = global [3 x i8*] [i8* blockaddress(@dispatch, %op.add), i8* blockaddress(@dispatch, %op.sub), i8* blockaddress(@dispatch, %op_mul)]
@dispatch.op.tbl = global [2 x i8*] [i8* blockaddress(@dispatch.op, %add), i8* blockaddress(@dispatch_op, %neg)], comdat($grp.one)
@cfg.value = global %pair zeroinitializer

define i32 @dispatch(i8* %t, i32 %a.x, i32 %a.y) {
entry:
  indirectbr i8* %t, [label %op.add, label %op.sub, label %op_mul]
op.add:
  %r.add = add i32 %a.x, %a.y
  ret i32 %r.add
op.sub:
  %r.sub = sub i32 %a.x, %a.y
  ret i32 %r.sub
op_mul:
  %r_mul = mul i32 %a.x, %a.y
  ret i32 %r_mul
}

define i32 @dispatch.op(i8* %t, i32 %x) {
entry:
  indirectbr i8* %t, [label %add]
add:
  %p = getelementptr %pair, %pair* @cfg.value, i32 0, i32 1
  %v = load i32, i32* %p
  %s = add i32 %v, %x
  ret i32 %s
}

define i32 @dispatch_op(i8* %t) {
entry:
  indirectbr i8* %t, [label %neg]
neg:
  %c = call i32 @dispatch.op(i8* blockaddress(@dispatch.op, %add), i32 1)
  %d = call i32 @dispatch(i8* blockaddress(@dispatch, %op.sub), i32 %c, i32 2)
  ret i32 %d
}

uselistorder_bb @dispatch, %op.sub, { 1, 0 }
