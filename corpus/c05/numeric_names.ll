; Quoted names made of digits: they are NAMES ("42" is not the number 42, and "042" is neither),
; for types, globals and comdats alike.
%"42" = type { i32, i8 }
%"7" = type { %"42", %"42"* }
%0 = type { %"7" }

$"13" = comdat any

@"5" = global %"42" zeroinitializer, comdat($"13")
@"11" = global %"7" zeroinitializer
@0 = global %0 zeroinitializer
@user = global [2 x %"42"*] [%"42"* @"5", %"42"* @"5"]

define i32 @"21"(i32 %three, %"42"* %eight) {
l17:
  %four = add i32 %three, 1
  %six = getelementptr %"42", %"42"* %eight, i32 0, i32 0
  br label %l19

l19:
  %two = phi i32 [ %four, %l17 ]
  ret i32 %two
}

define i32 @caller() {
  %1 = call i32 @"21"(i32 1, %"42"* @"5")
  ret i32 %1
}

!nm = !{!0}
!0 = !{%"42"* @"5", i32 (i32, %"42"*)* @"21"}
