; Unnamed value, global and block number 0, each with uses: a spelling that is a NAME but looks
; like the number 0 (a minus sign in front, or the empty quoted name) must not be bound to them.
@0 = global i32 7
@p = global i32* @0

define i32 @f(i32) {
  %r = add i32 %0, 1
  ret i32 %r
}

define void @g() {
  br label %1

1:
  br label %2

2:
  br label %1
}
