; a named type defined as another named type (one level), used by a global.
%inner = type { i32 }
%other = type { i64, %inner* }
%alias = type %inner
%alias2 = type %other

@g = global i32 0
@h = global %inner zeroinitializer
