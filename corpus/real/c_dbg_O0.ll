; ModuleID = 'a.c'
source_filename = "a.c"
target datalayout = "e-m:e-p270:32:32-p271:32:32-p272:64:64-i64:64-f80:128-n8:16:32:64-S128"
target triple = "x86_64-pc-linux-gnu"

%struct.__va_list_tag = type { i32, i32, i8*, i8* }
%struct.node = type { %struct.node*, i32 (%struct.node*, i32)*, %struct.point, %union.u, i32, %struct.bits }
%struct.point = type { i32, i32 }
%union.u = type { i32 }
%struct.bits = type { i16, [2 x i8] }

@g_arr = dso_local global [4 x i32] [i32 1, i32 2, i32 3, i32 4], align 16, !dbg !0
@.str = private unnamed_addr constant [6 x i8] c"hello\00", align 1
@msg = dso_local global i8* getelementptr inbounds ([6 x i8], [6 x i8]* @.str, i32 0, i32 0), align 8, !dbg !15
@tls_v = dso_local thread_local global i32 3, align 4, !dbg !19
@walk.calls = internal global i32 0, align 4, !dbg !22
@counter = internal global i32 0, align 4, !dbg !58

; Function Attrs: noinline nounwind optnone uwtable
define dso_local i32 @sum(i32 noundef %0, ...) #0 !dbg !69 {
  %2 = alloca i32, align 4
  %3 = alloca [1 x %struct.__va_list_tag], align 16
  %4 = alloca i32, align 4
  %5 = alloca i32, align 4
  %6 = alloca i32, align 4
  store i32 %0, i32* %2, align 4
  call void @llvm.dbg.declare(metadata i32* %2, metadata !72, metadata !DIExpression()), !dbg !73
  call void @llvm.dbg.declare(metadata [1 x %struct.__va_list_tag]* %3, metadata !74, metadata !DIExpression()), !dbg !87
  %7 = getelementptr inbounds [1 x %struct.__va_list_tag], [1 x %struct.__va_list_tag]* %3, i64 0, i64 0, !dbg !88
  %8 = bitcast %struct.__va_list_tag* %7 to i8*, !dbg !88
  call void @llvm.va_start(i8* %8), !dbg !88
  call void @llvm.dbg.declare(metadata i32* %4, metadata !89, metadata !DIExpression()), !dbg !90
  store i32 0, i32* %4, align 4, !dbg !90
  call void @llvm.dbg.declare(metadata i32* %5, metadata !91, metadata !DIExpression()), !dbg !93
  store i32 0, i32* %5, align 4, !dbg !93
  br label %9, !dbg !94

9:                                                ; preds = %35, %1
  %10 = load i32, i32* %5, align 4, !dbg !95
  %11 = load i32, i32* %2, align 4, !dbg !97
  %12 = icmp slt i32 %10, %11, !dbg !98
  br i1 %12, label %13, label %38, !dbg !99

13:                                               ; preds = %9
  call void @llvm.dbg.declare(metadata i32* %6, metadata !100, metadata !DIExpression()), !dbg !102
  %14 = getelementptr inbounds [1 x %struct.__va_list_tag], [1 x %struct.__va_list_tag]* %3, i64 0, i64 0, !dbg !103
  %15 = getelementptr inbounds %struct.__va_list_tag, %struct.__va_list_tag* %14, i32 0, i32 0, !dbg !103
  %16 = load i32, i32* %15, align 16, !dbg !103
  %17 = icmp ule i32 %16, 40, !dbg !103
  br i1 %17, label %18, label %24, !dbg !103

18:                                               ; preds = %13
  %19 = getelementptr inbounds %struct.__va_list_tag, %struct.__va_list_tag* %14, i32 0, i32 3, !dbg !103
  %20 = load i8*, i8** %19, align 16, !dbg !103
  %21 = getelementptr i8, i8* %20, i32 %16, !dbg !103
  %22 = bitcast i8* %21 to i32*, !dbg !103
  %23 = add i32 %16, 8, !dbg !103
  store i32 %23, i32* %15, align 16, !dbg !103
  br label %29, !dbg !103

24:                                               ; preds = %13
  %25 = getelementptr inbounds %struct.__va_list_tag, %struct.__va_list_tag* %14, i32 0, i32 2, !dbg !103
  %26 = load i8*, i8** %25, align 8, !dbg !103
  %27 = bitcast i8* %26 to i32*, !dbg !103
  %28 = getelementptr i8, i8* %26, i32 8, !dbg !103
  store i8* %28, i8** %25, align 8, !dbg !103
  br label %29, !dbg !103

29:                                               ; preds = %24, %18
  %30 = phi i32* [ %22, %18 ], [ %27, %24 ], !dbg !103
  %31 = load i32, i32* %30, align 4, !dbg !103
  store i32 %31, i32* %6, align 4, !dbg !102
  %32 = load i32, i32* %6, align 4, !dbg !104
  %33 = load i32, i32* %4, align 4, !dbg !105
  %34 = add nsw i32 %33, %32, !dbg !105
  store i32 %34, i32* %4, align 4, !dbg !105
  br label %35, !dbg !106

35:                                               ; preds = %29
  %36 = load i32, i32* %5, align 4, !dbg !107
  %37 = add nsw i32 %36, 1, !dbg !107
  store i32 %37, i32* %5, align 4, !dbg !107
  br label %9, !dbg !108, !llvm.loop !109

38:                                               ; preds = %9
  %39 = getelementptr inbounds [1 x %struct.__va_list_tag], [1 x %struct.__va_list_tag]* %3, i64 0, i64 0, !dbg !112
  %40 = bitcast %struct.__va_list_tag* %39 to i8*, !dbg !112
  call void @llvm.va_end(i8* %40), !dbg !112
  %41 = load i32, i32* %4, align 4, !dbg !113
  ret i32 %41, !dbg !114
}

; Function Attrs: nofree nosync nounwind readnone speculatable willreturn
declare void @llvm.dbg.declare(metadata, metadata, metadata) #1

; Function Attrs: nofree nosync nounwind willreturn
declare void @llvm.va_start(i8*) #2

; Function Attrs: nofree nosync nounwind willreturn
declare void @llvm.va_end(i8*) #2

; Function Attrs: noinline nounwind optnone uwtable
define dso_local i32 @walk(%struct.node* noundef %0, i32 noundef %1) #0 !dbg !24 {
  %3 = alloca %struct.node*, align 8
  %4 = alloca i32, align 4
  %5 = alloca i32, align 4
  %6 = alloca i32, align 4
  store %struct.node* %0, %struct.node** %3, align 8
  call void @llvm.dbg.declare(metadata %struct.node** %3, metadata !115, metadata !DIExpression()), !dbg !116
  store i32 %1, i32* %4, align 4
  call void @llvm.dbg.declare(metadata i32* %4, metadata !117, metadata !DIExpression()), !dbg !118
  %7 = load i32, i32* @walk.calls, align 4, !dbg !119
  %8 = add nsw i32 %7, 1, !dbg !119
  store i32 %8, i32* @walk.calls, align 4, !dbg !119
  call void @llvm.dbg.declare(metadata i32* %5, metadata !120, metadata !DIExpression()), !dbg !121
  store i32 0, i32* %5, align 4, !dbg !121
  br label %9, !dbg !122

9:                                                ; preds = %63, %2
  call void @llvm.dbg.label(metadata !123), !dbg !124
  br label %10, !dbg !125

10:                                               ; preds = %55, %9
  %11 = load %struct.node*, %struct.node** %3, align 8, !dbg !126
  %12 = icmp ne %struct.node* %11, null, !dbg !125
  br i1 %12, label %13, label %56, !dbg !125

13:                                               ; preds = %10
  call void @llvm.dbg.declare(metadata i32* %6, metadata !127, metadata !DIExpression()), !dbg !130
  %14 = load %struct.node*, %struct.node** %3, align 8, !dbg !131
  %15 = getelementptr inbounds %struct.node, %struct.node* %14, i32 0, i32 2, !dbg !132
  %16 = getelementptr inbounds %struct.point, %struct.point* %15, i32 0, i32 1, !dbg !133
  %17 = load i32, i32* %16, align 4, !dbg !133
  store i32 %17, i32* %6, align 4, !dbg !130
  %18 = load i32, i32* %6, align 4, !dbg !134
  %19 = load i32, i32* %5, align 4, !dbg !135
  %20 = add nsw i32 %19, %18, !dbg !135
  store i32 %20, i32* %5, align 4, !dbg !135
  %21 = load %struct.node*, %struct.node** %3, align 8, !dbg !136
  %22 = getelementptr inbounds %struct.node, %struct.node* %21, i32 0, i32 4, !dbg !137
  %23 = load i32, i32* %22, align 4, !dbg !137
  switch i32 %23, label %30 [
    i32 0, label %24
    i32 5, label %27
  ], !dbg !138

24:                                               ; preds = %13
  %25 = load i32, i32* %5, align 4, !dbg !139
  %26 = add nsw i32 %25, 1, !dbg !139
  store i32 %26, i32* %5, align 4, !dbg !139
  br label %48, !dbg !141

27:                                               ; preds = %13
  %28 = load i32, i32* %5, align 4, !dbg !142
  %29 = add nsw i32 %28, 2, !dbg !142
  store i32 %29, i32* %5, align 4, !dbg !142
  br label %48, !dbg !143

30:                                               ; preds = %13
  %31 = load %struct.node*, %struct.node** %3, align 8, !dbg !144
  %32 = getelementptr inbounds %struct.node, %struct.node* %31, i32 0, i32 1, !dbg !145
  %33 = load i32 (%struct.node*, i32)*, i32 (%struct.node*, i32)** %32, align 8, !dbg !145
  %34 = icmp ne i32 (%struct.node*, i32)* %33, null, !dbg !144
  br i1 %34, label %35, label %41, !dbg !144

35:                                               ; preds = %30
  %36 = load %struct.node*, %struct.node** %3, align 8, !dbg !146
  %37 = getelementptr inbounds %struct.node, %struct.node* %36, i32 0, i32 1, !dbg !147
  %38 = load i32 (%struct.node*, i32)*, i32 (%struct.node*, i32)** %37, align 8, !dbg !147
  %39 = load %struct.node*, %struct.node** %3, align 8, !dbg !148
  %40 = call i32 %38(%struct.node* noundef %39, i32 noundef 3), !dbg !146
  br label %44, !dbg !144

41:                                               ; preds = %30
  %42 = load %struct.node*, %struct.node** %3, align 8, !dbg !149
  %43 = call i32 @helper(%struct.node* noundef %42, i32 noundef 4), !dbg !150
  br label %44, !dbg !144

44:                                               ; preds = %41, %35
  %45 = phi i32 [ %40, %35 ], [ %43, %41 ], !dbg !144
  %46 = load i32, i32* %5, align 4, !dbg !151
  %47 = add nsw i32 %46, %45, !dbg !151
  store i32 %47, i32* %5, align 4, !dbg !151
  br label %48, !dbg !152

48:                                               ; preds = %44, %27, %24
  %49 = load %struct.node*, %struct.node** %3, align 8, !dbg !153
  %50 = getelementptr inbounds %struct.node, %struct.node* %49, i32 0, i32 0, !dbg !154
  %51 = load %struct.node*, %struct.node** %50, align 8, !dbg !154
  store %struct.node* %51, %struct.node** %3, align 8, !dbg !155
  %52 = load i32, i32* %5, align 4, !dbg !156
  %53 = icmp sgt i32 %52, 1000, !dbg !158
  br i1 %53, label %54, label %55, !dbg !159

54:                                               ; preds = %48
  br label %65, !dbg !160

55:                                               ; preds = %48
  br label %10, !dbg !125, !llvm.loop !161

56:                                               ; preds = %10
  %57 = load i32, i32* %4, align 4, !dbg !163
  %58 = icmp eq i32 %57, 6, !dbg !165
  br i1 %58, label %59, label %64, !dbg !166

59:                                               ; preds = %56
  %60 = load i32, i32* @counter, align 4, !dbg !167
  %61 = add nsw i32 %60, 1, !dbg !167
  store i32 %61, i32* @counter, align 4, !dbg !167
  %62 = icmp slt i32 %60, 3, !dbg !168
  br i1 %62, label %63, label %64, !dbg !169

63:                                               ; preds = %59
  br label %9, !dbg !170

64:                                               ; preds = %59, %56
  br label %65, !dbg !171

65:                                               ; preds = %64, %54
  call void @llvm.dbg.label(metadata !172), !dbg !173
  %66 = load i32, i32* %5, align 4, !dbg !174
  %67 = load i32, i32* %4, align 4, !dbg !175
  %68 = and i32 %67, 3, !dbg !176
  %69 = zext i32 %68 to i64, !dbg !177
  %70 = getelementptr inbounds [4 x i32], [4 x i32]* @g_arr, i64 0, i64 %69, !dbg !177
  %71 = load i32, i32* %70, align 4, !dbg !177
  %72 = add nsw i32 %66, %71, !dbg !178
  %73 = load i32, i32* %5, align 4, !dbg !179
  %74 = load i8*, i8** @msg, align 8, !dbg !180
  %75 = call i32 (i32, ...) @ext_fn(i32 noundef 2, i32 noundef %73, i8* noundef %74), !dbg !181
  %76 = add nsw i32 %72, %75, !dbg !182
  %77 = load i32, i32* @tls_v, align 4, !dbg !183
  %78 = add nsw i32 %76, %77, !dbg !184
  ret i32 %78, !dbg !185
}

; Function Attrs: nofree nosync nounwind readnone speculatable willreturn
declare void @llvm.dbg.label(metadata) #1

; Function Attrs: noinline nounwind optnone uwtable
define internal i32 @helper(%struct.node* noundef %0, i32 noundef %1) #0 !dbg !186 {
  %3 = alloca %struct.node*, align 8
  %4 = alloca i32, align 4
  store %struct.node* %0, %struct.node** %3, align 8
  call void @llvm.dbg.declare(metadata %struct.node** %3, metadata !187, metadata !DIExpression()), !dbg !188
  store i32 %1, i32* %4, align 4
  call void @llvm.dbg.declare(metadata i32* %4, metadata !189, metadata !DIExpression()), !dbg !190
  %5 = load %struct.node*, %struct.node** %3, align 8, !dbg !191
  %6 = getelementptr inbounds %struct.node, %struct.node* %5, i32 0, i32 2, !dbg !192
  %7 = getelementptr inbounds %struct.point, %struct.point* %6, i32 0, i32 0, !dbg !193
  %8 = load i32, i32* %7, align 8, !dbg !193
  %9 = load i32, i32* %4, align 4, !dbg !194
  %10 = add nsw i32 %8, %9, !dbg !195
  ret i32 %10, !dbg !196
}

declare i32 @ext_fn(i32 noundef, ...) #3

; Function Attrs: noinline nounwind optnone uwtable
define dso_local double @mix(float noundef %0, double noundef %1, x86_fp80 noundef %2, i1 noundef zeroext %3) #0 !dbg !197 {
  %5 = alloca float, align 4
  %6 = alloca double, align 8
  %7 = alloca x86_fp80, align 16
  %8 = alloca i8, align 1
  store float %0, float* %5, align 4
  call void @llvm.dbg.declare(metadata float* %5, metadata !202, metadata !DIExpression()), !dbg !203
  store double %1, double* %6, align 8
  call void @llvm.dbg.declare(metadata double* %6, metadata !204, metadata !DIExpression()), !dbg !205
  store x86_fp80 %2, x86_fp80* %7, align 16
  call void @llvm.dbg.declare(metadata x86_fp80* %7, metadata !206, metadata !DIExpression()), !dbg !207
  %9 = zext i1 %3 to i8
  store i8 %9, i8* %8, align 1
  call void @llvm.dbg.declare(metadata i8* %8, metadata !208, metadata !DIExpression()), !dbg !209
  %10 = load i8, i8* %8, align 1, !dbg !210
  %11 = trunc i8 %10 to i1, !dbg !210
  br i1 %11, label %12, label %17, !dbg !210

12:                                               ; preds = %4
  %13 = load float, float* %5, align 4, !dbg !211
  %14 = fpext float %13 to double, !dbg !211
  %15 = load double, double* %6, align 8, !dbg !212
  %16 = fadd double %14, %15, !dbg !213
  br label %20, !dbg !210

17:                                               ; preds = %4
  %18 = load x86_fp80, x86_fp80* %7, align 16, !dbg !214
  %19 = fptrunc x86_fp80 %18 to double, !dbg !215
  br label %20, !dbg !210

20:                                               ; preds = %17, %12
  %21 = phi double [ %16, %12 ], [ %19, %17 ], !dbg !210
  ret double %21, !dbg !216
}

; Function Attrs: noinline nounwind optnone uwtable
define dso_local void @fill(i8* noundef %0, i64 noundef %1) #0 !dbg !217 {
  %3 = alloca i8*, align 8
  %4 = alloca i64, align 8
  %5 = alloca i64, align 8
  store i8* %0, i8** %3, align 8
  call void @llvm.dbg.declare(metadata i8** %3, metadata !223, metadata !DIExpression()), !dbg !224
  store i64 %1, i64* %4, align 8
  call void @llvm.dbg.declare(metadata i64* %4, metadata !225, metadata !DIExpression()), !dbg !226
  %6 = load i8*, i8** %3, align 8, !dbg !227
  %7 = load i64, i64* %4, align 8, !dbg !228
  call void @llvm.memset.p0i8.i64(i8* align 1 %6, i8 0, i64 %7, i1 false), !dbg !229
  call void @llvm.dbg.declare(metadata i64* %5, metadata !230, metadata !DIExpression()), !dbg !232
  store i64 0, i64* %5, align 8, !dbg !232
  br label %8, !dbg !233

8:                                                ; preds = %18, %2
  %9 = load i64, i64* %5, align 8, !dbg !234
  %10 = load i64, i64* %4, align 8, !dbg !236
  %11 = icmp ult i64 %9, %10, !dbg !237
  br i1 %11, label %12, label %21, !dbg !238

12:                                               ; preds = %8
  %13 = load i64, i64* %5, align 8, !dbg !239
  %14 = trunc i64 %13 to i8, !dbg !240
  %15 = load i8*, i8** %3, align 8, !dbg !241
  %16 = load i64, i64* %5, align 8, !dbg !242
  %17 = getelementptr inbounds i8, i8* %15, i64 %16, !dbg !241
  store i8 %14, i8* %17, align 1, !dbg !243
  br label %18, !dbg !241

18:                                               ; preds = %12
  %19 = load i64, i64* %5, align 8, !dbg !244
  %20 = add i64 %19, 1, !dbg !244
  store i64 %20, i64* %5, align 8, !dbg !244
  br label %8, !dbg !245, !llvm.loop !246

21:                                               ; preds = %8
  ret void, !dbg !248
}

; Function Attrs: argmemonly nofree nounwind willreturn writeonly
declare void @llvm.memset.p0i8.i64(i8* nocapture writeonly, i8, i64, i1 immarg) #4

; Function Attrs: noinline nounwind optnone uwtable
define dso_local <4 x i32> @vadd(<4 x i32> noundef %0, <4 x i32> noundef %1) #5 !dbg !249 {
  %3 = alloca <4 x i32>, align 16
  %4 = alloca <4 x i32>, align 16
  %5 = alloca <4 x i32>, align 16
  store <4 x i32> %0, <4 x i32>* %3, align 16
  call void @llvm.dbg.declare(metadata <4 x i32>* %3, metadata !254, metadata !DIExpression()), !dbg !255
  store <4 x i32> %1, <4 x i32>* %4, align 16
  call void @llvm.dbg.declare(metadata <4 x i32>* %4, metadata !256, metadata !DIExpression()), !dbg !257
  %6 = load <4 x i32>, <4 x i32>* %3, align 16, !dbg !258
  %7 = load <4 x i32>, <4 x i32>* %4, align 16, !dbg !259
  store <4 x i32> <i32 1, i32 2, i32 3, i32 4>, <4 x i32>* %5, align 16, !dbg !260
  %8 = load <4 x i32>, <4 x i32>* %5, align 16, !dbg !260
  %9 = mul <4 x i32> %7, %8, !dbg !261
  %10 = add <4 x i32> %6, %9, !dbg !262
  ret <4 x i32> %10, !dbg !263
}

; Function Attrs: noinline nounwind optnone uwtable
define dso_local { double, double } @cmul(double noundef %0, double noundef %1, double noundef %2, double noundef %3) #0 !dbg !264 {
  %5 = alloca { double, double }, align 8
  %6 = alloca { double, double }, align 8
  %7 = alloca { double, double }, align 8
  %8 = getelementptr inbounds { double, double }, { double, double }* %6, i32 0, i32 0
  store double %0, double* %8, align 8
  %9 = getelementptr inbounds { double, double }, { double, double }* %6, i32 0, i32 1
  store double %1, double* %9, align 8
  %10 = getelementptr inbounds { double, double }, { double, double }* %7, i32 0, i32 0
  store double %2, double* %10, align 8
  %11 = getelementptr inbounds { double, double }, { double, double }* %7, i32 0, i32 1
  store double %3, double* %11, align 8
  call void @llvm.dbg.declare(metadata { double, double }* %6, metadata !268, metadata !DIExpression()), !dbg !269
  call void @llvm.dbg.declare(metadata { double, double }* %7, metadata !270, metadata !DIExpression()), !dbg !271
  %12 = getelementptr inbounds { double, double }, { double, double }* %6, i32 0, i32 0, !dbg !272
  %13 = load double, double* %12, align 8, !dbg !272
  %14 = getelementptr inbounds { double, double }, { double, double }* %6, i32 0, i32 1, !dbg !272
  %15 = load double, double* %14, align 8, !dbg !272
  %16 = getelementptr inbounds { double, double }, { double, double }* %7, i32 0, i32 0, !dbg !273
  %17 = load double, double* %16, align 8, !dbg !273
  %18 = getelementptr inbounds { double, double }, { double, double }* %7, i32 0, i32 1, !dbg !273
  %19 = load double, double* %18, align 8, !dbg !273
  %20 = fmul double %13, %17, !dbg !274
  %21 = fmul double %15, %19, !dbg !274
  %22 = fmul double %13, %19, !dbg !274
  %23 = fmul double %15, %17, !dbg !274
  %24 = fsub double %20, %21, !dbg !274
  %25 = fadd double %22, %23, !dbg !274
  %26 = fcmp uno double %24, %24, !dbg !274
  br i1 %26, label %27, label %33, !dbg !274, !prof !275

27:                                               ; preds = %4
  %28 = fcmp uno double %25, %25, !dbg !274
  br i1 %28, label %29, label %33, !dbg !274, !prof !275

29:                                               ; preds = %27
  %30 = call { double, double } @__muldc3(double noundef %13, double noundef %15, double noundef %17, double noundef %19) #6, !dbg !274
  %31 = extractvalue { double, double } %30, 0, !dbg !274
  %32 = extractvalue { double, double } %30, 1, !dbg !274
  br label %33, !dbg !274

33:                                               ; preds = %29, %27, %4
  %34 = phi double [ %24, %4 ], [ %24, %27 ], [ %31, %29 ], !dbg !274
  %35 = phi double [ %25, %4 ], [ %25, %27 ], [ %32, %29 ], !dbg !274
  %36 = getelementptr inbounds { double, double }, { double, double }* %5, i32 0, i32 0, !dbg !276
  %37 = getelementptr inbounds { double, double }, { double, double }* %5, i32 0, i32 1, !dbg !276
  store double %34, double* %36, align 8, !dbg !276
  store double %35, double* %37, align 8, !dbg !276
  %38 = load { double, double }, { double, double }* %5, align 8, !dbg !276
  ret { double, double } %38, !dbg !276
}

declare { double, double } @__muldc3(double, double, double, double)

attributes #0 = { noinline nounwind optnone uwtable "frame-pointer"="all" "min-legal-vector-width"="0" "no-trapping-math"="true" "stack-protector-buffer-size"="8" "target-cpu"="x86-64" "target-features"="+cx8,+fxsr,+mmx,+sse,+sse2,+x87" "tune-cpu"="generic" }
attributes #1 = { nofree nosync nounwind readnone speculatable willreturn }
attributes #2 = { nofree nosync nounwind willreturn }
attributes #3 = { "frame-pointer"="all" "no-trapping-math"="true" "stack-protector-buffer-size"="8" "target-cpu"="x86-64" "target-features"="+cx8,+fxsr,+mmx,+sse,+sse2,+x87" "tune-cpu"="generic" }
attributes #4 = { argmemonly nofree nounwind willreturn writeonly }
attributes #5 = { noinline nounwind optnone uwtable "frame-pointer"="all" "min-legal-vector-width"="128" "no-trapping-math"="true" "stack-protector-buffer-size"="8" "target-cpu"="x86-64" "target-features"="+cx8,+fxsr,+mmx,+sse,+sse2,+x87" "tune-cpu"="generic" }
attributes #6 = { nounwind }

!llvm.dbg.cu = !{!2}
!llvm.module.flags = !{!61, !62, !63, !64, !65, !66, !67}
!llvm.ident = !{!68}

!0 = !DIGlobalVariableExpression(var: !1, expr: !DIExpression())
!1 = distinct !DIGlobalVariable(name: "g_arr", scope: !2, file: !3, line: 8, type: !60, isLocal: false, isDefinition: true)
!2 = distinct !DICompileUnit(language: DW_LANG_C99, file: !3, producer: "Debian clang version 14.0.6", isOptimized: false, runtimeVersion: 0, emissionKind: FullDebug, enums: !4, retainedTypes: !11, globals: !14, splitDebugInlining: false, nameTableKind: None)
!3 = !DIFile(filename: "a.c", directory: "/tmp/corpgen", checksumkind: CSK_MD5, checksum: "e52753d94bf087ac4d60bf901a48b012")
!4 = !{!5}
!5 = !DICompositeType(tag: DW_TAG_enumeration_type, name: "color", file: !3, line: 4, baseType: !6, size: 32, elements: !7)
!6 = !DIBasicType(name: "unsigned int", size: 32, encoding: DW_ATE_unsigned)
!7 = !{!8, !9, !10}
!8 = !DIEnumerator(name: "RED", value: 0)
!9 = !DIEnumerator(name: "GREEN", value: 5)
!10 = !DIEnumerator(name: "BLUE", value: 6)
!11 = !{!12, !13}
!12 = !DIBasicType(name: "double", size: 64, encoding: DW_ATE_float)
!13 = !DIBasicType(name: "char", size: 8, encoding: DW_ATE_signed_char)
!14 = !{!0, !15, !19, !22, !58}
!15 = !DIGlobalVariableExpression(var: !16, expr: !DIExpression())
!16 = distinct !DIGlobalVariable(name: "msg", scope: !2, file: !3, line: 9, type: !17, isLocal: false, isDefinition: true)
!17 = !DIDerivedType(tag: DW_TAG_pointer_type, baseType: !18, size: 64)
!18 = !DIDerivedType(tag: DW_TAG_const_type, baseType: !13)
!19 = !DIGlobalVariableExpression(var: !20, expr: !DIExpression())
!20 = distinct !DIGlobalVariable(name: "tls_v", scope: !2, file: !3, line: 10, type: !21, isLocal: false, isDefinition: true)
!21 = !DIBasicType(name: "int", size: 32, encoding: DW_ATE_signed)
!22 = !DIGlobalVariableExpression(var: !23, expr: !DIExpression())
!23 = distinct !DIGlobalVariable(name: "calls", scope: !24, file: !3, line: 21, type: !21, isLocal: true, isDefinition: true)
!24 = distinct !DISubprogram(name: "walk", scope: !3, file: !3, line: 20, type: !25, scopeLine: 20, flags: DIFlagPrototyped, spFlags: DISPFlagDefinition, unit: !2, retainedNodes: !57)
!25 = !DISubroutineType(types: !26)
!26 = !{!21, !27, !5}
!27 = !DIDerivedType(tag: DW_TAG_pointer_type, baseType: !28, size: 64)
!28 = distinct !DICompositeType(tag: DW_TAG_structure_type, name: "node", file: !3, line: 6, size: 320, elements: !29)
!29 = !{!30, !31, !35, !40, !50, !51}
!30 = !DIDerivedType(tag: DW_TAG_member, name: "next", scope: !28, file: !3, line: 6, baseType: !27, size: 64)
!31 = !DIDerivedType(tag: DW_TAG_member, name: "cb", scope: !28, file: !3, line: 6, baseType: !32, size: 64, offset: 64)
!32 = !DIDerivedType(tag: DW_TAG_pointer_type, baseType: !33, size: 64)
!33 = !DISubroutineType(types: !34)
!34 = !{!21, !27, !21}
!35 = !DIDerivedType(tag: DW_TAG_member, name: "p", scope: !28, file: !3, line: 6, baseType: !36, size: 64, offset: 128)
!36 = distinct !DICompositeType(tag: DW_TAG_structure_type, name: "point", file: !3, line: 2, size: 64, elements: !37)
!37 = !{!38, !39}
!38 = !DIDerivedType(tag: DW_TAG_member, name: "x", scope: !36, file: !3, line: 2, baseType: !21, size: 32)
!39 = !DIDerivedType(tag: DW_TAG_member, name: "y", scope: !36, file: !3, line: 2, baseType: !21, size: 32, offset: 32)
!40 = !DIDerivedType(tag: DW_TAG_member, name: "v", scope: !28, file: !3, line: 6, baseType: !41, size: 32, offset: 192)
!41 = distinct !DICompositeType(tag: DW_TAG_union_type, name: "u", file: !3, line: 3, size: 32, elements: !42)
!42 = !{!43, !44, !46}
!43 = !DIDerivedType(tag: DW_TAG_member, name: "i", scope: !41, file: !3, line: 3, baseType: !21, size: 32)
!44 = !DIDerivedType(tag: DW_TAG_member, name: "f", scope: !41, file: !3, line: 3, baseType: !45, size: 32)
!45 = !DIBasicType(name: "float", size: 32, encoding: DW_ATE_float)
!46 = !DIDerivedType(tag: DW_TAG_member, name: "c", scope: !41, file: !3, line: 3, baseType: !47, size: 32)
!47 = !DICompositeType(tag: DW_TAG_array_type, baseType: !13, size: 32, elements: !48)
!48 = !{!49}
!49 = !DISubrange(count: 4)
!50 = !DIDerivedType(tag: DW_TAG_member, name: "col", scope: !28, file: !3, line: 6, baseType: !5, size: 32, offset: 224)
!51 = !DIDerivedType(tag: DW_TAG_member, name: "bf", scope: !28, file: !3, line: 6, baseType: !52, size: 32, offset: 256)
!52 = distinct !DICompositeType(tag: DW_TAG_structure_type, name: "bits", file: !3, line: 5, size: 32, elements: !53)
!53 = !{!54, !55, !56}
!54 = !DIDerivedType(tag: DW_TAG_member, name: "a", scope: !52, file: !3, line: 5, baseType: !6, size: 3, flags: DIFlagBitField, extraData: i64 0)
!55 = !DIDerivedType(tag: DW_TAG_member, name: "b", scope: !52, file: !3, line: 5, baseType: !6, size: 5, offset: 3, flags: DIFlagBitField, extraData: i64 0)
!56 = !DIDerivedType(tag: DW_TAG_member, name: "c", scope: !52, file: !3, line: 5, baseType: !21, size: 7, offset: 8, flags: DIFlagBitField, extraData: i64 0)
!57 = !{}
!58 = !DIGlobalVariableExpression(var: !59, expr: !DIExpression())
!59 = distinct !DIGlobalVariable(name: "counter", scope: !2, file: !3, line: 7, type: !21, isLocal: true, isDefinition: true)
!60 = !DICompositeType(tag: DW_TAG_array_type, baseType: !21, size: 128, elements: !48)
!61 = !{i32 7, !"Dwarf Version", i32 5}
!62 = !{i32 2, !"Debug Info Version", i32 3}
!63 = !{i32 1, !"wchar_size", i32 4}
!64 = !{i32 7, !"PIC Level", i32 2}
!65 = !{i32 7, !"PIE Level", i32 2}
!66 = !{i32 7, !"uwtable", i32 1}
!67 = !{i32 7, !"frame-pointer", i32 2}
!68 = !{!"Debian clang version 14.0.6"}
!69 = distinct !DISubprogram(name: "sum", scope: !3, file: !3, line: 13, type: !70, scopeLine: 13, flags: DIFlagPrototyped, spFlags: DISPFlagDefinition, unit: !2, retainedNodes: !57)
!70 = !DISubroutineType(types: !71)
!71 = !{!21, !21, null}
!72 = !DILocalVariable(name: "n", arg: 1, scope: !69, file: !3, line: 13, type: !21)
!73 = !DILocation(line: 13, column: 13, scope: !69)
!74 = !DILocalVariable(name: "ap", scope: !69, file: !3, line: 14, type: !75)
!75 = !DIDerivedType(tag: DW_TAG_typedef, name: "__builtin_va_list", file: !76, baseType: !77)
!76 = !DIFile(filename: "a.c", directory: "/tmp/corpgen")
!77 = !DICompositeType(tag: DW_TAG_array_type, baseType: !78, size: 192, elements: !85)
!78 = distinct !DICompositeType(tag: DW_TAG_structure_type, name: "__va_list_tag", size: 192, elements: !79)
!79 = !{!80, !81, !82, !84}
!80 = !DIDerivedType(tag: DW_TAG_member, name: "gp_offset", scope: !78, file: !76, line: 14, baseType: !6, size: 32)
!81 = !DIDerivedType(tag: DW_TAG_member, name: "fp_offset", scope: !78, file: !76, line: 14, baseType: !6, size: 32, offset: 32)
!82 = !DIDerivedType(tag: DW_TAG_member, name: "overflow_arg_area", scope: !78, file: !76, line: 14, baseType: !83, size: 64, offset: 64)
!83 = !DIDerivedType(tag: DW_TAG_pointer_type, baseType: null, size: 64)
!84 = !DIDerivedType(tag: DW_TAG_member, name: "reg_save_area", scope: !78, file: !76, line: 14, baseType: !83, size: 64, offset: 128)
!85 = !{!86}
!86 = !DISubrange(count: 1)
!87 = !DILocation(line: 14, column: 21, scope: !69)
!88 = !DILocation(line: 14, column: 25, scope: !69)
!89 = !DILocalVariable(name: "s", scope: !69, file: !3, line: 15, type: !21)
!90 = !DILocation(line: 15, column: 7, scope: !69)
!91 = !DILocalVariable(name: "i", scope: !92, file: !3, line: 16, type: !21)
!92 = distinct !DILexicalBlock(scope: !69, file: !3, line: 16, column: 3)
!93 = !DILocation(line: 16, column: 12, scope: !92)
!94 = !DILocation(line: 16, column: 8, scope: !92)
!95 = !DILocation(line: 16, column: 19, scope: !96)
!96 = distinct !DILexicalBlock(scope: !92, file: !3, line: 16, column: 3)
!97 = !DILocation(line: 16, column: 23, scope: !96)
!98 = !DILocation(line: 16, column: 21, scope: !96)
!99 = !DILocation(line: 16, column: 3, scope: !92)
!100 = !DILocalVariable(name: "v", scope: !101, file: !3, line: 16, type: !21)
!101 = distinct !DILexicalBlock(scope: !96, file: !3, line: 16, column: 31)
!102 = !DILocation(line: 16, column: 37, scope: !101)
!103 = !DILocation(line: 16, column: 41, scope: !101)
!104 = !DILocation(line: 16, column: 73, scope: !101)
!105 = !DILocation(line: 16, column: 70, scope: !101)
!106 = !DILocation(line: 16, column: 76, scope: !101)
!107 = !DILocation(line: 16, column: 27, scope: !96)
!108 = !DILocation(line: 16, column: 3, scope: !96)
!109 = distinct !{!109, !99, !110, !111}
!110 = !DILocation(line: 16, column: 76, scope: !92)
!111 = !{!"llvm.loop.mustprogress"}
!112 = !DILocation(line: 17, column: 3, scope: !69)
!113 = !DILocation(line: 18, column: 10, scope: !69)
!114 = !DILocation(line: 18, column: 3, scope: !69)
!115 = !DILocalVariable(name: "n", arg: 1, scope: !24, file: !3, line: 20, type: !27)
!116 = !DILocation(line: 20, column: 23, scope: !24)
!117 = !DILocalVariable(name: "c", arg: 2, scope: !24, file: !3, line: 20, type: !5)
!118 = !DILocation(line: 20, column: 37, scope: !24)
!119 = !DILocation(line: 22, column: 8, scope: !24)
!120 = !DILocalVariable(name: "total", scope: !24, file: !3, line: 23, type: !21)
!121 = !DILocation(line: 23, column: 7, scope: !24)
!122 = !DILocation(line: 23, column: 3, scope: !24)
!123 = !DILabel(scope: !24, name: "again", file: !3, line: 24)
!124 = !DILocation(line: 24, column: 1, scope: !24)
!125 = !DILocation(line: 25, column: 3, scope: !24)
!126 = !DILocation(line: 25, column: 10, scope: !24)
!127 = !DILocalVariable(name: "inner", scope: !128, file: !3, line: 26, type: !21)
!128 = distinct !DILexicalBlock(scope: !129, file: !3, line: 26, column: 5)
!129 = distinct !DILexicalBlock(scope: !24, file: !3, line: 25, column: 13)
!130 = !DILocation(line: 26, column: 11, scope: !128)
!131 = !DILocation(line: 26, column: 19, scope: !128)
!132 = !DILocation(line: 26, column: 22, scope: !128)
!133 = !DILocation(line: 26, column: 24, scope: !128)
!134 = !DILocation(line: 26, column: 36, scope: !128)
!135 = !DILocation(line: 26, column: 33, scope: !128)
!136 = !DILocation(line: 27, column: 13, scope: !129)
!137 = !DILocation(line: 27, column: 16, scope: !129)
!138 = !DILocation(line: 27, column: 5, scope: !129)
!139 = !DILocation(line: 27, column: 39, scope: !140)
!140 = distinct !DILexicalBlock(scope: !129, file: !3, line: 27, column: 21)
!141 = !DILocation(line: 27, column: 45, scope: !140)
!142 = !DILocation(line: 27, column: 70, scope: !140)
!143 = !DILocation(line: 27, column: 76, scope: !140)
!144 = !DILocation(line: 27, column: 101, scope: !140)
!145 = !DILocation(line: 27, column: 104, scope: !140)
!146 = !DILocation(line: 27, column: 109, scope: !140)
!147 = !DILocation(line: 27, column: 112, scope: !140)
!148 = !DILocation(line: 27, column: 115, scope: !140)
!149 = !DILocation(line: 27, column: 130, scope: !140)
!150 = !DILocation(line: 27, column: 123, scope: !140)
!151 = !DILocation(line: 27, column: 98, scope: !140)
!152 = !DILocation(line: 27, column: 137, scope: !140)
!153 = !DILocation(line: 28, column: 9, scope: !129)
!154 = !DILocation(line: 28, column: 12, scope: !129)
!155 = !DILocation(line: 28, column: 7, scope: !129)
!156 = !DILocation(line: 29, column: 9, scope: !157)
!157 = distinct !DILexicalBlock(scope: !129, file: !3, line: 29, column: 9)
!158 = !DILocation(line: 29, column: 15, scope: !157)
!159 = !DILocation(line: 29, column: 9, scope: !129)
!160 = !DILocation(line: 29, column: 23, scope: !157)
!161 = distinct !{!161, !125, !162, !111}
!162 = !DILocation(line: 30, column: 3, scope: !24)
!163 = !DILocation(line: 31, column: 7, scope: !164)
!164 = distinct !DILexicalBlock(scope: !24, file: !3, line: 31, column: 7)
!165 = !DILocation(line: 31, column: 9, scope: !164)
!166 = !DILocation(line: 31, column: 17, scope: !164)
!167 = !DILocation(line: 31, column: 27, scope: !164)
!168 = !DILocation(line: 31, column: 30, scope: !164)
!169 = !DILocation(line: 31, column: 7, scope: !24)
!170 = !DILocation(line: 31, column: 35, scope: !164)
!171 = !DILocation(line: 31, column: 32, scope: !164)
!172 = !DILabel(scope: !24, name: "out", file: !3, line: 32)
!173 = !DILocation(line: 32, column: 1, scope: !24)
!174 = !DILocation(line: 33, column: 10, scope: !24)
!175 = !DILocation(line: 33, column: 24, scope: !24)
!176 = !DILocation(line: 33, column: 26, scope: !24)
!177 = !DILocation(line: 33, column: 18, scope: !24)
!178 = !DILocation(line: 33, column: 16, scope: !24)
!179 = !DILocation(line: 33, column: 43, scope: !24)
!180 = !DILocation(line: 33, column: 50, scope: !24)
!181 = !DILocation(line: 33, column: 33, scope: !24)
!182 = !DILocation(line: 33, column: 31, scope: !24)
!183 = !DILocation(line: 33, column: 57, scope: !24)
!184 = !DILocation(line: 33, column: 55, scope: !24)
!185 = !DILocation(line: 33, column: 3, scope: !24)
!186 = distinct !DISubprogram(name: "helper", scope: !3, file: !3, line: 12, type: !33, scopeLine: 12, flags: DIFlagPrototyped, spFlags: DISPFlagLocalToUnit | DISPFlagDefinition, unit: !2, retainedNodes: !57)
!187 = !DILocalVariable(name: "n", arg: 1, scope: !186, file: !3, line: 12, type: !27)
!188 = !DILocation(line: 12, column: 32, scope: !186)
!189 = !DILocalVariable(name: "k", arg: 2, scope: !186, file: !3, line: 12, type: !21)
!190 = !DILocation(line: 12, column: 39, scope: !186)
!191 = !DILocation(line: 12, column: 51, scope: !186)
!192 = !DILocation(line: 12, column: 54, scope: !186)
!193 = !DILocation(line: 12, column: 56, scope: !186)
!194 = !DILocation(line: 12, column: 60, scope: !186)
!195 = !DILocation(line: 12, column: 58, scope: !186)
!196 = !DILocation(line: 12, column: 44, scope: !186)
!197 = distinct !DISubprogram(name: "mix", scope: !3, file: !3, line: 35, type: !198, scopeLine: 35, flags: DIFlagPrototyped, spFlags: DISPFlagDefinition, unit: !2, retainedNodes: !57)
!198 = !DISubroutineType(types: !199)
!199 = !{!12, !45, !12, !200, !201}
!200 = !DIBasicType(name: "long double", size: 128, encoding: DW_ATE_float)
!201 = !DIBasicType(name: "_Bool", size: 8, encoding: DW_ATE_boolean)
!202 = !DILocalVariable(name: "f", arg: 1, scope: !197, file: !3, line: 35, type: !45)
!203 = !DILocation(line: 35, column: 18, scope: !197)
!204 = !DILocalVariable(name: "d", arg: 2, scope: !197, file: !3, line: 35, type: !12)
!205 = !DILocation(line: 35, column: 28, scope: !197)
!206 = !DILocalVariable(name: "ld", arg: 3, scope: !197, file: !3, line: 35, type: !200)
!207 = !DILocation(line: 35, column: 43, scope: !197)
!208 = !DILocalVariable(name: "b", arg: 4, scope: !197, file: !3, line: 35, type: !201)
!209 = !DILocation(line: 35, column: 53, scope: !197)
!210 = !DILocation(line: 35, column: 65, scope: !197)
!211 = !DILocation(line: 35, column: 69, scope: !197)
!212 = !DILocation(line: 35, column: 73, scope: !197)
!213 = !DILocation(line: 35, column: 71, scope: !197)
!214 = !DILocation(line: 35, column: 85, scope: !197)
!215 = !DILocation(line: 35, column: 77, scope: !197)
!216 = !DILocation(line: 35, column: 58, scope: !197)
!217 = distinct !DISubprogram(name: "fill", scope: !3, file: !3, line: 36, type: !218, scopeLine: 36, flags: DIFlagPrototyped, spFlags: DISPFlagDefinition, unit: !2, retainedNodes: !57)
!218 = !DISubroutineType(types: !219)
!219 = !{null, !220, !221}
!220 = !DIDerivedType(tag: DW_TAG_pointer_type, baseType: !13, size: 64)
!221 = !DIDerivedType(tag: DW_TAG_typedef, name: "size_t", file: !3, line: 1, baseType: !222)
!222 = !DIBasicType(name: "unsigned long", size: 64, encoding: DW_ATE_unsigned)
!223 = !DILocalVariable(name: "p", arg: 1, scope: !217, file: !3, line: 36, type: !220)
!224 = !DILocation(line: 36, column: 17, scope: !217)
!225 = !DILocalVariable(name: "n", arg: 2, scope: !217, file: !3, line: 36, type: !221)
!226 = !DILocation(line: 36, column: 27, scope: !217)
!227 = !DILocation(line: 36, column: 49, scope: !217)
!228 = !DILocation(line: 36, column: 55, scope: !217)
!229 = !DILocation(line: 36, column: 32, scope: !217)
!230 = !DILocalVariable(name: "i", scope: !231, file: !3, line: 36, type: !221)
!231 = distinct !DILexicalBlock(scope: !217, file: !3, line: 36, column: 59)
!232 = !DILocation(line: 36, column: 71, scope: !231)
!233 = !DILocation(line: 36, column: 64, scope: !231)
!234 = !DILocation(line: 36, column: 78, scope: !235)
!235 = distinct !DILexicalBlock(scope: !231, file: !3, line: 36, column: 59)
!236 = !DILocation(line: 36, column: 82, scope: !235)
!237 = !DILocation(line: 36, column: 80, scope: !235)
!238 = !DILocation(line: 36, column: 59, scope: !231)
!239 = !DILocation(line: 36, column: 103, scope: !235)
!240 = !DILocation(line: 36, column: 97, scope: !235)
!241 = !DILocation(line: 36, column: 90, scope: !235)
!242 = !DILocation(line: 36, column: 92, scope: !235)
!243 = !DILocation(line: 36, column: 95, scope: !235)
!244 = !DILocation(line: 36, column: 86, scope: !235)
!245 = !DILocation(line: 36, column: 59, scope: !235)
!246 = distinct !{!246, !238, !247, !111}
!247 = !DILocation(line: 36, column: 103, scope: !231)
!248 = !DILocation(line: 36, column: 106, scope: !217)
!249 = distinct !DISubprogram(name: "vadd", scope: !3, file: !3, line: 38, type: !250, scopeLine: 38, flags: DIFlagPrototyped, spFlags: DISPFlagDefinition, unit: !2, retainedNodes: !57)
!250 = !DISubroutineType(types: !251)
!251 = !{!252, !252, !252}
!252 = !DIDerivedType(tag: DW_TAG_typedef, name: "v4si", file: !3, line: 37, baseType: !253)
!253 = !DICompositeType(tag: DW_TAG_array_type, baseType: !21, size: 128, flags: DIFlagVector, elements: !48)
!254 = !DILocalVariable(name: "a", arg: 1, scope: !249, file: !3, line: 38, type: !252)
!255 = !DILocation(line: 38, column: 16, scope: !249)
!256 = !DILocalVariable(name: "b", arg: 2, scope: !249, file: !3, line: 38, type: !252)
!257 = !DILocation(line: 38, column: 24, scope: !249)
!258 = !DILocation(line: 38, column: 36, scope: !249)
!259 = !DILocation(line: 38, column: 40, scope: !249)
!260 = !DILocation(line: 38, column: 44, scope: !249)
!261 = !DILocation(line: 38, column: 42, scope: !249)
!262 = !DILocation(line: 38, column: 38, scope: !249)
!263 = !DILocation(line: 38, column: 29, scope: !249)
!264 = distinct !DISubprogram(name: "cmul", scope: !3, file: !3, line: 39, type: !265, scopeLine: 39, flags: DIFlagPrototyped, spFlags: DISPFlagDefinition, unit: !2, retainedNodes: !57)
!265 = !DISubroutineType(types: !266)
!266 = !{!267, !267, !267}
!267 = !DIBasicType(name: "complex", size: 128, encoding: DW_ATE_complex_float)
!268 = !DILocalVariable(name: "a", arg: 1, scope: !264, file: !3, line: 39, type: !267)
!269 = !DILocation(line: 39, column: 38, scope: !264)
!270 = !DILocalVariable(name: "b", arg: 2, scope: !264, file: !3, line: 39, type: !267)
!271 = !DILocation(line: 39, column: 57, scope: !264)
!272 = !DILocation(line: 39, column: 69, scope: !264)
!273 = !DILocation(line: 39, column: 73, scope: !264)
!274 = !DILocation(line: 39, column: 71, scope: !264)
!275 = !{!"branch_weights", i32 1, i32 1048575}
!276 = !DILocation(line: 39, column: 62, scope: !264)
