; ModuleID = '/tmp/autogen.bc'
source_filename = "/tmp/autogen.bc"

define void @autogen_SD1(i8* %0, i32* %1, i64* %2, i32 %3, i64 %4, i8 %5) {
BB:
  %A4 = alloca i1, align 1
  %A3 = alloca double, align 8
  %A2 = alloca i32, align 4
  %A1 = alloca float, align 4
  %A = alloca float, align 4
  %L = load i8, i8* %0, align 1
  store i8 -1, i8* %0, align 1
  %E = extractelement <16 x i16> zeroinitializer, i32 7
  %Shuff = shufflevector <1 x i1> zeroinitializer, <1 x i1> zeroinitializer, <1 x i32> zeroinitializer
  %I = insertelement <1 x i1> zeroinitializer, i1 true, i32 0
  %Se = sext i8 %5 to i16
  %Sl = select i1 true, float 0xBAB474B840000000, float 0xC5B06AB440000000
  %Cmp = fcmp une double 0x5BED708C47EB520A, 0x5BED708C47EB520A
  br label %CF119

CF119:                                            ; preds = %BB
  %L5 = load i8, i8* %0, align 1
  store i8 %L, i8* %0, align 1
  %E6 = extractelement <1 x i16> zeroinitializer, i32 0
  %Shuff7 = shufflevector <1 x i64> zeroinitializer, <1 x i64> zeroinitializer, <1 x i32> zeroinitializer
  %I8 = insertelement <2 x i8> zeroinitializer, i8 %5, i32 0
  %B = add <4 x i64> zeroinitializer, zeroinitializer
  %Tr = trunc <1 x i64> zeroinitializer to <1 x i1>
  %Sl9 = select i1 true, i8* %0, i8* %0
  %Cmp10 = icmp sge i1 false, true
  br label %CF115

CF115:                                            ; preds = %CF119
  %L11 = load i8, i8* %Sl9, align 1
  store i8 -1, i8* %Sl9, align 1
  %E12 = extractelement <1 x i1> %Shuff, i32 0
  br label %CF

CF:                                               ; preds = %CF, %CF126, %CF118, %CF115
  %Shuff13 = shufflevector <1 x i1> zeroinitializer, <1 x i1> zeroinitializer, <1 x i32> <i32 1>
  %I14 = insertelement <1 x i16> zeroinitializer, i16 -3017, i32 0
  %Sl15 = select i1 true, double* %A3, double* %A3
  %Cmp16 = icmp sge i8 %L5, %L11
  br i1 %Cmp16, label %CF, label %CF111

CF111:                                            ; preds = %CF111, %CF
  %L17 = load i8, i8* %Sl9, align 1
  store i8 %L5, i8* %Sl9, align 1
  %E18 = extractelement <1 x i16> zeroinitializer, i32 0
  %Shuff19 = shufflevector <1 x i64> %Shuff7, <1 x i64> zeroinitializer, <1 x i32> undef
  %I20 = insertelement <1 x i64> zeroinitializer, i64 %4, i32 0
  %PC = bitcast double* %A3 to i32*
  %Sl21 = select i1 %Cmp, i64 17763, i64 %4
  %Cmp22 = fcmp olt float %Sl, 0x4582EBA6C0000000
  br i1 %Cmp22, label %CF111, label %CF126

CF126:                                            ; preds = %CF111
  %L23 = load i8, i8* %Sl9, align 1
  store double 0x5BED708C47EB520A, double* %Sl15, align 8
  %E24 = extractelement <1 x i16> zeroinitializer, i32 0
  %Shuff25 = shufflevector <2 x i8> zeroinitializer, <2 x i8> %I8, <2 x i32> <i32 0, i32 2>
  %I26 = insertelement <1 x i1> zeroinitializer, i1 true, i32 0
  %Se27 = sext i8 -1 to i16
  %Sl28 = select i1 true, float 0xC43273B640000000, float 0x3A96E9BAC0000000
  %L29 = load i32, i32* %PC, align 4
  store double 0x5BED708C47EB520A, double* %Sl15, align 8
  %E30 = extractelement <1 x i64> %Shuff19, i32 0
  %Shuff31 = shufflevector <1 x i64> %Shuff7, <1 x i64> %Shuff7, <1 x i32> <i32 1>
  %I32 = insertelement <1 x i1> zeroinitializer, i1 false, i32 0
  %Sl33 = select i1 %Cmp22, i8 0, i8 %L23
  %Cmp34 = fcmp oge float 0xC43273B640000000, %Sl28
  br i1 %Cmp34, label %CF, label %CF110

CF110:                                            ; preds = %CF110, %CF123, %CF126
  %L35 = load i8, i8* %Sl9, align 1
  store i8 %L17, i8* %0, align 1
  %E36 = extractelement <1 x i16> zeroinitializer, i32 0
  %Shuff37 = shufflevector <1 x i16> zeroinitializer, <1 x i16> %I14, <1 x i32> undef
  %I38 = insertelement <1 x i1> zeroinitializer, i1 true, i32 0
  %B39 = lshr i8 %L, %L17
  %Tr40 = trunc <1 x i64> %I20 to <1 x i16>
  %Sl41 = select i1 %Cmp16, i64 17763, i64 %4
  %Cmp42 = icmp sgt i64 %E30, 17763
  br i1 %Cmp42, label %CF110, label %CF123

CF123:                                            ; preds = %CF110
  %L43 = load i1, i1* %A4, align 1
  br i1 %L43, label %CF110, label %CF113

CF113:                                            ; preds = %CF113, %CF121, %CF123
  store i8 %5, i8* %Sl9, align 1
  %E44 = extractelement <2 x i8> %Shuff25, i32 1
  %Shuff45 = shufflevector <1 x i64> %Shuff19, <1 x i64> zeroinitializer, <1 x i32> undef
  %I46 = insertelement <1 x i1> %I38, i1 true, i32 0
  %B47 = udiv i32 394359, %L29
  %ZE = fpext float 0x3FE9602D40000000 to double
  %Sl48 = select i1 %Cmp22, i8 %B39, i8 %L
  %L49 = load i8, i8* %Sl9, align 1
  store i8 %L, i8* %Sl9, align 1
  %E50 = extractelement <1 x i16> %Shuff37, i32 0
  %Shuff51 = shufflevector <1 x i1> zeroinitializer, <1 x i1> %I38, <1 x i32> undef
  %I52 = insertelement <1 x i16> zeroinitializer, i16 %E24, i32 0
  %B53 = fdiv float %Sl, 0x4582EBA6C0000000
  %Tr54 = trunc i16 %E to i1
  br i1 %Tr54, label %CF113, label %CF121

CF121:                                            ; preds = %CF113
  %Sl55 = select i1 %Cmp, float 0xC5B06AB440000000, float %B53
  %Cmp56 = icmp ule i1 %Tr54, %Cmp16
  br i1 %Cmp56, label %CF113, label %CF116

CF116:                                            ; preds = %CF116, %CF121
  %L57 = load i8, i8* %Sl9, align 1
  store i8 %L, i8* %Sl9, align 1
  %E58 = extractelement <4 x i1> zeroinitializer, i32 2
  br i1 %E58, label %CF116, label %CF118

CF118:                                            ; preds = %CF116
  %Shuff59 = shufflevector <1 x i16> zeroinitializer, <1 x i16> %Shuff37, <1 x i32> undef
  %I60 = insertelement <1 x i64> %Shuff45, i64 %4, i32 0
  %B61 = srem <1 x i16> %Tr40, zeroinitializer
  %FC = fptoui double 0x87FDF09C1BFB7A1A to i32
  %Sl62 = select i1 %Cmp, i32 %3, i32 394359
  %Cmp63 = fcmp oeq float %Sl55, %Sl28
  br i1 %Cmp63, label %CF, label %CF109

CF109:                                            ; preds = %CF109, %CF125, %CF122, %CF114, %CF118
  %L64 = load i8, i8* %0, align 1
  store i8 -1, i8* %Sl9, align 1
  %E65 = extractelement <1 x i64> %Shuff19, i32 0
  %Shuff66 = shufflevector <1 x i16> %B61, <1 x i16> %Shuff37, <1 x i32> zeroinitializer
  %I67 = insertelement <1 x i16> zeroinitializer, i16 %E50, i32 0
  %B68 = ashr i32 %3, 394359
  %Tr69 = trunc <1 x i64> %I20 to <1 x i16>
  %Sl70 = select i1 true, i1 %Cmp22, i1 %E12
  br i1 %Sl70, label %CF109, label %CF125

CF125:                                            ; preds = %CF109
  %Cmp71 = icmp uge i1 %Cmp56, true
  br i1 %Cmp71, label %CF109, label %CF120

CF120:                                            ; preds = %CF120, %CF125
  %L72 = load i8, i8* %0, align 1
  store i8 %L11, i8* %0, align 1
  %E73 = extractelement <1 x i64> %Shuff31, i32 0
  %Shuff74 = shufflevector <1 x i16> zeroinitializer, <1 x i16> %Shuff59, <1 x i32> <i32 1>
  %I75 = insertelement <2 x i16> zeroinitializer, i16 %Se, i32 1
  %PC76 = bitcast double* %Sl15 to i16*
  %Sl77 = select i1 %Cmp56, i1 %Sl70, i1 %Cmp10
  br i1 %Sl77, label %CF120, label %CF122

CF122:                                            ; preds = %CF120
  %Cmp78 = icmp ne i1 %E58, %E58
  br i1 %Cmp78, label %CF109, label %CF114

CF114:                                            ; preds = %CF122
  %L79 = load i32, i32* %PC, align 4
  store i8 %L57, i8* %Sl9, align 1
  %E80 = extractelement <1 x i1> %Shuff, i32 0
  br i1 %E80, label %CF109, label %CF112

CF112:                                            ; preds = %CF112, %CF114
  %Shuff81 = shufflevector <2 x i16> zeroinitializer, <2 x i16> zeroinitializer, <2 x i32> <i32 3, i32 undef>
  %I82 = insertelement <1 x i16> %Shuff59, i16 -3017, i32 0
  %FC83 = sitofp i16 231 to double
  %Sl84 = select i1 %Cmp, double 0x87FDF09C1BFB7A1A, double 0x5BED708C47EB520A
  %Cmp85 = icmp ult i64 %E73, %Sl21
  br i1 %Cmp85, label %CF112, label %CF117

CF117:                                            ; preds = %CF117, %CF112
  %L86 = load i16, i16* %PC76, align 2
  store i16 -3017, i16* %PC76, align 2
  %E87 = extractelement <2 x i8> %Shuff25, i32 0
  %Shuff88 = shufflevector <2 x i8> %Shuff25, <2 x i8> zeroinitializer, <2 x i32> <i32 1, i32 undef>
  %I89 = insertelement <16 x i16> zeroinitializer, i16 %E50, i32 15
  %B90 = udiv <1 x i16> %B61, %Tr69
  %FC91 = sitofp <1 x i16> %Shuff59 to <1 x float>
  %Sl92 = select i1 true, i1 %Sl70, i1 %Cmp34
  br i1 %Sl92, label %CF117, label %CF124

CF124:                                            ; preds = %CF117
  %Cmp93 = icmp sgt <1 x i16> %Shuff37, %I14
  %L94 = load i8, i8* %0, align 1
  store i16 %L86, i16* %PC76, align 2
  %E95 = extractelement <2 x i16> %Shuff81, i32 0
  %Shuff96 = shufflevector <1 x i16> %Shuff66, <1 x i16> %I14, <1 x i32> <i32 1>
  %I97 = insertelement <1 x i16> %Tr40, i16 231, i32 0
  %B98 = sdiv <1 x i16> %Shuff96, %I82
  %Sl99 = select i1 %Cmp, i8 %L57, i8 %L72
  %Cmp100 = icmp uge <1 x i16> %I14, %I14
  %L101 = load i16, i16* %PC76, align 2
  store i8 %5, i8* %Sl9, align 1
  %E102 = extractelement <1 x i16> %Shuff37, i32 0
  %Shuff103 = shufflevector <1 x i64> %Shuff7, <1 x i64> zeroinitializer, <1 x i32> undef
  %I104 = insertelement <1 x i64> %Shuff103, i64 %4, i32 0
  %B105 = add <4 x i64> %B, zeroinitializer
  %FC106 = uitofp i64 %Sl21 to float
  %Sl107 = select i1 true, float %Sl, float %FC106
  %Cmp108 = icmp ugt <1 x i16> %B61, %I14
  store i16 -3017, i16* %PC76, align 2
  store i8 %L64, i8* %0, align 1
  store double 0x5BED708C47EB520A, double* %Sl15, align 8
  store i16 %E, i16* %PC76, align 2
  store double 0x5BED708C47EB520A, double* %Sl15, align 8
  ret void
}
