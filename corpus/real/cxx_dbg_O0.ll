; ModuleID = 'b.cpp'
source_filename = "b.cpp"
target datalayout = "e-m:e-p270:32:32-p271:32:32-p272:64:64-i64:64-f80:128-n8:16:32:64-S128"
target triple = "x86_64-pc-linux-gnu"

%struct.Arr = type { [3 x i32] }
%struct.Arr.0 = type { [2 x double] }
%struct.Base = type <{ i32 (...)**, i32, [4 x i8] }>
%struct.Wrap = type { %struct.Arr.1 }
%struct.Arr.1 = type { [2 x i32] }
%class.anon = type { %struct.Arr* }
%struct.Derived = type { %struct.Base.base, i32 }
%struct.Base.base = type <{ i32 (...)**, i32 }>

$_ZNK3ArrIdLi2EE3getEi = comdat any

$_Z5countIJidcEEiDpT_ = comdat any

$_ZNK3ArrIiLi2EE3getEi = comdat any

$_ZN7DerivedC2Ev = comdat any

$_ZN7DerivedD2Ev = comdat any

$_ZNK3ArrIiLi3EE3getEi = comdat any

$_ZN4BaseC2Ev = comdat any

$_ZN7DerivedD0Ev = comdat any

$_ZN7Derived1fEv = comdat any

$_ZN4BaseD2Ev = comdat any

$_ZN4BaseD0Ev = comdat any

$_ZN3ArrIiLi3EE5countE = comdat any

$_ZTV7Derived = comdat any

$_ZTS7Derived = comdat any

$_ZTS4Base = comdat any

$_ZTI4Base = comdat any

$_ZTI7Derived = comdat any

$_ZTV4Base = comdat any

@_ZN5outer5inner4deepE = dso_local global i32 4, align 4, !dbg !0
@__const._Z3useP4Base4Mode.a = private unnamed_addr constant %struct.Arr { [3 x i32] [i32 1, i32 2, i32 3] }, align 4
@__const._Z3useP4Base4Mode.b = private unnamed_addr constant %struct.Arr.0 { [2 x double] [double 1.000000e+00, double 2.000000e+00] }, align 8
@_ZN3ArrIiLi3EE5countE = linkonce_odr dso_local global i32 3, comdat, align 4, !dbg !6
@_ZTIi = external constant i8*
@_ZTV7Derived = linkonce_odr dso_local unnamed_addr constant { [5 x i8*] } { [5 x i8*] [i8* null, i8* bitcast ({ i8*, i8*, i8* }* @_ZTI7Derived to i8*), i8* bitcast (void (%struct.Derived*)* @_ZN7DerivedD2Ev to i8*), i8* bitcast (void (%struct.Derived*)* @_ZN7DerivedD0Ev to i8*), i8* bitcast (i32 (%struct.Derived*)* @_ZN7Derived1fEv to i8*)] }, comdat, align 8
@_ZTVN10__cxxabiv120__si_class_type_infoE = external global i8*
@_ZTS7Derived = linkonce_odr dso_local constant [9 x i8] c"7Derived\00", comdat, align 1
@_ZTVN10__cxxabiv117__class_type_infoE = external global i8*
@_ZTS4Base = linkonce_odr dso_local constant [6 x i8] c"4Base\00", comdat, align 1
@_ZTI4Base = linkonce_odr dso_local constant { i8*, i8* } { i8* bitcast (i8** getelementptr inbounds (i8*, i8** @_ZTVN10__cxxabiv117__class_type_infoE, i64 2) to i8*), i8* getelementptr inbounds ([6 x i8], [6 x i8]* @_ZTS4Base, i32 0, i32 0) }, comdat, align 8
@_ZTI7Derived = linkonce_odr dso_local constant { i8*, i8*, i8* } { i8* bitcast (i8** getelementptr inbounds (i8*, i8** @_ZTVN10__cxxabiv120__si_class_type_infoE, i64 2) to i8*), i8* getelementptr inbounds ([9 x i8], [9 x i8]* @_ZTS7Derived, i32 0, i32 0), i8* bitcast ({ i8*, i8* }* @_ZTI4Base to i8*) }, comdat, align 8
@_ZTV4Base = linkonce_odr dso_local unnamed_addr constant { [5 x i8*] } { [5 x i8*] [i8* null, i8* bitcast ({ i8*, i8* }* @_ZTI4Base to i8*), i8* bitcast (void (%struct.Base*)* @_ZN4BaseD2Ev to i8*), i8* bitcast (void (%struct.Base*)* @_ZN4BaseD0Ev to i8*), i8* bitcast (void ()* @__cxa_pure_virtual to i8*)] }, comdat, align 8

; Function Attrs: mustprogress noinline optnone uwtable
define dso_local noundef i32 @_Z3useP4Base4Mode(%struct.Base* noundef %0, i8 noundef zeroext %1) #0 personality i8* bitcast (i32 (...)* @__gxx_personality_v0 to i8*) !dbg !70 {
  %3 = alloca %struct.Base*, align 8
  %4 = alloca i8, align 1
  %5 = alloca %struct.Arr, align 4
  %6 = alloca %struct.Arr.0, align 8
  %7 = alloca %struct.Wrap, align 4
  %8 = alloca %class.anon, align 8
  %9 = alloca i32, align 4
  %10 = alloca i8*, align 8
  %11 = alloca i32, align 4
  %12 = alloca i32, align 4
  %13 = alloca i64, align 8
  %14 = alloca { i64, i64 }, align 8
  %15 = alloca %struct.Derived, align 8
  store %struct.Base* %0, %struct.Base** %3, align 8
  call void @llvm.dbg.declare(metadata %struct.Base** %3, metadata !75, metadata !DIExpression()), !dbg !76
  store i8 %1, i8* %4, align 1
  call void @llvm.dbg.declare(metadata i8* %4, metadata !77, metadata !DIExpression()), !dbg !78
  call void @llvm.dbg.declare(metadata %struct.Arr* %5, metadata !79, metadata !DIExpression()), !dbg !80
  %16 = bitcast %struct.Arr* %5 to i8*, !dbg !80
  call void @llvm.memcpy.p0i8.p0i8.i64(i8* align 4 %16, i8* align 4 bitcast (%struct.Arr* @__const._Z3useP4Base4Mode.a to i8*), i64 12, i1 false), !dbg !80
  call void @llvm.dbg.declare(metadata %struct.Arr.0* %6, metadata !81, metadata !DIExpression()), !dbg !98
  %17 = bitcast %struct.Arr.0* %6 to i8*, !dbg !98
  call void @llvm.memcpy.p0i8.p0i8.i64(i8* align 8 %17, i8* align 8 bitcast (%struct.Arr.0* @__const._Z3useP4Base4Mode.b to i8*), i64 16, i1 false), !dbg !98
  call void @llvm.dbg.declare(metadata %struct.Wrap* %7, metadata !99, metadata !DIExpression()), !dbg !116
  %18 = getelementptr inbounds %struct.Wrap, %struct.Wrap* %7, i32 0, i32 0, !dbg !117
  %19 = getelementptr inbounds %struct.Arr.1, %struct.Arr.1* %18, i32 0, i32 0, !dbg !118
  %20 = getelementptr inbounds [2 x i32], [2 x i32]* %19, i64 0, i64 0, !dbg !119
  store i32 1, i32* %20, align 4, !dbg !120
  call void @llvm.dbg.declare(metadata %class.anon* %8, metadata !121, metadata !DIExpression()), !dbg !126
  %21 = getelementptr inbounds %class.anon, %class.anon* %8, i32 0, i32 0, !dbg !127
  store %struct.Arr* %5, %struct.Arr** %21, align 8, !dbg !127
  call void @llvm.dbg.declare(metadata i32* %9, metadata !128, metadata !DIExpression()), !dbg !129
  %22 = call noundef i32 @"_ZZ3useP4Base4ModeENK3$_0clEi"(%class.anon* noundef nonnull align 8 dereferenceable(8) %8, i32 noundef 2), !dbg !130
  %23 = load %struct.Base*, %struct.Base** %3, align 8, !dbg !131
  %24 = bitcast %struct.Base* %23 to i32 (%struct.Base*)***, !dbg !132
  %25 = load i32 (%struct.Base*)**, i32 (%struct.Base*)*** %24, align 8, !dbg !132
  %26 = getelementptr inbounds i32 (%struct.Base*)*, i32 (%struct.Base*)** %25, i64 2, !dbg !132
  %27 = load i32 (%struct.Base*)*, i32 (%struct.Base*)** %26, align 8, !dbg !132
  %28 = call noundef i32 %27(%struct.Base* noundef nonnull align 8 dereferenceable(12) %23), !dbg !132
  %29 = add nsw i32 %22, %28, !dbg !133
  %30 = call noundef double @_ZNK3ArrIdLi2EE3getEi(%struct.Arr.0* noundef nonnull align 8 dereferenceable(16) %6, i32 noundef 1), !dbg !134
  %31 = fptosi double %30 to i32, !dbg !135
  %32 = add nsw i32 %29, %31, !dbg !136
  %33 = call noundef i32 @_Z5countIJidcEEiDpT_(i32 noundef 1, double noundef 2.000000e+00, i8 noundef signext 99), !dbg !137
  %34 = add nsw i32 %32, %33, !dbg !138
  %35 = load i32, i32* @_ZN3ArrIiLi3EE5countE, align 4, !dbg !139
  %36 = add nsw i32 %34, %35, !dbg !140
  %37 = getelementptr inbounds %struct.Wrap, %struct.Wrap* %7, i32 0, i32 0, !dbg !141
  %38 = call noundef i32 @_ZNK3ArrIiLi2EE3getEi(%struct.Arr.1* noundef nonnull align 4 dereferenceable(8) %37, i32 noundef 0), !dbg !142
  %39 = add nsw i32 %36, %38, !dbg !143
  store i32 %39, i32* %9, align 4, !dbg !129
  %40 = load i8, i8* %4, align 1, !dbg !144
  %41 = icmp eq i8 %40, 1, !dbg !147
  br i1 %41, label %42, label %91, !dbg !148

42:                                               ; preds = %2
  %43 = call i8* @__cxa_allocate_exception(i64 4) #8, !dbg !149
  %44 = bitcast i8* %43 to i32*, !dbg !149
  store i32 42, i32* %44, align 16, !dbg !149
  invoke void @__cxa_throw(i8* %43, i8* bitcast (i8** @_ZTIi to i8*), i8* null) #9
          to label %113 unwind label %45, !dbg !149

45:                                               ; preds = %42
  %46 = landingpad { i8*, i32 }
          catch i8* bitcast (i8** @_ZTIi to i8*)
          catch i8* null, !dbg !150
  %47 = extractvalue { i8*, i32 } %46, 0, !dbg !150
  store i8* %47, i8** %10, align 8, !dbg !150
  %48 = extractvalue { i8*, i32 } %46, 1, !dbg !150
  store i32 %48, i32* %11, align 4, !dbg !150
  br label %49, !dbg !150

49:                                               ; preds = %45
  %50 = load i32, i32* %11, align 4, !dbg !151
  %51 = call i32 @llvm.eh.typeid.for(i8* bitcast (i8** @_ZTIi to i8*)) #8, !dbg !151
  %52 = icmp eq i32 %50, %51, !dbg !151
  br i1 %52, label %53, label %86, !dbg !151

53:                                               ; preds = %49
  call void @llvm.dbg.declare(metadata i32* %12, metadata !152, metadata !DIExpression()), !dbg !153
  %54 = load i8*, i8** %10, align 8, !dbg !154
  %55 = call i8* @__cxa_begin_catch(i8* %54) #8, !dbg !154
  %56 = bitcast i8* %55 to i32*, !dbg !154
  %57 = load i32, i32* %56, align 4, !dbg !154
  store i32 %57, i32* %12, align 4, !dbg !154
  %58 = load i32, i32* %12, align 4, !dbg !156
  %59 = load i32, i32* %9, align 4, !dbg !158
  %60 = add nsw i32 %59, %58, !dbg !158
  store i32 %60, i32* %9, align 4, !dbg !158
  call void @__cxa_end_catch() #8, !dbg !159
  br label %61, !dbg !159

61:                                               ; preds = %53, %86, %91
  call void @llvm.dbg.declare(metadata i64* %13, metadata !160, metadata !DIExpression()), !dbg !162
  store i64 12, i64* %13, align 8, !dbg !162
  call void @llvm.dbg.declare(metadata { i64, i64 }* %14, metadata !163, metadata !DIExpression()), !dbg !165
  store { i64, i64 } { i64 17, i64 0 }, { i64, i64 }* %14, align 8, !dbg !165
  call void @llvm.dbg.declare(metadata %struct.Derived* %15, metadata !166, metadata !DIExpression()), !dbg !167
  call void @_ZN7DerivedC2Ev(%struct.Derived* noundef nonnull align 8 dereferenceable(16) %15) #8, !dbg !167
  %62 = getelementptr inbounds %struct.Derived, %struct.Derived* %15, i32 0, i32 1, !dbg !168
  store i32 1, i32* %62, align 4, !dbg !169
  %63 = bitcast %struct.Derived* %15 to %struct.Base*, !dbg !170
  %64 = getelementptr inbounds %struct.Base, %struct.Base* %63, i32 0, i32 1, !dbg !171
  store i32 2, i32* %64, align 8, !dbg !172
  %65 = load i64, i64* %13, align 8, !dbg !173
  %66 = bitcast %struct.Derived* %15 to i8*, !dbg !174
  %67 = getelementptr inbounds i8, i8* %66, i64 %65, !dbg !174
  %68 = bitcast i8* %67 to i32*, !dbg !174
  %69 = load i32, i32* %68, align 4, !dbg !174
  %70 = bitcast %struct.Derived* %15 to %struct.Base*, !dbg !175
  %71 = load { i64, i64 }, { i64, i64 }* %14, align 8, !dbg !176
  %72 = extractvalue { i64, i64 } %71, 1, !dbg !177
  %73 = bitcast %struct.Base* %70 to i8*, !dbg !177
  %74 = getelementptr inbounds i8, i8* %73, i64 %72, !dbg !177
  %75 = bitcast i8* %74 to %struct.Base*, !dbg !177
  %76 = extractvalue { i64, i64 } %71, 0, !dbg !177
  %77 = and i64 %76, 1, !dbg !177
  %78 = icmp ne i64 %77, 0, !dbg !177
  br i1 %78, label %79, label %92, !dbg !177

79:                                               ; preds = %61
  %80 = bitcast %struct.Base* %75 to i8**, !dbg !177
  %81 = load i8*, i8** %80, align 8, !dbg !177
  %82 = sub i64 %76, 1, !dbg !177
  %83 = getelementptr i8, i8* %81, i64 %82, !dbg !177, !nosanitize !74
  %84 = bitcast i8* %83 to i32 (%struct.Base*)**, !dbg !177, !nosanitize !74
  %85 = load i32 (%struct.Base*)*, i32 (%struct.Base*)** %84, align 8, !dbg !177, !nosanitize !74
  br label %94, !dbg !177

86:                                               ; preds = %49
  %87 = load i8*, i8** %10, align 8, !dbg !151
  %88 = call i8* @__cxa_begin_catch(i8* %87) #8, !dbg !151
  %89 = load i32, i32* %9, align 4, !dbg !178
  %90 = sub nsw i32 %89, 1, !dbg !178
  store i32 %90, i32* %9, align 4, !dbg !178
  call void @__cxa_end_catch(), !dbg !154
  br label %61, !dbg !154

91:                                               ; preds = %2
  br label %61, !dbg !151

92:                                               ; preds = %61
  %93 = inttoptr i64 %76 to i32 (%struct.Base*)*, !dbg !177
  br label %94, !dbg !177

94:                                               ; preds = %92, %79
  %95 = phi i32 (%struct.Base*)* [ %85, %79 ], [ %93, %92 ], !dbg !177
  %96 = invoke noundef i32 %95(%struct.Base* noundef nonnull align 8 dereferenceable(12) %75)
          to label %97 unwind label %104, !dbg !177

97:                                               ; preds = %94
  %98 = add nsw i32 %69, %96, !dbg !179
  %99 = load i32, i32* %9, align 4, !dbg !180
  %100 = add nsw i32 %99, %98, !dbg !180
  store i32 %100, i32* %9, align 4, !dbg !180
  %101 = load i32, i32* %9, align 4, !dbg !181
  %102 = load i32, i32* @_ZN5outer5inner4deepE, align 4, !dbg !182
  %103 = add nsw i32 %101, %102, !dbg !183
  call void @_ZN7DerivedD2Ev(%struct.Derived* noundef nonnull align 8 dereferenceable(16) %15) #8, !dbg !184
  ret i32 %103, !dbg !184

104:                                              ; preds = %94
  %105 = landingpad { i8*, i32 }
          cleanup, !dbg !184
  %106 = extractvalue { i8*, i32 } %105, 0, !dbg !184
  store i8* %106, i8** %10, align 8, !dbg !184
  %107 = extractvalue { i8*, i32 } %105, 1, !dbg !184
  store i32 %107, i32* %11, align 4, !dbg !184
  call void @_ZN7DerivedD2Ev(%struct.Derived* noundef nonnull align 8 dereferenceable(16) %15) #8, !dbg !184
  br label %108, !dbg !184

108:                                              ; preds = %104
  %109 = load i8*, i8** %10, align 8, !dbg !184
  %110 = load i32, i32* %11, align 4, !dbg !184
  %111 = insertvalue { i8*, i32 } undef, i8* %109, 0, !dbg !184
  %112 = insertvalue { i8*, i32 } %111, i32 %110, 1, !dbg !184
  resume { i8*, i32 } %112, !dbg !184

113:                                              ; preds = %42
  unreachable
}

; Function Attrs: nofree nosync nounwind readnone speculatable willreturn
declare void @llvm.dbg.declare(metadata, metadata, metadata) #1

; Function Attrs: argmemonly nofree nounwind willreturn
declare void @llvm.memcpy.p0i8.p0i8.i64(i8* noalias nocapture writeonly, i8* noalias nocapture readonly, i64, i1 immarg) #2

; Function Attrs: mustprogress noinline optnone uwtable
define internal noundef i32 @"_ZZ3useP4Base4ModeENK3$_0clEi"(%class.anon* noundef nonnull align 8 dereferenceable(8) %0, i32 noundef %1) #0 align 2 !dbg !185 {
  %3 = alloca %class.anon*, align 8
  %4 = alloca i32, align 4
  store %class.anon* %0, %class.anon** %3, align 8
  call void @llvm.dbg.declare(metadata %class.anon** %3, metadata !194, metadata !DIExpression()), !dbg !196
  store i32 %1, i32* %4, align 4
  call void @llvm.dbg.declare(metadata i32* %4, metadata !197, metadata !DIExpression()), !dbg !198
  %5 = load %class.anon*, %class.anon** %3, align 8
  %6 = load i32, i32* %4, align 4, !dbg !199
  %7 = getelementptr inbounds %class.anon, %class.anon* %5, i32 0, i32 0, !dbg !200
  %8 = load %struct.Arr*, %struct.Arr** %7, align 8, !dbg !200
  %9 = call noundef i32 @_ZNK3ArrIiLi3EE3getEi(%struct.Arr* noundef nonnull align 4 dereferenceable(12) %8, i32 noundef 0), !dbg !201
  %10 = add nsw i32 %6, %9, !dbg !202
  %11 = load i32, i32* @_ZN5outer5inner4deepE, align 4, !dbg !203
  %12 = add nsw i32 %10, %11, !dbg !204
  ret i32 %12, !dbg !205
}

; Function Attrs: mustprogress noinline nounwind optnone uwtable
define linkonce_odr dso_local noundef double @_ZNK3ArrIdLi2EE3getEi(%struct.Arr.0* noundef nonnull align 8 dereferenceable(16) %0, i32 noundef %1) #3 comdat align 2 !dbg !206 {
  %3 = alloca %struct.Arr.0*, align 8
  %4 = alloca i32, align 4
  store %struct.Arr.0* %0, %struct.Arr.0** %3, align 8
  call void @llvm.dbg.declare(metadata %struct.Arr.0** %3, metadata !207, metadata !DIExpression()), !dbg !209
  store i32 %1, i32* %4, align 4
  call void @llvm.dbg.declare(metadata i32* %4, metadata !210, metadata !DIExpression()), !dbg !211
  %5 = load %struct.Arr.0*, %struct.Arr.0** %3, align 8
  %6 = getelementptr inbounds %struct.Arr.0, %struct.Arr.0* %5, i32 0, i32 0, !dbg !212
  %7 = load i32, i32* %4, align 4, !dbg !213
  %8 = sext i32 %7 to i64, !dbg !212
  %9 = getelementptr inbounds [2 x double], [2 x double]* %6, i64 0, i64 %8, !dbg !212
  %10 = load double, double* %9, align 8, !dbg !212
  ret double %10, !dbg !214
}

; Function Attrs: mustprogress noinline nounwind optnone uwtable
define linkonce_odr dso_local noundef i32 @_Z5countIJidcEEiDpT_(i32 noundef %0, double noundef %1, i8 noundef signext %2) #3 comdat !dbg !215 {
  %4 = alloca i32, align 4
  %5 = alloca double, align 8
  %6 = alloca i8, align 1
  store i32 %0, i32* %4, align 4
  call void @llvm.dbg.declare(metadata i32* %4, metadata !225, metadata !DIExpression()), !dbg !226
  store double %1, double* %5, align 8
  call void @llvm.dbg.declare(metadata double* %5, metadata !227, metadata !DIExpression()), !dbg !226
  store i8 %2, i8* %6, align 1
  call void @llvm.dbg.declare(metadata i8* %6, metadata !228, metadata !DIExpression()), !dbg !226
  ret i32 3, !dbg !229
}

; Function Attrs: mustprogress noinline nounwind optnone uwtable
define linkonce_odr dso_local noundef i32 @_ZNK3ArrIiLi2EE3getEi(%struct.Arr.1* noundef nonnull align 4 dereferenceable(8) %0, i32 noundef %1) #3 comdat align 2 !dbg !230 {
  %3 = alloca %struct.Arr.1*, align 8
  %4 = alloca i32, align 4
  store %struct.Arr.1* %0, %struct.Arr.1** %3, align 8
  call void @llvm.dbg.declare(metadata %struct.Arr.1** %3, metadata !231, metadata !DIExpression()), !dbg !233
  store i32 %1, i32* %4, align 4
  call void @llvm.dbg.declare(metadata i32* %4, metadata !234, metadata !DIExpression()), !dbg !235
  %5 = load %struct.Arr.1*, %struct.Arr.1** %3, align 8
  %6 = getelementptr inbounds %struct.Arr.1, %struct.Arr.1* %5, i32 0, i32 0, !dbg !236
  %7 = load i32, i32* %4, align 4, !dbg !237
  %8 = sext i32 %7 to i64, !dbg !236
  %9 = getelementptr inbounds [2 x i32], [2 x i32]* %6, i64 0, i64 %8, !dbg !236
  %10 = load i32, i32* %9, align 4, !dbg !236
  ret i32 %10, !dbg !238
}

declare i8* @__cxa_allocate_exception(i64)

declare void @__cxa_throw(i8*, i8*, i8*)

declare i32 @__gxx_personality_v0(...)

; Function Attrs: nounwind readnone
declare i32 @llvm.eh.typeid.for(i8*) #4

declare i8* @__cxa_begin_catch(i8*)

declare void @__cxa_end_catch()

; Function Attrs: noinline nounwind optnone uwtable
define linkonce_odr dso_local void @_ZN7DerivedC2Ev(%struct.Derived* noundef nonnull align 8 dereferenceable(16) %0) unnamed_addr #5 comdat align 2 !dbg !239 {
  %2 = alloca %struct.Derived*, align 8
  store %struct.Derived* %0, %struct.Derived** %2, align 8
  call void @llvm.dbg.declare(metadata %struct.Derived** %2, metadata !243, metadata !DIExpression()), !dbg !245
  %3 = load %struct.Derived*, %struct.Derived** %2, align 8
  %4 = bitcast %struct.Derived* %3 to %struct.Base*, !dbg !246
  call void @_ZN4BaseC2Ev(%struct.Base* noundef nonnull align 8 dereferenceable(12) %4) #8, !dbg !246
  %5 = bitcast %struct.Derived* %3 to i32 (...)***, !dbg !246
  store i32 (...)** bitcast (i8** getelementptr inbounds ({ [5 x i8*] }, { [5 x i8*] }* @_ZTV7Derived, i32 0, inrange i32 0, i32 2) to i32 (...)**), i32 (...)*** %5, align 8, !dbg !246
  ret void, !dbg !246
}

; Function Attrs: noinline nounwind optnone uwtable
define linkonce_odr dso_local void @_ZN7DerivedD2Ev(%struct.Derived* noundef nonnull align 8 dereferenceable(16) %0) unnamed_addr #5 comdat align 2 !dbg !247 {
  %2 = alloca %struct.Derived*, align 8
  store %struct.Derived* %0, %struct.Derived** %2, align 8
  call void @llvm.dbg.declare(metadata %struct.Derived** %2, metadata !249, metadata !DIExpression()), !dbg !250
  %3 = load %struct.Derived*, %struct.Derived** %2, align 8
  %4 = bitcast %struct.Derived* %3 to %struct.Base*, !dbg !251
  call void @_ZN4BaseD2Ev(%struct.Base* noundef nonnull align 8 dereferenceable(12) %4) #8, !dbg !251
  ret void, !dbg !253
}

; Function Attrs: mustprogress noinline nounwind optnone uwtable
define linkonce_odr dso_local noundef i32 @_ZNK3ArrIiLi3EE3getEi(%struct.Arr* noundef nonnull align 4 dereferenceable(12) %0, i32 noundef %1) #3 comdat align 2 !dbg !254 {
  %3 = alloca %struct.Arr*, align 8
  %4 = alloca i32, align 4
  store %struct.Arr* %0, %struct.Arr** %3, align 8
  call void @llvm.dbg.declare(metadata %struct.Arr** %3, metadata !255, metadata !DIExpression()), !dbg !257
  store i32 %1, i32* %4, align 4
  call void @llvm.dbg.declare(metadata i32* %4, metadata !258, metadata !DIExpression()), !dbg !259
  %5 = load %struct.Arr*, %struct.Arr** %3, align 8
  %6 = getelementptr inbounds %struct.Arr, %struct.Arr* %5, i32 0, i32 0, !dbg !260
  %7 = load i32, i32* %4, align 4, !dbg !261
  %8 = sext i32 %7 to i64, !dbg !260
  %9 = getelementptr inbounds [3 x i32], [3 x i32]* %6, i64 0, i64 %8, !dbg !260
  %10 = load i32, i32* %9, align 4, !dbg !260
  ret i32 %10, !dbg !262
}

; Function Attrs: noinline nounwind optnone uwtable
define linkonce_odr dso_local void @_ZN4BaseC2Ev(%struct.Base* noundef nonnull align 8 dereferenceable(12) %0) unnamed_addr #5 comdat align 2 !dbg !263 {
  %2 = alloca %struct.Base*, align 8
  store %struct.Base* %0, %struct.Base** %2, align 8
  call void @llvm.dbg.declare(metadata %struct.Base** %2, metadata !265, metadata !DIExpression()), !dbg !266
  %3 = load %struct.Base*, %struct.Base** %2, align 8
  %4 = bitcast %struct.Base* %3 to i32 (...)***, !dbg !267
  store i32 (...)** bitcast (i8** getelementptr inbounds ({ [5 x i8*] }, { [5 x i8*] }* @_ZTV4Base, i32 0, inrange i32 0, i32 2) to i32 (...)**), i32 (...)*** %4, align 8, !dbg !267
  ret void, !dbg !267
}

; Function Attrs: noinline nounwind optnone uwtable
define linkonce_odr dso_local void @_ZN7DerivedD0Ev(%struct.Derived* noundef nonnull align 8 dereferenceable(16) %0) unnamed_addr #5 comdat align 2 !dbg !268 {
  %2 = alloca %struct.Derived*, align 8
  store %struct.Derived* %0, %struct.Derived** %2, align 8
  call void @llvm.dbg.declare(metadata %struct.Derived** %2, metadata !269, metadata !DIExpression()), !dbg !270
  %3 = load %struct.Derived*, %struct.Derived** %2, align 8
  call void @_ZN7DerivedD2Ev(%struct.Derived* noundef nonnull align 8 dereferenceable(16) %3) #8, !dbg !271
  %4 = bitcast %struct.Derived* %3 to i8*, !dbg !271
  call void @_ZdlPv(i8* noundef %4) #10, !dbg !271
  ret void, !dbg !271
}

; Function Attrs: mustprogress noinline nounwind optnone uwtable
define linkonce_odr dso_local noundef i32 @_ZN7Derived1fEv(%struct.Derived* noundef nonnull align 8 dereferenceable(16) %0) unnamed_addr #3 comdat align 2 !dbg !272 {
  %2 = alloca %struct.Derived*, align 8
  store %struct.Derived* %0, %struct.Derived** %2, align 8
  call void @llvm.dbg.declare(metadata %struct.Derived** %2, metadata !273, metadata !DIExpression()), !dbg !274
  %3 = load %struct.Derived*, %struct.Derived** %2, align 8
  %4 = getelementptr inbounds %struct.Derived, %struct.Derived* %3, i32 0, i32 1, !dbg !275
  %5 = load i32, i32* %4, align 4, !dbg !275
  %6 = bitcast %struct.Derived* %3 to %struct.Base*, !dbg !276
  %7 = getelementptr inbounds %struct.Base, %struct.Base* %6, i32 0, i32 1, !dbg !276
  %8 = load i32, i32* %7, align 8, !dbg !276
  %9 = add nsw i32 %5, %8, !dbg !277
  ret i32 %9, !dbg !278
}

; Function Attrs: noinline nounwind optnone uwtable
define linkonce_odr dso_local void @_ZN4BaseD2Ev(%struct.Base* noundef nonnull align 8 dereferenceable(12) %0) unnamed_addr #5 comdat align 2 !dbg !279 {
  %2 = alloca %struct.Base*, align 8
  store %struct.Base* %0, %struct.Base** %2, align 8
  call void @llvm.dbg.declare(metadata %struct.Base** %2, metadata !280, metadata !DIExpression()), !dbg !281
  %3 = load %struct.Base*, %struct.Base** %2, align 8
  ret void, !dbg !282
}

; Function Attrs: noinline nounwind optnone uwtable
define linkonce_odr dso_local void @_ZN4BaseD0Ev(%struct.Base* noundef nonnull align 8 dereferenceable(12) %0) unnamed_addr #5 comdat align 2 !dbg !283 {
  %2 = alloca %struct.Base*, align 8
  store %struct.Base* %0, %struct.Base** %2, align 8
  call void @llvm.dbg.declare(metadata %struct.Base** %2, metadata !284, metadata !DIExpression()), !dbg !285
  %3 = load %struct.Base*, %struct.Base** %2, align 8
  call void @llvm.trap() #11, !dbg !286
  unreachable, !dbg !286
}

declare void @__cxa_pure_virtual() unnamed_addr

; Function Attrs: cold noreturn nounwind
declare void @llvm.trap() #6

; Function Attrs: nobuiltin nounwind
declare void @_ZdlPv(i8* noundef) #7

attributes #0 = { mustprogress noinline optnone uwtable "frame-pointer"="all" "min-legal-vector-width"="0" "no-trapping-math"="true" "stack-protector-buffer-size"="8" "target-cpu"="x86-64" "target-features"="+cx8,+fxsr,+mmx,+sse,+sse2,+x87" "tune-cpu"="generic" }
attributes #1 = { nofree nosync nounwind readnone speculatable willreturn }
attributes #2 = { argmemonly nofree nounwind willreturn }
attributes #3 = { mustprogress noinline nounwind optnone uwtable "frame-pointer"="all" "min-legal-vector-width"="0" "no-trapping-math"="true" "stack-protector-buffer-size"="8" "target-cpu"="x86-64" "target-features"="+cx8,+fxsr,+mmx,+sse,+sse2,+x87" "tune-cpu"="generic" }
attributes #4 = { nounwind readnone }
attributes #5 = { noinline nounwind optnone uwtable "frame-pointer"="all" "min-legal-vector-width"="0" "no-trapping-math"="true" "stack-protector-buffer-size"="8" "target-cpu"="x86-64" "target-features"="+cx8,+fxsr,+mmx,+sse,+sse2,+x87" "tune-cpu"="generic" }
attributes #6 = { cold noreturn nounwind }
attributes #7 = { nobuiltin nounwind "frame-pointer"="all" "no-trapping-math"="true" "stack-protector-buffer-size"="8" "target-cpu"="x86-64" "target-features"="+cx8,+fxsr,+mmx,+sse,+sse2,+x87" "tune-cpu"="generic" }
attributes #8 = { nounwind }
attributes #9 = { noreturn }
attributes #10 = { builtin nounwind }
attributes #11 = { noreturn nounwind }

!llvm.dbg.cu = !{!8}
!llvm.module.flags = !{!62, !63, !64, !65, !66, !67, !68}
!llvm.ident = !{!69}

!0 = !DIGlobalVariableExpression(var: !1, expr: !DIExpression())
!1 = distinct !DIGlobalVariable(name: "deep", linkageName: "_ZN5outer5inner4deepE", scope: !2, file: !4, line: 1, type: !5, isLocal: false, isDefinition: true)
!2 = !DINamespace(name: "inner", scope: !3)
!3 = !DINamespace(name: "outer", scope: null)
!4 = !DIFile(filename: "b.cpp", directory: "/tmp/corpgen", checksumkind: CSK_MD5, checksum: "cfa514d09f19ab4827756ffde2213ddd")
!5 = !DIBasicType(name: "int", size: 32, encoding: DW_ATE_signed)
!6 = !DIGlobalVariableExpression(var: !7, expr: !DIExpression())
!7 = distinct !DIGlobalVariable(name: "count", linkageName: "_ZN3ArrIiLi3EE5countE", scope: !8, file: !4, line: 5, type: !5, isLocal: false, isDefinition: true, declaration: !47)
!8 = distinct !DICompileUnit(language: DW_LANG_C_plus_plus_14, file: !4, producer: "Debian clang version 14.0.6", isOptimized: false, runtimeVersion: 0, emissionKind: FullDebug, enums: !9, retainedTypes: !16, globals: !42, imports: !43, splitDebugInlining: false, nameTableKind: None)
!9 = !{!10}
!10 = !DICompositeType(tag: DW_TAG_enumeration_type, name: "Mode", file: !4, line: 9, baseType: !11, size: 8, flags: DIFlagEnumClass, elements: !12, identifier: "_ZTS4Mode")
!11 = !DIBasicType(name: "unsigned char", size: 8, encoding: DW_ATE_unsigned_char)
!12 = !{!13, !14, !15}
!13 = !DIEnumerator(name: "A", value: 0, isUnsigned: true)
!14 = !DIEnumerator(name: "B", value: 1, isUnsigned: true)
!15 = !DIEnumerator(name: "C", value: 2, isUnsigned: true)
!16 = !{!5, !17, !20}
!17 = distinct !DICompositeType(tag: DW_TAG_structure_type, name: "Derived", file: !4, line: 7, size: 128, flags: DIFlagTypePassByReference | DIFlagNonTrivial, elements: !18, vtableHolder: !20, identifier: "_ZTS7Derived")
!18 = !{!19, !35, !36, !38}
!19 = !DIDerivedType(tag: DW_TAG_inheritance, scope: !17, baseType: !20, extraData: i32 0)
!20 = distinct !DICompositeType(tag: DW_TAG_structure_type, name: "Base", file: !4, line: 6, size: 128, flags: DIFlagTypePassByReference | DIFlagNonTrivial, elements: !21, vtableHolder: !20, identifier: "_ZTS4Base")
!21 = !{!22, !27, !28, !32}
!22 = !DIDerivedType(tag: DW_TAG_member, name: "_vptr$Base", scope: !4, file: !4, baseType: !23, size: 64, flags: DIFlagArtificial)
!23 = !DIDerivedType(tag: DW_TAG_pointer_type, baseType: !24, size: 64)
!24 = !DIDerivedType(tag: DW_TAG_pointer_type, name: "__vtbl_ptr_type", baseType: !25, size: 64)
!25 = !DISubroutineType(types: !26)
!26 = !{!5}
!27 = !DIDerivedType(tag: DW_TAG_member, name: "b", scope: !20, file: !4, line: 6, baseType: !5, size: 32, offset: 64)
!28 = !DISubprogram(name: "~Base", scope: !20, file: !4, line: 6, type: !29, scopeLine: 6, containingType: !20, virtualIndex: 0, flags: DIFlagPrototyped, spFlags: DISPFlagVirtual)
!29 = !DISubroutineType(types: !30)
!30 = !{null, !31}
!31 = !DIDerivedType(tag: DW_TAG_pointer_type, baseType: !20, size: 64, flags: DIFlagArtificial | DIFlagObjectPointer)
!32 = !DISubprogram(name: "f", linkageName: "_ZN4Base1fEv", scope: !20, file: !4, line: 6, type: !33, scopeLine: 6, containingType: !20, virtualIndex: 2, flags: DIFlagPrototyped, spFlags: DISPFlagPureVirtual)
!33 = !DISubroutineType(types: !34)
!34 = !{!5, !31}
!35 = !DIDerivedType(tag: DW_TAG_member, name: "d", scope: !17, file: !4, line: 7, baseType: !5, size: 32, offset: 96)
!36 = !DIDerivedType(tag: DW_TAG_member, name: "K", scope: !17, file: !4, line: 7, baseType: !37, flags: DIFlagStaticMember, extraData: i32 7)
!37 = !DIDerivedType(tag: DW_TAG_const_type, baseType: !5)
!38 = !DISubprogram(name: "f", linkageName: "_ZN7Derived1fEv", scope: !17, file: !4, line: 7, type: !39, scopeLine: 7, containingType: !17, virtualIndex: 2, flags: DIFlagPrototyped, spFlags: DISPFlagVirtual)
!39 = !DISubroutineType(types: !40)
!40 = !{!5, !41}
!41 = !DIDerivedType(tag: DW_TAG_pointer_type, baseType: !17, size: 64, flags: DIFlagArtificial | DIFlagObjectPointer)
!42 = !{!0, !6}
!43 = !{!44, !45, !46}
!44 = !DIImportedEntity(tag: DW_TAG_imported_module, scope: !3, entity: !2, file: !4, line: 1)
!45 = !DIImportedEntity(tag: DW_TAG_imported_declaration, name: "alias", scope: !8, entity: !2, file: !4, line: 2)
!46 = !DIImportedEntity(tag: DW_TAG_imported_declaration, scope: !8, entity: !1, file: !4, line: 3)
!47 = !DIDerivedType(tag: DW_TAG_member, name: "count", scope: !48, file: !4, line: 4, baseType: !5, flags: DIFlagStaticMember)
!48 = distinct !DICompositeType(tag: DW_TAG_structure_type, name: "Arr<int, 3>", file: !4, line: 4, size: 96, flags: DIFlagTypePassByValue, elements: !49, templateParams: !59, identifier: "_ZTS3ArrIiLi3EE")
!49 = !{!50, !47, !54}
!50 = !DIDerivedType(tag: DW_TAG_member, name: "data", scope: !48, file: !4, line: 4, baseType: !51, size: 96)
!51 = !DICompositeType(tag: DW_TAG_array_type, baseType: !5, size: 96, elements: !52)
!52 = !{!53}
!53 = !DISubrange(count: 3)
!54 = !DISubprogram(name: "get", linkageName: "_ZNK3ArrIiLi3EE3getEi", scope: !48, file: !4, line: 4, type: !55, scopeLine: 4, flags: DIFlagPrototyped, spFlags: 0)
!55 = !DISubroutineType(types: !56)
!56 = !{!5, !57, !5}
!57 = !DIDerivedType(tag: DW_TAG_pointer_type, baseType: !58, size: 64, flags: DIFlagArtificial | DIFlagObjectPointer)
!58 = !DIDerivedType(tag: DW_TAG_const_type, baseType: !48)
!59 = !{!60, !61}
!60 = !DITemplateTypeParameter(name: "T", type: !5)
!61 = !DITemplateValueParameter(name: "N", type: !5, value: i32 3)
!62 = !{i32 7, !"Dwarf Version", i32 5}
!63 = !{i32 2, !"Debug Info Version", i32 3}
!64 = !{i32 1, !"wchar_size", i32 4}
!65 = !{i32 7, !"PIC Level", i32 2}
!66 = !{i32 7, !"PIE Level", i32 2}
!67 = !{i32 7, !"uwtable", i32 1}
!68 = !{i32 7, !"frame-pointer", i32 2}
!69 = !{!"Debian clang version 14.0.6"}
!70 = distinct !DISubprogram(name: "use", linkageName: "_Z3useP4Base4Mode", scope: !4, file: !4, line: 12, type: !71, scopeLine: 12, flags: DIFlagPrototyped, spFlags: DISPFlagDefinition, unit: !8, retainedNodes: !74)
!71 = !DISubroutineType(types: !72)
!72 = !{!5, !73, !10}
!73 = !DIDerivedType(tag: DW_TAG_pointer_type, baseType: !20, size: 64)
!74 = !{}
!75 = !DILocalVariable(name: "p", arg: 1, scope: !70, file: !4, line: 12, type: !73)
!76 = !DILocation(line: 12, column: 15, scope: !70)
!77 = !DILocalVariable(name: "m", arg: 2, scope: !70, file: !4, line: 12, type: !10)
!78 = !DILocation(line: 12, column: 23, scope: !70)
!79 = !DILocalVariable(name: "a", scope: !70, file: !4, line: 13, type: !48)
!80 = !DILocation(line: 13, column: 15, scope: !70)
!81 = !DILocalVariable(name: "b", scope: !70, file: !4, line: 14, type: !82)
!82 = distinct !DICompositeType(tag: DW_TAG_structure_type, name: "Arr<double, 2>", file: !4, line: 4, size: 128, flags: DIFlagTypePassByValue, elements: !83, templateParams: !95, identifier: "_ZTS3ArrIdLi2EE")
!83 = !{!84, !89, !90}
!84 = !DIDerivedType(tag: DW_TAG_member, name: "data", scope: !82, file: !4, line: 4, baseType: !85, size: 128)
!85 = !DICompositeType(tag: DW_TAG_array_type, baseType: !86, size: 128, elements: !87)
!86 = !DIBasicType(name: "double", size: 64, encoding: DW_ATE_float)
!87 = !{!88}
!88 = !DISubrange(count: 2)
!89 = !DIDerivedType(tag: DW_TAG_member, name: "count", scope: !82, file: !4, line: 4, baseType: !5, flags: DIFlagStaticMember)
!90 = !DISubprogram(name: "get", linkageName: "_ZNK3ArrIdLi2EE3getEi", scope: !82, file: !4, line: 4, type: !91, scopeLine: 4, flags: DIFlagPrototyped, spFlags: 0)
!91 = !DISubroutineType(types: !92)
!92 = !{!86, !93, !5}
!93 = !DIDerivedType(tag: DW_TAG_pointer_type, baseType: !94, size: 64, flags: DIFlagArtificial | DIFlagObjectPointer)
!94 = !DIDerivedType(tag: DW_TAG_const_type, baseType: !82)
!95 = !{!96, !97}
!96 = !DITemplateTypeParameter(name: "T", type: !86)
!97 = !DITemplateValueParameter(name: "N", type: !5, value: i32 2)
!98 = !DILocation(line: 14, column: 18, scope: !70)
!99 = !DILocalVariable(name: "w", scope: !70, file: !4, line: 15, type: !100)
!100 = distinct !DICompositeType(tag: DW_TAG_structure_type, name: "Wrap<Arr>", file: !4, line: 11, size: 64, flags: DIFlagTypePassByValue, elements: !101, templateParams: !114, identifier: "_ZTS4WrapI3ArrE")
!101 = !{!102}
!102 = !DIDerivedType(tag: DW_TAG_member, name: "c", scope: !100, file: !4, line: 11, baseType: !103, size: 64)
!103 = distinct !DICompositeType(tag: DW_TAG_structure_type, name: "Arr<int, 2>", file: !4, line: 4, size: 64, flags: DIFlagTypePassByValue, elements: !104, templateParams: !113, identifier: "_ZTS3ArrIiLi2EE")
!104 = !{!105, !107, !108}
!105 = !DIDerivedType(tag: DW_TAG_member, name: "data", scope: !103, file: !4, line: 4, baseType: !106, size: 64)
!106 = !DICompositeType(tag: DW_TAG_array_type, baseType: !5, size: 64, elements: !87)
!107 = !DIDerivedType(tag: DW_TAG_member, name: "count", scope: !103, file: !4, line: 4, baseType: !5, flags: DIFlagStaticMember)
!108 = !DISubprogram(name: "get", linkageName: "_ZNK3ArrIiLi2EE3getEi", scope: !103, file: !4, line: 4, type: !109, scopeLine: 4, flags: DIFlagPrototyped, spFlags: 0)
!109 = !DISubroutineType(types: !110)
!110 = !{!5, !111, !5}
!111 = !DIDerivedType(tag: DW_TAG_pointer_type, baseType: !112, size: 64, flags: DIFlagArtificial | DIFlagObjectPointer)
!112 = !DIDerivedType(tag: DW_TAG_const_type, baseType: !103)
!113 = !{!60, !97}
!114 = !{!115}
!115 = !DITemplateValueParameter(tag: DW_TAG_GNU_template_template_param, name: "C", value: !"Arr")
!116 = !DILocation(line: 15, column: 13, scope: !70)
!117 = !DILocation(line: 15, column: 18, scope: !70)
!118 = !DILocation(line: 15, column: 20, scope: !70)
!119 = !DILocation(line: 15, column: 16, scope: !70)
!120 = !DILocation(line: 15, column: 28, scope: !70)
!121 = !DILocalVariable(name: "lam", scope: !70, file: !4, line: 16, type: !122)
!122 = distinct !DICompositeType(tag: DW_TAG_class_type, scope: !70, file: !4, line: 16, size: 64, flags: DIFlagTypePassByValue | DIFlagNonTrivial, elements: !123)
!123 = !{!124}
!124 = !DIDerivedType(tag: DW_TAG_member, name: "a", scope: !122, file: !4, line: 16, baseType: !125, size: 64)
!125 = !DIDerivedType(tag: DW_TAG_reference_type, baseType: !48, size: 64)
!126 = !DILocation(line: 16, column: 8, scope: !70)
!127 = !DILocation(line: 16, column: 14, scope: !70)
!128 = !DILocalVariable(name: "r", scope: !70, file: !4, line: 17, type: !5)
!129 = !DILocation(line: 17, column: 7, scope: !70)
!130 = !DILocation(line: 17, column: 11, scope: !70)
!131 = !DILocation(line: 17, column: 20, scope: !70)
!132 = !DILocation(line: 17, column: 23, scope: !70)
!133 = !DILocation(line: 17, column: 18, scope: !70)
!134 = !DILocation(line: 17, column: 36, scope: !70)
!135 = !DILocation(line: 17, column: 34, scope: !70)
!136 = !DILocation(line: 17, column: 27, scope: !70)
!137 = !DILocation(line: 17, column: 45, scope: !70)
!138 = !DILocation(line: 17, column: 43, scope: !70)
!139 = !DILocation(line: 17, column: 66, scope: !70)
!140 = !DILocation(line: 17, column: 64, scope: !70)
!141 = !DILocation(line: 17, column: 88, scope: !70)
!142 = !DILocation(line: 17, column: 90, scope: !70)
!143 = !DILocation(line: 17, column: 84, scope: !70)
!144 = !DILocation(line: 18, column: 13, scope: !145)
!145 = distinct !DILexicalBlock(scope: !146, file: !4, line: 18, column: 13)
!146 = distinct !DILexicalBlock(scope: !70, file: !4, line: 18, column: 7)
!147 = !DILocation(line: 18, column: 15, scope: !145)
!148 = !DILocation(line: 18, column: 13, scope: !146)
!149 = !DILocation(line: 18, column: 27, scope: !145)
!150 = !DILocation(line: 24, column: 1, scope: !145)
!151 = !DILocation(line: 18, column: 37, scope: !146)
!152 = !DILocalVariable(name: "e", scope: !70, file: !4, line: 18, type: !5)
!153 = !DILocation(line: 18, column: 50, scope: !70)
!154 = !DILocation(line: 18, column: 87, scope: !155)
!155 = distinct !DILexicalBlock(scope: !70, file: !4, line: 18, column: 77)
!156 = !DILocation(line: 18, column: 60, scope: !157)
!157 = distinct !DILexicalBlock(scope: !70, file: !4, line: 18, column: 53)
!158 = !DILocation(line: 18, column: 57, scope: !157)
!159 = !DILocation(line: 18, column: 63, scope: !157)
!160 = !DILocalVariable(name: "pm", scope: !70, file: !4, line: 19, type: !161)
!161 = !DIDerivedType(tag: DW_TAG_ptr_to_member_type, baseType: !5, size: 64, extraData: !17)
!162 = !DILocation(line: 19, column: 17, scope: !70)
!163 = !DILocalVariable(name: "pf", scope: !70, file: !4, line: 20, type: !164)
!164 = !DIDerivedType(tag: DW_TAG_ptr_to_member_type, baseType: !33, size: 128, extraData: !20)
!165 = !DILocation(line: 20, column: 15, scope: !70)
!166 = !DILocalVariable(name: "dd", scope: !70, file: !4, line: 21, type: !17)
!167 = !DILocation(line: 21, column: 11, scope: !70)
!168 = !DILocation(line: 21, column: 18, scope: !70)
!169 = !DILocation(line: 21, column: 20, scope: !70)
!170 = !DILocation(line: 21, column: 25, scope: !70)
!171 = !DILocation(line: 21, column: 28, scope: !70)
!172 = !DILocation(line: 21, column: 30, scope: !70)
!173 = !DILocation(line: 22, column: 12, scope: !70)
!174 = !DILocation(line: 22, column: 10, scope: !70)
!175 = !DILocation(line: 22, column: 18, scope: !70)
!176 = !DILocation(line: 22, column: 22, scope: !70)
!177 = !DILocation(line: 22, column: 17, scope: !70)
!178 = !DILocation(line: 18, column: 81, scope: !155)
!179 = !DILocation(line: 22, column: 15, scope: !70)
!180 = !DILocation(line: 22, column: 5, scope: !70)
!181 = !DILocation(line: 23, column: 10, scope: !70)
!182 = !DILocation(line: 23, column: 14, scope: !70)
!183 = !DILocation(line: 23, column: 12, scope: !70)
!184 = !DILocation(line: 24, column: 1, scope: !70)
!185 = distinct !DISubprogram(name: "operator()", linkageName: "_ZZ3useP4Base4ModeENK3$_0clEi", scope: !122, file: !4, line: 16, type: !186, scopeLine: 16, flags: DIFlagPrototyped, spFlags: DISPFlagLocalToUnit | DISPFlagDefinition, unit: !8, declaration: !190, retainedNodes: !74)
!186 = !DISubroutineType(types: !187)
!187 = !{!5, !188, !5}
!188 = !DIDerivedType(tag: DW_TAG_pointer_type, baseType: !189, size: 64, flags: DIFlagArtificial | DIFlagObjectPointer)
!189 = !DIDerivedType(tag: DW_TAG_const_type, baseType: !122)
!190 = !DISubprogram(name: "operator()", scope: !122, file: !4, line: 16, type: !191, scopeLine: 16, flags: DIFlagPublic | DIFlagPrototyped, spFlags: DISPFlagLocalToUnit)
!191 = !DISubroutineType(types: !192)
!192 = !{!193, !188, !5}
!193 = !DIBasicType(tag: DW_TAG_unspecified_type, name: "auto")
!194 = !DILocalVariable(name: "this", arg: 1, scope: !185, type: !195, flags: DIFlagArtificial | DIFlagObjectPointer)
!195 = !DIDerivedType(tag: DW_TAG_pointer_type, baseType: !189, size: 64)
!196 = !DILocation(line: 0, scope: !185)
!197 = !DILocalVariable(name: "x", arg: 2, scope: !185, file: !4, line: 16, type: !5)
!198 = !DILocation(line: 16, column: 22, scope: !185)
!199 = !DILocation(line: 16, column: 34, scope: !185)
!200 = !DILocation(line: 16, column: 38, scope: !185)
!201 = !DILocation(line: 16, column: 40, scope: !185)
!202 = !DILocation(line: 16, column: 36, scope: !185)
!203 = !DILocation(line: 16, column: 49, scope: !185)
!204 = !DILocation(line: 16, column: 47, scope: !185)
!205 = !DILocation(line: 16, column: 27, scope: !185)
!206 = distinct !DISubprogram(name: "get", linkageName: "_ZNK3ArrIdLi2EE3getEi", scope: !82, file: !4, line: 4, type: !91, scopeLine: 4, flags: DIFlagPrototyped, spFlags: DISPFlagDefinition, unit: !8, declaration: !90, retainedNodes: !74)
!207 = !DILocalVariable(name: "this", arg: 1, scope: !206, type: !208, flags: DIFlagArtificial | DIFlagObjectPointer)
!208 = !DIDerivedType(tag: DW_TAG_pointer_type, baseType: !94, size: 64)
!209 = !DILocation(line: 0, scope: !206)
!210 = !DILocalVariable(name: "i", arg: 2, scope: !206, file: !4, line: 4, type: !5)
!211 = !DILocation(line: 4, column: 64, scope: !206)
!212 = !DILocation(line: 4, column: 82, scope: !206)
!213 = !DILocation(line: 4, column: 87, scope: !206)
!214 = !DILocation(line: 4, column: 75, scope: !206)
!215 = distinct !DISubprogram(name: "count<int, double, char>", linkageName: "_Z5countIJidcEEiDpT_", scope: !4, file: !4, line: 10, type: !216, scopeLine: 10, flags: DIFlagPrototyped, spFlags: DISPFlagDefinition, unit: !8, templateParams: !219, retainedNodes: !74)
!216 = !DISubroutineType(types: !217)
!217 = !{!5, !5, !86, !218}
!218 = !DIBasicType(name: "char", size: 8, encoding: DW_ATE_signed_char)
!219 = !{!220}
!220 = !DITemplateValueParameter(tag: DW_TAG_GNU_template_parameter_pack, name: "Ts", value: !221)
!221 = !{!222, !223, !224}
!222 = !DITemplateTypeParameter(type: !5)
!223 = !DITemplateTypeParameter(type: !86)
!224 = !DITemplateTypeParameter(type: !218)
!225 = !DILocalVariable(name: "ts", arg: 1, scope: !215, file: !4, line: 10, type: !5)
!226 = !DILocation(line: 10, column: 43, scope: !215)
!227 = !DILocalVariable(name: "ts", arg: 2, scope: !215, file: !4, line: 10, type: !86)
!228 = !DILocalVariable(name: "ts", arg: 3, scope: !215, file: !4, line: 10, type: !218)
!229 = !DILocation(line: 10, column: 49, scope: !215)
!230 = distinct !DISubprogram(name: "get", linkageName: "_ZNK3ArrIiLi2EE3getEi", scope: !103, file: !4, line: 4, type: !109, scopeLine: 4, flags: DIFlagPrototyped, spFlags: DISPFlagDefinition, unit: !8, declaration: !108, retainedNodes: !74)
!231 = !DILocalVariable(name: "this", arg: 1, scope: !230, type: !232, flags: DIFlagArtificial | DIFlagObjectPointer)
!232 = !DIDerivedType(tag: DW_TAG_pointer_type, baseType: !112, size: 64)
!233 = !DILocation(line: 0, scope: !230)
!234 = !DILocalVariable(name: "i", arg: 2, scope: !230, file: !4, line: 4, type: !5)
!235 = !DILocation(line: 4, column: 64, scope: !230)
!236 = !DILocation(line: 4, column: 82, scope: !230)
!237 = !DILocation(line: 4, column: 87, scope: !230)
!238 = !DILocation(line: 4, column: 75, scope: !230)
!239 = distinct !DISubprogram(name: "Derived", linkageName: "_ZN7DerivedC2Ev", scope: !17, file: !4, line: 7, type: !240, scopeLine: 7, flags: DIFlagArtificial | DIFlagPrototyped, spFlags: DISPFlagDefinition, unit: !8, declaration: !242, retainedNodes: !74)
!240 = !DISubroutineType(types: !241)
!241 = !{null, !41}
!242 = !DISubprogram(name: "Derived", scope: !17, type: !240, flags: DIFlagArtificial | DIFlagPrototyped, spFlags: 0)
!243 = !DILocalVariable(name: "this", arg: 1, scope: !239, type: !244, flags: DIFlagArtificial | DIFlagObjectPointer)
!244 = !DIDerivedType(tag: DW_TAG_pointer_type, baseType: !17, size: 64)
!245 = !DILocation(line: 0, scope: !239)
!246 = !DILocation(line: 7, column: 8, scope: !239)
!247 = distinct !DISubprogram(name: "~Derived", linkageName: "_ZN7DerivedD2Ev", scope: !17, file: !4, line: 7, type: !240, scopeLine: 7, flags: DIFlagArtificial | DIFlagPrototyped, spFlags: DISPFlagDefinition, unit: !8, declaration: !248, retainedNodes: !74)
!248 = !DISubprogram(name: "~Derived", scope: !17, type: !240, containingType: !17, virtualIndex: 0, flags: DIFlagArtificial | DIFlagPrototyped, spFlags: DISPFlagVirtual)
!249 = !DILocalVariable(name: "this", arg: 1, scope: !247, type: !244, flags: DIFlagArtificial | DIFlagObjectPointer)
!250 = !DILocation(line: 0, scope: !247)
!251 = !DILocation(line: 7, column: 8, scope: !252)
!252 = distinct !DILexicalBlock(scope: !247, file: !4, line: 7, column: 8)
!253 = !DILocation(line: 7, column: 8, scope: !247)
!254 = distinct !DISubprogram(name: "get", linkageName: "_ZNK3ArrIiLi3EE3getEi", scope: !48, file: !4, line: 4, type: !55, scopeLine: 4, flags: DIFlagPrototyped, spFlags: DISPFlagDefinition, unit: !8, declaration: !54, retainedNodes: !74)
!255 = !DILocalVariable(name: "this", arg: 1, scope: !254, type: !256, flags: DIFlagArtificial | DIFlagObjectPointer)
!256 = !DIDerivedType(tag: DW_TAG_pointer_type, baseType: !58, size: 64)
!257 = !DILocation(line: 0, scope: !254)
!258 = !DILocalVariable(name: "i", arg: 2, scope: !254, file: !4, line: 4, type: !5)
!259 = !DILocation(line: 4, column: 64, scope: !254)
!260 = !DILocation(line: 4, column: 82, scope: !254)
!261 = !DILocation(line: 4, column: 87, scope: !254)
!262 = !DILocation(line: 4, column: 75, scope: !254)
!263 = distinct !DISubprogram(name: "Base", linkageName: "_ZN4BaseC2Ev", scope: !20, file: !4, line: 6, type: !29, scopeLine: 6, flags: DIFlagArtificial | DIFlagPrototyped, spFlags: DISPFlagDefinition, unit: !8, declaration: !264, retainedNodes: !74)
!264 = !DISubprogram(name: "Base", scope: !20, type: !29, flags: DIFlagArtificial | DIFlagPrototyped, spFlags: 0)
!265 = !DILocalVariable(name: "this", arg: 1, scope: !263, type: !73, flags: DIFlagArtificial | DIFlagObjectPointer)
!266 = !DILocation(line: 0, scope: !263)
!267 = !DILocation(line: 6, column: 8, scope: !263)
!268 = distinct !DISubprogram(name: "~Derived", linkageName: "_ZN7DerivedD0Ev", scope: !17, file: !4, line: 7, type: !240, scopeLine: 7, flags: DIFlagArtificial | DIFlagPrototyped, spFlags: DISPFlagDefinition, unit: !8, declaration: !248, retainedNodes: !74)
!269 = !DILocalVariable(name: "this", arg: 1, scope: !268, type: !244, flags: DIFlagArtificial | DIFlagObjectPointer)
!270 = !DILocation(line: 0, scope: !268)
!271 = !DILocation(line: 7, column: 8, scope: !268)
!272 = distinct !DISubprogram(name: "f", linkageName: "_ZN7Derived1fEv", scope: !17, file: !4, line: 7, type: !39, scopeLine: 7, flags: DIFlagPrototyped, spFlags: DISPFlagDefinition, unit: !8, declaration: !38, retainedNodes: !74)
!273 = !DILocalVariable(name: "this", arg: 1, scope: !272, type: !244, flags: DIFlagArtificial | DIFlagObjectPointer)
!274 = !DILocation(line: 0, scope: !272)
!275 = !DILocation(line: 7, column: 58, scope: !272)
!276 = !DILocation(line: 7, column: 62, scope: !272)
!277 = !DILocation(line: 7, column: 60, scope: !272)
!278 = !DILocation(line: 7, column: 51, scope: !272)
!279 = distinct !DISubprogram(name: "~Base", linkageName: "_ZN4BaseD2Ev", scope: !20, file: !4, line: 6, type: !29, scopeLine: 6, flags: DIFlagPrototyped, spFlags: DISPFlagDefinition, unit: !8, declaration: !28, retainedNodes: !74)
!280 = !DILocalVariable(name: "this", arg: 1, scope: !279, type: !73, flags: DIFlagArtificial | DIFlagObjectPointer)
!281 = !DILocation(line: 0, scope: !279)
!282 = !DILocation(line: 6, column: 32, scope: !279)
!283 = distinct !DISubprogram(name: "~Base", linkageName: "_ZN4BaseD0Ev", scope: !20, file: !4, line: 6, type: !29, scopeLine: 6, flags: DIFlagPrototyped, spFlags: DISPFlagDefinition, unit: !8, declaration: !28, retainedNodes: !74)
!284 = !DILocalVariable(name: "this", arg: 1, scope: !283, type: !73, flags: DIFlagArtificial | DIFlagObjectPointer)
!285 = !DILocation(line: 0, scope: !283)
!286 = !DILocation(line: 6, column: 31, scope: !283)
