; ModuleID = '/tmp/autogen.bc'
source_filename = "/tmp/autogen.bc"

define void @autogen_SD3(i8* %0, i32* %1, i64* %2, i32 %3, i64 %4, i8 %5) {
BB:
  %A4 = alloca i16, align 2
  %A3 = alloca i1, align 1
  %A2 = alloca float, align 4
  %A1 = alloca i32, align 4
  %A = alloca i64, align 8
  %L = load i8, i8* %0, align 1
  store i8 %5, i8* %0, align 1
  %E = extractelement <4 x i1> zeroinitializer, i32 2
  br label %CF118

CF118:                                            ; preds = %CF118, %CF120, %BB
  %Shuff = shufflevector <2 x i64> zeroinitializer, <2 x i64> zeroinitializer, <2 x i32> <i32 1, i32 3>
  %I = insertelement <2 x i64> zeroinitializer, i64 64481, i32 1
  %B = urem <2 x i64> zeroinitializer, %Shuff
  %Sl = select i1 true, double 0x2E7BAC9ACD790118, double 0xE4D3B0F29FD12170
  %Cmp = icmp ult i1 %E, true
  br i1 %Cmp, label %CF118, label %CF120

CF120:                                            ; preds = %CF118
  %L5 = load i64, i64* %2, align 4
  store i8 %L, i8* %0, align 1
  %E6 = extractelement <2 x i64> zeroinitializer, i32 0
  %Shuff7 = shufflevector <2 x i16> zeroinitializer, <2 x i16> zeroinitializer, <2 x i32> <i32 undef, i32 3>
  %I8 = insertelement <2 x i16> %Shuff7, i16 0, i32 1
  %FC = sitofp i8 %L to double
  %Sl9 = select i1 %E, i32 39241, i32 %3
  %Cmp10 = icmp ne <2 x i8> zeroinitializer, zeroinitializer
  %L11 = load i8, i8* %0, align 1
  store i8 %L, i8* %0, align 1
  %E12 = extractelement <2 x i16> %Shuff7, i32 0
  %Shuff13 = shufflevector <2 x i1> %Cmp10, <2 x i1> %Cmp10, <2 x i32> <i32 3, i32 1>
  %I14 = insertelement <2 x i64> %I, i64 64481, i32 1
  %B15 = sdiv <2 x i32> zeroinitializer, zeroinitializer
  %Tr = trunc <2 x i64> %Shuff to <2 x i32>
  %Sl16 = select i1 true, i16 %E12, i16 %E12
  %Cmp17 = icmp slt i16 %Sl16, 0
  br i1 %Cmp17, label %CF118, label %CF119

CF119:                                            ; preds = %CF120
  %L18 = load i1, i1* %A3, align 1
  br label %CF117

CF117:                                            ; preds = %CF117, %CF119
  store i8 %L, i8* %0, align 1
  %E19 = extractelement <4 x i64> zeroinitializer, i32 1
  %Shuff20 = shufflevector <2 x i64> %Shuff, <2 x i64> %I14, <2 x i32> <i32 0, i32 2>
  %I21 = insertelement <2 x i16> zeroinitializer, i16 %Sl16, i32 0
  %FC22 = sitofp <2 x i32> %Tr to <2 x double>
  %Sl23 = select i1 %E, <2 x i32> zeroinitializer, <2 x i32> %B15
  %Cmp24 = fcmp oge float 0x422D262100000000, 0x40E6301A00000000
  br i1 %Cmp24, label %CF117, label %CF123

CF123:                                            ; preds = %CF117
  %L25 = load i8, i8* %0, align 1
  store i8 %L25, i8* %0, align 1
  %E26 = extractelement <4 x i64> zeroinitializer, i32 3
  %Shuff27 = shufflevector <2 x i1> %Cmp10, <2 x i1> %Cmp10, <2 x i32> <i32 2, i32 0>
  %I28 = insertelement <2 x i64> %Shuff20, i64 106597, i32 0
  %B29 = fdiv float 0x40E6301A00000000, 0x40E6301A00000000
  %ZE = zext i1 true to i32
  %Sl30 = select i1 true, <2 x i1> %Shuff13, <2 x i1> %Shuff27
  %Cmp31 = icmp ne i8 %L11, %L11
  br label %CF

CF:                                               ; preds = %CF, %CF122, %CF123
  %L32 = load i64, i64* %A, align 4
  store i8 %5, i8* %0, align 1
  %E33 = extractelement <2 x i64> zeroinitializer, i32 1
  %Shuff34 = shufflevector <16 x i8> zeroinitializer, <16 x i8> zeroinitializer, <16 x i32> <i32 18, i32 undef, i32 undef, i32 24, i32 26, i32 28, i32 30, i32 0, i32 2, i32 4, i32 6, i32 undef, i32 undef, i32 12, i32 14, i32 16>
  %I35 = insertelement <2 x i64> %Shuff, i64 106597, i32 0
  %B36 = add i8 %L, %5
  %FC37 = uitofp <2 x i8> zeroinitializer to <2 x double>
  %Sl38 = select i1 true, i1 %Cmp31, i1 %Cmp31
  br i1 %Sl38, label %CF, label %CF122

CF122:                                            ; preds = %CF
  %Cmp39 = icmp uge <2 x i16> zeroinitializer, zeroinitializer
  %L40 = load i8, i8* %0, align 1
  store i8 %L, i8* %0, align 1
  %E41 = extractelement <2 x i16> zeroinitializer, i32 1
  %Shuff42 = shufflevector <4 x i64> zeroinitializer, <4 x i64> zeroinitializer, <4 x i32> <i32 4, i32 6, i32 0, i32 2>
  %I43 = insertelement <1 x i16> zeroinitializer, i16 0, i32 0
  %B44 = fdiv float 0x40D1A46580000000, %B29
  %Se = sext <2 x i1> %Cmp39 to <2 x i64>
  %Sl45 = select i1 true, i8* %0, i8* %0
  %Cmp46 = icmp ugt <4 x i1> zeroinitializer, zeroinitializer
  %L47 = load i8, i8* %Sl45, align 1
  store i8 %L, i8* %Sl45, align 1
  %E48 = extractelement <2 x i16> zeroinitializer, i32 1
  %Shuff49 = shufflevector <2 x i64> %Shuff, <2 x i64> %Se, <2 x i32> <i32 2, i32 0>
  %I50 = insertelement <2 x double> %FC22, double 0xF413D032CF1160B0, i32 0
  %B51 = add i16 %Sl16, %E12
  %Se52 = sext <2 x i16> %I8 to <2 x i32>
  %Sl53 = select i1 true, i64 %L32, i64 106597
  %Cmp54 = icmp sgt <2 x i64> %Shuff20, %I14
  %L55 = load i8, i8* %Sl45, align 1
  store i8 %5, i8* %Sl45, align 1
  %E56 = extractelement <4 x i64> %Shuff42, i32 1
  %Shuff57 = shufflevector <2 x i64> zeroinitializer, <2 x i64> %I35, <2 x i32> <i32 0, i32 2>
  %I58 = insertelement <2 x i1> %Shuff27, i1 %E, i32 0
  %B59 = xor <16 x i8> zeroinitializer, %Shuff34
  %Tr60 = trunc <2 x i64> %Shuff20 to <2 x i8>
  %Sl61 = select i1 true, i8 %5, i8 %L11
  %Cmp62 = icmp uge <16 x i8> %Shuff34, %Shuff34
  %L63 = load i8, i8* %Sl45, align 1
  store i8 %L40, i8* %Sl45, align 1
  %E64 = extractelement <4 x i64> %Shuff42, i32 2
  %Shuff65 = shufflevector <2 x i1> %Sl30, <2 x i1> %Cmp10, <2 x i32> <i32 1, i32 3>
  %I66 = insertelement <2 x i64> %Shuff49, i64 %L32, i32 1
  %B67 = sub <2 x i64> %I, %Shuff57
  %Se68 = sext i8 %L25 to i64
  %Sl69 = select i1 true, i64 %L5, i64 %L32
  %Cmp70 = icmp sgt <2 x i64> %Se, %I35
  %L71 = load i8, i8* %Sl45, align 1
  store i8 %L, i8* %0, align 1
  %E72 = extractelement <2 x i64> %Shuff, i32 1
  %Shuff73 = shufflevector <2 x i64> %Shuff20, <2 x i64> %Shuff, <2 x i32> <i32 0, i32 2>
  %I74 = insertelement <2 x i64> %B, i64 %Se68, i32 0
  %B75 = udiv i64 %L5, %E33
  %Se76 = sext <2 x i1> %I58 to <2 x i32>
  %Sl77 = select i1 true, double %FC, double 0x2F5730769455CAF4
  %Cmp78 = icmp sgt <2 x i8> %Tr60, zeroinitializer
  %L79 = load i8, i8* %0, align 1
  store i8 %L79, i8* %0, align 1
  %E80 = extractelement <4 x i64> zeroinitializer, i32 3
  %Shuff81 = shufflevector <2 x i64> %Shuff20, <2 x i64> %I14, <2 x i32> <i32 2, i32 0>
  %I82 = insertelement <2 x i16> %I8, i16 0, i32 0
  %B83 = ashr i64 %Sl69, %E64
  %Tr84 = trunc i16 %E48 to i1
  br i1 %Tr84, label %CF, label %CF121

CF121:                                            ; preds = %CF121, %CF122
  %Sl85 = select <2 x i1> %Cmp10, <2 x i1> %I58, <2 x i1> %Cmp70
  %Cmp86 = icmp slt <2 x i64> %Shuff49, %Shuff
  %L87 = load i8, i8* %0, align 1
  store i8 %Sl61, i8* %Sl45, align 1
  %E88 = extractelement <4 x i64> %Shuff42, i32 2
  %Shuff89 = shufflevector <16 x i8> %Shuff34, <16 x i8> %Shuff34, <16 x i32> <i32 29, i32 undef, i32 1, i32 3, i32 5, i32 7, i32 9, i32 undef, i32 13, i32 15, i32 17, i32 19, i32 21, i32 23, i32 undef, i32 27>
  %I90 = insertelement <2 x i64> %Shuff57, i64 106597, i32 1
  %B91 = fdiv float %B44, %B44
  %Sl92 = select i1 true, i16 0, i16 %E12
  %Cmp93 = icmp sgt i1 %Cmp17, %Cmp17
  br i1 %Cmp93, label %CF121, label %CF124

CF124:                                            ; preds = %CF121
  %L94 = load i8, i8* %Sl45, align 1
  store i8 %L, i8* %Sl45, align 1
  %E95 = extractelement <4 x i64> %Shuff42, i32 3
  %Shuff96 = shufflevector <2 x i1> %Shuff13, <2 x i1> %Cmp10, <2 x i32> <i32 2, i32 0>
  %I97 = insertelement <2 x i1> %Shuff65, i1 %Tr84, i32 0
  %B98 = frem double 0x199F14BEF29D233C, %Sl77
  %FC99 = sitofp i64 %B75 to float
  %Sl100 = select i1 %Tr84, <2 x i32> %Se52, <2 x i32> %Se52
  %Cmp101 = icmp eq <2 x i64> %Se, %Se
  %L102 = load i8, i8* %Sl45, align 1
  store i8 %L87, i8* %Sl45, align 1
  %E103 = extractelement <4 x i64> zeroinitializer, i32 3
  %Shuff104 = shufflevector <2 x i1> %Sl85, <2 x i1> %Cmp10, <2 x i32> <i32 2, i32 0>
  %I105 = insertelement <2 x i1> %Shuff27, i1 true, i32 0
  %B106 = fsub double %Sl, 0xF413D032CF1160B0
  %BC = bitcast <2 x i64> zeroinitializer to <2 x double>
  %Sl107 = select i1 %Cmp17, <2 x i16> zeroinitializer, <2 x i16> %I82
  %Cmp108 = icmp sgt <16 x i8> %B59, %Shuff89
  %L109 = load i8, i8* %0, align 1
  store i8 %5, i8* %0, align 1
  %E110 = extractelement <2 x i16> %Shuff7, i32 1
  %Shuff111 = shufflevector <4 x i1> zeroinitializer, <4 x i1> zeroinitializer, <4 x i32> <i32 undef, i32 undef, i32 0, i32 undef>
  %I112 = insertelement <2 x i1> %Cmp101, i1 %Tr84, i32 0
  %B113 = mul <16 x i8> %Shuff34, %B59
  %Tr114 = trunc <2 x i32> %Tr to <2 x i8>
  %Sl115 = select i1 %Cmp31, <2 x i8> %Tr60, <2 x i8> %Tr114
  %Cmp116 = icmp sge <2 x i1> %Shuff104, %Shuff104
  store i8 0, i8* %0, align 1
  store i8 %L40, i8* %Sl45, align 1
  store i8 %L, i8* %Sl45, align 1
  store i8 0, i8* %Sl45, align 1
  store i8 %Sl61, i8* %0, align 1
  ret void
}
