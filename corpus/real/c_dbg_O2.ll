; ModuleID = 'a.c'
source_filename = "a.c"
target datalayout = "e-m:e-p270:32:32-p271:32:32-p272:64:64-i64:64-f80:128-n8:16:32:64-S128"
target triple = "x86_64-pc-linux-gnu"

%struct.__va_list_tag = type { i32, i32, i8*, i8* }
%struct.node = type { %struct.node*, i32 (%struct.node*, i32)*, %struct.point, %union.u, i32, %struct.bits }
%struct.point = type { i32, i32 }
%union.u = type { i32 }
%struct.bits = type { i16, [2 x i8] }

@g_arr = dso_local local_unnamed_addr global [4 x i32] [i32 1, i32 2, i32 3, i32 4], align 16, !dbg !0
@.str = private unnamed_addr constant [6 x i8] c"hello\00", align 1
@msg = dso_local local_unnamed_addr global i8* getelementptr inbounds ([6 x i8], [6 x i8]* @.str, i64 0, i64 0), align 8, !dbg !15
@tls_v = dso_local thread_local local_unnamed_addr global i32 3, align 4, !dbg !19
@walk.calls = internal unnamed_addr global i32 0, align 4, !dbg !22
@counter = internal unnamed_addr global i32 0, align 4, !dbg !66

; Function Attrs: nofree nosync nounwind uwtable
define dso_local i32 @sum(i32 noundef %0, ...) local_unnamed_addr #0 !dbg !76 {
  %2 = alloca [1 x %struct.__va_list_tag], align 16
  call void @llvm.dbg.value(metadata i32 %0, metadata !80, metadata !DIExpression()), !dbg !100
  %3 = bitcast [1 x %struct.__va_list_tag]* %2 to i8*, !dbg !101
  call void @llvm.lifetime.start.p0i8(i64 24, i8* nonnull %3) #11, !dbg !101
  call void @llvm.dbg.declare(metadata [1 x %struct.__va_list_tag]* %2, metadata !81, metadata !DIExpression()), !dbg !102
  call void @llvm.va_start(i8* nonnull %3), !dbg !103
  call void @llvm.dbg.value(metadata i32 0, metadata !94, metadata !DIExpression()), !dbg !100
  call void @llvm.dbg.value(metadata i32 0, metadata !95, metadata !DIExpression()), !dbg !104
  %4 = icmp sgt i32 %0, 0, !dbg !105
  br i1 %4, label %5, label %34, !dbg !106

5:                                                ; preds = %1
  %6 = getelementptr inbounds [1 x %struct.__va_list_tag], [1 x %struct.__va_list_tag]* %2, i64 0, i64 0, i32 0
  %7 = getelementptr inbounds [1 x %struct.__va_list_tag], [1 x %struct.__va_list_tag]* %2, i64 0, i64 0, i32 2
  %8 = getelementptr inbounds [1 x %struct.__va_list_tag], [1 x %struct.__va_list_tag]* %2, i64 0, i64 0, i32 3
  %9 = load i8*, i8** %8, align 16
  %10 = load i32, i32* %6, align 16, !dbg !107
  %11 = and i32 %0, 1, !dbg !106
  %12 = icmp eq i32 %0, 1, !dbg !106
  br i1 %12, label %15, label %13, !dbg !106

13:                                               ; preds = %5
  %14 = and i32 %0, -2, !dbg !106
  br label %36, !dbg !106

15:                                               ; preds = %62, %5
  %16 = phi i32 [ undef, %5 ], [ %67, %62 ]
  %17 = phi i32 [ %10, %5 ], [ %63, %62 ]
  %18 = phi i32 [ 0, %5 ], [ %67, %62 ]
  %19 = icmp eq i32 %11, 0, !dbg !107
  br i1 %19, label %34, label %20, !dbg !107

20:                                               ; preds = %15
  call void @llvm.dbg.value(metadata i32 %18, metadata !94, metadata !DIExpression()), !dbg !100
  call void @llvm.dbg.value(metadata i32 undef, metadata !95, metadata !DIExpression()), !dbg !104
  %21 = icmp ult i32 %17, 41, !dbg !107
  br i1 %21, label %25, label %22, !dbg !107

22:                                               ; preds = %20
  %23 = load i8*, i8** %7, align 8, !dbg !107
  %24 = getelementptr i8, i8* %23, i64 8, !dbg !107
  store i8* %24, i8** %7, align 8, !dbg !107
  br label %29, !dbg !107

25:                                               ; preds = %20
  %26 = zext i32 %17 to i64, !dbg !107
  %27 = getelementptr i8, i8* %9, i64 %26, !dbg !107
  %28 = add nuw nsw i32 %17, 8, !dbg !107
  store i32 %28, i32* %6, align 16, !dbg !107
  br label %29, !dbg !107

29:                                               ; preds = %25, %22
  %30 = phi i8* [ %27, %25 ], [ %23, %22 ]
  %31 = bitcast i8* %30 to i32*, !dbg !107
  %32 = load i32, i32* %31, align 4, !dbg !107
  call void @llvm.dbg.value(metadata i32 %32, metadata !97, metadata !DIExpression()), !dbg !108
  %33 = add nsw i32 %32, %18, !dbg !109
  call void @llvm.dbg.value(metadata i32 %33, metadata !94, metadata !DIExpression()), !dbg !100
  call void @llvm.dbg.value(metadata i32 undef, metadata !95, metadata !DIExpression(DW_OP_plus_uconst, 1, DW_OP_stack_value)), !dbg !104
  br label %34, !dbg !110

34:                                               ; preds = %29, %15, %1
  %35 = phi i32 [ 0, %1 ], [ %16, %15 ], [ %33, %29 ], !dbg !100
  call void @llvm.va_end(i8* nonnull %3), !dbg !110
  call void @llvm.lifetime.end.p0i8(i64 24, i8* nonnull %3) #11, !dbg !111
  ret i32 %35, !dbg !112

36:                                               ; preds = %62, %13
  %37 = phi i32 [ %10, %13 ], [ %63, %62 ], !dbg !107
  %38 = phi i32 [ 0, %13 ], [ %67, %62 ]
  %39 = phi i32 [ 0, %13 ], [ %68, %62 ]
  call void @llvm.dbg.value(metadata i32 %38, metadata !94, metadata !DIExpression()), !dbg !100
  call void @llvm.dbg.value(metadata i32 poison, metadata !95, metadata !DIExpression()), !dbg !104
  %40 = icmp ult i32 %37, 41, !dbg !107
  br i1 %40, label %41, label %45, !dbg !107

41:                                               ; preds = %36
  %42 = zext i32 %37 to i64, !dbg !107
  %43 = getelementptr i8, i8* %9, i64 %42, !dbg !107
  %44 = add nuw nsw i32 %37, 8, !dbg !107
  store i32 %44, i32* %6, align 16, !dbg !107
  br label %48, !dbg !107

45:                                               ; preds = %36
  %46 = load i8*, i8** %7, align 8, !dbg !107
  %47 = getelementptr i8, i8* %46, i64 8, !dbg !107
  store i8* %47, i8** %7, align 8, !dbg !107
  br label %48, !dbg !107

48:                                               ; preds = %45, %41
  %49 = phi i32 [ %44, %41 ], [ %37, %45 ]
  %50 = phi i8* [ %43, %41 ], [ %46, %45 ]
  %51 = bitcast i8* %50 to i32*, !dbg !107
  %52 = load i32, i32* %51, align 4, !dbg !107
  call void @llvm.dbg.value(metadata i32 %52, metadata !97, metadata !DIExpression()), !dbg !108
  %53 = add nsw i32 %52, %38, !dbg !109
  call void @llvm.dbg.value(metadata i32 %53, metadata !94, metadata !DIExpression()), !dbg !100
  call void @llvm.dbg.value(metadata i32 poison, metadata !95, metadata !DIExpression(DW_OP_plus_uconst, 1, DW_OP_stack_value)), !dbg !104
  call void @llvm.dbg.value(metadata i32 %53, metadata !94, metadata !DIExpression()), !dbg !100
  call void @llvm.dbg.value(metadata i32 poison, metadata !95, metadata !DIExpression(DW_OP_plus_uconst, 1, DW_OP_stack_value)), !dbg !104
  %54 = icmp ult i32 %49, 41, !dbg !107
  br i1 %54, label %58, label %55, !dbg !107

55:                                               ; preds = %48
  %56 = load i8*, i8** %7, align 8, !dbg !107
  %57 = getelementptr i8, i8* %56, i64 8, !dbg !107
  store i8* %57, i8** %7, align 8, !dbg !107
  br label %62, !dbg !107

58:                                               ; preds = %48
  %59 = zext i32 %49 to i64, !dbg !107
  %60 = getelementptr i8, i8* %9, i64 %59, !dbg !107
  %61 = add nuw nsw i32 %49, 8, !dbg !107
  store i32 %61, i32* %6, align 16, !dbg !107
  br label %62, !dbg !107

62:                                               ; preds = %58, %55
  %63 = phi i32 [ %61, %58 ], [ %49, %55 ]
  %64 = phi i8* [ %60, %58 ], [ %56, %55 ]
  %65 = bitcast i8* %64 to i32*, !dbg !107
  %66 = load i32, i32* %65, align 4, !dbg !107
  call void @llvm.dbg.value(metadata i32 %66, metadata !97, metadata !DIExpression()), !dbg !108
  %67 = add nsw i32 %66, %53, !dbg !109
  call void @llvm.dbg.value(metadata i32 %67, metadata !94, metadata !DIExpression()), !dbg !100
  call void @llvm.dbg.value(metadata i32 poison, metadata !95, metadata !DIExpression(DW_OP_plus_uconst, 2, DW_OP_stack_value)), !dbg !104
  %68 = add i32 %39, 2, !dbg !106
  %69 = icmp eq i32 %68, %14, !dbg !106
  br i1 %69, label %15, label %36, !dbg !106, !llvm.loop !113
}

; Function Attrs: mustprogress nofree nosync nounwind readnone speculatable willreturn
declare void @llvm.dbg.declare(metadata, metadata, metadata) #1

; Function Attrs: argmemonly mustprogress nofree nosync nounwind willreturn
declare void @llvm.lifetime.start.p0i8(i64 immarg, i8* nocapture) #2

; Function Attrs: mustprogress nofree nosync nounwind willreturn
declare void @llvm.va_start(i8*) #3

; Function Attrs: argmemonly mustprogress nofree nosync nounwind willreturn
declare void @llvm.lifetime.end.p0i8(i64 immarg, i8* nocapture) #2

; Function Attrs: mustprogress nofree nosync nounwind willreturn
declare void @llvm.va_end(i8*) #3

; Function Attrs: nounwind uwtable
define dso_local i32 @walk(%struct.node* noundef %0, i32 noundef %1) local_unnamed_addr #4 !dbg !24 {
  call void @llvm.dbg.value(metadata %struct.node* %0, metadata !58, metadata !DIExpression()), !dbg !116
  call void @llvm.dbg.value(metadata i32 %1, metadata !59, metadata !DIExpression()), !dbg !116
  %3 = load i32, i32* @walk.calls, align 4, !dbg !117, !tbaa !118
  %4 = add nsw i32 %3, 1, !dbg !117
  store i32 %4, i32* @walk.calls, align 4, !dbg !117, !tbaa !118
  call void @llvm.dbg.value(metadata i32 0, metadata !60, metadata !DIExpression()), !dbg !116
  %5 = icmp eq i32 %1, 6
  br label %6, !dbg !122

6:                                                ; preds = %2, %31
  %7 = phi i32 [ 0, %2 ], [ %33, %31 ]
  %8 = phi %struct.node* [ %0, %2 ], [ %35, %31 ]
  %9 = load i32, i32* @counter, align 4, !tbaa !118
  br label %10, !dbg !123

10:                                               ; preds = %6, %38
  %11 = phi i32 [ %39, %38 ], [ %9, %6 ]
  %12 = phi %struct.node* [ null, %38 ], [ %8, %6 ]
  call void @llvm.dbg.value(metadata %struct.node* %12, metadata !58, metadata !DIExpression()), !dbg !116
  call void @llvm.dbg.value(metadata i32 %7, metadata !60, metadata !DIExpression()), !dbg !116
  %13 = icmp eq %struct.node* %12, null, !dbg !123
  br i1 %13, label %37, label %14, !dbg !123

14:                                               ; preds = %10
  %15 = getelementptr inbounds %struct.node, %struct.node* %12, i64 0, i32 2, i32 1, !dbg !124
  %16 = load i32, i32* %15, align 4, !dbg !124, !tbaa !125
  call void @llvm.dbg.value(metadata i32 %16, metadata !61, metadata !DIExpression()), !dbg !130
  %17 = add nsw i32 %16, %7, !dbg !131
  call void @llvm.dbg.value(metadata i32 %17, metadata !60, metadata !DIExpression()), !dbg !116
  %18 = getelementptr inbounds %struct.node, %struct.node* %12, i64 0, i32 4, !dbg !132
  %19 = load i32, i32* %18, align 4, !dbg !132, !tbaa !133
  switch i32 %19, label %21 [
    i32 0, label %31
    i32 5, label %20
  ], !dbg !134

20:                                               ; preds = %14
  call void @llvm.dbg.value(metadata i32 %17, metadata !60, metadata !DIExpression(DW_OP_plus_uconst, 2, DW_OP_stack_value)), !dbg !116
  br label %31, !dbg !135

21:                                               ; preds = %14
  %22 = getelementptr inbounds %struct.node, %struct.node* %12, i64 0, i32 1, !dbg !137
  %23 = load i32 (%struct.node*, i32)*, i32 (%struct.node*, i32)** %22, align 8, !dbg !137, !tbaa !138
  %24 = icmp eq i32 (%struct.node*, i32)* %23, null, !dbg !139
  br i1 %24, label %27, label %25, !dbg !139

25:                                               ; preds = %21
  %26 = tail call i32 %23(%struct.node* noundef nonnull %12, i32 noundef 3) #11, !dbg !140
  br label %31, !dbg !139

27:                                               ; preds = %21
  call void @llvm.dbg.value(metadata %struct.node* %12, metadata !141, metadata !DIExpression()), !dbg !145
  call void @llvm.dbg.value(metadata i32 4, metadata !144, metadata !DIExpression()), !dbg !145
  %28 = getelementptr inbounds %struct.node, %struct.node* %12, i64 0, i32 2, i32 0, !dbg !147
  %29 = load i32, i32* %28, align 8, !dbg !147, !tbaa !148
  %30 = add nsw i32 %29, 4, !dbg !149
  br label %31, !dbg !139

31:                                               ; preds = %25, %27, %14, %20
  %32 = phi i32 [ 2, %20 ], [ 1, %14 ], [ %26, %25 ], [ %30, %27 ]
  %33 = add nsw i32 %17, %32, !dbg !150
  call void @llvm.dbg.value(metadata i32 %33, metadata !60, metadata !DIExpression()), !dbg !116
  %34 = getelementptr inbounds %struct.node, %struct.node* %12, i64 0, i32 0, !dbg !151
  %35 = load %struct.node*, %struct.node** %34, align 8, !dbg !151, !tbaa !152
  call void @llvm.dbg.value(metadata %struct.node* %35, metadata !58, metadata !DIExpression()), !dbg !116
  %36 = icmp sgt i32 %33, 1000, !dbg !153
  br i1 %36, label %41, label %6, !dbg !155, !llvm.loop !156

37:                                               ; preds = %10
  br i1 %5, label %38, label %41, !dbg !158

38:                                               ; preds = %37
  %39 = add nsw i32 %11, 1, !dbg !160
  store i32 %39, i32* @counter, align 4, !dbg !160, !tbaa !118
  %40 = icmp slt i32 %11, 3, !dbg !161
  br i1 %40, label %10, label %41, !dbg !162

41:                                               ; preds = %31, %37, %38
  %42 = phi i32 [ %7, %38 ], [ %7, %37 ], [ %33, %31 ], !dbg !116
  call void @llvm.dbg.value(metadata i32 %42, metadata !60, metadata !DIExpression()), !dbg !116
  call void @llvm.dbg.label(metadata !65), !dbg !163
  %43 = and i32 %1, 3, !dbg !164
  %44 = zext i32 %43 to i64, !dbg !165
  %45 = getelementptr inbounds [4 x i32], [4 x i32]* @g_arr, i64 0, i64 %44, !dbg !165
  %46 = load i32, i32* %45, align 4, !dbg !165, !tbaa !118
  %47 = add nsw i32 %46, %42, !dbg !166
  %48 = load i8*, i8** @msg, align 8, !dbg !167, !tbaa !168
  %49 = tail call i32 (i32, ...) @ext_fn(i32 noundef 2, i32 noundef %42, i8* noundef %48) #11, !dbg !169
  %50 = add nsw i32 %47, %49, !dbg !170
  %51 = load i32, i32* @tls_v, align 4, !dbg !171, !tbaa !118
  %52 = add nsw i32 %50, %51, !dbg !172
  ret i32 %52, !dbg !173
}

; Function Attrs: mustprogress nofree nosync nounwind readnone speculatable willreturn
declare void @llvm.dbg.label(metadata) #1

declare !dbg !174 i32 @ext_fn(i32 noundef, ...) local_unnamed_addr #5

; Function Attrs: mustprogress nofree norecurse nosync nounwind readnone uwtable willreturn
define dso_local double @mix(float noundef %0, double noundef %1, x86_fp80 noundef %2, i1 noundef zeroext %3) local_unnamed_addr #6 !dbg !176 {
  call void @llvm.dbg.value(metadata float %0, metadata !182, metadata !DIExpression()), !dbg !186
  call void @llvm.dbg.value(metadata double %1, metadata !183, metadata !DIExpression()), !dbg !186
  call void @llvm.dbg.value(metadata x86_fp80 %2, metadata !184, metadata !DIExpression()), !dbg !186
  call void @llvm.dbg.value(metadata i1 %3, metadata !185, metadata !DIExpression(DW_OP_LLVM_convert, 1, DW_ATE_unsigned, DW_OP_LLVM_convert, 8, DW_ATE_unsigned, DW_OP_stack_value)), !dbg !186
  %5 = fpext float %0 to double, !dbg !187
  %6 = fadd double %5, %1, !dbg !187
  %7 = fptrunc x86_fp80 %2 to double, !dbg !187
  %8 = select i1 %3, double %6, double %7, !dbg !187
  ret double %8, !dbg !188
}

; Function Attrs: nofree nosync nounwind uwtable writeonly
define dso_local void @fill(i8* nocapture noundef writeonly %0, i64 noundef %1) local_unnamed_addr #7 !dbg !189 {
  call void @llvm.dbg.value(metadata i8* %0, metadata !196, metadata !DIExpression()), !dbg !200
  call void @llvm.dbg.value(metadata i64 %1, metadata !197, metadata !DIExpression()), !dbg !200
  tail call void @llvm.memset.p0i8.i64(i8* align 1 %0, i8 0, i64 %1, i1 false), !dbg !201
  call void @llvm.dbg.value(metadata i64 0, metadata !198, metadata !DIExpression()), !dbg !202
  %3 = icmp eq i64 %1, 0, !dbg !203
  br i1 %3, label %71, label %4, !dbg !205

4:                                                ; preds = %2
  %5 = icmp ult i64 %1, 16, !dbg !205
  br i1 %5, label %69, label %6, !dbg !205

6:                                                ; preds = %4
  %7 = and i64 %1, -16, !dbg !205
  %8 = add i64 %7, -16, !dbg !205
  %9 = lshr exact i64 %8, 4, !dbg !205
  %10 = add nuw nsw i64 %9, 1, !dbg !205
  %11 = and i64 %10, 7, !dbg !205
  %12 = icmp ult i64 %8, 112, !dbg !205
  br i1 %12, label %53, label %13, !dbg !205

13:                                               ; preds = %6
  %14 = and i64 %10, 2305843009213693944, !dbg !205
  br label %15, !dbg !205

15:                                               ; preds = %15, %13
  %16 = phi i64 [ 0, %13 ], [ %49, %15 ], !dbg !206
  %17 = phi <16 x i8> [ <i8 0, i8 1, i8 2, i8 3, i8 4, i8 5, i8 6, i8 7, i8 8, i8 9, i8 10, i8 11, i8 12, i8 13, i8 14, i8 15>, %13 ], [ %50, %15 ], !dbg !207
  %18 = phi i64 [ 0, %13 ], [ %51, %15 ]
  %19 = getelementptr inbounds i8, i8* %0, i64 %16, !dbg !206
  %20 = bitcast i8* %19 to <16 x i8>*, !dbg !208
  store <16 x i8> %17, <16 x i8>* %20, align 1, !dbg !208, !tbaa !209
  %21 = or i64 %16, 16, !dbg !206
  %22 = add <16 x i8> %17, <i8 16, i8 16, i8 16, i8 16, i8 16, i8 16, i8 16, i8 16, i8 16, i8 16, i8 16, i8 16, i8 16, i8 16, i8 16, i8 16>, !dbg !207
  %23 = getelementptr inbounds i8, i8* %0, i64 %21, !dbg !206
  %24 = bitcast i8* %23 to <16 x i8>*, !dbg !208
  store <16 x i8> %22, <16 x i8>* %24, align 1, !dbg !208, !tbaa !209
  %25 = or i64 %16, 32, !dbg !206
  %26 = add <16 x i8> %17, <i8 32, i8 32, i8 32, i8 32, i8 32, i8 32, i8 32, i8 32, i8 32, i8 32, i8 32, i8 32, i8 32, i8 32, i8 32, i8 32>, !dbg !207
  %27 = getelementptr inbounds i8, i8* %0, i64 %25, !dbg !206
  %28 = bitcast i8* %27 to <16 x i8>*, !dbg !208
  store <16 x i8> %26, <16 x i8>* %28, align 1, !dbg !208, !tbaa !209
  %29 = or i64 %16, 48, !dbg !206
  %30 = add <16 x i8> %17, <i8 48, i8 48, i8 48, i8 48, i8 48, i8 48, i8 48, i8 48, i8 48, i8 48, i8 48, i8 48, i8 48, i8 48, i8 48, i8 48>, !dbg !207
  %31 = getelementptr inbounds i8, i8* %0, i64 %29, !dbg !206
  %32 = bitcast i8* %31 to <16 x i8>*, !dbg !208
  store <16 x i8> %30, <16 x i8>* %32, align 1, !dbg !208, !tbaa !209
  %33 = or i64 %16, 64, !dbg !206
  %34 = add <16 x i8> %17, <i8 64, i8 64, i8 64, i8 64, i8 64, i8 64, i8 64, i8 64, i8 64, i8 64, i8 64, i8 64, i8 64, i8 64, i8 64, i8 64>, !dbg !207
  %35 = getelementptr inbounds i8, i8* %0, i64 %33, !dbg !206
  %36 = bitcast i8* %35 to <16 x i8>*, !dbg !208
  store <16 x i8> %34, <16 x i8>* %36, align 1, !dbg !208, !tbaa !209
  %37 = or i64 %16, 80, !dbg !206
  %38 = add <16 x i8> %17, <i8 80, i8 80, i8 80, i8 80, i8 80, i8 80, i8 80, i8 80, i8 80, i8 80, i8 80, i8 80, i8 80, i8 80, i8 80, i8 80>, !dbg !207
  %39 = getelementptr inbounds i8, i8* %0, i64 %37, !dbg !206
  %40 = bitcast i8* %39 to <16 x i8>*, !dbg !208
  store <16 x i8> %38, <16 x i8>* %40, align 1, !dbg !208, !tbaa !209
  %41 = or i64 %16, 96, !dbg !206
  %42 = add <16 x i8> %17, <i8 96, i8 96, i8 96, i8 96, i8 96, i8 96, i8 96, i8 96, i8 96, i8 96, i8 96, i8 96, i8 96, i8 96, i8 96, i8 96>, !dbg !207
  %43 = getelementptr inbounds i8, i8* %0, i64 %41, !dbg !206
  %44 = bitcast i8* %43 to <16 x i8>*, !dbg !208
  store <16 x i8> %42, <16 x i8>* %44, align 1, !dbg !208, !tbaa !209
  %45 = or i64 %16, 112, !dbg !206
  %46 = add <16 x i8> %17, <i8 112, i8 112, i8 112, i8 112, i8 112, i8 112, i8 112, i8 112, i8 112, i8 112, i8 112, i8 112, i8 112, i8 112, i8 112, i8 112>, !dbg !207
  %47 = getelementptr inbounds i8, i8* %0, i64 %45, !dbg !206
  %48 = bitcast i8* %47 to <16 x i8>*, !dbg !208
  store <16 x i8> %46, <16 x i8>* %48, align 1, !dbg !208, !tbaa !209
  %49 = add nuw i64 %16, 128, !dbg !206
  %50 = xor <16 x i8> %17, <i8 -128, i8 -128, i8 -128, i8 -128, i8 -128, i8 -128, i8 -128, i8 -128, i8 -128, i8 -128, i8 -128, i8 -128, i8 -128, i8 -128, i8 -128, i8 -128>, !dbg !207
  %51 = add i64 %18, 8, !dbg !206
  %52 = icmp eq i64 %51, %14, !dbg !206
  br i1 %52, label %53, label %15, !dbg !206, !llvm.loop !210

53:                                               ; preds = %15, %6
  %54 = phi i64 [ 0, %6 ], [ %49, %15 ]
  %55 = phi <16 x i8> [ <i8 0, i8 1, i8 2, i8 3, i8 4, i8 5, i8 6, i8 7, i8 8, i8 9, i8 10, i8 11, i8 12, i8 13, i8 14, i8 15>, %6 ], [ %50, %15 ]
  %56 = icmp eq i64 %11, 0, !dbg !206
  br i1 %56, label %67, label %57, !dbg !206

57:                                               ; preds = %53, %57
  %58 = phi i64 [ %63, %57 ], [ %54, %53 ], !dbg !206
  %59 = phi <16 x i8> [ %64, %57 ], [ %55, %53 ], !dbg !207
  %60 = phi i64 [ %65, %57 ], [ 0, %53 ]
  %61 = getelementptr inbounds i8, i8* %0, i64 %58, !dbg !206
  %62 = bitcast i8* %61 to <16 x i8>*, !dbg !208
  store <16 x i8> %59, <16 x i8>* %62, align 1, !dbg !208, !tbaa !209
  %63 = add nuw i64 %58, 16, !dbg !206
  %64 = add <16 x i8> %59, <i8 16, i8 16, i8 16, i8 16, i8 16, i8 16, i8 16, i8 16, i8 16, i8 16, i8 16, i8 16, i8 16, i8 16, i8 16, i8 16>, !dbg !207
  %65 = add i64 %60, 1, !dbg !206
  %66 = icmp eq i64 %65, %11, !dbg !206
  br i1 %66, label %67, label %57, !dbg !206, !llvm.loop !213

67:                                               ; preds = %57, %53
  %68 = icmp eq i64 %7, %1, !dbg !205
  br i1 %68, label %71, label %69, !dbg !205

69:                                               ; preds = %4, %67
  %70 = phi i64 [ 0, %4 ], [ %7, %67 ]
  br label %72, !dbg !205

71:                                               ; preds = %72, %67, %2
  ret void, !dbg !215

72:                                               ; preds = %69, %72
  %73 = phi i64 [ %76, %72 ], [ %70, %69 ]
  call void @llvm.dbg.value(metadata i64 %73, metadata !198, metadata !DIExpression()), !dbg !202
  %74 = trunc i64 %73 to i8, !dbg !207
  %75 = getelementptr inbounds i8, i8* %0, i64 %73, !dbg !216
  store i8 %74, i8* %75, align 1, !dbg !208, !tbaa !209
  %76 = add nuw i64 %73, 1, !dbg !206
  call void @llvm.dbg.value(metadata i64 %76, metadata !198, metadata !DIExpression()), !dbg !202
  %77 = icmp eq i64 %76, %1, !dbg !203
  br i1 %77, label %71, label %72, !dbg !205, !llvm.loop !217
}

; Function Attrs: argmemonly mustprogress nofree nounwind willreturn writeonly
declare void @llvm.memset.p0i8.i64(i8* nocapture writeonly, i8, i64, i1 immarg) #8

; Function Attrs: mustprogress nofree norecurse nosync nounwind readnone uwtable willreturn
define dso_local <4 x i32> @vadd(<4 x i32> noundef %0, <4 x i32> noundef %1) local_unnamed_addr #9 !dbg !219 {
  call void @llvm.dbg.value(metadata <4 x i32> %0, metadata !225, metadata !DIExpression()), !dbg !227
  call void @llvm.dbg.value(metadata <4 x i32> %1, metadata !226, metadata !DIExpression()), !dbg !227
  %3 = mul <4 x i32> %1, <i32 1, i32 2, i32 3, i32 4>, !dbg !228
  %4 = add <4 x i32> %3, %0, !dbg !229
  ret <4 x i32> %4, !dbg !230
}

; Function Attrs: nounwind uwtable
define dso_local { double, double } @cmul(double noundef %0, double noundef %1, double noundef %2, double noundef %3) local_unnamed_addr #4 !dbg !231 {
  call void @llvm.dbg.value(metadata double %0, metadata !236, metadata !DIExpression(DW_OP_LLVM_fragment, 0, 64)), !dbg !238
  call void @llvm.dbg.value(metadata double %1, metadata !236, metadata !DIExpression(DW_OP_LLVM_fragment, 64, 64)), !dbg !238
  call void @llvm.dbg.value(metadata double %2, metadata !237, metadata !DIExpression(DW_OP_LLVM_fragment, 0, 64)), !dbg !238
  call void @llvm.dbg.value(metadata double %3, metadata !237, metadata !DIExpression(DW_OP_LLVM_fragment, 64, 64)), !dbg !238
  %5 = fmul double %0, %2, !dbg !239
  %6 = fmul double %1, %3, !dbg !239
  %7 = fmul double %0, %3, !dbg !239
  %8 = fmul double %1, %2, !dbg !239
  %9 = fsub double %5, %6, !dbg !239
  %10 = fadd double %8, %7, !dbg !239
  %11 = fcmp uno double %9, 0.000000e+00, !dbg !239
  br i1 %11, label %12, label %18, !dbg !239, !prof !240

12:                                               ; preds = %4
  %13 = fcmp uno double %10, 0.000000e+00, !dbg !239
  br i1 %13, label %14, label %18, !dbg !239, !prof !240

14:                                               ; preds = %12
  %15 = tail call { double, double } @__muldc3(double noundef %0, double noundef %1, double noundef %2, double noundef %3) #11, !dbg !239
  %16 = extractvalue { double, double } %15, 0, !dbg !239
  %17 = extractvalue { double, double } %15, 1, !dbg !239
  br label %18, !dbg !239

18:                                               ; preds = %14, %12, %4
  %19 = phi double [ %9, %4 ], [ %9, %12 ], [ %16, %14 ], !dbg !239
  %20 = phi double [ %10, %4 ], [ %10, %12 ], [ %17, %14 ], !dbg !239
  %21 = insertvalue { double, double } poison, double %19, 0, !dbg !241
  %22 = insertvalue { double, double } %21, double %20, 1, !dbg !241
  ret { double, double } %22, !dbg !241
}

declare { double, double } @__muldc3(double, double, double, double) local_unnamed_addr

; Function Attrs: nofree nosync nounwind readnone speculatable willreturn
declare void @llvm.dbg.value(metadata, metadata, metadata) #10

attributes #0 = { nofree nosync nounwind uwtable "frame-pointer"="none" "min-legal-vector-width"="0" "no-trapping-math"="true" "stack-protector-buffer-size"="8" "target-cpu"="x86-64" "target-features"="+cx8,+fxsr,+mmx,+sse,+sse2,+x87" "tune-cpu"="generic" }
attributes #1 = { mustprogress nofree nosync nounwind readnone speculatable willreturn }
attributes #2 = { argmemonly mustprogress nofree nosync nounwind willreturn }
attributes #3 = { mustprogress nofree nosync nounwind willreturn }
attributes #4 = { nounwind uwtable "frame-pointer"="none" "min-legal-vector-width"="0" "no-trapping-math"="true" "stack-protector-buffer-size"="8" "target-cpu"="x86-64" "target-features"="+cx8,+fxsr,+mmx,+sse,+sse2,+x87" "tune-cpu"="generic" }
attributes #5 = { "frame-pointer"="none" "no-trapping-math"="true" "stack-protector-buffer-size"="8" "target-cpu"="x86-64" "target-features"="+cx8,+fxsr,+mmx,+sse,+sse2,+x87" "tune-cpu"="generic" }
attributes #6 = { mustprogress nofree norecurse nosync nounwind readnone uwtable willreturn "frame-pointer"="none" "min-legal-vector-width"="0" "no-trapping-math"="true" "stack-protector-buffer-size"="8" "target-cpu"="x86-64" "target-features"="+cx8,+fxsr,+mmx,+sse,+sse2,+x87" "tune-cpu"="generic" }
attributes #7 = { nofree nosync nounwind uwtable writeonly "frame-pointer"="none" "min-legal-vector-width"="0" "no-trapping-math"="true" "stack-protector-buffer-size"="8" "target-cpu"="x86-64" "target-features"="+cx8,+fxsr,+mmx,+sse,+sse2,+x87" "tune-cpu"="generic" }
attributes #8 = { argmemonly mustprogress nofree nounwind willreturn writeonly }
attributes #9 = { mustprogress nofree norecurse nosync nounwind readnone uwtable willreturn "frame-pointer"="none" "min-legal-vector-width"="128" "no-trapping-math"="true" "stack-protector-buffer-size"="8" "target-cpu"="x86-64" "target-features"="+cx8,+fxsr,+mmx,+sse,+sse2,+x87" "tune-cpu"="generic" }
attributes #10 = { nofree nosync nounwind readnone speculatable willreturn }
attributes #11 = { nounwind }

!llvm.dbg.cu = !{!2}
!llvm.module.flags = !{!69, !70, !71, !72, !73, !74}
!llvm.ident = !{!75}

!0 = !DIGlobalVariableExpression(var: !1, expr: !DIExpression())
!1 = distinct !DIGlobalVariable(name: "g_arr", scope: !2, file: !3, line: 8, type: !68, isLocal: false, isDefinition: true)
!2 = distinct !DICompileUnit(language: DW_LANG_C99, file: !3, producer: "Debian clang version 14.0.6", isOptimized: true, runtimeVersion: 0, emissionKind: FullDebug, enums: !4, retainedTypes: !11, globals: !14, splitDebugInlining: false, nameTableKind: None)
!3 = !DIFile(filename: "a.c", directory: "/tmp/corpgen", checksumkind: CSK_MD5, checksum: "e52753d94bf087ac4d60bf901a48b012")
!4 = !{!5}
!5 = !DICompositeType(tag: DW_TAG_enumeration_type, name: "color", file: !3, line: 4, baseType: !6, size: 32, elements: !7)
!6 = !DIBasicType(name: "unsigned int", size: 32, encoding: DW_ATE_unsigned)
!7 = !{!8, !9, !10}
!8 = !DIEnumerator(name: "RED", value: 0)
!9 = !DIEnumerator(name: "GREEN", value: 5)
!10 = !DIEnumerator(name: "BLUE", value: 6)
!11 = !{!12, !13}
!12 = !DIBasicType(name: "double", size: 64, encoding: DW_ATE_float)
!13 = !DIBasicType(name: "char", size: 8, encoding: DW_ATE_signed_char)
!14 = !{!0, !15, !19, !22, !66}
!15 = !DIGlobalVariableExpression(var: !16, expr: !DIExpression())
!16 = distinct !DIGlobalVariable(name: "msg", scope: !2, file: !3, line: 9, type: !17, isLocal: false, isDefinition: true)
!17 = !DIDerivedType(tag: DW_TAG_pointer_type, baseType: !18, size: 64)
!18 = !DIDerivedType(tag: DW_TAG_const_type, baseType: !13)
!19 = !DIGlobalVariableExpression(var: !20, expr: !DIExpression())
!20 = distinct !DIGlobalVariable(name: "tls_v", scope: !2, file: !3, line: 10, type: !21, isLocal: false, isDefinition: true)
!21 = !DIBasicType(name: "int", size: 32, encoding: DW_ATE_signed)
!22 = !DIGlobalVariableExpression(var: !23, expr: !DIExpression())
!23 = distinct !DIGlobalVariable(name: "calls", scope: !24, file: !3, line: 21, type: !21, isLocal: true, isDefinition: true)
!24 = distinct !DISubprogram(name: "walk", scope: !3, file: !3, line: 20, type: !25, scopeLine: 20, flags: DIFlagPrototyped | DIFlagAllCallsDescribed, spFlags: DISPFlagDefinition | DISPFlagOptimized, unit: !2, retainedNodes: !57)
!25 = !DISubroutineType(types: !26)
!26 = !{!21, !27, !5}
!27 = !DIDerivedType(tag: DW_TAG_pointer_type, baseType: !28, size: 64)
!28 = distinct !DICompositeType(tag: DW_TAG_structure_type, name: "node", file: !3, line: 6, size: 320, elements: !29)
!29 = !{!30, !31, !35, !40, !50, !51}
!30 = !DIDerivedType(tag: DW_TAG_member, name: "next", scope: !28, file: !3, line: 6, baseType: !27, size: 64)
!31 = !DIDerivedType(tag: DW_TAG_member, name: "cb", scope: !28, file: !3, line: 6, baseType: !32, size: 64, offset: 64)
!32 = !DIDerivedType(tag: DW_TAG_pointer_type, baseType: !33, size: 64)
!33 = !DISubroutineType(types: !34)
!34 = !{!21, !27, !21}
!35 = !DIDerivedType(tag: DW_TAG_member, name: "p", scope: !28, file: !3, line: 6, baseType: !36, size: 64, offset: 128)
!36 = distinct !DICompositeType(tag: DW_TAG_structure_type, name: "point", file: !3, line: 2, size: 64, elements: !37)
!37 = !{!38, !39}
!38 = !DIDerivedType(tag: DW_TAG_member, name: "x", scope: !36, file: !3, line: 2, baseType: !21, size: 32)
!39 = !DIDerivedType(tag: DW_TAG_member, name: "y", scope: !36, file: !3, line: 2, baseType: !21, size: 32, offset: 32)
!40 = !DIDerivedType(tag: DW_TAG_member, name: "v", scope: !28, file: !3, line: 6, baseType: !41, size: 32, offset: 192)
!41 = distinct !DICompositeType(tag: DW_TAG_union_type, name: "u", file: !3, line: 3, size: 32, elements: !42)
!42 = !{!43, !44, !46}
!43 = !DIDerivedType(tag: DW_TAG_member, name: "i", scope: !41, file: !3, line: 3, baseType: !21, size: 32)
!44 = !DIDerivedType(tag: DW_TAG_member, name: "f", scope: !41, file: !3, line: 3, baseType: !45, size: 32)
!45 = !DIBasicType(name: "float", size: 32, encoding: DW_ATE_float)
!46 = !DIDerivedType(tag: DW_TAG_member, name: "c", scope: !41, file: !3, line: 3, baseType: !47, size: 32)
!47 = !DICompositeType(tag: DW_TAG_array_type, baseType: !13, size: 32, elements: !48)
!48 = !{!49}
!49 = !DISubrange(count: 4)
!50 = !DIDerivedType(tag: DW_TAG_member, name: "col", scope: !28, file: !3, line: 6, baseType: !5, size: 32, offset: 224)
!51 = !DIDerivedType(tag: DW_TAG_member, name: "bf", scope: !28, file: !3, line: 6, baseType: !52, size: 32, offset: 256)
!52 = distinct !DICompositeType(tag: DW_TAG_structure_type, name: "bits", file: !3, line: 5, size: 32, elements: !53)
!53 = !{!54, !55, !56}
!54 = !DIDerivedType(tag: DW_TAG_member, name: "a", scope: !52, file: !3, line: 5, baseType: !6, size: 3, flags: DIFlagBitField, extraData: i64 0)
!55 = !DIDerivedType(tag: DW_TAG_member, name: "b", scope: !52, file: !3, line: 5, baseType: !6, size: 5, offset: 3, flags: DIFlagBitField, extraData: i64 0)
!56 = !DIDerivedType(tag: DW_TAG_member, name: "c", scope: !52, file: !3, line: 5, baseType: !21, size: 7, offset: 8, flags: DIFlagBitField, extraData: i64 0)
!57 = !{!58, !59, !60, !61, !64, !65}
!58 = !DILocalVariable(name: "n", arg: 1, scope: !24, file: !3, line: 20, type: !27)
!59 = !DILocalVariable(name: "c", arg: 2, scope: !24, file: !3, line: 20, type: !5)
!60 = !DILocalVariable(name: "total", scope: !24, file: !3, line: 23, type: !21)
!61 = !DILocalVariable(name: "inner", scope: !62, file: !3, line: 26, type: !21)
!62 = distinct !DILexicalBlock(scope: !63, file: !3, line: 26, column: 5)
!63 = distinct !DILexicalBlock(scope: !24, file: !3, line: 25, column: 13)
!64 = !DILabel(scope: !24, name: "again", file: !3, line: 24)
!65 = !DILabel(scope: !24, name: "out", file: !3, line: 32)
!66 = !DIGlobalVariableExpression(var: !67, expr: !DIExpression())
!67 = distinct !DIGlobalVariable(name: "counter", scope: !2, file: !3, line: 7, type: !21, isLocal: true, isDefinition: true)
!68 = !DICompositeType(tag: DW_TAG_array_type, baseType: !21, size: 128, elements: !48)
!69 = !{i32 7, !"Dwarf Version", i32 5}
!70 = !{i32 2, !"Debug Info Version", i32 3}
!71 = !{i32 1, !"wchar_size", i32 4}
!72 = !{i32 7, !"PIC Level", i32 2}
!73 = !{i32 7, !"PIE Level", i32 2}
!74 = !{i32 7, !"uwtable", i32 1}
!75 = !{!"Debian clang version 14.0.6"}
!76 = distinct !DISubprogram(name: "sum", scope: !3, file: !3, line: 13, type: !77, scopeLine: 13, flags: DIFlagPrototyped | DIFlagAllCallsDescribed, spFlags: DISPFlagDefinition | DISPFlagOptimized, unit: !2, retainedNodes: !79)
!77 = !DISubroutineType(types: !78)
!78 = !{!21, !21, null}
!79 = !{!80, !81, !94, !95, !97}
!80 = !DILocalVariable(name: "n", arg: 1, scope: !76, file: !3, line: 13, type: !21)
!81 = !DILocalVariable(name: "ap", scope: !76, file: !3, line: 14, type: !82)
!82 = !DIDerivedType(tag: DW_TAG_typedef, name: "__builtin_va_list", file: !83, baseType: !84)
!83 = !DIFile(filename: "a.c", directory: "/tmp/corpgen")
!84 = !DICompositeType(tag: DW_TAG_array_type, baseType: !85, size: 192, elements: !92)
!85 = distinct !DICompositeType(tag: DW_TAG_structure_type, name: "__va_list_tag", size: 192, elements: !86)
!86 = !{!87, !88, !89, !91}
!87 = !DIDerivedType(tag: DW_TAG_member, name: "gp_offset", scope: !85, file: !83, line: 14, baseType: !6, size: 32)
!88 = !DIDerivedType(tag: DW_TAG_member, name: "fp_offset", scope: !85, file: !83, line: 14, baseType: !6, size: 32, offset: 32)
!89 = !DIDerivedType(tag: DW_TAG_member, name: "overflow_arg_area", scope: !85, file: !83, line: 14, baseType: !90, size: 64, offset: 64)
!90 = !DIDerivedType(tag: DW_TAG_pointer_type, baseType: null, size: 64)
!91 = !DIDerivedType(tag: DW_TAG_member, name: "reg_save_area", scope: !85, file: !83, line: 14, baseType: !90, size: 64, offset: 128)
!92 = !{!93}
!93 = !DISubrange(count: 1)
!94 = !DILocalVariable(name: "s", scope: !76, file: !3, line: 15, type: !21)
!95 = !DILocalVariable(name: "i", scope: !96, file: !3, line: 16, type: !21)
!96 = distinct !DILexicalBlock(scope: !76, file: !3, line: 16, column: 3)
!97 = !DILocalVariable(name: "v", scope: !98, file: !3, line: 16, type: !21)
!98 = distinct !DILexicalBlock(scope: !99, file: !3, line: 16, column: 31)
!99 = distinct !DILexicalBlock(scope: !96, file: !3, line: 16, column: 3)
!100 = !DILocation(line: 0, scope: !76)
!101 = !DILocation(line: 14, column: 3, scope: !76)
!102 = !DILocation(line: 14, column: 21, scope: !76)
!103 = !DILocation(line: 14, column: 25, scope: !76)
!104 = !DILocation(line: 0, scope: !96)
!105 = !DILocation(line: 16, column: 21, scope: !99)
!106 = !DILocation(line: 16, column: 3, scope: !96)
!107 = !DILocation(line: 16, column: 41, scope: !98)
!108 = !DILocation(line: 0, scope: !98)
!109 = !DILocation(line: 16, column: 70, scope: !98)
!110 = !DILocation(line: 17, column: 3, scope: !76)
!111 = !DILocation(line: 19, column: 1, scope: !76)
!112 = !DILocation(line: 18, column: 3, scope: !76)
!113 = distinct !{!113, !106, !114, !115}
!114 = !DILocation(line: 16, column: 76, scope: !96)
!115 = !{!"llvm.loop.mustprogress"}
!116 = !DILocation(line: 0, scope: !24)
!117 = !DILocation(line: 22, column: 8, scope: !24)
!118 = !{!119, !119, i64 0}
!119 = !{!"int", !120, i64 0}
!120 = !{!"omnipotent char", !121, i64 0}
!121 = !{!"Simple C/C++ TBAA"}
!122 = !DILocation(line: 23, column: 3, scope: !24)
!123 = !DILocation(line: 25, column: 3, scope: !24)
!124 = !DILocation(line: 26, column: 24, scope: !62)
!125 = !{!126, !119, i64 20}
!126 = !{!"node", !127, i64 0, !127, i64 8, !128, i64 16, !120, i64 24, !120, i64 28, !129, i64 32}
!127 = !{!"any pointer", !120, i64 0}
!128 = !{!"point", !119, i64 0, !119, i64 4}
!129 = !{!"bits", !119, i64 0, !119, i64 0, !119, i64 1}
!130 = !DILocation(line: 0, scope: !62)
!131 = !DILocation(line: 26, column: 33, scope: !62)
!132 = !DILocation(line: 27, column: 16, scope: !63)
!133 = !{!126, !120, i64 28}
!134 = !DILocation(line: 27, column: 5, scope: !63)
!135 = !DILocation(line: 27, column: 76, scope: !136)
!136 = distinct !DILexicalBlock(scope: !63, file: !3, line: 27, column: 21)
!137 = !DILocation(line: 27, column: 104, scope: !136)
!138 = !{!126, !127, i64 8}
!139 = !DILocation(line: 27, column: 101, scope: !136)
!140 = !DILocation(line: 27, column: 109, scope: !136)
!141 = !DILocalVariable(name: "n", arg: 1, scope: !142, file: !3, line: 12, type: !27)
!142 = distinct !DISubprogram(name: "helper", scope: !3, file: !3, line: 12, type: !33, scopeLine: 12, flags: DIFlagPrototyped | DIFlagAllCallsDescribed, spFlags: DISPFlagLocalToUnit | DISPFlagDefinition | DISPFlagOptimized, unit: !2, retainedNodes: !143)
!143 = !{!141, !144}
!144 = !DILocalVariable(name: "k", arg: 2, scope: !142, file: !3, line: 12, type: !21)
!145 = !DILocation(line: 0, scope: !142, inlinedAt: !146)
!146 = distinct !DILocation(line: 27, column: 123, scope: !136)
!147 = !DILocation(line: 12, column: 56, scope: !142, inlinedAt: !146)
!148 = !{!126, !119, i64 16}
!149 = !DILocation(line: 12, column: 58, scope: !142, inlinedAt: !146)
!150 = !DILocation(line: 0, scope: !136)
!151 = !DILocation(line: 28, column: 12, scope: !63)
!152 = !{!126, !127, i64 0}
!153 = !DILocation(line: 29, column: 15, scope: !154)
!154 = distinct !DILexicalBlock(scope: !63, file: !3, line: 29, column: 9)
!155 = !DILocation(line: 29, column: 9, scope: !63)
!156 = distinct !{!156, !123, !157, !115}
!157 = !DILocation(line: 30, column: 3, scope: !24)
!158 = !DILocation(line: 31, column: 17, scope: !159)
!159 = distinct !DILexicalBlock(scope: !24, file: !3, line: 31, column: 7)
!160 = !DILocation(line: 31, column: 27, scope: !159)
!161 = !DILocation(line: 31, column: 30, scope: !159)
!162 = !DILocation(line: 31, column: 7, scope: !24)
!163 = !DILocation(line: 32, column: 1, scope: !24)
!164 = !DILocation(line: 33, column: 26, scope: !24)
!165 = !DILocation(line: 33, column: 18, scope: !24)
!166 = !DILocation(line: 33, column: 16, scope: !24)
!167 = !DILocation(line: 33, column: 50, scope: !24)
!168 = !{!127, !127, i64 0}
!169 = !DILocation(line: 33, column: 33, scope: !24)
!170 = !DILocation(line: 33, column: 31, scope: !24)
!171 = !DILocation(line: 33, column: 57, scope: !24)
!172 = !DILocation(line: 33, column: 55, scope: !24)
!173 = !DILocation(line: 33, column: 3, scope: !24)
!174 = !DISubprogram(name: "ext_fn", scope: !3, file: !3, line: 11, type: !77, flags: DIFlagPrototyped, spFlags: DISPFlagOptimized, retainedNodes: !175)
!175 = !{}
!176 = distinct !DISubprogram(name: "mix", scope: !3, file: !3, line: 35, type: !177, scopeLine: 35, flags: DIFlagPrototyped | DIFlagAllCallsDescribed, spFlags: DISPFlagDefinition | DISPFlagOptimized, unit: !2, retainedNodes: !181)
!177 = !DISubroutineType(types: !178)
!178 = !{!12, !45, !12, !179, !180}
!179 = !DIBasicType(name: "long double", size: 128, encoding: DW_ATE_float)
!180 = !DIBasicType(name: "_Bool", size: 8, encoding: DW_ATE_boolean)
!181 = !{!182, !183, !184, !185}
!182 = !DILocalVariable(name: "f", arg: 1, scope: !176, file: !3, line: 35, type: !45)
!183 = !DILocalVariable(name: "d", arg: 2, scope: !176, file: !3, line: 35, type: !12)
!184 = !DILocalVariable(name: "ld", arg: 3, scope: !176, file: !3, line: 35, type: !179)
!185 = !DILocalVariable(name: "b", arg: 4, scope: !176, file: !3, line: 35, type: !180)
!186 = !DILocation(line: 0, scope: !176)
!187 = !DILocation(line: 35, column: 65, scope: !176)
!188 = !DILocation(line: 35, column: 58, scope: !176)
!189 = distinct !DISubprogram(name: "fill", scope: !3, file: !3, line: 36, type: !190, scopeLine: 36, flags: DIFlagPrototyped | DIFlagAllCallsDescribed, spFlags: DISPFlagDefinition | DISPFlagOptimized, unit: !2, retainedNodes: !195)
!190 = !DISubroutineType(types: !191)
!191 = !{null, !192, !193}
!192 = !DIDerivedType(tag: DW_TAG_pointer_type, baseType: !13, size: 64)
!193 = !DIDerivedType(tag: DW_TAG_typedef, name: "size_t", file: !3, line: 1, baseType: !194)
!194 = !DIBasicType(name: "unsigned long", size: 64, encoding: DW_ATE_unsigned)
!195 = !{!196, !197, !198}
!196 = !DILocalVariable(name: "p", arg: 1, scope: !189, file: !3, line: 36, type: !192)
!197 = !DILocalVariable(name: "n", arg: 2, scope: !189, file: !3, line: 36, type: !193)
!198 = !DILocalVariable(name: "i", scope: !199, file: !3, line: 36, type: !193)
!199 = distinct !DILexicalBlock(scope: !189, file: !3, line: 36, column: 59)
!200 = !DILocation(line: 0, scope: !189)
!201 = !DILocation(line: 36, column: 32, scope: !189)
!202 = !DILocation(line: 0, scope: !199)
!203 = !DILocation(line: 36, column: 80, scope: !204)
!204 = distinct !DILexicalBlock(scope: !199, file: !3, line: 36, column: 59)
!205 = !DILocation(line: 36, column: 59, scope: !199)
!206 = !DILocation(line: 36, column: 86, scope: !204)
!207 = !DILocation(line: 36, column: 97, scope: !204)
!208 = !DILocation(line: 36, column: 95, scope: !204)
!209 = !{!120, !120, i64 0}
!210 = distinct !{!210, !205, !211, !115, !212}
!211 = !DILocation(line: 36, column: 103, scope: !199)
!212 = !{!"llvm.loop.isvectorized", i32 1}
!213 = distinct !{!213, !214}
!214 = !{!"llvm.loop.unroll.disable"}
!215 = !DILocation(line: 36, column: 106, scope: !189)
!216 = !DILocation(line: 36, column: 90, scope: !204)
!217 = distinct !{!217, !205, !211, !115, !218, !212}
!218 = !{!"llvm.loop.unroll.runtime.disable"}
!219 = distinct !DISubprogram(name: "vadd", scope: !3, file: !3, line: 38, type: !220, scopeLine: 38, flags: DIFlagPrototyped | DIFlagAllCallsDescribed, spFlags: DISPFlagDefinition | DISPFlagOptimized, unit: !2, retainedNodes: !224)
!220 = !DISubroutineType(types: !221)
!221 = !{!222, !222, !222}
!222 = !DIDerivedType(tag: DW_TAG_typedef, name: "v4si", file: !3, line: 37, baseType: !223)
!223 = !DICompositeType(tag: DW_TAG_array_type, baseType: !21, size: 128, flags: DIFlagVector, elements: !48)
!224 = !{!225, !226}
!225 = !DILocalVariable(name: "a", arg: 1, scope: !219, file: !3, line: 38, type: !222)
!226 = !DILocalVariable(name: "b", arg: 2, scope: !219, file: !3, line: 38, type: !222)
!227 = !DILocation(line: 0, scope: !219)
!228 = !DILocation(line: 38, column: 42, scope: !219)
!229 = !DILocation(line: 38, column: 38, scope: !219)
!230 = !DILocation(line: 38, column: 29, scope: !219)
!231 = distinct !DISubprogram(name: "cmul", scope: !3, file: !3, line: 39, type: !232, scopeLine: 39, flags: DIFlagPrototyped | DIFlagAllCallsDescribed, spFlags: DISPFlagDefinition | DISPFlagOptimized, unit: !2, retainedNodes: !235)
!232 = !DISubroutineType(types: !233)
!233 = !{!234, !234, !234}
!234 = !DIBasicType(name: "complex", size: 128, encoding: DW_ATE_complex_float)
!235 = !{!236, !237}
!236 = !DILocalVariable(name: "a", arg: 1, scope: !231, file: !3, line: 39, type: !234)
!237 = !DILocalVariable(name: "b", arg: 2, scope: !231, file: !3, line: 39, type: !234)
!238 = !DILocation(line: 0, scope: !231)
!239 = !DILocation(line: 39, column: 71, scope: !231)
!240 = !{!"branch_weights", i32 1, i32 1048575}
!241 = !DILocation(line: 39, column: 62, scope: !231)
