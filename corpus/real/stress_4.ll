; ModuleID = '/tmp/autogen.bc'
source_filename = "/tmp/autogen.bc"

define void @autogen_SD4(i8* %0, i32* %1, i64* %2, i32 %3, i64 %4, i8 %5) {
BB:
  %A4 = alloca <16 x i64>, align 128
  %A3 = alloca <8 x i32>, align 32
  %A2 = alloca <8 x i64>, align 64
  %A1 = alloca <1 x double>, align 8
  %A = alloca <2 x i8>, align 2
  %L = load i8, i8* %0, align 1
  store i64 %4, i64* %2, align 4
  %E = extractelement <16 x i16> zeroinitializer, i32 5
  %Shuff = shufflevector <8 x i64> zeroinitializer, <8 x i64> zeroinitializer, <8 x i32> <i32 8, i32 undef, i32 12, i32 14, i32 0, i32 2, i32 4, i32 6>
  %I = insertelement <1 x i64> zeroinitializer, i64 306417, i32 0
  %B = and i8 %L, -47
  %Tr = trunc i32 287221 to i8
  %Sl = select i1 true, i32 373173, i32 %3
  %Cmp = icmp ugt i32 373173, 287221
  br label %CF330

CF330:                                            ; preds = %CF330, %CF362, %CF350, %BB
  %L5 = load i8, i8* %0, align 1
  store i8 0, i8* %0, align 1
  %E6 = extractelement <8 x i64> zeroinitializer, i32 3
  %Shuff7 = shufflevector <8 x i1> zeroinitializer, <8 x i1> zeroinitializer, <8 x i32> <i32 14, i32 0, i32 undef, i32 4, i32 6, i32 8, i32 10, i32 12>
  %I8 = insertelement <1 x i64> zeroinitializer, i64 41121, i32 0
  %B9 = lshr i32 %Sl, 491581
  %PC = bitcast <8 x i64>* %A2 to i16*
  %Sl10 = select i1 true, i1 %Cmp, i1 true
  br i1 %Sl10, label %CF330, label %CF362

CF362:                                            ; preds = %CF330
  %Cmp11 = icmp slt <8 x i64> zeroinitializer, zeroinitializer
  %L12 = load i16, i16* %PC, align 2
  store i16 %E, i16* %PC, align 2
  %E13 = extractelement <4 x i8> zeroinitializer, i32 0
  %Shuff14 = shufflevector <8 x i1> zeroinitializer, <8 x i1> zeroinitializer, <8 x i32> <i32 3, i32 5, i32 7, i32 9, i32 undef, i32 13, i32 15, i32 1>
  %I15 = insertelement <16 x i16> zeroinitializer, i16 %L12, i32 5
  %B16 = udiv <1 x i64> zeroinitializer, zeroinitializer
  %Se = sext i8 %5 to i32
  %Sl17 = select i1 true, <8 x i32>* %A3, <8 x i32>* %A3
  %Cmp18 = icmp uge i8 -43, %L
  br i1 %Cmp18, label %CF330, label %CF350

CF350:                                            ; preds = %CF362
  %L19 = load i16, i16* %PC, align 2
  store i16 %L12, i16* %PC, align 2
  %E20 = extractelement <8 x i64> %Shuff, i32 7
  %Shuff21 = shufflevector <8 x i64> zeroinitializer, <8 x i64> zeroinitializer, <8 x i32> <i32 10, i32 12, i32 14, i32 0, i32 2, i32 4, i32 undef, i32 8>
  %I22 = insertelement <1 x i64> zeroinitializer, i64 %E6, i32 0
  %B23 = srem i64 %4, %4
  %FC = sitofp i1 true to double
  %Sl24 = select i1 %Cmp18, <8 x i32>* %Sl17, <8 x i32>* %A3
  %Cmp25 = icmp uge <8 x i1> %Shuff7, %Shuff7
  %L26 = load <2 x i8>, <2 x i8>* %A, align 2
  store i16 %L12, i16* %PC, align 2
  %E27 = extractelement <8 x i1> %Cmp11, i32 6
  br i1 %E27, label %CF330, label %CF331

CF331:                                            ; preds = %CF331, %CF360, %CF339, %CF364, %CF350
  %Shuff28 = shufflevector <8 x i64> zeroinitializer, <8 x i64> %Shuff21, <8 x i32> <i32 1, i32 undef, i32 5, i32 undef, i32 undef, i32 11, i32 undef, i32 15>
  %I29 = insertelement <1 x i64> zeroinitializer, i64 206097, i32 0
  %Tr30 = trunc i64 %E20 to i32
  %Sl31 = select i1 %E27, i64 206097, i64 %E20
  %Cmp32 = icmp sge i64 %4, 41121
  br i1 %Cmp32, label %CF331, label %CF344

CF344:                                            ; preds = %CF344, %CF363, %CF331
  %L33 = load i16, i16* %PC, align 2
  store i16 %E, i16* %PC, align 2
  %E34 = extractelement <8 x i64> zeroinitializer, i32 3
  %Shuff35 = shufflevector <1 x i64> zeroinitializer, <1 x i64> %I22, <1 x i32> undef
  %I36 = insertelement <8 x i64> %Shuff, i64 %Sl31, i32 2
  %B37 = and i16 17145, %E
  %ZE = zext i1 %E27 to i16
  %Sl38 = select i1 true, i64 -1, i64 %E6
  %Cmp39 = icmp uge <8 x i64> zeroinitializer, %Shuff21
  %L40 = load <8 x i32>, <8 x i32>* %Sl24, align 32
  store i8 %5, i8* %0, align 1
  %E41 = extractelement <1 x i64> %Shuff35, i32 0
  %Shuff42 = shufflevector <8 x i64> zeroinitializer, <8 x i64> zeroinitializer, <8 x i32> <i32 15, i32 1, i32 3, i32 5, i32 undef, i32 9, i32 undef, i32 13>
  %I43 = insertelement <8 x i64> zeroinitializer, i64 %E20, i32 1
  %B44 = udiv i64 %E20, %Sl31
  %Se45 = sext i8 -1 to i32
  %Sl46 = select <8 x i1> %Shuff7, <8 x i64> %I43, <8 x i64> %Shuff28
  %Cmp47 = icmp sge i32 211981, %B9
  br i1 %Cmp47, label %CF344, label %CF363

CF363:                                            ; preds = %CF344
  %L48 = load i16, i16* %PC, align 2
  store <2 x i8> %L26, <2 x i8>* %A, align 2
  %E49 = extractelement <8 x i64> zeroinitializer, i32 4
  %Shuff50 = shufflevector <1 x i64> zeroinitializer, <1 x i64> zeroinitializer, <1 x i32> <i32 1>
  %I51 = insertelement <1 x i64> zeroinitializer, i64 %Sl38, i32 0
  %B52 = srem <8 x i64> zeroinitializer, zeroinitializer
  %Tr53 = trunc i8 -47 to i1
  br i1 %Tr53, label %CF344, label %CF351

CF351:                                            ; preds = %CF351, %CF363
  %Sl54 = select i1 %E27, i16 %B37, i16 %L33
  %Cmp55 = fcmp ord double 0xA99365B24491B630, %FC
  br i1 %Cmp55, label %CF351, label %CF360

CF360:                                            ; preds = %CF351
  %L56 = load <16 x i64>, <16 x i64>* %A4, align 128
  store i8 0, i8* %0, align 1
  %E57 = extractelement <8 x i64> %Shuff, i32 4
  %Shuff58 = shufflevector <8 x i1> %Cmp39, <8 x i1> %Cmp25, <8 x i32> <i32 15, i32 1, i32 3, i32 5, i32 7, i32 9, i32 undef, i32 undef>
  %I59 = insertelement <8 x i64> zeroinitializer, i64 %E6, i32 1
  %B60 = fdiv double 0xE02B3A4A372946C8, 0xA99365B24491B630
  %Tr61 = trunc <8 x i64> %Shuff21 to <8 x i1>
  %Sl62 = select i1 true, i64 %E34, i64 %Sl31
  %Cmp63 = icmp slt i1 true, %Cmp18
  br i1 %Cmp63, label %CF331, label %CF339

CF339:                                            ; preds = %CF360
  %L64 = load i16, i16* %PC, align 2
  store i16 %L19, i16* %PC, align 2
  %E65 = extractelement <8 x i64> zeroinitializer, i32 5
  %Shuff66 = shufflevector <8 x i64> zeroinitializer, <8 x i64> zeroinitializer, <8 x i32> <i32 8, i32 10, i32 12, i32 14, i32 undef, i32 2, i32 4, i32 undef>
  %I67 = insertelement <1 x i64> %Shuff50, i64 %E6, i32 0
  %B68 = add i16 32521, %E
  %Se69 = sext <8 x i1> %Tr61 to <8 x i32>
  %Sl70 = select i1 true, <8 x i32>* %A3, <8 x i32>* %Sl17
  %Cmp71 = icmp ult i8 -43, %5
  br i1 %Cmp71, label %CF331, label %CF333

CF333:                                            ; preds = %CF333, %CF355, %CF358, %CF337, %CF339
  %L72 = load <8 x i32>, <8 x i32>* %Sl70, align 32
  store <8 x i32> %L40, <8 x i32>* %Sl24, align 32
  %E73 = extractelement <1 x i64> %Shuff50, i32 0
  %Shuff74 = shufflevector <8 x i64> %Shuff28, <8 x i64> %Shuff, <8 x i32> <i32 2, i32 undef, i32 6, i32 8, i32 10, i32 12, i32 14, i32 0>
  %I75 = insertelement <1 x i64> zeroinitializer, i64 %Sl31, i32 0
  %Tr76 = trunc <8 x i64> %Shuff28 to <8 x i1>
  %Sl77 = select i1 %Cmp18, i16 %L12, i16 %E
  %Cmp78 = icmp uge i16 %Sl54, %L33
  br i1 %Cmp78, label %CF333, label %CF341

CF341:                                            ; preds = %CF341, %CF359, %CF333
  %L79 = load i16, i16* %PC, align 2
  store i16 %Sl77, i16* %PC, align 2
  %E80 = extractelement <1 x i64> %I22, i32 0
  %Shuff81 = shufflevector <2 x i8> zeroinitializer, <2 x i8> zeroinitializer, <2 x i32> <i32 2, i32 0>
  %I82 = insertelement <8 x i1> %Cmp25, i1 %Sl10, i32 0
  %B83 = srem <1 x i64> %Shuff35, %I
  %PC84 = bitcast <8 x i64>* %A2 to i32*
  %Sl85 = select i1 %Cmp71, <2 x i8>* %A, <2 x i8>* %A
  %Cmp86 = icmp slt i32 491581, %3
  br i1 %Cmp86, label %CF341, label %CF359

CF359:                                            ; preds = %CF341
  %L87 = load i16, i16* %PC, align 2
  store <8 x i32> %L40, <8 x i32>* %Sl70, align 32
  %E88 = extractelement <8 x i1> %Cmp11, i32 0
  br i1 %E88, label %CF341, label %CF355

CF355:                                            ; preds = %CF359
  %Shuff89 = shufflevector <8 x i64> zeroinitializer, <8 x i64> zeroinitializer, <8 x i32> <i32 3, i32 5, i32 7, i32 9, i32 11, i32 13, i32 15, i32 undef>
  %I90 = insertelement <8 x i1> %Tr61, i1 %Cmp18, i32 5
  %Tr91 = trunc i16 %B37 to i1
  br i1 %Tr91, label %CF333, label %CF338

CF338:                                            ; preds = %CF338, %CF355
  %Sl92 = select i1 %Cmp55, i32 %Tr30, i32 373173
  %Cmp93 = icmp ult i16 %L64, -14615
  br i1 %Cmp93, label %CF338, label %CF354

CF354:                                            ; preds = %CF354, %CF338
  %L94 = load <8 x i32>, <8 x i32>* %Sl70, align 32
  store <8 x i32> %L94, <8 x i32>* %Sl24, align 32
  %E95 = extractelement <1 x i64> zeroinitializer, i32 0
  %Shuff96 = shufflevector <8 x i64> %B52, <8 x i64> zeroinitializer, <8 x i32> <i32 8, i32 10, i32 12, i32 14, i32 0, i32 2, i32 4, i32 6>
  %I97 = insertelement <8 x i1> %Shuff14, i1 %E88, i32 2
  %B98 = shl <1 x i64> %B16, zeroinitializer
  %FC99 = sitofp i32 439097 to double
  %Sl100 = select i1 %Tr53, i64* %2, i64* %2
  %Cmp101 = icmp uge i8 %5, %5
  br i1 %Cmp101, label %CF354, label %CF358

CF358:                                            ; preds = %CF354
  %L102 = load i16, i16* %PC, align 2
  store <8 x i32> %L94, <8 x i32>* %Sl70, align 32
  %E103 = extractelement <8 x i1> %Shuff58, i32 4
  br i1 %E103, label %CF333, label %CF337

CF337:                                            ; preds = %CF358
  %Shuff104 = shufflevector <8 x i1> %Shuff14, <8 x i1> %Shuff58, <8 x i32> <i32 15, i32 undef, i32 3, i32 undef, i32 7, i32 undef, i32 11, i32 13>
  %I105 = insertelement <1 x i64> %I67, i64 %E6, i32 0
  %B106 = mul i32 %Sl92, %Sl92
  %Se107 = sext i32 %B9 to i64
  %Sl108 = select i1 %Cmp47, i8 %L5, i8 0
  %Cmp109 = icmp slt i1 %Cmp32, %Cmp32
  br i1 %Cmp109, label %CF333, label %CF336

CF336:                                            ; preds = %CF336, %CF337
  %L110 = load <8 x i32>, <8 x i32>* %Sl70, align 32
  store <8 x i32> %Se69, <8 x i32>* %Sl70, align 32
  %E111 = extractelement <16 x i64> %L56, i32 3
  %Shuff112 = shufflevector <8 x i64> %Shuff89, <8 x i64> %I59, <8 x i32> <i32 6, i32 8, i32 10, i32 12, i32 undef, i32 0, i32 2, i32 4>
  %I113 = insertelement <8 x i32> %L72, i32 %B9, i32 0
  %B114 = add <8 x i64> %Shuff21, %Shuff21
  %Tr115 = trunc <8 x i64> %Shuff21 to <8 x i32>
  %Sl116 = select i1 true, i16 %L102, i16 %L33
  %Cmp117 = icmp sge <8 x i1> %Shuff104, zeroinitializer
  %L118 = load <8 x i32>, <8 x i32>* %Sl70, align 32
  store i32 %Sl92, i32* %PC84, align 4
  %E119 = extractelement <8 x i1> %Cmp25, i32 4
  br i1 %E119, label %CF336, label %CF364

CF364:                                            ; preds = %CF336
  %Shuff120 = shufflevector <2 x i8> %L26, <2 x i8> %L26, <2 x i32> undef
  %I121 = insertelement <8 x i64> %Shuff, i64 -1, i32 5
  %B122 = srem <8 x i64> %Shuff96, %I36
  %FC123 = sitofp <8 x i64> %I36 to <8 x float>
  %Sl124 = select i1 %Cmp101, <8 x i1> %Shuff58, <8 x i1> %Cmp117
  %Cmp125 = icmp sgt i1 %E88, %Cmp86
  br i1 %Cmp125, label %CF331, label %CF332

CF332:                                            ; preds = %CF332, %CF365, %CF364
  %L126 = load i8, i8* %0, align 1
  store i16 %L48, i16* %PC, align 2
  %E127 = extractelement <8 x i32> %L94, i32 3
  %Shuff128 = shufflevector <8 x i32> %L94, <8 x i32> %L40, <8 x i32> <i32 14, i32 0, i32 2, i32 undef, i32 6, i32 8, i32 undef, i32 12>
  %I129 = insertelement <8 x i64> %Shuff96, i64 %Sl62, i32 0
  %Tr130 = trunc i32 %B9 to i8
  %Sl131 = select i1 %E27, <1 x i64> %Shuff50, <1 x i64> %I67
  %L132 = load <8 x i32>, <8 x i32>* %Sl70, align 32
  store i64 %Se107, i64* %Sl100, align 4
  %E133 = extractelement <8 x i1> zeroinitializer, i32 0
  br i1 %E133, label %CF332, label %CF365

CF365:                                            ; preds = %CF332
  %Shuff134 = shufflevector <8 x i64> zeroinitializer, <8 x i64> %I36, <8 x i32> <i32 undef, i32 5, i32 7, i32 9, i32 11, i32 undef, i32 15, i32 1>
  %I135 = insertelement <8 x i64> zeroinitializer, i64 %E6, i32 5
  %B136 = and i32 %Sl92, 287221
  %Tr137 = trunc <8 x i64> %Sl46 to <8 x i16>
  %Sl138 = select i1 %Cmp125, i8 %L, i8 -47
  %Cmp139 = icmp slt <8 x i1> %Cmp25, %Shuff104
  %L140 = load i8, i8* %0, align 1
  store <8 x i32> %L40, <8 x i32>* %Sl70, align 32
  %E141 = extractelement <2 x i8> zeroinitializer, i32 1
  %Shuff142 = shufflevector <1 x i64> zeroinitializer, <1 x i64> %B83, <1 x i32> undef
  %I143 = insertelement <16 x i16> zeroinitializer, i16 32521, i32 0
  %B144 = and i16 %L87, -14615
  %ZE145 = zext i1 %Cmp78 to i64
  %Sl146 = select i1 %Cmp78, i32 %B106, i32 %B106
  %Cmp147 = icmp sgt <16 x i64> %L56, %L56
  %L148 = load i64, i64* %Sl100, align 4
  store <8 x i32> %L40, <8 x i32>* %Sl70, align 32
  %E149 = extractelement <1 x i64> %Sl131, i32 0
  %Shuff150 = shufflevector <8 x i64> %Shuff134, <8 x i64> %Shuff, <8 x i32> <i32 5, i32 7, i32 9, i32 11, i32 undef, i32 15, i32 1, i32 3>
  %I151 = insertelement <8 x i1> %Shuff7, i1 true, i32 7
  %B152 = add i16 %B144, %L33
  %Se153 = sext i1 %E27 to i32
  %Sl154 = select <8 x i1> zeroinitializer, <8 x i64> %Shuff89, <8 x i64> %Shuff150
  %Cmp155 = icmp ne i64 %Sl38, %Se107
  br i1 %Cmp155, label %CF332, label %CF346

CF346:                                            ; preds = %CF346, %CF365
  %L156 = load i8, i8* %0, align 1
  store i8 %L156, i8* %0, align 1
  %E157 = extractelement <8 x i1> %Cmp139, i32 2
  br i1 %E157, label %CF346, label %CF352

CF352:                                            ; preds = %CF346
  %Shuff158 = shufflevector <8 x i32> %L110, <8 x i32> %L40, <8 x i32> <i32 13, i32 15, i32 1, i32 3, i32 undef, i32 7, i32 9, i32 11>
  %I159 = insertelement <1 x i64> %Shuff35, i64 %E20, i32 0
  %B160 = srem <8 x i32> %L132, %L94
  %Tr161 = trunc i64 %L148 to i16
  %Sl162 = select i1 %Cmp101, i1 %Cmp18, i1 %Cmp109
  br label %CF329

CF329:                                            ; preds = %CF329, %CF366, %CF340, %CF369, %CF352
  %Cmp163 = icmp eq i64 %Se107, %E95
  br i1 %Cmp163, label %CF329, label %CF343

CF343:                                            ; preds = %CF343, %CF329
  %L164 = load i16, i16* %PC, align 2
  store <8 x i32> %L94, <8 x i32>* %Sl17, align 32
  %E165 = extractelement <8 x i32> %Se69, i32 0
  %Shuff166 = shufflevector <8 x i64> %Shuff96, <8 x i64> %Shuff74, <8 x i32> <i32 3, i32 5, i32 7, i32 9, i32 11, i32 13, i32 15, i32 1>
  %I167 = insertelement <8 x i64> zeroinitializer, i64 %B23, i32 5
  %FC168 = sitofp i8 %L156 to double
  %Sl169 = select i1 %E119, i8 %L5, i8 %L156
  %Cmp170 = icmp ugt <1 x i64> %I105, %I75
  %L171 = load i16, i16* %PC, align 2
  store i16 %L87, i16* %PC, align 2
  %E172 = extractelement <8 x i32> %Shuff128, i32 6
  %Shuff173 = shufflevector <1 x i64> zeroinitializer, <1 x i64> %I75, <1 x i32> <i32 1>
  %I174 = insertelement <8 x i64> zeroinitializer, i64 %E57, i32 5
  %B175 = fsub double %FC168, 0xE02B3A4A372946C8
  %Tr176 = trunc i64 %E95 to i16
  %Sl177 = select i1 %Cmp155, double 0x5C3BDE298C10660, double %FC
  %Cmp178 = icmp slt <8 x i1> %I97, zeroinitializer
  %L179 = load i32, i32* %PC84, align 4
  store i32 211981, i32* %PC84, align 4
  %E180 = extractelement <1 x i64> zeroinitializer, i32 0
  %Shuff181 = shufflevector <8 x i32> %Shuff128, <8 x i32> %Shuff128, <8 x i32> <i32 1, i32 3, i32 5, i32 7, i32 undef, i32 undef, i32 13, i32 15>
  %I182 = insertelement <8 x i32> %Shuff158, i32 %Sl92, i32 3
  %B183 = srem i32 %E127, %Se
  %FC184 = sitofp <8 x i32> %Se69 to <8 x double>
  %Sl185 = select i1 %Cmp78, i1 true, i1 %Cmp71
  br i1 %Sl185, label %CF343, label %CF348

CF348:                                            ; preds = %CF348, %CF343
  %Cmp186 = icmp ugt <8 x i64> %Shuff28, zeroinitializer
  %L187 = load i8, i8* %0, align 1
  store <2 x i8> %Shuff120, <2 x i8>* %Sl85, align 2
  %E188 = extractelement <8 x i32> %Shuff181, i32 0
  %Shuff189 = shufflevector <1 x i64> %I159, <1 x i64> zeroinitializer, <1 x i32> <i32 1>
  %I190 = insertelement <2 x i8> %Shuff120, i8 %L187, i32 1
  %B191 = or <8 x i32> %L110, %L40
  %Tr192 = trunc <8 x i64> %I36 to <8 x i8>
  %Sl193 = select i1 true, i8 0, i8 %Sl108
  %Cmp194 = fcmp olt double %FC, %B60
  br i1 %Cmp194, label %CF348, label %CF366

CF366:                                            ; preds = %CF348
  %L195 = load i8, i8* %0, align 1
  store <8 x i32> %Se69, <8 x i32>* %Sl70, align 32
  %E196 = extractelement <8 x i1> %Cmp25, i32 3
  br i1 %E196, label %CF329, label %CF340

CF340:                                            ; preds = %CF366
  %Shuff197 = shufflevector <8 x i1> %Shuff7, <8 x i1> %Cmp117, <8 x i32> <i32 6, i32 8, i32 10, i32 12, i32 14, i32 undef, i32 undef, i32 4>
  %I198 = insertelement <8 x i64> %Shuff21, i64 402413, i32 0
  %B199 = ashr i16 %B152, -14615
  %Tr200 = trunc i32 439097 to i8
  %Sl201 = select i1 %Tr91, i8 -1, i8 %L187
  %Cmp202 = icmp ult i1 true, true
  br i1 %Cmp202, label %CF329, label %CF335

CF335:                                            ; preds = %CF335, %CF340
  %L203 = load i16, i16* %PC, align 2
  store i8 %Sl108, i8* %0, align 1
  %E204 = extractelement <8 x i64> %I174, i32 1
  %Shuff205 = shufflevector <8 x i64> %Sl154, <8 x i64> %Shuff166, <8 x i32> <i32 12, i32 14, i32 undef, i32 2, i32 undef, i32 undef, i32 8, i32 10>
  %I206 = insertelement <8 x i1> %Shuff7, i1 %Cmp155, i32 6
  %B207 = and i16 -14615, %L19
  %Tr208 = trunc <1 x i64> %I29 to <1 x i16>
  %Sl209 = select i1 %Cmp194, i16 %L203, i16 %B144
  %Cmp210 = icmp sge <8 x i32> %Se69, %Shuff158
  %L211 = load i16, i16* %PC, align 2
  store i8 0, i8* %0, align 1
  %E212 = extractelement <8 x i64> %Shuff21, i32 2
  %Shuff213 = shufflevector <8 x i32> %Shuff158, <8 x i32> %L110, <8 x i32> <i32 5, i32 7, i32 9, i32 11, i32 13, i32 15, i32 1, i32 3>
  %I214 = insertelement <8 x i1> %I151, i1 %Cmp18, i32 7
  %B215 = sub <1 x i64> %I22, zeroinitializer
  %FC216 = uitofp i16 %ZE to double
  %Sl217 = select i1 %Cmp194, i16 %B152, i16 %L33
  %Cmp218 = icmp sge i8 %L156, %L126
  br i1 %Cmp218, label %CF335, label %CF342

CF342:                                            ; preds = %CF342, %CF361, %CF335
  %L219 = load i8, i8* %0, align 1
  store i16 %B37, i16* %PC, align 2
  %E220 = extractelement <8 x i32> %Shuff128, i32 1
  %Shuff221 = shufflevector <8 x i64> %I36, <8 x i64> %Shuff112, <8 x i32> <i32 12, i32 14, i32 undef, i32 2, i32 4, i32 6, i32 undef, i32 10>
  %I222 = insertelement <1 x i64> %Shuff35, i64 %ZE145, i32 0
  %B223 = ashr <8 x i64> %Shuff28, zeroinitializer
  %Se224 = sext <8 x i1> %Tr76 to <8 x i32>
  %Sl225 = select <1 x i1> %Cmp170, <1 x i64> %B83, <1 x i64> %I
  %Cmp226 = icmp sge i1 %Cmp47, %Cmp
  br i1 %Cmp226, label %CF342, label %CF361

CF361:                                            ; preds = %CF342
  %L227 = load i64, i64* %Sl100, align 4
  store i8 0, i8* %0, align 1
  %E228 = extractelement <1 x i64> %Shuff173, i32 0
  %Shuff229 = shufflevector <8 x i1> %Shuff14, <8 x i1> %Cmp117, <8 x i32> <i32 undef, i32 9, i32 11, i32 13, i32 15, i32 1, i32 undef, i32 undef>
  %I230 = insertelement <1 x i64> zeroinitializer, i64 %Sl38, i32 0
  %B231 = add i16 %E, -14615
  %Sl232 = select i1 true, <8 x i64> %I198, <8 x i64> %I121
  %Cmp233 = icmp uge <8 x i1> %I151, %Cmp25
  %L234 = load i32, i32* %PC84, align 4
  store i16 %L33, i16* %PC, align 2
  %E235 = extractelement <16 x i16> %I143, i32 13
  %Shuff236 = shufflevector <8 x i1> %Shuff229, <8 x i1> zeroinitializer, <8 x i32> <i32 0, i32 2, i32 4, i32 6, i32 undef, i32 10, i32 12, i32 14>
  %I237 = insertelement <1 x i64> %Sl131, i64 %E180, i32 0
  %Se238 = sext i1 %Tr91 to i8
  %Sl239 = select <8 x i1> %Cmp139, <8 x i32> %B160, <8 x i32> %Shuff213
  %Cmp240 = icmp ult i64 %Se107, 206097
  br i1 %Cmp240, label %CF342, label %CF347

CF347:                                            ; preds = %CF347, %CF361
  %L241 = load <8 x i32>, <8 x i32>* %Sl70, align 32
  store i8 %Se238, i8* %0, align 1
  %E242 = extractelement <8 x i64> %Shuff166, i32 4
  %Shuff243 = shufflevector <1 x i64> %I22, <1 x i64> %Sl131, <1 x i32> undef
  %I244 = insertelement <8 x i32> %L241, i32 %Sl146, i32 3
  %FC245 = sitofp i64 %B44 to double
  %Sl246 = select i1 %Cmp32, <8 x i1> %Cmp25, <8 x i1> %Cmp178
  %Cmp247 = icmp slt <1 x i64> %Shuff50, %I8
  %L248 = load i8, i8* %0, align 1
  store i8 0, i8* %0, align 1
  %E249 = extractelement <1 x i64> zeroinitializer, i32 0
  %Shuff250 = shufflevector <1 x i1> %Cmp170, <1 x i1> %Cmp170, <1 x i32> zeroinitializer
  %I251 = insertelement <8 x i64> %Shuff42, i64 %E204, i32 4
  %B252 = udiv i16 %B231, %L19
  %Tr253 = trunc <1 x i64> %I29 to <1 x i8>
  %Sl254 = select i1 %Cmp47, i8 %L140, i8 %Se238
  %Cmp255 = icmp ule i8 -43, %L5
  br i1 %Cmp255, label %CF347, label %CF369

CF369:                                            ; preds = %CF347
  %L256 = load i8, i8* %0, align 1
  store <8 x i32> %Shuff128, <8 x i32>* %Sl70, align 32
  %E257 = extractelement <8 x i32> %Shuff213, i32 0
  %Shuff258 = shufflevector <8 x i64> %Shuff221, <8 x i64> %I198, <8 x i32> <i32 11, i32 13, i32 15, i32 1, i32 3, i32 5, i32 7, i32 undef>
  %I259 = insertelement <8 x i64> %Shuff258, i64 41121, i32 5
  %Tr260 = trunc i32 %L234 to i1
  br i1 %Tr260, label %CF329, label %CF334

CF334:                                            ; preds = %CF334, %CF357, %CF369
  %Sl261 = select <8 x i1> %I206, <8 x float> %FC123, <8 x float> %FC123
  %Cmp262 = icmp eq i8 %L5, %Sl108
  br i1 %Cmp262, label %CF334, label %CF353

CF353:                                            ; preds = %CF353, %CF334
  %L263 = load i8, i8* %0, align 1
  store <8 x i32> %Sl239, <8 x i32>* %Sl70, align 32
  %E264 = extractelement <8 x i32> %Tr115, i32 6
  %Shuff265 = shufflevector <2 x i8> %Shuff81, <2 x i8> zeroinitializer, <2 x i32> <i32 undef, i32 3>
  %I266 = insertelement <8 x i64> %Shuff66, i64 %Se107, i32 7
  %Tr267 = trunc <8 x i64> %Shuff to <8 x i16>
  %Sl268 = select i1 %Sl185, <8 x i1> %Shuff236, <8 x i1> %Cmp117
  %Cmp269 = icmp uge i32 373173, 287221
  br i1 %Cmp269, label %CF353, label %CF357

CF357:                                            ; preds = %CF353
  %L270 = load <8 x i32>, <8 x i32>* %Sl70, align 32
  store i32 %E165, i32* %PC84, align 4
  %E271 = extractelement <8 x i32> %Se69, i32 3
  %Shuff272 = shufflevector <2 x i8> %Shuff265, <2 x i8> %Shuff265, <2 x i32> <i32 2, i32 0>
  %I273 = insertelement <8 x i1> %Cmp11, i1 true, i32 4
  %B274 = shl i64 %E95, 402413
  %FC275 = sitofp i1 %Cmp226 to double
  %Sl276 = select i1 %Sl185, i32 %E188, i32 %E127
  %Cmp277 = icmp uge i16 32521, -14615
  br i1 %Cmp277, label %CF334, label %CF345

CF345:                                            ; preds = %CF357
  %L278 = load i8, i8* %0, align 1
  store i8 %L156, i8* %0, align 1
  %E279 = extractelement <8 x i1> %Shuff236, i32 6
  br label %CF

CF:                                               ; preds = %CF, %CF368, %CF367, %CF345
  %Shuff280 = shufflevector <8 x i64> %Shuff89, <8 x i64> zeroinitializer, <8 x i32> <i32 9, i32 11, i32 undef, i32 15, i32 1, i32 3, i32 5, i32 7>
  %I281 = insertelement <8 x i1> %Shuff7, i1 %Cmp269, i32 3
  %Tr282 = trunc <8 x i32> %L72 to <8 x i8>
  %Sl283 = select i1 %Cmp255, i32 %3, i32 %L234
  %Cmp284 = icmp slt i1 %Cmp277, %Sl185
  br i1 %Cmp284, label %CF, label %CF368

CF368:                                            ; preds = %CF
  %L285 = load i8, i8* %0, align 1
  store <8 x i32> %Shuff181, <8 x i32>* %Sl17, align 32
  %E286 = extractelement <8 x i64> %Shuff21, i32 6
  %Shuff287 = shufflevector <8 x float> %Sl261, <8 x float> %FC123, <8 x i32> <i32 undef, i32 3, i32 5, i32 undef, i32 9, i32 11, i32 13, i32 15>
  %I288 = insertelement <1 x i64> %Shuff50, i64 %ZE145, i32 0
  %B289 = and i64 %4, %E95
  %FC290 = uitofp i16 %L12 to float
  %Sl291 = select i1 %Cmp32, i32 %L179, i32 439097
  %Cmp292 = icmp ule <1 x i64> %Shuff50, %I8
  %L293 = load <8 x i32>, <8 x i32>* %Sl70, align 32
  store <8 x i32> %L40, <8 x i32>* %Sl70, align 32
  %E294 = extractelement <8 x i32> %Shuff128, i32 5
  %Shuff295 = shufflevector <1 x i1> %Cmp292, <1 x i1> %Cmp170, <1 x i32> undef
  %I296 = insertelement <8 x i64> %Shuff89, i64 %B274, i32 4
  %BC = bitcast i32 373173 to float
  %Sl297 = select i1 %Sl185, i32 %E172, i32 %Sl92
  %Cmp298 = icmp sge i64 %E34, %E242
  br i1 %Cmp298, label %CF, label %CF356

CF356:                                            ; preds = %CF356, %CF368
  %L299 = load i16, i16* %PC, align 2
  store i8 %Sl108, i8* %0, align 1
  %E300 = extractelement <8 x i64> %Sl46, i32 4
  %Shuff301 = shufflevector <1 x i1> %Cmp247, <1 x i1> %Cmp247, <1 x i32> <i32 1>
  %I302 = insertelement <1 x i1> %Shuff301, i1 %E103, i32 0
  %Se303 = sext <8 x i1> %I214 to <8 x i16>
  %Sl304 = select <8 x i1> zeroinitializer, <8 x i1> %Tr61, <8 x i1> %Shuff7
  %Cmp305 = icmp ugt <8 x i64> %I43, %Shuff89
  %L306 = load i8, i8* %0, align 1
  store i8 0, i8* %0, align 1
  %E307 = extractelement <2 x i8> %Shuff265, i32 0
  %Shuff308 = shufflevector <1 x i64> zeroinitializer, <1 x i64> %B83, <1 x i32> <i32 1>
  %I309 = insertelement <8 x i64> %Shuff166, i64 %B44, i32 7
  %B310 = srem <8 x i32> %L270, %L94
  %Se311 = sext i1 %Cmp163 to i16
  %Sl312 = select i1 %E279, i16 %Tr176, i16 %L164
  %Cmp313 = icmp ule i16 %B37, %B252
  br i1 %Cmp313, label %CF356, label %CF367

CF367:                                            ; preds = %CF356
  %L314 = load <8 x i32>, <8 x i32>* %Sl70, align 32
  store i8 %Sl108, i8* %0, align 1
  %E315 = extractelement <1 x i64> zeroinitializer, i32 0
  %Shuff316 = shufflevector <8 x i1> %Cmp178, <8 x i1> %I97, <8 x i32> <i32 4, i32 6, i32 8, i32 10, i32 12, i32 14, i32 0, i32 2>
  %I317 = insertelement <1 x i64> %Shuff35, i64 %B274, i32 0
  %B318 = and <16 x i16> %I143, zeroinitializer
  %Tr319 = trunc <1 x i64> %I8 to <1 x i8>
  %Sl320 = select i1 %Sl185, i8 %L5, i8 %Sl201
  %Cmp321 = icmp slt i32 %Se45, %B136
  br i1 %Cmp321, label %CF, label %CF349

CF349:                                            ; preds = %CF367
  %L322 = load i8, i8* %0, align 1
  store i8 %L187, i8* %0, align 1
  %E323 = extractelement <8 x i64> %I129, i32 2
  %Shuff324 = shufflevector <8 x i64> %Shuff205, <8 x i64> %I198, <8 x i32> <i32 13, i32 15, i32 1, i32 undef, i32 5, i32 7, i32 9, i32 11>
  %I325 = insertelement <2 x i8> zeroinitializer, i8 %Tr200, i32 1
  %Tr326 = trunc <8 x i64> %I309 to <8 x i1>
  %Sl327 = select i1 %Sl185, <1 x i1> %Shuff250, <1 x i1> %Cmp170
  %Cmp328 = icmp ne <1 x i64> %B98, %I22
  store i8 %Sl320, i8* %0, align 1
  store <8 x i32> %Se69, <8 x i32>* %Sl70, align 32
  store <8 x i32> %L40, <8 x i32>* %Sl70, align 32
  store <8 x i32> %Shuff213, <8 x i32>* %Sl70, align 32
  store <8 x i32> %Se69, <8 x i32>* %Sl70, align 32
  ret void
}
