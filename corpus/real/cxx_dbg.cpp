namespace outer { namespace inner { int deep = 4; } using namespace inner; }
namespace alias = outer::inner;
using outer::inner::deep;
template <typename T, int N> struct Arr { T data[N]; T get(int i) const { return data[i]; } static int count; };
template <typename T, int N> int Arr<T, N>::count = N;
struct Base { virtual ~Base() {} virtual int f() = 0; int b; };
struct Derived : public Base { int f() override { return d + b; } int d; static const int K = 7; };
struct VBase : virtual Base { int f() override { return 1; } };
enum class Mode : unsigned char { A, B, C };
template <typename... Ts> int count(Ts... ts) { return sizeof...(ts); }
template <template <typename, int> class C> struct Wrap { C<int, 2> c; };
int use(Base *p, Mode m) {
  Arr<int, 3> a{{1, 2, 3}};
  Arr<double, 2> b{{1.0, 2.0}};
  Wrap<Arr> w; w.c.data[0] = 1;
  auto lam = [&](int x) { return x + a.get(0) + deep; };
  int r = lam(2) + p->f() + (int)b.get(1) + count(1, 2.0, 'c') + Arr<int,3>::count + w.c.get(0);
  try { if (m == Mode::B) throw 42; } catch (int e) { r += e; } catch (...) { r -= 1; }
  int Derived::*pm = &Derived::d;
  int (Base::*pf)() = &Base::f;
  Derived dd; dd.d = 1; dd.b = 2;
  r += dd.*pm + (dd.*pf)();
  return r + alias::deep;
}
