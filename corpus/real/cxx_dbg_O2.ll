; ModuleID = 'b.cpp'
source_filename = "b.cpp"
target datalayout = "e-m:e-p270:32:32-p271:32:32-p272:64:64-i64:64-f80:128-n8:16:32:64-S128"
target triple = "x86_64-pc-linux-gnu"

%struct.Base = type <{ i32 (...)**, i32, [4 x i8] }>
%struct.Arr = type { [3 x i32] }
%class.anon = type { %struct.Arr* }

$_ZN3ArrIiLi3EE5countE = comdat any

@_ZN5outer5inner4deepE = dso_local local_unnamed_addr global i32 4, align 4, !dbg !0
@_ZN3ArrIiLi3EE5countE = linkonce_odr dso_local local_unnamed_addr global i32 3, comdat, align 4, !dbg !6
@_ZTIi = external constant i8*

; Function Attrs: uwtable
define dso_local noundef i32 @_Z3useP4Base4Mode(%struct.Base* noundef %0, i8 noundef zeroext %1) local_unnamed_addr #0 personality i8* bitcast (i32 (...)* @__gxx_personality_v0 to i8*) !dbg !69 {
  call void @llvm.dbg.declare(metadata i32* undef, metadata !94, metadata !DIExpression(DW_OP_LLVM_fragment, 32, 32)), !dbg !123
  call void @llvm.dbg.value(metadata %struct.Base* %0, metadata !74, metadata !DIExpression()), !dbg !124
  call void @llvm.dbg.value(metadata i8 %1, metadata !75, metadata !DIExpression()), !dbg !124
  call void @llvm.dbg.value(metadata i32 1, metadata !76, metadata !DIExpression(DW_OP_LLVM_fragment, 0, 32)), !dbg !124
  call void @llvm.dbg.value(metadata i64 undef, metadata !76, metadata !DIExpression(DW_OP_LLVM_fragment, 32, 64)), !dbg !124
  call void @llvm.dbg.value(metadata double undef, metadata !77, metadata !DIExpression(DW_OP_LLVM_fragment, 0, 64)), !dbg !124
  call void @llvm.dbg.value(metadata double 2.000000e+00, metadata !77, metadata !DIExpression(DW_OP_LLVM_fragment, 64, 64)), !dbg !124
  call void @llvm.dbg.value(metadata i32 1, metadata !94, metadata !DIExpression(DW_OP_LLVM_fragment, 0, 32)), !dbg !124
  call void @llvm.dbg.value(metadata %struct.Arr* undef, metadata !111, metadata !DIExpression()), !dbg !124
  call void @llvm.dbg.value(metadata %class.anon* undef, metadata !125, metadata !DIExpression()), !dbg !138
  call void @llvm.dbg.value(metadata i32 2, metadata !136, metadata !DIExpression()), !dbg !138
  %3 = load i32, i32* @_ZN5outer5inner4deepE, align 4, !dbg !140, !tbaa !141
  %4 = bitcast %struct.Base* %0 to i32 (%struct.Base*)***, !dbg !145
  %5 = load i32 (%struct.Base*)**, i32 (%struct.Base*)*** %4, align 8, !dbg !145, !tbaa !146
  %6 = getelementptr inbounds i32 (%struct.Base*)*, i32 (%struct.Base*)** %5, i64 2, !dbg !145
  %7 = load i32 (%struct.Base*)*, i32 (%struct.Base*)** %6, align 8, !dbg !145
  %8 = tail call noundef i32 %7(%struct.Base* noundef nonnull align 8 dereferenceable(12) %0), !dbg !145
  %9 = load i32, i32* @_ZN3ArrIiLi3EE5countE, align 4, !dbg !148, !tbaa !141
  %10 = add i32 %3, 8, !dbg !149
  %11 = add i32 %10, %8, !dbg !150
  %12 = add i32 %11, %9, !dbg !151
  %13 = add nsw i32 %12, 1, !dbg !152
  call void @llvm.dbg.value(metadata i32 %13, metadata !116, metadata !DIExpression()), !dbg !124
  %14 = icmp eq i8 %1, 1, !dbg !153
  br i1 %14, label %15, label %29, !dbg !156

15:                                               ; preds = %2
  %16 = tail call i8* @__cxa_allocate_exception(i64 4) #4, !dbg !157
  %17 = bitcast i8* %16 to i32*, !dbg !157
  store i32 42, i32* %17, align 16, !dbg !157, !tbaa !141
  invoke void @__cxa_throw(i8* nonnull %16, i8* bitcast (i8** @_ZTIi to i8*), i8* null) #5
          to label %35 unwind label %18, !dbg !157

18:                                               ; preds = %15
  %19 = landingpad { i8*, i32 }
          catch i8* bitcast (i8** @_ZTIi to i8*)
          catch i8* null, !dbg !158
  %20 = extractvalue { i8*, i32 } %19, 0, !dbg !158
  %21 = extractvalue { i8*, i32 } %19, 1, !dbg !158
  %22 = tail call i32 @llvm.eh.typeid.for(i8* bitcast (i8** @_ZTIi to i8*)) #4, !dbg !159
  %23 = icmp eq i32 %21, %22, !dbg !159
  %24 = tail call i8* @__cxa_begin_catch(i8* %20) #4, !dbg !124
  br i1 %23, label %25, label %34, !dbg !159

25:                                               ; preds = %18
  %26 = bitcast i8* %24 to i32*, !dbg !160
  %27 = load i32, i32* %26, align 4, !dbg !160, !tbaa !141
  call void @llvm.dbg.value(metadata i32 %27, metadata !117, metadata !DIExpression()), !dbg !124
  %28 = add nsw i32 %27, %13, !dbg !162
  call void @llvm.dbg.value(metadata i32 %28, metadata !116, metadata !DIExpression()), !dbg !124
  tail call void @__cxa_end_catch() #4, !dbg !164
  br label %29, !dbg !164

29:                                               ; preds = %2, %25, %34
  %30 = phi i32 [ %28, %25 ], [ %12, %34 ], [ %13, %2 ], !dbg !124
  call void @llvm.dbg.value(metadata i32 %30, metadata !116, metadata !DIExpression()), !dbg !124
  call void @llvm.dbg.value(metadata i64 12, metadata !118, metadata !DIExpression()), !dbg !124
  call void @llvm.dbg.value(metadata i64 17, metadata !120, metadata !DIExpression(DW_OP_LLVM_fragment, 0, 64)), !dbg !124
  call void @llvm.dbg.value(metadata i64 0, metadata !120, metadata !DIExpression(DW_OP_LLVM_fragment, 64, 64)), !dbg !124
  call void @llvm.dbg.value(metadata i32 1, metadata !122, metadata !DIExpression(DW_OP_LLVM_fragment, 96, 32)), !dbg !124
  call void @llvm.dbg.value(metadata i32 2, metadata !122, metadata !DIExpression(DW_OP_LLVM_fragment, 64, 32)), !dbg !124
  call void @llvm.dbg.value(metadata i32 undef, metadata !116, metadata !DIExpression()), !dbg !124
  %31 = load i32, i32* @_ZN5outer5inner4deepE, align 4, !dbg !165, !tbaa !141
  %32 = add i32 %30, 4, !dbg !166
  %33 = add i32 %32, %31, !dbg !167
  ret i32 %33, !dbg !168

34:                                               ; preds = %18
  call void @llvm.dbg.value(metadata i32 %12, metadata !116, metadata !DIExpression()), !dbg !124
  tail call void @__cxa_end_catch(), !dbg !160
  br label %29, !dbg !160

35:                                               ; preds = %15
  unreachable
}

; Function Attrs: mustprogress nofree nosync nounwind readnone speculatable willreturn
declare void @llvm.dbg.declare(metadata, metadata, metadata) #1

declare i8* @__cxa_allocate_exception(i64) local_unnamed_addr

declare void @__cxa_throw(i8*, i8*, i8*) local_unnamed_addr

declare i32 @__gxx_personality_v0(...)

; Function Attrs: nofree nosync nounwind readnone
declare i32 @llvm.eh.typeid.for(i8*) #2

declare i8* @__cxa_begin_catch(i8*) local_unnamed_addr

declare void @__cxa_end_catch() local_unnamed_addr

; Function Attrs: nofree nosync nounwind readnone speculatable willreturn
declare void @llvm.dbg.value(metadata, metadata, metadata) #3

attributes #0 = { uwtable "frame-pointer"="none" "min-legal-vector-width"="0" "no-trapping-math"="true" "stack-protector-buffer-size"="8" "target-cpu"="x86-64" "target-features"="+cx8,+fxsr,+mmx,+sse,+sse2,+x87" "tune-cpu"="generic" }
attributes #1 = { mustprogress nofree nosync nounwind readnone speculatable willreturn }
attributes #2 = { nofree nosync nounwind readnone }
attributes #3 = { nofree nosync nounwind readnone speculatable willreturn }
attributes #4 = { nounwind }
attributes #5 = { noreturn }

!llvm.dbg.cu = !{!8}
!llvm.module.flags = !{!62, !63, !64, !65, !66, !67}
!llvm.ident = !{!68}

!0 = !DIGlobalVariableExpression(var: !1, expr: !DIExpression())
!1 = distinct !DIGlobalVariable(name: "deep", linkageName: "_ZN5outer5inner4deepE", scope: !2, file: !4, line: 1, type: !5, isLocal: false, isDefinition: true)
!2 = !DINamespace(name: "inner", scope: !3)
!3 = !DINamespace(name: "outer", scope: null)
!4 = !DIFile(filename: "b.cpp", directory: "/tmp/corpgen", checksumkind: CSK_MD5, checksum: "cfa514d09f19ab4827756ffde2213ddd")
!5 = !DIBasicType(name: "int", size: 32, encoding: DW_ATE_signed)
!6 = !DIGlobalVariableExpression(var: !7, expr: !DIExpression())
!7 = distinct !DIGlobalVariable(name: "count", linkageName: "_ZN3ArrIiLi3EE5countE", scope: !8, file: !4, line: 5, type: !5, isLocal: false, isDefinition: true, declaration: !47)
!8 = distinct !DICompileUnit(language: DW_LANG_C_plus_plus_14, file: !4, producer: "Debian clang version 14.0.6", isOptimized: true, runtimeVersion: 0, emissionKind: FullDebug, enums: !9, retainedTypes: !16, globals: !42, imports: !43, splitDebugInlining: false, nameTableKind: None)
!9 = !{!10}
!10 = !DICompositeType(tag: DW_TAG_enumeration_type, name: "Mode", file: !4, line: 9, baseType: !11, size: 8, flags: DIFlagEnumClass, elements: !12, identifier: "_ZTS4Mode")
!11 = !DIBasicType(name: "unsigned char", size: 8, encoding: DW_ATE_unsigned_char)
!12 = !{!13, !14, !15}
!13 = !DIEnumerator(name: "A", value: 0, isUnsigned: true)
!14 = !DIEnumerator(name: "B", value: 1, isUnsigned: true)
!15 = !DIEnumerator(name: "C", value: 2, isUnsigned: true)
!16 = !{!5, !17, !20}
!17 = distinct !DICompositeType(tag: DW_TAG_structure_type, name: "Derived", file: !4, line: 7, size: 128, flags: DIFlagTypePassByReference | DIFlagNonTrivial, elements: !18, vtableHolder: !20, identifier: "_ZTS7Derived")
!18 = !{!19, !35, !36, !38}
!19 = !DIDerivedType(tag: DW_TAG_inheritance, scope: !17, baseType: !20, extraData: i32 0)
!20 = distinct !DICompositeType(tag: DW_TAG_structure_type, name: "Base", file: !4, line: 6, size: 128, flags: DIFlagTypePassByReference | DIFlagNonTrivial, elements: !21, vtableHolder: !20, identifier: "_ZTS4Base")
!21 = !{!22, !27, !28, !32}
!22 = !DIDerivedType(tag: DW_TAG_member, name: "_vptr$Base", scope: !4, file: !4, baseType: !23, size: 64, flags: DIFlagArtificial)
!23 = !DIDerivedType(tag: DW_TAG_pointer_type, baseType: !24, size: 64)
!24 = !DIDerivedType(tag: DW_TAG_pointer_type, name: "__vtbl_ptr_type", baseType: !25, size: 64)
!25 = !DISubroutineType(types: !26)
!26 = !{!5}
!27 = !DIDerivedType(tag: DW_TAG_member, name: "b", scope: !20, file: !4, line: 6, baseType: !5, size: 32, offset: 64)
!28 = !DISubprogram(name: "~Base", scope: !20, file: !4, line: 6, type: !29, scopeLine: 6, containingType: !20, virtualIndex: 0, flags: DIFlagPrototyped, spFlags: DISPFlagVirtual | DISPFlagOptimized)
!29 = !DISubroutineType(types: !30)
!30 = !{null, !31}
!31 = !DIDerivedType(tag: DW_TAG_pointer_type, baseType: !20, size: 64, flags: DIFlagArtificial | DIFlagObjectPointer)
!32 = !DISubprogram(name: "f", linkageName: "_ZN4Base1fEv", scope: !20, file: !4, line: 6, type: !33, scopeLine: 6, containingType: !20, virtualIndex: 2, flags: DIFlagPrototyped, spFlags: DISPFlagPureVirtual | DISPFlagOptimized)
!33 = !DISubroutineType(types: !34)
!34 = !{!5, !31}
!35 = !DIDerivedType(tag: DW_TAG_member, name: "d", scope: !17, file: !4, line: 7, baseType: !5, size: 32, offset: 96)
!36 = !DIDerivedType(tag: DW_TAG_member, name: "K", scope: !17, file: !4, line: 7, baseType: !37, flags: DIFlagStaticMember, extraData: i32 7)
!37 = !DIDerivedType(tag: DW_TAG_const_type, baseType: !5)
!38 = !DISubprogram(name: "f", linkageName: "_ZN7Derived1fEv", scope: !17, file: !4, line: 7, type: !39, scopeLine: 7, containingType: !17, virtualIndex: 2, flags: DIFlagPrototyped, spFlags: DISPFlagVirtual | DISPFlagOptimized)
!39 = !DISubroutineType(types: !40)
!40 = !{!5, !41}
!41 = !DIDerivedType(tag: DW_TAG_pointer_type, baseType: !17, size: 64, flags: DIFlagArtificial | DIFlagObjectPointer)
!42 = !{!0, !6}
!43 = !{!44, !45, !46}
!44 = !DIImportedEntity(tag: DW_TAG_imported_module, scope: !3, entity: !2, file: !4, line: 1)
!45 = !DIImportedEntity(tag: DW_TAG_imported_declaration, name: "alias", scope: !8, entity: !2, file: !4, line: 2)
!46 = !DIImportedEntity(tag: DW_TAG_imported_declaration, scope: !8, entity: !1, file: !4, line: 3)
!47 = !DIDerivedType(tag: DW_TAG_member, name: "count", scope: !48, file: !4, line: 4, baseType: !5, flags: DIFlagStaticMember)
!48 = distinct !DICompositeType(tag: DW_TAG_structure_type, name: "Arr<int, 3>", file: !4, line: 4, size: 96, flags: DIFlagTypePassByValue, elements: !49, templateParams: !59, identifier: "_ZTS3ArrIiLi3EE")
!49 = !{!50, !47, !54}
!50 = !DIDerivedType(tag: DW_TAG_member, name: "data", scope: !48, file: !4, line: 4, baseType: !51, size: 96)
!51 = !DICompositeType(tag: DW_TAG_array_type, baseType: !5, size: 96, elements: !52)
!52 = !{!53}
!53 = !DISubrange(count: 3)
!54 = !DISubprogram(name: "get", linkageName: "_ZNK3ArrIiLi3EE3getEi", scope: !48, file: !4, line: 4, type: !55, scopeLine: 4, flags: DIFlagPrototyped, spFlags: DISPFlagOptimized)
!55 = !DISubroutineType(types: !56)
!56 = !{!5, !57, !5}
!57 = !DIDerivedType(tag: DW_TAG_pointer_type, baseType: !58, size: 64, flags: DIFlagArtificial | DIFlagObjectPointer)
!58 = !DIDerivedType(tag: DW_TAG_const_type, baseType: !48)
!59 = !{!60, !61}
!60 = !DITemplateTypeParameter(name: "T", type: !5)
!61 = !DITemplateValueParameter(name: "N", type: !5, value: i32 3)
!62 = !{i32 7, !"Dwarf Version", i32 5}
!63 = !{i32 2, !"Debug Info Version", i32 3}
!64 = !{i32 1, !"wchar_size", i32 4}
!65 = !{i32 7, !"PIC Level", i32 2}
!66 = !{i32 7, !"PIE Level", i32 2}
!67 = !{i32 7, !"uwtable", i32 1}
!68 = !{!"Debian clang version 14.0.6"}
!69 = distinct !DISubprogram(name: "use", linkageName: "_Z3useP4Base4Mode", scope: !4, file: !4, line: 12, type: !70, scopeLine: 12, flags: DIFlagPrototyped | DIFlagAllCallsDescribed, spFlags: DISPFlagDefinition | DISPFlagOptimized, unit: !8, retainedNodes: !73)
!70 = !DISubroutineType(types: !71)
!71 = !{!5, !72, !10}
!72 = !DIDerivedType(tag: DW_TAG_pointer_type, baseType: !20, size: 64)
!73 = !{!74, !75, !76, !77, !94, !111, !116, !117, !118, !120, !122}
!74 = !DILocalVariable(name: "p", arg: 1, scope: !69, file: !4, line: 12, type: !72)
!75 = !DILocalVariable(name: "m", arg: 2, scope: !69, file: !4, line: 12, type: !10)
!76 = !DILocalVariable(name: "a", scope: !69, file: !4, line: 13, type: !48)
!77 = !DILocalVariable(name: "b", scope: !69, file: !4, line: 14, type: !78)
!78 = distinct !DICompositeType(tag: DW_TAG_structure_type, name: "Arr<double, 2>", file: !4, line: 4, size: 128, flags: DIFlagTypePassByValue, elements: !79, templateParams: !91, identifier: "_ZTS3ArrIdLi2EE")
!79 = !{!80, !85, !86}
!80 = !DIDerivedType(tag: DW_TAG_member, name: "data", scope: !78, file: !4, line: 4, baseType: !81, size: 128)
!81 = !DICompositeType(tag: DW_TAG_array_type, baseType: !82, size: 128, elements: !83)
!82 = !DIBasicType(name: "double", size: 64, encoding: DW_ATE_float)
!83 = !{!84}
!84 = !DISubrange(count: 2)
!85 = !DIDerivedType(tag: DW_TAG_member, name: "count", scope: !78, file: !4, line: 4, baseType: !5, flags: DIFlagStaticMember)
!86 = !DISubprogram(name: "get", linkageName: "_ZNK3ArrIdLi2EE3getEi", scope: !78, file: !4, line: 4, type: !87, scopeLine: 4, flags: DIFlagPrototyped, spFlags: DISPFlagOptimized)
!87 = !DISubroutineType(types: !88)
!88 = !{!82, !89, !5}
!89 = !DIDerivedType(tag: DW_TAG_pointer_type, baseType: !90, size: 64, flags: DIFlagArtificial | DIFlagObjectPointer)
!90 = !DIDerivedType(tag: DW_TAG_const_type, baseType: !78)
!91 = !{!92, !93}
!92 = !DITemplateTypeParameter(name: "T", type: !82)
!93 = !DITemplateValueParameter(name: "N", type: !5, value: i32 2)
!94 = !DILocalVariable(name: "w", scope: !69, file: !4, line: 15, type: !95)
!95 = distinct !DICompositeType(tag: DW_TAG_structure_type, name: "Wrap<Arr>", file: !4, line: 11, size: 64, flags: DIFlagTypePassByValue, elements: !96, templateParams: !109, identifier: "_ZTS4WrapI3ArrE")
!96 = !{!97}
!97 = !DIDerivedType(tag: DW_TAG_member, name: "c", scope: !95, file: !4, line: 11, baseType: !98, size: 64)
!98 = distinct !DICompositeType(tag: DW_TAG_structure_type, name: "Arr<int, 2>", file: !4, line: 4, size: 64, flags: DIFlagTypePassByValue, elements: !99, templateParams: !108, identifier: "_ZTS3ArrIiLi2EE")
!99 = !{!100, !102, !103}
!100 = !DIDerivedType(tag: DW_TAG_member, name: "data", scope: !98, file: !4, line: 4, baseType: !101, size: 64)
!101 = !DICompositeType(tag: DW_TAG_array_type, baseType: !5, size: 64, elements: !83)
!102 = !DIDerivedType(tag: DW_TAG_member, name: "count", scope: !98, file: !4, line: 4, baseType: !5, flags: DIFlagStaticMember)
!103 = !DISubprogram(name: "get", linkageName: "_ZNK3ArrIiLi2EE3getEi", scope: !98, file: !4, line: 4, type: !104, scopeLine: 4, flags: DIFlagPrototyped, spFlags: DISPFlagOptimized)
!104 = !DISubroutineType(types: !105)
!105 = !{!5, !106, !5}
!106 = !DIDerivedType(tag: DW_TAG_pointer_type, baseType: !107, size: 64, flags: DIFlagArtificial | DIFlagObjectPointer)
!107 = !DIDerivedType(tag: DW_TAG_const_type, baseType: !98)
!108 = !{!60, !93}
!109 = !{!110}
!110 = !DITemplateValueParameter(tag: DW_TAG_GNU_template_template_param, name: "C", value: !"Arr")
!111 = !DILocalVariable(name: "lam", scope: !69, file: !4, line: 16, type: !112)
!112 = distinct !DICompositeType(tag: DW_TAG_class_type, scope: !69, file: !4, line: 16, size: 64, flags: DIFlagTypePassByValue | DIFlagNonTrivial, elements: !113)
!113 = !{!114}
!114 = !DIDerivedType(tag: DW_TAG_member, name: "a", scope: !112, file: !4, line: 16, baseType: !115, size: 64)
!115 = !DIDerivedType(tag: DW_TAG_reference_type, baseType: !48, size: 64)
!116 = !DILocalVariable(name: "r", scope: !69, file: !4, line: 17, type: !5)
!117 = !DILocalVariable(name: "e", scope: !69, file: !4, line: 18, type: !5)
!118 = !DILocalVariable(name: "pm", scope: !69, file: !4, line: 19, type: !119)
!119 = !DIDerivedType(tag: DW_TAG_ptr_to_member_type, baseType: !5, size: 64, extraData: !17)
!120 = !DILocalVariable(name: "pf", scope: !69, file: !4, line: 20, type: !121)
!121 = !DIDerivedType(tag: DW_TAG_ptr_to_member_type, baseType: !33, size: 128, extraData: !20)
!122 = !DILocalVariable(name: "dd", scope: !69, file: !4, line: 21, type: !17)
!123 = !DILocation(line: 15, column: 13, scope: !69)
!124 = !DILocation(line: 0, scope: !69)
!125 = !DILocalVariable(name: "this", arg: 1, scope: !126, type: !137, flags: DIFlagArtificial | DIFlagObjectPointer)
!126 = distinct !DISubprogram(name: "operator()", linkageName: "_ZZ3useP4Base4ModeENK3$_0clEi", scope: !112, file: !4, line: 16, type: !127, scopeLine: 16, flags: DIFlagPrototyped | DIFlagAllCallsDescribed, spFlags: DISPFlagLocalToUnit | DISPFlagDefinition | DISPFlagOptimized, unit: !8, declaration: !131, retainedNodes: !135)
!127 = !DISubroutineType(types: !128)
!128 = !{!5, !129, !5}
!129 = !DIDerivedType(tag: DW_TAG_pointer_type, baseType: !130, size: 64, flags: DIFlagArtificial | DIFlagObjectPointer)
!130 = !DIDerivedType(tag: DW_TAG_const_type, baseType: !112)
!131 = !DISubprogram(name: "operator()", scope: !112, file: !4, line: 16, type: !132, scopeLine: 16, flags: DIFlagPublic | DIFlagPrototyped, spFlags: DISPFlagLocalToUnit | DISPFlagOptimized)
!132 = !DISubroutineType(types: !133)
!133 = !{!134, !129, !5}
!134 = !DIBasicType(tag: DW_TAG_unspecified_type, name: "auto")
!135 = !{!125, !136}
!136 = !DILocalVariable(name: "x", arg: 2, scope: !126, file: !4, line: 16, type: !5)
!137 = !DIDerivedType(tag: DW_TAG_pointer_type, baseType: !130, size: 64)
!138 = !DILocation(line: 0, scope: !126, inlinedAt: !139)
!139 = distinct !DILocation(line: 17, column: 11, scope: !69)
!140 = !DILocation(line: 16, column: 49, scope: !126, inlinedAt: !139)
!141 = !{!142, !142, i64 0}
!142 = !{!"int", !143, i64 0}
!143 = !{!"omnipotent char", !144, i64 0}
!144 = !{!"Simple C++ TBAA"}
!145 = !DILocation(line: 17, column: 23, scope: !69)
!146 = !{!147, !147, i64 0}
!147 = !{!"vtable pointer", !144, i64 0}
!148 = !DILocation(line: 17, column: 66, scope: !69)
!149 = !DILocation(line: 17, column: 18, scope: !69)
!150 = !DILocation(line: 17, column: 43, scope: !69)
!151 = !DILocation(line: 17, column: 64, scope: !69)
!152 = !DILocation(line: 17, column: 84, scope: !69)
!153 = !DILocation(line: 18, column: 15, scope: !154)
!154 = distinct !DILexicalBlock(scope: !155, file: !4, line: 18, column: 13)
!155 = distinct !DILexicalBlock(scope: !69, file: !4, line: 18, column: 7)
!156 = !DILocation(line: 18, column: 13, scope: !155)
!157 = !DILocation(line: 18, column: 27, scope: !154)
!158 = !DILocation(line: 24, column: 1, scope: !154)
!159 = !DILocation(line: 18, column: 37, scope: !155)
!160 = !DILocation(line: 18, column: 87, scope: !161)
!161 = distinct !DILexicalBlock(scope: !69, file: !4, line: 18, column: 77)
!162 = !DILocation(line: 18, column: 57, scope: !163)
!163 = distinct !DILexicalBlock(scope: !69, file: !4, line: 18, column: 53)
!164 = !DILocation(line: 18, column: 63, scope: !163)
!165 = !DILocation(line: 23, column: 14, scope: !69)
!166 = !DILocation(line: 22, column: 5, scope: !69)
!167 = !DILocation(line: 23, column: 12, scope: !69)
!168 = !DILocation(line: 24, column: 1, scope: !69)
