typedef unsigned long size_t;
struct point { int x, y; };
union u { int i; float f; char c[4]; };
enum color { RED, GREEN = 5, BLUE };
struct bits { unsigned a:3; unsigned b:5; int c:7; };
struct node { struct node *next; int (*cb)(struct node *, int); struct point p; union u v; enum color col; struct bits bf; };
static int counter;
int g_arr[4] = {1,2,3,4};
const char *msg = "hello";
_Thread_local int tls_v = 3;
extern int ext_fn(int, ...);
static int helper(struct node *n, int k) { return n->p.x + k; }
int sum(int n, ...) {
  __builtin_va_list ap; __builtin_va_start(ap, n);
  int s = 0;
  for (int i = 0; i < n; i++) { int v = __builtin_va_arg(ap, int); s += v; }
  __builtin_va_end(ap);
  return s;
}
int walk(struct node *n, enum color c) {
  static int calls;
  calls++;
  int total = 0;
again:
  while (n) {
    { int inner = n->p.y; total += inner; }
    switch (n->col) { case RED: total += 1; break; case GREEN: total += 2; break; default: total += n->cb ? n->cb(n, 3) : helper(n, 4); }
    n = n->next;
    if (total > 1000) goto out;
  }
  if (c == BLUE && counter++ < 3) goto again;
out:
  return total + g_arr[c & 3] + ext_fn(2, total, msg) + tls_v;
}
double mix(float f, double d, long double ld, _Bool b) { return b ? f + d : (double)ld; }
void fill(char *p, size_t n) { __builtin_memset(p, 0, n); for (size_t i = 0; i < n; i++) p[i] = (char)i; }
typedef int v4si __attribute__((vector_size(16)));
v4si vadd(v4si a, v4si b) { return a + b * (v4si){1,2,3,4}; }
_Complex double cmul(_Complex double a, _Complex double b) { return a * b; }
