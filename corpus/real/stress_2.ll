; ModuleID = '/tmp/autogen.bc'
source_filename = "/tmp/autogen.bc"

define void @autogen_SD2(i8* %0, i32* %1, i64* %2, i32 %3, i64 %4, i8 %5) {
BB:
  %A4 = alloca <8 x i64>, align 64
  %A3 = alloca <8 x double>, align 64
  %A2 = alloca <8 x double>, align 64
  %A1 = alloca <2 x i32>, align 8
  %A = alloca <2 x float>, align 8
  %L = load i8, i8* %0, align 1
  store <2 x i32> <i32 0, i32 -1>, <2 x i32>* %A1, align 8
  %E = extractelement <4 x i8> zeroinitializer, i32 1
  %Shuff = shufflevector <4 x i8> zeroinitializer, <4 x i8> zeroinitializer, <4 x i32> <i32 undef, i32 2, i32 4, i32 6>
  %I = insertelement <4 x i8> zeroinitializer, i8 119, i32 2
  %B = xor i64 165167, 0
  %ZE = zext i8 -85 to i32
  %Sl = select i1 true, i64 %B, i64 %B
  %Cmp = icmp uge i64 %B, %B
  br label %CF117

CF117:                                            ; preds = %BB
  %L5 = load i8, i8* %0, align 1
  store i8 119, i8* %0, align 1
  %E6 = extractelement <4 x i8> zeroinitializer, i32 0
  %Shuff7 = shufflevector <4 x i8> zeroinitializer, <4 x i8> %Shuff, <4 x i32> <i32 undef, i32 1, i32 3, i32 undef>
  %I8 = insertelement <4 x i8> zeroinitializer, i8 119, i32 1
  %B9 = and i8 %L5, 19
  %ZE10 = zext <8 x i1> zeroinitializer to <8 x i64>
  %Sl11 = select i1 true, <4 x i8> %Shuff, <4 x i8> %Shuff
  %Cmp12 = icmp slt i8 123, 19
  br label %CF115

CF115:                                            ; preds = %CF115, %CF125, %CF121, %CF117
  %L13 = load i8, i8* %0, align 1
  store i8 119, i8* %0, align 1
  %E14 = extractelement <4 x i8> %Shuff7, i32 3
  %Shuff15 = shufflevector <4 x i8> %Shuff, <4 x i8> zeroinitializer, <4 x i32> <i32 2, i32 4, i32 6, i32 undef>
  %I16 = insertelement <4 x i8> zeroinitializer, i8 -85, i32 0
  %B17 = urem i8 %E14, %L
  %Se = sext <4 x i8> %Sl11 to <4 x i16>
  %Sl18 = select i1 true, i16 -1, i16 -1
  %Cmp19 = icmp sge i64 %B, %4
  br i1 %Cmp19, label %CF115, label %CF125

CF125:                                            ; preds = %CF115
  %L20 = load i8, i8* %0, align 1
  store i8 %L5, i8* %0, align 1
  %E21 = extractelement <4 x i8> zeroinitializer, i32 1
  %Shuff22 = shufflevector <8 x i64> %ZE10, <8 x i64> %ZE10, <8 x i32> <i32 4, i32 undef, i32 8, i32 10, i32 12, i32 14, i32 undef, i32 2>
  %I23 = insertelement <4 x i8> zeroinitializer, i8 19, i32 2
  %B24 = srem i8 19, %5
  %Tr = trunc i8 119 to i1
  br i1 %Tr, label %CF115, label %CF121

CF121:                                            ; preds = %CF125
  %Sl25 = select i1 %Cmp, i1 %Cmp12, i1 %Cmp
  br i1 %Sl25, label %CF115, label %CF116

CF116:                                            ; preds = %CF116, %CF122, %CF121
  %L26 = load i8, i8* %0, align 1
  store i8 %L, i8* %0, align 1
  %E27 = extractelement <4 x i8> zeroinitializer, i32 2
  %Shuff28 = shufflevector <4 x i8> zeroinitializer, <4 x i8> zeroinitializer, <4 x i32> <i32 1, i32 3, i32 undef, i32 7>
  %I29 = insertelement <4 x i8> zeroinitializer, i8 -85, i32 3
  %B30 = urem <8 x i64> %ZE10, %ZE10
  %Sl31 = select i1 true, i16 -17137, i16 %Sl18
  %Cmp32 = icmp ult <4 x i8> %Sl11, %I16
  %L33 = load i64, i64* %2, align 4
  store i8 -85, i8* %0, align 1
  %E34 = extractelement <4 x i8> zeroinitializer, i32 2
  %Shuff35 = shufflevector <4 x i8> zeroinitializer, <4 x i8> %Shuff28, <4 x i32> <i32 1, i32 undef, i32 undef, i32 7>
  %I36 = insertelement <4 x i8> zeroinitializer, i8 -85, i32 3
  %B37 = frem double 0xE8DEB2C8A8B5CAA, 0xBA9DEB3CDE9B04BA
  %Tr38 = trunc i64 %4 to i1
  br i1 %Tr38, label %CF116, label %CF119

CF119:                                            ; preds = %CF119, %CF116
  %Sl39 = select i1 true, i8 %L13, i8 19
  %Cmp40 = icmp eq i8 %E34, %L
  br i1 %Cmp40, label %CF119, label %CF120

CF120:                                            ; preds = %CF120, %CF123, %CF119
  %L41 = load i8, i8* %0, align 1
  store i8 119, i8* %0, align 1
  %E42 = extractelement <4 x i8> %Shuff7, i32 0
  %Shuff43 = shufflevector <4 x i8> %Shuff15, <4 x i8> %Shuff, <4 x i32> <i32 7, i32 1, i32 3, i32 5>
  %I44 = insertelement <1 x i8> zeroinitializer, i8 119, i32 0
  %FC = fptosi double 0xE8DEB2C8A8B5CAA to i16
  %Sl45 = select i1 true, i16 -17137, i16 0
  %Cmp46 = icmp ult i8 %E14, %B24
  br i1 %Cmp46, label %CF120, label %CF123

CF123:                                            ; preds = %CF120
  %L47 = load i8, i8* %0, align 1
  store i8 %B17, i8* %0, align 1
  %E48 = extractelement <4 x i8> zeroinitializer, i32 2
  %Shuff49 = shufflevector <4 x i8> %Shuff, <4 x i8> %Shuff7, <4 x i32> <i32 5, i32 7, i32 1, i32 3>
  %I50 = insertelement <4 x i8> zeroinitializer, i8 %L, i32 3
  %Sl51 = select i1 %Tr, i8 %5, i8 %L5
  %Cmp52 = icmp slt i8 %E14, 119
  br i1 %Cmp52, label %CF120, label %CF122

CF122:                                            ; preds = %CF123
  %L53 = load <2 x i32>, <2 x i32>* %A1, align 8
  store <2 x float> <float 0xFFFFFFFFE0000000, float 0.000000e+00>, <2 x float>* %A, align 8
  %E54 = extractelement <4 x i8> %Shuff7, i32 0
  %Shuff55 = shufflevector <4 x i8> zeroinitializer, <4 x i8> %Shuff49, <4 x i32> <i32 3, i32 5, i32 7, i32 undef>
  %I56 = insertelement <4 x i8> %Shuff, i8 %5, i32 1
  %Se57 = sext <4 x i8> zeroinitializer to <4 x i32>
  %Sl58 = select <4 x i1> %Cmp32, <4 x i1> %Cmp32, <4 x i1> %Cmp32
  %Cmp59 = icmp sgt i16 0, %Sl18
  br i1 %Cmp59, label %CF116, label %CF118

CF118:                                            ; preds = %CF122
  %L60 = load i8, i8* %0, align 1
  store i8 %Sl39, i8* %0, align 1
  %E61 = extractelement <4 x i8> %Shuff, i32 2
  %Shuff62 = shufflevector <2 x i32> %L53, <2 x i32> %L53, <2 x i32> <i32 1, i32 3>
  %I63 = insertelement <4 x i8> zeroinitializer, i8 %L20, i32 3
  %B64 = udiv i8 %L41, %Sl51
  %Sl65 = select i1 %Tr38, i8 %E61, i8 19
  %Cmp66 = icmp sgt i64 165167, 0
  br label %CF

CF:                                               ; preds = %CF, %CF124, %CF118
  %L67 = load i8, i8* %0, align 1
  store i8 %E48, i8* %0, align 1
  %E68 = extractelement <4 x i8> %Shuff28, i32 2
  %Shuff69 = shufflevector <4 x i8> zeroinitializer, <4 x i8> %I63, <4 x i32> <i32 1, i32 undef, i32 5, i32 7>
  %I70 = insertelement <2 x i32> %L53, i32 %3, i32 1
  %B71 = sdiv i16 %FC, 0
  %ZE72 = zext <4 x i8> zeroinitializer to <4 x i64>
  %Sl73 = select i1 %Cmp, i8 %L13, i8 %B24
  %Cmp74 = icmp eq i8 %Sl51, %Sl51
  br i1 %Cmp74, label %CF, label %CF114

CF114:                                            ; preds = %CF114, %CF126, %CF
  %L75 = load i8, i8* %0, align 1
  store i8 %E27, i8* %0, align 1
  %E76 = extractelement <4 x i8> %Shuff, i32 0
  %Shuff77 = shufflevector <4 x i16> zeroinitializer, <4 x i16> zeroinitializer, <4 x i32> <i32 3, i32 5, i32 7, i32 1>
  %I78 = insertelement <4 x i8> %Shuff49, i8 %L26, i32 1
  %B79 = fsub float 0x3CC76A8B40000000, 0x3CC76A8B40000000
  %FC80 = sitofp <2 x i1> zeroinitializer to <2 x double>
  %Sl81 = select i1 %Cmp, i64 0, i64 %4
  %Cmp82 = icmp uge i8 %E6, 19
  br i1 %Cmp82, label %CF114, label %CF126

CF126:                                            ; preds = %CF114
  %L83 = load i8, i8* %0, align 1
  store i8 %L60, i8* %0, align 1
  %E84 = extractelement <4 x i8> zeroinitializer, i32 2
  %Shuff85 = shufflevector <4 x i16> zeroinitializer, <4 x i16> %Se, <4 x i32> <i32 5, i32 7, i32 1, i32 3>
  %I86 = insertelement <4 x i8> %Shuff, i8 %L5, i32 3
  %B87 = ashr <4 x i8> %Shuff35, %Shuff
  %Sl88 = select <4 x i1> %Cmp32, <4 x i8> zeroinitializer, <4 x i8> %Shuff43
  %Cmp89 = icmp sge <4 x i8> %I50, %I86
  %L90 = load i8, i8* %0, align 1
  store i8 119, i8* %0, align 1
  %E91 = extractelement <4 x i8> %Shuff7, i32 0
  %Shuff92 = shufflevector <4 x i8> %I, <4 x i8> %Shuff35, <4 x i32> <i32 3, i32 5, i32 7, i32 undef>
  %I93 = insertelement <4 x i8> %Shuff28, i8 %E34, i32 1
  %B94 = mul i16 %FC, %FC
  %FC95 = sitofp <2 x i32> %Shuff62 to <2 x double>
  %Sl96 = select i1 %Cmp40, i32 509627, i32 91015
  %Cmp97 = icmp eq i8 %B9, %L75
  br i1 %Cmp97, label %CF114, label %CF124

CF124:                                            ; preds = %CF126
  %L98 = load i8, i8* %0, align 1
  store <2 x i32> %L53, <2 x i32>* %A1, align 8
  %E99 = extractelement <4 x i8> zeroinitializer, i32 2
  %Shuff100 = shufflevector <4 x i8> %Shuff28, <4 x i8> %Shuff43, <4 x i32> <i32 5, i32 7, i32 1, i32 3>
  %I101 = insertelement <4 x i8> %Shuff15, i8 %E54, i32 3
  %B102 = sub i8 %E54, %L60
  %FC103 = uitofp i1 %Cmp74 to float
  %Sl104 = select i1 %Cmp, i8 %E, i8 %E48
  %Cmp105 = icmp sge <4 x i8> %Shuff7, %Shuff100
  %L106 = load i8, i8* %0, align 1
  store i8 %L90, i8* %0, align 1
  %E107 = extractelement <4 x i8> %Shuff43, i32 1
  %Shuff108 = shufflevector <4 x i8> %Shuff7, <4 x i8> %Shuff35, <4 x i32> <i32 4, i32 6, i32 0, i32 undef>
  %I109 = insertelement <2 x i1> zeroinitializer, i1 %Cmp, i32 0
  %B110 = srem <4 x i8> %Shuff55, %I78
  %PC = bitcast <2 x float>* %A to float*
  %Sl111 = select i1 %Cmp, i32 509627, i32 %Sl96
  %Cmp112 = icmp ult i8 %L5, %Sl39
  br i1 %Cmp112, label %CF, label %CF113

CF113:                                            ; preds = %CF124
  store float 0x3CC76A8B40000000, float* %PC, align 4
  store float 0x3CC76A8B40000000, float* %PC, align 4
  store float %B79, float* %PC, align 4
  store float %B79, float* %PC, align 4
  store float %B79, float* %PC, align 4
  ret void
}
