module verifsim

go 1.21
