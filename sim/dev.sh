#!/bin/bash
# development helper: rebuild tools
set -e
export GOFLAGS=-mod=mod GOPROXY=off GOSUMDB=off GOTOOLCHAIN=local
cd /verif/sim
mkdir -p /verif/bin
go build -o /verif/bin/instrument ./cmd/instrument
go build -o /verif/bin/simcheck ./cmd/simcheck
