// Command simcheck is the driver of /verif's deterministic-simulation checks.
//
//	simcheck -property C13 -tier quick
//	simcheck -replay /verif/replays/C13-....json
//
// Every invocation copies /repo's current working tree to a scratch directory,
// splices the simulator's seams into the copy (bin/instrument), builds the
// worker against it, fans the work out to worker processes, minimises any
// failure in fresh processes, writes the evidence file and removes the scratch
// directory. Exit 0: property held on everything explored; exit 1 with a line
// "VIOLATION property=<id> replay=<path>"; exit 2: build / harness trouble.
package main

import (
	"bufio"
	"bytes"
	"encoding/json"
	"flag"
	"fmt"
	"io"
	"os"
	"os/exec"
	"path/filepath"
	"runtime"
	"sort"
	"strconv"
	"strings"
	"sync"
	"time"
)

var (
	flagProperty  = flag.String("property", "", "property id (C05, C12, C13, C14, C19)")
	flagTier      = flag.String("tier", "", "quick | thorough (default: $VERIF_TIER or quick)")
	flagReplay    = flag.String("replay", "", "replay file")
	flagSeed      = flag.String("seed", "", "base seed (default: $VERIF_SEED or 1)")
	flagRepo      = flag.String("repo", "/repo", "repository under test")
	flagRoot      = flag.String("root", "", "verif root (default: parent of the executable's directory)")
	flagWorkers   = flag.Int("workers", 0, "worker processes (default: number of CPUs, at most 16)")
	flagKeep      = flag.Bool("keep", false, "keep the scratch directory")
	flagNoShrink  = flag.Bool("noshrink", false, "do not minimise failures")
	flagRuns      = flag.Int64("runs", 0, "override the number of seeded runs of the tier")
	flagSelfTest  = flag.Bool("selftest", false, "run only the determinism self-test of the property")
	flagNoEvid    = flag.Bool("noevidence", false, "do not write the evidence file (used by development scripts)")
	flagMode      = flag.String("mode", "", "restrict the check to one sub-mode (development)")
	flagNoRegress = flag.Bool("noregress", false, "skip the committed regression tapes (to see what the search alone finds)")
	flagPrewarm   = flag.Bool("prewarm", false, "build the plain and the race worker once to warm the Go build cache, then exit")
)

var (
	root    string
	scratch string
	seed    uint64
	tier    string
	start   = time.Now()
)

func main() {
	flag.Parse()
	root = *flagRoot
	if root == "" {
		exe, err := os.Executable()
		if err == nil {
			root = filepath.Dir(filepath.Dir(exe))
		}
		if _, err := os.Stat(filepath.Join(root, "sim", "_tree")); err != nil {
			root = "/verif"
		}
	}
	tier = *flagTier
	if tier == "" {
		tier = os.Getenv("VERIF_TIER")
	}
	if tier == "" {
		tier = "quick"
	}
	if tier != "quick" && tier != "thorough" {
		die("bad tier %q", tier)
	}
	s := *flagSeed
	if s == "" {
		s = os.Getenv("VERIF_SEED")
	}
	if s == "" {
		s = "1"
	}
	v, err := strconv.ParseUint(s, 10, 64)
	if err != nil {
		// Any string is a seed: hash it.
		var h uint64 = 1469598103934665603
		for _, c := range []byte(s) {
			h = (h ^ uint64(c)) * 1099511628211
		}
		v = h >> 1
	}
	seed = v
	fmt.Printf("simcheck: VERIF_SEED=%d tier=%s\n", seed, tier)

	code := run()
	cleanup()
	os.Exit(code)
}

func die(f string, a ...interface{}) {
	fmt.Fprintf(os.Stderr, "simcheck: "+f+"\n", a...)
	cleanup()
	os.Exit(2)
}

func cleanup() {
	if scratch != "" && !*flagKeep {
		os.RemoveAll(scratch)
	}
}

func run() int {
	if *flagReplay != "" {
		return replayCmd(*flagReplay)
	}
	if *flagPrewarm {
		prepare(true, true)
		fmt.Println("simcheck: build cache warmed")
		return 0
	}
	spec := specs[*flagProperty]
	if spec == nil {
		die("unknown property %q", *flagProperty)
	}
	b := prepare(spec.needRace(tier), spec.needPlain(tier))
	if *flagSelfTest {
		return selfTest(spec, b)
	}
	rc := check(spec, b)
	if rc == rcUnmodelled {
		// The code under test did, at run time, something the simulator does not
		// model (goroutines that outlive the call that started them, a sync.Map
		// ranged over keys without a canonical order). No verdict can come from the
		// scheduler then: run the code natively, with the map-order and clock
		// seams and the race detector only.
		fmt.Println("simcheck: the code under test does something the scheduler does not model; repeating the check with native goroutines (map-order and clock seams only)")
		cleanup()
		minDegrade = 2
		b = prepare(spec.needRace(tier), spec.needPlain(tier))
		rc = check(spec, b)
		if rc == rcUnmodelled {
			rc = 2
		}
	}
	return rc
}

// rcUnmodelled is check's internal "repeat in degraded mode" result.
const rcUnmodelled = -1

// minDegrade is the first instrumentation mode prepare tries.
var minDegrade = 0

// ---------------------------------------------------------------------------
// Build.

type build struct {
	plain    string // worker binary, plain build ("" if not built)
	race     string // worker binary, race build
	sites    string
	instr    map[string]interface{}
	degraded string
	corpus   string
}

func goEnv() []string {
	env := os.Environ()
	env = append(env, "GOFLAGS=-mod=mod", "GOPROXY=off", "GOSUMDB=off", "GOTOOLCHAIN=local", "CGO_ENABLED=1")
	return env
}

func copyTree(src, dst string, skip func(rel string, fi os.FileInfo) bool) error {
	return filepath.Walk(src, func(p string, fi os.FileInfo, err error) error {
		if err != nil {
			return err
		}
		rel, _ := filepath.Rel(src, p)
		if rel == "." {
			return os.MkdirAll(dst, 0o755)
		}
		if skip != nil && skip(rel, fi) {
			if fi.IsDir() {
				return filepath.SkipDir
			}
			return nil
		}
		target := filepath.Join(dst, rel)
		if fi.IsDir() {
			return os.MkdirAll(target, 0o755)
		}
		if !fi.Mode().IsRegular() {
			return nil
		}
		in, err := os.Open(p)
		if err != nil {
			return err
		}
		defer in.Close()
		out, err := os.Create(target)
		if err != nil {
			return err
		}
		if _, err := io.Copy(out, in); err != nil {
			out.Close()
			return err
		}
		return out.Close()
	})
}

func prepare(needRace, needPlain bool) *build {
	var err error
	scratch, err = os.MkdirTemp("", "simcheck-")
	if err != nil {
		die("%v", err)
	}
	tree := filepath.Join(scratch, "tree")
	skip := func(rel string, fi os.FileInfo) bool {
		return rel == ".git" || strings.HasPrefix(rel, ".git/") || rel == "zzsim"
	}
	if err := copyTree(*flagRepo, tree, skip); err != nil {
		die("copy %s: %v", *flagRepo, err)
	}
	b := &build{sites: filepath.Join(scratch, "sites.json")}
	// The corpus is snapshotted too, so that one run sees one corpus even if
	// /verif/corpus is edited while it is going.
	corpusCopy := filepath.Join(scratch, "corpus")
	if err := copyTree(filepath.Join(root, "corpus"), corpusCopy, nil); err != nil {
		die("copy corpus: %v", err)
	}
	largeCopy := filepath.Join(scratch, "corpus-large")
	if err := copyTree(filepath.Join(root, "corpus-large"), largeCopy, nil); err != nil {
		die("copy corpus-large: %v", err)
	}
	b.corpus = fmt.Sprintf("repo=%s,repo-ir=%s,verif=%s", filepath.Join(tree, "asm", "testdata"), filepath.Join(tree, "ir", "testdata"), corpusCopy)
	// A 145 KB module (longer than any plausible fixed-size read buffer) for the
	// checks that can afford it.
	if *flagProperty == "C12" || *flagProperty == "C19" || *flagReplay != "" {
		b.corpus += ",large=" + largeCopy
	}

	// Instrument, falling back to fewer rewrite classes if the result does not
	// compile (a future edit of llir/llvm may use a form the splicer mishandles).
	modes := []struct {
		name string
		args []string
	}{
		{"", nil},
		{"no statement yields", []string{"-yields=false"}},
		{"no yields, locks, clock, go or channel rewrites (map order only)", []string{"-yields=false", "-locks=false", "-clock=false", "-go=false", "-chans=false"}},
		{"uninstrumented", []string{"-yields=false", "-locks=false", "-clock=false", "-go=false", "-chans=false", "-maps=false"}},
	}
	var lastErr string
	for i, mode := range modes {
		if i < minDegrade {
			continue
		}
		if i > 0 {
			os.RemoveAll(tree)
			if err := copyTree(*flagRepo, tree, skip); err != nil {
				die("copy %s: %v", *flagRepo, err)
			}
		}
		if err := copyTree(filepath.Join(root, "sim", "_tree", "zzsim"), filepath.Join(tree, "zzsim"), nil); err != nil {
			die("copy simulator run-time: %v", err)
		}
		args := append([]string{"-dir", tree, "-sites", b.sites}, mode.args...)
		cmd := exec.Command(filepath.Join(root, "bin", "instrument"), args...)
		cmd.Env = goEnv()
		var out, errb bytes.Buffer
		cmd.Stdout, cmd.Stderr = &out, &errb
		if err := cmd.Run(); err != nil {
			lastErr = "instrument: " + errb.String()
			continue
		}
		json.Unmarshal(out.Bytes(), &b.instr)
		if un, _ := b.instr["unmodelled_sync"].([]interface{}); len(un) > 0 && i < 2 {
			// Timers, contexts with deadlines or cancellation, signal handlers and
			// a few syntactic forms (labelled select, select with more than 8
			// cases) are not modelled by the scheduler: a goroutine blocked on them
			// would hold the simulated turn for ever. Run such code natively (map
			// order seam only; the race detector still watches it).
			lastErr = fmt.Sprintf("unmodelled synchronisation in the code under test: %v", un)
			continue
		}
		ok := true
		if needPlain {
			b.plain = filepath.Join(scratch, "worker")
			if msg := goBuild(tree, b.plain, false); msg != "" {
				ok, lastErr = false, msg
			}
		}
		if ok && needRace {
			b.race = filepath.Join(scratch, "worker-race")
			if msg := goBuild(tree, b.race, true); msg != "" {
				ok, lastErr = false, msg
			}
		}
		if !ok && i == 0 && harnessOnlyError(lastErr) {
			die("the harness itself does not compile (not a problem of the code under test):\n%s", lastErr)
		}
		if ok {
			b.degraded = mode.name
			// Workers learn that goroutines of the code under test may be native:
			// they then leave out what is EXPECTED to panic (a panic on a native
			// goroutine of the library cannot be recovered and would kill them).
			if mode.name != "" {
				os.Setenv("SIM_NATIVE", "1")
			} else {
				os.Unsetenv("SIM_NATIVE")
			}
			if mode.name != "" {
				fmt.Printf("simcheck: instrumentation degraded to %q because: %s\n", mode.name, firstLines(lastErr, 6))
			}
			return b
		}
	}
	die("cannot build the worker against %s even uninstrumented:\n%s", *flagRepo, lastErr)
	return nil
}

// harnessOnlyError reports whether every compiler diagnostic points into zzsim/.
func harnessOnlyError(msg string) bool {
	n := 0
	for _, l := range strings.Split(msg, "\n") {
		if strings.Contains(l, ".go:") {
			n++
			if !strings.HasPrefix(strings.TrimSpace(l), "zzsim/") {
				return false
			}
		}
	}
	return n > 0
}

func firstLines(s string, n int) string {
	l := strings.Split(strings.TrimSpace(s), "\n")
	if len(l) > n {
		l = l[:n]
	}
	return strings.Join(l, "\n")
}

func goBuild(tree, out string, race bool) string {
	args := []string{"build"}
	if race {
		ov := filepath.Join(scratch, "overlay.json")
		if err := writeOverlay(ov); err != nil {
			return "overlay: " + err.Error()
		}
		args = append(args, "-race", "-overlay", ov)
	}
	if os.Getenv("SIMCOVER") != "" {
		// Development aid: statement coverage of the code under test by a check
		// (GOCOVERDIR=$SIMCOVER is inherited by the workers).
		args = append(args, "-cover")
	}
	args = append(args, "-o", out, "./zzsim/harness")
	cmd := exec.Command("go", args...)
	cmd.Dir = tree
	cmd.Env = goEnv()
	var errb bytes.Buffer
	cmd.Stdout, cmd.Stderr = &errb, &errb
	if err := cmd.Run(); err != nil {
		return "go " + strings.Join(args, " ") + ":\n" + errb.String()
	}
	return ""
}

// writeOverlay patches sync/pool.go so that, in race builds, Pool.Put always
// drops its argument instead of doing so with probability 1/4 from an unseeded
// runtime RNG (which would make race reports irreproducible) and otherwise
// recording a happens-before edge between unrelated fmt calls (which masks
// races). It can only remove masking edges.
func writeOverlay(path string) error {
	out, err := exec.Command("go", "env", "GOROOT").Output()
	if err != nil {
		return err
	}
	goroot := strings.TrimSpace(string(out))
	src := filepath.Join(goroot, "src", "sync", "pool.go")
	b, err := os.ReadFile(src)
	if err != nil {
		return err
	}
	const needle = "if runtime_randn(4) == 0 {"
	if !bytes.Contains(b, []byte(needle)) {
		return fmt.Errorf("sync/pool.go does not contain %q; the overlay patch needs updating for this Go version", needle)
	}
	patched := bytes.Replace(b, []byte(needle), []byte("if runtime_randn(4) >= 0 {"), 1)
	pf := filepath.Join(filepath.Dir(path), "pool_overlay.go")
	if err := os.WriteFile(pf, patched, 0o644); err != nil {
		return err
	}
	ov := map[string]interface{}{"Replace": map[string]string{src: pf}}
	jb, _ := json.Marshal(ov)
	return os.WriteFile(path, jb, 0o644)
}

// ---------------------------------------------------------------------------
// Workers.

type failRec struct {
	Property string                 `json:"property"`
	Seed     uint64                 `json:"seed"`
	Class    string                 `json:"class"`
	Sig      string                 `json:"sig"`
	Detail   string                 `json:"detail"`
	Replay   json.RawMessage        `json:"replay"`
	Extra    map[string]interface{} `json:"extra"`
	race     bool
	// sequence is set when the failure only reproduces as the tail of a worker's
	// whole run history; it holds the worker arguments.
	sequence       []string
	unreproducible bool
}

type summaryRec struct {
	Runs      int64            `json:"runs"`
	Skipped   map[string]int64 `json:"skipped"`
	Counters  map[string]int64 `json:"counters"`
	Probes    map[string]int64 `json:"probes"`
	Samples   []interface{}    `json:"samples"`
	Distinct  []uint64         `json:"distinct"`
	Failures  int64            `json:"failures"`
	NextSeed  uint64           `json:"next_seed"`
	Stopped   bool             `json:"stopped"`
	Exhausted bool             `json:"exhaustive"`
	SimClockS float64          `json:"sim_clock_span_s"`
}

type lineRec struct {
	T       string      `json:"t"`
	Summary *summaryRec `json:"summary"`
	failRec
}

type agg struct {
	mu       sync.Mutex
	runs     int64
	skipped  map[string]int64
	counters map[string]int64
	probes   map[string]int64
	samples  []interface{}
	distinct map[uint64]struct{}
	fails    []*failRec
	notes    []string
	exhaust  bool
	simClock float64
	procs    int64
	harness  []string // harness errors (exit 2)
}

func newAgg() *agg {
	return &agg{skipped: map[string]int64{}, counters: map[string]int64{}, probes: map[string]int64{}, distinct: map[uint64]struct{}{}, exhaust: true}
}

func (a *agg) addSummary(s *summaryRec) {
	a.mu.Lock()
	defer a.mu.Unlock()
	a.runs += s.Runs
	for k, v := range s.Skipped {
		a.skipped[k] += v
	}
	for k, v := range s.Counters {
		a.counters[k] += v
	}
	for k, v := range s.Probes {
		a.probes[k] += v
	}
	for _, x := range s.Samples {
		if len(a.samples) < 8 {
			a.samples = append(a.samples, x)
		}
	}
	for _, h := range s.Distinct {
		a.distinct[h] = struct{}{}
	}
	if !s.Exhausted {
		a.exhaust = false
	}
	a.simClock += s.SimClockS
}

// workerJob describes one worker process invocation.
type workerJob struct {
	bin     string
	race    bool
	procs   int // GOMAXPROCS
	args    []string
	timeout time.Duration
}

type workerResult struct {
	lines    []lineRec
	stderr   string
	exitCode int
	timedOut bool
	raw      []string
}

func runWorker(j workerJob) *workerResult {
	res := &workerResult{}
	cmd := exec.Command(j.bin, j.args...)
	env := goEnv()
	procs := j.procs
	if procs == 0 {
		procs = 1
	}
	env = append(env, "GOMAXPROCS="+strconv.Itoa(procs))
	var racePrefix string
	if j.race {
		f, err := os.CreateTemp(scratch, "race-")
		if err != nil {
			res.exitCode = 2
			res.stderr = "cannot create the race log (scratch directory gone?): " + err.Error()
			return res
		}
		racePrefix = f.Name()
		f.Close()
		os.Remove(racePrefix)
		env = append(env, "GORACE=log_path="+racePrefix+" halt_on_error=0 atexit_sleep_ms=0 exitcode=0")
		cmd.Args = append(cmd.Args, "-racelog", racePrefix)
	}
	cmd.Env = env
	var errb bytes.Buffer
	cmd.Stderr = &errb
	out, err := cmd.StdoutPipe()
	if err != nil {
		res.exitCode = 2
		res.stderr = err.Error()
		return res
	}
	if err := cmd.Start(); err != nil {
		res.exitCode = 2
		res.stderr = err.Error()
		return res
	}
	timeout := j.timeout
	if timeout == 0 {
		timeout = 30 * time.Minute
		if tier == "thorough" {
			// (the workers of a thorough run stop by themselves after their -budget)
			timeout = 150 * time.Minute
		}
	}
	timer := time.AfterFunc(timeout, func() {
		res.timedOut = true
		cmd.Process.Kill()
	})
	sc := bufio.NewScanner(out)
	sc.Buffer(make([]byte, 1<<20), 1<<28)
	for sc.Scan() {
		line := sc.Text()
		var lr lineRec
		if err := json.Unmarshal([]byte(line), &lr); err != nil {
			res.raw = append(res.raw, line)
			continue
		}
		lr.race = j.race
		res.lines = append(res.lines, lr)
	}
	err = cmd.Wait()
	timer.Stop()
	res.stderr = errb.String()
	if err != nil {
		if ee, ok := err.(*exec.ExitError); ok {
			res.exitCode = ee.ExitCode()
		} else {
			res.exitCode = 2
		}
	}
	if racePrefix != "" {
		matches, _ := filepath.Glob(racePrefix + ".*")
		for _, m := range matches {
			os.Remove(m)
		}
	}
	return res
}

// fanOut runs a seeded/enumerated search over n worker processes, restarting a
// worker that stopped early (after a race report or an abort) at the index it
// asked for.
func fanOut(a *agg, bin string, race bool, baseArgs []string, totalRuns int64, workers int, procs int) {
	var wg sync.WaitGroup
	for i := 0; i < workers; i++ {
		wg.Add(1)
		go func(i int) {
			defer wg.Done()
			from := int64(0)
			for restarts := 0; restarts < 5000; restarts++ {
				args := append([]string{}, baseArgs...)
				shard := fmt.Sprintf("%d/%d", i, workers)
				progress := filepath.Join(scratch, fmt.Sprintf("progress-%d", i))
				os.Remove(progress)
				args = append(args, "-shard", shard, "-runs", strconv.FormatInt(totalRuns, 10), "-from", strconv.FormatInt(from, 10), "-progress", progress)
				res := runWorker(workerJob{bin: bin, race: race, procs: procs, args: args})
				a.mu.Lock()
				a.procs++
				a.mu.Unlock()
				var sum *summaryRec
				for k := range res.lines {
					lr := &res.lines[k]
					switch lr.T {
					case "fail":
						fr := lr.failRec
						a.mu.Lock()
						if strings.HasPrefix(fr.Class, "harness") {
							// A fault of the machinery itself is never a verdict.
							a.harness = append(a.harness, fr.Class+" "+fr.Sig+": "+firstLines(fr.Detail, 8))
						} else {
							a.fails = append(a.fails, &fr)
						}
						a.mu.Unlock()
					case "summary":
						sum = lr.Summary
					case "note":
						a.mu.Lock()
						a.notes = append(a.notes, lr.Class+": "+lr.Detail)
						if strings.HasPrefix(lr.Class, "harness") {
							a.harness = append(a.harness, lr.Class+": "+lr.Detail)
						}
						a.mu.Unlock()
					}
				}
				if res.timedOut {
					a.mu.Lock()
					a.harness = append(a.harness, "worker timed out")
					a.mu.Unlock()
					return
				}
				if sum == nil || res.exitCode != 0 {
					// The worker process died (a fatal error of the Go runtime inside the
					// code under test, e.g. stack overflow or concurrent map writes, or a
					// panic on a goroutine outside the harness's reach). If the run that was
					// in progress kills a fresh process again, that is a crash of the code
					// under test with a replayable cause; otherwise it is harness trouble.
					if fr := crashReplay(bin, race, procs, baseArgs, shard, from, progress, res); fr != nil {
						a.mu.Lock()
						a.fails = append(a.fails, fr)
						a.mu.Unlock()
						return
					}
					a.mu.Lock()
					a.harness = append(a.harness, fmt.Sprintf("worker %d exit %d without summary: %s %s", i, res.exitCode, firstLines(res.stderr, 30), strings.Join(res.raw, "\n")))
					a.mu.Unlock()
					return
				}
				a.addSummary(sum)
				if !sum.Stopped {
					return
				}
				from = int64(sum.NextSeed)
				a.mu.Lock()
				nf := len(a.fails)
				a.mu.Unlock()
				if nf >= 6 {
					return
				}
			}
		}(i)
	}
	wg.Wait()
}

// crashReplay re-executes, in a fresh process, the run during which a worker
// died (first alone, then with the worker's whole history); if the process dies
// again it returns a failure of class "crash" whose replay file is that run.
func crashReplay(bin string, race bool, procs int, baseArgs []string, shard string, from int64, progress string, died *workerResult) *failRec {
	b, err := os.ReadFile(progress)
	if err != nil {
		return nil
	}
	idx, err := strconv.ParseInt(strings.TrimSpace(string(b)), 10, 64)
	if err != nil {
		return nil
	}
	sig := crashSignature(died.stderr)
	if sig == "" {
		return nil
	}
	for _, start := range []int64{idx, from} {
		args := append([]string{}, baseArgs...)
		args = append(args, "-shard", shard, "-from", strconv.FormatInt(start, 10), "-runs", strconv.FormatInt(idx+1, 10))
		res := runWorker(workerJob{bin: bin, race: race, procs: procs, args: args, timeout: 20 * time.Minute})
		if res.exitCode != 0 && crashSignature(res.stderr) == sig {
			// keep only what replays: the worker arguments without corpus/sites/ref paths
			var keep []string
			for k := 0; k < len(args); k++ {
				switch args[k] {
				case "-corpus", "-sites", "-ref", "-progress":
					k++
					continue
				case "-libgo":
					continue
				}
				keep = append(keep, args[k])
			}
			return &failRec{Class: "crash", Sig: sig, Detail: "the worker process died during this run (and dies again when the run is repeated in a fresh process):\n" + firstLines(res.stderr, 25), race: race, sequence: keep, Replay: json.RawMessage(`{"note":"sequence replay: re-executes the run(s) named in worker_args"}`)}
		}
		if start == from {
			break
		}
	}
	return nil
}

// crashSignature extracts the first line of a Go runtime death notice.
func crashSignature(stderr string) string {
	for _, l := range strings.Split(stderr, "\n") {
		l = strings.TrimSpace(l)
		if strings.HasPrefix(l, "fatal error:") || strings.HasPrefix(l, "panic:") {
			if len(l) > 160 {
				l = l[:160]
			}
			return l
		}
	}
	return ""
}

func numWorkers() int {
	n := *flagWorkers
	if n <= 0 {
		n = runtime.NumCPU()
		if n > 16 {
			n = 16
		}
	}
	if n < 1 {
		n = 1
	}
	return n
}

// ---------------------------------------------------------------------------
// Known findings.

type finding struct {
	Status    string `json:"status"` // fixed | known
	Property  string `json:"property"`
	Signature string `json:"signature"`
	Commit    string `json:"commit,omitempty"`
	What      string `json:"what"`
	// Tape (known findings): replay file, relative to the root, of the specific
	// history that fails; it is replayed by every check of the property.
	Tape string `json:"tape,omitempty"`
}

func loadFindings() []finding {
	var out []finding
	b, err := os.ReadFile(filepath.Join(root, "known_findings.jsonl"))
	if err != nil {
		return nil
	}
	for _, line := range strings.Split(string(b), "\n") {
		line = strings.TrimSpace(line)
		if line == "" || strings.HasPrefix(line, "#") {
			continue
		}
		var f finding
		if json.Unmarshal([]byte(line), &f) == nil {
			out = append(out, f)
		}
	}
	return out
}

func knownFinding(fs []finding, prop string, fr *failRec) *finding {
	for i := range fs {
		f := &fs[i]
		// (a finding pinned by a tape is only ever matched by replaying that tape)
		if f.Status == "known" && f.Tape == "" && f.Property == prop && f.Signature == fr.Class+"|"+fr.Sig {
			return f
		}
	}
	return nil
}

// ---------------------------------------------------------------------------
// The check.

func check(spec *propSpec, b *build) int {
	a := newAgg()
	// 1. Regression tapes first: a finding that returns is reported in seconds.
	regDir := filepath.Join(root, "regress", spec.id)
	regs, _ := filepath.Glob(filepath.Join(regDir, "*.json"))
	sort.Strings(regs)
	if *flagNoRegress {
		regs = nil
	}
	regressed := 0
	for _, rp := range regs {
		fr, herr := replayOne(b, rp)
		if herr != "" {
			a.harness = append(a.harness, "regression tape "+rp+": "+herr)
			continue
		}
		a.counters["regression tapes replayed"]++
		if fr != nil {
			fr.Detail = "regression tape " + filepath.Base(rp) + ": " + fr.Detail
			a.fails = append(a.fails, fr)
			regressed++
		}
	}
	// 1b. Known findings are pinned by the tape of the one history that fails;
	// the search below stays away from exactly that history. A tape that still
	// fails in the recorded way is announced and otherwise ignored; one that
	// fails in another way is a violation like any other.
	knownSeen := map[string]bool{}
	for _, kf := range loadFindings() {
		if kf.Status != "known" || kf.Property != spec.id || kf.Tape == "" || *flagNoRegress {
			continue
		}
		fr, herr := replayOne(b, filepath.Join(root, kf.Tape))
		if herr != "" {
			a.harness = append(a.harness, "known-finding tape "+kf.Tape+": "+herr)
			continue
		}
		a.counters["known-finding tapes replayed"]++
		switch {
		case fr == nil:
			fmt.Printf("simcheck: the known finding pinned by %s no longer reproduces\n", kf.Tape)
			a.counters["known findings that no longer reproduce"]++
		case sameAsFinding(fr, kf.Signature):
			if !knownSeen[kf.Signature] {
				knownSeen[kf.Signature] = true
				fmt.Printf("KNOWN-FINDING: property=%s %s\n", spec.id, kf.What)
			}
		default:
			fr.Detail = "known-finding tape " + filepath.Base(kf.Tape) + " fails in another way than recorded: " + fr.Detail
			a.fails = append(a.fails, fr)
		}
	}
	// 2. The search (preceded by the determinism self-test of the simulator).
	if regressed == 0 {
		spec.search(spec, b, a)
		if len(a.harness) == 0 && len(a.fails) == 0 {
			// (a clean batch is only worth something if the simulator is
			// deterministic; a failure is validated by replaying it in a fresh
			// process instead)
			if msg := runSelfTest(spec, b, a); msg != "" {
				a.harness = append(a.harness, msg)
			}
		}
	}
	if len(a.harness) > 0 {
		if minDegrade < 2 && (b.degraded == "" || strings.HasPrefix(b.degraded, "no statement")) {
			for _, h := range a.harness {
				if strings.Contains(h, "harness-limit-unmodelled") {
					fmt.Printf("simcheck: %s\n", firstLines(h, 3))
					return rcUnmodelled
				}
			}
		}
		fmt.Fprintf(os.Stderr, "simcheck: harness trouble (exit 2, no verdict):\n%s\n", strings.Join(a.harness, "\n"))
		return 2
	}
	if a.runs == 0 && len(a.fails) == 0 {
		fmt.Fprintln(os.Stderr, "simcheck: the search executed nothing (exit 2, no verdict)")
		return 2
	}
	// 3. Verdicts.
	known := loadFindings()
	var violations []*failRec
	seenKnown := knownSeen
	for _, fr := range a.fails {
		if kf := knownFinding(known, spec.id, fr); kf != nil {
			if !seenKnown[kf.Signature] {
				seenKnown[kf.Signature] = true
				fmt.Printf("KNOWN-FINDING: property=%s %s\n", spec.id, kf.What)
			}
			continue
		}
		violations = append(violations, fr)
	}
	// De-duplicate by class+sig, keep the first of each.
	var uniq []*failRec
	seen := map[string]bool{}
	for _, fr := range violations {
		k := fr.Class + "|" + fr.Sig
		if !seen[k] {
			seen[k] = true
			uniq = append(uniq, fr)
		}
	}
	var replayPaths []string
	for i, fr := range uniq {
		if i >= 3 {
			break
		}
		min := fr
		if !*flagNoShrink {
			min = shrink(spec, b, fr)
		}
		if min.unreproducible {
			fmt.Fprintf(os.Stderr, "simcheck: a failure was observed once but cannot be reproduced (exit 2, no verdict): class=%s sig=%s\n%s\n", fr.Class, fr.Sig, firstLines(min.Detail, 12))
			return 2
		}
		path := writeReplay(spec, b, min, fr)
		replayPaths = append(replayPaths, path)
	}
	if !*flagNoEvid {
		writeEvidence(spec, b, a, len(uniq), len(seenKnown))
	}
	if len(uniq) > 0 {
		for i, fr := range uniq {
			if i < len(replayPaths) {
				fmt.Printf("VIOLATION property=%s replay=%s\n", spec.id, replayPaths[i])
			}
			fmt.Printf("  class=%s sig=%s\n  %s\n", fr.Class, fr.Sig, firstLines(fr.Detail, 12))
		}
		return 1
	}
	fmt.Printf("OK property=%s tier=%s runs=%d distinct=%d wall=%.1fs\n", spec.id, tier, a.runs, len(a.distinct), time.Since(start).Seconds())
	return 0
}

// replayOne executes a replay file in a fresh worker process and returns the
// failure it reproduces (nil if it passes).
func replayOne(b *build, path string) (*failRec, string) {
	raw, err := os.ReadFile(path)
	if err != nil {
		return nil, err.Error()
	}
	var rf struct {
		Race  bool     `json:"race_build"`
		Procs int      `json:"gomaxprocs"`
		Kind  string   `json:"kind"`
		Args  []string `json:"worker_args"`
		Class string   `json:"class"`
		Sig   string   `json:"sig"`
	}
	if err := json.Unmarshal(raw, &rf); err != nil {
		return nil, "bad replay file: " + err.Error()
	}
	if rf.Kind == "sequence" {
		for _, g := range runSequence(b, rf.Race, rf.Args) {
			if sameFailure(g.Class, g.Sig, rf.Class, rf.Sig) {
				return g, ""
			}
		}
		return nil, ""
	}
	bin := b.plain
	if rf.Race {
		bin = b.race
	}
	if bin == "" {
		return nil, "replay needs a build that was not prepared"
	}
	rargs := []string{"-replay", path, "-corpus", b.corpus, "-sites", b.sites}
	if libSpawnsGoroutines(b) {
		rargs = append(rargs, "-libgo")
	}
	if rp := filepath.Join(scratch, "ref.json"); fileExists(rp) {
		rargs = append(rargs, "-ref", rp)
	}
	res := runWorker(workerJob{bin: bin, race: rf.Race, procs: rf.Procs, args: rargs, timeout: 5 * time.Minute})
	if res.timedOut {
		return nil, "replay timed out"
	}
	for k := range res.lines {
		lr := &res.lines[k]
		if lr.T == "fail" {
			fr := lr.failRec
			return &fr, ""
		}
		if lr.T == "note" && strings.HasPrefix(lr.Class, "harness") {
			return nil, lr.Class + ": " + lr.Detail
		}
	}
	if res.exitCode != 0 {
		return nil, fmt.Sprintf("replay worker exit %d: %s", res.exitCode, firstLines(res.stderr, 20))
	}
	return nil, ""
}

func fileExists(p string) bool {
	_, err := os.Stat(p)
	return err == nil
}

// ensureRef makes the C12 reference table if the replayed property needs one.
func ensureRef(prop string, b *build) string {
	if prop == "C13" {
		raw, herr := makeRefRaw(b.race, true, b, specs["C13"])
		if herr != "" {
			return herr
		}
		return errString(os.WriteFile(filepath.Join(scratch, "ref.json"), raw, 0o644))
	}
	if prop != "C12" {
		return ""
	}
	if b.plain == "" {
		return "C12 replay needs the plain build"
	}
	ref, herr := makeRef(b.plain, b, specs["C12"])
	if herr != "" {
		return herr
	}
	jb, _ := json.Marshal(ref)
	return errString(os.WriteFile(filepath.Join(scratch, "ref.json"), jb, 0o644))
}

func errString(err error) string {
	if err != nil {
		return err.Error()
	}
	return ""
}

func replayCmd(path string) int {
	raw, err := os.ReadFile(path)
	if err != nil {
		die("%v", err)
	}
	var rf struct {
		Property string `json:"property"`
		Race     bool   `json:"race_build"`
		Class    string `json:"class"`
		Sig      string `json:"sig"`
	}
	if err := json.Unmarshal(raw, &rf); err != nil {
		die("bad replay file: %v", err)
	}
	b := prepare(rf.Race, !rf.Race || rf.Property == "C12")
	if msg := ensureRef(rf.Property, b); msg != "" {
		fmt.Fprintln(os.Stderr, "simcheck: replay trouble:", msg)
		return 2
	}
	fr, herr := replayOne(b, path)
	if herr != "" {
		fmt.Fprintln(os.Stderr, "simcheck: replay trouble:", herr)
		return 2
	}
	if fr == nil {
		fmt.Printf("replay passed: property=%s (recorded: class=%s sig=%s)\n", rf.Property, rf.Class, rf.Sig)
		return 0
	}
	same := sameFailure(fr.Class, fr.Sig, rf.Class, rf.Sig)
	fmt.Printf("VIOLATION property=%s replay=%s\n  class=%s sig=%s same-as-recorded=%v\n  %s\n", rf.Property, path, fr.Class, fr.Sig, same, firstLines(fr.Detail, 30))
	return 1
}

// sameFailure reports whether two failures are the same violation. For data
// races the detector's first report may name a different pair of accesses of the
// same racing code when the run is replayed in a fresh process (which earlier
// access it remembers depends on shadow-memory history), so races are compared
// by the set of functions the two accesses are in.
// sameAsFinding compares a failure with the "class|signature" of a known
// finding (races by the set of racing functions, so that line shifts do not
// matter).
func sameAsFinding(fr *failRec, signature string) bool {
	i := strings.Index(signature, "|")
	if i < 0 {
		return false
	}
	return sameFailure(fr.Class, fr.Sig, signature[:i], signature[i+1:])
}

func sameFailure(class1, sig1, class2, sig2 string) bool {
	if class1 != class2 {
		return false
	}
	if class1 != "race" {
		return sig1 == sig2
	}
	return raceKey(sig1) == raceKey(sig2)
}

func raceKey(sig string) string {
	var fns []string
	for _, part := range strings.Split(sig, " <-> ") {
		f := strings.Fields(part)
		if len(f) >= 2 {
			fns = append(fns, f[1])
		}
	}
	sort.Strings(fns)
	return strings.Join(fns, "|")
}

// ---------------------------------------------------------------------------
// Minimisation: the worker proposes one-step reductions of a scenario
// (-candidates); each is replayed in a fresh process; a candidate is kept only
// if the same violation class and signature persist.

func shrink(spec *propSpec, b *build, fr *failRec) *failRec {
	if fr.sequence != nil {
		return fr // already a verified sequence replay (crash)
	}
	cur := fr
	deadline := time.Now().Add(spec.shrinkBudget())
	tmpDir := filepath.Join(scratch, "shrink")
	os.MkdirAll(tmpDir, 0o755)
	write := func(f *failRec, name string) string {
		p := filepath.Join(tmpDir, name)
		os.WriteFile(p, replayJSON(spec, b, f, ""), 0o644)
		return p
	}
	// The failure must reproduce alone in a fresh process first.
	p0 := write(cur, "orig.json")
	r0, herr := replayOne(b, p0)
	if herr != "" || r0 == nil || !sameFailure(r0.Class, r0.Sig, fr.Class, fr.Sig) {
		got := "passed"
		if r0 != nil {
			got = r0.Class + "|" + r0.Sig
		}
		// The run does not fail alone: what it did depended on earlier runs of the
		// same worker process. Re-execute that worker's whole history.
		if seq := sequenceReplay(spec, b, fr); seq != nil {
			return seq
		}
		fr.Detail += fmt.Sprintf("\n[replay of the single run in a fresh process gave %s %s, and re-running the worker's history did not reproduce it either]", got, herr)
		fr.unreproducible = true
		return fr
	}
	round := 0
	for time.Now().Before(deadline) {
		round++
		bin := b.plain
		if bin == "" {
			bin = b.race
		}
		cp := write(cur, fmt.Sprintf("cur-%d.json", round))
		out, err := exec.Command(bin, "-candidates", cp, "-corpus", b.corpus).Output()
		if err != nil {
			break
		}
		var cands []json.RawMessage
		for _, line := range bytes.Split(out, []byte("\n")) {
			line = bytes.TrimSpace(line)
			if len(line) > 0 {
				cands = append(cands, json.RawMessage(append([]byte(nil), line...)))
			}
		}
		if len(cands) == 0 {
			break
		}
		// Try candidates in parallel batches; adopt the first (in order) that keeps the violation.
		adopted := false
		nw := numWorkers()
		for i := 0; i < len(cands) && !adopted && time.Now().Before(deadline); i += nw {
			j := i + nw
			if j > len(cands) {
				j = len(cands)
			}
			results := make([]*failRec, j-i)
			var wg sync.WaitGroup
			for k := i; k < j; k++ {
				wg.Add(1)
				go func(k int) {
					defer wg.Done()
					cand := *cur
					cand.Replay = cands[k]
					p := write(&cand, fmt.Sprintf("cand-%d-%d.json", round, k))
					r, herr := replayOne(b, p)
					os.Remove(p)
					if herr == "" && r != nil && sameFailure(r.Class, r.Sig, fr.Class, fr.Sig) {
						r.Replay = cands[k]
						r.Seed = cur.Seed
						r.race = cur.race
						results[k-i] = r
					}
				}(k)
			}
			wg.Wait()
			for _, r := range results {
				if r != nil {
					cur = r
					adopted = true
					break
				}
			}
		}
		if !adopted {
			break
		}
	}
	return cur
}

// sequenceReplay re-runs the worker process that produced fr from its first run
// up to the failing one and returns the failure if it shows up again.
func sequenceReplay(spec *propSpec, b *build, fr *failRec) *failRec {
	h, _ := fr.Extra["history"].(map[string]interface{})
	if h == nil {
		return nil
	}
	args := []string{"-prop", fmt.Sprint(h["prop"]), "-tier", fmt.Sprint(h["tier"]), "-seed", fmt.Sprint(h["seed"]), "-shard", fmt.Sprint(h["shard"]),
		"-from", fmt.Sprint(int64(asFloat(h["from"]))), "-runs", fmt.Sprint(int64(asFloat(h["upto"])))}
	if m := fmt.Sprint(h["mode"]); m != "" {
		args = append(args, "-mode", m)
	}
	got := runSequence(b, fr.race, args)
	for _, g := range got {
		if sameFailure(g.Class, g.Sig, fr.Class, fr.Sig) {
			g.sequence = args
			g.race = fr.race
			g.Detail += "\n[this run fails only after the earlier runs of the same worker process; the replay file re-executes that whole history]"
			return g
		}
	}
	return nil
}

func asFloat(v interface{}) float64 {
	f, _ := v.(float64)
	return f
}

func runSequence(b *build, race bool, args []string) []*failRec {
	bin := b.plain
	if race {
		bin = b.race
	}
	full := append(append([]string{}, args...), "-corpus", b.corpus, "-sites", b.sites)
	if libSpawnsGoroutines(b) {
		full = append(full, "-libgo")
	}
	if rp := filepath.Join(scratch, "ref.json"); fileExists(rp) {
		full = append(full, "-ref", rp)
	}
	res := runWorker(workerJob{bin: bin, race: race, procs: 1, args: full, timeout: 20 * time.Minute})
	var out []*failRec
	for k := range res.lines {
		if res.lines[k].T == "fail" {
			fr := res.lines[k].failRec
			out = append(out, &fr)
		}
	}
	if res.exitCode != 0 {
		if sig := crashSignature(res.stderr); sig != "" {
			out = append(out, &failRec{Class: "crash", Sig: sig, Detail: firstLines(res.stderr, 25)})
		}
	}
	return out
}

func replayJSON(spec *propSpec, b *build, fr *failRec, note string) []byte {
	procs := spec.procs
	if procs == 0 {
		procs = 1
	}
	m := map[string]interface{}{
		"property":   spec.id,
		"seed":       fr.Seed,
		"base_seed":  seed,
		"class":      fr.Class,
		"sig":        fr.Sig,
		"detail":     fr.Detail,
		"race_build": fr.race,
		"gomaxprocs": procs,
		"scenario":   fr.Replay,
	}
	if note != "" {
		m["note"] = note
	}
	if fr.Extra != nil && fr.Extra["trace"] != nil {
		m["trace"] = fr.Extra["trace"]
	}
	if fr.sequence != nil {
		m["kind"] = "sequence"
		m["worker_args"] = fr.sequence
	}
	out, _ := json.MarshalIndent(m, "", " ")
	return out
}

func writeReplay(spec *propSpec, b *build, min, orig *failRec) string {
	dir := filepath.Join(root, "replays")
	os.MkdirAll(dir, 0o755)
	var h uint32 = 2166136261
	for _, c := range []byte(orig.Sig) {
		h = (h ^ uint32(c)) * 16777619
	}
	path := filepath.Join(dir, fmt.Sprintf("%s-%d-%s-%08x.json", spec.id, seed, sanitize(orig.Class), h))
	note := "replay with: bin/simcheck -replay " + path
	if err := os.WriteFile(path, replayJSON(spec, b, min, note), 0o644); err != nil {
		die("cannot write replay file: %v", err)
	}
	return path
}

func sanitize(s string) string {
	var b strings.Builder
	for _, c := range s {
		if c >= 'a' && c <= 'z' || c >= 'A' && c <= 'Z' || c >= '0' && c <= '9' || c == '-' {
			b.WriteRune(c)
		} else {
			b.WriteByte('_')
		}
	}
	return b.String()
}

// ---------------------------------------------------------------------------
// Evidence.

func writeEvidence(spec *propSpec, b *build, a *agg, violations, knownSeen int) {
	wall := time.Since(start).Seconds()
	cov := map[string]interface{}{
		"evaluations":         a.runs,
		"distinct_nontrivial": len(a.distinct),
		"rule":                spec.rule,
		"samples":             a.samples,
		"exhaustive":          a.exhaust && spec.exhaustiveWhenThorough && tier == "thorough",
		"counters":            a.counters,
		"probes":              a.probes,
		"skipped":             a.skipped,
		"worker_processes":    a.procs,
		"runs_per_hour":       int64(float64(a.runs) / wall * 3600),
		"real_components":     []string{"github.com/llir/llvm/asm", "github.com/llir/llvm/ir (+constant, enum, metadata, types, value)", "github.com/llir/llvm/internal/*", "github.com/llir/ll (lexer, parser, AST)", "fmt", "sync.Mutex (real TryLock/Unlock under the simulated Lock)", "Go race detector (race builds)"},
		"simulated":           spec.simulated,
		"instrumentation":     b.instr,
		"known_findings_seen": knownSeen,
	}
	if b.degraded != "" {
		cov["instrumentation_degraded"] = b.degraded
	}
	if a.simClock > 0 {
		cov["simulated_clock_span_s"] = a.simClock
	}
	if len(a.samples) == 0 {
		cov["samples"] = []interface{}{"(no sample recorded)"}
	}
	ev := map[string]interface{}{
		"property_id": spec.id,
		"tier":        tier,
		"seed":        seed,
		"level":       spec.level,
		"coverage":    cov,
		"assumptions": spec.assumptions,
		"wall_s":      wall,
		"violations":  violations,
	}
	out, _ := json.MarshalIndent(ev, "", " ")
	dir := filepath.Join(root, "evidence")
	os.MkdirAll(dir, 0o755)
	if err := os.WriteFile(filepath.Join(dir, spec.id+".json"), append(out, '\n'), 0o644); err != nil {
		die("cannot write evidence: %v", err)
	}
	if tier == "thorough" {
		// Keep a copy: the next quick run overwrites evidence/<id>.json.
		td := filepath.Join(dir, "thorough")
		os.MkdirAll(td, 0o755)
		os.WriteFile(filepath.Join(td, spec.id+".json"), append(out, '\n'), 0o644)
	}
}
