package main

import (
	"fmt"
	"strings"
	"sync"
)

// Determinism self-test of the simulator: the same seeds are executed several
// times in separate processes at several GOMAXPROCS values and the complete
// event logs (one line per run: interleaving hash, map-order hash, statement
// count, verdict) are compared. A divergence is a harness fault (exit 2): a
// simulator that does not replay cannot be believed.

type selfPlan struct {
	bin   string
	race  bool
	args  []string
	runs  int64
	label string
}

func selfTestPlans(spec *propSpec, b *build) []selfPlan {
	base := baseArgs(spec, b)
	n := int64(48)
	if tier == "thorough" {
		n = 400
	}
	switch spec.id {
	case "C13":
		return []selfPlan{{bin: b.race, race: true, args: append(append([]string{}, base...), "-ref", scratch+"/ref.json"), runs: n, label: "C13"}}
	case "C14":
		return []selfPlan{{bin: b.plain, args: base, runs: n * 4, label: "C14"}}
	case "C12":
		ref := scratch + "/ref.json"
		return []selfPlan{
			{bin: b.plain, args: append(append([]string{}, base...), "-ref", ref, "-mode", "seq"), runs: n * 2, label: "C12 sequential"},
			{bin: b.race, race: true, args: append(append([]string{}, base...), "-ref", ref, "-mode", "conc"), runs: n / 2, label: "C12 concurrent"},
		}
	}
	return nil
}

// runSelfTest returns "" if all logs agree.
func runSelfTest(spec *propSpec, b *build, a *agg) string {
	plans := selfTestPlans(spec, b)
	if len(plans) == 0 {
		return ""
	}
	procsList := []int{1, 4}
	reps := 2
	if tier == "thorough" {
		procsList = []int{1, 4, 16}
		reps = 4
	}
	for _, p := range plans {
		type key struct{ procs, rep int }
		logs := map[key][]string{}
		var mu sync.Mutex
		var wg sync.WaitGroup
		var herr string
		sem := make(chan struct{}, numWorkers())
		for _, procs := range procsList {
			for rep := 0; rep < reps; rep++ {
				wg.Add(1)
				go func(procs, rep int) {
					defer wg.Done()
					sem <- struct{}{}
					defer func() { <-sem }()
					args := append(append([]string{}, p.args...), "-selftest", "-shard", "0/1", "-runs", fmt.Sprint(p.runs), "-maxfail", "1000000")
					res := runWorker(workerJob{bin: p.bin, race: p.race, procs: procs, args: args})
					var log []string
					for _, lr := range res.lines {
						if lr.T == "event" {
							log = append(log, lr.Detail)
						}
					}
					mu.Lock()
					defer mu.Unlock()
					if res.exitCode != 0 || res.timedOut {
						herr = fmt.Sprintf("self-test worker failed (exit %d): %s", res.exitCode, firstLines(res.stderr, 10))
					}
					logs[key{procs, rep}] = log
				}(procs, rep)
			}
		}
		wg.Wait()
		if herr != "" {
			return herr
		}
		// Statically known uncontrolled map ranges (pointer, float keys).
		loose := false
		if un, _ := b.instr["uncontrolled_map_ranges"].([]interface{}); len(un) > 0 {
			loose = true
		}
		limited := 0
		ref := logs[key{procsList[0], 0}]
		if len(ref) == 0 {
			return "self-test produced no events for " + p.label
		}
		for k, log := range logs {
			if len(log) != len(ref) {
				// A race report stops a worker early; compare the common prefix only
				// if both stopped at a race (class=race in the last line).
				if len(log) == 0 {
					return fmt.Sprintf("self-test %s: empty log at GOMAXPROCS=%d", p.label, k.procs)
				}
			}
			n := len(ref)
			if len(log) < n {
				n = len(log)
			}
			for i := 0; i < n; i++ {
				if loose || strings.Contains(log[i], "uncontrolled=") && !strings.HasSuffix(log[i], "uncontrolled=0") || !strings.HasSuffix(ref[i], "uncontrolled=0") && strings.Contains(ref[i], "uncontrolled=") {
					// Some map of the code under test is ranged in Go's own order (keys
					// without a canonical order): the interleaving legitimately differs
					// between processes; only the verdict has to agree.
					if verdictOf(log[i]) != verdictOf(ref[i]) {
						return fmt.Sprintf("self-test %s: run %d has different verdicts in two processes (GOMAXPROCS=%d rep=%d):\n  %s\n  %s", p.label, i, k.procs, k.rep, ref[i], log[i])
					}
					limited++
					continue
				}
				if log[i] != ref[i] {
					return fmt.Sprintf("self-test %s: run %d differs between processes (GOMAXPROCS=%d rep=%d):\n  %s\n  %s", p.label, i, k.procs, k.rep, ref[i], log[i])
				}
			}
			if len(log) != len(ref) && !strings.Contains(ref[n-1]+log[n-1], "class=race") {
				return fmt.Sprintf("self-test %s: logs have different lengths (%d vs %d) at GOMAXPROCS=%d", p.label, len(ref), len(log), k.procs)
			}
		}
		if limited > 0 {
			a.counters["self-test: comparisons limited to the verdict because a map is ranged in Go's own order ("+p.label+")"] = int64(limited)
		}
		a.counters["self-test: seeds replayed identically ("+p.label+")"] = int64(len(ref))
		a.counters["self-test: processes compared ("+p.label+")"] = int64(len(logs))
	}
	return ""
}

// verdictOf extracts "idx=… class=…" from an event line.
func verdictOf(line string) string {
	var idx, class string
	for _, f := range strings.Fields(line) {
		if strings.HasPrefix(f, "idx=") {
			idx = f
		}
		if strings.HasPrefix(f, "class=") {
			class = f
		}
	}
	return idx + " " + class
}
