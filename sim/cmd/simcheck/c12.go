package main

import (
	"bytes"
	"encoding/json"
	"fmt"
	"os"
	"os/exec"
	"path/filepath"
	"sort"
	"strconv"
	"strings"
	"time"
)

type refEntry struct {
	Accepted   bool   `json:"accepted"`
	TextHash   string `json:"text_hash"`
	DigestHash string `json:"digest_hash"`
	TextLen    int    `json:"text_len"`
}

type refTable struct {
	Table      map[string]refEntry `json:"table"`
	Singletons string              `json:"singletons"`
}

// makeRef runs a worker in -mode ref (its own process) and returns the table.
func makeRef(bin string, b *build, s *propSpec) (*refTable, string) {
	// A corpus text whose parse or print kills the process (an unrecovered panic
	// on a goroutine the code under test started) is left out and counts as not
	// accepted; the pass is repeated without it.
	var skip []string
	for attempt := 0; ; attempt++ {
		progress := filepath.Join(scratch, "progress-ref")
		os.Remove(progress)
		args := append(baseArgs(s, b), "-mode", "ref", "-progress", progress)
		if len(skip) > 0 {
			args = append(args, "-skip", strings.Join(skip, ","))
		}
		res := runWorker(workerJob{bin: bin, procs: 1, args: args, timeout: 10 * time.Minute})
		t, herr := parseRef(res)
		if herr == "" || attempt >= 12 || res.exitCode == 0 || crashSignature(res.stderr) == "" {
			return t, herr
		}
		pb, err := os.ReadFile(progress)
		if err != nil {
			return t, herr
		}
		idx := strings.TrimSpace(string(pb))
		if _, err := strconv.Atoi(idx); err != nil {
			return t, herr
		}
		skip = append(skip, idx)
	}
}

func parseRef(res *workerResult) (*refTable, string) {
	for _, lr := range res.lines {
		if lr.T == "ref" && lr.Extra != nil {
			jb, _ := json.Marshal(lr.Extra)
			var t refTable
			if err := json.Unmarshal(jb, &t); err == nil && t.Table != nil {
				return &t, ""
			}
		}
	}
	return nil, fmt.Sprintf("reference worker produced no table (exit %d): %s", res.exitCode, firstLines(res.stderr, 20))
}

// buildNative builds the worker against an untouched (uninstrumented) copy of
// the tree; used as a fidelity check of the instrumentation and as one more
// process dimension with Go's own map randomisation.
func buildNative(b *build) (string, string) {
	tree := filepath.Join(scratch, "native")
	skip := func(rel string, fi os.FileInfo) bool {
		return rel == ".git" || strings.HasPrefix(rel, ".git/") || rel == "zzsim"
	}
	if err := copyTree(*flagRepo, tree, skip); err != nil {
		return "", err.Error()
	}
	if err := copyTree(filepath.Join(root, "sim", "_tree", "zzsim"), filepath.Join(tree, "zzsim"), nil); err != nil {
		return "", err.Error()
	}
	cmd := exec.Command(filepath.Join(root, "bin", "instrument"), "-dir", tree, "-yields=false", "-locks=false", "-clock=false", "-go=false", "-chans=false", "-maps=false")
	cmd.Env = goEnv()
	var errb bytes.Buffer
	cmd.Stderr = &errb
	if err := cmd.Run(); err != nil {
		return "", "instrument (go.mod only): " + errb.String()
	}
	out := filepath.Join(scratch, "worker-native")
	if msg := goBuild(tree, out, false); msg != "" {
		return "", msg
	}
	return out, ""
}

func c12SearchDriver(s *propSpec, b *build, a *agg) {
	ref, herr := makeRef(b.plain, b, s)
	if herr != "" {
		a.harness = append(a.harness, herr)
		return
	}
	refPath := filepath.Join(scratch, "ref.json")
	jb, _ := json.Marshal(ref)
	os.WriteFile(refPath, jb, 0o644)
	nAcc, nRej := 0, 0
	for _, e := range ref.Table {
		if e.Accepted {
			nAcc++
		} else {
			nRej++
		}
	}
	a.counters["corpus texts accepted by the reference run"] = int64(nAcc)
	a.counters["corpus texts rejected by the reference run"] = int64(nRej)

	// Fidelity: the untouched code, Go's own map randomisation, separate
	// processes. A disagreement is investigated by a focused seeded search
	// below; if that finds nothing it is a harness fault, not a verdict.
	native, msg := buildNative(b)
	var suspects []string
	if msg != "" {
		a.harness = append(a.harness, "native build: "+msg)
		return
	}
	nativeRuns := 3
	if tier == "thorough" {
		nativeRuns = 12
	}
	for i := 0; i < nativeRuns; i++ {
		nt, herr := makeRef(native, b, s)
		if herr != "" {
			a.harness = append(a.harness, "native reference: "+herr)
			return
		}
		a.counters["native (uninstrumented, Go-randomised) corpus passes in separate processes"]++
		var names []string
		for n := range ref.Table {
			names = append(names, n)
		}
		sort.Strings(names)
		for _, n := range names {
			if nt.Table[n] != ref.Table[n] {
				suspects = append(suspects, n)
			}
		}
		if nt.Singletons != ref.Singletons {
			suspects = append(suspects, "(package-level singletons)")
		}
	}

	args := append(baseArgs(s, b), "-ref", refPath)
	seqRuns, concRuns := int64(6000), int64(480)
	if tier == "thorough" {
		seqRuns, concRuns = 1200000, 60000
	}
	if *flagRuns > 0 {
		seqRuns, concRuns = *flagRuns, *flagRuns/16+1
	}
	if *flagMode == "" || *flagMode == "seq" {
		fanOut(a, b.plain, false, append(append([]string{}, args...), "-mode", "seq"), seqRuns, numWorkers(), 1)
	}
	if *flagMode == "" || *flagMode == "conc" {
		// concurrent workers are recycled after a few runs: what two goroutines do
		// to never-initialised process-wide state only shows in the first run of a
		// process
		maxRuns := "4"
		if tier == "thorough" {
			maxRuns = "40"
		}
		fanOut(a, b.race, true, append(append([]string{}, args...), "-mode", "conc", "-maxruns", maxRuns), concRuns, numWorkers(), 1)
	}
	if len(suspects) > 0 && len(a.fails) == 0 {
		a.harness = append(a.harness, fmt.Sprintf("the uninstrumented build disagrees with the instrumented reference on %v but the seeded search reproduced nothing: either the instrumentation changes behaviour or there is nondeterminism outside the simulator's seams", suspects))
	}
}

// makeRefRaw runs a worker in -mode ref and returns the "extra" payload of its
// ref record as raw JSON (used by C13, whose table has another shape than C12's).
func makeRefRaw(bin string, race bool, b *build, s *propSpec) ([]byte, string) {
	// A module source whose sequential print kills or blocks the reference process
	// is left out of the table (the search still runs on it and has its own
	// verdicts); the pass is repeated without it.
	var skip []string
	for attempt := 0; ; attempt++ {
		progress := filepath.Join(scratch, "progress-ref")
		os.Remove(progress)
		args := append(baseArgs(s, b), "-mode", "ref", "-progress", progress)
		if len(skip) > 0 {
			args = append(args, "-skip", strings.Join(skip, ","))
		}
		res := runWorker(workerJob{bin: bin, race: race, procs: 1, args: args, timeout: 6 * time.Minute})
		for _, lr := range res.lines {
			if lr.T == "ref" && lr.Extra != nil {
				jb, _ := json.Marshal(lr.Extra)
				return jb, ""
			}
		}
		herr := fmt.Sprintf("reference worker produced no table (exit %d): %s", res.exitCode, firstLines(res.stderr, 20))
		if attempt >= 8 {
			return nil, herr
		}
		pb, err := os.ReadFile(progress)
		if err != nil {
			return nil, herr
		}
		idx := strings.TrimSpace(string(pb))
		if _, err := strconv.Atoi(idx); err != nil {
			return nil, herr
		}
		skip = append(skip, idx)
	}
}
