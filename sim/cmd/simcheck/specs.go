package main

import (
	"fmt"
	"os"
	"path/filepath"
	"time"
)

type propSpec struct {
	id                     string
	level                  string
	rule                   string
	simulated              []string
	assumptions            []string
	exhaustiveWhenThorough bool
	procs                  int // GOMAXPROCS of the workers (recorded in replay files)
	race                   func(tier string) bool
	plain                  func(tier string) bool
	search                 func(s *propSpec, b *build, a *agg)
	shrinkTime             time.Duration
}

func (s *propSpec) needRace(t string) bool  { return s.race != nil && s.race(t) }
func (s *propSpec) needPlain(t string) bool { return s.plain == nil || s.plain(t) }
func (s *propSpec) shrinkBudget() time.Duration {
	if s.shrinkTime > 0 {
		return s.shrinkTime
	}
	return 60 * time.Second
}

func always(string) bool { return true }
func never(string) bool  { return false }

var specs = map[string]*propSpec{}

func baseArgs(s *propSpec, b *build) []string {
	args := []string{"-prop", s.id, "-tier", tier, "-seed", fmt.Sprint(seed), "-corpus", b.corpus, "-sites", b.sites}
	if tier == "thorough" {
		// A worker of a thorough run ends its search after this much wall time and
		// reports what it covered (on a loaded machine the run is shorter, not broken).
		args = append(args, "-budget", "100m")
	}
	if *flagMode != "" {
		args = append(args, "-mode", *flagMode)
	}
	if libSpawnsGoroutines(b) {
		args = append(args, "-libgo")
	}
	return args
}

func init() {
	specs["C19"] = &propSpec{
		id:    "C19",
		level: "fault_enumeration",
		rule: "one evaluation = one (*ir.Module).WriteTo call into a simulated io.Writer that accepts exactly k bytes and then fails (shape short: the failing Write accepts the bytes up to k and returns the injected error; shape fullerr: it accepts its whole argument and returns the error), or a healthy writer forwarding in chunks; the writer is a plain io.Writer or also an io.StringWriter / io.ByteWriter / io.ReaderFrom / has failing Flush, Sync and Close methods; the error it returns is a plain value or one with Cause()/Unwrap() methods; in one step of eleven the failing Write panics with its error instead of returning it, in another it is short without saying so and the error comes with the next call; calls come in episodes (eight failing writes at consecutive offsets and one healthy write on the same module object); a seeded concurrent phase runs 2-3 WriteTo calls on different modules as scheduler tasks, each into its own writer; every module is also written into real standard-library destinations (a healthy, a closed and a read-only *os.File, /dev/full, a pipe whose reader is gone, io.Discard, *bytes.Buffer, *strings.Builder, and at seeded offsets an io.Pipe whose reader takes exactly k bytes and closes with the injected error, a bufio.Writer and an io.MultiWriter in front of the failing writer) and into a writer that asks the module for its text during a Write (run as a scheduler task: a lock held across writer calls is a deadlock verdict); " +
			"oracle: bytes delivered are a prefix of the twin's String() of exactly the accepted length, returned n equals the accepted byte count, returned err is the injected error (identity), no Write call follows the failing one; without a fault bytes == String(), n == len, err == nil. " +
			"distinct_nontrivial counts distinct (module, start state, shape, k, chunk) tuples; every offset k in [0, len(String())] is enumerated for the modules listed under counters",
		simulated:              []string{"io.Writer argument of WriteTo (failure offset, failure shape, chunking, error identity, optional interfaces, re-entrancy)", "real files and pipes in failing states (closed, read-only, /dev/full, reader gone), io.Pipe with a reader that stops at k"},
		assumptions:            []string{"the simulated writer is contract-abiding (it never returns n < len(p) with a nil error) except in shape silent, where the Write that crosses k is short without an error and the error comes with the next call", "String() of an identically built twin is the reference text; a module whose String() panics or changes between two prints is skipped and counted (that is C14's subject)"},
		exhaustiveWhenThorough: true,
		plain:                  always,
		search: func(s *propSpec, b *build, a *agg) {
			fanOut(a, b.plain, false, baseArgs(s, b), 0, numWorkers(), 1)
		},
	}
}

func init() {
	specs["C13"] = &propSpec{
		id:    "C13",
		level: "exploration",
		rule: "one evaluation = one simulated run: 2-4 tasks, in one run of eight a crowd of 8-16 (real goroutines released one at a time by the seeded scheduler at instrumented statements, lock/unlock edges, channel operations) print the same module/function/block (never-printed start) or any mix of receivers (already-printed start) of a parsed corpus module or a generated constructed module (a third of those with instructions built as struct literals, Typ unset); goroutines, channels, selects, wait groups, condition variables, pools, sleeps and GOMAXPROCS queries of the code under test itself are run by the same scheduler; " +
			"one printer in a sixth of the runs writes into a writer that stalls until the other printers are done; " +
			"oracle: no Go race-detector report between two tasks, every returned text equals the sequential text of the same call on an identically built twin, no panic, no deadlock, step cap not reached, and after the run the module and the twin, extended the same way and printed sequentially, still agree. " +
			"distinct_nontrivial counts distinct (module, start state, hash of the sequence of (from task, to task, statement site) context switches) among runs with at least one context switch",
		simulated:   []string{"goroutine scheduling of the caller tasks and of goroutines the code under test starts (statement granularity, seeded)", "Lock/Unlock of Module.mu and Func.mu (simulated blocking over the real TryLock/Unlock); RWMutex, WaitGroup, Once, Cond models", "channels, select, close, range over channel (rendezvous protocol over the real channel), time.Sleep (simulated time), runtime.Gosched", "runtime.GOMAXPROCS(0)/NumCPU() (tape value 1..64)", "sync.Pool (deterministic LIFO with simulated GC drops); sync.Pool.Put of uninstrumented code in race builds (always drops; removes unseeded randomness and masking happens-before edges)", "map iteration order, and whether keys created or re-created during a range are produced"},
		assumptions: []string{"a context switch cannot split a single statement; the race detector compensates for data races (it needs both accesses to happen, not to collide), text comparison does not", "from a never-printed state all tasks print the same receiver, as the property promises; mixed receivers only from the already-printed state", "sampling: a clean batch is evidence, not proof"},
		procs:       1,
		race:        always,
		plain:       never,
		shrinkTime:  120 * time.Second,
		search: func(s *propSpec, b *build, a *agg) {
			runs := int64(3200)
			if tier == "thorough" {
				runs = 500000
			}
			if *flagRuns > 0 {
				runs = *flagRuns
			}
			// Sequential prints of every module source in a process of their own.
			raw, herr := makeRefRaw(b.race, true, b, s)
			if herr != "" {
				a.harness = append(a.harness, herr)
				return
			}
			refPath := filepath.Join(scratch, "ref.json")
			os.WriteFile(refPath, raw, 0o644)
			maxRuns := "40"
			if tier == "thorough" {
				maxRuns = "1500"
			}
			args := append(baseArgs(s, b), "-ref", refPath, "-maxruns", maxRuns)
			fanOut(a, b.race, true, args, runs, numWorkers(), s.procs)
		},
	}
}

func init() {
	specs["C14"] = &propSpec{
		id:    "C14",
		level: "exploration",
		rule: "one evaluation = one history: a generated construction/editing program over the public ir API (append globals, functions, blocks, all 54 kinds of instructions — through the package-level constructors, the Block.New* methods or as struct literals; set and replace all 12 kinds of terminators; name, rename and un-name values; insert and remove instructions; replace operands, incoming values, callees, aliasees; edit types, module asm, attribute groups, explicit metadata IDs) run as a builder task, interleaved at step boundaries by the seeded scheduler with an observer task (String, WriteTo, LLString of module/function/block/instruction/terminator/global, Type, Ident, String, Operands, Succs; also print attempts on IR that cannot be printed at that moment — a block without terminator, two metadata definitions with one ID — whose panic is recovered); a tenth of the histories run under seeded map-iteration orders; a second phase runs histories as the first activity of a fresh process against the steps alone in another fresh process; " +
			"oracle: the final String() is byte-identical to the final String() of the same program run with no observer, each double print is identical, nothing panics. " +
			"distinct_nontrivial counts distinct histories (hash of the interleaved sequence of applied steps and applied observer calls) with at least one applied observer call and one context switch",
		simulated:   []string{"interleaving of the builder task and the observer task (step granularity, seeded)", "map iteration order of the printer (a tenth of the histories)", "process identity (cross-process phase: history and reference each in a fresh process)"},
		assumptions: []string{"steps are atomic: observation during a mutation is C13's subject", "a print observer that is expected to succeed is only offered a receiver all of whose blocks have terminators; operands are values of the same function; removed instructions have no users", "metadata definitions are appended and (with explicit IDs only) renumbered, never reordered or removed: IDs that a print has assigned to unnumbered definitions are kept by design (the property lists globals, functions, blocks, instructions, terminators, names)", "sampling: a clean batch is evidence, not proof"},
		procs:       1,
		plain:       always,
		shrinkTime:  90 * time.Second,
		search: func(s *propSpec, b *build, a *agg) {
			runs := int64(800000)
			if tier == "thorough" {
				runs = 30000000
			}
			if *flagRuns > 0 {
				runs = *flagRuns
			}
			fanOut(a, b.plain, false, baseArgs(s, b), runs, numWorkers(), s.procs)
			if *flagMode == "" && len(a.fails) == 0 {
				// Histories that are the first thing their process does, compared with
				// the steps alone run in another fresh process (what the library keeps
				// per process is invisible to a reference computed in the same process).
				xruns := int64(1600)
				if tier == "thorough" {
					xruns = 60000
				}
				if *flagRuns > 0 && *flagRuns < xruns {
					xruns = *flagRuns
				}
				fanOut(a, b.plain, false, append(baseArgs(s, b), "-mode", "xproc"), xruns, numWorkers(), s.procs)
			}
		},
	}
}

func init() {
	specs["C12"] = &propSpec{
		id:    "C12",
		level: "exploration",
		rule: "one evaluation = one simulated run: a corpus text (accepted or rejected) parsed through a tape-chosen entry point (ParseString, ParseBytes with the buffer overwritten afterwards, Parse over a simulated chunking/failing reader, ParseFile of a fresh file, of a pipe through /proc/self/fd, of a path that was parsed a moment ago and now holds other bytes of the same size and mtime, Parse over a seekable reader positioned behind a prefix, and Parse / ParseFile of the text preceded by 64 MiB (thorough: 1 to 256 MiB) of comment lines) with every map-range visit of the translator and printer iterated in a tape-chosen order, the clock simulated, after tape-chosen prior activity (other parses and prints, an earlier module of the same text scribbled over, heap perturbation), sequentially (plain build) or as 2-4 concurrent parse tasks under the seeded scheduler (race build; worker processes recycled every 4 runs, 40 in thorough, the first run of a process parsing one text on all tasks), followed by a canary parse; " +
			"oracle: accepted <=> accepted in the reference, String() byte-identical and structural digest (pointer-numbered reflection walk fixing field contents and sharing) identical to the reference computed in another process with canonical order, failing reader gives (nil, err), no race report between parse tasks, no package-level shared object modified, and no object (package-level singletons excepted) shared between the returned module and the modules earlier or concurrent parses of the run returned. " +
			"distinct_nontrivial counts distinct (targets, entry points, hash of all applied map orders, hash of all context switches) among runs with a non-canonical map order or a context switch",
		simulated:   []string{"Go map iteration order at every map range of asm/, ir/, internal/ (canonical order + tape-chosen permutation; keys created or re-created during a range produced or skipped by the tape)", "goroutine scheduling of concurrent parse tasks and of goroutines the translator starts (channels, select, wait groups, pools modelled)", "the file behind ParseFile (regular file, pipe, stat-identical overwrite)", "wall clock (time.Now/time.Since)", "io.Reader argument of asm.Parse (chunking, zero reads, EOF shape, failure offset)", "prior activity and heap state of the process"},
		assumptions: []string{"which error message a rejected input produces is not compared (with several errors the first one reached legitimately depends on translation order); only accepted/rejected is", "llir/ll (lexer, parser, AST) runs uninstrumented: it has no maps, goroutines or package-level mutable state", "sampling: a clean batch is evidence, not proof"},
		procs:       1,
		race:        always,
		plain:       always,
		shrinkTime:  120 * time.Second,
		search:      c12SearchDriver,
	}
}

func init() {
	specs["C05"] = &propSpec{
		id:    "C05",
		level: "fault_enumeration",
		rule: "one evaluation = one asm.ParseString of a corpus module with a single naming fault, under one translation order; the faults are enumerated from llir/ll's own AST of the valid module: every reference site (global in initialisers, operands, callees, aliasees; local operand; named type anywhere; label in br/switch/indirectbr/invoke/callbr targets; phi predecessor; comdat use; metadata id in attachments, tuples, DI fields and named metadata; blockaddress function and block; uselistorder_bb function and block) redirected to an undefined identifier of the same sigil (a fresh name; a name defined only in another namespace; the first unused unnamed ID; near-miss spellings of the original name; the NAME -0; numbers beyond 63 and 64 bits), and every named definition (type, comdat, global, alias/ifunc, function, metadata id, local value, label, parameter) duplicated; each faulted text is parsed under the canonical order and k seeded map-iteration orders; " +
			"oracle: (nil module, non-nil error) and no panic. distinct_nontrivial counts distinct (module, site kind, offset) faults whose text is still accepted by the grammar",
		simulated:              []string{"the stored input (one naming fault per run)", "Go map iteration order of the translator's indices (which lookup meets the dangling name first)"},
		assumptions:            []string{"#N attribute-group uses are not faulted (documented exception); opaque type definitions, unnamed @N/%N definitions, named-metadata and attribute-group definitions are not duplicated (legitimately mergeable or a numbering matter)", "a faulted text that LLVM's own llvm-as also accepts is attributed to the injector, counted and never reported; llvm-as is consulted only for would-be 'accepted' violations", "error text is not inspected"},
		exhaustiveWhenThorough: true,
		procs:                  1,
		plain:                  always,
		shrinkTime:             45 * time.Second,
		search: func(s *propSpec, b *build, a *agg) {
			fanOut(a, b.plain, false, baseArgs(s, b), 0, numWorkers(), 1)
		},
	}
}

// selfTest: determinism of the simulator itself (see selftest.go for the
// properties that have a scheduler); the default is a no-op success.
func selfTest(spec *propSpec, b *build) int {
	a := newAgg()
	if spec.id == "C12" {
		if msg := ensureRef("C12", b); msg != "" {
			fmt.Println("selftest:", msg)
			return 2
		}
	}
	if msg := runSelfTest(spec, b, a); msg != "" {
		fmt.Println("selftest FAILED:", msg)
		return 2
	}
	fmt.Println("selftest ok:", a.counters)
	return 0
}

// libSpawnsGoroutines reports whether the instrumenter turned go statements of
// the code under test into simulator tasks.
func libSpawnsGoroutines(b *build) bool {
	// (also when the code only has channel operations, sleeps or selects: they can
	// block, and a call that blocks outside the scheduler would hang the worker
	// instead of being reported as a deadlock)
	n, _ := b.instr["go_stmts"].(float64)
	c, _ := b.instr["chan_ops"].(float64)
	sl, _ := b.instr["sleeps"].(float64)
	return (n > 0 || c > 0 || sl > 0) && b.degraded == ""
}
