// Command instrument splices the simulator's seams into a scratch copy of
// llir/llvm. It never touches /repo: the driver copies the tree first.
//
// Rewrites (each can be switched off; everything stays on its original line so
// that file:line in panics and race reports remain those of /repo):
//
//	yields  __simrt.Y(N); before every statement of every statement list
//	maps    for k, v := range M {   ->   for _, k := range __simrt.Keys(N, M) { v, ok := M[k]; if !ok { continue };
//	locks   x.Lock() / x.Unlock() on sync.Mutex / sync.RWMutex  ->  __simrt.Lock(&x) ...
//	clock   time.Now / time.Since  ->  __simrt.Now / __simrt.Since
//	go      go func() {...}()  ->  __simrt.Go(func() {...})
//
// It prints a JSON summary (counts, uncontrolled map ranges, unmodelled
// synchronisation) and writes the site table.
package main

import (
	"encoding/json"
	"flag"
	"fmt"
	"go/ast"
	"go/importer"
	"go/parser"
	"go/token"
	"go/types"
	"os"
	"path/filepath"
	"regexp"
	"sort"
	"strings"
)

type edit struct {
	start, end int
	text       string
}

type site struct {
	ID   int    `json:"id"`
	File string `json:"file"`
	Line int    `json:"line"`
	Func string `json:"func"`
	Kind string `json:"kind"` // stmt | maprange
	Expr string `json:"expr,omitempty"`
}

type summary struct {
	Packages        int      `json:"packages"`
	Files           int      `json:"files"`
	Yields          int      `json:"yields"`
	MapRanges       int      `json:"map_ranges"`
	Locks           int      `json:"locks"`
	Pools           int      `json:"pool_ops"`
	ClockReads      int      `json:"clock_reads"`
	GoStmts         int      `json:"go_stmts"`
	UncontrolledMap []string `json:"uncontrolled_map_ranges"`
	Unmodelled      []string `json:"unmodelled_sync"`
	TypeErrors      []string `json:"type_errors"`
}

var (
	flagDir    = flag.String("dir", "", "root of the scratch copy of llir/llvm")
	flagPkgs   = flag.String("pkgs", "asm,ir,internal", "comma separated top-level directories to instrument")
	flagYields = flag.Bool("yields", true, "insert statement yields")
	flagMaps   = flag.Bool("maps", true, "rewrite map ranges")
	flagLocks  = flag.Bool("locks", true, "rewrite mutex operations")
	flagClock  = flag.Bool("clock", true, "rewrite clock reads")
	flagGo     = flag.Bool("go", true, "rewrite go statements")
	flagSites  = flag.String("sites", "", "write the site table to this file")
	flagRT     = flag.String("rt", "zzsim/simrt", "module-relative import path of simrt")
)

var (
	sum      summary
	sites    []site
	nextSite int
	modPath  string
)

func main() {
	flag.Parse()
	if *flagDir == "" {
		fatal("missing -dir")
	}
	root, err := filepath.Abs(*flagDir)
	if err != nil {
		fatal("%v", err)
	}
	if strings.HasPrefix(root, "/repo") || strings.HasPrefix(root, "/verif") {
		fatal("refusing to instrument %s: work on a scratch copy", root)
	}
	if err := os.Chdir(root); err != nil {
		fatal("%v", err)
	}
	modPath = fixGoMod(filepath.Join(root, "go.mod"))
	var dirs []string
	for _, top := range strings.Split(*flagPkgs, ",") {
		top = strings.TrimSpace(top)
		if top == "" {
			continue
		}
		filepath.Walk(filepath.Join(root, top), func(p string, fi os.FileInfo, err error) error {
			if err != nil {
				return nil
			}
			if fi.IsDir() {
				b := filepath.Base(p)
				if b == "testdata" || strings.HasPrefix(b, ".") || strings.HasPrefix(b, "_") {
					return filepath.SkipDir
				}
				dirs = append(dirs, p)
			}
			return nil
		})
	}
	sort.Strings(dirs)
	fset := token.NewFileSet()
	imp := importer.ForCompiler(fset, "source", nil)
	for _, d := range dirs {
		instrumentDir(fset, imp, root, d)
	}
	if *flagSites != "" {
		b, _ := json.Marshal(sites)
		if err := os.WriteFile(*flagSites, b, 0o644); err != nil {
			fatal("%v", err)
		}
	}
	sort.Strings(sum.UncontrolledMap)
	sort.Strings(sum.Unmodelled)
	b, _ := json.Marshal(sum)
	fmt.Println(string(b))
}

func fatal(f string, a ...interface{}) {
	fmt.Fprintf(os.Stderr, "instrument: "+f+"\n", a...)
	os.Exit(2)
}

var goDirective = regexp.MustCompile(`(?m)^go\s+(\d+)\.(\d+)(\.\d+)?\s*$`)
var modDirective = regexp.MustCompile(`(?m)^module\s+(\S+)\s*$`)

// fixGoMod raises the language version of the copy to 1.21 if it is lower
// (the spliced code calls a generic function) and returns the module path.
func fixGoMod(path string) string {
	b, err := os.ReadFile(path)
	if err != nil {
		fatal("%v", err)
	}
	s := string(b)
	m := modDirective.FindStringSubmatch(s)
	if m == nil {
		fatal("no module directive in %s", path)
	}
	g := goDirective.FindStringSubmatch(s)
	if g == nil {
		s += "\ngo 1.21\n"
	} else {
		var maj, min int
		fmt.Sscanf(g[1], "%d", &maj)
		fmt.Sscanf(g[2], "%d", &min)
		if maj == 1 && min < 21 {
			s = goDirective.ReplaceAllString(s, "go 1.21")
		}
	}
	if err := os.WriteFile(path, []byte(s), 0o644); err != nil {
		fatal("%v", err)
	}
	return m[1]
}

func instrumentDir(fset *token.FileSet, imp types.Importer, root, dir string) {
	ents, err := os.ReadDir(dir)
	if err != nil {
		return
	}
	var names []string
	for _, e := range ents {
		n := e.Name()
		if e.IsDir() || !strings.HasSuffix(n, ".go") || strings.HasSuffix(n, "_test.go") {
			continue
		}
		names = append(names, n)
	}
	if len(names) == 0 {
		return
	}
	byPkg := map[string][]*ast.File{}
	src := map[*ast.File][]byte{}
	fname := map[*ast.File]string{}
	for _, n := range names {
		p := filepath.Join(dir, n)
		b, err := os.ReadFile(p)
		if err != nil {
			fatal("%v", err)
		}
		if ignored(b) {
			continue
		}
		f, err := parser.ParseFile(fset, p, b, parser.ParseComments)
		if err != nil {
			sum.TypeErrors = append(sum.TypeErrors, err.Error())
			continue
		}
		byPkg[f.Name.Name] = append(byPkg[f.Name.Name], f)
		src[f] = b
		fname[f] = p
	}
	rel, _ := filepath.Rel(root, dir)
	importPath := modPath + "/" + filepath.ToSlash(rel)
	for _, files := range byPkg {
		sum.Packages++
		info := &types.Info{
			Types:      map[ast.Expr]types.TypeAndValue{},
			Uses:       map[*ast.Ident]types.Object{},
			Defs:       map[*ast.Ident]types.Object{},
			Selections: map[*ast.SelectorExpr]*types.Selection{},
		}
		conf := types.Config{
			Importer: imp,
			Error: func(err error) {
				if len(sum.TypeErrors) < 20 {
					sum.TypeErrors = append(sum.TypeErrors, err.Error())
				}
			},
		}
		conf.Check(importPath, fset, files, info)
		for _, f := range files {
			rf, _ := filepath.Rel(root, fname[f])
			out, changed := instrumentFile(fset, info, f, src[f], rf)
			if changed {
				if err := os.WriteFile(fname[f], out, 0o644); err != nil {
					fatal("%v", err)
				}
				sum.Files++
			}
		}
	}
}

// ignored reports whether the file opts out of the build (// +build ignore).
func ignored(b []byte) bool {
	head := b
	if len(head) > 2048 {
		head = head[:2048]
	}
	i := strings.Index(string(head), "package ")
	if i >= 0 {
		head = head[:i]
	}
	s := string(head)
	return strings.Contains(s, "+build ignore") || strings.Contains(s, "go:build ignore")
}

type fileCtx struct {
	fset  *token.FileSet
	info  *types.Info
	src   []byte
	rel   string
	edits []edit
	base  int
	fn    string
	// timeIdent is the local name of package time if a clock read was rewritten.
	timeIdent string
}

func (c *fileCtx) off(p token.Pos) int { return c.fset.Position(p).Offset }

func (c *fileCtx) text(n ast.Node) string { return string(c.src[c.off(n.Pos()):c.off(n.End())]) }

func instrumentFile(fset *token.FileSet, info *types.Info, f *ast.File, src []byte, rel string) ([]byte, bool) {
	c := &fileCtx{fset: fset, info: info, src: src, rel: rel}
	for _, d := range f.Decls {
		switch d := d.(type) {
		case *ast.FuncDecl:
			c.fn = funcName(d)
			if d.Body != nil {
				c.walk(d.Body)
			}
		case *ast.GenDecl:
			c.fn = "(package scope)"
			c.walk(d)
		}
	}
	if len(c.edits) == 0 {
		return src, false
	}
	// Import of the run-time, on the line of the package clause.
	c.edits = append(c.edits, edit{c.off(f.Name.End()), c.off(f.Name.End()), fmt.Sprintf("; import __simrt %q", modPath+"/"+*flagRT)})
	sort.SliceStable(c.edits, func(i, j int) bool {
		if c.edits[i].start != c.edits[j].start {
			return c.edits[i].start > c.edits[j].start
		}
		return c.edits[i].end > c.edits[j].end
	})
	out := append([]byte(nil), src...)
	for _, e := range c.edits {
		var nb []byte
		nb = append(nb, out[:e.start]...)
		nb = append(nb, e.text...)
		nb = append(nb, out[e.end:]...)
		out = nb
	}
	if c.timeIdent != "" {
		out = append(out, []byte(fmt.Sprintf("\nvar _ = %s.Now\n", c.timeIdent))...)
	}
	return out, true
}

func funcName(d *ast.FuncDecl) string {
	if d.Recv != nil && len(d.Recv.List) > 0 {
		t := d.Recv.List[0].Type
		star := ""
		if s, ok := t.(*ast.StarExpr); ok {
			t = s.X
			star = "*"
		}
		if ix, ok := t.(*ast.IndexExpr); ok {
			t = ix.X
		}
		if id, ok := t.(*ast.Ident); ok {
			return "(" + star + id.Name + ")." + d.Name.Name
		}
	}
	return d.Name.Name
}

func (c *fileCtx) newSite(pos token.Pos, kind, expr string) int {
	id := nextSite
	nextSite++
	p := c.fset.Position(pos)
	sites = append(sites, site{ID: id, File: c.rel, Line: p.Line, Func: c.fn, Kind: kind, Expr: expr})
	return id
}

func (c *fileCtx) walk(root ast.Node) {
	skip := map[*ast.BlockStmt]bool{}
	ast.Inspect(root, func(n ast.Node) bool {
		switch n := n.(type) {
		case *ast.SwitchStmt:
			skip[n.Body] = true
		case *ast.TypeSwitchStmt:
			skip[n.Body] = true
		case *ast.SelectStmt:
			skip[n.Body] = true
		case *ast.BlockStmt:
			if !skip[n] {
				c.yields(n.List)
			}
		case *ast.CaseClause:
			c.yields(n.Body)
		case *ast.CommClause:
			c.yields(n.Body)
			c.unmodelled(n.Pos(), "select")
		case *ast.RangeStmt:
			c.rangeStmt(n)
		case *ast.CallExpr:
			c.call(n)
		case *ast.GoStmt:
			c.goStmt(n)
		case *ast.SendStmt:
			c.unmodelled(n.Pos(), "channel send")
		case *ast.UnaryExpr:
			if n.Op == token.ARROW {
				c.unmodelled(n.Pos(), "channel receive")
			}
		}
		return true
	})
}

func (c *fileCtx) unmodelled(pos token.Pos, what string) {
	p := c.fset.Position(pos)
	sum.Unmodelled = append(sum.Unmodelled, fmt.Sprintf("%s:%d %s", c.rel, p.Line, what))
}

func (c *fileCtx) yields(list []ast.Stmt) {
	if !*flagYields {
		return
	}
	for _, s := range list {
		if _, ok := s.(*ast.EmptyStmt); ok {
			continue
		}
		id := c.newSite(s.Pos(), "stmt", "")
		o := c.off(s.Pos())
		c.edits = append(c.edits, edit{o, o, fmt.Sprintf("__simrt.Y(%d);", id)})
		sum.Yields++
	}
}

// pure reports whether evaluating e twice is harmless: an identifier or a chain
// of field selections.
func pure(e ast.Expr) bool {
	switch e := e.(type) {
	case *ast.Ident:
		return true
	case *ast.SelectorExpr:
		return pure(e.X)
	case *ast.ParenExpr:
		return pure(e.X)
	case *ast.StarExpr:
		return pure(e.X)
	}
	return false
}

func sortableKey(t types.Type) bool {
	switch u := t.Underlying().(type) {
	case *types.Basic:
		return u.Info()&(types.IsInteger|types.IsString|types.IsBoolean) != 0
	case *types.Struct:
		for i := 0; i < u.NumFields(); i++ {
			if !sortableKey(u.Field(i).Type()) {
				return false
			}
		}
		return true
	case *types.Array:
		return sortableKey(u.Elem())
	}
	return false
}

func isBlank(e ast.Expr) bool {
	if e == nil {
		return true
	}
	id, ok := e.(*ast.Ident)
	return ok && id.Name == "_"
}

func (c *fileCtx) rangeStmt(n *ast.RangeStmt) {
	tv, ok := c.info.Types[n.X]
	if !ok || tv.Type == nil {
		return
	}
	switch u := tv.Type.Underlying().(type) {
	case *types.Chan:
		c.unmodelled(n.Pos(), "range over channel")
		return
	case *types.Map:
		p := c.fset.Position(n.Pos())
		where := fmt.Sprintf("%s:%d range %s", c.rel, p.Line, c.text(n.X))
		if !*flagMaps {
			return
		}
		if !sortableKey(u.Key()) {
			sum.UncontrolledMap = append(sum.UncontrolledMap, where+" (key type "+u.Key().String()+" has no canonical order)")
			return
		}
		if !pure(n.X) {
			sum.UncontrolledMap = append(sum.UncontrolledMap, where+" (ranged expression is not a plain field or variable)")
			return
		}
		x := c.text(n.X)
		id := c.newSite(n.Pos(), "maprange", x)
		var b strings.Builder
		keys := fmt.Sprintf("__simrt.Keys(%d, %s)", id, x)
		kb, vb := isBlank(n.Key), isBlank(n.Value)
		switch {
		case n.Key == nil && n.Value == nil:
			fmt.Fprintf(&b, "for range %s {", keys)
		case n.Tok == token.DEFINE:
			k := fmt.Sprintf("__k%d", id)
			if !kb {
				k = c.text(n.Key)
			}
			fmt.Fprintf(&b, "for _, %s := range %s { ", k, keys)
			if vb {
				fmt.Fprintf(&b, "if _, __ok%d := (%s)[%s]; !__ok%d { continue };", id, x, k, id)
			} else {
				fmt.Fprintf(&b, "%s, __ok%d := (%s)[%s]; if !__ok%d { continue };", c.text(n.Value), id, x, k, id)
			}
		default: // token.ASSIGN
			fmt.Fprintf(&b, "for _, __k%d := range %s { __v%d, __ok%d := (%s)[__k%d]; if !__ok%d { continue }; _ = __v%d;", id, keys, id, id, x, id, id, id)
			if !kb {
				fmt.Fprintf(&b, " %s = __k%d;", c.text(n.Key), id)
			}
			if !vb {
				fmt.Fprintf(&b, " %s = __v%d;", c.text(n.Value), id)
			}
		}
		c.edits = append(c.edits, edit{c.off(n.For), c.off(n.Body.Lbrace) + 1, b.String()})
		sum.MapRanges++
	}
}

// mutexPath returns the expression text denoting the sync.Mutex / sync.RWMutex
// value on which method sel is called, and whether it is already a pointer.
func (c *fileCtx) mutexPath(sel *ast.SelectorExpr) (expr string, isPtr bool, kind string, ok bool) {
	s := c.info.Selections[sel]
	if s == nil || s.Kind() != types.MethodVal {
		return
	}
	fn, _ := s.Obj().(*types.Func)
	if fn == nil || fn.Pkg() == nil || fn.Pkg().Path() != "sync" {
		return
	}
	recv := fn.Type().(*types.Signature).Recv()
	if recv == nil {
		return
	}
	rt := recv.Type()
	if p, isp := rt.(*types.Pointer); isp {
		rt = p.Elem()
	}
	named, _ := rt.(*types.Named)
	if named == nil {
		return
	}
	kind = named.Obj().Name()
	if kind != "Mutex" && kind != "RWMutex" && kind != "Pool" && kind != "WaitGroup" && kind != "Once" && kind != "Cond" {
		if kind == "Map" {
			c.unmodelled(sel.Pos(), "sync."+kind+"."+sel.Sel.Name)
		}
		return "", false, "", false
	}
	// Walk the implicit embedded-field path.
	expr = c.text(sel.X)
	t := c.info.Types[sel.X].Type
	idx := s.Index()
	for _, fi := range idx[:len(idx)-1] {
		if p, isp := t.Underlying().(*types.Pointer); isp {
			t = p.Elem()
		}
		st, _ := t.Underlying().(*types.Struct)
		if st == nil {
			return "", false, "", false
		}
		f := st.Field(fi)
		expr = "(" + expr + ")." + f.Name()
		t = f.Type()
	}
	_, isPtr = t.Underlying().(*types.Pointer)
	if isPtr {
		return expr, true, kind, true
	}
	if _, isIface := t.Underlying().(*types.Interface); isIface {
		return "", false, "", false
	}
	return expr, false, kind, true
}

func (c *fileCtx) call(n *ast.CallExpr) {
	sel, ok := n.Fun.(*ast.SelectorExpr)
	if !ok {
		return
	}
	// Clock reads.
	if id, ok := sel.X.(*ast.Ident); ok {
		if pn, ok := c.info.Uses[id].(*types.PkgName); ok && pn.Imported().Path() == "time" {
			if sel.Sel.Name == "Now" || sel.Sel.Name == "Since" {
				if *flagClock {
					c.edits = append(c.edits, edit{c.off(sel.Pos()), c.off(sel.End()), "__simrt." + sel.Sel.Name})
					c.timeIdent = id.Name
					sum.ClockReads++
				}
			} else if sel.Sel.Name == "Sleep" || sel.Sel.Name == "After" || sel.Sel.Name == "NewTimer" || sel.Sel.Name == "Tick" || sel.Sel.Name == "AfterFunc" || sel.Sel.Name == "NewTicker" {
				c.unmodelled(n.Pos(), "time."+sel.Sel.Name)
			}
			return
		}
	}
	// Mutex operations.
	switch sel.Sel.Name {
	case "Lock", "Unlock", "RLock", "RUnlock", "TryLock", "TryRLock", "Wait", "Done", "Add", "Do", "Signal", "Broadcast", "Load", "Store", "Range", "Get", "Put":
	default:
		return
	}
	expr, isPtr, kind, ok := c.mutexPath(sel)
	if !ok || !*flagLocks {
		return
	}
	var fn string
	switch kind + "." + sel.Sel.Name {
	case "Mutex.Lock":
		fn = "Lock"
	case "Mutex.Unlock":
		fn = "Unlock"
	case "RWMutex.Lock":
		fn = "WLock"
	case "RWMutex.Unlock":
		fn = "WUnlock"
	case "RWMutex.RLock":
		fn = "RLock"
	case "RWMutex.RUnlock":
		fn = "RUnlock"
	case "Pool.Get":
		fn = "PoolGet"
	case "Pool.Put":
		fn = "PoolPut"
	case "WaitGroup.Add":
		fn = "WGAdd"
	case "WaitGroup.Done":
		fn = "WGDone"
	case "WaitGroup.Wait":
		fn = "WGWait"
	case "Once.Do":
		fn = "OnceDo"
	case "Cond.Wait":
		fn = "CondWait"
	case "Cond.Signal":
		fn = "CondSignal"
	case "Cond.Broadcast":
		fn = "CondBroadcast"
	default:
		return
	}
	arg := "&" + expr
	if isPtr {
		arg = expr
	}
	if fn == "PoolPut" || fn == "WGAdd" || fn == "OnceDo" {
		if len(n.Args) != 1 {
			return
		}
		// Replace only the callee part: x.Put(  ->  __simrt.PoolPut(&x,
		c.edits = append(c.edits, edit{c.off(n.Pos()), c.off(n.Lparen) + 1, fmt.Sprintf("__simrt.%s(%s, ", fn, arg)})
		if fn == "PoolPut" {
			sum.Pools++
		} else {
			sum.Locks++
		}
		return
	}
	if len(n.Args) != 0 {
		return
	}
	c.edits = append(c.edits, edit{c.off(n.Pos()), c.off(n.End()), fmt.Sprintf("__simrt.%s(%s)", fn, arg)})
	if fn == "PoolGet" {
		sum.Pools++
		return
	}
	sum.Locks++
}

func (c *fileCtx) goStmt(n *ast.GoStmt) {
	if fl, ok := n.Call.Fun.(*ast.FuncLit); ok && len(n.Call.Args) == 0 && *flagGo {
		// go func() {...}()  ->  __simrt.Go(func() {...})
		c.edits = append(c.edits, edit{c.off(n.Go), c.off(fl.Pos()), "__simrt.Go("})
		c.edits = append(c.edits, edit{c.off(fl.End()), c.off(n.End()), ")"})
		sum.GoStmts++
		return
	}
	if !*flagGo {
		return
	}
	// go f(a, b)  ->  { __gf := f; __ga0 := a; __ga1 := b; __simrt.Go(func() { __gf(__ga0, __ga1) }) }
	// (function value and arguments are evaluated at the go statement, as Go
	// does). Done with disjoint splices around the operand texts, so rewrites
	// inside the operands (e.g. yields in a function literal) stay intact.
	id := nextSite
	nextSite++
	call := n.Call
	c.edits = append(c.edits, edit{c.off(n.Go), c.off(call.Fun.Pos()), fmt.Sprintf("{ __gf%d := ", id)})
	var args []string
	prevEnd := call.Fun.End()
	for i, a := range call.Args {
		c.edits = append(c.edits, edit{c.off(prevEnd), c.off(a.Pos()), fmt.Sprintf("; __ga%d_%d := ", id, i)})
		args = append(args, fmt.Sprintf("__ga%d_%d", id, i))
		prevEnd = a.End()
	}
	ell := ""
	if call.Ellipsis.IsValid() {
		ell = "..."
	}
	c.edits = append(c.edits, edit{c.off(prevEnd), c.off(n.End()), fmt.Sprintf("; __simrt.Go(func() { __gf%d(%s%s) }) }", id, strings.Join(args, ", "), ell)})
	sum.GoStmts++
}
