// Command instrument splices the simulator's seams into a scratch copy of
// llir/llvm. It never touches /repo: the driver copies the tree first.
//
// Rewrites (each can be switched off; everything stays on its original line so
// that file:line in panics and race reports remain those of /repo):
//
//	yields  __simrt.Y(N); before every statement of every statement list
//	maps    for k, v := range M {   ->   for _, k := range __simrt.Keys(N, M) { v, ok := M[k]; if !ok { continue };
//	locks   x.Lock() / x.Unlock() on sync.Mutex / sync.RWMutex  ->  __simrt.Lock(&x) ...
//	clock   time.Now / time.Since  ->  __simrt.Now / __simrt.Since
//	go      go func() {...}()  ->  __simrt.Go(func() {...})
//
// It prints a JSON summary (counts, uncontrolled map ranges, unmodelled
// synchronisation) and writes the site table.
package main

import (
	"encoding/json"
	"flag"
	"fmt"
	"go/ast"
	"go/importer"
	"go/parser"
	"go/token"
	"go/types"
	"os"
	"path/filepath"
	"regexp"
	"sort"
	"strings"
)

type edit struct {
	start, end int
	text       string
}

type site struct {
	ID   int    `json:"id"`
	File string `json:"file"`
	Line int    `json:"line"`
	Func string `json:"func"`
	Kind string `json:"kind"` // stmt | maprange
	Expr string `json:"expr,omitempty"`
}

type summary struct {
	Packages        int      `json:"packages"`
	Files           int      `json:"files"`
	Yields          int      `json:"yields"`
	RMWSplits       int      `json:"rmw_splits"`
	MapRanges       int      `json:"map_ranges"`
	MapDeletes      int      `json:"map_deletes"`
	Locks           int      `json:"locks"`
	Pools           int      `json:"pool_ops"`
	ClockReads      int      `json:"clock_reads"`
	GoStmts         int      `json:"go_stmts"`
	ChanOps         int      `json:"chan_ops"`
	Selects         int      `json:"selects"`
	Sleeps          int      `json:"sleeps"`
	ProcQueries     int      `json:"gomaxprocs_queries"`
	SyncMapRanges   int      `json:"syncmap_ranges"`
	UncontrolledMap []string `json:"uncontrolled_map_ranges"`
	Unmodelled      []string `json:"unmodelled_sync"`
	TypeErrors      []string `json:"type_errors"`
}

var (
	flagDir    = flag.String("dir", "", "root of the scratch copy of llir/llvm")
	flagPkgs   = flag.String("pkgs", "asm,ir,internal", "comma separated top-level directories to instrument")
	flagYields = flag.Bool("yields", true, "insert statement yields")
	flagRMW    = flag.Bool("rmw", true, "split read-modify-write statements on shared locations (x.f = append(x.f, ...), x.n++, x.n += d) into read, yield, write")
	flagMaps   = flag.Bool("maps", true, "rewrite map ranges")
	flagLocks  = flag.Bool("locks", true, "rewrite mutex operations")
	flagClock  = flag.Bool("clock", true, "rewrite clock reads")
	flagGo     = flag.Bool("go", true, "rewrite go statements")
	flagChans  = flag.Bool("chans", true, "rewrite channel operations, select, time.Sleep, runtime.Gosched and sync.Map.Range")
	flagSites  = flag.String("sites", "", "write the site table to this file")
	flagRT     = flag.String("rt", "zzsim/simrt", "module-relative import path of simrt")
)

var (
	sum      summary
	sites    []site
	nextSite int
	modPath  string
)

func main() {
	flag.Parse()
	if *flagDir == "" {
		fatal("missing -dir")
	}
	root, err := filepath.Abs(*flagDir)
	if err != nil {
		fatal("%v", err)
	}
	if strings.HasPrefix(root, "/repo") || strings.HasPrefix(root, "/verif") {
		fatal("refusing to instrument %s: work on a scratch copy", root)
	}
	if err := os.Chdir(root); err != nil {
		fatal("%v", err)
	}
	modPath = fixGoMod(filepath.Join(root, "go.mod"))
	var dirs []string
	for _, top := range strings.Split(*flagPkgs, ",") {
		top = strings.TrimSpace(top)
		if top == "" {
			continue
		}
		filepath.Walk(filepath.Join(root, top), func(p string, fi os.FileInfo, err error) error {
			if err != nil {
				return nil
			}
			if fi.IsDir() {
				b := filepath.Base(p)
				if b == "testdata" || strings.HasPrefix(b, ".") || strings.HasPrefix(b, "_") {
					return filepath.SkipDir
				}
				dirs = append(dirs, p)
			}
			return nil
		})
	}
	sort.Strings(dirs)
	fset := token.NewFileSet()
	imp := importer.ForCompiler(fset, "source", nil)
	for _, d := range dirs {
		instrumentDir(fset, imp, root, d)
	}
	if *flagSites != "" {
		b, _ := json.Marshal(sites)
		if err := os.WriteFile(*flagSites, b, 0o644); err != nil {
			fatal("%v", err)
		}
	}
	sort.Strings(sum.UncontrolledMap)
	sort.Strings(sum.Unmodelled)
	b, _ := json.Marshal(sum)
	fmt.Println(string(b))
}

func fatal(f string, a ...interface{}) {
	fmt.Fprintf(os.Stderr, "instrument: "+f+"\n", a...)
	os.Exit(2)
}

var goDirective = regexp.MustCompile(`(?m)^go\s+(\d+)\.(\d+)(\.\d+)?\s*$`)
var modDirective = regexp.MustCompile(`(?m)^module\s+(\S+)\s*$`)

// fixGoMod raises the language version of the copy to 1.21 if it is lower
// (the spliced code calls a generic function) and returns the module path.
func fixGoMod(path string) string {
	b, err := os.ReadFile(path)
	if err != nil {
		fatal("%v", err)
	}
	s := string(b)
	m := modDirective.FindStringSubmatch(s)
	if m == nil {
		fatal("no module directive in %s", path)
	}
	g := goDirective.FindStringSubmatch(s)
	if g == nil {
		s += "\ngo 1.21\n"
	} else {
		var maj, min int
		fmt.Sscanf(g[1], "%d", &maj)
		fmt.Sscanf(g[2], "%d", &min)
		if maj == 1 && min < 21 {
			s = goDirective.ReplaceAllString(s, "go 1.21")
		}
	}
	if err := os.WriteFile(path, []byte(s), 0o644); err != nil {
		fatal("%v", err)
	}
	return m[1]
}

func instrumentDir(fset *token.FileSet, imp types.Importer, root, dir string) {
	ents, err := os.ReadDir(dir)
	if err != nil {
		return
	}
	var names []string
	for _, e := range ents {
		n := e.Name()
		if e.IsDir() || !strings.HasSuffix(n, ".go") || strings.HasSuffix(n, "_test.go") {
			continue
		}
		names = append(names, n)
	}
	if len(names) == 0 {
		return
	}
	byPkg := map[string][]*ast.File{}
	src := map[*ast.File][]byte{}
	fname := map[*ast.File]string{}
	for _, n := range names {
		p := filepath.Join(dir, n)
		b, err := os.ReadFile(p)
		if err != nil {
			fatal("%v", err)
		}
		if ignored(b) {
			continue
		}
		f, err := parser.ParseFile(fset, p, b, parser.ParseComments)
		if err != nil {
			sum.TypeErrors = append(sum.TypeErrors, err.Error())
			continue
		}
		byPkg[f.Name.Name] = append(byPkg[f.Name.Name], f)
		src[f] = b
		fname[f] = p
	}
	rel, _ := filepath.Rel(root, dir)
	importPath := modPath + "/" + filepath.ToSlash(rel)
	for _, files := range byPkg {
		sum.Packages++
		info := &types.Info{
			Types:      map[ast.Expr]types.TypeAndValue{},
			Uses:       map[*ast.Ident]types.Object{},
			Defs:       map[*ast.Ident]types.Object{},
			Selections: map[*ast.SelectorExpr]*types.Selection{},
		}
		conf := types.Config{
			Importer: imp,
			Error: func(err error) {
				if len(sum.TypeErrors) < 20 {
					sum.TypeErrors = append(sum.TypeErrors, err.Error())
				}
			},
		}
		conf.Check(importPath, fset, files, info)
		for _, f := range files {
			rf, _ := filepath.Rel(root, fname[f])
			out, changed := instrumentFile(fset, info, f, src[f], rf)
			if changed {
				if err := os.WriteFile(fname[f], out, 0o644); err != nil {
					fatal("%v", err)
				}
				sum.Files++
			}
		}
	}
}

// ignored reports whether the file opts out of the build (// +build ignore).
func ignored(b []byte) bool {
	head := b
	if len(head) > 2048 {
		head = head[:2048]
	}
	i := strings.Index(string(head), "package ")
	if i >= 0 {
		head = head[:i]
	}
	s := string(head)
	return strings.Contains(s, "+build ignore") || strings.Contains(s, "go:build ignore")
}

type fileCtx struct {
	fset  *token.FileSet
	info  *types.Info
	src   []byte
	rel   string
	edits []edit
	base  int
	fn    string
	// timeIdent is the local name of package time if a clock read was rewritten.
	timeIdent string
	// runtimeIdent is the local name of package runtime if a Gosched was rewritten.
	runtimeIdent string
	// opaque lists source regions replaced by text that contains a raw copy of
	// the original; edits inside them are dropped.
	opaque [][2]int
	// recv2 marks the receive expressions used in two-valued form.
	recv2 map[*ast.UnaryExpr]bool
	// captured: local variables that a function literal uses from an enclosing
	// function (they may be shared with a goroutine).
	captured map[types.Object]bool
}

// findCaptured records the local variables used inside a function literal that
// does not contain their declaration.
func (c *fileCtx) findCaptured(f *ast.File) {
	var lits []*ast.FuncLit
	var visit func(n ast.Node) bool
	visit = func(n ast.Node) bool {
		switch n := n.(type) {
		case *ast.FuncLit:
			lits = append(lits, n)
			ast.Inspect(n.Body, visit)
			lits = lits[:len(lits)-1]
			return false
		case *ast.Ident:
			if len(lits) == 0 {
				return true
			}
			v, ok := c.info.Uses[n].(*types.Var)
			if !ok || v.IsField() || v.Pkg() == nil || v.Parent() == v.Pkg().Scope() {
				return true
			}
			in := lits[len(lits)-1]
			if v.Pos() < in.Pos() || v.Pos() >= in.End() {
				c.captured[v] = true
			}
		}
		return true
	}
	ast.Inspect(f, visit)
}

// sharedLoc reports whether the pure expression e may denote a location that
// other goroutines reach: a field selection or dereference, a package-level
// variable, or a local variable captured by a function literal.
func (c *fileCtx) sharedLoc(e ast.Expr) bool {
	switch e := unparen(e).(type) {
	case *ast.SelectorExpr, *ast.StarExpr:
		return pure(e)
	case *ast.Ident:
		v, ok := c.info.Uses[e].(*types.Var)
		if !ok || v.Pkg() == nil {
			return false
		}
		return v.Parent() == v.Pkg().Scope() || c.captured[v]
	}
	return false
}

// callFree: evaluating e calls nothing, receives nothing and contains no function literal.
func (c *fileCtx) callFree(e ast.Expr) bool {
	ok := true
	ast.Inspect(e, func(n ast.Node) bool {
		switch n := n.(type) {
		case *ast.CallExpr:
			// conversions and len/cap are no calls
			if tv, has := c.info.Types[n.Fun]; has && tv.IsType() {
				return ok
			}
			if id, isID := n.Fun.(*ast.Ident); isID && (id.Name == "len" || id.Name == "cap") {
				if _, isB := c.info.Uses[id].(*types.Builtin); isB {
					return ok
				}
			}
			ok = false
		case *ast.FuncLit:
			ok = false
		case *ast.UnaryExpr:
			if n.Op == token.ARROW {
				ok = false
			}
		}
		return ok
	})
	return ok
}

// rmw splits a read-modify-write statement on a shared location,
//
//	X = append(X, a...)   X++   X op= e
//
// into { __r := X; __simrt.YR(N); X = append(__r, a...) } etc., so that the
// scheduler may run another task between the read and the write (a lost update
// is then an outcome the tape can produce, with or without the race detector).
func (c *fileCtx) rmw(s ast.Stmt) {
	if !*flagRMW || !*flagYields {
		return
	}
	switch s := s.(type) {
	case *ast.IncDecStmt:
		if !c.sharedLoc(s.X) {
			return
		}
		id := c.newSite(s.Pos(), "rmw", c.text(s.X))
		op := "+"
		if s.Tok == token.DEC {
			op = "-"
		}
		x := c.text(s.X)
		c.opaque = append(c.opaque, [2]int{c.off(s.Pos()), c.off(s.End())})
		c.edits = append(c.edits, edit{c.off(s.Pos()), c.off(s.End()), fmt.Sprintf("{ __r%d := %s; __simrt.YR(%d); %s = __r%d %s 1 }", id, x, id, x, id, op)})
		sum.RMWSplits++
	case *ast.AssignStmt:
		if len(s.Lhs) != 1 || len(s.Rhs) != 1 || !c.sharedLoc(s.Lhs[0]) {
			return
		}
		x := c.text(s.Lhs[0])
		if s.Tok == token.ASSIGN {
			call, ok := unparen(s.Rhs[0]).(*ast.CallExpr)
			if !ok || len(call.Args) < 1 {
				return
			}
			fn, ok := call.Fun.(*ast.Ident)
			if !ok || fn.Name != "append" {
				return
			}
			if _, isBuiltin := c.info.Uses[fn].(*types.Builtin); !isBuiltin {
				return
			}
			if c.text(call.Args[0]) != x {
				return
			}
			for _, a := range call.Args[1:] {
				if !c.callFree(a) {
					return
				}
			}
			id := c.newSite(s.Pos(), "rmw", x)
			rest := string(c.src[c.off(call.Args[0].End()):c.off(s.End())])
			c.opaque = append(c.opaque, [2]int{c.off(s.Pos()), c.off(s.End())})
			c.edits = append(c.edits, edit{c.off(s.Pos()), c.off(s.End()), fmt.Sprintf("{ __r%d := %s; __simrt.YR(%d); %s = append(__r%d%s }", id, x, id, x, id, rest)})
			sum.RMWSplits++
			return
		}
		var op string
		switch s.Tok {
		case token.ADD_ASSIGN, token.SUB_ASSIGN, token.MUL_ASSIGN, token.QUO_ASSIGN, token.REM_ASSIGN,
			token.AND_ASSIGN, token.OR_ASSIGN, token.XOR_ASSIGN, token.SHL_ASSIGN, token.SHR_ASSIGN, token.AND_NOT_ASSIGN:
			op = strings.TrimSuffix(s.Tok.String(), "=")
		default:
			return
		}
		if !c.callFree(s.Rhs[0]) {
			return
		}
		id := c.newSite(s.Pos(), "rmw", x)
		c.opaque = append(c.opaque, [2]int{c.off(s.Pos()), c.off(s.End())})
		c.edits = append(c.edits, edit{c.off(s.Pos()), c.off(s.End()), fmt.Sprintf("{ __r%d := %s; __simrt.YR(%d); %s = __r%d %s (%s) }", id, x, id, x, id, op, c.text(s.Rhs[0]))})
		sum.RMWSplits++
	}
}

func (c *fileCtx) off(p token.Pos) int { return c.fset.Position(p).Offset }

func (c *fileCtx) text(n ast.Node) string { return string(c.src[c.off(n.Pos()):c.off(n.End())]) }

func instrumentFile(fset *token.FileSet, info *types.Info, f *ast.File, src []byte, rel string) ([]byte, bool) {
	c := &fileCtx{fset: fset, info: info, src: src, rel: rel, recv2: map[*ast.UnaryExpr]bool{}, captured: map[types.Object]bool{}}
	c.findCaptured(f)
	for _, d := range f.Decls {
		switch d := d.(type) {
		case *ast.FuncDecl:
			c.fn = funcName(d)
			if d.Body != nil {
				c.walk(d.Body)
			}
		case *ast.GenDecl:
			c.fn = "(package scope)"
			c.walk(d)
		}
	}
	if len(c.opaque) > 0 {
		var kept []edit
		for _, e := range c.edits {
			drop := false
			for _, r := range c.opaque {
				if r[0] <= e.start && e.end <= r[1] && !(e.start == r[0] && e.end == r[1]) && !(e.start == e.end && (e.start == r[0] || e.start == r[1])) {
					drop = true
				}
			}
			if !drop {
				kept = append(kept, e)
			}
		}
		c.edits = kept
	}
	if len(c.edits) == 0 {
		return src, false
	}
	// Import of the run-time, on the line of the package clause.
	c.edits = append(c.edits, edit{c.off(f.Name.End()), c.off(f.Name.End()), fmt.Sprintf("; import __simrt %q", modPath+"/"+*flagRT)})
	sort.SliceStable(c.edits, func(i, j int) bool {
		if c.edits[i].start != c.edits[j].start {
			return c.edits[i].start > c.edits[j].start
		}
		return c.edits[i].end > c.edits[j].end
	})
	out := append([]byte(nil), src...)
	for _, e := range c.edits {
		var nb []byte
		nb = append(nb, out[:e.start]...)
		nb = append(nb, e.text...)
		nb = append(nb, out[e.end:]...)
		out = nb
	}
	if c.timeIdent != "" {
		out = append(out, []byte(fmt.Sprintf("\nvar _ = %s.Now\n", c.timeIdent))...)
	}
	if c.runtimeIdent != "" {
		out = append(out, []byte(fmt.Sprintf("\nvar _ = %s.Gosched\n", c.runtimeIdent))...)
	}
	return out, true
}

func funcName(d *ast.FuncDecl) string {
	if d.Recv != nil && len(d.Recv.List) > 0 {
		t := d.Recv.List[0].Type
		star := ""
		if s, ok := t.(*ast.StarExpr); ok {
			t = s.X
			star = "*"
		}
		if ix, ok := t.(*ast.IndexExpr); ok {
			t = ix.X
		}
		if id, ok := t.(*ast.Ident); ok {
			return "(" + star + id.Name + ")." + d.Name.Name
		}
	}
	return d.Name.Name
}

func (c *fileCtx) newSite(pos token.Pos, kind, expr string) int {
	id := nextSite
	nextSite++
	p := c.fset.Position(pos)
	sites = append(sites, site{ID: id, File: c.rel, Line: p.Line, Func: c.fn, Kind: kind, Expr: expr})
	return id
}

func (c *fileCtx) walk(root ast.Node) {
	skip := map[*ast.BlockStmt]bool{}
	labeled := map[ast.Stmt]bool{}
	ast.Inspect(root, func(n ast.Node) bool {
		switch n := n.(type) {
		case *ast.SwitchStmt:
			skip[n.Body] = true
		case *ast.TypeSwitchStmt:
			skip[n.Body] = true
		case *ast.LabeledStmt:
			labeled[n.Stmt] = true
		case *ast.SelectStmt:
			skip[n.Body] = true
			if c.selectStmt(n, labeled[n]) {
				return false
			}
		case *ast.BlockStmt:
			if !skip[n] {
				c.yields(n.List)
			}
		case *ast.CaseClause:
			c.yields(n.Body)
		case *ast.CommClause:
			// only reached for a select that is left as it is
			c.yields(n.Body)
		case *ast.RangeStmt:
			c.rangeStmt(n, labeled[n])
		case *ast.CallExpr:
			c.call(n)
		case *ast.GoStmt:
			c.goStmt(n)
		case *ast.AssignStmt:
			if len(n.Lhs) == 2 && len(n.Rhs) == 1 {
				if u, ok := unparen(n.Rhs[0]).(*ast.UnaryExpr); ok && u.Op == token.ARROW {
					c.recv2[u] = true
				}
			}
		case *ast.ValueSpec:
			if len(n.Names) == 2 && len(n.Values) == 1 {
				if u, ok := unparen(n.Values[0]).(*ast.UnaryExpr); ok && u.Op == token.ARROW {
					c.recv2[u] = true
				}
			}
		case *ast.SendStmt:
			c.sendStmt(n)
		case *ast.UnaryExpr:
			if n.Op == token.ARROW {
				c.recvExpr(n)
			}
		}
		return true
	})
}

func unparen(e ast.Expr) ast.Expr {
	for {
		p, ok := e.(*ast.ParenExpr)
		if !ok {
			return e
		}
		e = p.X
	}
}

// sendStmt: ch <- v  ->  __simrt.S(N, ch).Send(v)
func (c *fileCtx) sendStmt(n *ast.SendStmt) {
	if !*flagChans {
		c.unmodelled(n.Pos(), "channel send")
		return
	}
	id := c.newSite(n.Pos(), "send", c.text(n.Chan))
	if !pure(n.Chan) {
		c.opaque = append(c.opaque, [2]int{c.off(n.Chan.Pos()), c.off(n.Chan.End())})
	}
	c.edits = append(c.edits, edit{c.off(n.Chan.Pos()), c.off(n.Chan.End()), fmt.Sprintf("__simrt.S(%d, %s", id, c.text(n.Chan))})
	c.edits = append(c.edits, edit{c.off(n.Chan.End()), c.off(n.Value.Pos()), ").Send("})
	c.edits = append(c.edits, edit{c.off(n.Value.End()), c.off(n.Value.End()), ")"})
	sum.ChanOps++
}

// recvExpr: <-ch  ->  __simrt.Recv(N, ch)   (Recv2 for the two-valued form)
func (c *fileCtx) recvExpr(n *ast.UnaryExpr) {
	if !*flagChans {
		c.unmodelled(n.Pos(), "channel receive")
		return
	}
	id := c.newSite(n.Pos(), "recv", "")
	fn := "Recv"
	if c.recv2[n] {
		fn = "Recv2"
	}
	c.edits = append(c.edits, edit{c.off(n.OpPos), c.off(n.OpPos) + 2, fmt.Sprintf("__simrt.%s(%d, ", fn, id)})
	c.edits = append(c.edits, edit{c.off(n.X.End()), c.off(n.X.End()), ")"})
	sum.ChanOps++
}

// selectStmt rewrites
//
//	select { case v := <-a: A; case b <- x: B; default: D }
//
// into
//
//	{ __c0 := __simrt.RecvCase(a); __c1 := __simrt.SendTo(b).With(x)
//	  switch __s := __simrt.Select(N, true, __c0.C, __c1); __s.K {
//	  case 0: v := __c0.Val(__s); A
//	  case 1: B
//	  default: D } }
//
// It reports whether it did (if not, the statement is walked as usual).
func (c *fileCtx) selectStmt(n *ast.SelectStmt, isLabeled bool) bool {
	ncomm := 0
	ok := *flagChans && !isLabeled
	for _, s := range n.Body.List {
		cc := s.(*ast.CommClause)
		if cc.Comm == nil {
			continue
		}
		ncomm++
		switch cm := cc.Comm.(type) {
		case *ast.SendStmt:
		case *ast.ExprStmt:
			if u, isU := unparen(cm.X).(*ast.UnaryExpr); !isU || u.Op != token.ARROW {
				ok = false
			}
		case *ast.AssignStmt:
			if len(cm.Rhs) != 1 || len(cm.Lhs) > 2 {
				ok = false
			} else if u, isU := unparen(cm.Rhs[0]).(*ast.UnaryExpr); !isU || u.Op != token.ARROW {
				ok = false
			}
		default:
			ok = false
		}
	}
	if !ok || ncomm > 8 {
		c.unmodelled(n.Pos(), "select")
		return false
	}
	id := c.newSite(n.Pos(), "select", "")
	var hoist strings.Builder
	var args []string
	hasDefault := false
	k := 0
	for _, s := range n.Body.List {
		cc := s.(*ast.CommClause)
		var head string
		switch cm := cc.Comm.(type) {
		case nil:
			hasDefault = true
			head = "default:"
		case *ast.SendStmt:
			fmt.Fprintf(&hoist, "__c%d_%d := __simrt.SendTo(%s).With(%s); ", id, k, c.text(cm.Chan), c.text(cm.Value))
			args = append(args, fmt.Sprintf("__c%d_%d", id, k))
			head = fmt.Sprintf("case %d:", k)
			k++
		case *ast.ExprStmt:
			u := unparen(cm.X).(*ast.UnaryExpr)
			fmt.Fprintf(&hoist, "__c%d_%d := __simrt.RecvCase(%s); ", id, k, c.text(u.X))
			args = append(args, fmt.Sprintf("__c%d_%d.C", id, k))
			head = fmt.Sprintf("case %d:", k)
			k++
		case *ast.AssignStmt:
			u := unparen(cm.Rhs[0]).(*ast.UnaryExpr)
			fmt.Fprintf(&hoist, "__c%d_%d := __simrt.RecvCase(%s); ", id, k, c.text(u.X))
			args = append(args, fmt.Sprintf("__c%d_%d.C", id, k))
			tok := cm.Tok.String()
			if len(cm.Lhs) == 1 {
				head = fmt.Sprintf("case %d: %s %s __c%d_%d.Val(__s%d);", k, c.text(cm.Lhs[0]), tok, id, k, id)
			} else {
				head = fmt.Sprintf("case %d: %s, %s %s __c%d_%d.Val(__s%d), __s%d.OK;", k, c.text(cm.Lhs[0]), c.text(cm.Lhs[1]), tok, id, k, id, id)
			}
			k++
		}
		c.edits = append(c.edits, edit{c.off(cc.Case), c.off(cc.Colon) + 1, head})
		c.yields(cc.Body)
		for _, b := range cc.Body {
			c.walk(b)
		}
	}
	call := fmt.Sprintf("__simrt.Select(%d, %v", id, hasDefault)
	for _, a := range args {
		call += ", " + a
	}
	call += ")"
	c.edits = append(c.edits, edit{c.off(n.Select), c.off(n.Body.Lbrace) + 1, fmt.Sprintf("{ %sswitch __s%d := %s; __s%d.K {", hoist.String(), id, call, id)})
	if !hasDefault {
		// A select whose every case ends in a return is a terminating statement;
		// a switch is one only if it has a default clause.
		c.edits = append(c.edits, edit{c.off(n.Body.Rbrace), c.off(n.Body.Rbrace), "; default: panic(\"simrt: select returned no case\"); "})
	}
	c.edits = append(c.edits, edit{c.off(n.End()), c.off(n.End()), " }"})
	sum.ChanOps++
	sum.Selects++
	return true
}

func (c *fileCtx) unmodelled(pos token.Pos, what string) {
	p := c.fset.Position(pos)
	sum.Unmodelled = append(sum.Unmodelled, fmt.Sprintf("%s:%d %s", c.rel, p.Line, what))
}

func (c *fileCtx) yields(list []ast.Stmt) {
	if !*flagYields {
		return
	}
	for _, s := range list {
		if _, ok := s.(*ast.EmptyStmt); ok {
			continue
		}
		id := c.newSite(s.Pos(), "stmt", "")
		o := c.off(s.Pos())
		c.edits = append(c.edits, edit{o, o, fmt.Sprintf("__simrt.Y(%d);", id)})
		sum.Yields++
		c.rmw(s)
	}
}

// pure reports whether evaluating e twice is harmless: an identifier or a chain
// of field selections.
func pure(e ast.Expr) bool {
	switch e := e.(type) {
	case *ast.Ident:
		return true
	case *ast.SelectorExpr:
		return pure(e.X)
	case *ast.ParenExpr:
		return pure(e.X)
	case *ast.StarExpr:
		return pure(e.X)
	}
	return false
}

// sortableMapKey: the key type has a canonical order, or is an interface type
// (then it is decided at run time from the dynamic types of the keys).
func sortableMapKey(t types.Type) bool {
	if _, isIface := t.Underlying().(*types.Interface); isIface {
		return true
	}
	return sortableKey(t)
}

func sortableKey(t types.Type) bool {
	switch u := t.Underlying().(type) {
	case *types.Basic:
		return u.Info()&(types.IsInteger|types.IsString|types.IsBoolean) != 0
	case *types.Struct:
		for i := 0; i < u.NumFields(); i++ {
			if !sortableKey(u.Field(i).Type()) {
				return false
			}
		}
		return true
	case *types.Array:
		return sortableKey(u.Elem())
	}
	return false
}

func isBlank(e ast.Expr) bool {
	if e == nil {
		return true
	}
	id, ok := e.(*ast.Ident)
	return ok && id.Name == "_"
}

func (c *fileCtx) rangeStmt(n *ast.RangeStmt, isLabeled bool) {
	tv, ok := c.info.Types[n.X]
	if !ok || tv.Type == nil {
		return
	}
	switch u := tv.Type.Underlying().(type) {
	case *types.Chan:
		if !*flagChans || n.Value != nil {
			c.unmodelled(n.Pos(), "range over channel")
			return
		}
		// for v := range ch {  ->  for __ch := ch; ; { v, __ok := __simrt.Recv2(N, __ch); if !__ok { break };
		// (one for statement, so a label on it keeps its meaning; the ranged
		// expression is evaluated once, as in Go)
		id := c.newSite(n.Pos(), "rangechan", c.text(n.X))
		var b strings.Builder
		fmt.Fprintf(&b, "for __ch%d := %s; ; { ", id, c.text(n.X))
		x := fmt.Sprintf("__ch%d", id)
		switch {
		case isBlank(n.Key):
			fmt.Fprintf(&b, "_, __ok%d := __simrt.Recv2(%d, %s); if !__ok%d { break };", id, id, x, id)
		case n.Tok == token.DEFINE:
			// (the loop variable is declared once per loop, as Go before 1.22 does: a
			// closure that captures it sees later values)
			b.Reset()
			fmt.Fprintf(&b, "for __ch%d, %s := __simrt.ChanAndZero(%s); ; { var __ok%d bool; %s, __ok%d = __simrt.Recv2(%d, %s); if !__ok%d { break };", id, c.text(n.Key), c.text(n.X), id, c.text(n.Key), id, id, x, id)
		default:
			fmt.Fprintf(&b, "__v%d, __ok%d := __simrt.Recv2(%d, %s); if !__ok%d { break }; %s = __v%d;", id, id, id, x, id, c.text(n.Key), id)
		}
		c.edits = append(c.edits, edit{c.off(n.For), c.off(n.Body.Lbrace) + 1, b.String()})
		c.opaque = append(c.opaque, [2]int{c.off(n.For), c.off(n.Body.Lbrace) + 1})
		sum.ChanOps++
		return
	case *types.Map:
		p := c.fset.Position(n.Pos())
		where := fmt.Sprintf("%s:%d range %s", c.rel, p.Line, c.text(n.X))
		if !*flagMaps {
			return
		}
		if !sortableMapKey(u.Key()) {
			sum.UncontrolledMap = append(sum.UncontrolledMap, where+" (key type "+u.Key().String()+" has no canonical order)")
			return
		}
		if !pure(n.X) {
			sum.UncontrolledMap = append(sum.UncontrolledMap, where+" (ranged expression is not a plain field or variable)")
			return
		}
		x := c.text(n.X)
		id := c.newSite(n.Pos(), "maprange", x)
		// for k, v := range m {  ->  for __it := __simrt.RangeMap(N, m); __it.Next(); { k := __it.K; v := (m)[k];
		// The iterator produces the keys present at the start in the order the tape
		// chooses, leaves out keys deleted meanwhile, and lets the tape decide about
		// keys created (or deleted and created again) during the iteration, which Go
		// may or may not produce.
		var b strings.Builder
		it := fmt.Sprintf("__it%d", id)
		kb, vb := isBlank(n.Key), isBlank(n.Value)
		if n.Tok == token.DEFINE && (!kb || !vb) {
			// The loop variables are declared ONCE per loop (in the init statement),
			// as Go before 1.22 does for the range statement this replaces: a closure
			// that captures them sees the values of later iterations.
			switch {
			case !kb && !vb:
				fmt.Fprintf(&b, "for %s, %s, %s := __simrt.RangeMapKV(%d, %s); %s.Next(); { %s, %s = %s.K, (%s)[%s.K];", it, c.text(n.Key), c.text(n.Value), id, x, it, c.text(n.Key), c.text(n.Value), it, x, it)
			case !kb:
				fmt.Fprintf(&b, "for %s, %s := __simrt.RangeMapK(%d, %s); %s.Next(); { %s = %s.K;", it, c.text(n.Key), id, x, it, c.text(n.Key), it)
			default:
				fmt.Fprintf(&b, "for %s, %s := __simrt.RangeMapV(%d, %s); %s.Next(); { %s = (%s)[%s.K];", it, c.text(n.Value), id, x, it, c.text(n.Value), x, it)
			}
			c.edits = append(c.edits, edit{c.off(n.For), c.off(n.Body.Lbrace) + 1, b.String()})
			sum.MapRanges++
			return
		}
		fmt.Fprintf(&b, "for %s := __simrt.RangeMap(%d, %s); %s.Next(); { ", it, id, x, it)
		switch {
		case n.Key == nil && n.Value == nil:
		case n.Tok == token.DEFINE:
			if !kb {
				fmt.Fprintf(&b, "%s := %s.K;", c.text(n.Key), it)
			}
			if !vb {
				fmt.Fprintf(&b, "%s := (%s)[%s.K];", c.text(n.Value), x, it)
			}
		default: // token.ASSIGN
			if !kb {
				fmt.Fprintf(&b, "%s = %s.K;", c.text(n.Key), it)
			}
			if !vb {
				fmt.Fprintf(&b, "%s = (%s)[%s.K];", c.text(n.Value), x, it)
			}
		}
		c.edits = append(c.edits, edit{c.off(n.For), c.off(n.Body.Lbrace) + 1, b.String()})
		sum.MapRanges++
	}
}

// mutexPath returns the expression text denoting the sync.Mutex / sync.RWMutex
// value on which method sel is called, and whether it is already a pointer.
func (c *fileCtx) mutexPath(sel *ast.SelectorExpr) (expr string, isPtr bool, kind string, ok bool) {
	s := c.info.Selections[sel]
	if s == nil || s.Kind() != types.MethodVal {
		return
	}
	fn, _ := s.Obj().(*types.Func)
	if fn == nil || fn.Pkg() == nil || fn.Pkg().Path() != "sync" {
		return
	}
	recv := fn.Type().(*types.Signature).Recv()
	if recv == nil {
		return
	}
	rt := recv.Type()
	if p, isp := rt.(*types.Pointer); isp {
		rt = p.Elem()
	}
	named, _ := rt.(*types.Named)
	if named == nil {
		return
	}
	kind = named.Obj().Name()
	if kind != "Mutex" && kind != "RWMutex" && kind != "Pool" && kind != "WaitGroup" && kind != "Once" && kind != "Cond" {
		if kind != "Map" {
			return "", false, "", false
		}
		if sel.Sel.Name != "Range" {
			// Load, Store, ... of a sync.Map do not block and are synchronised by
			// the real thing.
			return "", false, "", false
		}
		if !*flagChans {
			c.unmodelled(sel.Pos(), "sync.Map.Range")
			return "", false, "", false
		}
	}
	// Walk the implicit embedded-field path.
	expr = c.text(sel.X)
	t := c.info.Types[sel.X].Type
	idx := s.Index()
	for _, fi := range idx[:len(idx)-1] {
		if p, isp := t.Underlying().(*types.Pointer); isp {
			t = p.Elem()
		}
		st, _ := t.Underlying().(*types.Struct)
		if st == nil {
			return "", false, "", false
		}
		f := st.Field(fi)
		expr = "(" + expr + ")." + f.Name()
		t = f.Type()
	}
	_, isPtr = t.Underlying().(*types.Pointer)
	if isPtr {
		return expr, true, kind, true
	}
	if _, isIface := t.Underlying().(*types.Interface); isIface {
		return "", false, "", false
	}
	return expr, false, kind, true
}

func (c *fileCtx) call(n *ast.CallExpr) {
	if id, ok := n.Fun.(*ast.Ident); ok && id.Name == "delete" && len(n.Args) == 2 && *flagMaps {
		if _, isB := c.info.Uses[id].(*types.Builtin); isB {
			if tv, ok := c.info.Types[n.Args[0]]; ok && tv.Type != nil {
				if mt, isMap := tv.Type.Underlying().(*types.Map); isMap && sortableMapKey(mt.Key()) {
					// tell the map-range seam (a key deleted and created again during an
					// iteration may be skipped by Go)
					c.edits = append(c.edits, edit{c.off(n.Pos()), c.off(n.Lparen) + 1, "__simrt.MapDelete("})
					sum.MapDeletes++
				}
			}
		}
		return
	}
	if id, ok := n.Fun.(*ast.Ident); ok && id.Name == "close" && len(n.Args) == 1 {
		if _, isB := c.info.Uses[id].(*types.Builtin); isB {
			if !*flagChans {
				c.unmodelled(n.Pos(), "close of a channel")
				return
			}
			sid := c.newSite(n.Pos(), "close", "")
			c.edits = append(c.edits, edit{c.off(n.Pos()), c.off(n.Lparen) + 1, fmt.Sprintf("__simrt.Close(%d, ", sid)})
			sum.ChanOps++
		}
		return
	}
	sel, ok := n.Fun.(*ast.SelectorExpr)
	if !ok {
		return
	}
	if id, ok := sel.X.(*ast.Ident); ok {
		if pn, ok := c.info.Uses[id].(*types.PkgName); ok {
			switch pn.Imported().Path() {
			case "runtime":
				if sel.Sel.Name == "Gosched" && *flagChans {
					c.edits = append(c.edits, edit{c.off(sel.Pos()), c.off(sel.End()), "__simrt.Gosched"})
					c.runtimeIdent = id.Name
				}
				if (sel.Sel.Name == "GOMAXPROCS" || sel.Sel.Name == "NumCPU") && *flagClock {
					// the number of processors is an input of the run, like the clock
					c.edits = append(c.edits, edit{c.off(sel.Pos()), c.off(sel.End()), "__simrt." + sel.Sel.Name})
					c.runtimeIdent = id.Name
					sum.ProcQueries++
				}
				return
			case "context":
				if sel.Sel.Name == "WithTimeout" || sel.Sel.Name == "WithDeadline" || sel.Sel.Name == "WithCancel" || sel.Sel.Name == "WithTimeoutCause" || sel.Sel.Name == "WithDeadlineCause" || sel.Sel.Name == "WithCancelCause" {
					c.unmodelled(n.Pos(), "context."+sel.Sel.Name)
				}
				return
			case "os/signal":
				c.unmodelled(n.Pos(), "signal."+sel.Sel.Name)
				return
			}
		}
	}
	// Clock reads.
	if id, ok := sel.X.(*ast.Ident); ok {
		if pn, ok := c.info.Uses[id].(*types.PkgName); ok && pn.Imported().Path() == "time" {
			if sel.Sel.Name == "Now" || sel.Sel.Name == "Since" {
				if *flagClock {
					c.edits = append(c.edits, edit{c.off(sel.Pos()), c.off(sel.End()), "__simrt." + sel.Sel.Name})
					c.timeIdent = id.Name
					sum.ClockReads++
				}
			} else if sel.Sel.Name == "Sleep" && *flagChans {
				c.edits = append(c.edits, edit{c.off(sel.Pos()), c.off(sel.End()), "__simrt.Sleep"})
				c.timeIdent = id.Name
				sum.Sleeps++
			} else if sel.Sel.Name == "Sleep" || sel.Sel.Name == "After" || sel.Sel.Name == "NewTimer" || sel.Sel.Name == "Tick" || sel.Sel.Name == "AfterFunc" || sel.Sel.Name == "NewTicker" {
				c.unmodelled(n.Pos(), "time."+sel.Sel.Name)
			}
			return
		}
	}
	// Mutex operations.
	switch sel.Sel.Name {
	case "Lock", "Unlock", "RLock", "RUnlock", "TryLock", "TryRLock", "Wait", "Done", "Add", "Do", "Signal", "Broadcast", "Load", "Store", "Range", "Get", "Put":
	default:
		return
	}
	expr, isPtr, kind, ok := c.mutexPath(sel)
	if !ok || !*flagLocks {
		return
	}
	var fn string
	switch kind + "." + sel.Sel.Name {
	case "Mutex.Lock":
		fn = "Lock"
	case "Mutex.Unlock":
		fn = "Unlock"
	case "RWMutex.Lock":
		fn = "WLock"
	case "RWMutex.Unlock":
		fn = "WUnlock"
	case "RWMutex.RLock":
		fn = "RLock"
	case "RWMutex.RUnlock":
		fn = "RUnlock"
	case "Pool.Get":
		fn = "PoolGet"
	case "Pool.Put":
		fn = "PoolPut"
	case "WaitGroup.Add":
		fn = "WGAdd"
	case "WaitGroup.Done":
		fn = "WGDone"
	case "WaitGroup.Wait":
		fn = "WGWait"
	case "Once.Do":
		fn = "OnceDo"
	case "Cond.Wait":
		fn = "CondWait"
	case "Cond.Signal":
		fn = "CondSignal"
	case "Cond.Broadcast":
		fn = "CondBroadcast"
	case "Map.Range":
		if len(n.Args) != 1 {
			return
		}
		arg := "&" + expr
		if isPtr {
			arg = expr
		}
		sid := c.newSite(n.Pos(), "syncmaprange", expr)
		c.edits = append(c.edits, edit{c.off(n.Pos()), c.off(n.Lparen) + 1, fmt.Sprintf("__simrt.SyncMapRange(%d, %s, ", sid, arg)})
		sum.SyncMapRanges++
		return
	default:
		return
	}
	arg := "&" + expr
	if isPtr {
		arg = expr
	}
	if fn == "PoolPut" || fn == "WGAdd" || fn == "OnceDo" {
		if len(n.Args) != 1 {
			return
		}
		// Replace only the callee part: x.Put(  ->  __simrt.PoolPut(&x,
		c.edits = append(c.edits, edit{c.off(n.Pos()), c.off(n.Lparen) + 1, fmt.Sprintf("__simrt.%s(%s, ", fn, arg)})
		if fn == "PoolPut" {
			sum.Pools++
		} else {
			sum.Locks++
		}
		return
	}
	if len(n.Args) != 0 {
		return
	}
	c.edits = append(c.edits, edit{c.off(n.Pos()), c.off(n.End()), fmt.Sprintf("__simrt.%s(%s)", fn, arg)})
	if fn == "PoolGet" {
		sum.Pools++
		return
	}
	sum.Locks++
}

func (c *fileCtx) goStmt(n *ast.GoStmt) {
	if fl, ok := n.Call.Fun.(*ast.FuncLit); ok && len(n.Call.Args) == 0 && *flagGo {
		// go func() {...}()  ->  __simrt.Go(func() {...})
		c.edits = append(c.edits, edit{c.off(n.Go), c.off(fl.Pos()), "__simrt.Go("})
		c.edits = append(c.edits, edit{c.off(fl.End()), c.off(n.End()), ")"})
		sum.GoStmts++
		return
	}
	if !*flagGo {
		return
	}
	// go f(a, b)  ->  { __gf := f; __ga0 := a; __ga1 := b; __simrt.Go(func() { __gf(__ga0, __ga1) }) }
	// (function value and arguments are evaluated at the go statement, as Go
	// does). Done with disjoint splices around the operand texts, so rewrites
	// inside the operands (e.g. yields in a function literal) stay intact.
	id := nextSite
	nextSite++
	call := n.Call
	c.edits = append(c.edits, edit{c.off(n.Go), c.off(call.Fun.Pos()), fmt.Sprintf("{ __gf%d := ", id)})
	var args []string
	prevEnd := call.Fun.End()
	for i, a := range call.Args {
		c.edits = append(c.edits, edit{c.off(prevEnd), c.off(a.Pos()), fmt.Sprintf("; __ga%d_%d := ", id, i)})
		args = append(args, fmt.Sprintf("__ga%d_%d", id, i))
		prevEnd = a.End()
	}
	ell := ""
	if call.Ellipsis.IsValid() {
		ell = "..."
	}
	c.edits = append(c.edits, edit{c.off(prevEnd), c.off(n.End()), fmt.Sprintf("; __simrt.Go(func() { __gf%d(%s%s) }) }", id, strings.Join(args, ", "), ell)})
	sum.GoStmts++
}
