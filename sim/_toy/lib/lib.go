package lib

import (
	"errors"
	"fmt"
	"runtime"
	"sort"
	"strings"
	"sync"
	"time"
)

// PingPong: unbuffered rendezvous both ways.
func PingPong(n int) int {
	ping := make(chan int)
	pong := make(chan int)
	go func() {
		for v := range ping {
			pong <- v + 1
		}
		close(pong)
	}()
	x := 0
	for i := 0; i < n; i++ {
		ping <- x
		x = <-pong
	}
	close(ping)
	_, ok := <-pong
	if ok {
		return -1
	}
	return x
}

// Pool: buffered jobs, unbuffered results, WaitGroup closer.
func Pool(workers, jobs int) int {
	jc := make(chan int, 2)
	rc := make(chan int)
	var wg sync.WaitGroup
	for w := 0; w < workers; w++ {
		wg.Add(1)
		go func(id int) {
			defer wg.Done()
			for j := range jc {
				rc <- j * j
			}
		}(w)
	}
	go func() {
		wg.Wait()
		close(rc)
	}()
	go func() {
		for j := 1; j <= jobs; j++ {
			jc <- j
		}
		close(jc)
	}()
	sum := 0
	for r := range rc {
		sum += r
	}
	return sum
}

// SelectLoop: select with send, receive, done channel.
func SelectLoop(n int) (int, int) {
	in := make(chan int)
	out := make(chan int, 1)
	done := make(chan struct{})
	var fin sync.WaitGroup
	fin.Add(1)
	got := 0
	go func() {
		defer fin.Done()
		for {
			select {
			case v, ok := <-in:
				if !ok {
					in = nil
					continue
				}
				got += v
			case <-done:
				return
			}
		}
	}()
	sent := 0
	pending := 0
	for i := 1; i <= n; i++ {
		select {
		case in <- i:
			sent += i
		case out <- i:
			pending++
			<-out
		}
	}
	close(in)
	close(done)
	fin.Wait()
	return sent, got
}

// FirstError: non-blocking send into a one-slot channel.
func FirstError(n int) error {
	errc := make(chan error, 1)
	var wg sync.WaitGroup
	for i := 0; i < n; i++ {
		wg.Add(1)
		go func(i int) {
			defer wg.Done()
			var err error = fmt.Errorf("e%d", i)
			select {
			case errc <- err:
			default:
			}
		}(i)
	}
	wg.Wait()
	select {
	case err := <-errc:
		return err
	default:
		return nil
	}
}

// Sem: semaphore channel; reports the maximum number of holders seen.
func Sem(n, width int) int {
	sem := make(chan struct{}, width)
	var mu sync.Mutex
	cur, max := 0, 0
	var wg sync.WaitGroup
	for i := 0; i < n; i++ {
		wg.Add(1)
		go func() {
			defer wg.Done()
			sem <- struct{}{}
			mu.Lock()
			cur++
			if cur > max {
				max = cur
			}
			mu.Unlock()
			runtime.Gosched()
			mu.Lock()
			cur--
			mu.Unlock()
			<-sem
		}()
	}
	wg.Wait()
	return max
}

// Sleepers: the order in which sleepers finish follows their durations.
func Sleepers() string {
	out := make(chan string, 3)
	for _, d := range []int{30, 10, 20} {
		d := d
		go func() {
			time.Sleep(time.Duration(d) * time.Millisecond)
			out <- fmt.Sprint(d)
		}()
	}
	var got []string
	for i := 0; i < 3; i++ {
		got = append(got, <-out)
	}
	return strings.Join(got, ",")
}

// Iface: interface element types, nil values.
func Iface() string {
	c := make(chan interface{}, 3)
	e := make(chan error)
	go func() { e <- errors.New("boom") }()
	c <- nil
	c <- 7
	select {
	case c <- "s":
	}
	err := <-e
	a := <-c
	var b interface{}
	b = <-c
	var s interface{}
	select {
	case s = <-c:
	}
	return fmt.Sprint(a, b, s, err)
}

// MapOrder: order-dependent result of a sync.Map range (the seam decides).
func MapOrder() string {
	var m sync.Map
	for _, k := range []string{"b", "a", "d", "c"} {
		m.Store(k, 1)
	}
	var ks []string
	m.Range(func(k, v any) bool {
		ks = append(ks, k.(string))
		return true
	})
	return strings.Join(ks, "")
}

// Sorted is order independent.
func Sorted() string {
	var m sync.Map
	for _, k := range []string{"b", "a", "d", "c"} {
		m.Store(k, 1)
	}
	var ks []string
	m.Range(func(k, v any) bool {
		ks = append(ks, k.(string))
		return true
	})
	sort.Strings(ks)
	return strings.Join(ks, "")
}

// Leak leaves a goroutine blocked for ever.
func Leak() int {
	c := make(chan int)
	go func() { c <- 1; c <- 2 }()
	return <-c
}

// Dead blocks the caller for ever.
func Dead() int {
	c := make(chan int)
	return <-c
}

// Racy hands a pointer over without synchronisation besides the scheduler.
func Racy() int {
	x := 0
	done := make(chan struct{})
	go func() { x = 1; close(done) }()
	y := x
	<-done
	return y
}

// Handoff passes ownership through an unbuffered channel: no race.
func Handoff() int {
	type box struct{ v int }
	c := make(chan *box)
	r := make(chan int)
	go func() {
		b := <-c
		b.v++
		r <- b.v
	}()
	b := &box{v: 41}
	c <- b
	return <-r
}
