package lib

import (
	"fmt"
	"sync"
)

// TwoSelects: both parties are in a select on unbuffered channels.
func TwoSelects(n int) string {
	a := make(chan int)
	b := make(chan int)
	quit := make(chan struct{})
	var wg sync.WaitGroup
	wg.Add(1)
	sa, sb := 0, 0
	go func() {
		defer wg.Done()
	loop:
		for {
			select {
			case v := <-a:
				sa += v
			case v := <-b:
				sb += v
			case <-quit:
				break loop
			}
		}
	}()
	ta, tb := 0, 0
	for i := 1; i <= n; i++ {
		select {
		case a <- i:
			ta += i
		case b <- i:
			tb += i
		}
	}
	close(quit)
	wg.Wait()
	return fmt.Sprint(sa == ta, sb == tb, ta+tb == n*(n+1)/2)
}

// Forms: the syntactic forms of receive.
func Forms() string {
	c := make(chan int, 8)
	for i := 1; i <= 6; i++ {
		c <- i
	}
	close(c)
	var x int
	x = <-c
	var y, ok = <-c
	z, ok2 := (<-c)
	w := <-c + <-c
	n := 0
	for range c {
		n++
	}
	var last int
	var okl bool
	last, okl = <-c
	cnt := 0
	d := make(chan string, 2)
	d <- "p"
	d <- "q"
	close(d)
	var s string
outer:
	for s = range d {
		for {
			cnt++
			continue outer
		}
	}
	return fmt.Sprint(x, y, ok, z, ok2, w, n, last, okl, s, cnt)
}

// Nested: select inside a select case, default cases, nil channels.
func Nested() string {
	var nilc chan int
	a := make(chan int, 1)
	out := ""
	select {
	case <-nilc:
		out += "nil"
	default:
		out += "d1"
		select {
		case a <- 1:
			out += "s"
			select {
			case v, ok := <-a:
				out += fmt.Sprint(v, ok)
			case nilc <- 1:
				out += "nil"
			}
		default:
			out += "d2"
		}
	}
	return out
}

// CloseWakes: a close must wake every parked receiver and selector.
func CloseWakes(n int) int {
	stop := make(chan struct{})
	res := make(chan int, n)
	for i := 0; i < n; i++ {
		i := i
		go func() {
			if i%2 == 0 {
				<-stop
			} else {
				select {
				case <-stop:
				}
			}
			res <- 1
		}()
	}
	close(stop)
	sum := 0
	for i := 0; i < n; i++ {
		sum += <-res
	}
	return sum
}

// CondChan mixes a condition variable with channels.
func CondChan() int {
	var mu sync.Mutex
	cv := sync.NewCond(&mu)
	ready := false
	c := make(chan int)
	go func() {
		mu.Lock()
		for !ready {
			cv.Wait()
		}
		mu.Unlock()
		c <- 5
	}()
	go func() {
		mu.Lock()
		ready = true
		mu.Unlock()
		cv.Signal()
	}()
	return <-c
}

// Pipeline: three stages connected by unbuffered channels.
func Pipeline(n int) int {
	gen := func() <-chan int {
		out := make(chan int)
		go func() {
			defer close(out)
			for i := 1; i <= n; i++ {
				out <- i
			}
		}()
		return out
	}
	sq := func(in <-chan int) <-chan int {
		out := make(chan int)
		go func() {
			defer close(out)
			for v := range in {
				out <- v * v
			}
		}()
		return out
	}
	sum := 0
	for v := range sq(sq(gen())) {
		sum += v
	}
	return sum
}

// SendPanics: a send on a closed channel must panic as in Go.
func SendPanics() (out string) {
	defer func() { out = fmt.Sprint(recover()) }()
	c := make(chan int, 1)
	close(c)
	c <- 1
	return "no panic"
}

// MapMutate ranges over a map while deleting, re-creating and adding keys; what
// is produced for those keys is up to Go (here: up to the tape).
func MapMutate() string {
	m := map[string]int{"a": 1, "b": 2, "c": 3, "d": 4}
	out := ""
	for k := range m {
		out += k
		if k == "a" || k == "d" {
			// delete the other end and create it again
			other := "d"
			if k == "d" {
				other = "a"
			}
			if _, ok := m[other]; ok {
				delete(m, other)
				m[other] = 9
			}
			m["new"+k] = 1
		}
		delete(m, "b")
	}
	return out
}

type counter struct {
	mu   sync.Mutex
	n    int
	list []int
	s    string
	bits uint32
}

// LostUpdate: n goroutines update shared fields without synchronisation. A
// schedule that runs another goroutine between the read and the write of one
// of these statements loses an update (the result then is below n).
func LostUpdate(n int) (int, int) {
	c := &counter{}
	var wg sync.WaitGroup
	for i := 0; i < n; i++ {
		i := i
		wg.Add(1)
		go func() {
			defer wg.Done()
			c.n++
			c.list = append(c.list, i)
		}()
	}
	wg.Wait()
	return c.n, len(c.list)
}

// LockedUpdate is the same under a mutex: never loses anything.
func LockedUpdate(n int) (int, int) {
	c := &counter{}
	total := 0
	var wg sync.WaitGroup
	for i := 0; i < n; i++ {
		i := i
		wg.Add(1)
		go func() {
			defer wg.Done()
			c.mu.Lock()
			c.n += 1
			c.list = append(c.list, i, i)
			total++
			c.mu.Unlock()
		}()
	}
	wg.Wait()
	return c.n + total, len(c.list)
}

var pkgCount int

// RMWForms: every form of statement the instrumenter splits, sequentially; the
// result must be what Go computes.
func RMWForms() string {
	c := &counter{n: 5, bits: 0xff, s: "a"}
	p := &c.n
	c.n++
	c.n--
	c.n += 3
	c.n -= 1
	c.n *= 4
	c.n /= 2
	c.n %= 9
	*p += 10
	(*p)++
	c.bits &= 0xf0
	c.bits |= 1
	c.bits ^= 3
	c.bits <<= 2
	c.bits >>= 1
	c.bits &^= 0x40
	c.s += "b" + "c"
	c.list = append(c.list, 1, 2)
	c.list = append(c.list, []int{3, 4}...)
	c.list = append(c.list)
	pkgCount = 0
	pkgCount += int(int8(len(c.list)))
	captured := 1
	func() { captured += 2; captured++ }()
	captured *= 5
	return fmt.Sprint(c.n, c.bits, c.s, c.list, pkgCount, captured)
}

// SelectReturns: a select whose every case returns is the last statement of
// the function (a terminating statement; its rewritten form must be one too).
func SelectReturns() int {
	a := make(chan int, 1)
	b := make(chan int)
	a <- 41
	select {
	case v := <-a:
		return v + 1
	case <-b:
		return 2
	}
}
