package main

import (
	"flag"
	"fmt"
	"os"
	"time"

	"toy/lib"
	"toy/zzsim/simrt"
)

type rng struct{ s uint64 }

func (r *rng) u64() uint64 {
	r.s ^= r.s << 13
	r.s ^= r.s >> 7
	r.s ^= r.s << 17
	return r.s
}

func tape(seed uint64) *simrt.Config {
	r := &rng{seed*2654435761 + 1}
	c := &simrt.Config{StepCap: 200000}
	for i := 0; i < 400; i++ {
		c.Gaps = append(c.Gaps, uint32(1+r.u64()%6))
		c.Picks = append(c.Picks, uint32(r.u64()%16))
		c.Edges = append(c.Edges, uint32(r.u64()%2))
		c.Perms = append(c.Perms, uint32(r.u64()))
		c.RMWs = append(c.RMWs, uint32(r.u64()%2))
	}
	return c
}

var which = flag.String("case", "all", "")
var runs = flag.Int("runs", 200, "")

func one(name string, seed uint64, f func() string) (string, uint64) {
	simrt.Load(tape(seed))
	var out string
	res := simrt.RunTasks([]func(){func() { out = f() }}, 20*time.Second)
	for _, r := range res {
		if r.Panic != nil {
			fmt.Printf("%s seed %d: panic %v\n%s\n", name, seed, r.Panic, r.Stack)
			os.Exit(1)
		}
	}
	s := simrt.Snapshot()
	return out, s.TraceHash ^ s.PermHash
}

func main() {
	flag.Parse()
	simrt.SeamsOn(true, true)
	simrt.SetAbortHook(func(kind, detail string) {
		fmt.Printf("ABORT %s %s\n", kind, detail)
		os.Exit(3)
	})
	cases := []struct {
		name string
		f    func() string
		want string // "" = any
	}{
		{"pingpong", func() string { return fmt.Sprint(lib.PingPong(5)) }, "5"},
		{"pool", func() string { return fmt.Sprint(lib.Pool(3, 7)) }, "140"},
		{"selectloop", func() string { a, b := lib.SelectLoop(6); return fmt.Sprint(a == b) }, "true"},
		{"firsterror", func() string { return fmt.Sprint(lib.FirstError(3) != nil) }, "true"},
		{"sem", func() string { m := lib.Sem(5, 2); return fmt.Sprint(m >= 1 && m <= 2) }, "true"},
		{"sleepers", func() string { return lib.Sleepers() }, "10,20,30"},
		{"iface", func() string { return lib.Iface() }, "<nil> 7sboom"},
		{"maporder", func() string { return lib.MapOrder() }, ""},
		{"sorted", func() string { return lib.Sorted() }, "abcd"},
		{"twoselects", func() string { return lib.TwoSelects(6) }, "true true true"},
		{"forms", func() string { return lib.Forms() }, "1 2 true 3 true 9 1 0 falseq2"},
		{"nested", func() string { return lib.Nested() }, "d1s1 true"},
		{"closewakes", func() string { return fmt.Sprint(lib.CloseWakes(5)) }, "5"},
		{"condchan", func() string { return fmt.Sprint(lib.CondChan()) }, "5"},
		{"pipeline", func() string { return fmt.Sprint(lib.Pipeline(4)) }, "354"},
		{"sendpanics", func() string { return lib.SendPanics() }, "send on closed channel"},
		{"mapmutate", func() string { return lib.MapMutate() }, ""},
		{"handoff", func() string { return fmt.Sprint(lib.Handoff()) }, "42"},
		{"selectreturns", func() string { return fmt.Sprint(lib.SelectReturns()) }, "42"},
		{"lockedupdate", func() string { a, b := lib.LockedUpdate(5); return fmt.Sprint(a, b) }, "10 10"},
		{"rmwforms", func() string { return lib.RMWForms() }, "16 420abc[1 2 3 4] 4 20"},
		{"lostupdate", func() string { a, b := lib.LostUpdate(4); return fmt.Sprint(a < 4 || b < 4) }, ""},
		{"racy", func() string { return fmt.Sprint(lib.Racy()) }, ""},
		{"leak", func() string { return fmt.Sprint(lib.Leak()) }, "1"},
		{"dead", func() string { return fmt.Sprint(lib.Dead()) }, ""},
	}
	for _, c := range cases {
		if *which == "all" && (c.name == "leak" || c.name == "dead" || c.name == "racy" || c.name == "lostupdate") {
			continue
		}
		if *which != "all" && *which != c.name {
			continue
		}
		outs := map[string]int{}
		hashes := map[uint64]bool{}
		var agg simrt.Stats
		for seed := uint64(1); seed <= uint64(*runs); seed++ {
			o1, h1 := one(c.name, seed, c.f)
			s := simrt.Snapshot()
			agg.ChanOps += s.ChanOps
			agg.ChanParks += s.ChanParks
			agg.Rendezvous += s.Rendezvous
			agg.SelectChoices += s.SelectChoices
			agg.Sleeps += s.Sleeps
			agg.ClockJumps += s.ClockJumps
			agg.Switches += s.Switches
			o2, h2 := one(c.name, seed, c.f)
			if o1 != o2 || h1 != h2 {
				fmt.Printf("%s seed %d: NOT DETERMINISTIC %q/%q %x/%x\n", c.name, seed, o1, o2, h1, h2)
				os.Exit(1)
			}
			if c.want != "" && o1 != c.want {
				fmt.Printf("%s seed %d: got %q want %q\n", c.name, seed, o1, c.want); dumpTrace()
				os.Exit(1)
			}
			outs[o1]++
			hashes[h1] = true
		}
		fmt.Printf("%-10s ok outs=%v schedules=%d chanops=%d parks=%d rdv=%d selchoices=%d sleeps=%d jumps=%d switches=%d\n", c.name, outs, len(hashes), agg.ChanOps, agg.ChanParks, agg.Rendezvous, agg.SelectChoices, agg.Sleeps, agg.ClockJumps, agg.Switches)
	}
}
