package main

import (
	"fmt"
	"toy/zzsim/simrt"
)

func dumpTrace() {
	for _, s := range simrt.Trace() {
		fmt.Printf("  step=%d %d->%d site=%d why=%d\n", s.Step, s.From, s.To, s.Site, s.Why)
	}
}
