#!/bin/bash
# Self-test of the simulator's channel / select / sleep / sync.Map models on a toy
# library (sim/_toy): instruments a scratch copy, runs every scenario under 200
# tapes twice (same tape => same result and same trace), plain and race builds,
# GOMAXPROCS 1/4/16. Prints "toytest ok" on success.
set -e
export GOFLAGS=-mod=mod GOPROXY=off GOSUMDB=off GOTOOLCHAIN=local CGO_ENABLED=1
HERE=$(cd $(dirname $0) && pwd)
T=$(mktemp -d /tmp/toytest-XXXXXX)
trap "rm -rf $T" EXIT
cp -r $HERE/_toy/lib $HERE/_toy/cmd $T/
cp $HERE/_toy/go.mod.txt $T/go.mod
mkdir -p $T/zzsim && cp -r $HERE/_tree/zzsim/simrt $T/zzsim/
$HERE/../bin/instrument -dir $T -pkgs lib > $T/instr.json
cd $T
go build -o run ./cmd/run
go build -race -o run-race ./cmd/run
GOMAXPROCS=1 ./run > out1.txt || { cat out1.txt; exit 1; }
for g in 1 4 16; do
  GOMAXPROCS=$g ./run-race -runs 40 > outr.txt 2>&1 || { cat outr.txt; exit 1; }
  if grep -q "DATA RACE" outr.txt; then echo "false race report"; exit 1; fi
done
GOMAXPROCS=1 ./run-race -case racy -runs 20 2>&1 | grep -q "DATA RACE" || { echo "the racy scenario was not reported"; exit 1; }
GOMAXPROCS=1 ./run -case leak -runs 3 | grep -q "ABORT unmodelled-leftover-goroutines" || { echo "leak not detected"; exit 1; }
GOMAXPROCS=1 ./run -case dead -runs 3 | grep -q "ABORT deadlock" || { echo "deadlock not detected"; exit 1; }
GOMAXPROCS=1 ./run -case lostupdate -runs 200 | grep -q "true:" || { echo "no tape lost an update of the unsynchronised counter (read-modify-write split)"; exit 1; }
cat out1.txt
echo "toytest ok"
