#!/bin/bash
# development helper: compile the harness against an instrumented scratch copy (kept in /tmp/simdev)
set -e
export GOFLAGS=-mod=mod GOPROXY=off GOSUMDB=off GOTOOLCHAIN=local
S=/tmp/simdev
if [ ! -d $S/tree ] || [ "$1" = "fresh" ]; then
  rm -rf $S; mkdir -p $S/tree
  rsync -a --exclude .git /repo/ $S/tree/
  mkdir -p $S/tree/zzsim
  rsync -a /verif/sim/_tree/zzsim/ $S/tree/zzsim/
  /verif/bin/instrument -dir $S/tree -sites $S/sites.json > $S/instr.json
fi
rsync -a --delete /verif/sim/_tree/zzsim/ $S/tree/zzsim/
cd $S/tree && go build -o $S/worker ./zzsim/harness && go vet ./zzsim/... && echo harness-ok
