// Package simrt is the run-time half of the deterministic simulator used by
// /verif. It is copied into a scratch copy of llir/llvm (as
// github.com/llir/llvm/zzsim/simrt) next to the instrumented sources.
//
// It owns every source of nondeterminism the properties depend on:
//
//   - which caller goroutine ("task") runs at every instrumented statement,
//   - the order in which a map is iterated,
//   - the clock,
//
// and decides each of them from pre-generated decision streams (the "tape"), so
// that one tape is one exactly repeatable execution.
//
// IMPORTANT: the hand-off between tasks must be invisible to the Go race
// detector, otherwise the detector would see a happens-before edge at every
// context switch and never report anything. Therefore all state shared between
// tasks lives in fixed-size arrays and plain words that are only touched from
// //go:norace functions; no channel, mutex, atomic, append or map is used on
// that state. The only real synchronisation is the `go` statement that starts a
// task and the close() of its done channel when it ends.
package simrt

import (
	"fmt"
	"runtime"
	"runtime/debug"
	"sync"
	"time"
	"unsafe"
)

// MaxTasks is the maximum number of simulator tasks in one run.
const MaxTasks = 8192

// StreamCap is the capacity of one decision stream.
const StreamCap = 1 << 15

// TraceCap is the number of context switches recorded verbatim per run.
const TraceCap = 4096

// Task states.
const (
	stNone int32 = iota
	stRunnable
	stBlocked
	stDone
)

// Abort kinds handed to the abort hook.
const (
	AbortDeadlock = "deadlock"
	AbortStepCap  = "stepcap"
	AbortWatchdog = "watchdog"
	// AbortLeftover: goroutines of the code under test were still blocked when
	// all callers had returned (not a verdict: a limit of the model).
	AbortLeftover = "unmodelled-leftover-goroutines"
)

type stream struct {
	v    [StreamCap]uint32
	n    int32 // number of valid entries
	pos  int32 // next entry to hand out
	over int64 // reads past the end (answered with 0)
}

// Switch is one recorded context switch.
type Switch struct {
	Step int64 // statement count at which the switch happened
	From int32
	To   int32
	Site int32 // last instrumented statement executed by From
	Why  int32 // 0 budget, 1 lock edge, 2 unlock edge, 3 blocked, 4 task end, 5 start
}

// Stats are the counters of one run; all measured, none configured.
type Stats struct {
	Steps               int64  // instrumented statements executed by tasks
	Switches            int64  // context switches
	LockEdgeSwitches    int64  // switches taken at a Lock/Unlock edge
	Blocked             int64  // times a task found a mutex held and was parked
	ParkedHolding       int64  // switches away from a task that held a mutex
	Locks               int64  // simulated Lock calls
	Decisions           int64  // scheduler decisions taken
	TraceHash           uint64 // FNV-1a over (from,to,site) of all switches
	MaxConcurrent       int32
	Spawned             int64 // goroutines started by the code under test that became tasks
	PermVisits          int64 // map-range visits under simulator control
	PermNontrivial      int64 // ... with >= 2 keys
	PermNonIdentity     int64 // ... iterated in a non-canonical order
	PermBig             int64 // ... with >= 9 keys (several buckets in a Go map)
	PermUncontrolled    int64 // visits of maps with interface keys whose dynamic types have no canonical order (Go's own order used)
	PermMaxKeys         int64
	PermHash            uint64 // FNV-1a over (site, applied order) of all visits
	ClockReads          int64
	ClockBackwards      int64
	ClockMin            int64
	ClockMax            int64
	GapsUsed            int32
	PicksUsed           int32
	EdgesUsed           int32
	PermsUsed           int32
	ClocksUsed          int32
	PoolsUsed           int32
	RMWsUsed            int32
	RMWSplits           int64 // read-modify-write statements on shared locations executed with a yield point between read and write
	RMWSwitches         int64 // ... at which the tape asked for a scheduling decision
	PoolGets            int64
	PoolReuses          int64
	PoolDrops           int64
	StreamOverruns      int64
	ChanOps             int64 // channel operations (send, receive, close, select) of the code under test
	ChanParks           int64 // ... that found nothing to do and parked the task
	Rendezvous          int64 // hand-overs on unbuffered channels
	SelectChoices       int64 // selects with more than one case: first case tried chosen by the tape
	Sleeps              int64 // time.Sleep calls of the code under test
	ClockJumps          int64 // times the clock jumped to the earliest sleeper because nothing could run
	MapRecreated        int64 // keys deleted and created again during a range over their map
	MapRecreatedSkipped int64 // ... that the tape left out
	MapNewKeys          int64 // keys created during a range over their map
	MapNewKeysVisited   int64 // ... that the tape produced
	ProcQueries         int64 // runtime.GOMAXPROCS / NumCPU queries answered with the simulated value
	Crashes             int64 // runs ended by an unrecovered panic on a goroutine of the code under test
}

var (
	active    bool
	coarse    bool
	permOn    bool
	poolOn    bool
	clockOn   bool
	spinSleep bool

	turn   int32 = -1
	cur    int32 = -1
	ntasks int32
	tstate [MaxTasks]int32
	tblock [MaxTasks]uintptr
	tholds [MaxTasks]int32
	tbsite [MaxTasks]int32 // statement site at which the task blocked
	tgroup [MaxTasks]int32 // top-level task this task was (transitively) started by
	tpanic [MaxTasks]interface{}
	tstack [MaxTasks]string
	tfn    [MaxTasks]func()
	tdone  [MaxTasks]chan struct{}

	budget   int64
	stepCap  int64 = 1 << 40
	lastSite int32

	gaps, picks, edges, perms, clocks, poolsS, rmws stream

	st     Stats
	trace  [TraceCap]Switch
	ntrace int32

	simNow int64
	runGen int64

	simProcs    int
	prefer      int32 = -1
	procsLoaded bool

	abortHook func(kind string, detail string)
)

// Config is the tape of one run.
type Config struct {
	Gaps   []uint32 // statements until the next scheduling decision; 0 = never again
	Picks  []uint32 // which runnable task runs next (reduced modulo the number of candidates; 0 = stay)
	Edges  []uint32 // at a lock/unlock edge: non-zero = take a scheduling decision now
	Perms  []uint32 // one per map-range visit: encoded permutation, 0 = canonical order
	Clocks []uint32 // one per clock read: encoded delta
	Pools  []uint32 // one per sync.Pool.Get of instrumented code: 1 = a GC has just emptied the pool
	// RMWs: one per read-modify-write statement on a shared location (x.f = append(x.f, v), x.n++,
	// x.n += d) that the instrumenter split into its read and its write: non-zero = take a
	// scheduling decision between the two (0, and an exhausted stream, = the statement stays atomic).
	RMWs []uint32
	// StepCap bounds the number of instrumented statements of a concurrent run.
	StepCap int64
	// ClockBase is the simulated epoch in nanoseconds.
	ClockBase int64
	// SpinSleep lets parked tasks sleep instead of spinning on Gosched (for GOMAXPROCS > 1).
	SpinSleep bool
	// Procs is the simulated number of processors: what runtime.GOMAXPROCS(0) and
	// runtime.NumCPU() return to instrumented code (0 = 1).
	Procs int
}

// SetAbortHook registers the function called when a run cannot continue
// (deadlock, step cap, watchdog). The hook must not return.
func SetAbortHook(f func(kind, detail string)) { abortHook = f }

//go:norace
func loadStream(s *stream, v []uint32) {
	n := len(v)
	if n > StreamCap {
		n = StreamCap
	}
	for i := 0; i < n; i++ {
		s.v[i] = v[i]
	}
	s.n = int32(n)
	s.pos = 0
	s.over = 0
}

//go:norace
func next(s *stream) uint32 {
	if s.pos < s.n {
		v := s.v[s.pos]
		s.pos++
		return v
	}
	s.over++
	return 0
}

// Load installs the tape of the next run and resets all counters.
//
//go:norace
func Load(c *Config) {
	loadStream(&gaps, c.Gaps)
	loadStream(&picks, c.Picks)
	loadStream(&edges, c.Edges)
	loadStream(&perms, c.Perms)
	loadStream(&clocks, c.Clocks)
	loadStream(&poolsS, c.Pools)
	loadStream(&rmws, c.RMWs)
	stepCap = c.StepCap
	if stepCap <= 0 {
		stepCap = 1 << 40
	}
	spinSleep = c.SpinSleep
	resetDeleteLog()
	simProcs = c.Procs
	procsLoaded = true
	simNow = c.ClockBase
	st = Stats{}
	st.ClockMin = simNow
	st.ClockMax = simNow
	st.TraceHash = 14695981039346656037
	st.PermHash = 14695981039346656037
	ntrace = 0
	lastSite = -1
	budget = 1 << 62
}

// SeamsOn switches the map-order and clock seams on (they are consulted both
// with and without the scheduler).
//
//go:norace
func SeamsOn(perm, clock bool) { permOn, clockOn = perm, clock }

// Snapshot returns the counters of the run so far.
//
//go:norace
func Snapshot() Stats {
	s := st
	s.GapsUsed = min32(gaps.pos, gaps.n)
	s.PicksUsed = min32(picks.pos, picks.n)
	s.EdgesUsed = min32(edges.pos, edges.n)
	s.PermsUsed = min32(perms.pos, perms.n)
	s.ClocksUsed = min32(clocks.pos, clocks.n)
	s.PoolsUsed = min32(poolsS.pos, poolsS.n)
	s.RMWsUsed = min32(rmws.pos, rmws.n)
	s.StreamOverruns = gaps.over + picks.over + edges.over + perms.over + clocks.over + poolsS.over
	return s
}

func min32(a, b int32) int32 {
	if a < b {
		return a
	}
	return b
}

// BlockedSites returns, per task, the statement site at which it is blocked on
// a mutex (-1 if it is not blocked).
//
//go:norace
func BlockedSites() []int32 {
	out := make([]int32, ntasks)
	for i := int32(0); i < ntasks; i++ {
		out[i] = -1
		if tstate[i] == stBlocked {
			out[i] = tbsite[i]
		}
	}
	return out
}

// Trace returns the recorded context switches of the last run.
//
//go:norace
func Trace() []Switch {
	out := make([]Switch, ntrace)
	for i := int32(0); i < ntrace; i++ {
		out[i] = trace[i]
	}
	return out
}

// SetCoarse switches statement yields off: only explicit Yield calls are
// scheduling points (used when the steps of a task must be atomic).
//
//go:norace
func SetCoarse(b bool) { coarse = b }

// Yield is an explicit scheduling point of a task.
//
//go:norace
func Yield(site int32) {
	if !active {
		return
	}
	st.Steps++
	lastSite = site
	if st.Steps > stepCap {
		abort(AbortStepCap)
	}
	budget--
	if budget > 0 {
		return
	}
	decide(false, 0)
}

// Y is called before every instrumented statement.
//
//go:norace
func Y(site int32) {
	if !active || coarse {
		return
	}
	st.Steps++
	lastSite = site
	if st.Steps > stepCap {
		abort(AbortStepCap)
	}
	budget--
	if budget > 0 {
		return
	}
	decide(false, 0)
}

// YR is called between the read and the write of a read-modify-write statement
// on a shared location that the instrumenter split in two. It has a stream of
// its own, so that tapes recorded before it existed replay unchanged.
//
//go:norace
func YR(site int32) {
	if !active || coarse {
		return
	}
	st.RMWSplits++
	if next(&rmws) == 0 {
		return
	}
	lastSite = site
	st.RMWSwitches++
	decide(false, 0)
}

//go:norace
func abort(kind string) {
	nshow := ntasks
	if nshow > 24 {
		nshow = 24
	}
	detail := fmt.Sprintf("task=%d of %d site=%d steps=%d states=%v blockedOn=%v", cur, ntasks, lastSite, st.Steps, tstate[:nshow], tblock[:nshow])
	active = false
	if abortHook != nil {
		abortHook(kind, detail)
	}
	panic("simrt: abort hook returned: " + kind)
}

//go:norace
func hashSwitch(from, to, site int32) {
	h := st.TraceHash
	for _, x := range [3]int32{from, to, site} {
		for k := 0; k < 4; k++ {
			h ^= uint64(byte(x >> (8 * uint(k))))
			h *= 1099511628211
		}
	}
	st.TraceHash = h
}

// decide takes one scheduling decision. If mustLeave is set the current task
// cannot continue (blocked or finished).
//
//go:norace
func decide(mustLeave bool, why int32) {
	st.Decisions++
	wakeSleepers(false)
	var run [64]int32
	n := 0
collect:
	n = 0
	if !mustLeave || (cur >= 0 && tstate[cur] == stRunnable) {
		// (a task that had to leave is runnable again if the clock jumped to its
		// own wake-up time)
		run[0] = cur
		n = 1
	}
	for i := int32(0); i < ntasks && n < len(run); i++ {
		if i == cur || tstate[i] != stRunnable {
			continue
		}
		if coarse && cur >= 0 {
			// Steps are atomic: while a step is in progress (its task blocked on, or
			// one of its helper goroutines ended inside, the code under test) only
			// goroutines started by that step may run; at an explicit Yield only
			// top-level tasks are candidates.
			if why == 3 || (why == 4 && tgroup[cur] != cur) {
				if tgroup[i] != tgroup[cur] {
					continue
				}
			} else if tgroup[i] != i {
				continue
			}
		}
		run[n] = i
		n++
	}
	if int32(n) > st.MaxConcurrent {
		st.MaxConcurrent = int32(n)
	}
	if n == 0 {
		// Nothing can run now. If a caller task is still waiting, time may pass:
		// jump to the earliest sleeper.
		topAlive, anyAlive := false, false
		for i := int32(0); i < ntasks; i++ {
			if tstate[i] != stDone {
				anyAlive = true
				if tgroup[i] == i {
					topAlive = true
				}
			}
		}
		if topAlive {
			if wakeSleepers(true) {
				goto collect
			}
			abort(AbortDeadlock)
		}
		if anyAlive {
			// Every caller task has returned; goroutines the code under test started
			// are still parked (a worker pool, a leaked producer). That is no
			// deadlock, but such goroutines outlive the run, which this simulator
			// does not model: say so (the check then runs the code natively).
			abort(AbortLeftover)
		}
		// Everybody is done.
		active = false
		turn = -1
		return
	}
	g := next(&gaps)
	if g == 0 {
		budget = 1 << 62
	} else {
		budget = int64(g)
	}
	p := next(&picks)
	nxt := run[int(p%uint32(n))]
	if pf := prefer; pf >= 0 {
		// at the start of a goroutine: half of the decisions go to the newborn
		// (consulted once: the preference must not outlive this decision)
		prefer = -1
		if p != 0 && tstate[pf] == stRunnable {
			if p%2 == 1 {
				nxt = pf
			} else {
				nxt = run[int((p/2)%uint32(n))]
			}
		}
	}
	if nxt == cur {
		return
	}
	st.Switches++
	if why == 1 || why == 2 {
		st.LockEdgeSwitches++
	}
	if cur >= 0 && tholds[cur] > 0 && tstate[cur] != stDone {
		st.ParkedHolding++
	}
	hashSwitch(cur, nxt, lastSite)
	if ntrace < TraceCap {
		trace[ntrace] = Switch{Step: st.Steps, From: cur, To: nxt, Site: lastSite, Why: why}
		ntrace++
	}
	me := cur
	gen := runGen // read while this task still has the turn
	cur = nxt
	turn = nxt
	if me >= 0 && tstate[me] != stDone {
		waitTurn(me, gen)
	}
}

//go:norace
func waitTurn(me int32, g int64) {
	// g is the generation of the run the task belongs to, read by the caller
	// while it was certain to be part of that run (a goroutine may be preempted
	// for arbitrarily long between giving the turn away and getting here).
	for i := 0; ; i++ {
		if turn == me && runGen == g {
			return
		}
		if runGen != g {
			// The run this task belonged to is over (a goroutine of the code under
			// test crashed it): never run again, whatever a later run does with
			// the same task index.
			select {}
		}
		if spinSleep && i > 64 {
			time.Sleep(20 * time.Microsecond)
		} else {
			runtime.Gosched()
		}
	}
}

//go:norace
func edge(why int32) {
	if coarse {
		// Steps are atomic: no preemption at lock edges (blocking still switches).
		return
	}
	if next(&edges) != 0 {
		decide(false, why)
	}
}

// Lock is the simulator-aware replacement of (*sync.Mutex).Lock. It loops on
// the real TryLock (so the race detector sees the real acquire edge) and parks
// the task as "blocked on m" while that fails.
//
//go:norace
func Lock(m *sync.Mutex) {
	if !active {
		m.Lock()
		return
	}
	st.Locks++
	edge(1)
	for !m.TryLock() {
		st.Blocked++
		tstate[cur] = stBlocked
		tblock[cur] = uintptr(unsafe.Pointer(m))
		tbsite[cur] = lastSite
		decide(true, 3)
	}
	tholds[cur]++
}

// InTask reports whether a simulated run is in progress (the caller is then one
// of its tasks).
//
//go:norace
func InTask() bool { return active }

// Unlock is the simulator-aware replacement of (*sync.Mutex).Unlock.
//
//go:norace
func Unlock(m *sync.Mutex) {
	m.Unlock()
	if !active {
		return
	}
	wake(uintptr(unsafe.Pointer(m)))
	tholds[cur]--
	edge(2)
}

//go:norace
func wake(addr uintptr) {
	for i := int32(0); i < ntasks; i++ {
		if tstate[i] == stBlocked && tblock[i] == addr {
			tstate[i] = stRunnable
			tblock[i] = 0
		}
	}
}

// RLock, RUnlock, WLock, WUnlock: the same for sync.RWMutex. The model keeps
// Go's writer preference: once a writer waits, new readers block (that is what
// turns a recursive read lock into a deadlock). The real TryRLock/TryLock is
// taken whenever the model grants the lock, so the race detector sees the real
// acquire/release edges.

const maxRW = 1024

var (
	rwAddr    [maxRW]uintptr
	rwReaders [maxRW]int32
	rwWriter  [maxRW]bool
	rwWaitW   [maxRW]int32
	nRW       int32
	twaitW    [MaxTasks]bool
)

//go:norace
func rwEntry(m *sync.RWMutex) int32 {
	a := uintptr(unsafe.Pointer(m))
	for i := int32(0); i < nRW; i++ {
		if rwAddr[i] == a {
			return i
		}
	}
	if nRW >= maxRW {
		abort("unmodelled-too-many-rwmutexes")
	}
	i := nRW
	nRW++
	rwAddr[i] = a
	rwReaders[i] = 0
	rwWriter[i] = false
	rwWaitW[i] = 0
	return i
}

//go:norace
func RLock(m *sync.RWMutex) {
	if !active {
		m.RLock()
		return
	}
	st.Locks++
	edge(1)
	e := rwEntry(m)
	for rwWriter[e] || rwWaitW[e] > 0 || !m.TryRLock() {
		st.Blocked++
		tstate[cur] = stBlocked
		tblock[cur] = uintptr(unsafe.Pointer(m))
		tbsite[cur] = lastSite
		decide(true, 3)
	}
	rwReaders[e]++
	tholds[cur]++
}

//go:norace
func RUnlock(m *sync.RWMutex) {
	m.RUnlock()
	if !active {
		return
	}
	e := rwEntry(m)
	rwReaders[e]--
	wake(uintptr(unsafe.Pointer(m)))
	tholds[cur]--
	edge(2)
}

//go:norace
func WLock(m *sync.RWMutex) {
	if !active {
		m.Lock()
		return
	}
	st.Locks++
	edge(1)
	e := rwEntry(m)
	for rwWriter[e] || rwReaders[e] > 0 || !m.TryLock() {
		if !twaitW[cur] {
			twaitW[cur] = true
			rwWaitW[e]++
		}
		st.Blocked++
		tstate[cur] = stBlocked
		tblock[cur] = uintptr(unsafe.Pointer(m))
		tbsite[cur] = lastSite
		decide(true, 3)
	}
	if twaitW[cur] {
		twaitW[cur] = false
		rwWaitW[e]--
	}
	rwWriter[e] = true
	tholds[cur]++
}

//go:norace
func WUnlock(m *sync.RWMutex) {
	m.Unlock()
	if !active {
		return
	}
	e := rwEntry(m)
	rwWriter[e] = false
	wake(uintptr(unsafe.Pointer(m)))
	tholds[cur]--
	edge(2)
}

// ---------------------------------------------------------------------------
// sync.WaitGroup and sync.Once of the code under test. The model decides who
// blocks; the real primitive is operated as well, so the race detector sees the
// real happens-before edges (Done -> Wait, Do -> later Do).

const maxWG = 4096

var (
	wgAddr  [maxWG]uintptr
	wgCount [maxWG]int64
	nWG     int32

	onceAddr  [maxWG]uintptr
	onceState [maxWG]int32 // 0 new, 1 running, 2 done
	onceOwner [maxWG]int32
	nOnce     int32
)

//go:norace
func wgEntry(w *sync.WaitGroup) int32 {
	a := uintptr(unsafe.Pointer(w))
	for i := int32(0); i < nWG; i++ {
		if wgAddr[i] == a {
			return i
		}
	}
	if nWG >= maxWG {
		abort("unmodelled-too-many-waitgroups")
	}
	i := nWG
	nWG++
	wgAddr[i] = a
	wgCount[i] = 0
	return i
}

// WGAdd is the replacement of (*sync.WaitGroup).Add.
//
//go:norace
func WGAdd(w *sync.WaitGroup, n int) {
	w.Add(n)
	if !active {
		return
	}
	e := wgEntry(w)
	wgCount[e] += int64(n)
	if wgCount[e] <= 0 {
		wake(uintptr(unsafe.Pointer(w)))
	}
	if n < 0 {
		edge(2)
	}
}

// WGDone is the replacement of (*sync.WaitGroup).Done.
//
//go:norace
func WGDone(w *sync.WaitGroup) { WGAdd(w, -1) }

// WGWait is the replacement of (*sync.WaitGroup).Wait.
//
//go:norace
func WGWait(w *sync.WaitGroup) {
	if !active {
		w.Wait()
		return
	}
	e := wgEntry(w)
	for wgCount[e] > 0 {
		st.Blocked++
		tstate[cur] = stBlocked
		tblock[cur] = uintptr(unsafe.Pointer(w))
		tbsite[cur] = lastSite
		decide(true, 3)
	}
	w.Wait()
}

//go:norace
func onceEntry(o *sync.Once) int32 {
	a := uintptr(unsafe.Pointer(o))
	for i := int32(0); i < nOnce; i++ {
		if onceAddr[i] == a {
			return i
		}
	}
	if nOnce >= maxWG {
		abort("unmodelled-too-many-onces")
	}
	i := nOnce
	nOnce++
	onceAddr[i] = a
	onceState[i] = 0
	return i
}

// OnceDo is the replacement of (*sync.Once).Do.
//
//go:norace
func OnceDo(o *sync.Once, f func()) {
	if !active {
		o.Do(f)
		return
	}
	e := onceEntry(o)
	for onceState[e] == 1 && onceOwner[e] != cur {
		st.Blocked++
		tstate[cur] = stBlocked
		tblock[cur] = uintptr(unsafe.Pointer(o))
		tbsite[cur] = lastSite
		decide(true, 3)
	}
	if onceState[e] == 1 && onceOwner[e] == cur {
		// Recursive Do from inside f: the real Once deadlocks here.
		abort(AbortDeadlock)
	}
	if onceState[e] == 0 {
		onceState[e] = 1
		onceOwner[e] = cur
	}
	// The real Once decides whether f runs (it may have completed before the
	// scheduler was active); it never blocks here because the model has
	// serialised the callers.
	o.Do(f)
	onceState[e] = 2
	wake(uintptr(unsafe.Pointer(o)))
}

// ---------------------------------------------------------------------------
// sync.Cond of the code under test: a FIFO wait list per condition variable (Go's
// notify list is FIFO too). Only the model is operated; the associated Locker is
// released and re-acquired through the simulated Lock/Unlock, which operate the
// real mutex.

var (
	tcond   [MaxTasks]uintptr // condition variable the task waits on (0 = none)
	tticket [MaxTasks]int64   // FIFO position among the waiters
	tsignal [MaxTasks]bool    // set by Signal/Broadcast
	ticket  int64
)

//go:norace
func lockerUnlock(l sync.Locker) {
	switch m := l.(type) {
	case *sync.Mutex:
		Unlock(m)
	case *sync.RWMutex:
		WUnlock(m)
	default:
		abort("unmodelled-locker-of-sync.Cond")
	}
}

//go:norace
func lockerLock(l sync.Locker) {
	switch m := l.(type) {
	case *sync.Mutex:
		Lock(m)
	case *sync.RWMutex:
		WLock(m)
	default:
		abort("unmodelled-locker-of-sync.Cond")
	}
}

// CondWait is the replacement of (*sync.Cond).Wait.
//
//go:norace
func CondWait(c *sync.Cond) {
	if !active {
		c.Wait()
		return
	}
	me := cur
	ticket++
	tcond[me] = uintptr(unsafe.Pointer(c))
	tticket[me] = ticket
	tsignal[me] = false
	lockerUnlock(c.L)
	for !tsignal[me] {
		st.Blocked++
		tstate[me] = stBlocked
		tblock[me] = uintptr(unsafe.Pointer(c))
		tbsite[me] = lastSite
		decide(true, 3)
	}
	tcond[me] = 0
	lockerLock(c.L)
}

//go:norace
func condWake(c *sync.Cond, all bool) {
	a := uintptr(unsafe.Pointer(c))
	for {
		best := int32(-1)
		for i := int32(0); i < ntasks; i++ {
			if tcond[i] == a && !tsignal[i] && (best < 0 || tticket[i] < tticket[best]) {
				best = i
			}
		}
		if best < 0 {
			return
		}
		tsignal[best] = true
		if tstate[best] == stBlocked && tblock[best] == a {
			tstate[best] = stRunnable
			tblock[best] = 0
		}
		if !all {
			return
		}
	}
}

// CondSignal is the replacement of (*sync.Cond).Signal.
//
//go:norace
func CondSignal(c *sync.Cond) {
	if !active {
		c.Signal()
		return
	}
	condWake(c, false)
	edge(2)
}

// CondBroadcast is the replacement of (*sync.Cond).Broadcast.
//
//go:norace
func CondBroadcast(c *sync.Cond) {
	if !active {
		c.Broadcast()
		return
	}
	condWake(c, true)
	edge(2)
}

// Go is the replacement of a `go` statement in instrumented code: while the
// scheduler is active the new goroutine becomes a task.
//
//go:norace
func Go(fn func()) {
	if !active {
		go fn()
		return
	}
	if ntasks >= MaxTasks {
		// a limit of the model, not a verdict: the check repeats itself with
		// native goroutines
		abort("unmodelled-too-many-goroutines")
	}
	i := ntasks
	tfn[i] = fn
	tstate[i] = stRunnable
	tholds[i] = 0
	tpanic[i] = nil
	tstack[i] = ""
	tgroup[i] = tgroup[cur]
	tdone[i] = make(chan struct{})
	st.Spawned++
	ntasks++
	go taskMain(i, runGen)
	// Starting a goroutine is a scheduling edge like a lock operation: the tape
	// may hand the turn to another task (the new one, say) right here, so that
	// "the child ran to its end before the parent took its next step" is as
	// reachable as "the parent went on".
	prefer = i
	edge(5)
	prefer = -1
}

// errNotPanic marks "no panic" in tpanic.
type goexit struct{}

func taskMain(i int32, g int64) {
	waitTurnExported(i, g)
	var pan interface{}
	var stack string
	func() {
		defer func() {
			if r := recover(); r != nil {
				pan, stack = r, string(debug.Stack())
			}
		}()
		getFn(i)()
	}()
	if pan != nil {
		if crashRun(i, pan, stack) {
			return
		}
		setPanic(i, pan, stack)
	}
	finish(i)
	close(getDone(i))
}

// CrashPanic is the panic value reported for every caller task that had not
// returned when a goroutine started by the code under test panicked without
// recovering: in a real process that is the end of the process, so the run ends
// there and none of those calls ever returns.
type CrashPanic struct {
	Msg string
	// Culprit: this caller task is the one whose call started the goroutine
	// that panicked (the others merely died with the process).
	Culprit bool
}

func (c CrashPanic) String() string {
	return "a goroutine started by the code under test panicked (the process would have died): " + c.Msg
}

// crashRun ends the run if task i, whose function panicked with r, is a
// goroutine of the code under test (not a caller task). It reports whether it
// did.
//
//go:norace
func crashRun(i int32, r interface{}, stack string) bool {
	if !active || tgroup[i] == i {
		return false
	}
	st.Crashes++
	text := fmt.Sprint(r)
	runGen++
	active = false
	turn = -1
	cur = -1
	for j := int32(0); j < ntasks; j++ {
		if tstate[j] == stDone {
			continue
		}
		tstate[j] = stDone
		if j == i {
			tpanic[j] = r
			tstack[j] = stack
		} else if tgroup[j] == j && tpanic[j] == nil {
			tpanic[j] = CrashPanic{Msg: text, Culprit: j == tgroup[i]}
			tstack[j] = stack
		}
		close(tdone[j])
	}
	return true
}

//go:norace
func waitTurnExported(i int32, g int64) { waitTurn(i, g) }

//go:norace
func getFn(i int32) func() { return tfn[i] }

//go:norace
func setPanic(i int32, r interface{}, stack string) {
	tpanic[i] = r
	tstack[i] = stack
}

//go:norace
func finish(i int32) {
	tstate[i] = stDone
	if tholds[i] > 0 {
		// A task ended while holding a simulated mutex; tasks blocked on it stay
		// blocked and the deadlock detector will say so.
		tholds[i] = 0
	}
	decide(true, 4)
}

// TaskResult is what one task did.
type TaskResult struct {
	Panic interface{}
	Stack string
	// Spawned: the task is a goroutine started by the code under test.
	Spawned bool
	// Group is the index of the caller task whose call (transitively) started
	// this task (its own index for a caller task).
	Group int32
}

// RunTasks runs fns as simulator tasks under the loaded tape and returns when
// all of them (and all tasks they started with Go) have ended. It must be
// called from a goroutine that is not a task.
func RunTasks(fns []func(), watchdog time.Duration) []TaskResult {
	n := int32(len(fns))
	if n == 0 {
		return nil
	}
	setup(fns)
	g := curGen()
	for i := int32(0); i < n; i++ {
		setDone(i, make(chan struct{}))
	}
	for i := int32(0); i < n; i++ {
		go taskMain(i, g)
	}
	start(n)
	timer := time.NewTimer(watchdog)
	defer timer.Stop()
	// Wait for the initial tasks, then for any task they spawned.
	for i := int32(0); i < MaxTasks; i++ {
		if i >= numTasks() {
			break
		}
		select {
		case <-getDone(i):
		case <-timer.C:
			stuck()
		}
	}
	out := make([]TaskResult, numTasks())
	for i := range out {
		out[i] = getResult(int32(i))
	}
	return out
}

//go:norace
func stuck() {
	detail := fmt.Sprintf("turn=%d cur=%d steps=%d states=%v", turn, cur, st.Steps, tstate[:ntasks])
	if abortHook != nil {
		abortHook(AbortWatchdog, detail)
	}
	panic("simrt: watchdog")
}

//go:norace
func numTasks() int32 { return ntasks }

//go:norace
func curGen() int64 { return runGen }

//go:norace
func setDone(i int32, c chan struct{}) { tdone[i] = c }

//go:norace
func getDone(i int32) chan struct{} { return tdone[i] }

//go:norace
func getResult(i int32) TaskResult {
	return TaskResult{Panic: tpanic[i], Stack: tstack[i], Spawned: tgroup[i] != i, Group: tgroup[i]}
}

//go:norace
func setup(fns []func()) {
	ntasks = int32(len(fns))
	for i := range tstate {
		tstate[i] = stNone
		tblock[i] = 0
		tholds[i] = 0
		tpanic[i] = nil
		tstack[i] = ""
		tfn[i] = nil
	}
	for i, f := range fns {
		tfn[i] = f
		tstate[i] = stRunnable
		tgroup[i] = int32(i)
	}
	turn = -1
	cur = -1
	runGen++
	nRW = 0
	nWG = 0
	nOnce = 0
	ticket = 0
	for i := range tcond {
		tcond[i] = 0
		tsignal[i] = false
	}
	for i := range twaitW {
		twaitW[i] = false
	}
	for i := range twN {
		twN[i] = 0
		twMatch[i] = -1
		twPartner[i] = -1
		tsleepAt[i] = 0
	}
}

//go:norace
func start(n int32) {
	active = true
	// First decision: who starts, and for how long.
	g := next(&gaps)
	if g == 0 {
		budget = 1 << 62
	} else {
		budget = int64(g)
	}
	first := int32(next(&picks) % uint32(n))
	st.Decisions++
	hashSwitch(-1, first, -1)
	if ntrace < TraceCap {
		trace[ntrace] = Switch{Step: 0, From: -1, To: first, Site: -1, Why: 5}
		ntrace++
	}
	cur = first
	turn = first
}
