package simrt

import (
	"reflect"
	"sort"
	"sync"
	"time"
	"unsafe"
)

// Permutation encodings (low 3 bits of a perm-stream value; the rest is the
// parameter). 0 must stay the canonical order so that a zeroed or exhausted
// tape is the simplest run.
const (
	PermIdentity = 0
	PermReverse  = 1
	PermRotate   = 2
	PermShuffle  = 3
	PermSwap     = 4
	PermLex      = 5 // parameter = index of the permutation in lexicographic order (n <= 8)
)

// Keys returns the keys of m in the order the simulator chose for this visit
// of map-range site `site`: canonical (sorted) order with the permutation taken
// from the tape applied. Without the seam it returns the canonical order.
func Keys[M ~map[K]V, K comparable, V any](site int32, m M) []K {
	ks := make([]K, 0, len(m))
	for k := range m {
		ks = append(ks, k)
	}
	if !sortKeys(ks) {
		// Keys of an interface type whose dynamic types have no common canonical
		// order (pointers, mixed types): Go's own order, for this visit.
		noteUncontrolled()
		return ks
	}
	n := len(ks)
	code, ok := permFor(site, n)
	if !ok || n < 2 {
		return ks
	}
	order := make([]int, n)
	for i := range order {
		order[i] = i
	}
	applyPerm(order, code)
	ident := true
	out := make([]K, n)
	for i, j := range order {
		out[i] = ks[j]
		if i != j {
			ident = false
		}
	}
	notePerm(site, order, ident)
	return out
}

//go:norace
func permFor(site int32, n int) (uint32, bool) {
	if !permOn {
		return 0, false
	}
	st.PermVisits++
	if int64(n) > st.PermMaxKeys {
		st.PermMaxKeys = int64(n)
	}
	if n < 2 {
		return 0, true
	}
	st.PermNontrivial++
	if n >= 9 {
		st.PermBig++
	}
	return next(&perms), true
}

//go:norace
func notePerm(site int32, order []int, ident bool) {
	if !ident {
		st.PermNonIdentity++
	}
	h := st.PermHash
	h ^= uint64(uint32(site))
	h *= 1099511628211
	for _, x := range order {
		h ^= uint64(uint32(x))
		h *= 1099511628211
	}
	st.PermHash = h
}

// applyPerm permutes order in place according to code.
func applyPerm(order []int, code uint32) {
	n := len(order)
	kind := code & 7
	param := uint64(code >> 3)
	switch kind {
	case PermReverse:
		for i, j := 0, n-1; i < j; i, j = i+1, j-1 {
			order[i], order[j] = order[j], order[i]
		}
	case PermRotate:
		r := int(param % uint64(n))
		tmp := make([]int, n)
		for i := range order {
			tmp[i] = order[(i+r)%n]
		}
		copy(order, tmp)
	case PermShuffle:
		x := param*2654435761 + 88172645463325252
		for i := n - 1; i > 0; i-- {
			x ^= x << 13
			x ^= x >> 7
			x ^= x << 17
			j := int(x % uint64(i+1))
			order[i], order[j] = order[j], order[i]
		}
	case PermSwap:
		i := int(param % uint64(n))
		j := int((param / uint64(n)) % uint64(n))
		order[i], order[j] = order[j], order[i]
	case PermLex:
		if n > 8 {
			return
		}
		// param-th permutation in lexicographic order (factorial number system).
		fact := 1
		for i := 2; i <= n; i++ {
			fact *= i
		}
		idx := int(param % uint64(fact))
		avail := make([]int, n)
		copy(avail, order)
		for i := 0; i < n; i++ {
			fact /= n - i
			k := idx / fact
			idx %= fact
			order[i] = avail[k]
			avail = append(avail[:k], avail[k+1:]...)
		}
	}
}

// sortKeys puts keys into a canonical order that depends on their values only.
// It reports false (and leaves the keys alone) if they have none: that can only
// happen for keys of an interface type, whose dynamic types are looked at here.
func sortKeys[K comparable](ks []K) bool {
	switch v := any(ks).(type) {
	case []string:
		sort.Strings(v)
		return true
	case []int:
		sort.Ints(v)
		return true
	case []int64:
		sort.Slice(v, func(i, j int) bool { return v[i] < v[j] })
		return true
	case []uint64:
		sort.Slice(v, func(i, j int) bool { return v[i] < v[j] })
		return true
	}
	if len(ks) > 0 {
		if reflect.TypeOf(&ks[0]).Elem().Kind() == reflect.Interface {
			t := reflect.TypeOf(any(ks[0]))
			if t == nil || !canonicalKind(t) {
				return false
			}
			for _, k := range ks[1:] {
				if reflect.TypeOf(any(k)) != t {
					return false
				}
			}
		}
	}
	sort.Slice(ks, func(i, j int) bool {
		return lessValue(reflect.ValueOf(ks[i]), reflect.ValueOf(ks[j]))
	})
	return true
}

//go:norace
func noteUncontrolled() { st.PermUncontrolled++ }

func lessValue(a, b reflect.Value) bool { return cmpValue(a, b) < 0 }

func cmpValue(a, b reflect.Value) int {
	switch a.Kind() {
	case reflect.String:
		x, y := a.String(), b.String()
		switch {
		case x < y:
			return -1
		case x > y:
			return 1
		}
		return 0
	case reflect.Int, reflect.Int8, reflect.Int16, reflect.Int32, reflect.Int64:
		x, y := a.Int(), b.Int()
		switch {
		case x < y:
			return -1
		case x > y:
			return 1
		}
		return 0
	case reflect.Uint, reflect.Uint8, reflect.Uint16, reflect.Uint32, reflect.Uint64, reflect.Uintptr:
		x, y := a.Uint(), b.Uint()
		switch {
		case x < y:
			return -1
		case x > y:
			return 1
		}
		return 0
	case reflect.Bool:
		x, y := a.Bool(), b.Bool()
		switch {
		case !x && y:
			return -1
		case x && !y:
			return 1
		}
		return 0
	case reflect.Struct:
		for i := 0; i < a.NumField(); i++ {
			if c := cmpValue(a.Field(i), b.Field(i)); c != 0 {
				return c
			}
		}
		return 0
	case reflect.Array:
		for i := 0; i < a.Len(); i++ {
			if c := cmpValue(a.Index(i), b.Index(i)); c != 0 {
				return c
			}
		}
		return 0
	}
	// The instrumenter only rewrites ranges whose key type is made of the kinds
	// above; anything else is left to Go.
	panic("simrt: key kind without canonical order: " + a.Kind().String())
}

// Clock encodings (low 2 bits of a clock-stream value).
const (
	ClockTick     = 0 // +1µs
	ClockForward  = 1 // +param ns
	ClockBackward = 2 // -param ns
	ClockLeap     = 3 // +param seconds
)

// Now is the replacement of time.Now in instrumented code.
func Now() time.Time {
	t, ok := simTime()
	if !ok {
		return time.Now()
	}
	return time.Unix(0, t)
}

// Since is the replacement of time.Since in instrumented code.
func Since(t time.Time) time.Duration {
	return Now().Sub(t)
}

//go:norace
func simTime() (int64, bool) {
	if !clockOn {
		return 0, false
	}
	c := next(&clocks)
	param := int64(c >> 2)
	switch c & 3 {
	case ClockTick:
		simNow += 1000
	case ClockForward:
		simNow += param
	case ClockBackward:
		simNow -= param
		st.ClockBackwards++
	case ClockLeap:
		simNow += param * 1000000000
	}
	st.ClockReads++
	if simNow < st.ClockMin {
		st.ClockMin = simNow
	}
	if simNow > st.ClockMax {
		st.ClockMax = simNow
	}
	return simNow, true
}

// ---------------------------------------------------------------------------
// sync.Pool seam. What a real pool returns depends on GC timing and per-P
// caches, which the simulator does not control; instrumented code therefore
// uses this deterministic pool: LIFO, emptied at the start of every run, and at
// every Get the tape may pretend that a GC has just emptied it (value 1).
//
// The bookkeeping uses a real mutex, so — like the real sync.Pool — handing an
// object from one goroutine to another through the pool is synchronised for the
// race detector.

var (
	poolMu    sync.Mutex
	poolItems = map[*sync.Pool][]interface{}{}
)

// PoolGet is the replacement of (*sync.Pool).Get in instrumented code.
func PoolGet(p *sync.Pool) interface{} {
	d, on := poolDecision()
	if !on {
		return p.Get()
	}
	var x interface{}
	poolMu.Lock()
	items := poolItems[p]
	if d&1 == 1 {
		poolItems[p] = nil
		items = nil
	}
	if n := len(items); n > 0 {
		x = items[n-1]
		poolItems[p] = items[:n-1]
	}
	poolMu.Unlock()
	notePool(x != nil, d&1 == 1)
	if x == nil && p.New != nil {
		x = p.New()
	}
	return x
}

// PoolPut is the replacement of (*sync.Pool).Put in instrumented code.
func PoolPut(p *sync.Pool, x interface{}) {
	if !poolSeamOn() {
		p.Put(x)
		return
	}
	if x == nil {
		return
	}
	poolMu.Lock()
	poolItems[p] = append(poolItems[p], x)
	poolMu.Unlock()
}

// ResetPools empties all simulated pools (start of a run).
func ResetPools() {
	poolMu.Lock()
	for k := range poolItems {
		delete(poolItems, k)
	}
	poolMu.Unlock()
}

// SeamPool switches the sync.Pool seam on or off (it is on for every simulated
// run: the real pool depends on GC timing, and in race builds the overlay makes
// it drop everything, which would hide objects shared through it).
//
//go:norace
func SeamPool(on bool) { poolOn = on }

//go:norace
func poolSeamOn() bool { return poolOn }

//go:norace
func poolDecision() (uint32, bool) {
	if !poolOn {
		return 0, false
	}
	return next(&poolsS), true
}

//go:norace
func notePool(reused, dropped bool) {
	st.PoolGets++
	if reused {
		st.PoolReuses++
	}
	if dropped {
		st.PoolDrops++
	}
}

// ---------------------------------------------------------------------------
// sync.Map.Range seam. A sync.Map is ranged in the iteration order of a Go map;
// instrumented code ranges it through this function: keys in canonical order
// with the permutation from the tape applied, like Keys. Keys without a
// canonical order (pointers, mixed types) cannot be controlled: that is
// reported as a limit of the model (the check then runs the code natively).

// SyncMapRange is the replacement of (*sync.Map).Range in instrumented code.
func SyncMapRange(site int32, m *sync.Map, f func(key, value any) bool) {
	if !permSeamOn() {
		m.Range(f)
		return
	}
	var ks []any
	m.Range(func(k, _ any) bool {
		ks = append(ks, k)
		return true
	})
	n := len(ks)
	if n >= 2 {
		t := reflect.TypeOf(ks[0])
		okKind := t != nil && canonicalKind(t)
		for _, k := range ks[1:] {
			if reflect.TypeOf(k) != t {
				okKind = false
			}
		}
		if !okKind {
			abortUnmodelled("unmodelled-syncmap-keys")
		}
		sort.Slice(ks, func(i, j int) bool {
			return lessValue(reflect.ValueOf(ks[i]), reflect.ValueOf(ks[j]))
		})
	}
	code, ok := permFor(site, n)
	order := make([]int, n)
	for i := range order {
		order[i] = i
	}
	if ok && n >= 2 {
		applyPerm(order, code)
		ident := true
		for i, j := range order {
			if i != j {
				ident = false
			}
		}
		notePerm(site, order, ident)
	}
	for _, j := range order {
		v, present := m.Load(ks[j])
		if !present {
			continue
		}
		if !f(ks[j], v) {
			return
		}
	}
}

func canonicalKind(t reflect.Type) bool {
	switch t.Kind() {
	case reflect.String, reflect.Bool,
		reflect.Int, reflect.Int8, reflect.Int16, reflect.Int32, reflect.Int64,
		reflect.Uint, reflect.Uint8, reflect.Uint16, reflect.Uint32, reflect.Uint64, reflect.Uintptr:
		return true
	case reflect.Array:
		return canonicalKind(t.Elem())
	case reflect.Struct:
		for i := 0; i < t.NumField(); i++ {
			if !canonicalKind(t.Field(i).Type) {
				return false
			}
		}
		return true
	}
	return false
}

//go:norace
func permSeamOn() bool { return permOn }

//go:norace
func abortUnmodelled(kind string) { abort(kind) }

// ---------------------------------------------------------------------------
// Map ranges as iterators. Go leaves three things open when a map is ranged:
// the order, whether an entry created during the iteration is produced, and
// (as a consequence) whether an entry deleted and created again during the
// iteration is produced a second time or at all. RangeMap puts all three on the
// tape: the keys present at the start come in the canonical order permuted by
// the tape; a key deleted meanwhile is left out; for a key that was deleted and
// created again, and for a key that was not there at the start, the tape decides
// (perm stream, one value per such key: for a re-created key 0 = produce it,
// for a new key 0 = leave it out, which is what the plain Keys snapshot did).

// MapIter is the state of one map range.
type MapIter[K comparable] struct {
	// K is the current key.
	K     K
	site  int32
	keys  []K
	pos   int
	start int32 // position in the delete log when the iteration began
	mptr  uintptr
	has   func(K) bool
	now   func() []K
	seen  map[K]struct{}
	extra bool // the keys present at the start are exhausted
}

// RangeMap starts an iteration over m.
func RangeMap[M ~map[K]V, K comparable, V any](site int32, m M) *MapIter[K] {
	it := &MapIter[K]{site: site, keys: Keys(site, m)}
	it.has = func(k K) bool { _, ok := m[k]; return ok }
	it.now = func() []K {
		ks := make([]K, 0, len(m))
		for k := range m {
			ks = append(ks, k)
		}
		sortKeys(ks)
		return ks
	}
	it.mptr = *(*uintptr)(unsafe.Pointer(&m))
	it.start = deleteLogPos()
	return it
}

// RangeMapKV, RangeMapK and RangeMapV are RangeMap for loops that declare their
// variables (for k, v := range m): they also return zero values, so that the
// rewritten loop can declare k and v once per loop in its init statement.
func RangeMapKV[M ~map[K]V, K comparable, V any](site int32, m M) (*MapIter[K], K, V) {
	var k K
	var v V
	return RangeMap(site, m), k, v
}

func RangeMapK[M ~map[K]V, K comparable, V any](site int32, m M) (*MapIter[K], K) {
	var k K
	return RangeMap(site, m), k
}

func RangeMapV[M ~map[K]V, K comparable, V any](site int32, m M) (*MapIter[K], V) {
	var v V
	return RangeMap(site, m), v
}

// ChanAndZero returns the channel and the zero value of its element type (for the
// per-loop declaration of the variable of a rewritten range-over-channel loop;
// the ranged expression is evaluated once).
func ChanAndZero[C ~chan T | ~<-chan T, T any](c C) (C, T) {
	var z T
	return c, z
}

// Next advances to the next key; it reports false when the iteration is over.
func (it *MapIter[K]) Next() bool {
	for !it.extra {
		if it.pos >= len(it.keys) {
			it.extra = true
			break
		}
		k := it.keys[it.pos]
		it.pos++
		if !it.has(k) {
			continue
		}
		if permSeamOn() && deletedSince(it.mptr, any(k), it.start) {
			// deleted and created again while the iteration was going on
			if recreatedDecision()&1 == 1 {
				continue
			}
		}
		it.K = k
		return true
	}
	if !permSeamOn() {
		return false
	}
	// Keys that were not there when the iteration began.
	if it.seen == nil {
		it.seen = make(map[K]struct{}, len(it.keys))
		for _, k := range it.keys {
			it.seen[k] = struct{}{}
		}
	}
	for _, k := range it.now() {
		if _, ok := it.seen[k]; ok {
			continue
		}
		it.seen[k] = struct{}{}
		if newKeyDecision()&1 == 1 {
			it.K = k
			return true
		}
	}
	return false
}

// The delete log: (map, key) of every delete of instrumented code in this run,
// in fixed arrays (it is consulted from tasks).
const deleteLogCap = 4096

var (
	delMap [deleteLogCap]uintptr
	delKey [deleteLogCap]any
	delN   int32
	delOvf bool
)

// MapDelete is the replacement of the builtin delete on maps whose ranges are
// under simulator control.
func MapDelete[M ~map[K]V, K comparable, V any](m M, k K) {
	delete(m, k)
	noteDelete(*(*uintptr)(unsafe.Pointer(&m)), any(k))
}

//go:norace
func noteDelete(mp uintptr, k any) {
	if !permOn {
		return
	}
	if delN >= deleteLogCap {
		delOvf = true
		return
	}
	delMap[delN] = mp
	delKey[delN] = k
	delN++
}

//go:norace
func deleteLogPos() int32 { return delN }

//go:norace
func deletedSince(mp uintptr, k any, from int32) bool {
	for i := from; i < delN; i++ {
		if delMap[i] == mp && delKey[i] == k {
			return true
		}
	}
	return false
}

//go:norace
func resetDeleteLog() {
	for i := int32(0); i < delN; i++ {
		delKey[i] = nil
	}
	delN = 0
	delOvf = false
}

//go:norace
func recreatedDecision() uint32 {
	st.MapRecreated++
	v := next(&perms)
	if v&1 == 1 {
		st.MapRecreatedSkipped++
	}
	return v
}

//go:norace
func newKeyDecision() uint32 {
	st.MapNewKeys++
	v := next(&perms)
	if v&1 == 1 {
		st.MapNewKeysVisited++
	}
	return v
}
