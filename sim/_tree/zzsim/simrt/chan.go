package simrt

import (
	"reflect"
	"runtime"
	"time"
	"unsafe"
)

// ---------------------------------------------------------------------------
// Channels of the code under test.
//
// The real channel keeps doing the work (it carries the values and gives the
// race detector exactly Go's happens-before edges); the simulator only decides
// when an operation may be attempted and who runs while a task cannot proceed:
//
//   - every operation is first tried without blocking (select with default).
//     That settles buffered channels and closed channels; a task whose attempt
//     fails parks as "waiting on this channel" and is made runnable again by the
//     next operation on that channel (it then retries);
//   - an unbuffered channel needs both parties at once. The party that arrives
//     second finds the first one parked (oldest first, as in the Go run-time),
//     commits to it, hands it the turn and performs its real, blocking operation;
//     the parked party wakes up, performs the matching real blocking operation,
//     marks its partner runnable and carries on. No third task runs in between;
//   - select tries its cases one by one without blocking, starting at a case
//     chosen by the tape (Go chooses at random among the ready ones), then looks
//     for a parked partner for each case, then takes default or parks on all
//     cases at once.
//
// Channels operated by code that is not instrumented (timers, contexts) are not
// covered; the instrumenter reports their sources as unmodelled.

const (
	chanMark  uintptr = 1 // tblock of a task parked on channel operations
	sleepMark uintptr = 2 // tblock of a sleeping task
	rdvMark   uintptr = 3 // tblock of a task inside its half of a rendezvous
	nilMark   uintptr = 4 // tblock of a task blocked for ever (nil channel, empty select)

	dirSend int8 = 1
	dirRecv int8 = 2

	// MaxSelect is the largest number of communication cases of one select.
	MaxSelect = 8
)

var (
	twN       [MaxTasks]int32
	twAddr    [MaxTasks][MaxSelect]uintptr
	twDir     [MaxTasks][MaxSelect]int8
	twMatch   [MaxTasks]int32
	twPartner [MaxTasks]int32
	twTicket  [MaxTasks]int64
	tsleepAt  [MaxTasks]int64
)

//go:norace
func isActive() bool { return active }

//go:norace
func noteChanOp() { st.ChanOps++ }

// findPartner returns the longest-parked task with an unmatched wait entry for
// (addr, dir), and the index of that entry.
//
//go:norace
func findPartner(addr uintptr, dir int8) (int32, int32) {
	best, bestK := int32(-1), int32(-1)
	for i := int32(0); i < ntasks; i++ {
		if i == cur || tstate[i] != stBlocked || tblock[i] != chanMark || twMatch[i] >= 0 {
			continue
		}
		for k := int32(0); k < twN[i]; k++ {
			if twAddr[i][k] == addr && twDir[i][k] == dir {
				if best < 0 || twTicket[i] < twTicket[best] {
					best, bestK = i, k
				}
				break
			}
		}
	}
	return best, bestK
}

// beginRendezvous commits the current task to a rendezvous with the parked task
// p on p's wait entry k and hands p the turn. The caller must now perform its
// real (blocking) operation and then call endInitiator with the returned index.
//
//go:norace
func beginRendezvous(p, k int32) (int32, int64) {
	me := cur
	g := runGen
	st.Rendezvous++
	twMatch[p] = k
	twPartner[p] = me
	tstate[p] = stRunnable
	tblock[p] = 0
	tstate[me] = stBlocked
	tblock[me] = rdvMark
	tbsite[me] = lastSite
	st.Switches++
	hashSwitch(me, p, lastSite)
	if ntrace < TraceCap {
		trace[ntrace] = Switch{Step: st.Steps, From: me, To: p, Site: lastSite, Why: 6}
		ntrace++
	}
	cur = p
	turn = p
	return me, g
}

// endInitiator: the real operation of the committing party has returned; it
// continues when the scheduler next picks it (its partner made it runnable).
//
//go:norace
func endInitiator(me int32, g int64) { waitTurn(me, g) }

// endResponder: the woken party has performed its half; its partner may run
// again.
//
//go:norace
func endResponder() {
	me := cur
	p := twPartner[me]
	twMatch[me] = -1
	twN[me] = 0
	if p >= 0 && tstate[p] == stBlocked && tblock[p] == rdvMark {
		tstate[p] = stRunnable
		tblock[p] = 0
	}
	twPartner[me] = -1
}

// chanPark parks the current task on n channel operations. It returns the index
// of the entry a partner committed to, or -1 if the task was merely woken up by
// an operation on one of the channels (it must retry).
//
//go:norace
func chanPark(n int32, addrs *[MaxSelect]uintptr, dirs *[MaxSelect]int8) int32 {
	me := cur
	ticket++
	twTicket[me] = ticket
	twN[me] = n
	for i := int32(0); i < n; i++ {
		twAddr[me][i] = addrs[i]
		twDir[me][i] = dirs[i]
	}
	twMatch[me] = -1
	twPartner[me] = -1
	st.Blocked++
	st.ChanParks++
	tstate[me] = stBlocked
	tblock[me] = chanMark
	tbsite[me] = lastSite
	decide(true, 3)
	k := twMatch[me]
	if k < 0 {
		twN[me] = 0
	}
	return k
}

// chanWake makes every task parked on the channel at addr runnable (it retries).
//
//go:norace
func chanWake(addr uintptr) {
	for i := int32(0); i < ntasks; i++ {
		if tstate[i] != stBlocked || tblock[i] != chanMark || twMatch[i] >= 0 {
			continue
		}
		for k := int32(0); k < twN[i]; k++ {
			if twAddr[i][k] == addr {
				tstate[i] = stRunnable
				tblock[i] = 0
				break
			}
		}
	}
}

// blockForever parks the current task for good (nil channel, empty select).
//
//go:norace
func blockForever() {
	for {
		st.Blocked++
		tstate[cur] = stBlocked
		tblock[cur] = nilMark
		tbsite[cur] = lastSite
		decide(true, 3)
	}
}

//go:norace
func chanEdge() { edge(2) }

//go:norace
func pickStart(n int) int {
	if n < 2 {
		return 0
	}
	st.SelectChoices++
	return int(next(&picks) % uint32(n))
}

func chanAddrOf(p unsafe.Pointer) uintptr { return *(*uintptr)(p) }

// Sender fixes the element type of a send from the channel alone, so that the
// value is converted exactly as the send statement would convert it.
type Sender[T any] struct {
	ch chan<- T
}

// S is the first half of the replacement of a send statement:
// ch <- v  becomes  __simrt.S(site, ch).Send(v).
func S[T any](site int32, ch chan<- T) Sender[T] { return Sender[T]{ch} }

// Send is the second half.
func (s Sender[T]) Send(v T) {
	ch := s.ch
	if !isActive() {
		ch <- v
		return
	}
	noteChanOp()
	if ch == nil {
		blockForever()
	}
	addr := chanAddrOf(unsafe.Pointer(&ch))
	for {
		sent := false
		select {
		case ch <- v:
			sent = true
		default:
		}
		if sent {
			chanWake(addr)
			chanEdge()
			return
		}
		if cap(ch) == 0 {
			if p, k := findPartner(addr, dirRecv); p >= 0 {
				me, g := beginRendezvous(p, k)
				ch <- v
				endInitiator(me, g)
				return
			}
		}
		var a [MaxSelect]uintptr
		var d [MaxSelect]int8
		a[0], d[0] = addr, dirSend
		if k := chanPark(1, &a, &d); k >= 0 {
			ch <- v
			endResponder()
			return
		}
	}
}

// Recv is the replacement of a receive expression <-ch.
func Recv[T any](site int32, ch <-chan T) T {
	v, _ := Recv2(site, ch)
	return v
}

// Recv2 is the replacement of the two-valued receive v, ok := <-ch (and of one
// iteration of a range over a channel).
func Recv2[T any](site int32, ch <-chan T) (v T, ok bool) {
	if !isActive() {
		v, ok = <-ch
		return
	}
	noteChanOp()
	if ch == nil {
		blockForever()
	}
	addr := chanAddrOf(unsafe.Pointer(&ch))
	for {
		got := false
		select {
		case v, ok = <-ch:
			got = true
		default:
		}
		if got {
			chanWake(addr)
			chanEdge()
			return
		}
		if cap(ch) == 0 {
			if p, k := findPartner(addr, dirSend); p >= 0 {
				me, g := beginRendezvous(p, k)
				v, ok = <-ch
				endInitiator(me, g)
				return
			}
		}
		var a [MaxSelect]uintptr
		var d [MaxSelect]int8
		a[0], d[0] = addr, dirRecv
		if k := chanPark(1, &a, &d); k >= 0 {
			v, ok = <-ch
			endResponder()
			return
		}
	}
}

// Close is the replacement of close(ch).
func Close[T any](site int32, ch chan<- T) {
	close(ch)
	if !isActive() {
		return
	}
	noteChanOp()
	chanWake(chanAddrOf(unsafe.Pointer(&ch)))
	chanEdge()
}

// SelCase is one communication case of a select.
type SelCase struct {
	ch  reflect.Value
	dir int8
	val reflect.Value
}

// RecvC is a receive case that remembers its element type.
type RecvC[T any] struct{ C SelCase }

// RecvCase describes `case ... <-ch`.
func RecvCase[T any](ch <-chan T) *RecvC[T] {
	return &RecvC[T]{SelCase{ch: reflect.ValueOf(ch), dir: dirRecv}}
}

// Val returns the value received by this case.
func (r *RecvC[T]) Val(s Sel) T {
	var zero T
	if !s.V.IsValid() {
		return zero
	}
	x, ok := s.V.Interface().(T)
	if !ok {
		return zero
	}
	return x
}

// SendB builds a send case in two steps, like S/Send.
type SendB[T any] struct{ ch chan<- T }

// SendTo is the first half of `case ch <- v`.
func SendTo[T any](ch chan<- T) SendB[T] { return SendB[T]{ch} }

// With is the second half.
func (b SendB[T]) With(v T) SelCase {
	// a Value of the static type T (a nil interface value stays sendable)
	return SelCase{ch: reflect.ValueOf(b.ch), dir: dirSend, val: reflect.ValueOf(&v).Elem()}
}

// Sel is the outcome of a select: the index of the chosen case (-1 = default)
// and, for a receive, the value and the ok flag.
type Sel struct {
	K  int
	V  reflect.Value
	OK bool
}

func (c SelCase) isNil() bool { return !c.ch.IsValid() || c.ch.IsNil() }

func (c SelCase) addr() uintptr {
	if c.isNil() {
		return 0
	}
	return c.ch.Pointer()
}

func (c SelCase) rcase() reflect.SelectCase {
	if c.dir == dirSend {
		// reflect wants a bidirectional or send-only channel value
		return reflect.SelectCase{Dir: reflect.SelectSend, Chan: c.ch, Send: c.val}
	}
	return reflect.SelectCase{Dir: reflect.SelectRecv, Chan: c.ch}
}

func (c SelCase) blocking() (reflect.Value, bool) {
	_, rv, ok := reflect.Select([]reflect.SelectCase{c.rcase()})
	return rv, ok
}

// Select is the replacement of a select statement.
func Select(site int32, hasDefault bool, cases ...SelCase) Sel {
	n := len(cases)
	if !isActive() {
		rc := make([]reflect.SelectCase, 0, n+1)
		for _, c := range cases {
			if c.isNil() {
				rc = append(rc, reflect.SelectCase{Dir: reflect.SelectRecv})
				continue
			}
			rc = append(rc, c.rcase())
		}
		if hasDefault {
			rc = append(rc, reflect.SelectCase{Dir: reflect.SelectDefault})
		}
		k, rv, ok := reflect.Select(rc)
		if hasDefault && k == n {
			return Sel{K: -1}
		}
		return Sel{K: k, V: rv, OK: ok}
	}
	noteChanOp()
	if n > MaxSelect {
		abort("select-too-wide")
	}
	live := 0
	for _, c := range cases {
		if !c.isNil() {
			live++
		}
	}
	if live == 0 {
		if hasDefault {
			return Sel{K: -1}
		}
		blockForever()
	}
	for {
		start := pickStart(n)
		for j := 0; j < n; j++ {
			i := (start + j) % n
			c := cases[i]
			if c.isNil() {
				continue
			}
			k, rv, ok := reflect.Select([]reflect.SelectCase{c.rcase(), {Dir: reflect.SelectDefault}})
			if k == 0 {
				chanWake(c.addr())
				chanEdge()
				return Sel{K: i, V: rv, OK: ok}
			}
			if c.ch.Cap() != 0 {
				continue
			}
			want := dirRecv
			if c.dir == dirRecv {
				want = dirSend
			}
			if p, k := findPartner(c.addr(), want); p >= 0 {
				me, g := beginRendezvous(p, k)
				rv, ok := c.blocking()
				endInitiator(me, g)
				return Sel{K: i, V: rv, OK: ok}
			}
		}
		if hasDefault {
			return Sel{K: -1}
		}
		var a [MaxSelect]uintptr
		var d [MaxSelect]int8
		for i, c := range cases {
			a[i], d[i] = c.addr(), c.dir
			if c.isNil() {
				d[i] = 0
			}
		}
		if k := chanPark(int32(n), &a, &d); k >= 0 {
			rv, ok := cases[k].blocking()
			endResponder()
			return Sel{K: int(k), V: rv, OK: ok}
		}
	}
}

// ---------------------------------------------------------------------------
// time.Sleep and runtime.Gosched of the code under test.

// Sleep is the replacement of time.Sleep: the task sleeps in simulated time. The
// simulated clock jumps to the earliest wake-up time when nothing else can run.
//
//go:norace
func Sleep(d time.Duration) {
	if !active {
		if clockOn {
			simNow += int64(d)
			if simNow > st.ClockMax {
				st.ClockMax = simNow
			}
			return
		}
		time.Sleep(d)
		return
	}
	st.Sleeps++
	if d <= 0 {
		decide(false, 0)
		return
	}
	me := cur
	tsleepAt[me] = simNow + int64(d)
	tstate[me] = stBlocked
	tblock[me] = sleepMark
	tbsite[me] = lastSite
	decide(true, 3)
}

// wakeSleepers makes the sleepers whose time has come runnable; with force set
// and nobody due it advances the clock to the earliest sleeper. It reports
// whether any task became runnable.
//
//go:norace
func wakeSleepers(force bool) bool {
	woke := false
	earliest := int64(-1)
	for i := int32(0); i < ntasks; i++ {
		if tstate[i] != stBlocked || tblock[i] != sleepMark {
			continue
		}
		if tsleepAt[i] <= simNow {
			tstate[i] = stRunnable
			tblock[i] = 0
			woke = true
		} else if earliest < 0 || tsleepAt[i] < earliest {
			earliest = tsleepAt[i]
		}
	}
	if woke || !force || earliest < 0 {
		return woke
	}
	simNow = earliest
	if simNow > st.ClockMax {
		st.ClockMax = simNow
	}
	st.ClockJumps++
	return wakeSleepers(false)
}

// Gosched is the replacement of runtime.Gosched: a scheduling decision.
//
//go:norace
func Gosched() {
	if !active {
		return
	}
	decide(false, 0)
}

// GOMAXPROCS is the replacement of runtime.GOMAXPROCS in instrumented code: a
// query (n < 1) returns the simulated number of processors of the run, a setting
// is ignored (the workers' real GOMAXPROCS belongs to the simulator).
//
//go:norace
func GOMAXPROCS(n int) int {
	if !procsLoaded {
		return runtime.GOMAXPROCS(n)
	}
	st.ProcQueries++
	if simProcs < 1 {
		return 1
	}
	return simProcs
}

// NumCPU is the replacement of runtime.NumCPU in instrumented code.
//
//go:norace
func NumCPU() int {
	if !procsLoaded {
		return runtime.NumCPU()
	}
	st.ProcQueries++
	if simProcs < 1 {
		return 1
	}
	return simProcs
}

// SharedAdd adds d to *p without the race detector seeing the access: for
// bookkeeping the harness shares between tasks (which run one at a time).
//
//go:norace
func SharedAdd(p *int64, d int64) int64 {
	*p += d
	return *p
}
