package main

import (
	"bytes"
	"fmt"
	"math"
	"math/big"
	"os"
	"reflect"

	"github.com/llir/llvm/ir"
	"github.com/llir/llvm/ir/constant"
	"github.com/llir/llvm/ir/enum"
	"github.com/llir/llvm/ir/metadata"
	"github.com/llir/llvm/ir/types"
	"github.com/llir/llvm/ir/value"
)

// A Prog is a construction/editing program over the public ir API. Every
// operand is a selector that is reduced modulo what exists when the step runs,
// and a step that does not apply is a no-op, so every subsequence of a program
// is again a well-formed program (that is what makes shrinking by deletion
// work).
type Prog struct {
	Steps     []Step `json:"steps"`
	IllFormed bool   `json:"ill_formed,omitempty"`
	// Burst (generation only): the program ends with a burst of edits that all
	// aim at ONE instruction (selectors Focus); the scenario aims half of its
	// observers at the same instruction.
	Focus []int `json:"focus,omitempty"`
	// Literal: most instructions are built as struct literals (exported fields
	// set, cached Typ left unset) instead of through the New* constructors.
	Literal bool `json:"literal,omitempty"`
	// Rich: operands and initialisers may be constant expressions of the rarer
	// kinds, aggregate constants, poison (gen2.go).
	Rich bool `json:"rich,omitempty"`
	// ExplicitMD: metadata definitions carry explicit IDs from birth (printing
	// assigns none), and "mdid" steps change them — possibly to an ID that is in
	// use, which makes the module unprintable until a later step repairs it.
	ExplicitMD bool `json:"explicit_md,omitempty"`
}

// Step is one construction or editing step.
type Step struct {
	Op   string `json:"op"`
	K    int    `json:"k,omitempty"`
	A    int    `json:"a,omitempty"`
	B    int    `json:"b,omitempty"`
	C    int    `json:"c,omitempty"`
	D    int    `json:"d,omitempty"`
	P    int    `json:"p,omitempty"`
	Name string `json:"name,omitempty"`
}

func (s Step) String() string {
	return fmt.Sprintf("%s k=%d a=%d b=%d c=%d d=%d p=%d name=%q", s.Op, s.K, s.A, s.B, s.C, s.D, s.P, s.Name)
}

// Obs is one observer call.
type Obs struct {
	K int `json:"k"`
	A int `json:"a,omitempty"`
	B int `json:"b,omitempty"`
	C int `json:"c,omitempty"`
}

var obsNames = []string{"m.String", "m.WriteTo", "f.LLString", "b.LLString", "inst.LLString", "v.Type", "v.Ident", "v.String",
	"inst.Operands", "term.Succs", "g.LLString", "term.LLString", "term.Operands", "f.Type+Ident", "param.String", "operands.Ident+String+Type", "g.Type+Ident+String", "typedef.String+LLString", "metadata.Ident+LLString", "alias/ifunc.Type+Ident+String"}

func (o Obs) String() string {
	return fmt.Sprintf("%s(%d,%d,%d)", obsNames[o.K%len(obsNames)], o.A, o.B, o.C)
}

type genParams struct {
	// IllFormed allows steps that are legal uses of the API but give IR that LLVM
	// rejects (two values sharing a name, an operand replaced by a value of
	// another type, address spaces assigned after construction). They matter for
	// C14 (whatever is printed must not depend on earlier observations); module
	// sources for C13/C19 stay well-formed.
	IllFormed bool
	Steps     int
	Literal   bool // build instructions as struct literals with Typ unset
	// Burst: end the program with a burst of edits on one instruction.
	Burst bool
	// Swarm: only a random subset of the editing step kinds and of the
	// instruction kinds is used in this program (so that the few kinds that are
	// enabled meet each other far more often than in the full mix).
	Swarm     bool
	Metadata  bool // allow metadata definitions and attachments
	BlockAddr bool // allow blockaddress constants of blocks in global initialisers
}

const (
	nInstKinds = 64
	nTermKinds = 12
)

var namePool = []string{"", "", "", "x", "y", "tmp", "val", "res", "a b", "p.q", "entry", "loop", "exit", "0", "1", "3", "7"}

// genProgram draws a program.
func genProgram(r *rng, p genParams) *Prog {
	pr := &Prog{IllFormed: p.IllFormed && !p.Literal, Literal: p.Literal, Rich: r.chance(1, 2), ExplicitMD: p.Metadata && r.chance(1, 4)}
	disabled := map[string]bool{}
	var allowedKinds []int
	if p.Swarm {
		for _, op := range []string{"setfield", "alias", "typedef", "moduleasm", "setasm", "setchars", "attrgroup", "global", "setname", "setop", "setinc", "setgep", "addparam", "setaliasee", "settype", "remove", "md", "insert", "moveblock", "uselist", "detach", "reattach", "mdid", "phiph"} {
			if r.chance(1, 2) {
				disabled[op] = true
			}
		}
		for k := 0; k < nInstKinds; k++ {
			if r.chance(1, 5) {
				allowedKinds = append(allowedKinds, k)
			}
		}
		if len(allowedKinds) < 2 {
			allowedKinds = append(allowedKinds, 0, 18)
		}
	}
	if p.Literal && os.Getenv("SIM_LITERAL_ILLFORMED") != "" {
		// development aid: how known finding K2 was found
		pr.IllFormed = p.IllFormed
	} else if p.Literal {
		// The lazily cached Typ of a literal-built instruction is computed at the
		// first Type() query; edits that change the type an instruction derives from
		// its operands are left out of literal programs (known finding K2, pinned by
		// a tape of its own).
		p.IllFormed = false
	}
	budget := 0
	add := func(s Step) {
		if disabled[s.Op] {
			// (swarm) this kind of step is switched off in this program; the draw is
			// wasted, but never more than a bounded number of times
			if budget++; budget < 4000 {
				return
			}
		}
		pr.Steps = append(pr.Steps, s)
	}
	sel := func() int { return r.intn(1 << 12) }
	// phi (nested operand structure) and call (void/non-void) are drawn more often.
	instKind := func() int {
		k := r.intn(nInstKinds + 8)
		switch {
		case k >= nInstKinds+6:
			return 33 // struct getelementptr (falls back to an alloca of the struct)
		case k >= nInstKinds+3:
			return 18
		case k >= nInstKinds:
			return 11
		}
		if len(allowedKinds) > 0 {
			return allowedKinds[k%len(allowedKinds)]
		}
		return k
	}
	// The six common terminators are drawn twice as often as the rarer ones.
	termKind := func() int {
		if k := r.intn(nTermKinds + 6); k < nTermKinds {
			return k
		} else {
			return k - nTermKinds
		}
	}
	// Optional fields of functions and globals: one new entity in three.
	deco := func() int {
		if r.chance(1, 3) {
			return 1 + r.intn(1<<10)
		}
		return 0
	}
	name := func() string { return namePool[r.intn(len(namePool))] }
	// A little scaffolding first so that most steps apply.
	ng := r.intn(3)
	for i := 0; i < ng; i++ {
		add(Step{Op: "global", K: []int{0, 1, 2, 3, 7}[r.intn(5)], A: sel(), Name: name()})
	}
	nf := 1 + r.intn(3)
	for i := 0; i < nf; i++ {
		add(Step{Op: "func", K: r.intn(5), A: r.intn(4), B: sel(), C: sel(), D: sel(), Name: name()})
		add(Step{Op: "block", A: i, Name: name()})
	}
	if r.chance(1, 3) {
		for i, n := 0, 2+r.intn(3); i < n; i++ {
			add(Step{Op: "attrgroup", K: r.intn(8), A: sel(), B: sel()})
		}
	}
	for len(pr.Steps) < p.Steps {
		switch x := r.intn(100); {
		case x < 1:
			if p.IllFormed && r.chance(1, 3) {
				add(Step{Op: "phiph", K: 0, A: sel(), B: sel(), Name: name()})
				break
			}
			if p.IllFormed && r.chance(1, 3) {
				add(Step{Op: "phiph", K: 1})
				break
			}
			add(Step{Op: "setfield", K: r.intn(6), A: sel(), B: sel()})
		case x < 3:
			switch r.intn(6) {
			case 0:
				add(Step{Op: "alias", K: r.intn(2), A: sel(), Name: name()})
			case 1:
				add(Step{Op: "typedef", K: r.intn(15), A: sel(), Name: name()})
			case 2:
				add(Step{Op: "moduleasm", K: r.intn(4), A: sel()})
			case 3:
				add(Step{Op: "setasm", K: r.intn(3), A: sel(), B: sel()})
			case 4:
				add(Step{Op: "setchars", A: sel(), B: sel()})
			default:
				add(Step{Op: "attrgroup", K: r.intn(8), A: sel(), B: sel()})
			}
		case x < 6:
			add(Step{Op: "global", K: []int{0, 1, 2, 3, 4, 6, 7, 8, 9, 10}[r.intn(10)], A: sel(), P: deco(), Name: name()})
		case x < 10:
			add(Step{Op: "func", K: r.intn(5), A: r.intn(4), B: sel(), C: sel(), D: sel(), P: deco(), Name: name()})
		case x < 20:
			add(Step{Op: "block", A: sel(), P: sel(), Name: name()})
		case x < 58:
			add(Step{Op: "inst", K: instKind(), A: sel(), B: sel(), C: sel(), D: sel(), P: sel(), Name: name()})
		case x < 68:
			add(Step{Op: "insert", K: instKind(), A: sel(), B: sel(), C: sel(), D: sel(), P: sel(), Name: name()})
		case x < 80:
			add(Step{Op: "term", K: termKind(), A: sel(), B: sel(), C: sel(), D: sel(), P: sel(), Name: name()})
		case x < 85:
			add(Step{Op: "setname", K: r.intn(6), A: sel(), B: sel(), C: sel(), Name: name()})
		case x < 88:
			add(Step{Op: "setop", K: r.intn(6), A: sel(), B: sel(), C: sel(), D: sel(), P: sel()})
		case x < 92:
			switch r.intn(11) {
			case 7:
				add(Step{Op: "moveblock", A: sel(), B: sel(), C: sel()})
			case 8:
				add(Step{Op: "uselist", A: sel(), B: sel(), C: sel()})
			case 9:
				add(Step{Op: "detach", A: sel(), B: sel(), C: sel()})
			case 10:
				add(Step{Op: "reattach", A: sel(), P: sel()})
			case 5:
				add(Step{Op: "addclause", K: r.intn(3), A: sel(), B: sel()})
			case 6:
				add(Step{Op: "setint", K: r.intn(4), A: sel()})
			case 0:
				add(Step{Op: "setinc", K: r.intn(3), A: sel(), B: sel(), C: sel(), D: sel(), P: sel()})
			case 1:
				add(Step{Op: "setgep", A: sel(), B: sel()})
			case 2:
				add(Step{Op: "addparam", K: r.intn(5), A: sel(), Name: name()})
			case 3:
				add(Step{Op: "setaliasee", A: sel(), B: sel()})
			default:
				add(Step{Op: "settype", K: r.intn(3), A: sel(), B: sel()})
			}
		case x < 95:
			add(Step{Op: "remove", A: sel(), B: sel(), C: sel()})
		case p.Metadata && x < 98:
			if pr.ExplicitMD && r.chance(1, 3) {
				add(Step{Op: "mdid", A: sel(), B: sel()})
			}
			add(Step{Op: "md", K: r.intn(4), A: sel(), B: sel(), C: sel(), D: sel(), Name: name()})
		default:
			if p.Metadata {
				add(Step{Op: "md", K: r.intn(4), A: sel(), B: sel(), C: sel(), D: sel(), Name: name()})
			} else if p.BlockAddr && r.chance(1, 2) {
				add(Step{Op: "global", K: 5, A: sel(), B: sel(), Name: name()})
			} else {
				add(Step{Op: "inst", K: instKind(), A: sel(), B: sel(), C: sel(), D: sel(), Name: name()})
			}
		}
	}
	if p.Metadata && r.chance(1, 6) {
		// A burst of attachments on ONE function (or global variable): two
		// definitions, a long list of attachments of tied kinds, then more
		// attachments one by one — with whatever the observers do in between.
		fsel, tgt := sel(), []int{3, 8, 13, 18}[r.intn(4)]
		pr.Steps = append(pr.Steps, Step{Op: "md", K: 0, A: sel(), B: sel()}, Step{Op: "md", K: 1, A: sel(), B: sel()})
		pr.Steps = append(pr.Steps, Step{Op: "md", K: 2, A: sel(), B: fsel, C: 2 * r.intn(8), D: tgt})
		for i, n := 0, 2+r.intn(4); i < n; i++ {
			pr.Steps = append(pr.Steps, Step{Op: "md", K: 2, A: sel(), B: fsel, C: 1 + 2*r.intn(8), D: tgt})
			if r.chance(1, 4) {
				pr.Steps = append(pr.Steps, Step{Op: "inst", K: instKind(), A: fsel, B: sel(), C: sel(), D: sel(), Name: name()})
			}
		}
	}
	if p.Burst && r.chance(1, 3) {
		// A burst around ONE identified struct type: make sure there is one, build
		// things whose type contains it (an array over it, a typedef, an alloca),
		// then name / rename / grow it; observers look at globals and types.
		a := sel()
		pr.Steps = append(pr.Steps, Step{Op: "typedef", K: []int{4, 9, 14}[r.intn(3)], A: a, Name: name()})
		for i, n := 0, 1+r.intn(3); i < n; i++ {
			pr.Steps = append(pr.Steps, Step{Op: "global", K: 8, A: a, Name: name()})
		}
		for i, n := 0, 2+r.intn(4); i < n; i++ {
			pr.Steps = append(pr.Steps, Step{Op: "settype", K: r.intn(3), A: a, B: sel()})
			if r.chance(1, 3) {
				pr.Steps = append(pr.Steps, Step{Op: "global", K: 8, A: a, Name: name()})
			}
		}
		pr.Focus = []int{-1, a, 0}
	} else if p.Burst {
		// A burst of edits that all aim at one instruction (none of them changes
		// the shape of the function, so the selectors keep meaning the same
		// instruction): operand replacements, incoming-edge replacements, renames.
		a, b, c := sel(), sel(), sel()
		if r.chance(2, 3) {
			// ... a fresh one of a kind with interesting operand structure, put at the
			// head of its block
			c = 0
			pr.Steps = append(pr.Steps, Step{Op: "insert", K: []int{18, 18, 11, 6, 33, 14}[r.intn(6)], A: a, B: b, C: sel(), D: sel(), P: 0, Name: name()})
		}
		pr.Focus = []int{a, b, c}
		for i, n := 0, 4+r.intn(6); i < n; i++ {
			d := r.intn(4)
			switch r.intn(6) {
			case 0, 1:
				pr.Steps = append(pr.Steps, Step{Op: "setop", K: 1 + r.intn(5), A: a, B: b, C: c, D: d, P: sel()})
			case 2, 3:
				pr.Steps = append(pr.Steps, Step{Op: "setinc", K: r.intn(3), A: a, B: b, C: c, D: d, P: sel()})
			case 4:
				pr.Steps = append(pr.Steps, Step{Op: "setname", K: 1, A: a, B: b, C: c, Name: name()})
			default:
				pr.Steps = append(pr.Steps, Step{Op: "setgep", A: a, B: b})
			}
		}
	}
	return pr
}

// machine interprets programs.
type machine struct {
	m       *ir.Module
	globals []*ir.Global
	funcs   []*mfunc
	mds     []*metadata.Tuple
	structs []*types.StructType // identified struct types whose body may still grow
	gnames  map[string]bool
	uses    map[value.Value]int
	ops     map[interface{}][]value.Value
	// vtype records the type of every value the builder created, so that the
	// builder itself never calls Type() on an instruction (that would be an
	// observation, made identically in the reference run, and would hide
	// anything computed lazily at the first Type() query).
	vtype map[value.Value]types.Type
	// born is the step at which an instruction result came into being; operand
	// replacement only goes to OLDER values (phi excepted), so no cycle of
	// non-phi instructions is ever built.
	born    map[value.Value]int
	applied int
	skipped int
	stepNo  int
	probes  map[string]int64
	// printedOnce is set by print observers; used for probes only.
	printedOnce  bool
	illFormed    bool
	placeholders []placeholder
	// inFailingPrint: a print that is expected to panic is in progress.
	inFailingPrint bool
	literal        bool
	richConsts     bool
	// viaBlock is set while an "inst" step that asked for it builds its
	// instruction: the Block.New* method appends by itself (viaUsed).
	viaBlock *ir.Block
	viaUsed  bool
	// explicitMD: see Prog.ExplicitMD.
	explicitMD bool
	// limbo: instructions taken out of their block by "detach", not yet put back.
	limbo []detached
	// ulUses: how many of the uses of a value are use-list order directives.
	ulUses map[value.Value]int
}

type detached struct {
	in ir.Instruction
	b  *ir.Block
}

// reattach puts a detached instruction back into the block it came from (if that
// block still exists in some function; otherwise it stays out, with its uses).
func (mc *machine) reattach(d detached, pos int) {
	for _, f := range mc.funcs {
		for _, b := range f.f.Blocks {
			if b == d.b {
				p := pos % (len(b.Insts) + 1)
				b.Insts = append(b.Insts, nil)
				copy(b.Insts[p+1:], b.Insts[p:])
				b.Insts[p] = d.in
				return
			}
		}
	}
	mc.unuse(d.in)
}

type mfunc struct {
	f      *ir.Func
	lnames map[string]bool
}

// newLiteralModule is a module written as a struct literal (no constructor runs).
func newLiteralModule() *ir.Module {
	return &ir.Module{NamedMetadataDefs: map[string]*metadata.NamedDef{}}
}

func newMachine() *machine {
	return &machine{m: ir.NewModule(), gnames: map[string]bool{}, uses: map[value.Value]int{}, ops: map[interface{}][]value.Value{}, probes: map[string]int64{}, vtype: map[value.Value]types.Type{}, born: map[value.Value]int{}}
}

var (
	tI1  = types.I1
	tI8  = types.I8
	tI32 = types.I32
	tI64 = types.I64
	tF64 = types.Double
	tP32 = types.NewPointer(types.I32)
	tP8  = types.NewPointer(types.I8)
	// {i32, i1}: the result type of cmpxchg on i32.
	tPair  = types.NewStruct(types.I32, types.I1)
	tVec   = types.NewVector(2, types.I32)
	tPPair = types.NewPointer(tPair)
	// { i8*, i32 }: the usual result type of a landing pad.
	tLPad = types.NewStruct(types.NewPointer(types.I8), types.I32)
)

func retType(k int) types.Type {
	switch k % 5 {
	case 0:
		return types.Void
	case 1:
		return tI32
	case 2:
		return tI64
	case 3:
		return tF64
	}
	return tI1
}

func paramType(k int) types.Type {
	switch k % 5 {
	case 0:
		return tI32
	case 1:
		return tI64
	case 2:
		return tF64
	case 3:
		return tP32
	}
	return tI1
}

func (mc *machine) uniq(scope map[string]bool, name string) string {
	if name == "" {
		return ""
	}
	if scope[name] && mc.illFormed && mc.stepNo%6 == 5 {
		// Occasionally two values of one scope share a name (the API does not
		// prevent it; the printed IR is then invalid, but must still not depend
		// on when it was looked at).
		mc.probes["two values share a name"]++
		return name
	}
	if scope[name] {
		name = fmt.Sprintf("%s.%d", name, mc.stepNo)
	}
	scope[name] = true
	return name
}

func (mc *machine) fn(sel int) *mfunc {
	if len(mc.funcs) == 0 {
		return nil
	}
	return mc.funcs[sel%len(mc.funcs)]
}

func (mc *machine) block(f *mfunc, sel int) *ir.Block {
	if f == nil || len(f.f.Blocks) == 0 {
		return nil
	}
	return f.f.Blocks[sel%len(f.f.Blocks)]
}

// values lists the values of type t currently present in f: parameters,
// instruction results and invoke results, in function order.
func (mc *machine) values(f *mfunc, t types.Type) []value.Value {
	var out []value.Value
	for _, p := range f.f.Params {
		if mc.typeOf(p).Equal(t) {
			out = append(out, p)
		}
	}
	for _, b := range f.f.Blocks {
		for _, in := range b.Insts {
			if v, ok := in.(value.Value); ok && mc.typeOf(v).Equal(t) {
				out = append(out, v)
			}
		}
		if v, ok := b.Term.(*ir.TermInvoke); ok && mc.typeOf(v).Equal(t) {
			out = append(out, v)
		}
	}
	return out
}

// typeOf returns the type the builder knows a value to have (without asking an
// instruction).
func (mc *machine) typeOf(v value.Value) types.Type {
	if t, ok := mc.vtype[v]; ok {
		return t
	}
	switch v := v.(type) {
	case *ir.Param:
		return v.Typ
	case *ir.Block:
		return types.Label
	case constant.Constant:
		return v.Type()
	}
	return v.Type()
}

func (mc *machine) konst(t types.Type, sel int) value.Value {
	if v := mc.konst2(t, sel); v != nil {
		return v
	}
	switch {
	case t.Equal(tF32):
		return constant.NewFloat(tF32, float64(sel%32)/2)
	case t.Equal(tI1):
		return constant.NewInt(tI1, int64(sel%2))
	case t.Equal(tI8):
		return constant.NewInt(tI8, int64(sel%100))
	case t.Equal(tI32):
		return constant.NewInt(tI32, int64(sel%1000)-3)
	case t.Equal(tI64):
		if len(mc.globals) > 0 && sel%5 == 1 {
			return constant.NewPtrToInt(mc.globals[sel%len(mc.globals)], tI64)
		}
		return constant.NewInt(tI64, int64(sel)*7919)
	case t.Equal(tF64):
		return constant.NewFloat(tF64, float64(sel%64)/4)
	case t.Equal(tP32):
		var gs []*ir.Global
		for _, g := range mc.globals {
			if g.ContentType.Equal(tI32) {
				gs = append(gs, g)
			}
		}
		if len(gs) > 0 && sel%3 != 0 {
			g := gs[sel%len(gs)]
			switch sel % 4 {
			case 1:
				// constant expression whose text contains the global's identifier
				return constant.NewGetElementPtr(tI32, g, constant.NewInt(tI64, int64(sel%5)))
			case 2:
				if len(mc.globals) > 0 {
					return constant.NewBitCast(mc.globals[sel%len(mc.globals)], tP32)
				}
			}
			return g
		}
		return constant.NewNull(tP32)
	case t.Equal(tP8):
		return constant.NewNull(tP8)
	case t.Equal(tVec):
		if sel%2 == 0 {
			return constant.NewUndef(tVec)
		}
		return constant.NewVector(tVec, constant.NewInt(tI32, int64(sel%5)), constant.NewInt(tI32, 9))
	case t.Equal(tPair):
		return constant.NewUndef(tPair)
	}
	return constant.NewUndef(t)
}

func (mc *machine) pick(f *mfunc, t types.Type, sel int) value.Value {
	c := mc.values(f, t)
	i := sel % (len(c) + 1)
	if i == len(c) {
		return mc.konst(t, sel/7)
	}
	return c[i]
}

func (mc *machine) use(user interface{}, vs ...value.Value) {
	for _, v := range vs {
		mc.uses[v]++
	}
	mc.ops[user] = append(mc.ops[user], vs...)
}

func (mc *machine) unuse(user interface{}) {
	for _, v := range mc.ops[user] {
		mc.uses[v]--
	}
	delete(mc.ops, user)
}

// newInst builds (without inserting) an instruction of kind k for function f.
func (mc *machine) newInst(f *mfunc, k, c, d int) ir.Instruction {
	var in ir.Instruction
	var calleeRet, rt2 types.Type
	defer func() {
		// Record the result type the builder intends (never ask the instruction).
		if v, ok := in.(value.Value); ok {
			if rt2 != nil {
				mc.vtype[v] = rt2
			} else {
				mc.vtype[v] = resultTypeOfKind(in, k%nInstKinds, d, calleeRet)
			}
			mc.born[v] = mc.stepNo
		}
	}()
	// In literal programs most instructions of the kinds below are built as
	// struct literals: no constructor runs, so neither the cached Typ of the new
	// instruction nor that of its operands is filled in by the builder.
	lit := mc.literal
	if lit {
		// only kinds that have a literal form below: no constructor ever runs, so
		// no cached Typ is filled in by the builder
		if k%nInstKinds < 35 {
			k = []int{0, 1, 2, 3, 4, 5, 6, 7, 8, 9, 11, 12, 13, 15, 16, 17}[k%16]
		} else {
			k = []int{35, 39, 42, 44, 45, 49}[k%6]
		}
		mc.probes["instruction built as a struct literal (Typ unset)"]++
	}
	switch k % nInstKinds {
	case 0:
		x, y := mc.pick(f, tI32, c), mc.pick(f, tI32, d)
		if lit {
			in = &ir.InstAdd{X: x, Y: y}
		} else {
			in = mc.via(func() ir.Instruction { return ir.NewAdd(x, y) }, func(vb *ir.Block) ir.Instruction { return vb.NewAdd(x, y) })
		}
		mc.use(in, x, y)
	case 1:
		x, y := mc.pick(f, tI32, c), mc.pick(f, tI32, d)
		if lit {
			in = &ir.InstSub{X: x, Y: y}
		} else {
			in = mc.via(func() ir.Instruction { return ir.NewSub(x, y) }, func(vb *ir.Block) ir.Instruction { return vb.NewSub(x, y) })
		}
		mc.use(in, x, y)
	case 2:
		x, y := mc.pick(f, tI64, c), mc.pick(f, tI64, d)
		if lit {
			in = &ir.InstMul{X: x, Y: y}
		} else {
			in = mc.via(func() ir.Instruction { return ir.NewMul(x, y) }, func(vb *ir.Block) ir.Instruction { return vb.NewMul(x, y) })
		}
		mc.use(in, x, y)
	case 3:
		x, y := mc.pick(f, tI32, c), mc.pick(f, tI32, d)
		if lit {
			in = &ir.InstXor{X: x, Y: y}
		} else {
			in = mc.via(func() ir.Instruction { return ir.NewXor(x, y) }, func(vb *ir.Block) ir.Instruction { return vb.NewXor(x, y) })
		}
		mc.use(in, x, y)
	case 4:
		x, y := mc.pick(f, tI64, c), mc.pick(f, tI64, d)
		if lit {
			in = &ir.InstShl{X: x, Y: y}
		} else {
			in = mc.via(func() ir.Instruction { return ir.NewShl(x, y) }, func(vb *ir.Block) ir.Instruction { return vb.NewShl(x, y) })
		}
		mc.use(in, x, y)
	case 5:
		x, y := mc.pick(f, tI32, c), mc.pick(f, tI32, d)
		if lit {
			in = &ir.InstICmp{Pred: enum.IPred(c % 10), X: x, Y: y}
		} else {
			in = mc.via(func() ir.Instruction { return ir.NewICmp(enum.IPred(c%10), x, y) }, func(vb *ir.Block) ir.Instruction { return vb.NewICmp(enum.IPred(c%10), x, y) })
		}
		mc.use(in, x, y)
	case 6:
		cond, x, y := mc.pick(f, tI1, c), mc.pick(f, tI32, d), mc.pick(f, tI32, c+d)
		if lit {
			in = &ir.InstSelect{Cond: cond, ValueTrue: x, ValueFalse: y}
		} else {
			in = mc.via(func() ir.Instruction { return ir.NewSelect(cond, x, y) }, func(vb *ir.Block) ir.Instruction { return vb.NewSelect(cond, x, y) })
		}
		mc.use(in, cond, x, y)
	case 7:
		if lit {
			in = &ir.InstAlloca{ElemType: tI32}
		} else {
			in = mc.via(func() ir.Instruction { return ir.NewAlloca(tI32) }, func(vb *ir.Block) ir.Instruction { return vb.NewAlloca(tI32) })
		}
	case 8:
		p := mc.pick(f, tP32, c)
		if lit {
			in = &ir.InstLoad{ElemType: tI32, Src: p}
		} else {
			in = mc.via(func() ir.Instruction { return ir.NewLoad(tI32, p) }, func(vb *ir.Block) ir.Instruction { return vb.NewLoad(tI32, p) })
		}
		mc.use(in, p)
	case 9:
		x, p := mc.pick(f, tI32, c), mc.pick(f, tP32, d)
		if lit {
			in = &ir.InstStore{Src: x, Dst: p}
		} else {
			in = mc.via(func() ir.Instruction { return ir.NewStore(x, p) }, func(vb *ir.Block) ir.Instruction { return vb.NewStore(x, p) })
		}
		mc.use(in, x, p)
	case 10:
		in = mc.via(func() ir.Instruction { return ir.NewFence(enum.AtomicOrderingSequentiallyConsistent) }, func(vb *ir.Block) ir.Instruction { return vb.NewFence(enum.AtomicOrderingSequentiallyConsistent) })
	case 11:
		callee := mc.fn(c)
		var args []value.Value
		var plain []value.Value
		for i, p := range callee.f.Params {
			x := mc.pick(f, p.Typ, d+i)
			plain = append(plain, x)
			if (c+d+i)%4 == 0 {
				// an argument with call-site parameter attributes
				x = ir.NewArg(x, enum.ParamAttrNoUndef)
				mc.probes["call argument with call-site attributes"]++
			}
			args = append(args, x)
		}
		if lit {
			in = &ir.InstCall{Callee: callee.f, Args: args}
		} else {
			in = mc.via(func() ir.Instruction { return ir.NewCall(callee.f, args...) }, func(vb *ir.Block) ir.Instruction { return vb.NewCall(callee.f, args...) })
		}
		calleeRet = callee.f.Sig.RetType
		mc.use(in, append([]value.Value{callee.f}, plain...)...)
	case 12:
		x := mc.pick(f, tI32, c)
		if lit {
			in = &ir.InstZExt{From: x, To: tI64}
		} else {
			in = mc.via(func() ir.Instruction { return ir.NewZExt(x, tI64) }, func(vb *ir.Block) ir.Instruction { return vb.NewZExt(x, tI64) })
		}
		mc.use(in, x)
	case 13:
		x := mc.pick(f, tI64, c)
		if lit {
			in = &ir.InstTrunc{From: x, To: tI32}
		} else {
			in = mc.via(func() ir.Instruction { return ir.NewTrunc(x, tI32) }, func(vb *ir.Block) ir.Instruction { return vb.NewTrunc(x, tI32) })
		}
		mc.use(in, x)
	case 14:
		p, i := mc.pick(f, tP32, c), mc.pick(f, tI64, d)
		in = mc.via(func() ir.Instruction { return ir.NewGetElementPtr(tI32, p, i) }, func(vb *ir.Block) ir.Instruction { return vb.NewGetElementPtr(tI32, p, i) })
		mc.use(in, p, i)
	case 15:
		x, y := mc.pick(f, tF64, c), mc.pick(f, tF64, d)
		if lit {
			in = &ir.InstFAdd{X: x, Y: y}
		} else {
			in = mc.via(func() ir.Instruction { return ir.NewFAdd(x, y) }, func(vb *ir.Block) ir.Instruction { return vb.NewFAdd(x, y) })
		}
		mc.use(in, x, y)
		if fa, ok := in.(*ir.InstFAdd); ok && (c+d)%3 == 0 {
			fa.FastMathFlags = fastMathFlags(c + d)
			mc.probes["fast-math flags"]++
		}
	case 16:
		x := mc.pick(f, tI32, c)
		if lit {
			in = &ir.InstSIToFP{From: x, To: tF64}
		} else {
			in = mc.via(func() ir.Instruction { return ir.NewSIToFP(x, tF64) }, func(vb *ir.Block) ir.Instruction { return vb.NewSIToFP(x, tF64) })
		}
		mc.use(in, x)
	case 17:
		x, y := mc.pick(f, tF64, c), mc.pick(f, tF64, d)
		if lit {
			in = &ir.InstFCmp{Pred: enum.FPred(c % 14), X: x, Y: y}
		} else {
			in = mc.via(func() ir.Instruction { return ir.NewFCmp(enum.FPred(c%14), x, y) }, func(vb *ir.Block) ir.Instruction { return vb.NewFCmp(enum.FPred(c%14), x, y) })
		}
		mc.use(in, x, y)
	case 18:
		n := 1 + c%2
		var incs []*ir.Incoming
		var used []value.Value
		for i := 0; i < n; i++ {
			x := mc.pick(f, tI32, c+i*13)
			b := mc.block(f, d+i*5)
			incs = append(incs, ir.NewIncoming(x, b))
			used = append(used, x, b)
		}
		in = mc.via(func() ir.Instruction { return ir.NewPhi(incs...) }, func(vb *ir.Block) ir.Instruction { return vb.NewPhi(incs...) })
		mc.use(in, used...)
	case 19:
		p := mc.pick(f, tP32, c)
		in = mc.via(func() ir.Instruction { return ir.NewBitCast(p, tP8) }, func(vb *ir.Block) ir.Instruction { return vb.NewBitCast(p, tP8) })
		mc.use(in, p)
	case 20:
		p := mc.pick(f, tP32, c)
		in = mc.via(func() ir.Instruction { return ir.NewPtrToInt(p, tI64) }, func(vb *ir.Block) ir.Instruction { return vb.NewPtrToInt(p, tI64) })
		mc.use(in, p)
	case 21:
		x := mc.pick(f, tF64, c)
		in = mc.via(func() ir.Instruction { return ir.NewFNeg(x) }, func(vb *ir.Block) ir.Instruction { return vb.NewFNeg(x) })
		mc.use(in, x)
	case 22:
		x, y := mc.pick(f, tI1, c), mc.pick(f, tI1, d)
		in = mc.via(func() ir.Instruction { return ir.NewAnd(x, y) }, func(vb *ir.Block) ir.Instruction { return vb.NewAnd(x, y) })
		mc.use(in, x, y)
	case 23:
		x, y := mc.pick(f, tI32, c), mc.pick(f, tI32, d)
		in = mc.via(func() ir.Instruction { return ir.NewSDiv(x, y) }, func(vb *ir.Block) ir.Instruction { return vb.NewSDiv(x, y) })
		mc.use(in, x, y)
	case 24:
		var gs []*ir.Global
		for _, g := range mc.globals {
			if g.ContentType.Equal(tI32) {
				gs = append(gs, g)
			}
		}
		if len(gs) == 0 {
			in = mc.via(func() ir.Instruction { return ir.NewAlloca(tI64) }, func(vb *ir.Block) ir.Instruction { return vb.NewAlloca(tI64) })
		} else {
			g := gs[c%len(gs)]
			in = mc.via(func() ir.Instruction { return ir.NewLoad(tI32, g) }, func(vb *ir.Block) ir.Instruction { return vb.NewLoad(tI32, g) })
			mc.use(in, g)
		}
	case 25:
		p, c1, n1 := mc.pick(f, tP32, c), mc.pick(f, tI32, d), mc.pick(f, tI32, c+d)
		in = mc.via(func() ir.Instruction {
			return ir.NewCmpXchg(p, c1, n1, enum.AtomicOrderingSequentiallyConsistent, enum.AtomicOrderingMonotonic)
		}, func(vb *ir.Block) ir.Instruction {
			return vb.NewCmpXchg(p, c1, n1, enum.AtomicOrderingSequentiallyConsistent, enum.AtomicOrderingMonotonic)
		})
		mc.use(in, p, c1, n1)
	case 26:
		p, x := mc.pick(f, tP32, c), mc.pick(f, tI32, d)
		in = mc.via(func() ir.Instruction {
			return ir.NewAtomicRMW(enum.AtomicOpAdd, p, x, enum.AtomicOrderingAcquireRelease)
		}, func(vb *ir.Block) ir.Instruction {
			return vb.NewAtomicRMW(enum.AtomicOpAdd, p, x, enum.AtomicOrderingAcquireRelease)
		})
		mc.use(in, p, x)
	case 27:
		x := mc.pick(f, tPair, c)
		in = mc.via(func() ir.Instruction { return ir.NewExtractValue(x, uint64(d%2)) }, func(vb *ir.Block) ir.Instruction { return vb.NewExtractValue(x, uint64(d%2)) })
		mc.use(in, x)
	case 28:
		v, e, i := mc.pick(f, tVec, c), mc.pick(f, tI32, d), mc.pick(f, tI32, c+1)
		in = mc.via(func() ir.Instruction { return ir.NewInsertElement(v, e, i) }, func(vb *ir.Block) ir.Instruction { return vb.NewInsertElement(v, e, i) })
		mc.use(in, v, e, i)
	case 29:
		v, i := mc.pick(f, tVec, c), mc.pick(f, tI32, d)
		in = mc.via(func() ir.Instruction { return ir.NewExtractElement(v, i) }, func(vb *ir.Block) ir.Instruction { return vb.NewExtractElement(v, i) })
		mc.use(in, v, i)
	case 30:
		x := mc.pick(f, tI32, c)
		in = ir.NewInstFreeze(x)

		mc.use(in, x)
	case 34:
		// a landing pad that has no clause yet (clauses are appended later)
		in = mc.via(func() ir.Instruction { return ir.NewLandingPad(tLPad) }, func(vb *ir.Block) ir.Instruction { return vb.NewLandingPad(tLPad) })
		mc.probes["landing pad created without clauses"]++
	case 32:
		in = mc.via(func() ir.Instruction { return ir.NewAlloca(tPair) }, func(vb *ir.Block) ir.Instruction { return vb.NewAlloca(tPair) })
	case 33:
		// getelementptr into a struct: the result type depends on the VALUE of the
		// last (constant) index.
		ps := mc.values(f, tPPair)
		if len(ps) == 0 {
			in = mc.via(func() ir.Instruction { return ir.NewAlloca(tPair) }, func(vb *ir.Block) ir.Instruction { return vb.NewAlloca(tPair) })
		} else {
			p := ps[c%len(ps)]
			i0, i1 := constant.NewInt(tI32, 0), constant.NewInt(tI32, int64(d%2))
			in = mc.via(func() ir.Instruction { return ir.NewGetElementPtr(tPair, p, i0, i1) }, func(vb *ir.Block) ir.Instruction { return vb.NewGetElementPtr(tPair, p, i0, i1) })
			mc.use(in, p)
			mc.probes["struct getelementptr"]++
		}
	case 31:
		// The address of a block of another (or the same) function as an operand.
		of := mc.fn(c)
		ob := mc.block(of, d)
		if ob == nil {
			in = mc.via(func() ir.Instruction { return ir.NewAlloca(tI8) }, func(vb *ir.Block) ir.Instruction { return vb.NewAlloca(tI8) })
		} else {
			in = mc.via(func() ir.Instruction { return ir.NewPtrToInt(constant.NewBlockAddress(of.f, ob), tI64) }, func(vb *ir.Block) ir.Instruction { return vb.NewPtrToInt(constant.NewBlockAddress(of.f, ob), tI64) })
			mc.use(in, ob)
			mc.probes["blockaddress operand"]++
		}
	default:
		in, rt2 = mc.newInst2(f, k%nInstKinds, c, d)
	}
	return in
}

// isStructGEP reports whether user is a getelementptr into tPair built by kind 33.
func isStructGEP(user interface{}) bool {
	g, ok := user.(*ir.InstGetElementPtr)
	return ok && g.ElemType != nil && g.ElemType.Equal(tPair) && len(g.Indices) == 2
}

// resultTypeOfKind is the result type of an instruction of generator kind k.
// isCallee reports whether v is the called function of the call or invoke user.
func isCallee(user interface{}, v value.Value) bool {
	fn, ok := v.(*ir.Func)
	if !ok {
		return false
	}
	switch u := user.(type) {
	case *ir.InstCall:
		return u.Callee == value.Value(fn)
	case *ir.TermInvoke:
		return u.Invokee == value.Value(fn)
	}
	return false
}

// compatibleCallee returns a function other than old that can be called with the
// arguments of user and has the same return type (nil if there is none).
func (mc *machine) compatibleCallee(user interface{}, old *ir.Func, pick int) value.Value {
	var args []value.Value
	switch u := user.(type) {
	case *ir.InstCall:
		args = u.Args
	case *ir.TermInvoke:
		args = u.Args
	}
	var cands []*ir.Func
	for _, mf := range mc.funcs {
		g := mf.f
		if g == old || !g.Sig.RetType.Equal(old.Sig.RetType) {
			continue
		}
		if len(g.Params) > len(args) || (len(g.Params) < len(args) && !g.Sig.Variadic) {
			continue
		}
		ok := true
		for i, p := range g.Params {
			a := args[i]
			if w, ok := a.(*ir.Arg); ok {
				a = w.Value
			}
			if !p.Typ.Equal(mc.typeOf(a)) {
				ok = false
			}
		}
		if ok {
			cands = append(cands, g)
		}
	}
	if len(cands) == 0 {
		return nil
	}
	return cands[pick%len(cands)]
}

func bigInt(v int64) *big.Int { return big.NewInt(v) }

// fastMathFlags returns a small list of fast-math flags (sometimes with `fast`
// in the middle or at the end).
func fastMathFlags(sel int) []enum.FastMathFlag {
	all := [][]enum.FastMathFlag{
		{enum.FastMathFlagNNaN},
		{enum.FastMathFlagNNaN, enum.FastMathFlagNSZ, enum.FastMathFlagFast},
		{enum.FastMathFlagFast},
		{enum.FastMathFlagReassoc, enum.FastMathFlagFast, enum.FastMathFlagARcp},
		{enum.FastMathFlagNInf, enum.FastMathFlagContract},
		{enum.FastMathFlagFast, enum.FastMathFlagAFn},
	}
	src := all[sel%len(all)]
	return append([]enum.FastMathFlag(nil), src...)
}

func resultTypeOfKind(in ir.Instruction, k, d int, calleeRet types.Type) types.Type {
	if a, ok := in.(*ir.InstAlloca); ok {
		return types.NewPointer(a.ElemType)
	}
	switch k {
	case 0, 1, 3, 6, 8, 13, 18, 23, 24, 26, 29, 30:
		return tI32
	case 2, 4, 12, 20, 31:
		return tI64
	case 5, 17, 22:
		return tI1
	case 9, 10:
		return types.Void
	case 11:
		if calleeRet != nil {
			return calleeRet
		}
		return types.Void
	case 14:
		return tP32
	case 15, 16, 21:
		return tF64
	case 19:
		return tP8
	case 25:
		return tPair
	case 34:
		return tLPad
	case 27:
		if d%2 == 0 {
			return tI32
		}
		return tI1
	case 28:
		return tVec
	case 33:
		if d%2 == 0 {
			return tP32
		}
		return types.NewPointer(tI1)
	}
	return types.Void
}

func (mc *machine) nameInst(f *mfunc, in ir.Instruction, name string) {
	if name == "" {
		return
	}
	n, ok := in.(value.Named)
	if !ok {
		return
	}
	if mc.typeOf(n).Equal(types.Void) {
		return
	}
	n.SetName(mc.uniq(f.lnames, name))
}

// exec applies one step.
func (mc *machine) exec(s Step) {
	mc.stepNo++
	ok := mc.exec1(s)
	if ok {
		mc.applied++
	} else {
		mc.skipped++
	}
}

func (mc *machine) exec1(s Step) bool {
	switch s.Op {
	case "global":
		name := mc.uniq(mc.gnames, s.Name)
		var g *ir.Global
		switch s.K % 12 {
		case 10, 11:
			// Two constants that agree in their low 64 bits: v as an i32 (or i64) and
			// 2^64+v as an i128; the wide one first, so that the final print meets it
			// first.
			vals := []int64{5000, 12345, 100000, 70000, 4100, 65536, 1000000, 4096}
			v := vals[s.A%len(vals)]
			wide := new(big.Int).Lsh(big.NewInt(1), 64)
			wide.Add(wide, big.NewInt(v))
			gw := mc.m.NewGlobalDef(name, &constant.Int{Typ: types.I128, X: wide})
			mc.globals = append(mc.globals, gw)
			nt := tI32
			if s.A/8%2 == 1 {
				nt = tI64
			}
			g = mc.m.NewGlobalDef(mc.uniq(mc.gnames, ""), constant.NewInt(nt, v))
			mc.probes["two integer constants that agree in their low 64 bits"]++
		case 9:
			// an integer constant large enough to be a candidate for hexadecimal notation
			big := []int64{1000000, 4294901760, 65536, 4096, 305419896, 2863311530, 1099511627775}
			g = mc.m.NewGlobalDef(name, constant.NewInt(tI64, big[s.A%len(big)]))
			mc.probes["large integer constant"]++
		case 8:
			// a global whose type is an array or vector over an identified struct type
			// that may still be named, renamed or grown
			if len(mc.structs) == 0 {
				g = mc.m.NewGlobal(name, types.NewArray(2, tPair))
			} else {
				st := mc.structs[s.A%len(mc.structs)]
				g = mc.m.NewGlobal(name, types.NewArray(uint64(1+s.A%3), st))
			}
			g.Linkage = enum.LinkageExternal
			mc.probes["array over an identified struct type"]++
		case 7:
			// a float/double/half constant whose value needs more precision than
			// its type has, or is special (printed in hexadecimal)
			vals := []float64{2.0000000000000004, 0.1, 1.0000001, 3.0000000000000004, 1e-40, 65504.5, 1.5, math.Inf(1), math.NaN()}
			v := vals[s.A%len(vals)]
			switch s.A / len(vals) % 3 {
			case 0:
				g = mc.m.NewGlobalDef(name, constant.NewFloat(types.Float, v))
			case 1:
				g = mc.m.NewGlobalDef(name, constant.NewFloat(types.Double, v))
			default:
				g = mc.m.NewGlobalDef(name, constant.NewFloat(types.Half, v))
			}
			mc.probes["floating-point constant that is not exact in its type"]++
		case 6:
			if len(mc.globals) == 0 {
				g = mc.m.NewGlobalDef(name, constant.NewInt(tI8, 1))
			} else {
				src := mc.globals[s.A%len(mc.globals)]
				g = mc.m.NewGlobalDef(name, constant.NewBitCast(src, tP8))
			}
		case 0:
			g = mc.m.NewGlobal(name, tI32)
			g.Linkage = enum.LinkageExternal
		case 1:
			var init constant.Constant = constant.NewInt(tI32, int64(s.A%50))
			if mc.richConsts && s.A%4 == 3 {
				// an initialiser of one of the rarer constant kinds
				t := []types.Type{tI64, tI32, tF64, tF32, tI1, tP32, tVec, tPair}[s.A/4%8]
				if c, ok := mc.konst2(t, 3*(s.A/32)).(constant.Constant); ok {
					init = c
				}
			}
			g = mc.m.NewGlobalDef(name, init)
		case 2:
			if len(mc.globals) == 0 {
				g = mc.m.NewGlobalDef(name, constant.NewInt(tI64, int64(s.A)))
			} else {
				g = mc.m.NewGlobalDef(name, mc.globals[s.A%len(mc.globals)])
			}
		case 3:
			if len(mc.funcs) == 0 {
				g = mc.m.NewGlobalDef(name, constant.NewFloat(tF64, 1.5))
			} else {
				g = mc.m.NewGlobalDef(name, mc.funcs[s.A%len(mc.funcs)].f)
			}
		case 4:
			if s.A%4 == 3 {
				// a blob: more than a kilobyte, a third of it bytes that are printed
				// as escapes, held in a slice with room behind its length (what a
				// reader that grows its buffer geometrically leaves)
				n := 1100 + s.A%300
				blob := make([]byte, n, n+2048)
				for i := range blob {
					blob[i] = "ab\x00c\x01\"d\\e\xff"[(i+s.A)%10]
				}
				g = mc.m.NewGlobalDef(name, constant.NewCharArray(blob))
				mc.probes["character array of more than 1 KiB with spare capacity"]++
				break
			}
			g = mc.m.NewGlobalDef(name, constant.NewCharArrayFromString(fmt.Sprintf("s%d\x00", s.A%9)))
			g.Immutable = true
		case 5:
			// blockaddress(@f, %block) in an initialiser.
			f := mc.fn(s.A)
			b := mc.block(f, s.B)
			if b == nil {
				return false
			}
			if s.A%3 == 1 && len(mc.globals) > 0 {
				// ... inside an arithmetic expression (an entry of a relative jump table)
				anchor := mc.globals[s.B%len(mc.globals)]
				g = mc.m.NewGlobalDef(name, constant.NewTrunc(constant.NewSub(constant.NewPtrToInt(constant.NewBlockAddress(f.f, b), tI64), constant.NewPtrToInt(anchor, tI64)), tI32))
				mc.probes["blockaddress inside an arithmetic constant expression"]++
			} else {
				g = mc.m.NewGlobalDef(name, constant.NewBlockAddress(f.f, b))
			}
			mc.probes["blockaddress initialiser"]++
		}
		if mc.printedOnce && name == "" {
			mc.probes["unnamed global appended after a print"]++
		}
		if s.P != 0 {
			mc.decorateGlobal(g, s.P)
		}
		mc.globals = append(mc.globals, g)
		return true
	case "moduleasm":
		// Module-level inline assembly, single- or multi-line entries.
		if len(mc.m.ModuleAsms) >= 6 {
			return false
		}
		lines := []string{".globl x", ".text\n.align 4", "nop", ".section .note\n.long 1\n.long 2"}
		mc.m.ModuleAsms = append(mc.m.ModuleAsms, fmt.Sprintf("%s ; %d", lines[s.K%4], s.A%9))
		mc.probes["module asm appended"]++
		return true
	case "setasm":
		// Positional edits of the module asm list (replace one entry, drop the
		// last entry, truncate to the first entry).
		n := len(mc.m.ModuleAsms)
		if n == 0 {
			return false
		}
		switch s.K % 3 {
		case 0:
			mc.m.ModuleAsms[s.A%n] = fmt.Sprintf("replaced %d", s.B%9)
		case 1:
			mc.m.ModuleAsms = mc.m.ModuleAsms[:n-1]
		default:
			mc.m.ModuleAsms = mc.m.ModuleAsms[:1]
		}
		mc.probes["module asm list edited by position"]++
		return true
	case "setchars":
		// The contents of a character-array initialiser replaced through the
		// exported field by contents of another length (the array type keeps the
		// length it was created with).
		if !mc.illFormed {
			return false
		}
		var cas []*constant.CharArray
		for _, g := range mc.globals {
			if ca, ok := g.Init.(*constant.CharArray); ok {
				cas = append(cas, ca)
			}
		}
		if len(cas) == 0 {
			return false
		}
		ca := cas[s.A%len(cas)]
		ca.X = []byte(fmt.Sprintf("changed contents %d\x00", s.B%1000))
		mc.probes["character array contents replaced"]++
		return true
	case "attrgroup":
		// An attribute group with an explicit ID (IDs are handed out in an order
		// that is not ascending, as a client numbering groups by hand may do) used
		// by one function.
		ids := []int64{4, 1, 7, 0, 9, 2, 12, 5, 3, 30, 8, 6}
		n := len(mc.m.AttrGroupDefs)
		if n >= len(ids) {
			return false
		}
		def := &ir.AttrGroupDef{ID: ids[n]}
		if mc.illFormed && n > 0 && s.B%5 == 1 {
			// a group written as a literal without an ID, or numbered by hand with a
			// number that is taken: two definitions share an ID
			def.ID = mc.m.AttrGroupDefs[s.A%n].ID
			mc.probes["two attribute groups share an ID"]++
		}
		for i, a := range []ir.FuncAttribute{enum.FuncAttrNoUnwind, enum.FuncAttrReadNone, enum.FuncAttrNoInline, ir.AttrString("probe-stack"), ir.AttrPair{Key: "frame-pointer", Value: "all"}} {
			if (s.K+1)>>uint(i%3)&1 == 1 || i == s.K%5 {
				def.FuncAttrs = append(def.FuncAttrs, a)
			}
		}
		f := mc.fn(s.A)
		if f != nil && s.B%5 == 0 && n > 0 {
			// used by a function but never registered with the module
			def.ID = ids[n] + 40
			mc.probes["attribute group used but not registered with the module"]++
		} else {
			if mc.m.AttrGroupDefs == nil {
				// (a client that knows how many groups it will add allocates once:
				// the slice has spare capacity behind its length)
				mc.m.AttrGroupDefs = make([]*ir.AttrGroupDef, 0, 16)
			}
			mc.m.AttrGroupDefs = append(mc.m.AttrGroupDefs, def)
		}
		if f != nil {
			f.f.FuncAttrs = append(f.f.FuncAttrs, def)
		}
		mc.probes["attribute group with a hand-chosen ID appended"]++
		return true
	case "addclause":
		// A clause appended to a landing pad of the function.
		f := mc.fn(s.A)
		if f == nil {
			return false
		}
		var lps []*ir.InstLandingPad
		for _, b := range f.f.Blocks {
			for _, in := range b.Insts {
				if lp, ok := in.(*ir.InstLandingPad); ok {
					lps = append(lps, lp)
				}
			}
		}
		if len(lps) == 0 {
			return false
		}
		lp := lps[s.B%len(lps)]
		switch s.K % 3 {
		case 0, 1:
			lp.Clauses = append(lp.Clauses, ir.NewClause(enum.ClauseTypeCatch, constant.NewNull(tP8)))
		default:
			lp.Clauses = append(lp.Clauses, ir.NewClause(enum.ClauseTypeFilter, constant.NewZeroInitializer(types.NewArray(0, tP8))))
		}
		mc.probes["clause appended to a landing pad"]++
		return true
	case "setint":
		// The value of an integer initialiser replaced (in place or by a new
		// big.Int) by another large value.
		var ints []*constant.Int
		for _, g := range mc.globals {
			if ci, ok := g.Init.(*constant.Int); ok && ci.X.BitLen() > 12 {
				ints = append(ints, ci)
			}
		}
		if len(ints) == 0 {
			return false
		}
		ci := ints[s.A%len(ints)]
		big := []int64{1000000, 4294901760, 65536, 4096, 305419896, 2863311530}
		v := big[(s.A/7+s.K)%len(big)]
		if s.K%2 == 0 {
			ci.X.SetInt64(v)
		} else {
			ci.X = bigInt(v)
		}
		mc.probes["integer constant changed after its creation"]++
		return true
	case "addparam":
		// A parameter appended to an existing function through the exported field
		// (the function's cached signature and pointer type keep the old shape).
		f := mc.fn(s.A)
		if f == nil || len(f.f.Params) >= 5 || !mc.illFormed {
			return false // (existing calls keep their old argument lists: IR LLVM rejects)
		}
		pn := ""
		if s.Name != "" {
			pn = mc.uniq(f.lnames, s.Name)
		}
		f.f.Params = append(f.f.Params, ir.NewParam(pn, paramType(s.K)))
		mc.probes["parameter appended to an existing function"]++
		return true
	case "setaliasee":
		// The aliasee of an alias replaced by another global (possibly of another
		// type) through the exported field.
		if len(mc.m.Aliases) == 0 || len(mc.globals) < 2 || !mc.illFormed {
			return false
		}
		a := mc.m.Aliases[s.A%len(mc.m.Aliases)]
		g := mc.globals[s.B%len(mc.globals)]
		if a.Aliasee == constant.Constant(g) {
			return false
		}
		a.Aliasee = g
		mc.probes["aliasee of an alias replaced"]++
		return true
	case "alias":
		name := mc.uniq(mc.gnames, s.Name)
		if s.K%2 == 0 {
			if len(mc.globals) == 0 {
				return false
			}
			mc.m.NewAlias(name, mc.globals[s.A%len(mc.globals)])
		} else {
			if len(mc.funcs) == 0 {
				return false
			}
			mc.m.NewIFunc(name, mc.funcs[s.A%len(mc.funcs)].f)
		}
		if mc.printedOnce && name == "" {
			mc.probes["unnamed alias/ifunc appended after a print"]++
		}
		return true
	case "typedef":
		name := fmt.Sprintf("ty%d", mc.stepNo)
		var t types.Type
		switch s.K % 3 {
		case 0:
			t = types.NewStruct(types.I32, types.NewPointer(types.I8))
		case 1:
			t = types.NewArray(uint64(1+s.A%4), types.I64)
		default:
			st := types.NewStruct()
			st.Opaque = true
			t = st
		}
		if s.K%5 == 3 && mc.illFormed {
			// An identified struct type used by a global without being added to
			// m.TypeDefs (legal through the API; the definition is simply absent).
			st := types.NewStruct(types.I64, types.I1)
			st.SetName(name)
			g := mc.m.NewGlobalDef(mc.uniq(mc.gnames, s.Name), constant.NewZeroInitializer(st))
			mc.globals = append(mc.globals, g)
			return true
		}
		if s.K%5 == 4 {
			// An identified struct type whose body is filled in later ("settype"),
			// used by a global right away (the usual idiom for recursive types).
			st := types.NewStruct(types.I32)
			mc.m.NewTypeDef(name, st)
			mc.structs = append(mc.structs, st)
			g := mc.m.NewGlobal(mc.uniq(mc.gnames, s.Name), st)
			g.Linkage = enum.LinkageExternal
			mc.globals = append(mc.globals, g)
			return true
		}
		td := mc.m.NewTypeDef(name, t)
		if s.K%3 != 2 {
			g := mc.m.NewGlobalDef(mc.uniq(mc.gnames, s.Name), constant.NewZeroInitializer(td))
			mc.globals = append(mc.globals, g)
		}
		return true
	case "setfield":
		if !mc.illFormed && s.K%6 < 2 {
			return false // address spaces assigned after construction give inconsistent IR
		}
		switch s.K % 6 {
		case 0:
			if len(mc.globals) == 0 {
				return false
			}
			mc.globals[s.A%len(mc.globals)].AddrSpace = types.AddrSpace(s.B % 3)
		case 1:
			f := mc.fn(s.A)
			if f == nil {
				return false
			}
			f.f.AddrSpace = types.AddrSpace(s.B % 3)
		case 2:
			if len(mc.globals) == 0 {
				return false
			}
			mc.globals[s.A%len(mc.globals)].Linkage = []enum.Linkage{enum.LinkageNone, enum.LinkageInternal, enum.LinkagePrivate, enum.LinkageWeak}[s.B%4]
		case 3:
			if len(mc.globals) == 0 {
				return false
			}
			g := mc.globals[s.A%len(mc.globals)]
			g.Immutable = !g.Immutable
		case 4:
			f := mc.fn(s.A)
			if f == nil {
				return false
			}
			f.f.Linkage = []enum.Linkage{enum.LinkageNone, enum.LinkageInternal, enum.LinkageLinkOnceODR}[s.B%3]
		case 5:
			if len(mc.globals) == 0 {
				return false
			}
			mc.globals[s.A%len(mc.globals)].Align = ir.Align(1 << uint(s.B%5))
		}
		return true
	case "func":
		name := mc.uniq(mc.gnames, s.Name)
		lnames := map[string]bool{}
		var params []*ir.Param
		for i := 0; i < s.A%4; i++ {
			pn := ""
			if (s.C>>uint(i))&1 == 1 {
				pn = mc.uniq(lnames, fmt.Sprintf("arg%d", i))
			}
			params = append(params, ir.NewParam(pn, paramType(s.B/(i+1))))
		}
		if s.D%5 == 1 && s.D%2 == 1 {
			// (a variadic function without fixed parameters can stand in for any
			// callee of the same return type)
			params = nil
		}
		f := mc.m.NewFunc(name, retType(s.K), params...)
		if s.D%5 == 1 {
			f.Sig.Variadic = true
			mc.probes["variadic function created"]++
		}
		if s.P != 0 {
			mc.decorateFunc(f, s.P)
		}
		if mc.printedOnce && name == "" {
			mc.probes["unnamed function appended after a print"]++
		}
		mc.funcs = append(mc.funcs, &mfunc{f: f, lnames: lnames})
		return true
	case "block":
		f := mc.fn(s.A)
		if f == nil {
			return false
		}
		if s.P%2 == 1 {
			// created on its own and put into the function by hand (no parent link)
			f.f.Blocks = append(f.f.Blocks, ir.NewBlock(mc.uniq(f.lnames, s.Name)))
			mc.probes["block created with ir.NewBlock and appended by hand"]++
			return true
		}
		f.f.NewBlock(mc.uniq(f.lnames, s.Name))
		return true
	case "moveblock":
		// An empty block nobody refers to is taken out of one function and appended
		// to another (outlining moves whole blocks).
		f, g := mc.fn(s.A), mc.fn(s.C)
		if f == nil || g == nil || f == g || len(f.f.Blocks) < 2 {
			return false
		}
		i := s.B % len(f.f.Blocks)
		b := f.f.Blocks[i]
		if len(b.Insts) != 0 || mc.uses[b] > 0 {
			return false
		}
		for _, d := range mc.limbo {
			if d.b == b {
				return false // an instruction of this block is waiting to be put back
			}
		}
		if b.Term != nil {
			if _, ok := b.Term.(*ir.TermUnreachable); !ok {
				return false
			}
		}
		if !b.IsUnnamed() {
			if g.lnames[b.Name()] {
				return false
			}
			delete(f.lnames, b.Name())
			g.lnames[b.Name()] = true
		}
		f.f.Blocks = append(f.f.Blocks[:i:i], f.f.Blocks[i+1:]...)
		g.f.Blocks = append(g.f.Blocks, b)
		mc.probes["block moved to another function"]++
		if mc.printedOnce {
			mc.probes["block moved to another function after a print"]++
		}
		return true
	case "uselist":
		// A function-level use-list order directive on a local value.
		f := mc.fn(s.A)
		b := mc.block(f, s.B)
		if b == nil || len(b.Insts) == 0 || len(f.f.UseListOrders) >= 3 {
			return false
		}
		v, ok := b.Insts[s.C%len(b.Insts)].(value.Value)
		if !ok || mc.typeOf(v).Equal(types.Void) {
			return false
		}
		f.f.UseListOrders = append(f.f.UseListOrders, &ir.UseListOrder{Value: v, Indices: []uint64{1, 0}})
		// (the directive is a user: the value may be moved, never removed for good)
		mc.uses[v]++
		if mc.ulUses == nil {
			mc.ulUses = map[value.Value]int{}
		}
		mc.ulUses[v]++
		mc.probes["function-level uselistorder directive"]++
		return true
	case "detach":
		// An instruction nobody uses is taken out of its block, to be put back later
		// (moving an instruction is a removal followed by an insertion).
		f := mc.fn(s.A)
		b := mc.block(f, s.B)
		if b == nil || len(b.Insts) == 0 || len(mc.limbo) >= 4 {
			return false
		}
		var idx []int
		for i, in := range b.Insts {
			if v, ok := in.(value.Value); ok && mc.uses[v]-mc.ulUses[v] > 0 {
				continue
			}
			idx = append(idx, i)
		}
		if len(idx) == 0 {
			return false
		}
		i := idx[s.C%len(idx)]
		mc.limbo = append(mc.limbo, detached{in: b.Insts[i], b: b})
		b.Insts = append(b.Insts[:i:i], b.Insts[i+1:]...)
		mc.probes["instruction taken out of its block (to be put back)"]++
		return true
	case "reattach":
		if len(mc.limbo) == 0 {
			return false
		}
		k := s.A % len(mc.limbo)
		d := mc.limbo[k]
		mc.limbo = append(mc.limbo[:k:k], mc.limbo[k+1:]...)
		mc.reattach(d, s.P)
		mc.probes["instruction put back into its block"]++
		return true
	case "inst", "insert":
		f := mc.fn(s.A)
		b := mc.block(f, s.B)
		if b == nil {
			return false
		}
		if s.Op == "inst" && s.P%2 == 1 {
			mc.viaBlock, mc.viaUsed = b, false
		}
		in := mc.newInst(f, s.K, s.C, s.D)
		mc.viaBlock = nil
		mc.nameInst(f, in, s.Name)
		if s.Op == "inst" {
			if !mc.viaUsed {
				b.Insts = append(b.Insts, in)
			}
			mc.viaUsed = false
		} else {
			pos := s.P % (len(b.Insts) + 1)
			b.Insts = append(b.Insts, nil)
			copy(b.Insts[pos+1:], b.Insts[pos:])
			b.Insts[pos] = in
			if mc.printedOnce {
				mc.probes["instruction inserted before numbered values after a print"]++
			}
		}
		if mc.printedOnce {
			mc.probes["instruction added after a print"]++
		}
		return true
	case "term":
		f := mc.fn(s.A)
		b := mc.block(f, s.B)
		if b == nil {
			return false
		}
		if b.Term != nil {
			if v, ok := b.Term.(value.Value); ok && mc.uses[v] > 0 {
				// An invoke whose result is used must not be replaced (removed
				// values have no users).
				return false
			}
			mc.unuse(b.Term)
			mc.probes["terminator replaced"]++
			// The old terminator is gone before the operands of the new one are
			// chosen (its result must not be picked as an operand).
			b.Term = nil
		}
		var t ir.Terminator
		switch s.K % nTermKinds {
		case 0:
			rt := f.f.Sig.RetType
			if rt.Equal(types.Void) {
				if s.P%2 == 1 {
					t = b.NewRet(nil)
				} else {
					t = ir.NewRet(nil)
				}
			} else {
				x := mc.pick(f, rt, s.C)
				if s.P%2 == 1 {
					t = b.NewRet(x)
				} else {
					t = ir.NewRet(x)
				}
				mc.use(t, x)
			}
		case 1:
			tb := mc.block(f, s.C)
			if s.P%2 == 1 {
				t = b.NewBr(tb)
			} else {
				t = ir.NewBr(tb)
			}
			mc.use(t, tb)
		case 2:
			c := mc.pick(f, tI1, s.C)
			b1, b2 := mc.block(f, s.D), mc.block(f, s.C+s.D)
			if s.P%2 == 1 {
				t = b.NewCondBr(c, b1, b2)
			} else {
				t = ir.NewCondBr(c, b1, b2)
			}
			mc.use(t, c, b1, b2)
		case 3:
			x := mc.pick(f, tI32, s.C)
			def := mc.block(f, s.D)
			used := []value.Value{x, def}
			var cases []*ir.Case
			for i := 0; i < 1+s.C%2; i++ {
				cb := mc.block(f, s.D+1+i)
				cases = append(cases, ir.NewCase(constant.NewInt(tI32, int64(i)), cb))
				used = append(used, cb)
			}
			t = ir.NewSwitch(x, def, cases...)
			mc.use(t, used...)
		case 4:
			t = ir.NewUnreachable()
		case 5:
			callee := mc.fn(s.C)
			var args []value.Value
			var plain []value.Value
			for i, p := range callee.f.Params {
				x := mc.pick(f, p.Typ, s.D+i)
				plain = append(plain, x)
				if (s.C+s.D+i)%3 == 0 {
					x = ir.NewArg(x, enum.ParamAttrNoUndef)
					mc.probes["call argument with call-site attributes"]++
				}
				args = append(args, x)
			}
			b1, b2 := mc.block(f, s.D), mc.block(f, s.D+3)
			inv := ir.NewInvoke(callee.f, args, b1, b2)
			mc.vtype[inv] = callee.f.Sig.RetType
			mc.born[inv] = mc.stepNo
			if s.Name != "" && !callee.f.Sig.RetType.Equal(types.Void) {
				inv.SetName(mc.uniq(f.lnames, s.Name))
			}
			t = inv
			mc.use(t, append([]value.Value{callee.f, b1, b2}, plain...)...)
		default:
			t = mc.newTerm2(f, b, s)
			if t == nil {
				t = ir.NewUnreachable()
			}
		}
		b.Term = t
		return true
	case "setname":
		switch s.K % 6 {
		case 0:
			if len(mc.globals) == 0 {
				return false
			}
			g := mc.globals[s.A%len(mc.globals)]
			mc.renameProbe(g.IsUnnamed(), s.Name == "")
			g.SetName(mc.uniq(mc.gnames, s.Name))
		case 1:
			f := mc.fn(s.A)
			if f == nil {
				return false
			}
			mc.renameProbe(f.f.IsUnnamed(), s.Name == "")
			f.f.SetName(mc.uniq(mc.gnames, s.Name))
		case 2:
			f := mc.fn(s.A)
			if f == nil || len(f.f.Params) == 0 {
				return false
			}
			p := f.f.Params[s.B%len(f.f.Params)]
			mc.renameProbe(p.IsUnnamed(), s.Name == "")
			p.SetName(mc.uniq(f.lnames, s.Name))
		case 3:
			f := mc.fn(s.A)
			b := mc.block(f, s.B)
			if b == nil {
				return false
			}
			mc.renameProbe(b.IsUnnamed(), s.Name == "")
			b.SetName(mc.uniq(f.lnames, s.Name))
		case 4:
			f := mc.fn(s.A)
			b := mc.block(f, s.B)
			if b == nil || len(b.Insts) == 0 {
				return false
			}
			n, ok := b.Insts[s.C%len(b.Insts)].(value.Named)
			if !ok || mc.typeOf(n).Equal(types.Void) {
				return false
			}
			mc.renameProbe(n.Name() == "" || isUnnamed(n), s.Name == "")
			n.SetName(mc.uniq(f.lnames, s.Name))
		case 5:
			f := mc.fn(s.A)
			b := mc.block(f, s.B)
			if b == nil {
				return false
			}
			inv, ok := b.Term.(*ir.TermInvoke)
			if !ok || mc.typeOf(inv).Equal(types.Void) {
				return false
			}
			inv.SetName(mc.uniq(f.lnames, s.Name))
		}
		return true
	case "setinc":
		// Replace (or append) one incoming value of a phi by a new Incoming object.
		f := mc.fn(s.A)
		if f == nil {
			return false
		}
		var phis []*ir.InstPhi
		for _, b := range f.f.Blocks {
			for _, in := range b.Insts {
				if p, ok := in.(*ir.InstPhi); ok && len(p.Incs) > 0 {
					phis = append(phis, p)
				}
			}
		}
		if len(phis) == 0 {
			return false
		}
		phi := phis[s.B%len(phis)]
		x := mc.pick(f, tI32, s.C)
		pred := mc.block(f, s.D)
		if uv := value.Value(phi); x == uv {
			return false
		}
		inc := ir.NewIncoming(x, pred)
		lst := mc.ops[phi]
		if s.K%3 == 0 {
			phi.Incs = append(phi.Incs, inc)
			mc.use(phi, x, pred)
		} else {
			i := s.P % len(phi.Incs)
			old := phi.Incs[i]
			phi.Incs[i] = inc
			for _, o := range []value.Value{old.X, old.Pred} {
				for k, v := range lst {
					if v == o {
						lst = append(lst[:k:k], lst[k+1:]...)
						mc.uses[o]--
						break
					}
				}
			}
			mc.ops[phi] = lst
			mc.use(phi, x, pred)
		}
		mc.probes["phi incoming replaced or appended"]++
		return true
	case "settype":
		if len(mc.structs) == 0 {
			return false
		}
		st := mc.structs[s.A%len(mc.structs)]
		switch s.K % 3 {
		case 0:
			st.Fields = append(st.Fields, []types.Type{types.I8, types.I64, types.Double, types.NewPointer(st)}[s.B%4])
		case 1:
			st.Packed = !st.Packed
		case 2:
			st.SetName(fmt.Sprintf("ty%d.renamed", mc.stepNo))
		}
		mc.probes["struct type changed after its creation"]++
		return true
	case "setgep":
		// Flip the field index of a struct getelementptr of the function (its
		// result type depends on the value of that constant).
		f := mc.fn(s.A)
		if f == nil {
			return false
		}
		var geps []*ir.InstGetElementPtr
		for _, b := range f.f.Blocks {
			for _, in := range b.Insts {
				if isStructGEP(in) {
					geps = append(geps, in.(*ir.InstGetElementPtr))
				}
			}
		}
		if len(geps) == 0 {
			return false
		}
		g := geps[s.B%len(geps)]
		ops := g.Operands()
		cur, _ := (*ops[2]).(*constant.Int)
		nv := int64(1)
		if cur != nil && cur.X.Int64() == 1 {
			nv = 0
		}
		*ops[2] = constant.NewInt(tI32, nv)
		mc.probes["field index of a struct getelementptr replaced"]++
		return true
	case "setop":
		// Replace one operand of an instruction or terminator, through the live
		// operand view, by another value of the same type from the same function.
		f := mc.fn(s.A)
		b := mc.block(f, s.B)
		if b == nil {
			return false
		}
		var user interface{}
		var ops []*value.Value
		if s.K%3 == 0 && b.Term != nil {
			user, ops = b.Term, b.Term.Operands()
		} else if len(b.Insts) > 0 {
			in := b.Insts[s.C%len(b.Insts)]
			user, ops = in, in.Operands()
		}
		if len(ops) == 0 {
			return false
		}
		op := ops[s.D%len(ops)]
		if *op == nil {
			return false
		}
		old := *op
		if _, wrapped := old.(*ir.Arg); wrapped {
			return false // an argument carrying call-site attributes stays as it is
		}
		var t types.Type = types.Void
		if !isCallee(user, old) {
			// (the builder itself must not ask a callee for its type: that would be
			// an observation)
			t = mc.typeOf(old)
		}
		var repl value.Value
		switch {
		case isCallee(user, old):
			// The callee of a call or invoke is replaced by another function that
			// accepts the same arguments and returns the same type (its signature may
			// differ in the number of fixed parameters and in being variadic).
			repl = mc.compatibleCallee(user, old.(*ir.Func), s.P)
			if repl != nil {
				mc.probes["callee replaced by a function of another signature"]++
			}
		case isStructGEP(user) && s.D%len(ops) == 2:
			// The field index of a struct getelementptr stays a valid constant (the
			// result type depends on its value).
			repl = constant.NewInt(tI32, int64(s.P%2))
			if ci, ok := old.(*constant.Int); ok && ci.X.Int64() == int64(s.P%2) {
				return false
			}
			mc.probes["field index of a struct getelementptr replaced"]++
		case t.Equal(types.Label):
			repl = mc.block(f, s.P)
		case mc.illFormed && s.K%6 == 5 && (t.Equal(tI32) || t.Equal(tI64)):
			// An operand of ANOTHER integer type (ill-typed IR, but a legal use of
			// the operand view): whatever an instruction caches about its operand
			// types must not depend on when it was first asked.
			other := types.Type(tI64)
			if t.Equal(tI64) {
				other = tI32
			}
			repl = mc.pick(f, other, s.P)
			mc.probes["operand replaced by a value of another type"]++
		case t.Equal(tI1), t.Equal(tI8), t.Equal(tI32), t.Equal(tI64), t.Equal(tF64), t.Equal(tF32), t.Equal(tP32), t.Equal(tP8), t.Equal(tVec), t.Equal(tPair), t.Equal(tLPad):
			repl = mc.pick(f, t, s.P)
		}
		if repl == nil || repl == old {
			return false
		}
		if uv, ok := user.(value.Value); ok {
			if repl == uv {
				return false // an instruction must not become its own operand here
			}
			if _, isPhi := user.(*ir.InstPhi); !isPhi {
				if b, has := mc.born[repl]; has && b >= mc.born[uv] {
					return false // only older values: no cycles outside phi
				}
			}
		}
		*op = repl
		// bookkeeping of uses
		lst := mc.ops[user]
		found := false
		for i, v := range lst {
			if v == old {
				lst[i] = repl
				mc.uses[old]--
				found = true
				break
			}
		}
		if !found {
			// The old operand (e.g. a constant index) was not tracked; the new one
			// must be, or a later "remove" would take away a value that is in use.
			mc.ops[user] = append(lst, repl)
		}
		mc.uses[repl]++
		mc.probes["operand replaced through Operands()"]++
		if mc.printedOnce {
			mc.probes["operand replaced through Operands() after a print"]++
		}
		return true
	case "phiph":
		// A phi put in front of a block as an empty literal (its incoming values
		// are not known yet; nothing can print the function until it is completed),
		// or the oldest such placeholder completed.
		if s.K%2 == 1 {
			for i, ph := range mc.placeholders {
				if len(ph.phi.Incs) == 0 {
					mc.completePlaceholder(ph)
					mc.placeholders = append(mc.placeholders[:i:i], mc.placeholders[i+1:]...)
					mc.probes["placeholder phi completed"]++
					return true
				}
			}
			return false
		}
		f := mc.fn(s.A)
		b := mc.block(f, s.B)
		if b == nil || !mc.illFormed || len(mc.placeholders) >= 2 {
			return false
		}
		ph := &ir.InstPhi{}
		ph.SetName(s.Name)
		b.Insts = append([]ir.Instruction{ph}, b.Insts...)
		mc.placeholders = append(mc.placeholders, placeholder{ph, f.f})
		mc.probes["placeholder phi (empty literal) put in front of a block"]++
		return true
	case "remove":
		f := mc.fn(s.A)
		b := mc.block(f, s.B)
		if b == nil || len(b.Insts) == 0 {
			return false
		}
		// Removable: instructions nobody uses.
		var idx []int
		for i, in := range b.Insts {
			if v, ok := in.(value.Value); ok && mc.uses[v] > 0 {
				continue
			}
			idx = append(idx, i)
		}
		if len(idx) == 0 {
			return false
		}
		i := idx[s.C%len(idx)]
		mc.unuse(b.Insts[i])
		b.Insts = append(b.Insts[:i:i], b.Insts[i+1:]...)
		if mc.printedOnce {
			mc.probes["instruction removed after a print"]++
		}
		return true
	case "mdid":
		// The explicit ID of a metadata definition changed to another small number:
		// a free one, or one that another definition has (the module cannot be
		// printed then, until a later step of this kind resolves the clash).
		if !mc.explicitMD || len(mc.mds) == 0 {
			return false
		}
		md := mc.mds[s.A%len(mc.mds)]
		md.MetadataID = metadata.MetadataID(s.B % (2*len(mc.mds) + 2))
		if mc.mdClash() {
			mc.probes["two metadata definitions carry the same explicit ID"]++
		}
		return true
	case "md":
		switch s.K % 4 {
		case 0, 1:
			// New unnumbered metadata tuple definition.
			md := &metadata.Tuple{MetadataID: -1}
			if mc.explicitMD {
				md.MetadataID = metadata.MetadataID(2*len(mc.mds) + 1)
			}
			md.Fields = append(md.Fields, &metadata.String{Value: fmt.Sprintf("md%d", s.A%17)})
			if len(mc.mds) > 0 && s.B%2 == 0 {
				md.Fields = append(md.Fields, mc.mds[s.B%len(mc.mds)])
			}
			if s.K%4 == 1 {
				md.Distinct = true
			}
			mc.m.MetadataDefs = append(mc.m.MetadataDefs, md)
			mc.mds = append(mc.mds, md)
		case 2:
			// Attach to an instruction.
			if len(mc.mds) == 0 {
				return false
			}
			f := mc.fn(s.B)
			b := mc.block(f, s.C)
			if b == nil || len(b.Insts) == 0 {
				return false
			}
			att := &metadata.Attachment{Name: []string{"dbg", "note", "tbaa"}[s.A%3], Node: mc.mds[s.A%len(mc.mds)]}
			// Every instruction, terminator, function and global embeds a list of
			// metadata attachments.
			var target interface{} = b.Insts[s.D%len(b.Insts)]
			switch s.D % 5 {
			case 3:
				target = f.f
				if s.D%10 == 8 && len(mc.m.Globals) > 0 {
					target = mc.m.Globals[s.C%len(mc.m.Globals)]
				}
			case 4:
				if b.Term != nil {
					target = b.Term
				}
			}
			fv := reflect.ValueOf(target)
			if fv.Kind() != reflect.Ptr {
				return false
			}
			field := fv.Elem().FieldByName("Metadata")
			if !field.IsValid() || !field.CanSet() {
				return false
			}
			field.Set(reflect.Append(field, reflect.ValueOf(att)))
			mc.probes["metadata attached"]++
			if (s.C%7 == 6 || (s.D%5 == 3 && s.C%2 == 0)) && field.Len() < 40 {
				// A long list of attachments on one entity (a vtable has a !type
				// attachment per base class): many of one kind, kinds not grouped,
				// every one with a node of its own.
				kinds := []string{"type", "note", "type", "zz.custom", "type", "absolute_symbol", "type", "aa.custom", "type", "dbg", "type", "note"}
				n := 13 + s.A%8
				for i := 0; i < n; i++ {
					md := &metadata.Tuple{MetadataID: -1}
					if mc.explicitMD {
						md.MetadataID = metadata.MetadataID(2*len(mc.mds) + 1)
					}
					md.Fields = append(md.Fields, &metadata.String{Value: fmt.Sprintf("bulk%d.%d", s.A%17, i)})
					mc.m.MetadataDefs = append(mc.m.MetadataDefs, md)
					mc.mds = append(mc.mds, md)
					a := &metadata.Attachment{Name: kinds[(i+s.B)%len(kinds)], Node: md}
					field.Set(reflect.Append(field, reflect.ValueOf(a)))
				}
				mc.probes["entity with more than twelve metadata attachments"]++
			}
		case 3:
			if len(mc.mds) == 0 {
				return false
			}
			name := "llvm.ident"
			if s.B%2 == 1 {
				name = fmt.Sprintf("nm%d", s.B%5)
			}
			key := name
			if s.C%5 == 4 {
				// a second contribution to the same named metadata kept under a key of
				// its own (the map key is only a handle; what is printed is Name)
				key = name + ".more"
				mc.probes["named metadata stored under a key other than its name"]++
			}
			nd := mc.m.NamedMetadataDefs[key]
			if nd == nil {
				nd = &metadata.NamedDef{Name: name}
				mc.m.NamedMetadataDefs[key] = nd
			}
			nd.Nodes = append(nd.Nodes, mc.mds[s.A%len(mc.mds)])
		}
		return true
	}
	return false
}

// obsFailWriter accepts left bytes and fails from then on.
type obsFailWriter struct {
	left  int
	short bool
}

func (w *obsFailWriter) Write(p []byte) (int, error) {
	if len(p) <= w.left {
		w.left -= len(p)
		return len(p), nil
	}
	n := 0
	if w.short {
		n = w.left
	}
	w.left = 0
	return n, errObsWriter
}

var errObsWriter = fmt.Errorf("observer's writer failed")

func isUnnamed(n value.Named) bool {
	type un interface{ IsUnnamed() bool }
	if u, ok := n.(un); ok {
		return u.IsUnnamed()
	}
	return false
}

func (mc *machine) renameProbe(wasUnnamed, becomesUnnamed bool) {
	if !mc.printedOnce {
		return
	}
	switch {
	case wasUnnamed && !becomesUnnamed:
		mc.probes["numbered value named after a print"]++
	case !wasUnnamed && becomesUnnamed:
		mc.probes["named value made unnamed after a print"]++
	}
}

// finalize gives every block a terminator so that the module can be printed.
type placeholder struct {
	phi *ir.InstPhi
	f   *ir.Func
}

func (mc *machine) completePlaceholder(ph placeholder) {
	if len(ph.phi.Incs) == 0 && len(ph.f.Blocks) > 0 {
		ph.phi.Incs = []*ir.Incoming{ir.NewIncoming(constant.NewInt(tI32, 7), ph.f.Blocks[0])}
		// (the type is written down with the incoming values: a phi literal whose
		// Typ is still unset cannot be printed by a block printer before something
		// has asked for its type — the lazily cached Typ of DESIGN.md 5.5, which
		// the search stays off)
		ph.phi.Typ = tI32
	}
}

func (mc *machine) finalize() {
	for _, d := range mc.limbo {
		mc.reattach(d, 0)
	}
	mc.limbo = nil
	for _, ph := range mc.placeholders {
		mc.completePlaceholder(ph)
	}
	for _, f := range mc.funcs {
		for _, b := range f.f.Blocks {
			if b.Term == nil {
				b.Term = ir.NewUnreachable()
			}
		}
	}
}

func funcPrintable(f *ir.Func) bool {
	for _, b := range f.Blocks {
		if !blockPrintable(b) {
			return false
		}
	}
	return true
}

// isPlaceholder: a phi written as an empty literal, to be completed later (its
// type cannot be asked for yet).
func isPlaceholder(in ir.Instruction) bool {
	p, ok := in.(*ir.InstPhi)
	return ok && len(p.Incs) == 0
}

func blockPrintable(b *ir.Block) bool {
	if b.Term == nil {
		return false
	}
	for _, in := range b.Insts {
		if isPlaceholder(in) {
			return false
		}
	}
	return true
}

// mdClash reports whether two metadata definitions carry the same explicit ID.
func (mc *machine) mdClash() bool {
	if !mc.explicitMD {
		return false
	}
	seen := map[int64]bool{}
	for _, md := range mc.mds {
		if md.MetadataID >= 0 && seen[int64(md.MetadataID)] {
			return true
		}
		seen[int64(md.MetadataID)] = true
	}
	return false
}

// failingPrint attempts a print that cannot succeed in the current state of the
// IR (a block without terminator, two metadata definitions with one ID): the
// panic is the caller's to recover, and nothing of the attempt may stay behind.
func (mc *machine) failingPrint(what string, f func()) {
	if nativeGoroutines {
		return
	}
	mc.inFailingPrint = true
	defer func() { mc.inFailingPrint = false }()
	if pan, _ := protect(f); pan {
		mc.probes["print attempted while the IR cannot be printed (panic recovered): "+what]++
	}
}

func (mc *machine) modulePrintable() bool {
	if mc.mdClash() {
		return false
	}
	for _, f := range mc.funcs {
		if !funcPrintable(f.f) {
			return false
		}
	}
	return true
}

// observe performs one observer call. It returns a description of a violation
// (print twice differs) or "".
func (mc *machine) observe(o Obs) (applied bool, bad string) {
	twice := func(what string, f func() string) string {
		a := f()
		b := f()
		if a != b {
			return fmt.Sprintf("%s printed twice in a row gives different text: %s", what, firstDiff(a, b))
		}
		return ""
	}
	switch o.K % len(obsNames) {
	case 0:
		if !mc.modulePrintable() {
			if o.A%3 == 0 {
				mc.failingPrint("m.String", func() { _ = mc.m.String() })
				return true, ""
			}
			return false, ""
		}
		mc.printedOnce = true
		return true, twice("m.String()", func() string { return mc.m.String() })
	case 1:
		if !mc.modulePrintable() {
			if o.A%3 == 0 {
				mc.failingPrint("m.WriteTo", func() { var buf bytes.Buffer; mc.m.WriteTo(&buf) })
				return true, ""
			}
			return false, ""
		}
		mc.printedOnce = true
		if o.B%4 == 3 {
			// an observation whose destination fails (a full disk, a closed
			// connection) after a few bytes, accepting part of the failing write
			w := &obsFailWriter{left: (o.C % 64) * 9, short: o.A%2 == 0}
			mc.m.WriteTo(w)
			mc.probes["print observer whose writer failed"]++
			return true, ""
		}
		return true, twice("m.WriteTo()", func() string {
			var buf bytes.Buffer
			mc.m.WriteTo(&buf)
			return buf.String()
		})
	case 2:
		f := mc.fn(o.A)
		if f != nil && !funcPrintable(f.f) && o.B%3 == 0 {
			mc.failingPrint("f.LLString", func() { _ = f.f.LLString() })
			return true, ""
		}
		if f == nil || !funcPrintable(f.f) {
			return false, ""
		}
		return true, twice("f.LLString()", func() string { return f.f.LLString() })
	case 3:
		f := mc.fn(o.A)
		b := mc.block(f, o.B)
		if b != nil && !blockPrintable(b) && o.C%3 == 0 {
			mc.failingPrint("b.LLString", func() { _ = b.LLString() })
			return true, ""
		}
		if b == nil || !blockPrintable(b) {
			return false, ""
		}
		return true, twice("b.LLString()", func() string { return b.LLString() })
	case 4, 5, 6, 7, 8:
		f := mc.fn(o.A)
		b := mc.block(f, o.B)
		if b == nil || len(b.Insts) == 0 {
			return false, ""
		}
		in := b.Insts[o.C%len(b.Insts)]
		if isPlaceholder(in) {
			return false, ""
		}
		switch o.K % len(obsNames) {
		case 4:
			return true, twice("inst.LLString()", func() string { return in.LLString() })
		case 5:
			if v, ok := in.(value.Value); ok {
				_ = v.Type()
				return true, ""
			}
		case 6:
			if v, ok := in.(value.Value); ok {
				_ = v.Ident()
				return true, ""
			}
		case 7:
			if v, ok := in.(value.Value); ok {
				_ = v.String()
				return true, ""
			}
		case 8:
			for _, op := range in.Operands() {
				_ = *op
			}
			return true, ""
		}
		return false, ""
	case 9, 11, 12:
		f := mc.fn(o.A)
		b := mc.block(f, o.B)
		if b == nil || b.Term == nil {
			return false, ""
		}
		switch o.K % len(obsNames) {
		case 9:
			_ = b.Term.Succs()
		case 11:
			return true, twice("term.LLString()", func() string { return b.Term.LLString() })
		case 12:
			for _, op := range b.Term.Operands() {
				_ = *op
			}
		}
		return true, ""
	case 10:
		if len(mc.globals) == 0 {
			return false, ""
		}
		g := mc.globals[o.A%len(mc.globals)]
		return true, twice("g.LLString()", func() string { return g.LLString() })
	case 13:
		f := mc.fn(o.A)
		if f == nil {
			return false, ""
		}
		_ = f.f.Type()
		_ = f.f.Ident()
		_ = f.f.String()
		return true, ""
	case 14:
		f := mc.fn(o.A)
		if f == nil || len(f.f.Params) == 0 {
			return false, ""
		}
		p := f.f.Params[o.B%len(f.f.Params)]
		_ = p.String()
		_ = p.Type()
		return true, ""
	case 15:
		f := mc.fn(o.A)
		b := mc.block(f, o.B)
		if b == nil {
			return false, ""
		}
		var ops []*value.Value
		if len(b.Insts) > 0 {
			ops = b.Insts[o.C%len(b.Insts)].Operands()
		} else if b.Term != nil {
			ops = b.Term.Operands()
		}
		for _, op := range ops {
			if *op != nil {
				_ = (*op).Ident()
				_ = (*op).String()
				_ = (*op).Type()
			}
		}
		return true, ""
	case 17:
		if len(mc.m.TypeDefs) == 0 {
			return false, ""
		}
		t := mc.m.TypeDefs[o.A%len(mc.m.TypeDefs)]
		_ = t.String()
		_ = t.LLString()
		return true, ""
	case 18:
		if len(mc.m.MetadataDefs) == 0 {
			return false, ""
		}
		md := mc.m.MetadataDefs[o.A%len(mc.m.MetadataDefs)]
		_ = md.Ident()
		_ = md.LLString()
		return true, ""
	case 19:
		if n := len(mc.m.Aliases); n > 0 && o.B%2 == 0 {
			a := mc.m.Aliases[o.A%n]
			_ = a.Type()
			_ = a.Ident()
			_ = a.String()
			return true, ""
		}
		if n := len(mc.m.IFuncs); n > 0 {
			a := mc.m.IFuncs[o.A%n]
			_ = a.Type()
			_ = a.Ident()
			_ = a.String()
			return true, ""
		}
		return false, ""
	case 16:
		if len(mc.globals) == 0 {
			return false, ""
		}
		g := mc.globals[o.A%len(mc.globals)]
		_ = g.Type()
		_ = g.Ident()
		_ = g.String()
		if g.Init != nil {
			_ = g.Init.Ident()
			_ = g.Init.String()
		}
		return true, ""
	}
	return false, ""
}

// runProgramAlone runs p without any observer, finalizes and returns the
// module and the machine (for handles).
func runProgramAlone(p *Prog) (m *ir.Module, mc *machine, err error) {
	mc = newMachine()
	mc.illFormed = p.IllFormed
	mc.literal = p.Literal
	if p.Literal {
		mc.m = newLiteralModule()
	}
	mc.richConsts = p.Rich
	mc.explicitMD = p.ExplicitMD
	if pan, msg := protect(func() {
		for _, s := range p.Steps {
			mc.exec(s)
		}
		mc.finalize()
	}); pan {
		return nil, mc, fmt.Errorf("construction program panicked: %s", msg)
	}
	return mc.m, mc, nil
}
