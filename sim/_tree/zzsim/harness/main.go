// Command harness is the simulation worker. It is compiled by /verif's driver
// against an instrumented scratch copy of llir/llvm and talks JSON lines.
package main

import (
	"encoding/json"
	"flag"
	"fmt"
	"os"
	"runtime"
	"runtime/pprof"
	"strconv"
	"strings"
	"time"

	"github.com/llir/llvm/zzsim/simrt"
)

var (
	flagProp     = flag.String("prop", "", "property id")
	flagTier     = flag.String("tier", "quick", "quick | thorough")
	flagSeed     = flag.Uint64("seed", 1, "base seed (VERIF_SEED)")
	flagShard    = flag.String("shard", "0/1", "this worker's shard i/n")
	flagRuns     = flag.Int64("runs", 0, "number of seeded runs over all shards")
	flagFrom     = flag.Int64("from", 0, "first run index (restart after an early stop)")
	flagCorpus   = flag.String("corpus", "", "comma separated label=dir corpus roots")
	flagReplay   = flag.String("replay", "", "replay file to execute")
	flagRaceLog  = flag.String("racelog", "", "GORACE log_path prefix of this process")
	flagSites    = flag.String("sites", "", "site table written by the instrumenter")
	flagBudget   = flag.Duration("budget", 0, "stop after this much wall time (0 = none)")
	flagSelf     = flag.Bool("selftest", false, "print one event log line per run (determinism self-test)")
	flagMode     = flag.String("mode", "", "sub-mode of the property's check")
	flagMaxFail  = flag.Int("maxfail", 3, "stop after this many failures")
	flagRefFile  = flag.String("ref", "", "C12: reference table written by a -mode ref run in another process")
	flagLibGo    = flag.Bool("libgo", false, "the code under test starts goroutines: run every call into it as a simulator task, so that its goroutines are scheduled by the simulator too")
	flagMaxRuns  = flag.Int("maxruns", 0, "exit (asking to be restarted) after this many runs in one process (0 = no limit)")
	flagProgress = flag.String("progress", "", "file in which the index of the run in progress is kept (read by the driver if this process dies)")
	flagSkip     = flag.String("skip", "", "ref mode: comma separated corpus indexes to leave out (they killed an earlier reference process)")
	flagCands    = flag.String("candidates", "", "print one-step reductions of the scenario in this replay file, one JSON per line")
)

var (
	shardI, shardN int64
	spinSleep      bool
	startTime      = time.Now()
	raceEnabled    = false
)

type propImpl struct {
	// search runs this worker's share of the tier and emits records.
	search func()
	// replay executes one replay file and emits a fail record if it fails.
	replay func(raw json.RawMessage) *outRec
	// candidates proposes one-step reductions of a scenario.
	candidates func(raw json.RawMessage) []interface{}
}

var props = map[string]*propImpl{}

func main() {
	flag.Parse()
	if _, err := fmt.Sscanf(*flagShard, "%d/%d", &shardI, &shardN); err != nil || shardN <= 0 {
		fmt.Fprintln(os.Stderr, "harness: bad -shard")
		os.Exit(2)
	}
	spinSleep = runtime.GOMAXPROCS(0) > 1
	simrt.SetAbortHook(abortHook)
	simrt.SeamPool(true)
	if *flagReplay != "" {
		doReplay(*flagReplay)
		return
	}
	if *flagCands != "" {
		doCandidates(*flagCands)
		return
	}
	p := props[*flagProp]
	if p == nil {
		fmt.Fprintln(os.Stderr, "harness: unknown property", *flagProp)
		os.Exit(2)
	}
	p.search()
}

// ReplayFile is the on-disk form of one failing (or sample) run.
type ReplayFile struct {
	Property string          `json:"property"`
	Seed     uint64          `json:"seed"`
	BaseSeed uint64          `json:"base_seed"`
	Class    string          `json:"class"`
	Sig      string          `json:"sig"`
	Detail   string          `json:"detail,omitempty"`
	Race     bool            `json:"race_build"`
	Procs    int             `json:"gomaxprocs"`
	Scenario json.RawMessage `json:"scenario"`
	Trace    []string        `json:"trace,omitempty"`
	Note     string          `json:"note,omitempty"`
}

func doReplay(path string) {
	b, err := os.ReadFile(path)
	if err != nil {
		fmt.Fprintln(os.Stderr, "harness:", err)
		os.Exit(2)
	}
	var rf ReplayFile
	if err := json.Unmarshal(b, &rf); err != nil {
		fmt.Fprintln(os.Stderr, "harness: bad replay file:", err)
		os.Exit(2)
	}
	p := props[rf.Property]
	if p == nil {
		fmt.Fprintln(os.Stderr, "harness: unknown property in replay file:", rf.Property)
		os.Exit(2)
	}
	*flagProp = rf.Property
	curReplay = &rf
	rec := p.replay(rf.Scenario)
	if rec != nil {
		emit(*rec)
	} else {
		emit(outRec{T: "note", Property: rf.Property, Detail: "replay passed"})
	}
}

func doCandidates(path string) {
	b, err := os.ReadFile(path)
	if err != nil {
		os.Exit(2)
	}
	var rf ReplayFile
	if err := json.Unmarshal(b, &rf); err != nil {
		os.Exit(2)
	}
	p := props[rf.Property]
	if p == nil || p.candidates == nil {
		return
	}
	seen := map[string]bool{string(compact(rf.Scenario)): true}
	for _, c := range p.candidates(rf.Scenario) {
		jb, err := json.Marshal(c)
		if err != nil || seen[string(jb)] {
			continue
		}
		seen[string(jb)] = true
		fmt.Println(string(jb))
	}
}

func compact(raw json.RawMessage) []byte {
	var v interface{}
	if json.Unmarshal(raw, &v) != nil {
		return raw
	}
	out, _ := json.Marshal(v)
	return out
}

// curReplay / curScenario let the abort hook say what was running.
var (
	curReplay   *ReplayFile
	curScenario interface{}
	curSeed     uint64
)

func abortHook(kind, detail string) {
	if os.Getenv("SIM_DUMP") != "" {
		// development aid: where is every goroutine?
		fmt.Fprintln(os.Stderr, "ABORT", kind, detail)
		pprof.Lookup("goroutine").WriteTo(os.Stderr, 2)
	}
	if kind != simrt.AbortDeadlock && kind != simrt.AbortStepCap && kind != simrt.AbortWatchdog {
		// A limit of the simulator itself (task table, mutex table): no verdict.
		emit(outRec{T: "note", Property: *flagProp, Seed: curSeed, Class: "harness-limit-" + kind, Detail: detail})
		os.Exit(2)
	}
	if kind == simrt.AbortWatchdog && runRace0 >= 0 && raceLogSize() > runRace0 {
		// The run did not end in time, and the race detector has been reporting
		// since it began: a run that drowns in race reports (each one costs
		// milliseconds) is a run with a race, not trouble of the harness.
		log := raceLogFrom(runRace0, 1<<18)
		if sig, both, first := raceSignature(log); both {
			emit(outRec{T: "fail", Property: *flagProp, Seed: curSeed, Class: "race", Sig: sig, Detail: "(the run was still going after the watchdog's time, with the race detector reporting throughout) " + first, Replay: curScenario,
				Extra: map[string]interface{}{"trace": traceStrings(simrt.Trace(), 60)}})
			emit(outRec{T: "summary", Property: *flagProp, Summary: &Summary{Stopped: true, Failures: 1, NextSeed: uint64(curIndex + shardN)}})
			os.Exit(0)
		}
	}
	if kind == simrt.AbortWatchdog {
		fmt.Fprintln(os.Stderr, "harness: watchdog:", detail)
		emit(outRec{T: "note", Property: *flagProp, Seed: curSeed, Class: "harness-watchdog", Detail: detail})
		os.Exit(2)
	}
	if kind == simrt.AbortDeadlock {
		detail = "no task can run:"
		for i, s := range simrt.BlockedSites() {
			if s >= 0 {
				detail += fmt.Sprintf("\n  task %d is blocked (mutex, condition variable, wait group, channel or sleep) at %s", i, siteName(s))
			}
		}
	}
	emit(outRec{T: "fail", Property: *flagProp, Seed: curSeed, Class: kind, Sig: kind, Detail: detail, Replay: curScenario,
		Extra: map[string]interface{}{"trace": traceStrings(simrt.Trace(), 60)}})
	emit(outRec{T: "summary", Property: *flagProp, Summary: &Summary{Stopped: true, Failures: 1, NextSeed: uint64(curIndex + shardN)}})
	os.Exit(0)
}

var curIndex int64

// nativeGoroutines: the instrumentation is degraded, goroutines the code under
// test starts may be native ones; scenarios whose expected outcome is a panic
// are left out (such a panic could not be recovered).
var nativeGoroutines = os.Getenv("SIM_NATIVE") != ""

// runRace0 is the size of the race detector's log when the concurrent run in
// progress began (-1: no such run).
var runRace0 int64 = -1

func corpusRoots() []string {
	var out []string
	for _, s := range strings.Split(*flagCorpus, ",") {
		if s = strings.TrimSpace(s); s != "" {
			out = append(out, s)
		}
	}
	return out
}

func overBudget() bool {
	return *flagBudget > 0 && time.Since(startTime) > *flagBudget
}

// raceLogSize returns the size of this process's race log (0 if none).
func raceLogSize() int64 {
	if *flagRaceLog == "" {
		return 0
	}
	fi, err := os.Stat(*flagRaceLog + "." + strconv.Itoa(os.Getpid()))
	if err != nil {
		return 0
	}
	return fi.Size()
}

// raceLogFrom returns at most max bytes of the race log from offset from.
func raceLogFrom(from int64, max int) string {
	f, err := os.Open(*flagRaceLog + "." + strconv.Itoa(os.Getpid()))
	if err != nil {
		return ""
	}
	defer f.Close()
	buf := make([]byte, max)
	n, _ := f.ReadAt(buf, from)
	return string(buf[:n])
}

func raceLogText() string {
	b, _ := os.ReadFile(*flagRaceLog + "." + strconv.Itoa(os.Getpid()))
	return string(b)
}

// historyInfo describes how to re-run this worker process up to and including
// run idx (used when a failing run does not reproduce alone in a fresh process).
func historyInfo(idx int64) map[string]interface{} {
	return map[string]interface{}{"prop": *flagProp, "tier": *flagTier, "seed": fmt.Sprint(*flagSeed), "mode": *flagMode, "shard": *flagShard, "from": *flagFrom, "upto": idx + 1}
}

// simCall runs f, a call into the code under test made outside the main task
// set of a run (reference computations, sequential scenarios). If the code under
// test starts goroutines of its own, f runs as a single simulator task so that
// those goroutines become tasks as well (scheduled deterministically: with an
// exhausted tape a helper goroutine runs when its parent blocks). A panic in f
// or in a goroutine it started is re-raised in the caller.
// forceTasks makes simCall run f as a simulator task even when the code under
// test has no goroutines of its own: a call that blocks for ever on a lock
// (left locked by an earlier call that panicked, say) is then a deadlock
// verdict instead of a hung worker.
var forceTasks bool

func simCall(f func()) {
	if (!*flagLibGo && !forceTasks) || simrt.InTask() {
		f()
		return
	}
	res := simrt.RunTasks([]func(){f}, 120*time.Second)
	for _, r := range res {
		if r.Panic != nil {
			panic(r.Panic)
		}
	}
}

// simCallSafe is simCall for callers that expect f to have recovered every
// panic itself: it reports (instead of re-raising) the one panic f cannot
// recover, that of a goroutine the code under test started.
func simCallSafe(f func()) (crashed bool, msg string) {
	return protect(func() { simCall(f) })
}

var progressFile *os.File

// noteProgress records the index of the run that is about to start.
func noteProgress(idx int64) {
	if *flagProgress == "" {
		return
	}
	if progressFile == nil {
		f, err := os.OpenFile(*flagProgress, os.O_CREATE|os.O_WRONLY|os.O_TRUNC, 0o644)
		if err != nil {
			return
		}
		progressFile = f
	}
	progressFile.WriteAt([]byte(fmt.Sprintf("%-20d", idx)), 0)
}
