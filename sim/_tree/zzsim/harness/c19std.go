package main

// C19: destinations that are real standard-library writers (code under test may
// take another path for a concrete type it recognises: *os.File, *bufio.Writer,
// *bytes.Buffer, io.Discard …) and a writer that calls back into the module it
// is being handed.

import (
	"bufio"
	"bytes"
	"errors"
	"fmt"
	"io"
	"os"
	"strings"
	"sync"
	"time"

	"github.com/llir/llvm/ir"
	"github.com/llir/llvm/zzsim/simrt"
)

// c19StdKinds are the Kind values handled by c19RunStd.
var c19StdKinds = map[string]bool{
	"osfile-ok": true, "osfile-closed": true, "osfile-rdonly": true, "osfile-devfull": true, "ospipe-closed": true,
	"iopipe": true, "bufio": true, "multi": true, "discard": true, "bytesbuffer": true, "stringsbuilder": true,
	"reentrant": true, "bytesbuffer-used": true, "stringsbuilder-used": true, "osfile-panics": true,
}

// c19Tmp is where the real files of the file destinations live (each is removed
// as soon as its WriteTo call has been checked).
func c19Tmp() string { return os.TempDir() }

// reentrantWriter hands everything to a simWriter, and during its second Write
// (or its first, if there is only one) asks the module it is being given for its
// text — what a logging or diffing writer may do. The text must be the usual
// one, and the call must return.
type reentrantWriter struct {
	*simWriter
	m       *ir.Module
	S       string
	seen    int
	differs string
	inside  bool
}

func (w *reentrantWriter) Write(p []byte) (int, error) {
	w.seen++
	if w.seen == 2 && !w.inside {
		w.inside = true
		if s := w.m.String(); s != w.S {
			w.differs = firstDiff(s, w.S)
		}
		w.inside = false
	}
	return w.simWriter.Write(p)
}

// c19RunStd executes one WriteTo into a standard-library destination.
func c19RunStd(sc *C19Step, m *ir.Module, S string) *c19Outcome {
	injected := injectedError(sc)
	out := &c19Outcome{}
	fail := func(class, detail string) *c19Outcome {
		out.class, out.sig, out.detail = class, class+" ("+sc.Kind+")", detail
		return out
	}
	var dst io.Writer
	// check is called after WriteTo returned (n, err).
	var check func(n int64, err error) *c19Outcome
	var cleanup func()
	exact := func(got string, n int64) *c19Outcome {
		if !strings.HasPrefix(S, got) {
			return fail("bytes-not-prefix", fmt.Sprintf("delivered %d bytes that are not a prefix of String(): %s", len(got), firstDiff(got, S[:minInt(len(S), len(got))])))
		}
		if n != int64(len(got)) {
			return fail("count", fmt.Sprintf("WriteTo returned n=%d but the %s destination accepted %d bytes", n, sc.Kind, len(got)))
		}
		return nil
	}
	healthy := func(got string, n int64, err error) *c19Outcome {
		if err != nil {
			return fail("spurious-error", fmt.Sprintf("the %s destination never failed but WriteTo returned err=%v", sc.Kind, err))
		}
		if got != S {
			return fail("bytes-differ", fmt.Sprintf("healthy %s destination received %d bytes, String() has %d: %s", sc.Kind, len(got), len(S), firstDiff(got, S)))
		}
		if n != int64(len(S)) {
			return fail("count", fmt.Sprintf("WriteTo returned n=%d, the healthy %s destination accepted %d bytes", n, sc.Kind, len(S)))
		}
		return nil
	}
	switch sc.Kind {
	case "osfile-ok":
		f, e := os.CreateTemp(c19Tmp(), "ok-")
		if e != nil {
			return out
		}
		dst = f
		cleanup = func() { f.Close(); os.Remove(f.Name()) }
		check = func(n int64, err error) *c19Outcome {
			b, _ := os.ReadFile(f.Name())
			return healthy(string(b), n, err)
		}
	case "osfile-closed", "osfile-rdonly", "osfile-devfull", "ospipe-closed":
		// Real files that accept nothing: a closed file, a descriptor opened for
		// reading only, /dev/full, a pipe whose reading end is gone.
		var f *os.File
		var e error
		var name string
		switch sc.Kind {
		case "osfile-closed":
			f, e = os.CreateTemp(c19Tmp(), "closed-")
			if e == nil {
				name = f.Name()
				f.Close()
			}
		case "osfile-rdonly":
			var t *os.File
			t, e = os.CreateTemp(c19Tmp(), "rdonly-")
			if e == nil {
				name = t.Name()
				t.Close()
				f, e = os.Open(name)
			}
		case "osfile-devfull":
			f, e = os.OpenFile("/dev/full", os.O_WRONLY, 0)
		default:
			var r *os.File
			r, f, e = os.Pipe()
			if e == nil {
				r.Close()
			}
		}
		if e != nil || f == nil {
			return out // no such destination on this system: nothing run
		}
		dst = f
		cleanup = func() {
			f.Close()
			if name != "" {
				os.Remove(name)
			}
		}
		out.faultFired = true
		check = func(n int64, err error) *c19Outcome {
			if name != "" {
				if b, _ := os.ReadFile(name); len(b) != 0 {
					return fail("bytes-not-prefix", fmt.Sprintf("%d bytes arrived in a file that cannot be written", len(b)))
				}
			}
			if len(S) == 0 {
				return nil
			}
			if err == nil {
				return fail("error-lost", fmt.Sprintf("every Write to the %s destination fails, WriteTo returned n=%d err=nil", sc.Kind, n))
			}
			var pe *os.PathError
			if !errors.As(err, &pe) {
				return fail("error-lost", fmt.Sprintf("the %s destination fails with an *os.PathError; WriteTo returned %T: %v", sc.Kind, err, err))
			}
			if n != 0 {
				return fail("count", fmt.Sprintf("WriteTo returned n=%d but the %s destination accepted 0 bytes (err=%v)", n, sc.Kind, err))
			}
			return nil
		}
	case "iopipe":
		// An io.Pipe whose reader takes exactly k bytes and then closes with the
		// injected error: the writer side reports exactly the bytes consumed.
		pr, pw := io.Pipe()
		dst = pw
		var got bytes.Buffer
		var wg sync.WaitGroup
		wg.Add(1)
		go func() {
			defer wg.Done()
			if sc.K < 0 {
				io.Copy(&got, pr)
				return
			}
			io.CopyN(&got, pr, int64(sc.K))
			pr.CloseWithError(injected)
		}()
		cleanup = func() { pw.Close(); wg.Wait() }
		check = func(n int64, err error) *c19Outcome {
			pw.Close()
			wg.Wait()
			g := got.String()
			if sc.K < 0 || sc.K >= len(S) {
				// the reader wanted at least everything: nothing failed
				// (with k == len(S) the reader closes after the last byte; no Write follows)
				return healthy(g, n, err)
			}
			out.faultFired = true
			if o := exact(g, n); o != nil {
				return o
			}
			if len(g) != sc.K {
				return fail("bytes-length", fmt.Sprintf("the pipe's reader took %d bytes, expected exactly k=%d", len(g), sc.K))
			}
			if err != injected {
				return fail("error-lost", fmt.Sprintf("the pipe was closed with %q after %d bytes but WriteTo returned err=%v", injected, sc.K, err))
			}
			return nil
		}
	case "bufio":
		// A bufio.Writer in front of the failing writer: what bufio accepted is at
		// least what it flushed and at most a buffer more; the error it returns is
		// the underlying writer's.
		size := []int{16, 64, 512, 4096}[(sc.K+len(S))%4]
		w := &simWriter{k: sc.K, shape: "short", err: injected, lateErr: errors.New("late error: Write called after a failed Write")}
		bw := bufio.NewWriterSize(w, size)
		dst = bw
		check = func(n int64, err error) *c19Outcome {
			got := w.got.String()
			if !strings.HasPrefix(S, got) {
				return fail("bytes-not-prefix", fmt.Sprintf("delivered %d bytes that are not a prefix of String(): %s", len(got), firstDiff(got, S[:minInt(len(S), len(got))])))
			}
			if w.callsAfter > 0 {
				return fail("write-after-failure", fmt.Sprintf("%d Write call(s) reached the failed writer behind the bufio.Writer", w.callsAfter))
			}
			if !w.faultFired {
				// nothing failed so far (the failure, if any, is still in the buffer)
				if err != nil {
					return fail("spurious-error", fmt.Sprintf("no Write has failed yet (bufio.Writer of %d bytes) but WriteTo returned err=%v", size, err))
				}
				if n != int64(len(S)) {
					return fail("count", fmt.Sprintf("WriteTo returned n=%d, the bufio.Writer accepted %d bytes", n, len(S)))
				}
				bw.Flush()
				if g := w.got.String(); !strings.HasPrefix(S, g) || (!w.faultFired && g != S) {
					return fail("bytes-differ", fmt.Sprintf("after Flush the writer behind the bufio.Writer holds %d bytes, String() has %d: %s", len(g), len(S), firstDiff(g, S)))
				}
				return nil
			}
			out.faultFired = true
			if err != injected {
				return fail("error-lost", fmt.Sprintf("the writer behind the bufio.Writer failed at offset %d with %q but WriteTo returned err=%v", sc.K, injected, err))
			}
			if n < int64(len(got)) || n > int64(len(got)+size) || n > int64(len(S)) {
				return fail("count", fmt.Sprintf("WriteTo returned n=%d; the bufio.Writer (%d bytes) had flushed %d bytes when the failure came, String() has %d", n, size, len(got), len(S)))
			}
			return nil
		}
	case "multi":
		w := &simWriter{k: sc.K, shape: "short", err: injected, lateErr: errors.New("late error: Write called after a failed Write")}
		dst = io.MultiWriter(w, io.Discard)
		check = func(n int64, err error) *c19Outcome {
			got := w.got.String()
			if w.callsAfter > 0 {
				return fail("write-after-failure", fmt.Sprintf("%d Write call(s) after the failing Write at offset %d", w.callsAfter, sc.K))
			}
			if !w.faultFired {
				return healthy(got, n, err)
			}
			out.faultFired = true
			if o := exact(got, n); o != nil {
				return o
			}
			if err != injected {
				return fail("error-lost", fmt.Sprintf("writer failed at offset %d with %q but WriteTo returned err=%v", sc.K, injected, err))
			}
			return nil
		}
	case "discard":
		dst = io.Discard
		check = func(n int64, err error) *c19Outcome {
			if err != nil {
				return fail("spurious-error", fmt.Sprintf("io.Discard never fails but WriteTo returned err=%v", err))
			}
			if n != int64(len(S)) {
				return fail("count", fmt.Sprintf("WriteTo(io.Discard) returned n=%d, String() has %d bytes", n, len(S)))
			}
			return nil
		}
	case "bytesbuffer":
		b := &bytes.Buffer{}
		dst = b
		check = func(n int64, err error) *c19Outcome { return healthy(b.String(), n, err) }
	case "stringsbuilder":
		b := &strings.Builder{}
		dst = b
		check = func(n int64, err error) *c19Outcome { return healthy(b.String(), n, err) }
	case "bytesbuffer-used", "stringsbuilder-used":
		// A destination that already holds something (a header comment, an earlier
		// module): WriteTo appends exactly its text and counts exactly those bytes.
		header := "; written before the module\n"
		var text func() string
		if sc.Kind == "bytesbuffer-used" {
			b := &bytes.Buffer{}
			b.WriteString(header)
			dst, text = b, b.String
		} else {
			b := &strings.Builder{}
			b.WriteString(header)
			dst, text = b, b.String
		}
		check = func(n int64, err error) *c19Outcome {
			t := text()
			if !strings.HasPrefix(t, header) {
				return fail("bytes-differ", "what the destination held before the call has changed")
			}
			return healthy(t[len(header):], n, err)
		}
	case "osfile-panics":
		// A print that cannot succeed (the module is unfinished: a block has no
		// terminator) into a real file, the panic recovered by the caller. Nothing
		// is checked about this call itself; the calls that follow must be unaffected.
		var broken *ir.Func
		for _, f := range m.Funcs {
			if len(f.Blocks) > 0 {
				broken = f
				break
			}
		}
		f, e := os.CreateTemp(c19Tmp(), "panics-")
		if e != nil || broken == nil {
			if e == nil {
				f.Close()
				os.Remove(f.Name())
			}
			return out
		}
		last := broken.Blocks[len(broken.Blocks)-1]
		saved := last.Term
		last.Term = nil
		protect(func() { m.WriteTo(f) })
		last.Term = saved
		f.Close()
		os.Remove(f.Name())
		return out
	case "reentrant":
		w := &simWriter{k: sc.K, shape: "short", err: injected, lateErr: errors.New("late error: Write called after a failed Write")}
		rw := &reentrantWriter{simWriter: w, m: m, S: S}
		dst = rw
		check = func(n int64, err error) *c19Outcome {
			got := w.got.String()
			if rw.differs != "" {
				return fail("bytes-differ", "String() called by the writer while WriteTo was handing it the module differs from the sequential text: "+rw.differs)
			}
			if w.callsAfter > 0 {
				return fail("write-after-failure", fmt.Sprintf("%d Write call(s) after the failing Write at offset %d", w.callsAfter, sc.K))
			}
			if !w.faultFired {
				return healthy(got, n, err)
			}
			out.faultFired = true
			if o := exact(got, n); o != nil {
				return o
			}
			if err != injected {
				return fail("error-lost", fmt.Sprintf("writer failed at offset %d with %q but WriteTo returned err=%v", sc.K, injected, err))
			}
			return nil
		}
	default:
		return out
	}
	if cleanup != nil {
		defer cleanup()
	}
	var n int64
	var err error
	var panicked interface{}
	returned := false
	call := func() {
		defer func() {
			if !returned {
				panicked = recover()
			}
		}()
		n, err = m.WriteTo(dst)
		returned = true
	}
	if sc.Kind == "reentrant" && !simrt.InTask() {
		// As a simulator task: a writer that waits for a lock WriteTo itself holds
		// is a deadlock verdict instead of a hung worker.
		simrt.RunTasks([]func(){call}, 60*time.Second)
	} else {
		call()
	}
	if !returned {
		msg := fmt.Sprint(panicked)
		return &c19Outcome{class: "panic", sig: "panic in WriteTo: " + normDigits(clip(msg, 160)), detail: msg}
	}
	if o := check(n, err); o != nil {
		return o
	}
	return out
}
