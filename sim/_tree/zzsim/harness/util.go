package main

import (
	"encoding/json"
	"fmt"
	"hash/fnv"
	"os"
	"path/filepath"
	"regexp"
	"sort"
	"strings"

	"github.com/llir/llvm/zzsim/simrt"
)

// ---------------------------------------------------------------------------
// PRNG: splitmix64. One integer decides everything; nothing else is random.

type rng struct{ s uint64 }

func newRNG(seed uint64) *rng { return &rng{s: seed} }

func (r *rng) u64() uint64 {
	r.s += 0x9e3779b97f4a7c15
	z := r.s
	z = (z ^ (z >> 30)) * 0xbf58476d1ce4e5b9
	z = (z ^ (z >> 27)) * 0x94d049bb133111eb
	return z ^ (z >> 31)
}

func (r *rng) intn(n int) int {
	if n <= 1 {
		return 0
	}
	return int(r.u64() % uint64(n))
}

func (r *rng) chance(num, den int) bool { return r.intn(den) < num }

// derive makes an independent stream seed from a seed and a label.
func derive(seed uint64, label string) uint64 {
	h := fnv.New64a()
	h.Write([]byte(label))
	x := seed ^ h.Sum64()
	r := rng{s: x}
	return r.u64()
}

// ---------------------------------------------------------------------------
// Tape: the dynamic decision streams of one run (see simrt.Config).

type Tape struct {
	Gaps      []uint32 `json:"gaps,omitempty"`
	Picks     []uint32 `json:"picks,omitempty"`
	Edges     []uint32 `json:"edges,omitempty"`
	Perms     []uint32 `json:"perms,omitempty"`
	Clocks    []uint32 `json:"clocks,omitempty"`
	Pools     []uint32 `json:"pools,omitempty"`
	RMWs      []uint32 `json:"rmws,omitempty"`
	StepCap   int64    `json:"step_cap,omitempty"`
	ClockBase int64    `json:"clock_base,omitempty"`
	// Procs is what runtime.GOMAXPROCS(0) and runtime.NumCPU() return to the code
	// under test during the run (0 = 1).
	Procs int `json:"procs,omitempty"`
}

// config is the simulator configuration of a tape for the START of a scenario
// (the simulated sync.Pools are emptied); configKeep is the same for a later
// phase of the same scenario, which inherits what the earlier phases left in the
// pools.
func (t *Tape) config() *simrt.Config {
	simrt.ResetPools()
	return t.configKeep()
}

func (t *Tape) configKeep() *simrt.Config {
	return &simrt.Config{Gaps: t.Gaps, Picks: t.Picks, Edges: t.Edges, Perms: t.Perms, Clocks: t.Clocks, Pools: t.Pools, RMWs: t.RMWs,
		StepCap: t.StepCap, ClockBase: t.ClockBase, SpinSleep: spinSleep, Procs: t.Procs}
}

// TapeParams shape the distributions the streams are drawn from.
type TapeParams struct {
	NSched   int // entries in gaps/picks/edges
	MeanGap  int // mean statements between decisions
	EdgePct  int // percent chance to take a decision at a lock/unlock edge
	EarlyPct int // percent of runs whose first gaps are tiny (contention right at the start)
	NPerm    int
	PermMix  int // 0 = all kinds, 1 = identity only, 2 = lexicographic enumeration handled by caller
	NClock   int
	NPool    int
}

func genTape(r *rng, p TapeParams) *Tape {
	t := &Tape{}
	if p.NSched > 0 {
		t.Gaps = make([]uint32, p.NSched)
		t.Picks = make([]uint32, p.NSched)
		t.Edges = make([]uint32, p.NSched)
		early := r.chance(p.EarlyPct, 100)
		for i := range t.Gaps {
			mg := p.MeanGap
			if early && i < 8 {
				mg = 2
			}
			// geometric-ish: uniform in [1, 2*mean]
			t.Gaps[i] = uint32(1 + r.intn(2*mg))
			t.Picks[i] = uint32(r.intn(1 << 16))
			if r.chance(p.EdgePct, 100) {
				t.Edges[i] = 1
			}
		}
		// read-modify-write statements on shared locations: a third of the runs
		// split most of them, the others few
		t.RMWs = make([]uint32, p.NSched)
		pct := 8
		if r.chance(1, 3) {
			pct = 60
		}
		for i := range t.RMWs {
			if r.chance(pct, 100) {
				t.RMWs[i] = 1
			}
		}
	}
	if p.NPerm > 0 {
		t.Perms = make([]uint32, p.NPerm)
		for i := range t.Perms {
			if p.PermMix == 1 {
				continue
			}
			param := uint32(r.intn(1 << 28))
			var kind uint32
			switch x := r.intn(100); {
			case x < 15:
				kind = simrt.PermIdentity
			case x < 30:
				kind = simrt.PermReverse
			case x < 55:
				kind = simrt.PermRotate
			case x < 88:
				kind = simrt.PermShuffle
			default:
				kind = simrt.PermSwap
			}
			if kind == simrt.PermIdentity {
				param = 0
			}
			t.Perms[i] = kind | param<<3
		}
	}
	if p.NPool > 0 {
		t.Pools = make([]uint32, p.NPool)
		for i := range t.Pools {
			if r.chance(1, 5) {
				t.Pools[i] = 1
			}
		}
	}
	if p.NClock > 0 {
		t.Clocks = make([]uint32, p.NClock)
		for i := range t.Clocks {
			param := uint32(r.intn(1 << 20))
			var kind uint32
			switch x := r.intn(100); {
			case x < 40:
				kind, param = simrt.ClockTick, 0
			case x < 70:
				kind = simrt.ClockForward
			case x < 90:
				kind = simrt.ClockBackward
			default:
				kind = simrt.ClockLeap
			}
			t.Clocks[i] = kind | param<<2
		}
		t.ClockBase = int64(r.u64() % (4e18))
	}
	if p.NSched > 0 {
		// what runtime.GOMAXPROCS(0) / NumCPU() tell the code under test
		t.Procs = []int{1, 1, 2, 4, 8, 16, 64}[r.intn(7)]
	}
	return t
}

// trimTape cuts the streams down to what the run consumed.
func trimTape(t *Tape, s simrt.Stats) {
	cut := func(v []uint32, n int32) []uint32 {
		if int(n) < len(v) {
			return v[:n]
		}
		return v
	}
	t.Gaps = cut(t.Gaps, s.GapsUsed)
	t.Picks = cut(t.Picks, s.PicksUsed)
	t.Edges = cut(t.Edges, s.EdgesUsed)
	t.Perms = cut(t.Perms, s.PermsUsed)
	t.Clocks = cut(t.Clocks, s.ClocksUsed)
	t.Pools = cut(t.Pools, s.PoolsUsed)
	t.RMWs = cut(t.RMWs, s.RMWsUsed)
}

// ---------------------------------------------------------------------------
// Output protocol: JSON lines on stdout.

type outRec struct {
	T        string                 `json:"t"` // fail | summary | known | note
	Property string                 `json:"property,omitempty"`
	Seed     uint64                 `json:"seed,omitempty"`
	Class    string                 `json:"class,omitempty"`
	Sig      string                 `json:"sig,omitempty"`
	Detail   string                 `json:"detail,omitempty"`
	Replay   interface{}            `json:"replay,omitempty"`
	Summary  *Summary               `json:"summary,omitempty"`
	Extra    map[string]interface{} `json:"extra,omitempty"`
}

// Summary is what one worker did.
type Summary struct {
	Runs      int64            `json:"runs"`
	Skipped   map[string]int64 `json:"skipped,omitempty"`
	Counters  map[string]int64 `json:"counters,omitempty"`
	Probes    map[string]int64 `json:"probes,omitempty"`
	Samples   []interface{}    `json:"samples,omitempty"`
	Distinct  []uint64         `json:"distinct,omitempty"` // hashes of distinct non-trivial cases
	Failures  int64            `json:"failures"`
	NextSeed  uint64           `json:"next_seed,omitempty"` // set when the worker stopped early
	Stopped   bool             `json:"stopped,omitempty"`
	Exhausted bool             `json:"exhaustive,omitempty"`
	SimClockS float64          `json:"sim_clock_span_s,omitempty"`
}

func newSummary() *Summary {
	return &Summary{Skipped: map[string]int64{}, Counters: map[string]int64{}, Probes: map[string]int64{}}
}

var outEnc = json.NewEncoder(os.Stdout)

func emit(r outRec) {
	if err := outEnc.Encode(r); err != nil {
		fmt.Fprintln(os.Stderr, "harness: cannot write result:", err)
		os.Exit(2)
	}
}

func hash64(parts ...string) uint64 {
	h := fnv.New64a()
	for _, p := range parts {
		h.Write([]byte(p))
		h.Write([]byte{0})
	}
	return h.Sum64()
}

type hashSet map[uint64]struct{}

func (s hashSet) add(h uint64) { s[h] = struct{}{} }

func (s hashSet) list() []uint64 {
	out := make([]uint64, 0, len(s))
	for h := range s {
		out = append(out, h)
	}
	sort.Slice(out, func(i, j int) bool { return out[i] < out[j] })
	return out
}

// ---------------------------------------------------------------------------
// Corpus.

type corpusFile struct {
	Name string // path relative to its corpus root, prefixed by the root's label
	Text string
}

// loadCorpus reads every .ll file below the given "label=dir" roots, in sorted
// order (the order must not depend on the file system).
func loadCorpus(roots []string) []corpusFile {
	var out []corpusFile
	for _, root := range roots {
		label, dir := "", root
		if i := strings.Index(root, "="); i >= 0 {
			label, dir = root[:i], root[i+1:]
		}
		var files []string
		filepath.Walk(dir, func(p string, fi os.FileInfo, err error) error {
			if err == nil && !fi.IsDir() && strings.HasSuffix(p, ".ll") {
				files = append(files, p)
			}
			return nil
		})
		sort.Strings(files)
		for _, p := range files {
			b, err := os.ReadFile(p)
			if err != nil {
				continue
			}
			rel, _ := filepath.Rel(dir, p)
			out = append(out, corpusFile{Name: label + ":" + filepath.ToSlash(rel), Text: string(b)})
		}
	}
	return out
}

// protect runs f and converts a panic into a string.
func protect(f func()) (panicked bool, msg string) {
	defer func() {
		if r := recover(); r != nil {
			panicked = true
			msg = fmt.Sprint(r)
		}
	}()
	f()
	return false, ""
}

func firstDiff(a, b string) string {
	la, lb := strings.Split(a, "\n"), strings.Split(b, "\n")
	for i := 0; i < len(la) || i < len(lb); i++ {
		var x, y string
		if i < len(la) {
			x = la[i]
		} else {
			x = "<eof>"
		}
		if i < len(lb) {
			y = lb[i]
		} else {
			y = "<eof>"
		}
		if x != y {
			return fmt.Sprintf("line %d: %q vs %q", i+1, clip(x, 120), clip(y, 120))
		}
	}
	return "equal"
}

func clip(s string, n int) string {
	if len(s) > n {
		return s[:n] + "…"
	}
	return s
}

var reQuotedIdent = regexp.MustCompile(`\\?"[@%][^"]*\\?"+`)

// normDigits replaces every run of digits by '#' and every quoted identifier by
// "ID", for panic signatures.
func normDigits(s string) string {
	s = reQuotedIdent.ReplaceAllString(s, `"ID"`)
	var b strings.Builder
	in := false
	for _, c := range s {
		if c >= '0' && c <= '9' {
			if !in {
				b.WriteByte('#')
				in = true
			}
			continue
		}
		in = false
		b.WriteRune(c)
	}
	return b.String()
}

func hex64(h uint64) string { return fmt.Sprintf("%016x", h) }

// countChans adds the channel / sleep counters of one run (only present when
// the code under test uses channels, time.Sleep or sync.Map at all).
func countChans(sum *Summary, s simrt.Stats) {
	if s.ChanOps > 0 {
		sum.Counters["channel operations of the code under test under simulator control"] += s.ChanOps
		sum.Counters["channel operations that parked their task"] += s.ChanParks
		sum.Counters["rendezvous on unbuffered channels"] += s.Rendezvous
		sum.Counters["selects whose first case was chosen by the tape"] += s.SelectChoices
	}
	if s.RMWSplits > 0 {
		sum.Counters["read-modify-write statements on shared locations executed with a yield point between read and write"] += s.RMWSplits
		sum.Counters["... at which the tape took a scheduling decision"] += s.RMWSwitches
	}
	if s.Sleeps > 0 {
		sum.Counters["time.Sleep calls in simulated time"] += s.Sleeps
		sum.Counters["clock jumps to the earliest sleeper"] += s.ClockJumps
	}
}
