package main

import (
	"fmt"
	"reflect"
	"strings"

	"github.com/llir/llvm/asm"
	"github.com/llir/llvm/ir"
	"github.com/llir/llvm/ir/constant"
	"github.com/llir/llvm/ir/types"
)

// moduleSource builds a fresh, never-printed module every time Build is called;
// two calls give identically built twins.
type moduleSource struct {
	Name  string
	Text  string // for parsed sources
	Build func() (*ir.Module, error)
}

var corpusCache []corpusFile

func corpus() []corpusFile {
	if corpusCache == nil {
		corpusCache = loadCorpus(corpusRoots())
	}
	return corpusCache
}

func parsedSource(cf corpusFile) *moduleSource {
	text := cf.Text
	name := cf.Name
	return &moduleSource{Name: name, Text: text, Build: func() (*ir.Module, error) {
		var m *ir.Module
		var err error
		if p, msg := protect(func() { m, err = asm.ParseString(name, text) }); p {
			return nil, fmt.Errorf("parser panic: %s", msg)
		}
		return m, err
	}}
}

func genSource(name string) *moduleSource {
	return &moduleSource{Name: name, Build: func() (*ir.Module, error) {
		var seed uint64
		var size int
		if _, err := fmt.Sscanf(name, "gen:%d:%d", &seed, &size); err != nil {
			return nil, fmt.Errorf("bad generated module name %q", name)
		}
		p := genProgram(newRNG(seed), genParams{Steps: size, Metadata: true, Literal: strings.HasSuffix(name, ":lit")})
		m, _, err := runProgramAlone(p)
		return m, err
	}}
}

// moduleSources lists the accepted corpus files (excluding the reject/
// directories) and a seeded set of generated modules.
func moduleSources(seed uint64, tier string) []*moduleSource {
	var out []*moduleSource
	for _, cf := range corpus() {
		if strings.Contains(cf.Name, "reject/") {
			continue
		}
		out = append(out, parsedSource(cf))
	}
	n := 12
	if tier == "thorough" {
		n = 120
	}
	r := newRNG(derive(seed, "gen-modules"))
	for i := 0; i < n; i++ {
		out = append(out, genSource(fmt.Sprintf("gen:%d:%d", r.u64()%1000000, 10+r.intn(50))))
	}
	// Constructed modules whose instructions are struct literals (Typ unset).
	for i := 0; i < n/3; i++ {
		out = append(out, genSource(fmt.Sprintf("gen:%d:%d:lit", r.u64()%1000000, 10+r.intn(50))))
	}
	return out
}

// fixedSources are small modules built by hand (independent of the generator),
// used by pinned tapes.
var fixedSources = map[string]func() *ir.Module{
	// One function whose only value instruction is a struct literal with Typ
	// unset: %sum = add i32 %a, 1; store i32 %sum, i32* %p; ret i32 %sum.
	"fixed:literal-block": func() *ir.Module {
		m := ir.NewModule()
		f := m.NewFunc("f", types.I32, ir.NewParam("a", types.I32), ir.NewParam("p", types.NewPointer(types.I32)))
		b := f.NewBlock("entry")
		sum := &ir.InstAdd{X: f.Params[0], Y: constant.NewInt(types.I32, 1)}
		sum.SetName("sum")
		st := &ir.InstStore{Src: sum, Dst: f.Params[1]}
		b.Insts = append(b.Insts, sum, st)
		b.Term = &ir.TermRet{X: sum}
		return m
	},
	// One function that returns a struct constant written as a struct literal
	// (Typ unset): ret { i32, i32 } { i32 1, i32 2 }.
	"fixed:literal-const": func() *ir.Module {
		m := ir.NewModule()
		f := m.NewFunc("f", types.NewStruct(types.I32, types.I32))
		b := f.NewBlock("entry")
		c := &constant.Struct{Fields: []constant.Constant{constant.NewInt(types.I32, 1), constant.NewInt(types.I32, 2)}}
		b.Term = &ir.TermRet{X: c}
		return m
	},
}

func fixedSource(name string) *moduleSource {
	build := fixedSources[name]
	if build == nil {
		return nil
	}
	return &moduleSource{Name: name, Build: func() (*ir.Module, error) { return build(), nil }}
}

func findSource(name string) *moduleSource {
	if strings.HasPrefix(name, "gen:") {
		return genSource(name)
	}
	if strings.HasPrefix(name, "fixed:") {
		return fixedSource(name)
	}
	for _, cf := range corpus() {
		if cf.Name == name {
			return parsedSource(cf)
		}
	}
	return nil
}

// gendump prints generated modules (development aid: feed them to llvm-as).
func init() {
	props["gendump"] = &propImpl{search: func() {
		r := newRNG(*flagSeed)
		for i := int64(0); i < *flagRuns; i++ {
			name := fmt.Sprintf("gen:%d:%d", r.u64()%1000000, 10+r.intn(50))
			if *flagMode == "lit" {
				name += ":lit"
			}
			m, err := genSource(name).Build()
			if err != nil {
				fmt.Printf("; %s: %v\n", name, err)
				continue
			}
			unset, named := 0, 0
			for _, f := range m.Funcs {
				for _, b := range f.Blocks {
					for _, in := range b.Insts {
						rv := reflect.ValueOf(in).Elem().FieldByName("Typ")
						if rv.IsValid() && rv.IsNil() {
							unset++
							if n, ok := in.(interface{ Name() string }); ok && n.Name() != "" {
								named++
							}
						}
					}
				}
			}
			fmt.Printf("; instructions with Typ unset: %d (named: %d)\n", unset, named)
			fmt.Printf("; ---- %s\n%s\n", name, m.String())
		}
	}}
}
