package main

import (
	"fmt"
	"strings"

	"github.com/llir/llvm/asm"
	"github.com/llir/llvm/ir"
)

// moduleSource builds a fresh, never-printed module every time Build is called;
// two calls give identically built twins.
type moduleSource struct {
	Name  string
	Text  string // for parsed sources
	Build func() (*ir.Module, error)
}

var corpusCache []corpusFile

func corpus() []corpusFile {
	if corpusCache == nil {
		corpusCache = loadCorpus(corpusRoots())
	}
	return corpusCache
}

func parsedSource(cf corpusFile) *moduleSource {
	text := cf.Text
	name := cf.Name
	return &moduleSource{Name: name, Text: text, Build: func() (*ir.Module, error) {
		var m *ir.Module
		var err error
		if p, msg := protect(func() { m, err = asm.ParseString(name, text) }); p {
			return nil, fmt.Errorf("parser panic: %s", msg)
		}
		return m, err
	}}
}

func genSource(name string) *moduleSource {
	return &moduleSource{Name: name, Build: func() (*ir.Module, error) {
		var seed uint64
		var size int
		if _, err := fmt.Sscanf(name, "gen:%d:%d", &seed, &size); err != nil {
			return nil, fmt.Errorf("bad generated module name %q", name)
		}
		p := genProgram(newRNG(seed), genParams{Steps: size, Metadata: true})
		m, _, err := runProgramAlone(p)
		return m, err
	}}
}

// moduleSources lists the accepted corpus files (excluding the reject/
// directories) and a seeded set of generated modules.
func moduleSources(seed uint64, tier string) []*moduleSource {
	var out []*moduleSource
	for _, cf := range corpus() {
		if strings.Contains(cf.Name, "reject/") {
			continue
		}
		out = append(out, parsedSource(cf))
	}
	n := 12
	if tier == "thorough" {
		n = 120
	}
	r := newRNG(derive(seed, "gen-modules"))
	for i := 0; i < n; i++ {
		out = append(out, genSource(fmt.Sprintf("gen:%d:%d", r.u64()%1000000, 10+r.intn(50))))
	}
	return out
}

func findSource(name string) *moduleSource {
	if strings.HasPrefix(name, "gen:") {
		return genSource(name)
	}
	for _, cf := range corpus() {
		if cf.Name == name {
			return parsedSource(cf)
		}
	}
	return nil
}

// gendump prints generated modules (development aid: feed them to llvm-as).
func init() {
	props["gendump"] = &propImpl{search: func() {
		r := newRNG(*flagSeed)
		for i := int64(0); i < *flagRuns; i++ {
			name := fmt.Sprintf("gen:%d:%d", r.u64()%1000000, 10+r.intn(50))
			m, err := genSource(name).Build()
			if err != nil {
				fmt.Printf("; %s: %v\n", name, err)
				continue
			}
			fmt.Printf("; ---- %s\n%s\n", name, m.String())
		}
	}}
}
