package main

import (
	"bytes"
	"encoding/json"
	"errors"
	"fmt"
	"io"
	"os"
	"path/filepath"
	"reflect"
	"runtime"
	"sort"
	"strconv"
	"strings"
	"time"

	"github.com/llir/llvm/asm"
	"github.com/llir/llvm/ir"
	"github.com/llir/llvm/ir/types"
	"github.com/llir/llvm/zzsim/simrt"
)

// C12 — translation is deterministic.
//
// The same text is parsed under tape-chosen map-iteration orders, entry points,
// reader behaviours, clock values, prior activity, heap states, in several
// processes and concurrently with other parses; the result is compared with a
// reference computed in a different process with canonical order, no prior
// activity and no concurrency.

func init() {
	props["C12"] = &propImpl{search: c12Search, replay: c12Replay, candidates: c12Candidates}
}

// RefEntry is the reference result of one corpus text.
type RefEntry struct {
	Accepted   bool   `json:"accepted"`
	TextHash   string `json:"text_hash"` // hex (JSON numbers lose 64-bit precision)
	DigestHash string `json:"digest_hash"`
	TextLen    int    `json:"text_len"`
}

// ReaderPlan describes the simulated io.Reader.
type ReaderPlan struct {
	Seed        uint64 `json:"seed"`
	MaxChunk    int    `json:"max_chunk"`     // chunk sizes are drawn from [1, MaxChunk]
	ZeroReads   bool   `json:"zero_reads"`    // sometimes return (0, nil)
	EOFWithData bool   `json:"eof_with_data"` // deliver the last chunk together with io.EOF
	FailAt      int    `json:"fail_at"`       // fail with an error after this many bytes; -1 = never
	// ZeroRun: a reluctant producer — before the first byte, and once more in the
	// middle, Read returns (0, nil) this many times in a row (legal for an
	// io.Reader; callers are expected to simply read again).
	ZeroRun int `json:"zero_run,omitempty"`
}

// Prior is one piece of earlier activity in the process.
type Prior struct {
	Kind string `json:"kind"` // parse | parse-print | same-mutate | same-print-twice
	Name string `json:"name"`
}

// C12Task is one concurrent parse.
type C12Task struct {
	Target string `json:"target"`
	// Entry: string | bytes | reader | file | procfd | samefile | seekreader, or
	// hugereader:N / hugefile:N (the text preceded by N MiB of comment lines, so
	// that it lies beyond any fixed limit a reading path may have).
	Entry  string      `json:"entry"`
	Reader *ReaderPlan `json:"reader,omitempty"`
}

// C12Scenario is one run.
type C12Scenario struct {
	Tasks  []C12Task `json:"tasks"` // one task = sequential configuration
	Prior  []Prior   `json:"prior,omitempty"`
	HeapKB int       `json:"heap_kb,omitempty"`
	Canary string    `json:"canary,omitempty"`
	Tape   *Tape     `json:"tape"`
}

type simReader struct {
	data               []byte
	pos                int
	plan               *ReaderPlan
	r                  *rng
	err                error
	fired              bool
	zeros              int
	calls              int
	run                int
	run0done, run1done bool
}

func (s *simReader) Read(p []byte) (int, error) {
	s.calls++
	if len(p) == 0 {
		return 0, nil
	}
	if s.plan.FailAt >= 0 && s.pos >= s.plan.FailAt {
		s.fired = true
		return 0, s.err
	}
	if s.pos >= len(s.data) {
		return 0, io.EOF
	}
	if s.plan.ZeroRun > 0 {
		atStart := s.pos == 0 && !s.run0done
		atMid := s.pos > 0 && s.pos >= len(s.data)/2 && !s.run1done
		if atStart || atMid {
			if s.run < s.plan.ZeroRun {
				s.run++
				return 0, nil
			}
			s.run = 0
			if atStart {
				s.run0done = true
			} else {
				s.run1done = true
			}
		}
	}
	if s.plan.ZeroReads && s.r.chance(1, 5) && s.zeros < 50 {
		s.zeros++
		return 0, nil
	}
	n := 1 + s.r.intn(s.plan.MaxChunk)
	if n > len(p) {
		n = len(p)
	}
	if rem := len(s.data) - s.pos; n > rem {
		n = rem
	}
	if s.plan.FailAt >= 0 && s.pos+n > s.plan.FailAt {
		n = s.plan.FailAt - s.pos
		if n == 0 {
			s.fired = true
			return 0, s.err
		}
	}
	copy(p, s.data[s.pos:s.pos+n])
	s.pos += n
	if s.pos == len(s.data) && s.plan.EOFWithData && s.plan.FailAt < 0 {
		return n, io.EOF
	}
	return n, nil
}

type parseResult struct {
	m          *ir.Module
	err        error
	panicMsg   string
	readerFail bool // a reader fault was injected and fired
	text       string
	textOK     bool
	printPanic string
	digestHash uint64
	digest     string
	// ptrs: addresses of the objects of the returned module (for the "two parses
	// share no object" oracle); only kept when asked for.
	ptrs map[uintptr]string
	// bystander: the call never returned because another call's goroutine
	// crashed the (simulated) process; there is nothing to compare.
	bystander bool
}

func (p *parseResult) accepted() bool { return p.m != nil && p.err == nil && p.panicMsg == "" }

var tmpDir string

// samefilePrev, when set, is what the path of the entry samefile held before.
var samefilePrev string

// keepPointers makes parseVia record the object addresses of accepted modules;
// priorModules are the modules earlier activity of the run left behind.
var (
	keepPointers bool
	priorPtrs    []map[uintptr]string
	priorNames   []string
	// priorModules keeps those modules alive: a collected module's addresses
	// are reused for new objects.
	priorModules []*ir.Module
)

// parseVia parses text through the given entry point.
func parseVia(name, text, entry string, plan *ReaderPlan, uniq string) *parseResult {
	res := &parseResult{}
	padMiB := 0
	if i := strings.Index(entry, ":"); i > 0 {
		fmt.Sscanf(entry[i+1:], "%d", &padMiB)
		entry = entry[:i]
	}
	pan, msg := protect(func() {
		switch entry {
		case "hugereader", "hugefile":
			// Megabytes of comment lines in front of the text: nothing the parser sees
			// changes, but the text now lies beyond any fixed-size limit or buffer of
			// the reading path.
			line := "; " + strings.Repeat("padding ", 15) + "\n"
			pad := strings.Repeat(line, (padMiB<<20)/len(line)+40)
			if entry == "hugereader" {
				res.m, res.err = asm.Parse(name, io.MultiReader(strings.NewReader(pad), strings.NewReader(text)))
			} else {
				p := filepath.Join(tmpDir, "huge-"+uniq+".ll")
				f, err := os.Create(p)
				if err != nil {
					panic("harness: cannot write temp file: " + err.Error())
				}
				f.WriteString(pad)
				f.WriteString(text)
				f.Close()
				res.m, res.err = asm.ParseFile(p)
				os.Remove(p)
			}
		case "bytes":
			buf := []byte(text)
			res.m, res.err = asm.ParseBytes(name, buf)
			// The caller reuses its buffer as soon as ParseBytes has returned; the
			// module must not share memory with it.
			for i := range buf {
				buf[i] = "@%!$ x9"[i%7]
			}
		case "reader":
			if plan == nil {
				plan = &ReaderPlan{Seed: 1, MaxChunk: 4096, FailAt: -1}
			}
			sr := &simReader{data: []byte(text), plan: plan, r: newRNG(plan.Seed), err: errors.New("injected read error")}
			res.m, res.err = asm.Parse(name, sr)
			res.readerFail = sr.fired
		case "file":
			p := filepath.Join(tmpDir, uniq+".ll")
			if err := os.WriteFile(p, []byte(text), 0o644); err != nil {
				panic("harness: cannot write temp file: " + err.Error())
			}
			res.m, res.err = asm.ParseFile(p)
			os.Remove(p)
		case "seekreader":
			// A seekable reader that the caller has already read a prefix of (a
			// header, another module, something that is not IR at all): Parse gets
			// what is left, exactly like a reader that cannot seek.
			junk := "@@@ not llvm ir: the caller has consumed this already %%%\n"
			switch len(text) % 4 {
			case 0:
				r := strings.NewReader(junk + text)
				r.Seek(int64(len(junk)), io.SeekStart)
				res.m, res.err = asm.Parse(name, r)
			case 1:
				r := bytes.NewReader([]byte(junk + text))
				r.Seek(int64(len(junk)), io.SeekStart)
				res.m, res.err = asm.Parse(name, r)
			case 2:
				r := io.NewSectionReader(strings.NewReader(junk+text), 0, int64(len(junk)+len(text)))
				r.Seek(int64(len(junk)), io.SeekStart)
				res.m, res.err = asm.Parse(name, r)
			default:
				p := filepath.Join(tmpDir, "seek-"+uniq+".ll")
				if err := os.WriteFile(p, []byte(junk+text), 0o644); err != nil {
					panic("harness: cannot write temp file: " + err.Error())
				}
				f, err := os.Open(p)
				if err != nil {
					panic("harness: cannot open temp file: " + err.Error())
				}
				f.Seek(int64(len(junk)), io.SeekStart)
				res.m, res.err = asm.Parse(name, f)
				f.Close()
				os.Remove(p)
			}
		case "samefile":
			// The file-system seam: the path was parsed a moment ago, and its content
			// has been replaced since by a text of exactly the same size with exactly
			// the same modification time (what cp -p, tar, a build sandbox with fixed
			// timestamps or a coarse clock produce). Nothing that a stat call reports
			// has changed; the bytes have.
			p := filepath.Join(tmpDir, "same-"+uniq+".ll")
			size := (len(text)/8192 + 2) * 8192
			stamp := time.Unix(1577836800, 0)
			decoy := padText("@decoy = global i32 1\ndefine i32 @decoy.f() {\n  ret i32 7\n}\n", size)
			if samefilePrev != "" {
				if len(samefilePrev) > len(text) {
					size = (len(samefilePrev)/8192 + 2) * 8192
				}
				decoy = padText(samefilePrev, size)
			}
			if err := os.WriteFile(p, []byte(decoy), 0o644); err != nil {
				panic("harness: cannot write temp file: " + err.Error())
			}
			os.Chtimes(p, stamp, stamp)
			asm.ParseFile(p)
			if err := os.WriteFile(p, []byte(padText(text, size)), 0o644); err != nil {
				panic("harness: cannot write temp file: " + err.Error())
			}
			os.Chtimes(p, stamp, stamp)
			res.m, res.err = asm.ParseFile(p)
			os.Remove(p)
		case "procfd":
			// ParseFile on something that is not a regular file: the read end of a
			// pipe reached through /proc/self/fd (os.Stat reports size 0). The text
			// is written into the pipe beforehand (it fits the pipe buffer) and the
			// write end closed, so the reader sees the data followed by EOF.
			r, w, perr := os.Pipe()
			if perr != nil || len(text) > 60000 {
				if perr == nil {
					r.Close()
					w.Close()
				}
				res.m, res.err = asm.ParseString(name, text)
				break
			}
			if _, werr := w.Write([]byte(text)); werr != nil {
				panic("harness: cannot fill pipe: " + werr.Error())
			}
			w.Close()
			res.m, res.err = asm.ParseFile(fmt.Sprintf("/proc/self/fd/%d", r.Fd()))
			r.Close()
		default:
			res.m, res.err = asm.ParseString(name, text)
		}
	})
	if pan {
		res.panicMsg = msg
		res.m = nil
	}
	if res.accepted() {
		pp, pmsg := protect(func() { res.text = res.m.String() })
		if pp {
			res.printPanic = pmsg
		} else {
			res.textOK = true
			res.digest = moduleDigest(res.m)
			res.digestHash = hash64(res.digest)
			if keepPointers {
				res.ptrs = modulePointers(res.m)
			}
		}
	}
	return res
}

var refTable map[string]RefEntry

func corpusText(name string) (string, bool) {
	for _, cf := range corpus() {
		if cf.Name == name {
			return cf.Text, true
		}
	}
	return "", false
}

// c12MakeRef parses every corpus text with canonical order, nothing before it
// and no concurrency; the driver runs this in its own process.
func c12MakeRef() {
	table := map[string]RefEntry{}
	skip := map[int]bool{}
	for _, f := range strings.Split(*flagSkip, ",") {
		if n, err := strconv.Atoi(strings.TrimSpace(f)); err == nil {
			skip[n] = true
		}
	}
	for ci, cf := range corpus() {
		noteProgress(int64(ci))
		if skip[ci] {
			// Parsing or printing this text killed an earlier reference process (an
			// unrecovered panic on a goroutine of the code under test): not accepted.
			table[cf.Name] = RefEntry{}
			continue
		}
		simrt.Load((&Tape{}).config())
		simrt.SeamsOn(true, false)
		var r *parseResult
		cf := cf
		if pan, msg := protect(func() {
			simCall(func() { r = parseVia(cf.Name, cf.Text, "string", nil, "ref") })
		}); pan || r == nil {
			// (a goroutine started by the code under test panicked)
			r = &parseResult{panicMsg: msg}
		}
		simrt.SeamsOn(false, false)
		e := RefEntry{Accepted: r.accepted() && r.textOK}
		if e.Accepted {
			e.TextHash = hex64(hash64(r.text))
			e.DigestHash = hex64(r.digestHash)
			e.TextLen = len(r.text)
		}
		table[cf.Name] = e
	}
	emit(outRec{T: "ref", Property: "C12", Extra: map[string]interface{}{"table": table, "singletons": fmt.Sprintf("%016x", hash64(singletonDigest()))}})
}

func loadRef() {
	if refTable != nil {
		return
	}
	b, err := os.ReadFile(*flagRefFile)
	if err != nil {
		fmt.Fprintln(os.Stderr, "harness: cannot read reference table:", err)
		os.Exit(2)
	}
	var wrap struct {
		Table map[string]RefEntry `json:"table"`
	}
	if err := json.Unmarshal(b, &wrap); err != nil || wrap.Table == nil {
		fmt.Fprintln(os.Stderr, "harness: bad reference table")
		os.Exit(2)
	}
	refTable = wrap.Table
}

type c12Outcome struct {
	class, sig, detail string
	skip               string
	stats              simrt.Stats
	trace              []simrt.Switch
	readerFaults       int
	rejectedSeen       int
	singletonChanged   bool
}

// compare checks one parse result against the reference of its text.
func c12Compare(t C12Task, r *parseResult, text string) (class, sig, detail string) {
	ref, ok := refTable[t.Target]
	if !ok {
		return "harness-error", "no reference", "no reference entry for " + t.Target
	}
	if r.readerFail {
		if r.m != nil || r.err == nil {
			return "reader-error-ignored", t.Entry, fmt.Sprintf("the reader failed after %d bytes but asm.Parse returned module=%v err=%v", t.Reader.FailAt, r.m != nil, r.err)
		}
		return "", "", ""
	}
	acc := r.accepted()
	if acc && r.printPanic != "" {
		if ref.Accepted {
			return "text-differs", "print panics", fmt.Sprintf("%s parsed via %s: String() panics (%s) but the reference prints fine", t.Target, t.Entry, clip(r.printPanic, 200))
		}
		acc = false
	}
	if acc != ref.Accepted {
		how := "rejected"
		if acc {
			how = "accepted"
		}
		why := ""
		if r.err != nil {
			why = " err=" + clip(r.err.Error(), 200)
		}
		if r.panicMsg != "" {
			why += " panic=" + clip(r.panicMsg, 200)
		}
		return "accept-differs", how, fmt.Sprintf("%s parsed via %s was %s but the reference run (other process, canonical order) says accepted=%v%s", t.Target, t.Entry, how, ref.Accepted, why)
	}
	if !acc {
		return "", "", ""
	}
	if hex64(hash64(r.text)) != ref.TextHash {
		// Recompute the reference text in-process for the diagnostic only.
		simrt.SeamsOn(false, false)
		var rr *parseResult
		if c, _ := simCallSafe(func() { rr = parseVia(t.Target, text, "string", nil, "diag") }); c || rr == nil {
			rr = &parseResult{}
		}
		return "text-differs", "String()", fmt.Sprintf("%s parsed via %s prints differently from the reference: %s", t.Target, t.Entry, firstDiff(r.text, rr.text))
	}
	if hex64(r.digestHash) != ref.DigestHash {
		simrt.SeamsOn(false, false)
		var rr *parseResult
		if c, _ := simCallSafe(func() { rr = parseVia(t.Target, text, "string", nil, "diag") }); c || rr == nil {
			rr = &parseResult{}
		}
		return "digest-differs", "structure", fmt.Sprintf("%s parsed via %s: same text but a different object graph: %s", t.Target, t.Entry, firstDiff(r.digest, rr.digest))
	}
	return "", "", ""
}

func doPrior(p Prior, idx int) {
	text, ok := corpusText(p.Name)
	if !ok {
		return
	}
	protect(func() {
		switch p.Kind {
		case "parse":
			if m, err := asm.ParseString(p.Name, text); err == nil && m != nil && len(priorPtrs) < 3 {
				priorPtrs = append(priorPtrs, modulePointers(m))
				priorNames = append(priorNames, p.Name)
				priorModules = append(priorModules, m)
			}
		case "parse-print":
			if m, err := asm.ParseString(p.Name, text); err == nil && m != nil {
				_ = m.String()
				if len(priorPtrs) < 3 {
					priorPtrs = append(priorPtrs, modulePointers(m))
					priorNames = append(priorNames, p.Name)
					priorModules = append(priorModules, m)
				}
			}
		case "same-print-twice":
			if m, err := asm.ParseString(p.Name, text); err == nil && m != nil {
				_ = m.String()
				_ = m.String()
			}
		case "same-mutate":
			// Parse the same text earlier, then scribble over the result: a
			// later parse of the same text must not share anything mutable with it.
			if m, err := asm.ParseString(p.Name, text); err == nil && m != nil {
				for i, f := range m.Funcs {
					f.SetName(fmt.Sprintf("scribble%d", i))
					f.Blocks = nil
					for _, prm := range f.Params {
						prm.SetName("scribbled")
					}
				}
				for i, g := range m.Globals {
					g.SetName(fmt.Sprintf("scribbleg%d", i))
					g.Init = nil
				}
				// Types too: a type object must not be shared between two parses
				// (the package-level singletons excepted).
				sing := singletons()
				seen := map[types.Type]bool{}
				var scribble func(t types.Type, depth int)
				scribble = func(t types.Type, depth int) {
					if t == nil || seen[t] || depth > 3 {
						return
					}
					seen[t] = true
					if v := reflect.ValueOf(t); v.Kind() == reflect.Ptr {
						if _, isSing := sing[v.Pointer()]; isSing {
							return
						}
					}
					t.SetName(fmt.Sprintf("scribbled%d", len(seen)))
					switch t := t.(type) {
					case *types.PointerType:
						scribble(t.ElemType, depth+1)
					case *types.ArrayType:
						scribble(t.ElemType, depth+1)
					case *types.StructType:
						for _, f := range t.Fields {
							scribble(f, depth+1)
						}
					case *types.FuncType:
						scribble(t.RetType, depth+1)
						for _, p := range t.Params {
							scribble(p, depth+1)
						}
					}
				}
				for _, t := range m.TypeDefs {
					scribble(t, 0)
				}
				for _, g := range m.Globals {
					scribble(g.ContentType, 0)
					scribble(g.Typ, 0)
				}
				for _, f := range m.Funcs {
					scribble(f.Sig, 0)
				}
				for _, md := range m.MetadataDefs {
					md.SetID(987)
				}
				m.TypeDefs = nil
				m.MetadataDefs = nil
				for k := range m.NamedMetadataDefs {
					delete(m.NamedMetadataDefs, k)
				}
				m.SourceFilename = "scribble"
			}
		}
	})
}

var garbage [][]byte

func c12Run(sc *C12Scenario) *c12Outcome {
	out := &c12Outcome{}
	loadRef()
	texts := make([]string, len(sc.Tasks))
	for i, t := range sc.Tasks {
		tx, ok := corpusText(t.Target)
		if !ok {
			out.skip = "unknown corpus text " + t.Target
			return out
		}
		texts[i] = tx
	}
	if sc.HeapKB > 0 {
		garbage = nil
		for i := 0; i < sc.HeapKB; i++ {
			garbage = append(garbage, make([]byte, 1024+i%777))
		}
		garbage = nil
		runtime.GC()
	}
	for _, t := range sc.Tasks {
		if (t.Entry == "file" || t.Entry == "samefile" || t.Entry == "seekreader" || strings.HasPrefix(t.Entry, "hugefile")) && tmpDir == "" {
			d, err := os.MkdirTemp("", "c12-")
			if err != nil {
				out.class, out.sig, out.detail = "harness-error", "tempdir", err.Error()
				return out
			}
			tmpDir = d
		}
	}
	curScenario = sc
	sing0 := hash64(singletonDigest())
	simrt.Load(sc.Tape.config())
	simrt.SeamsOn(true, true)
	priorPtrs, priorNames, priorModules = nil, nil, nil
	keepPointers = true
	defer func() { keepPointers = false; priorPtrs, priorNames, priorModules = nil, nil, nil }()
	for i, p := range sc.Prior {
		i, p := i, p
		simCallSafe(func() { doPrior(p, i) })
	}
	results := make([]*parseResult, len(sc.Tasks))
	if len(sc.Tasks) == 1 {
		t := sc.Tasks[0]
		if c, msg := simCallSafe(func() { results[0] = parseVia(t.Target, texts[0], t.Entry, t.Reader, "seq") }); c || results[0] == nil {
			// (a goroutine started by the parse or the print panicked)
			results[0] = &parseResult{panicMsg: msg}
		}
		out.stats = simrt.Snapshot()
	} else {
		fns := make([]func(), len(sc.Tasks))
		for i := range sc.Tasks {
			i := i
			t := sc.Tasks[i]
			fns[i] = func() {
				results[i] = parseVia(t.Target, texts[i], t.Entry, t.Reader, fmt.Sprintf("t%d", i))
			}
		}
		race0 := raceLogSize()
		runRace0 = race0
		defer func() { runRace0 = -1 }()
		res := simrt.RunTasks(fns, 120*time.Second)
		out.stats = simrt.Snapshot()
		out.trace = simrt.Trace()
		if raceLogSize() > race0 {
			log := raceLogFrom(race0, 1<<20)
			sig, both, first := raceSignature(log)
			simrt.SeamsOn(false, false)
			if !both {
				out.class, out.sig, out.detail = "harness-race", sig, "race report that does not involve two simulator tasks:\n"+first
				return out
			}
			out.class, out.sig, out.detail = "race", sig, first
			return out
		}
		for i, r := range res {
			if cp, isCrash := r.Panic.(simrt.CrashPanic); isCrash && i < len(sc.Tasks) {
				// The parse started a goroutine that panicked: the call never returns
				// (outcome "panic", compared with the reference like any other).
				if results[i] == nil {
					if cp.Culprit {
						results[i] = &parseResult{panicMsg: cp.String()}
					} else {
						// died with the process because of another call: no outcome
						results[i] = &parseResult{panicMsg: cp.String(), bystander: true}
					}
				}
				continue
			}
			if r.Spawned && r.Panic != nil {
				// the goroutine whose panic ended the run (its callers carry a CrashPanic)
				crashedCaller := false
				for k := range sc.Tasks {
					if _, isCrash := res[k].Panic.(simrt.CrashPanic); isCrash {
						crashedCaller = true
					}
				}
				if crashedCaller {
					continue
				}
				// The call that started this goroutine had already returned (its deferred
				// calls ran first): in a real process the panic still ends the process;
				// the outcome of that call is "panic", compared with the reference like
				// any other.
				if g := int(r.Group); g >= 0 && g < len(sc.Tasks) {
					results[g] = &parseResult{panicMsg: "a goroutine started by the call panicked: " + fmt.Sprint(r.Panic)}
					continue
				}
				simrt.SeamsOn(false, false)
				out.class, out.sig = "panic", "goroutine of the code under test panicked after the calls had returned"
				out.detail = fmt.Sprintf("%v\n%s", r.Panic, clip(r.Stack, 1200))
				return out
			}
			if r.Panic != nil {
				simrt.SeamsOn(false, false)
				out.class, out.sig = "harness-error", "task panic"
				out.detail = fmt.Sprintf("task %d panicked outside the protected region: %v\n%s", i, r.Panic, clip(r.Stack, 1200))
				return out
			}
		}
	}
	// Canary: a fixed small text parsed after everything else; pollution of
	// process-wide state by the activity above shows here.
	var canary *parseResult
	var canaryText string
	if sc.Canary != "" {
		if tx, ok := corpusText(sc.Canary); ok {
			canaryText = tx
			protect(func() {
				simCall(func() { canary = parseVia(sc.Canary, tx, "string", nil, "canary") })
			})
		}
	}
	simrt.SeamsOn(false, false)
	if hash64(singletonDigest()) != sing0 {
		out.singletonChanged = true
	}
	// Two parses share no object (the documented package-level singletons
	// excepted): neither with a module an earlier parse of this run returned nor
	// with the module a concurrent parse returns.
	for i, t := range sc.Tasks {
		r := results[i]
		if r == nil || r.ptrs == nil {
			continue
		}
		for k, pp := range priorPtrs {
			if sh := sharedObjects(r.ptrs, pp, 6); len(sh) > 0 {
				out.class, out.sig = "objects-shared", "with an earlier parse"
				out.detail = fmt.Sprintf("the module returned for %s (via %s) shares %d+ object(s) with the module an earlier parse of %s returned in this process (modules must not share mutable objects; the package-level singletons are excepted): %v", t.Target, t.Entry, len(sh), priorNames[k], sh)
				return out
			}
		}
		for j := 0; j < i; j++ {
			if results[j] == nil || results[j].ptrs == nil {
				continue
			}
			if sh := sharedObjects(r.ptrs, results[j].ptrs, 6); len(sh) > 0 {
				out.class, out.sig = "objects-shared", "between concurrent parses"
				out.detail = fmt.Sprintf("the modules returned by parse tasks %d (%s) and %d (%s) share object(s): %v", j, sc.Tasks[j].Target, i, t.Target, sh)
				return out
			}
		}
	}
	for i, t := range sc.Tasks {
		r := results[i]
		if r == nil {
			out.class, out.sig, out.detail = "harness-error", "no result", "a parse task produced no result"
			return out
		}
		if r.bystander {
			continue
		}
		if r.readerFail {
			out.readerFaults++
		}
		if !r.accepted() {
			out.rejectedSeen++
		}
		if c, s, d := c12Compare(t, r, texts[i]); c != "" {
			out.class, out.sig, out.detail = c, s, d
			return out
		}
	}
	if canary != nil {
		if c, s, d := c12Compare(C12Task{Target: sc.Canary, Entry: "string"}, canary, canaryText); c != "" {
			out.class, out.sig, out.detail = "later-parse-"+c, s, "after the activity of this run, a later parse in the same process: "+d
			return out
		}
	}
	if out.singletonChanged {
		out.class, out.sig = "shared-object-mutated", "package-level singleton"
		out.detail = "a package-level shared object (types.*, constant.True/False/None, metadata.Null) was modified by parsing; every module that holds it changes with it"
		return out
	}
	return out
}

var entries = []string{"string", "bytes", "reader", "file", "procfd", "samefile", "seekreader"}

// siblings lists the corpus texts whose name equals target's up to the last '_'.
func siblings(all []corpusFile, target string) []string {
	i := strings.LastIndex(target, "_")
	if i < 0 || strings.LastIndex(target, "/") > i {
		return nil
	}
	stem := target[:i+1]
	var out []string
	for _, cf := range all {
		if cf.Name != target && strings.HasPrefix(cf.Name, stem) {
			out = append(out, cf.Name)
		}
	}
	return out
}

// padText appends a comment so that the text is exactly size bytes long (the
// padding changes nothing the parser sees).
func padText(text string, size int) string {
	if !strings.HasSuffix(text, "\n") {
		text += "\n"
	}
	n := size - len(text)
	if n < 2 {
		return text
	}
	return text + ";" + strings.Repeat(" ", n-2) + "\n"
}

var priorKinds = []string{"parse", "parse-print", "same-mutate", "same-print-twice"}

func genReader(r *rng, textLen int, allowFail bool) *ReaderPlan {
	p := &ReaderPlan{Seed: r.u64() % 1000000, FailAt: -1}
	p.MaxChunk = []int{1, 3, 7, 64, 512, 4096, 1 << 20}[r.intn(7)]
	p.ZeroReads = r.chance(1, 3)
	p.EOFWithData = r.chance(1, 2)
	if r.chance(1, 5) {
		p.ZeroRun = []int{2, 16, 99, 100, 101, 150, 1000}[r.intn(7)]
	}
	if allowFail && r.chance(1, 6) {
		p.FailAt = r.intn(textLen + 1)
	}
	return p
}

// bracketDepth is the deepest nesting of brackets in text.
func bracketDepth(text string) int {
	d, max := 0, 0
	for i := 0; i < len(text); i++ {
		switch text[i] {
		case '(', '{', '[', '<':
			d++
			if d > max {
				max = d
			}
		case ')', '}', ']', '>':
			if d > 0 {
				d--
			}
		}
	}
	return max
}

func c12GenScenario(r *rng, all []corpusFile, concurrent bool, lex int) *C12Scenario {
	sc := &C12Scenario{}
	pickTarget := func() corpusFile {
		// Bias to the order-sensitive corpus and to rejected inputs.
		for tries := 0; tries < 8; tries++ {
			cf := all[r.intn(len(all))]
			if concurrent || strings.HasPrefix(cf.Name, "verif:order/") || strings.Contains(cf.Name, "reject/") || tries >= 3 {
				return cf
			}
		}
		return all[r.intn(len(all))]
	}
	nt := 1
	if concurrent {
		nt = 2 + r.intn(3)
	}
	// One concurrent run in ten is a crowd: 16 to 32 callers, small texts, all
	// through the same entry point (what is bounded per process — tokens, slots,
	// descriptors, table sizes — only shows when many callers are inside at once).
	crowd := concurrent && r.chance(1, 10)
	crowdEntry := ""
	var small []corpusFile
	if crowd {
		nt = 16 + r.intn(17)
		crowdEntry = []string{"file", "file", "string", "bytes", "reader", "samefile", "seekreader"}[r.intn(7)]
		for _, cf := range all {
			if len(cf.Text) < 3000 {
				small = append(small, cf)
			}
		}
		if len(small) == 0 {
			small = all
		}
		if r.chance(1, 2) {
			// ... half of the crowds all parse the SAME text, one of the five most
			// deeply nested small texts (the demanding ones: what is budgeted per
			// process is exceeded when many callers are deep inside at once)
			sort.SliceStable(small, func(i, j int) bool { return bracketDepth(small[i].Text) > bracketDepth(small[j].Text) })
			n := 5
			if n > len(small) {
				n = len(small)
			}
			small = []corpusFile{small[r.intn(n)]}
		}
	}
	for i := 0; i < nt; i++ {
		cf := pickTarget()
		if crowd {
			cf = small[r.intn(len(small))]
		}
		if concurrent && i > 0 && r.chance(1, 3) {
			cf.Name = sc.Tasks[0].Target // the same text on two goroutines
			cf.Text, _ = corpusText(cf.Name)
		}
		t := C12Task{Target: cf.Name, Entry: entries[r.intn(len(entries))]}
		if crowd {
			t.Entry = crowdEntry
		}
		if t.Entry == "reader" {
			t.Reader = genReader(r, len(cf.Text), true)
		}
		sc.Tasks = append(sc.Tasks, t)
	}
	if !concurrent {
		np := 0
		if r.chance(2, 3) {
			np = 1 + r.intn(3)
		}
		for i := 0; i < np; i++ {
			k := priorKinds[r.intn(len(priorKinds))]
			name := all[r.intn(len(all))].Name
			if strings.HasPrefix(k, "same-") {
				name = sc.Tasks[0].Target
			} else if sib := siblings(all, sc.Tasks[0].Target); len(sib) > 0 && r.chance(1, 2) {
				// a sibling text (same name up to the last '_'): written to interfere
				// with the target through whatever the process keeps between parses
				name = sib[r.intn(len(sib))]
				if k == "parse" && r.chance(1, 2) {
					k = "parse-print"
				}
			}
			sc.Prior = append(sc.Prior, Prior{Kind: k, Name: name})
		}
		if r.chance(1, 4) {
			sc.HeapKB = 64 << uint(r.intn(6))
		}
	}
	sc.Canary = "verif:order/globals.ll"
	if r.chance(1, 3) {
		sc.Canary = "verif:order/metadata.ll"
	}
	tp := TapeParams{NPerm: 4096, NClock: 64, NPool: 256}
	if !concurrent && *flagLibGo {
		// The code under test starts goroutines of its own: they are tasks, and
		// their interleaving inside one parse is drawn from the tape as well.
		tp.NSched = 1024
		tp.MeanGap = []int{2, 5, 20, 100, 1000}[r.intn(5)]
		tp.EdgePct = 30
	}
	if concurrent {
		tp.NSched = 2048
		tp.MeanGap = []int{3, 10, 50, 300, 3000, 30000}[r.intn(6)]
		tp.EdgePct = 20
		tp.EarlyPct = 30
	}
	sc.Tape = genTape(r, tp)
	sc.Tape.StepCap = 400000000
	if crowd {
		// everybody gets going before anybody gets far
		for i := range sc.Tape.Gaps {
			if i < 256 {
				sc.Tape.Gaps[i] = uint32(1 + int(sc.Tape.Gaps[i])%3)
			}
		}
	}
	if lex >= 0 {
		for i := range sc.Tape.Perms {
			sc.Tape.Perms[i] = simrt.PermLex | uint32(lex)<<3
		}
	}
	return sc
}

func c12Search() {
	if *flagMode == "ref" {
		c12MakeRef()
		return
	}
	concurrent := *flagMode == "conc"
	forceTasks = true
	sum := newSummary()
	distinct := hashSet{}
	all := corpus()
	failures := 0
	var clockSpan float64
	runsInProcess := 0
	for idx := *flagFrom; idx < *flagRuns; idx++ {
		if idx%shardN != shardI {
			continue
		}
		if overBudget() || failures >= *flagMaxFail {
			break
		}
		if *flagMaxRuns > 0 && runsInProcess >= *flagMaxRuns {
			// Recycle the process: only the first runs of a process meet
			// never-initialised process-wide state (lazily built tables, first use
			// of a cache), also from two goroutines at once.
			sum.Stopped = true
			sum.NextSeed = uint64(idx)
			break
		}
		runsInProcess++
		curIndex = idx
		noteProgress(idx)
		runSeed := derive(*flagSeed, fmt.Sprintf("C12/%s/%d", *flagMode, idx))
		curSeed = runSeed
		lex := -1
		if *flagTier == "thorough" && !concurrent && idx%4 == 0 {
			lex = int(idx/4) % 40320
		}
		sc := c12GenScenario(newRNG(runSeed), all, concurrent, lex)
		if concurrent && runsInProcess == 1 && len(sc.Tasks) >= 2 {
			// The first run of a fresh process: every task parses (and prints) the
			// SAME text through the same entry point, close together, so that
			// whatever the code initialises lazily on first use is first used from
			// several goroutines at once.
			for i := 1; i < len(sc.Tasks); i++ {
				sc.Tasks[i] = sc.Tasks[0]
			}
			// (fine-grained switching through most of the run, not only at its start:
			// the window of a first-use initialisation may open late, at the first print)
			for i := range sc.Tape.Gaps {
				if i < 64 || (i < 1536 && idx%2 == 0) {
					sc.Tape.Gaps[i] = uint32(1 + (int(sc.Tape.Gaps[i]) % 40))
				}
			}
		}
		if !concurrent {
			// A few runs read the text from behind megabytes of comment lines.
			huge := ""
			switch {
			case idx == 2:
				huge = "hugereader:64"
			case idx == 5:
				huge = "hugefile:64"
			case *flagTier == "thorough" && idx >= 100 && idx < 116:
				huge = fmt.Sprintf("%s:%d", []string{"hugereader", "hugefile"}[idx%2], []int{1, 2, 4, 8, 16, 32, 128, 256}[(idx-100)/2])
			}
			if huge != "" {
				sc.Tasks[0].Entry, sc.Tasks[0].Reader = huge, nil
				sc.Tasks[0].Target = "verif:order/globals.ll"
				sc.Prior = nil
			}
		}
		o := c12Run(sc)
		if o.skip != "" {
			sum.Skipped[o.skip]++
			continue
		}
		sum.Runs++
		s := o.stats
		mode := "sequential"
		if concurrent {
			mode = "concurrent"
		}
		sum.Counters["runs/"+mode]++
		for _, t := range sc.Tasks {
			sum.Counters["parses via "+t.Entry]++
		}
		sum.Counters["prior activities"] += int64(len(sc.Prior))
		if len(sc.Tasks) >= 16 {
			sum.Counters["crowd runs (16 to 32 concurrent parses through one entry point)"]++
		}
		sum.Counters["map-range visits under simulator control"] += s.PermVisits
		sum.Counters["map-range visits with >= 2 keys"] += s.PermNontrivial
		sum.Counters["map-range visits in non-canonical order"] += s.PermNonIdentity
		sum.Counters["clock reads"] += s.ClockReads
		sum.Counters["clock reads that went backwards"] += s.ClockBackwards
		sum.Counters["reader faults fired"] += int64(o.readerFaults)
		if s.PoolGets > 0 {
			sum.Counters["sync.Pool gets under simulator control"] += s.PoolGets
			sum.Counters["sync.Pool gets that reused an object of an earlier parse"] += s.PoolReuses
			sum.Counters["sync.Pool gets after a simulated GC"] += s.PoolDrops
		}
		sum.Counters["context switches"] += s.Switches
		countChans(sum, s)
		sum.Counters["statements executed under the scheduler"] += s.Steps
		if sc.HeapKB > 0 {
			sum.Counters["runs after heap perturbation + GC"]++
		}
		if lex >= 0 {
			sum.Counters["runs of the lexicographic permutation sweep"]++
		}
		clockSpan += float64(s.ClockMax-s.ClockMin) / 1e9
		if s.PermBig > 0 {
			sum.Probes["map with >= 9 keys permuted"]++
		}
		if o.rejectedSeen > 0 && s.PermNonIdentity > 0 {
			sum.Probes["error path reached under a non-canonical order"]++
		}
		if concurrent && s.Switches >= 4 {
			sum.Probes["two tasks inside the translator simultaneously (>= 4 switches)"]++
		}
		if o.readerFaults > 0 {
			sum.Probes["reader fault injected"]++
		}
		if o.singletonChanged {
			sum.Probes["package-level singleton changed"]++
		}
		if s.PermNonIdentity > 0 || s.Switches > 0 {
			h := s.PermHash ^ s.TraceHash
			for _, t := range sc.Tasks {
				h ^= hash64(t.Target, t.Entry)
			}
			distinct.add(h)
		}
		if len(sum.Samples) < 3 && s.PermNonIdentity > 3 {
			sum.Samples = append(sum.Samples, map[string]interface{}{"seed": fmt.Sprint(runSeed), "tasks": sc.Tasks, "prior": sc.Prior, "heap_kb": sc.HeapKB,
				"map_visits": s.PermVisits, "non_canonical": s.PermNonIdentity, "switches": s.Switches})
		}
		if *flagSelf {
			emit(outRec{T: "event", Seed: runSeed, Detail: fmt.Sprintf("idx=%d perm=%016x trace=%016x steps=%d class=%s uncontrolled=%d", idx, s.PermHash, s.TraceHash, s.Steps, o.class, s.PermUncontrolled)})
		}
		if o.class != "" {
			failures++
			sum.Failures++
			trimTape(sc.Tape, s)
			emit(outRec{T: "fail", Property: "C12", Seed: runSeed, Class: o.class, Sig: o.sig, Detail: o.detail, Replay: sc,
				Extra: map[string]interface{}{"trace": traceStrings(o.trace, 40), "history": historyInfo(idx)}})
			if o.class == "race" || o.class == "harness-race" {
				sum.Stopped = true
				sum.NextSeed = uint64(idx + shardN)
				break
			}
		}
	}
	sum.SimClockS = clockSpan
	sum.Distinct = distinct.list()
	if tmpDir != "" {
		os.RemoveAll(tmpDir)
	}
	emit(outRec{T: "summary", Property: "C12", Summary: sum})
}

func c12Replay(raw json.RawMessage) *outRec {
	var sc C12Scenario
	if err := json.Unmarshal(raw, &sc); err != nil || sc.Tape == nil || len(sc.Tasks) == 0 {
		return &outRec{T: "note", Class: "harness-error", Detail: "bad C12 scenario"}
	}
	forceTasks = true
	curScenario = &sc
	o := c12Run(&sc)
	if tmpDir != "" {
		os.RemoveAll(tmpDir)
	}
	if o.skip != "" {
		return &outRec{T: "note", Class: "skipped", Detail: o.skip}
	}
	if o.class == "" {
		return nil
	}
	return &outRec{T: "fail", Property: "C12", Class: o.class, Sig: o.sig, Detail: o.detail, Replay: &sc,
		Extra: map[string]interface{}{"trace": traceStrings(o.trace, 60)}}
}

func c12Candidates(raw json.RawMessage) []interface{} {
	var sc C12Scenario
	if json.Unmarshal(raw, &sc) != nil || sc.Tape == nil {
		return nil
	}
	var out []interface{}
	clone := func() *C12Scenario {
		b, _ := json.Marshal(&sc)
		var c C12Scenario
		json.Unmarshal(b, &c)
		return &c
	}
	if len(sc.Prior) > 0 {
		c := clone()
		c.Prior = nil
		out = append(out, c)
		for i := range sc.Prior {
			c := clone()
			c.Prior = append(c.Prior[:i:i], c.Prior[i+1:]...)
			out = append(out, c)
		}
	}
	if sc.HeapKB > 0 {
		c := clone()
		c.HeapKB = 0
		out = append(out, c)
	}
	if len(sc.Tasks) > 1 {
		for i := range sc.Tasks {
			c := clone()
			c.Tasks = append(c.Tasks[:i:i], c.Tasks[i+1:]...)
			out = append(out, c)
		}
	}
	for i, t := range sc.Tasks {
		if t.Entry != "string" {
			c := clone()
			c.Tasks[i].Entry = "string"
			c.Tasks[i].Reader = nil
			out = append(out, c)
		}
	}
	if sc.Canary != "" {
		c := clone()
		c.Canary = ""
		out = append(out, c)
	}
	if len(sc.Tape.Clocks) > 0 {
		c := clone()
		c.Tape.Clocks = nil
		out = append(out, c)
	}
	if len(sc.Tape.Pools) > 0 {
		c := clone()
		c.Tape.Pools = nil
		out = append(out, c)
	}
	for _, g := range shrinkStream(sc.Tape.Perms) {
		c := clone()
		c.Tape.Perms = g
		out = append(out, c)
	}
	// Simpler permutations: a reversal or a single swap instead of a shuffle.
	for i, p := range sc.Tape.Perms {
		if p&7 == simrt.PermShuffle && i < 40 {
			c := clone()
			c.Tape.Perms[i] = simrt.PermReverse
			out = append(out, c)
		}
	}
	for _, g := range shrinkStream(sc.Tape.Gaps) {
		c := clone()
		c.Tape.Gaps = g
		out = append(out, c)
	}
	for _, g := range shrinkStream(sc.Tape.Picks) {
		c := clone()
		c.Tape.Picks = g
		out = append(out, c)
	}
	return out
}
