package main

import (
	"bytes"
	"encoding/json"
	"fmt"
	"io"
	"os"
	"os/exec"
	"time"

	"github.com/llir/llvm/ir"
	"github.com/llir/llvm/zzsim/simrt"
)

// C14 — observing the IR never changes it.
//
// A history is a construction/editing program (builder task) interleaved by the
// scheduler with an observer task; steps are atomic. Oracle: refinement against
// the run in which the observer never gets the turn: the final printed module is
// byte-identical, every double print is identical, nothing panics.

func init() {
	props["C14"] = &propImpl{search: c14Search, replay: c14Replay, candidates: c14Candidates}
}

// C14Scenario is one history.
type C14Scenario struct {
	Prog      *Prog  `json:"prog"`
	Observers []Obs  `json:"observers"`
	Tape      *Tape  `json:"tape"`
	Note      string `json:"note,omitempty"`
	// XProc: the reference (the steps alone) is computed by a fresh child
	// process instead of earlier in this one, and this history is the first thing
	// its own process does: whatever the library keeps per PROCESS (a memo, a table
	// built at first use) is then first touched in the order this history touches
	// it, not in the order the reference did a moment ago.
	XProc bool `json:"xproc,omitempty"`
}

// c14ChildRef runs the steps of p alone in a fresh child process and returns the
// final text ("" and a reason if there is none).
func c14ChildRef(p *Prog) (text string, skip string) {
	jb, err := json.Marshal(p)
	if err != nil {
		return "", "harness: cannot encode the program"
	}
	cmd := exec.Command(os.Args[0], "-prop", "C14", "-mode", "xref-child")
	cmd.Stdin = bytes.NewReader(jb)
	var outb, errb bytes.Buffer
	cmd.Stdout, cmd.Stderr = &outb, &errb
	if err := cmd.Run(); err != nil {
		return "", "the steps alone do not print in a fresh process (" + clip(errb.String(), 200) + ")"
	}
	return outb.String(), ""
}

// c14ChildMain is the child side of c14ChildRef.
func c14ChildMain() {
	raw, _ := io.ReadAll(os.Stdin)
	var p Prog
	if json.Unmarshal(raw, &p) != nil {
		os.Exit(3)
	}
	simrt.Load((&Tape{}).config())
	var text string
	pan, msg := protect(func() {
		simCall(func() {
			m, _, err := runProgramAlone(&p)
			if err != nil {
				panic(err)
			}
			text = m.String()
		})
	})
	if pan {
		fmt.Fprintln(os.Stderr, msg)
		os.Exit(4)
	}
	os.Stdout.WriteString(text)
	os.Exit(0)
}

type c14Outcome struct {
	class, sig, detail string
	skip               string
	stats              simrt.Stats
	probes             map[string]int64
	history            []string
	obsApplied         int
	stepsApplied       int
}

func c14Run(sc *C14Scenario) *c14Outcome {
	out := &c14Outcome{}
	// Reference: the steps alone.
	simrt.Load((&Tape{}).config())
	var refM *ir.Module
	var err error
	var refText string
	if sc.XProc {
		// ... in a fresh child process; nothing of the library has run in this
		// process yet when the history below begins.
		var skip string
		if refText, skip = c14ChildRef(sc.Prog); skip != "" {
			out.skip = "cross-process reference: " + skip
			return out
		}
	} else {
		if c, msg := simCallSafe(func() { refM, _, err = runProgramAlone(sc.Prog) }); c {
			err = fmt.Errorf("%s", msg)
		}
		if err != nil {
			out.skip = "construction program panics without any observer (generator problem or C03)"
			out.detail = err.Error()
			return out
		}
		if pan, msg := protect(func() { simCall(func() { refText = refM.String() }) }); pan {
			out.skip = "final print panics without any observer (not C14's business)"
			out.detail = msg
			return out
		}
	}
	// The history.
	mc := newMachine()
	mc.illFormed = sc.Prog.IllFormed
	mc.literal = sc.Prog.Literal
	if sc.Prog.Literal {
		mc.m = newLiteralModule()
	}
	mc.richConsts = sc.Prog.Rich
	mc.explicitMD = sc.Prog.ExplicitMD
	var history []string
	var obsBad, obsPanic string
	builder := func() {
		for i, s := range sc.Prog.Steps {
			mc.exec(s)
			history = append(history, fmt.Sprintf("step %d: %s", i, s))
			simrt.Yield(int32(i))
		}
	}
	observer := func() {
		for i, o := range sc.Observers {
			var applied bool
			var bad string
			pan, msg := protect(func() { applied, bad = mc.observe(o) })
			if applied || pan {
				out.obsApplied++
				history = append(history, fmt.Sprintf("  observe %d: %s", i, o))
			}
			if pan && obsPanic == "" {
				obsPanic = fmt.Sprintf("observer %s panicked: %s", o, msg)
			}
			if bad != "" && obsBad == "" {
				obsBad = bad
			}
			simrt.Yield(int32(1000 + i))
		}
	}
	curScenario = sc
	simrt.Load(sc.Tape.config())
	simrt.SeamsOn(len(sc.Tape.Perms) > 0, false)
	defer simrt.SeamsOn(false, false)
	simrt.SetCoarse(true)
	res := simrt.RunTasks([]func(){builder, observer}, 60*time.Second)
	simrt.SetCoarse(false)
	out.stats = simrt.Snapshot()
	out.probes = mc.probes
	out.history = history
	out.stepsApplied = mc.applied
	for i, r := range res {
		if _, crash := r.Panic.(simrt.CrashPanic); crash && mc.inFailingPrint {
			// A print of IR that cannot be printed panicked, as expected — but on a
			// goroutine the code under test had started, where the caller cannot
			// recover it: the history ends there (nothing to compare; the statement
			// says nothing about printing unfinished IR).
			out.skip = "a print of unprintable IR panicked on a goroutine of the code under test (the process would have died)"
			return out
		}
		if r.Panic != nil {
			who := "builder"
			if i == 1 {
				who = "observer"
			}
			out.class, out.sig = "panic-in-"+who, normDigits(clip(fmt.Sprint(r.Panic), 160))
			out.detail = fmt.Sprintf("%s task panicked: %v\n%s", who, r.Panic, clip(r.Stack, 1200))
			return out
		}
	}
	if obsPanic != "" {
		out.class, out.sig, out.detail = "observer-panics", normDigits(clip(obsPanic, 200)), obsPanic
		return out
	}
	if obsBad != "" {
		out.class, out.sig, out.detail = "print-twice-differs", normDigits(clip(obsBad, 60)), obsBad
		return out
	}
	mc.finalize()
	var final, final2 string
	if pan, msg := protect(func() { simCall(func() { final = mc.m.String() }) }); pan {
		out.class, out.sig = "final-print-panics", normDigits(clip(msg, 200))
		out.detail = "the same steps print fine without the observer calls; with them the final String() panics: " + msg
		return out
	}
	if final != refText {
		out.class, out.sig = "final-text-differs", "final-text-differs"
		out.detail = "final String() differs from the observer-free run: " + firstDiff(final, refText)
		if sc.XProc {
			out.sig = "final-text-differs (reference from a fresh process)"
			out.detail = "final String() of this history, run as the first thing its process does, differs from the steps alone run in another fresh process: " + firstDiff(final, refText)
		}
		return out
	}
	if pan, msg := protect(func() { simCall(func() { final2 = mc.m.String() }) }); pan || final2 != final {
		out.class, out.sig = "print-twice-differs", "final"
		out.detail = "printing the final module twice in a row gives different results: " + msg + " " + firstDiff(final, final2)
		return out
	}
	return out
}

func c14GenScenario(r *rng) *C14Scenario {
	sc := &C14Scenario{}
	steps := 6 + r.intn(50)
	sc.Prog = genProgram(r, genParams{Steps: steps, Metadata: r.chance(1, 3), BlockAddr: r.chance(1, 3), IllFormed: r.chance(1, 2), Literal: r.chance(1, 5), Swarm: r.chance(1, 2), Burst: r.chance(1, 4)})
	nobs := 1 + r.intn(12)
	if r.chance(1, 8) {
		nobs = 20 + r.intn(20)
	}
	// Swarm: half of the histories use only a random subset of the observer kinds.
	var obsKinds []int
	if r.chance(1, 2) {
		for k := range obsNames {
			if r.chance(1, 3) {
				obsKinds = append(obsKinds, k)
			}
		}
	}
	for i := 0; i < nobs; i++ {
		k := r.intn(len(obsNames))
		if r.chance(2, 5) {
			k = r.intn(4) // prints are what assigns IDs
		}
		if len(obsKinds) > 0 {
			k = obsKinds[r.intn(len(obsKinds))]
		}
		o := Obs{K: k, A: r.intn(64), B: r.intn(64), C: r.intn(64)}
		if f := sc.Prog.Focus; len(f) == 3 && f[0] < 0 {
			// type burst: look at globals, type definitions and the module
			if r.chance(2, 3) {
				o = Obs{K: []int{16, 10, 17, 0, 1}[r.intn(5)], A: r.intn(64), B: r.intn(64)}
			}
		} else if len(f) == 3 && r.chance(1, 2) {
			// aim at the instruction the burst of edits aims at, with an observer of
			// instructions, operands or values
			o = Obs{K: []int{4, 5, 6, 7, 8, 15, 12, 3}[r.intn(8)], A: f[0], B: f[1], C: f[2]}
		}
		sc.Observers = append(sc.Observers, o)
	}
	// Focused histories: a third of the runs aim every selector at the first one
	// or two entities, so that observations and several different edits hit the
	// SAME value (violations that need such a conjunction are otherwise rare).
	if r.chance(1, 3) {
		m := 1 + r.intn(2)
		for i := range sc.Prog.Steps {
			st := &sc.Prog.Steps[i]
			if st.Op == "func" || st.Op == "global" || st.Op == "typedef" || st.Op == "alias" {
				continue
			}
			st.A, st.B, st.C, st.D, st.P = st.A%m, st.B%m, st.C%(m+1), st.D%(m+2), st.P%(m+1)
		}
		for i := range sc.Observers {
			o := &sc.Observers[i]
			o.A, o.B, o.C = o.A%m, o.B%m, o.C%(m+1)
		}
		sc.Note = "focused"
	}
	// Gaps are counted in yields (= steps); keep them small so that the observer
	// lands inside the program, not after it.
	mean := 1 + r.intn(1+steps/(nobs+1))
	// (a tenth of the histories also run with seeded map-iteration orders: what the
	// printer ranges over must come out in the same order every time)
	np := 0
	if r.chance(1, 10) {
		np = 96
	}
	sc.Tape = genTape(r, TapeParams{NSched: 256, MeanGap: mean, EdgePct: 0, EarlyPct: 0, NPerm: np})
	sc.Tape.StepCap = 1 << 30
	return sc
}

func c14Search() {
	if *flagMode == "xref-child" {
		c14ChildMain()
		return
	}
	xproc := *flagMode == "xproc"
	sum := newSummary()
	distinct := hashSet{}
	failures := 0
	runsInProcess := 0
	for idx := *flagFrom; idx < *flagRuns; idx++ {
		if idx%shardN != shardI {
			continue
		}
		if overBudget() || failures >= *flagMaxFail {
			break
		}
		if xproc && runsInProcess >= 1 {
			// one history per process: it has to be the first thing the process does
			sum.Stopped = true
			sum.NextSeed = uint64(idx)
			break
		}
		runsInProcess++
		curIndex = idx
		noteProgress(idx)
		runSeed := derive(*flagSeed, fmt.Sprintf("C14/%d", idx))
		curSeed = runSeed
		if xproc {
			runSeed = derive(*flagSeed, fmt.Sprintf("C14x/%d", idx))
			curSeed = runSeed
		}
		sc := c14GenScenario(newRNG(runSeed))
		if xproc {
			c14MakeXProc(newRNG(runSeed^0x9e3779b97f4a7c15), sc)
			sum.Counters["histories run as the first activity of a fresh process, reference from another fresh process"]++
		}
		o := c14Run(sc)
		if o.skip != "" {
			sum.Skipped[o.skip]++
			continue
		}
		sum.Runs++
		sum.Counters["builder steps applied"] += int64(o.stepsApplied)
		sum.Counters["observer calls applied"] += int64(o.obsApplied)
		sum.Counters["context switches (builder <-> observer)"] += o.stats.Switches
		countChans(sum, o.stats)
		for k, v := range o.probes {
			if v > 0 {
				sum.Probes[k]++
			}
		}
		if o.obsApplied > 0 && o.stats.Switches > 0 {
			distinct.add(hash64(o.history...))
		}
		if len(sum.Samples) < 2 && o.obsApplied >= 3 && len(o.history) < 40 {
			sum.Samples = append(sum.Samples, map[string]interface{}{"seed": fmt.Sprint(runSeed), "history": o.history})
		}
		if *flagSelf {
			emit(outRec{T: "event", Seed: runSeed, Detail: fmt.Sprintf("idx=%d trace=%016x hist=%016x class=%s uncontrolled=%d", idx, o.stats.TraceHash, hash64(o.history...), o.class, o.stats.PermUncontrolled)})
		}
		if o.class != "" {
			failures++
			sum.Failures++
			trimTape(sc.Tape, o.stats)
			emit(outRec{T: "fail", Property: "C14", Seed: runSeed, Class: o.class, Sig: o.sig, Detail: o.detail, Replay: sc,
				Extra: map[string]interface{}{"trace": o.history, "history": historyInfo(idx)}})
		}
	}
	sum.Distinct = distinct.list()
	emit(outRec{T: "summary", Property: "C14", Summary: sum})
}

// c14MakeXProc turns a scenario into a cross-process one: shorter, and (half of
// them) seeded with what per-process state tends to be keyed by — several
// constants that are close to each other (same digits in another width, same
// low bits), looked at by observers of globals and initialisers.
func c14MakeXProc(r *rng, sc *C14Scenario) {
	sc.XProc = true
	if len(sc.Prog.Steps) > 30 {
		sc.Prog.Steps = sc.Prog.Steps[:30]
	}
	if len(sc.Observers) > 12 {
		sc.Observers = sc.Observers[:12]
	}
	if r.chance(1, 2) {
		var pre []Step
		for i, n := 0, 1+r.intn(3); i < n; i++ {
			pre = append(pre, Step{Op: "global", K: 10, A: r.intn(1 << 12), Name: ""})
		}
		sc.Prog.Steps = append(pre, sc.Prog.Steps...)
		for i := range sc.Observers {
			if r.chance(2, 3) {
				sc.Observers[i] = Obs{K: []int{16, 10, 16}[r.intn(3)], A: r.intn(8)}
			}
		}
	}
}

func c14Replay(raw json.RawMessage) *outRec {
	var sc C14Scenario
	if err := json.Unmarshal(raw, &sc); err != nil || sc.Prog == nil || sc.Tape == nil {
		return &outRec{T: "note", Class: "harness-error", Detail: "bad C14 scenario"}
	}
	o := c14Run(&sc)
	if o.skip != "" {
		return &outRec{T: "note", Class: "skipped", Detail: o.skip + ": " + o.detail}
	}
	if o.class == "" {
		return nil
	}
	return &outRec{T: "fail", Property: "C14", Class: o.class, Sig: o.sig, Detail: o.detail, Replay: &sc,
		Extra: map[string]interface{}{"trace": o.history}}
}

func c14Candidates(raw json.RawMessage) []interface{} {
	var sc C14Scenario
	if json.Unmarshal(raw, &sc) != nil || sc.Prog == nil || sc.Tape == nil {
		return nil
	}
	var out []interface{}
	clone := func() *C14Scenario {
		b, _ := json.Marshal(&sc)
		var c C14Scenario
		json.Unmarshal(b, &c)
		return &c
	}
	// Drop chunks of steps, then single steps.
	n := len(sc.Prog.Steps)
	for sz := n / 2; sz >= 1; sz /= 2 {
		for i := 0; i+sz <= n; i += sz {
			c := clone()
			c.Prog.Steps = append(c.Prog.Steps[:i:i], c.Prog.Steps[i+sz:]...)
			out = append(out, c)
		}
		if sz == 1 {
			break
		}
	}
	// Drop observers.
	no := len(sc.Observers)
	for sz := no / 2; sz >= 1; sz /= 2 {
		for i := 0; i+sz <= no; i += sz {
			c := clone()
			c.Observers = append(c.Observers[:i:i], c.Observers[i+sz:]...)
			out = append(out, c)
		}
		if sz == 1 {
			break
		}
	}
	// Simpler observers: a module print is the simplest to read.
	for i, o := range sc.Observers {
		if o.K != 0 {
			c := clone()
			c.Observers[i] = Obs{K: 0}
			out = append(out, c)
		}
	}
	// Simpler steps: drop names, zero selectors.
	for i, s := range sc.Prog.Steps {
		if s.Name != "" {
			c := clone()
			c.Prog.Steps[i].Name = ""
			out = append(out, c)
		}
		if s.A|s.B|s.C|s.D|s.P != 0 {
			c := clone()
			c.Prog.Steps[i].A, c.Prog.Steps[i].B, c.Prog.Steps[i].C, c.Prog.Steps[i].D, c.Prog.Steps[i].P = 0, 0, 0, 0, 0
			out = append(out, c)
		}
	}
	for _, g := range shrinkStream(sc.Tape.Gaps) {
		c := clone()
		c.Tape.Gaps = g
		out = append(out, c)
	}
	for _, g := range shrinkStream(sc.Tape.Picks) {
		c := clone()
		c.Tape.Picks = g
		out = append(out, c)
	}
	return out
}
