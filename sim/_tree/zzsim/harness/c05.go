package main

import (
	"encoding/json"
	"fmt"
	"os"
	"os/exec"
	"regexp"
	"sort"
	"strings"

	"github.com/llir/ll"
	"github.com/llir/ll/ast"
	"github.com/llir/ll/selector"
	"github.com/llir/llvm/asm"
	"github.com/llir/llvm/ir"
	"github.com/llir/llvm/ir/types"
	"github.com/llir/llvm/zzsim/simrt"
)

// C05 — undefined or doubly defined names are reported as errors.
//
// Single-point fault injection into a valid module: every reference site is
// redirected to a name that is defined nowhere, every named definition is
// duplicated; each faulted input is parsed under the canonical and several
// tape-chosen translation orders (which lookup meets the dangling name first
// depends on the order in which the translator visits its index maps).

func init() {
	props["C05"] = &propImpl{search: c05Search, replay: c05Replay, candidates: c05Candidates}
}

// Site is one naming site of a module text.
type Site struct {
	Kind string `json:"kind"`
	Off  int    `json:"off"`
	End  int    `json:"end"`
	Text string `json:"text"`
	// For duplications: what to insert and where.
	InsertAt int    `json:"insert_at,omitempty"`
	Insert   string `json:"insert,omitempty"`
	// For renames (duplicate parameter): the replacement text.
	Replace string `json:"replace,omitempty"`
	// Alt is an identifier of the same sigil whose name exists in the module
	// only in ANOTHER namespace (e.g. %g where only @g is defined): the
	// reference must not be bound to that other entity.
	Alt string `json:"alt,omitempty"`
	// Num is an unnamed (numeric) identifier of the same sigil that is certainly
	// undefined where the site is: one past an upper bound of the IDs that the
	// enclosing function (for locals), the module (for globals) or the metadata
	// definitions can have.
	Num string `json:"num,omitempty"`
}

// C05Scenario is one faulted parse.
type C05Scenario struct {
	Module  string `json:"module"`
	Index   int    `json:"index"`             // index of the site in the module's site list
	Cross   bool   `json:"cross,omitempty"`   // redirect to Site.Alt (a name defined in another namespace) instead of a fresh name
	Numeric bool   `json:"numeric,omitempty"` // redirect to Site.Num (an unnamed ID just past the last possible one)
	Near    int    `json:"near,omitempty"`    // 1: the original name with one character appended, 2: with its last character dropped (both checked to be undefined)
	Site    Site   `json:"site"`
	Orders  int    `json:"orders"`     // number of seeded translation orders besides the canonical one
	Seed    uint64 `json:"order_seed"` // seed of those orders
	// Entries: from the second seeded order on, the faulted text reaches the parser
	// through a seeded entry point (string, bytes, simulated reader with seeded
	// chunking / empty reads / data delivered together with EOF, file, a file whose
	// path held the VALID module a moment ago with the same size and mtime, a
	// seekable reader positioned behind a consumed prefix) instead of ParseString.
	Entries bool `json:"entries,omitempty"`
}

// c05Entry draws the entry point of translation order o.
func c05Entry(er *rng, o int, textLen int) (string, *ReaderPlan) {
	if o < 2 {
		return "string", nil
	}
	switch x := er.intn(20); {
	case x < 7:
		return "string", nil
	case x < 13:
		return "reader", genReader(er, textLen, false)
	case x < 15:
		return "bytes", nil
	case x < 17:
		return "file", nil
	case x < 19:
		return "samefile", nil
	default:
		return "seekreader", nil
	}
}

var c05Uniq int

type siteWalker struct {
	text           string
	funcNum        string // "%K" for the function being walked
	firstFree      map[string]int
	declared       []string             // names of functions that are only declared
	mdDefined      map[int]bool         // defined metadata IDs
	implicitComdat map[string]bool      // names of globals/functions that use the bare `comdat` form
	comdatDefs     map[string]*ast.Node // comdat definitions by name (without sigil)
	nGlobal        int                  // top-level global entities
	maxMD          int                  // largest metadata ID in the text
	sites          []Site
	attrDefSpans   [][2]int // text spans of the attribute group definitions
	maxAttrGroup   int
	globals        []string // names (without sigil) of named globals/functions
	locals         []string // names of named locals, parameters, labels
}

func nodeKids(n *ast.Node) []*ast.Node { return n.Children(selector.Any) }

func (w *siteWalker) add(kind string, n *ast.Node) {
	s := Site{Kind: kind, Off: n.Offset(), End: n.Endoffset(), Text: n.Text()}
	if strings.HasPrefix(n.Text(), "%") && !strings.HasPrefix(kind, "use:named type") {
		s.Num = w.funcNum
	}
	w.sites = append(w.sites, s)
}

// countLocalsUpperBound returns an upper bound of the number of numbered locals
// of a function definition: every parameter, block, instruction and terminator
// could take one ID.
func countLocalsUpperBound(fn *ast.Node) int {
	n := 0
	var rec func(x *ast.Node)
	rec = func(x *ast.Node) {
		switch x.Type() {
		case ll.Param, ll.BasicBlock:
			n++
		}
		for _, c := range nodeKids(x) {
			if x.Type() == ll.BasicBlock {
				n++ // every direct child (instruction, terminator, label) counted generously
			}
			rec(c)
		}
	}
	rec(fn)
	return n + 1
}

// countIdent counts the occurrences of identifier id in text as a whole token.
func countIdent(text, id string) int {
	n := 0
	for i := 0; ; {
		j := strings.Index(text[i:], id)
		if j < 0 {
			return n
		}
		end := i + j + len(id)
		if end >= len(text) || !isIdentByte(text[end]) {
			n++
		}
		i = end
	}
}

func isIdentByte(c byte) bool {
	return c == '_' || c == '.' || c == '$' || c == '-' || c >= '0' && c <= '9' || c >= 'a' && c <= 'z' || c >= 'A' && c <= 'Z'
}

// isUnnamedIdent reports whether an identifier text is a numeric ID (@3, %7).
func isUnnamedIdent(s string) bool {
	if len(s) < 2 {
		return false
	}
	for _, c := range s[1:] {
		if c < '0' || c > '9' {
			return false
		}
	}
	return true
}

func (w *siteWalker) walk(n *ast.Node, parent *ast.Node, idxInParent int, sameTypeIdx int) {
	if n.Type() == ll.FuncDef {
		w.funcNum = fmt.Sprintf("%%%d", countLocalsUpperBound(n))
		if hdr := n.Child(selector.FuncHeader); hdr != nil {
			if id := hdr.Child(selector.GlobalIdent); id != nil {
				if k, ok := w.firstFree[id.Text()]; ok {
					w.funcNum = fmt.Sprintf("%%%d", k)
				}
			}
		}
	}
	switch n.Type() {
	case ll.GlobalIdent:
		switch parent.Type() {
		case ll.GlobalDecl, ll.IndirectSymbolDef, ll.FuncHeader:
			if sameTypeIdx == 0 {
				// The name being defined; duplication is handled at the entity.
				if t := n.Text(); !isUnnamedIdent(t) {
					w.globals = append(w.globals, t[1:])
				}
				break
			}
			w.add("use:global (initialiser/aliasee)", n)
		case ll.BlockAddressConst:
			w.add("use:blockaddress function", n)
		case ll.UseListOrderBB:
			w.add("use:uselistorder_bb function", n)
		case ll.DSOLocalEquivalentConst, ll.NoCFIConst:
			w.add("use:global (dso_local_equivalent/no_cfi)", n)
		default:
			w.add("use:global ("+parent.Type().String()+")", n)
		}
	case ll.LocalIdent:
		switch parent.Type() {
		case ll.TypeDef:
			// type definition name
			w.locals = append(w.locals, n.Text()[1:])
		case ll.NamedType:
			w.add("use:named type", n)
		case ll.LocalDefInst, ll.LocalDefTerm, ll.Param:
			// definition
			if t := n.Text(); !isUnnamedIdent(t) {
				w.locals = append(w.locals, t[1:])
			}
		case ll.Label:
			w.add("use:label", n)
		case ll.Inc:
			if sameTypeIdx == len(parent.Children(selector.LocalIdent))-1 {
				w.add("use:phi predecessor", n)
			} else {
				w.add("use:local (phi incoming value)", n)
			}
		case ll.BlockAddressConst, ll.UseListOrderBB:
			kind := "use:blockaddress block"
			if parent.Type() == ll.UseListOrderBB {
				kind = "use:uselistorder_bb block"
			}
			// The block lives in the namespace of the REFERENCED function.
			saved := w.funcNum
			w.funcNum = ""
			if fn := parent.Child(selector.GlobalIdent); fn != nil {
				if k, ok := w.firstFree[fn.Text()]; ok {
					w.funcNum = fmt.Sprintf("%%%d", k)
				}
			}
			w.add(kind, n)
			w.funcNum = saved
		case ll.CatchPadInst:
			w.add("use:local (catchpad within)", n)
		default:
			w.add("use:local ("+parent.Type().String()+")", n)
		}
	case ll.ComdatName:
		if parent.Type() == ll.Comdat {
			w.add("use:comdat", n)
		}
		if parent.Type() == ll.ComdatDef {
			w.comdatDefs[strings.TrimPrefix(n.Text(), "$")] = n
		}
	case ll.Comdat:
		if n.Child(selector.ComdatName) == nil && parent != nil {
			// Bare `comdat`: the comdat of the same name as the global or function.
			var id *ast.Node
			switch parent.Type() {
			case ll.GlobalDecl:
				id = parent.Child(selector.GlobalIdent)
			case ll.FuncHeader:
				id = parent.Child(selector.GlobalIdent)
			}
			if id != nil {
				w.implicitComdat[strings.TrimPrefix(id.Text(), "@")] = true
			}
		}
	case ll.AttrGroupID:
		var gid int
		if _, err := fmt.Sscanf(n.Text(), "#%d", &gid); err == nil && gid > w.maxAttrGroup {
			w.maxAttrGroup = gid
		}
		if parent.Type() == ll.AttrGroupDef {
			w.attrDefSpans = append(w.attrDefSpans, [2]int{parent.Offset(), parent.Endoffset()})
			break
		}
		// The documented exception: an undefined attribute group is materialised as
		// an empty group. It must still not crash the caller.
		w.sites = append(w.sites, Site{Kind: "attrgroup:use redirected to an undefined group", Off: n.Offset(), End: n.Endoffset(), Text: n.Text(), Replace: "#ATTRGROUP"})
	case ll.MetadataID:
		var id int
		if _, err := fmt.Sscanf(n.Text(), "!%d", &id); err == nil && id > w.maxMD {
			w.maxMD = id
		}
		if parent.Type() == ll.MetadataDef && sameTypeIdx == 0 && idxInParent == 0 {
			w.mdDefined[id] = true
			break
		}
		w.add("use:metadata id ("+parent.Type().String()+")", n)
	}
	// Definitions to duplicate.
	switch n.Type() {
	case ll.TypeDef:
		if n.Child(selector.OpaqueType) == nil {
			w.dupEntity("dup:type", n)
			if name := n.Child(selector.LocalIdent); name != nil {
				w.sites = append(w.sites, Site{Kind: "dup:type (redefined as opaque after its body)", Off: n.Offset(), End: n.Endoffset(), Text: name.Text(), InsertAt: n.Endoffset(), Insert: "\n" + name.Text() + " = type opaque\n"})
			}
		}
	case ll.ComdatDef:
		w.dupEntity("dup:comdat", n)
	case ll.GlobalDecl, ll.IndirectSymbolDef:
		w.nGlobal++
		if name := n.Child(selector.GlobalIdent); name != nil && !isUnnamedIdent(name.Text()) {
			w.dupEntity("dup:global", n)
		}
	case ll.FuncDecl, ll.FuncDef:
		w.nGlobal++
		if n.Type() == ll.FuncDecl {
			if hdr := n.Child(selector.FuncHeader); hdr != nil {
				if name := hdr.Child(selector.GlobalIdent); name != nil {
					w.declared = append(w.declared, name.Text())
				}
			}
		}
		if hdr := n.Child(selector.FuncHeader); hdr != nil {
			if name := hdr.Child(selector.GlobalIdent); name != nil && !isUnnamedIdent(name.Text()) {
				w.dupEntity("dup:function", n)
				// ... and the other form of the same function: a definition behind its
				// declaration, a declaration in front of / behind its definition
				if n.Type() == ll.FuncDecl {
					w.sites = append(w.sites, Site{Kind: "dup:function (defined after it was declared)", Off: n.Offset(), End: n.Endoffset(), Text: name.Text(), InsertAt: n.Endoffset(), Insert: "\ndefine void " + name.Text() + "() {\n  ret void\n}\n"})
				} else {
					w.sites = append(w.sites, Site{Kind: "dup:function (declared in front of its definition)", Off: n.Offset(), End: n.Endoffset(), Text: name.Text(), InsertAt: n.Offset(), Insert: "declare void " + name.Text() + "()\n"})
					w.sites = append(w.sites, Site{Kind: "dup:function (declared again behind its definition)", Off: n.Offset(), End: n.Endoffset(), Text: name.Text(), InsertAt: n.Endoffset(), Insert: "\ndeclare void " + name.Text() + "()\n"})
				}
			}
		}
	case ll.MetadataDef:
		w.dupEntity("dup:metadata id", n)
	}
	// Cross-kind duplicates: the same global name defined again by an entity of
	// another kind.
	switch n.Type() {
	case ll.FuncDecl, ll.FuncDef:
		if hdr := n.Child(selector.FuncHeader); hdr != nil {
			if name := hdr.Child(selector.GlobalIdent); name != nil && !isUnnamedIdent(name.Text()) {
				w.sites = append(w.sites, Site{Kind: "dup:global variable with the name of a function", Off: n.Offset(), End: n.Endoffset(), Text: name.Text(), InsertAt: n.Endoffset(), Insert: "\n" + name.Text() + " = global i32 0\n"})
			}
		}
	case ll.GlobalDecl:
		if name := n.Child(selector.GlobalIdent); name != nil && !isUnnamedIdent(name.Text()) {
			w.sites = append(w.sites, Site{Kind: "dup:function declaration with the name of a global variable", Off: n.Offset(), End: n.Endoffset(), Text: name.Text(), InsertAt: n.Endoffset(), Insert: "\ndeclare void " + name.Text() + "()\n"})
		}
	case ll.IndirectSymbolDef:
		if name := n.Child(selector.GlobalIdent); name != nil && !isUnnamedIdent(name.Text()) {
			w.sites = append(w.sites, Site{Kind: "dup:global variable with the name of an alias/ifunc", Off: n.Offset(), End: n.Endoffset(), Text: name.Text(), InsertAt: n.Endoffset(), Insert: "\n" + name.Text() + " = global i32 0\n"})
			w.sites = append(w.sites, Site{Kind: "dup:function declaration with the name of an alias/ifunc", Off: n.Offset(), End: n.Endoffset(), Text: name.Text(), InsertAt: n.Endoffset(), Insert: "\ndeclare void " + name.Text() + "()\n"})
			w.sites = append(w.sites, Site{Kind: "dup:function definition with the name of an alias/ifunc", Off: n.Offset(), End: n.Endoffset(), Text: name.Text(), InsertAt: n.Endoffset(), Insert: "\ndefine void " + name.Text() + "() {\n  ret void\n}\n"})
		}
	case ll.LocalDefInst:
		if name := n.Child(selector.LocalIdent); name != nil && !isUnnamedIdent(name.Text()) {
			w.sites = append(w.sites, Site{Kind: "dup:local", Off: n.Offset(), End: n.Endoffset(), Text: n.Text(), InsertAt: n.Endoffset(), Insert: "\n\t" + n.Text()})
		}
	case ll.FuncBody:
		// A named instruction whose result is used nowhere, renamed to the name of
		// a parameter or of a block of the same function (locals, parameters and
		// labels share one namespace).
		if parent != nil && parent.Type() == ll.FuncDef {
			fnText := parent.Text()
			var paramName, labelName string
			if hdr := parent.Child(selector.FuncHeader); hdr != nil {
				if ps := hdr.Child(selector.Params); ps != nil {
					for _, p := range ps.Children(selector.Param) {
						if id := p.Child(selector.LocalIdent); id != nil && !isUnnamedIdent(id.Text()) && paramName == "" {
							paramName = id.Text()
						}
					}
				}
			}
			for _, bb := range n.Children(selector.BasicBlock) {
				if lbl := bb.Child(selector.LabelIdent); lbl != nil && labelName == "" {
					t := strings.TrimSuffix(lbl.Text(), ":")
					if !isUnnamedIdent("%"+t) && !strings.ContainsAny(t, "\"\\ ") {
						labelName = "%" + t
					}
				}
			}
			done := false
			for _, bb := range n.Children(selector.BasicBlock) {
				for _, c := range nodeKids(bb) {
					if c.Type() != ll.LocalDefInst || done {
						continue
					}
					id := c.Child(selector.LocalIdent)
					if id == nil || isUnnamedIdent(id.Text()) || countIdent(fnText, id.Text()) != 1 {
						continue
					}
					if paramName != "" && paramName != id.Text() {
						w.sites = append(w.sites, Site{Kind: "dup:local (instruction renamed to a parameter's name)", Off: id.Offset(), End: id.Endoffset(), Text: id.Text(), Replace: paramName})
					}
					if labelName != "" && labelName != id.Text() {
						w.sites = append(w.sites, Site{Kind: "dup:local (instruction renamed to a block's name)", Off: id.Offset(), End: id.Endoffset(), Text: id.Text(), Replace: labelName})
					}
					done = true
				}
			}
		}
		// A named value-producing terminator (invoke) given the name of an
		// earlier named instruction of the same function.
		var firstInst *ast.Node
		for _, bb := range n.Children(selector.BasicBlock) {
			for _, c := range nodeKids(bb) {
				switch c.Type() {
				case ll.LocalDefInst:
					if id := c.Child(selector.LocalIdent); id != nil && !isUnnamedIdent(id.Text()) && firstInst == nil {
						firstInst = id
					}
				case ll.LocalDefTerm:
					if id := c.Child(selector.LocalIdent); id != nil && !isUnnamedIdent(id.Text()) && firstInst != nil && firstInst.Text() != id.Text() && countIdent(n.Text(), id.Text()) == 1 {
						w.sites = append(w.sites, Site{Kind: "dup:local (terminator result renamed to an instruction's name)", Off: id.Offset(), End: id.Endoffset(), Text: id.Text(), Replace: firstInst.Text()})
					}
				}
			}
		}
	case ll.BasicBlock:
		if name := n.Child(selector.LabelIdent); name != nil {
			lbl := name.Text()
			w.locals = append(w.locals, strings.TrimSuffix(lbl, ":"))
			if !isUnnamedIdent("%" + strings.TrimSuffix(lbl, ":")) {
				w.sites = append(w.sites, Site{Kind: "dup:label", Off: name.Offset(), End: name.Endoffset(), Text: lbl, InsertAt: n.Endoffset(), Insert: "\n" + lbl + "\n\tunreachable"})
			}
		}
	case ll.Params:
		ps := n.Children(selector.Param)
		var named []*ast.Node
		for _, p := range ps {
			if id := p.Child(selector.LocalIdent); id != nil && !isUnnamedIdent(id.Text()) {
				named = append(named, id)
			}
		}
		if len(named) >= 2 && parent != nil && parent.Type() == ll.FuncHeader {
			// Give the second named parameter the name of the first.
			w.sites = append(w.sites, Site{Kind: "dup:parameter", Off: named[1].Offset(), End: named[1].Endoffset(), Text: named[1].Text(), Replace: named[0].Text()})
		}
		if len(named) >= 1 && parent != nil && parent.Type() == ll.FuncHeader {
			// Append a copy of the first named parameter: no name disappears, so the
			// duplicate is the only naming error (renaming a parameter that the body
			// uses adds an undefined use, which masks a missing duplicate check).
			for _, p := range ps {
				if id := p.Child(selector.LocalIdent); id != nil && id.Offset() == named[0].Offset() {
					last := ps[len(ps)-1]
					w.sites = append(w.sites, Site{Kind: "dup:parameter (copy of the first named parameter appended)", Off: named[0].Offset(), End: named[0].Endoffset(), Text: named[0].Text(), InsertAt: last.Endoffset(), Insert: ", " + p.Text()})
					break
				}
			}
		}
	}
	counts := map[ll.NodeType]int{}
	for i, c := range nodeKids(n) {
		k := counts[c.Type()]
		counts[c.Type()]++
		w.walk(c, n, i, k)
	}
	if n.Type() == ll.FuncDef {
		w.funcNum = ""
	}
}

func (w *siteWalker) dupEntity(kind string, n *ast.Node) {
	w.sites = append(w.sites, Site{Kind: kind, Off: n.Offset(), End: n.Endoffset(), Text: clip(n.Text(), 80), InsertAt: n.Endoffset(), Insert: "\n" + n.Text() + "\n"})
}

// c05Sites lists the naming sites of a module text (in textual order of
// discovery, which is deterministic).
func c05Sites(name, text string) ([]Site, error) {
	tree, err := ast.Parse(name, text)
	if err != nil {
		return nil, err
	}
	w := &siteWalker{text: text, firstFree: map[string]int{}, mdDefined: map[int]bool{}, implicitComdat: map[string]bool{}, comdatDefs: map[string]*ast.Node{}}
	// The first unused unnamed local ID of every function definition, from the
	// translation of the valid module (the IDs LLVM and the library agree on).
	if m, err := asm.ParseString(name, text); err == nil && m != nil {
		for _, f := range m.Funcs {
			if len(f.Blocks) == 0 {
				continue
			}
			k := 0
			bump := func(unnamed bool) {
				if unnamed {
					k++
				}
			}
			for _, p := range f.Params {
				bump(p.IsUnnamed())
			}
			for _, b := range f.Blocks {
				bump(b.IsUnnamed())
				for _, in := range b.Insts {
					if v, ok := in.(interface {
						IsUnnamed() bool
						Type() types.Type
					}); ok && !v.Type().Equal(types.Void) {
						bump(v.IsUnnamed())
					}
				}
				if v, ok := b.Term.(interface {
					IsUnnamed() bool
					Type() types.Type
				}); ok && !v.Type().Equal(types.Void) {
					bump(v.IsUnnamed())
				}
			}
			w.firstFree[f.Ident()] = k
		}
	}
	w.walk(tree.Root(), tree.Root(), 0, 0)
	// A comdat definition whose only reference may be the bare `comdat` form:
	// renaming the definition leaves that implicit reference dangling.
	var names []string
	for name := range w.comdatDefs {
		names = append(names, name)
	}
	sort.Strings(names)
	for _, name := range names {
		if w.implicitComdat[name] {
			n := w.comdatDefs[name]
			w.sites = append(w.sites, Site{Kind: "use:comdat (implicit; its definition renamed away)", Off: n.Offset(), End: n.Endoffset(), Text: n.Text()})
		}
	}
	// Attribute groups: the fresh ID of the redirects, and one fault that removes
	// every definition (all uses dangle, and the module has no group at all).
	for i := range w.sites {
		if w.sites[i].Replace == "#ATTRGROUP" {
			w.sites[i].Replace = fmt.Sprintf("#%d", w.maxAttrGroup+7)
		}
	}
	if len(w.attrDefSpans) > 0 {
		b := []byte(text)
		for _, sp := range w.attrDefSpans {
			for k := sp[0]; k < sp[1] && k < len(b); k++ {
				if b[k] != '\n' {
					b[k] = ' '
				}
			}
		}
		w.sites = append(w.sites, Site{Kind: "attrgroup:every definition removed", Off: 0, End: len(text), Text: "attributes #N = { ... }", Replace: string(b)})
	}
	// Cross-namespace alternatives.
	isIn := func(set []string, x string) bool {
		for _, y := range set {
			if y == x {
				return true
			}
		}
		return false
	}
	pick := func(cands []string, sigil string, taken []string) string {
		for _, c := range cands {
			if strings.ContainsAny(c, "\\\" ") || isIn(taken, c) {
				continue
			}
			if !strings.Contains(text, sigil+c) {
				return sigil + c
			}
		}
		return ""
	}
	altLocal := pick(w.globals, "%", w.locals)  // %g where only @g exists (no local, label or type of that name anywhere)
	altGlobal := pick(w.locals, "@", w.globals) // @x where only %x exists
	altComdat := pick(w.globals, "$", nil)      // $g where only @g exists
	for i := range w.sites {
		k := w.sites[i].Kind
		switch {
		case strings.HasPrefix(k, "use:global"), strings.HasSuffix(k, " function"):
			w.sites[i].Num = fmt.Sprintf("@%d", w.nGlobal+1)
		case strings.HasPrefix(k, "use:metadata"):
			// The smallest ID that is not defined: inside a gap of the numbering if
			// there is one, else one past the largest.
			gap := 0
			for w.mdDefined[gap] {
				gap++
			}
			w.sites[i].Num = fmt.Sprintf("!%d", gap)
		}
		switch {
		case strings.HasPrefix(k, "use:local"), strings.HasPrefix(k, "use:label"), strings.HasPrefix(k, "use:phi"), strings.HasPrefix(k, "use:named type"), strings.HasSuffix(k, " block"):
			w.sites[i].Alt = altLocal
		case strings.HasPrefix(k, "use:global"), strings.HasSuffix(k, " function"):
			w.sites[i].Alt = altGlobal
		case strings.HasPrefix(k, "use:comdat"):
			w.sites[i].Alt = altComdat
		}
		if k == "use:blockaddress function" && len(w.declared) > 0 && w.declared[0] != w.sites[i].Text {
			// A function that exists but is only declared has no block at all.
			w.sites[i].Alt = w.declared[0]
		}
	}
	return w.sites, nil
}

// freshIdent returns an identifier with the sigil of old that occurs nowhere in text.
func freshIdent(text, old string) string {
	sigil := old[:1]
	if sigil == "!" {
		for id := 987654; ; id++ {
			c := fmt.Sprintf("!%d", id)
			if !strings.Contains(text, c) {
				return c
			}
		}
	}
	for i := 0; ; i++ {
		c := fmt.Sprintf("%szz_undefined_%d", sigil, i)
		if !strings.Contains(text, c) {
			return c
		}
	}
}

// applyFault returns the faulted text.
// nearMiss returns a name that differs from the identifier old by one trailing
// character and occurs nowhere in text ("" if there is none).
func nearMiss(text, old string, mode int) string {
	if mode >= 6 {
		// Spellings that are names (or IDs no definition can have), whatever the
		// original identifier was — also when it was an unnamed %N / @N / !N.
		if len(old) < 2 {
			return ""
		}
		var cand string
		switch {
		case mode == 6 && (old[0] == '%' || old[0] == '@'):
			// '-' may start a name: %-0 is the value NAMED "-0", not the unnamed %0
			cand = old[:1] + "-0"
		case mode == 7 && (old[0] == '%' || old[0] == '@'):
			// the empty quoted name
			cand = old[:1] + "\"\""
		case mode == 8 && (old[0] == '%' || old[0] == '@' || old[0] == '!'):
			// a number that does not fit in 64 bits (for % and @: a name made of digits)
			cand = old[:1] + "99999999999999999999"
		case mode == 11 && (old[0] == '%' || old[0] == '@') && isUnnamedIdent(old):
			// the NAME made of the same digits: %"7" is not %7
			cand = old[:1] + "\"" + old[1:] + "\""
		case mode == 11 && len(old) >= 4 && (old[0] == '%' || old[0] == '@') && old[1] == '"' && old[len(old)-1] == '"' && isUnnamedIdent(old[:1]+old[2:len(old)-1]):
			// ... and the other way round: the number where the name was meant
			cand = old[:1] + old[2:len(old)-1]
		case mode == 10 && len(old) >= 4 && old[1] == '"' && old[len(old)-1] == '"' && isUnnamedIdent(old[:1]+old[2:len(old)-1]):
			// a quoted name made of digits, with a zero in front: "042" is not "42"
			cand = old[:2] + "0" + old[2:]
		case mode == 12 && (old[0] == '%' || old[0] == '@' || old[0] == '$') && !isUnnamedIdent(old):
			// the tail of ANOTHER existing name behind a separator (%op.add exists: %add):
			// what a look-up keyed by a concatenation such as function + "." + block,
			// or by a name with its prefix stripped, confuses with a defined entity
			tails := nameTails(text)
			if len(tails) == 0 {
				return ""
			}
			cand = old[:1] + tails[int(hash64(old)%uint64(len(tails)))]
		case mode == 14 && (old[0] == '%' || old[0] == '@') && !isUnnamedIdent(old):
			// the same name under the other sigil: @x where %x was meant (and the
			// other way round), in a position whose grammar takes either
			cand = map[byte]string{'%': "@", '@': "%"}[old[0]] + old[1:]
		case mode == 15 && len(old) >= 4 && old[1] == '"' && old[len(old)-1] == '"':
			// a quoted name with a raw byte >= 0x80 (Latin-1, not UTF-8): the same
			// name with another such byte in its place
			hi := -1
			for i := 2; i < len(old)-1; i++ {
				if old[i] >= 0x80 {
					hi = i
				}
			}
			if hi < 0 {
				return ""
			}
			for _, x := range []byte{1, 2, 4, 8} {
				c := old[:hi] + string([]byte{old[hi] ^ x}) + old[hi+1:]
				if !strings.Contains(text, c[1:]) {
					cand = c
					break
				}
			}
			if cand == "" {
				return ""
			}
		case mode == 9 && (old[0] == '%' || old[0] == '@' || old[0] == '!'):
			// 2^63: fits an unsigned but not a signed 64-bit number
			cand = old[:1] + "9223372036854775808"
		default:
			return ""
		}
		if countIdent(text, cand) > 0 || strings.Contains(text, "\n"+cand[1:]+":") {
			return ""
		}
		return cand
	}
	if len(old) < 3 || isUnnamedIdent(old) || strings.ContainsAny(old, "\"\\") || old[0] == '!' {
		return ""
	}
	var cand string
	if mode == 3 {
		// the "do not mangle" spelling of the same name: @"\01name"
		if old[0] != '@' {
			return ""
		}
		cand = old[:1] + "\"\\01" + old[1:] + "\""
		if strings.Contains(text, cand) {
			return ""
		}
		return cand
	}
	if mode == 5 {
		// the sigil twice: '$' may start an unquoted name, so $$x is the comdat "$x"
		if old[0] != '$' {
			return ""
		}
		cand = "$" + old
		if strings.Contains(text, cand) {
			return ""
		}
		return cand
	}
	if mode == 4 {
		// a leading underscore (what another platform's mangling would add)
		if old[0] != '@' && old[0] != '$' {
			return ""
		}
		cand = old[:1] + "_" + old[1:]
		if countIdent(text, cand) > 0 {
			return ""
		}
		return cand
	}
	if mode == 1 {
		cand = old + "x"
	} else {
		cand = old[:len(old)-1]
		if len(cand) < 2 || isUnnamedIdent(cand) {
			return ""
		}
	}
	// Undefined everywhere: neither the identifier nor a label spelling of it occurs.
	if countIdent(text, cand) > 0 || strings.Contains(text, "\n"+cand[1:]+":") {
		return ""
	}
	return cand
}

var (
	tailsOf   string
	tailsList []string
)

// nameTails lists, for the names of text that contain a separator ('.', '_',
// '-', '$') in the middle, what follows the separator — as far as that tail is
// itself defined nowhere in text, under any sigil or as a label.
func nameTails(text string) []string {
	if tailsOf == text && len(tailsOf) > 0 {
		return tailsList
	}
	isName := func(c byte) bool {
		return c == '-' || c == '$' || c == '.' || c == '_' || c >= '0' && c <= '9' || c >= 'a' && c <= 'z' || c >= 'A' && c <= 'Z'
	}
	seen := map[string]bool{}
	var out []string
	add := func(name string) {
		for i := 1; i+1 < len(name); i++ {
			if c := name[i]; c != '.' && c != '_' && c != '-' && c != '$' {
				continue
			}
			t := name[i+1:]
			if seen[t] || isUnnamedIdent("%"+t) || len(t) > 40 {
				continue
			}
			seen[t] = true
			if countIdent(text, "%"+t) > 0 || countIdent(text, "@"+t) > 0 || countIdent(text, "$"+t) > 0 || strings.Contains(text, "\n"+t+":") {
				continue
			}
			out = append(out, t)
		}
	}
	for i := 0; i < len(text) && len(out) < 64; i++ {
		c := text[i]
		if c == '%' || c == '@' || c == '$' {
			j := i + 1
			for j < len(text) && isName(text[j]) {
				j++
			}
			if j > i+1 {
				add(text[i+1 : j])
			}
			i = j - 1
		} else if (i == 0 || text[i-1] == '\n') && isName(c) {
			j := i
			for j < len(text) && isName(text[j]) {
				j++
			}
			if j < len(text) && text[j] == ':' {
				add(text[i:j])
			}
			i = j - 1
		}
	}
	sort.Strings(out)
	tailsOf, tailsList = text, out
	return out
}

// nearFault is nearMiss for the site s; mode 13 needs the context of the site.
func nearFault(text string, s Site, mode int) string {
	if mode == 13 {
		return concatTail(text, s)
	}
	return nearMiss(text, text[s.Off:s.End], mode)
}

var concatRe = regexp.MustCompile(`@([-a-zA-Z$._0-9]+),\s*$`)

// concatTail: the site is the block of blockaddress(@F, %B) or of
// uselistorder_bb @F, %B and F = A<sep>X. If some name X<sep>T exists in the
// text (a block of @A, say) and T itself is defined nowhere, the block is
// redirected to %T: function and block put together then spell an existing
// function/block pair, which a look-up keyed by the concatenation confuses.
func concatTail(text string, s Site) string {
	if s.Off < 4 || s.Off > len(text) || s.End > len(text) || s.End <= s.Off {
		return ""
	}
	from := s.Off - 200
	if from < 0 {
		from = 0
	}
	m := concatRe.FindStringSubmatch(text[from:s.Off])
	if m == nil {
		return ""
	}
	f, old := m[1], text[s.Off:s.End]
	if old[0] != '%' {
		return ""
	}
	isSep := func(c byte) bool { return c == '.' || c == '_' || c == '-' || c == '$' }
	names := allNames(text)
	for i := 1; i+1 < len(f); i++ {
		if !isSep(f[i]) {
			continue
		}
		prefix := f[i+1:] + f[i:i+1]
		for _, n := range names {
			if !strings.HasPrefix(n, prefix) || len(n) == len(prefix) {
				continue
			}
			t := n[len(prefix):]
			cand := "%" + t
			if isUnnamedIdent(cand) || countIdent(text, cand) > 0 || strings.Contains(text, "\n"+t+":") {
				continue
			}
			return cand
		}
	}
	return ""
}

var (
	namesOf   string
	namesList []string
)

// allNames lists the unquoted names (identifiers of every sigil, and labels) of text.
func allNames(text string) []string {
	if namesOf == text && len(namesOf) > 0 {
		return namesList
	}
	isName := func(c byte) bool {
		return c == '-' || c == '$' || c == '.' || c == '_' || c >= '0' && c <= '9' || c >= 'a' && c <= 'z' || c >= 'A' && c <= 'Z'
	}
	seen := map[string]bool{}
	var out []string
	for i := 0; i < len(text); i++ {
		c := text[i]
		if c == '%' || c == '@' || c == '$' {
			j := i + 1
			for j < len(text) && isName(text[j]) {
				j++
			}
			if j > i+1 && !seen[text[i+1:j]] {
				seen[text[i+1:j]] = true
				out = append(out, text[i+1:j])
			}
			i = j - 1
		} else if (i == 0 || text[i-1] == '\n') && isName(c) {
			j := i
			for j < len(text) && isName(text[j]) {
				j++
			}
			if j < len(text) && text[j] == ':' && !seen[text[i:j]] {
				seen[text[i:j]] = true
				out = append(out, text[i:j])
			}
			i = j - 1
		}
	}
	sort.Strings(out)
	namesOf, namesList = text, out
	return out
}

func applyFault(text string, s Site, cross, numeric bool) string {
	return applyFaultNear(text, s, cross, numeric, 0)
}

func applyFaultNear(text string, s Site, cross, numeric bool, near int) string {
	if near > 0 && strings.HasPrefix(s.Kind, "use:") {
		if nm := nearFault(text, s, near); nm != "" {
			return text[:s.Off] + nm + text[s.End:]
		}
	}
	switch {
	case strings.HasPrefix(s.Kind, "use:"):
		if numeric && s.Num != "" {
			return text[:s.Off] + s.Num + text[s.End:]
		}
		if cross && s.Alt != "" {
			return text[:s.Off] + s.Alt + text[s.End:]
		}
		return text[:s.Off] + freshIdent(text, text[s.Off:s.End]) + text[s.End:]
	case s.Replace != "":
		return text[:s.Off] + s.Replace + text[s.End:]
	default:
		return text[:s.InsertAt] + s.Insert + text[s.InsertAt:]
	}
}

// decoyFor returns a small valid module that DEFINES the identifier a use-fault
// redirects to ("" for faults that are not redirected uses, and for numeric
// identifiers, which are positional). Parsed in the same process right before the
// faulted text, it is what an earlier request left behind: nothing of it may
// satisfy the undefined reference of the next parse.
func decoyFor(text string, s Site, cross, numeric bool, near int) string {
	if !strings.HasPrefix(s.Kind, "use:") || near >= 7 {
		return ""
	}
	faulted := applyFaultNear(text, s, cross, numeric, near)
	name := ""
	if d := len(faulted) - len(text); s.End+d >= s.Off && s.End+d <= len(faulted) {
		name = faulted[s.Off : s.End+d]
	}
	if len(name) < 2 || isUnnamedIdent(name) {
		return ""
	}
	switch name[0] {
	case '@':
		// as a function (with a block carrying the usual label names) for callee
		// and blockaddress sites, as a global variable otherwise
		if strings.Contains(s.Kind, "callee") || strings.Contains(s.Kind, "blockaddress") || strings.Contains(s.Kind, "function") {
			return "define i32 " + name + "(i32 %x) {\nentry:\n  ret i32 %x\n}\n"
		}
		return name + " = global i32 0\n"
	case '%':
		bare := name[1:]
		return name + " = type { i32 }\ndefine i32 @decoy(i32 " + name + ".v) {\n" + bare + ":\n  ret i32 " + name + ".v\n}\ndefine i32 @decoy2(i32 " + name + ") {\n  ret i32 " + name + "\n}\n"
	case '$':
		return name + " = comdat any\n@decoy = global i32 0, comdat(" + name + ")\n"
	case '!':
		if len(name) > 1 && name[1] >= '0' && name[1] <= '9' {
			return name + " = !{i32 1}\n!decoy = !{" + name + "}\n"
		}
		return name + " = !{}\n"
	}
	return ""
}

type c05Outcome struct {
	class, sig, detail string
	skip               string
	orders             int
	nonIdentity        int64
	doubt              bool
	decoys             int
	entries            int
}

var llvmAs = func() string {
	for _, n := range []string{"llvm-as-14", "llvm-as"} {
		if p, err := exec.LookPath(n); err == nil {
			return p
		}
	}
	return ""
}()

// llvmAccepts reports whether LLVM's own assembler accepts text (used only to
// doubt the injector, never to produce a verdict).
func llvmAccepts(text string) (accepted, available bool) {
	if llvmAs == "" {
		return false, false
	}
	f, err := os.CreateTemp("", "c05-*.ll")
	if err != nil {
		return false, false
	}
	defer os.Remove(f.Name())
	f.WriteString(text)
	f.Close()
	cmd := exec.Command(llvmAs, "-disable-verify", "-o", os.DevNull, f.Name())
	if err := cmd.Run(); err != nil {
		if _, ok := err.(*exec.ExitError); ok {
			return false, true
		}
		return false, false
	}
	return true, true
}

func c05Run(sc *C05Scenario) *c05Outcome {
	out := &c05Outcome{}
	text, ok := corpusText(sc.Module)
	if !ok {
		out.skip = "unknown module"
		return out
	}
	if sc.Site.End > len(text) || sc.Site.Off > sc.Site.End || sc.Site.InsertAt > len(text) {
		out.skip = "site does not fit the module text (stale replay file)"
		return out
	}
	faulted := applyFaultNear(text, sc.Site, sc.Cross, sc.Numeric, sc.Near)
	if _, err := ast.Parse(sc.Module, faulted); err != nil {
		out.skip = "faulted text is not accepted by the grammar (site discarded)"
		return out
	}
	r := newRNG(sc.Seed)
	er := newRNG(derive(sc.Seed, "entries"))
	for o := 0; o <= sc.Orders; o++ {
		entry, plan := "string", (*ReaderPlan)(nil)
		if sc.Entries {
			entry, plan = c05Entry(er, o, len(faulted))
			if entry != "string" && entry != "bytes" && entry != "reader" && tmpDir == "" {
				d, derr := os.MkdirTemp("", "c05-")
				if derr != nil {
					out.skip = "harness: no temp directory"
					return out
				}
				tmpDir = d
			}
		}
		tape := &Tape{}
		if o > 0 {
			tape = genTape(r, TapeParams{NPerm: 512})
			if *flagLibGo {
				// The translator starts goroutines of its own: how they interleave
				// (down to the read and the write of x = append(x, v) on shared state) is
				// part of the translation order. Drawn from a generator of its own, so
				// that the map orders of a seed stay what they were.
				sr := newRNG(derive(sc.Seed, fmt.Sprintf("sched/%d", o)))
				st := genTape(sr, TapeParams{NSched: 1024, MeanGap: []int{1, 2, 4, 16, 64, 400, 3000}[sr.intn(7)], EdgePct: 30, EarlyPct: 30})
				tape.Gaps, tape.Picks, tape.Edges, tape.RMWs, tape.Procs = st.Gaps, st.Picks, st.Edges, st.RMWs, st.Procs
			}
		}
		simrt.Load(tape.config())
		simrt.SeamsOn(true, false)
		var m *ir.Module
		var err error
		decoyed := false
		if o%2 == 1 {
			// Every other order: an earlier parse in the same process (pools and
			// whatever else survives a parse are NOT reset in between) has defined the
			// very name the fault refers to.
			if decoy := decoyFor(text, sc.Site, sc.Cross, sc.Numeric, sc.Near); decoy != "" {
				var dm *ir.Module
				var derr error
				protect(func() { simCall(func() { dm, derr = asm.ParseString("decoy.ll", decoy) }) })
				decoyed = dm != nil && derr == nil
				if decoyed {
					out.decoys++
				}
			}
		}
		var pan bool
		var msg string
		if entry == "string" {
			pan, msg = protect(func() { simCall(func() { m, err = asm.ParseString(sc.Module, faulted) }) })
		} else {
			// (for the entry samefile the path held the valid module a moment ago)
			samefilePrev = text
			c05Uniq++
			var res *parseResult
			pan, msg = protect(func() {
				simCall(func() {
					res = parseVia(sc.Module, faulted, entry, plan, fmt.Sprintf("c05-%d-%d", os.Getpid(), c05Uniq))
				})
			})
			samefilePrev = ""
			if res != nil {
				m, err = res.m, res.err
				if res.panicMsg != "" {
					pan, msg = true, res.panicMsg
				}
			}
			out.entries++
		}
		st := simrt.Snapshot()
		simrt.SeamsOn(false, false)
		out.orders++
		out.nonIdentity += st.PermNonIdentity
		order := "canonical order"
		if o > 0 {
			order = fmt.Sprintf("seeded order %d", o)
		}
		if decoyed {
			order += ", right after a parse of another text that defines that name"
		}
		if entry != "string" {
			order += ", entry point " + entry
			if plan != nil {
				order += fmt.Sprintf(" (chunks up to %d bytes, empty reads %v, last bytes together with EOF %v)", plan.MaxChunk, plan.ZeroReads || plan.ZeroRun > 0, plan.EOFWithData)
			}
			if entry == "samefile" {
				order += " (the path held the unfaulted module a moment ago: same size, same modification time)"
			}
		}
		switch {
		case pan:
			out.class = "panic"
			out.sig = sc.Site.Kind + ": " + normDigits(clip(msg, 120))
			out.detail = fmt.Sprintf("%s with %s (%s -> fault) crashes the caller under %s: %s", sc.Module, sc.Site.Kind, clip(sc.Site.Text, 60), order, msg)
		case strings.HasPrefix(sc.Site.Kind, "attrgroup:") && !(m != nil && err != nil):
			// (undefined attribute groups are the documented exception: accepted, with
			// an empty group materialised — or rejected; anything but a crash)
		case m != nil && err == nil:
			out.class = "accepted"
			out.sig = sc.Site.Kind
			out.detail = fmt.Sprintf("%s with %s (%s -> fault) is accepted under %s: a module is returned and no error", sc.Module, sc.Site.Kind, clip(sc.Site.Text, 60), order)
		case m != nil && err != nil:
			out.class = "module-and-error"
			out.sig = sc.Site.Kind
			out.detail = fmt.Sprintf("%s with %s: both a module and an error (%v) are returned under %s", sc.Module, sc.Site.Kind, err, order)
		}
		if out.class != "" {
			if out.class == "accepted" {
				// Doubt the injector before blaming the parser.
				if acc, avail := llvmAccepts(faulted); avail && acc {
					out.class, out.sig, out.detail = "", "", ""
					out.doubt = true
					return out
				}
			}
			return out
		}
	}
	return out
}

func c05Search() {
	sum := newSummary()
	distinct := hashSet{}
	thorough := *flagTier == "thorough"
	orders := 3
	if thorough {
		// every faulted input under 200 seeded translation orders (map-range
		// permutations and the decisions about keys created during a range)
		orders = 200
	}
	var unit int64
	failures := 0
	for _, cf := range corpus() {
		if strings.Contains(cf.Name, "reject/") {
			continue
		}
		// Control: the unfaulted module is accepted.
		var m *ir.Module
		var err error
		cf := cf
		simrt.Load((&Tape{}).config())
		if pan, _ := protect(func() { simCall(func() { m, err = asm.ParseString(cf.Name, cf.Text) }) }); pan || err != nil || m == nil {
			sum.Skipped["control: the unfaulted module is not accepted"]++
			continue
		}
		sites, err := c05Sites(cf.Name, cf.Text)
		if err != nil {
			sum.Skipped["control: the unfaulted module is not accepted by the grammar"]++
			continue
		}
		if shardI == 0 {
			sum.Counters["modules"]++
			sum.Counters["naming sites found"] += int64(len(sites))
		}
		for i, s := range sites {
			u := unit
			unit++
			if u%shardN != shardI {
				continue
			}
			if failures >= *flagMaxFail || overBudget() {
				break
			}
			// Quick tier: every site of small modules, a stride of the big ones.
			if !thorough && len(sites) > 1000 && i%(len(sites)/1000+1) != 0 {
				sum.Skipped["sites not sampled in the quick tier"]++
				continue
			}
			for variant := 0; variant < 18; variant++ {
				cross, numeric := variant == 1, variant == 2
				near := 0
				if variant >= 3 {
					near = variant - 2
					if near == 7 && os.Getenv("SIM_C05_EMPTYNAME") == "" {
						// The empty quoted name (%"", @"") is bound to the unnamed value
						// number 0: known finding K3, pinned by a tape of its own
						// (findings/C05/); the search stays off exactly this spelling.
						continue
					}
					if !strings.HasPrefix(s.Kind, "use:") || nearFault(cf.Text, s, near) == "" {
						continue
					}
				}
				if cross && (s.Alt == "" || !strings.HasPrefix(s.Kind, "use:")) {
					continue
				}
				if numeric && (s.Num == "" || !strings.HasPrefix(s.Kind, "use:") || s.Num == s.Text) {
					continue
				}
				sc := &C05Scenario{Module: cf.Name, Index: i, Site: s, Cross: cross, Numeric: numeric, Near: near, Orders: orders, Entries: true, Seed: derive(*flagSeed, fmt.Sprintf("C05/%s/%d", cf.Name, i))}
				curScenario = sc
				o := c05Run(sc)
				if o.skip != "" {
					sum.Skipped[o.skip]++
					continue
				}
				sum.Runs += int64(o.orders)
				sum.Counters["faulted inputs"]++
				sum.Counters["faulted parses that followed a parse defining the missing name"] += int64(o.decoys)
				sum.Counters["faulted parses through an entry point other than ParseString (bytes, reader, file, stat-identical file, seekable reader)"] += int64(o.entries)
				if cross {
					sum.Counters["faulted inputs redirected to a name defined in another namespace"]++
				}
				if numeric {
					sum.Counters["faulted inputs redirected to an unnamed ID just past the last possible one"]++
				}
				if near > 0 && near < 6 {
					sum.Counters["faulted inputs redirected to a one-character near miss of the original name"]++
				}
				if near >= 6 {
					sum.Counters["faulted inputs redirected to "+map[int]string{6: "the NAME -0", 7: "the empty quoted name", 8: "a number beyond 64 bits", 9: "the number 2^63", 10: "a quoted all-digit name with a leading zero", 11: "the quoted name for a number / the number for a quoted all-digit name", 12: "the tail of another existing name behind a separator", 14: "the same name under the other sigil (@x for %x, %x for @x)", 15: "a quoted name with one raw non-UTF-8 byte replaced by another", 13: "a block name that, put behind its function's name, spells a block of another function"}[near]]++
				}
				sum.Counters["fault kind "+siteClass(s.Kind)]++
				sum.Counters["map-range visits in non-canonical order"] += o.nonIdentity
				if o.doubt {
					sum.Skipped["injector doubt: llvm-as accepts the faulted text too"]++
				}
				distinct.add(hash64(cf.Name, s.Kind, fmt.Sprint(s.Off), fmt.Sprint(s.End), fmt.Sprint(variant)))
				if len(sum.Samples) < 4 && (u%211 == 7) {
					sum.Samples = append(sum.Samples, map[string]interface{}{"module": cf.Name, "kind": s.Kind, "site": clip(s.Text, 60), "offset": s.Off, "orders": o.orders, "cross_namespace": cross})
				}
				if o.class != "" {
					failures++
					sum.Failures++
					emit(outRec{T: "fail", Property: "C05", Seed: sc.Seed, Class: o.class, Sig: o.sig, Detail: o.detail, Replay: sc})
				}
			}
		}
	}
	sum.Exhausted = thorough
	sum.Distinct = distinct.list()
	if tmpDir != "" {
		os.RemoveAll(tmpDir)
	}
	emit(outRec{T: "summary", Property: "C05", Summary: sum})
}

func siteClass(kind string) string {
	if i := strings.Index(kind, " ("); i >= 0 {
		return kind[:i]
	}
	return kind
}

func c05Replay(raw json.RawMessage) *outRec {
	var sc C05Scenario
	if err := json.Unmarshal(raw, &sc); err != nil {
		return &outRec{T: "note", Class: "harness-error", Detail: "bad C05 scenario"}
	}
	o := c05Run(&sc)
	if tmpDir != "" {
		os.RemoveAll(tmpDir)
	}
	if o.skip != "" {
		return &outRec{T: "note", Class: "skipped", Detail: o.skip}
	}
	if o.class == "" {
		return nil
	}
	return &outRec{T: "fail", Property: "C05", Class: o.class, Sig: o.sig, Detail: o.detail, Replay: &sc}
}

func c05Candidates(raw json.RawMessage) []interface{} {
	var sc C05Scenario
	if json.Unmarshal(raw, &sc) != nil {
		return nil
	}
	var out []interface{}
	// Fewer orders (the canonical one alone is the simplest).
	if sc.Orders > 0 {
		c := sc
		c.Orders = 0
		out = append(out, &c)
		c2 := sc
		c2.Orders = sc.Orders / 2
		out = append(out, &c2)
	}
	// The same kind of site in a smaller module.
	type cand struct {
		cf corpusFile
		i  int
		s  Site
	}
	var cs []cand
	for _, cf := range corpus() {
		if strings.Contains(cf.Name, "reject/") || len(cf.Text) >= len(mustText(sc.Module)) {
			continue
		}
		sites, err := c05Sites(cf.Name, cf.Text)
		if err != nil {
			continue
		}
		for i, s := range sites {
			if s.Kind == sc.Site.Kind {
				cs = append(cs, cand{cf, i, s})
				break
			}
		}
	}
	for i, c := range cs {
		if i >= 6 {
			break
		}
		n := sc
		n.Module, n.Index, n.Site = c.cf.Name, c.i, c.s
		out = append(out, &n)
	}
	return out
}

func mustText(name string) string {
	t, _ := corpusText(name)
	return t
}
