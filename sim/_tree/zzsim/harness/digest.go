package main

import (
	"fmt"
	"math/big"
	"reflect"
	"sort"
	"strings"
	"sync"

	"github.com/llir/llvm/ir"
	"github.com/llir/llvm/ir/constant"
	"github.com/llir/llvm/ir/metadata"
	"github.com/llir/llvm/ir/types"
)

// The structural digest is a reflection walk of a *ir.Module that numbers
// pointers by first visit. It fixes the contents of every field (in declaration
// order; map-typed fields by sorted key; mutexes skipped) and the sharing
// structure (which operand is which object), so two modules with equal digests
// are isomorphic object graphs with equal leaves.

var (
	typBigInt   = reflect.TypeOf(big.Int{})
	typBigFloat = reflect.TypeOf(big.Float{})
	typMutex    = reflect.TypeOf(sync.Mutex{})
	typRWMutex  = reflect.TypeOf(sync.RWMutex{})
)

// singletons are the package-level shared objects handed out to every module.
func singletons() map[uintptr]string {
	s := map[uintptr]string{}
	add := func(name string, p interface{}) {
		v := reflect.ValueOf(p)
		if v.Kind() == reflect.Ptr && !v.IsNil() {
			s[v.Pointer()] = name
		}
	}
	add("types.Void", types.Void)
	add("types.MMX", types.MMX)
	add("types.Label", types.Label)
	add("types.Token", types.Token)
	add("types.Metadata", types.Metadata)
	add("types.I1", types.I1)
	add("types.I2", types.I2)
	add("types.I3", types.I3)
	add("types.I4", types.I4)
	add("types.I5", types.I5)
	add("types.I6", types.I6)
	add("types.I7", types.I7)
	add("types.I8", types.I8)
	add("types.I16", types.I16)
	add("types.I32", types.I32)
	add("types.I64", types.I64)
	add("types.I128", types.I128)
	add("types.I256", types.I256)
	add("types.I512", types.I512)
	add("types.I1024", types.I1024)
	add("types.Half", types.Half)
	add("types.Float", types.Float)
	add("types.Double", types.Double)
	add("types.X86_FP80", types.X86_FP80)
	add("types.FP128", types.FP128)
	add("types.PPC_FP128", types.PPC_FP128)
	add("types.I1Ptr", types.I1Ptr)
	add("types.I8Ptr", types.I8Ptr)
	add("types.I16Ptr", types.I16Ptr)
	add("types.I32Ptr", types.I32Ptr)
	add("types.I64Ptr", types.I64Ptr)
	add("types.I128Ptr", types.I128Ptr)
	add("constant.True", constant.True)
	add("constant.False", constant.False)
	add("constant.None", constant.None)
	add("metadata.Null", metadata.Null)
	return s
}

type digester struct {
	b     strings.Builder
	seen  map[uintptr]int
	sing  map[uintptr]string
	depth int
	// ptype, if not nil, receives the type of every non-singleton object reached
	// through a pointer (objects of size zero excepted: Go gives them all the
	// same address).
	ptype map[uintptr]string
}

// modulePointers returns the addresses (with their types) of all objects
// reachable from m through pointers, the package-level singletons excepted.
func modulePointers(m *ir.Module) map[uintptr]string {
	d := &digester{seen: map[uintptr]int{}, sing: singletons(), ptype: map[uintptr]string{}}
	d.walk(reflect.ValueOf(m))
	return d.ptype
}

// sharedObjects lists (at most max) objects present in both pointer sets.
func sharedObjects(a, b map[uintptr]string, max int) []string {
	var out []string
	for p, t := range a {
		if _, ok := b[p]; ok {
			out = append(out, t)
		}
	}
	sort.Strings(out)
	if len(out) > max {
		out = append(out[:max], fmt.Sprintf("… %d more", len(out)-max))
	}
	return out
}

// moduleDigest returns the digest text of m (one line per node).
func moduleDigest(m *ir.Module) string {
	d := &digester{seen: map[uintptr]int{}, sing: singletons()}
	d.walk(reflect.ValueOf(m))
	return d.b.String()
}

// singletonDigest is the digest of the shared package-level objects.
func singletonDigest() string {
	d := &digester{seen: map[uintptr]int{}, sing: map[uintptr]string{}}
	names := []string{}
	objs := map[string]interface{}{
		"types.Void": types.Void, "types.I1": types.I1, "types.I8": types.I8, "types.I16": types.I16, "types.I32": types.I32, "types.I64": types.I64,
		"types.I128": types.I128, "types.Half": types.Half, "types.Float": types.Float, "types.Double": types.Double, "types.Label": types.Label,
		"types.Token": types.Token, "types.Metadata": types.Metadata, "types.MMX": types.MMX, "types.X86_FP80": types.X86_FP80, "types.FP128": types.FP128,
		"types.PPC_FP128": types.PPC_FP128, "types.I8Ptr": types.I8Ptr, "types.I32Ptr": types.I32Ptr, "types.I64Ptr": types.I64Ptr,
		"constant.True": constant.True, "constant.False": constant.False, "constant.None": constant.None, "metadata.Null": metadata.Null,
	}
	for n := range objs {
		names = append(names, n)
	}
	sort.Strings(names)
	for _, n := range names {
		d.b.WriteString(n + ":\n")
		d.walk(reflect.ValueOf(objs[n]))
	}
	return d.b.String()
}

func (d *digester) line(f string, a ...interface{}) {
	for i := 0; i < d.depth && i < 40; i++ {
		d.b.WriteByte(' ')
	}
	fmt.Fprintf(&d.b, f, a...)
	d.b.WriteByte('\n')
}

func (d *digester) walk(v reflect.Value) {
	if !v.IsValid() {
		d.line("<invalid>")
		return
	}
	switch v.Kind() {
	case reflect.Ptr:
		if v.IsNil() {
			d.line("nil %s", v.Type())
			return
		}
		p := v.Pointer()
		if n, ok := d.sing[p]; ok {
			d.line("singleton %s", n)
			// Contents of singletons are covered by singletonDigest.
			return
		}
		if id, ok := d.seen[p]; ok {
			d.line("ref #%d", id)
			return
		}
		id := len(d.seen)
		d.seen[p] = id
		if d.ptype != nil && v.Type().Elem().Size() > 0 {
			d.ptype[p] = v.Type().String()
		}
		d.line("#%d %s", id, v.Type())
		d.depth++
		d.walk(v.Elem())
		d.depth--
	case reflect.Interface:
		if v.IsNil() {
			d.line("nil interface")
			return
		}
		d.walk(v.Elem())
	case reflect.Struct:
		t := v.Type()
		switch t {
		case typMutex, typRWMutex:
			return
		case typBigInt:
			if v.CanAddr() && v.Addr().CanInterface() {
				d.line("big.Int %s", v.Addr().Interface().(*big.Int).String())
				return
			}
		case typBigFloat:
			if v.CanAddr() && v.Addr().CanInterface() {
				f := v.Addr().Interface().(*big.Float)
				d.line("big.Float %s prec=%d mode=%s", f.Text('p', 0), f.Prec(), f.Mode())
				return
			}
		}
		d.line("struct %s", t)
		d.depth++
		for i := 0; i < v.NumField(); i++ {
			ft := t.Field(i)
			if ft.Type == typMutex || ft.Type == typRWMutex {
				continue
			}
			d.line(".%s", ft.Name)
			d.depth++
			d.walk(v.Field(i))
			d.depth--
		}
		d.depth--
	case reflect.Slice:
		if v.IsNil() {
			d.line("nil slice")
			return
		}
		if v.Type().Elem().Kind() == reflect.Uint8 {
			d.line("bytes %q", v.Bytes())
			return
		}
		d.line("slice len=%d", v.Len())
		d.depth++
		for i := 0; i < v.Len(); i++ {
			d.walk(v.Index(i))
		}
		d.depth--
	case reflect.Array:
		d.line("array len=%d", v.Len())
		d.depth++
		for i := 0; i < v.Len(); i++ {
			d.walk(v.Index(i))
		}
		d.depth--
	case reflect.Map:
		if v.IsNil() {
			d.line("nil map")
			return
		}
		keys := v.MapKeys()
		sort.Slice(keys, func(i, j int) bool { return fmt.Sprint(keys[i]) < fmt.Sprint(keys[j]) })
		d.line("map len=%d", len(keys))
		d.depth++
		for _, k := range keys {
			d.line("key %v", k)
			d.depth++
			d.walk(v.MapIndex(k))
			d.depth--
		}
		d.depth--
	case reflect.String:
		d.line("%q", v.String())
	case reflect.Bool:
		d.line("%v", v.Bool())
	case reflect.Int, reflect.Int8, reflect.Int16, reflect.Int32, reflect.Int64:
		d.line("%s %d", v.Type(), v.Int())
	case reflect.Uint, reflect.Uint8, reflect.Uint16, reflect.Uint32, reflect.Uint64, reflect.Uintptr:
		d.line("%s %d", v.Type(), v.Uint())
	case reflect.Float32, reflect.Float64:
		d.line("%s %x", v.Type(), v.Float())
	case reflect.Func:
		if v.IsNil() {
			d.line("nil func")
		} else {
			d.line("func")
		}
	default:
		d.line("<%s>", v.Kind())
	}
}
