package main

// Second half of the generator: the instruction and terminator kinds, constant
// expressions and entity decorations that the first generation of gen.go did
// not produce (found by measuring which functions of package ir a C14 run never
// entered). Kinds are numbered after the old ones, so old tapes keep their
// meaning.

import (
	"fmt"

	"github.com/llir/llvm/ir"
	"github.com/llir/llvm/ir/constant"
	"github.com/llir/llvm/ir/enum"
	"github.com/llir/llvm/ir/types"
	"github.com/llir/llvm/ir/value"
)

var (
	tF32    = types.Float
	tP32as1 = func() *types.PointerType { p := types.NewPointer(types.I32); p.AddrSpace = 1; return p }()
	tToken  = types.Token
	// i32 (i32)*: the type of the inline-assembly callee of kind 58.
	tAsmFn = types.NewPointer(types.NewFunc(types.I32, types.I32))
)

// via builds an instruction either with the package-level constructor or — when
// the step asked for it and the instruction is being appended — with the
// Block.New* convenience method, which appends by itself.
func (mc *machine) via(direct func() ir.Instruction, block func(b *ir.Block) ir.Instruction) ir.Instruction {
	if mc.viaBlock != nil && block != nil {
		mc.viaUsed = true
		mc.probes["instruction appended through a Block.New* method"]++
		return block(mc.viaBlock)
	}
	return direct()
}

// ehInsts lists the catchswitch terminators, catchpads and cleanuppads of f.
func (mc *machine) ehInsts(f *mfunc) (css []*ir.TermCatchSwitch, cps []*ir.InstCatchPad, cls []*ir.InstCleanupPad) {
	for _, b := range f.f.Blocks {
		for _, in := range b.Insts {
			switch in := in.(type) {
			case *ir.InstCatchPad:
				cps = append(cps, in)
			case *ir.InstCleanupPad:
				cls = append(cls, in)
			}
		}
		if cs, ok := b.Term.(*ir.TermCatchSwitch); ok {
			css = append(css, cs)
		}
	}
	return
}

// ehPersonality gives f a personality function the first time an exception
// handling construct is put into it.
func (mc *machine) ehPersonality(f *mfunc) {
	if f.f.Personality == nil && len(mc.funcs) > 0 {
		f.f.Personality = mc.funcs[0].f
		mc.probes["personality function set"]++
	}
}

// newInst2 builds the instruction kinds 35…nInstKinds-1 and returns the type
// the builder intends the result to have.
func (mc *machine) newInst2(f *mfunc, k, c, d int) (in ir.Instruction, rt types.Type) {
	lit := mc.literal
	bin := func(t types.Type, direct func(x, y value.Value) ir.Instruction, blk func(b *ir.Block, x, y value.Value) ir.Instruction, literal func(x, y value.Value) ir.Instruction) {
		x, y := mc.pick(f, t, c), mc.pick(f, t, d)
		if lit && literal != nil {
			in = literal(x, y)
		} else {
			in = mc.via(func() ir.Instruction { return direct(x, y) }, func(b *ir.Block) ir.Instruction { return blk(b, x, y) })
		}
		mc.use(in, x, y)
		rt = t
	}
	conv := func(from, to types.Type, direct func(x value.Value, to types.Type) ir.Instruction, blk func(b *ir.Block, x value.Value, to types.Type) ir.Instruction, literal func(x value.Value) ir.Instruction) {
		x := mc.pick(f, from, c)
		if lit && literal != nil {
			in = literal(x)
		} else {
			in = mc.via(func() ir.Instruction { return direct(x, to) }, func(b *ir.Block) ir.Instruction { return blk(b, x, to) })
		}
		mc.use(in, x)
		rt = to
	}
	switch k {
	case 35:
		bin(tF64, func(x, y value.Value) ir.Instruction { return ir.NewFSub(x, y) }, func(b *ir.Block, x, y value.Value) ir.Instruction { return b.NewFSub(x, y) }, func(x, y value.Value) ir.Instruction { return &ir.InstFSub{X: x, Y: y} })
		if fs, ok := in.(*ir.InstFSub); ok && (c+d)%3 == 0 {
			fs.FastMathFlags = fastMathFlags(c + d)
			mc.probes["fast-math flags"]++
		}
	case 36:
		bin(tF64, func(x, y value.Value) ir.Instruction { return ir.NewFMul(x, y) }, func(b *ir.Block, x, y value.Value) ir.Instruction { return b.NewFMul(x, y) }, nil)
	case 37:
		bin(tF64, func(x, y value.Value) ir.Instruction { return ir.NewFDiv(x, y) }, func(b *ir.Block, x, y value.Value) ir.Instruction { return b.NewFDiv(x, y) }, nil)
	case 38:
		bin(tF64, func(x, y value.Value) ir.Instruction { return ir.NewFRem(x, y) }, func(b *ir.Block, x, y value.Value) ir.Instruction { return b.NewFRem(x, y) }, nil)
	case 39:
		bin(tI32, func(x, y value.Value) ir.Instruction { return ir.NewUDiv(x, y) }, func(b *ir.Block, x, y value.Value) ir.Instruction { return b.NewUDiv(x, y) }, func(x, y value.Value) ir.Instruction { return &ir.InstUDiv{X: x, Y: y, Exact: c%2 == 0} })
	case 40:
		bin(tI32, func(x, y value.Value) ir.Instruction { return ir.NewURem(x, y) }, func(b *ir.Block, x, y value.Value) ir.Instruction { return b.NewURem(x, y) }, nil)
	case 41:
		bin(tI32, func(x, y value.Value) ir.Instruction { return ir.NewSRem(x, y) }, func(b *ir.Block, x, y value.Value) ir.Instruction { return b.NewSRem(x, y) }, nil)
	case 42:
		bin(tI64, func(x, y value.Value) ir.Instruction { return ir.NewLShr(x, y) }, func(b *ir.Block, x, y value.Value) ir.Instruction { return b.NewLShr(x, y) }, func(x, y value.Value) ir.Instruction { return &ir.InstLShr{X: x, Y: y} })
	case 43:
		bin(tI64, func(x, y value.Value) ir.Instruction { return ir.NewAShr(x, y) }, func(b *ir.Block, x, y value.Value) ir.Instruction { return b.NewAShr(x, y) }, nil)
	case 44:
		bin(tI32, func(x, y value.Value) ir.Instruction { return ir.NewOr(x, y) }, func(b *ir.Block, x, y value.Value) ir.Instruction { return b.NewOr(x, y) }, func(x, y value.Value) ir.Instruction { return &ir.InstOr{X: x, Y: y} })
	case 45:
		conv(tI32, tI64, func(x value.Value, to types.Type) ir.Instruction { return ir.NewSExt(x, to) }, func(b *ir.Block, x value.Value, to types.Type) ir.Instruction { return b.NewSExt(x, to) }, func(x value.Value) ir.Instruction { return &ir.InstSExt{From: x, To: tI64} })
	case 46:
		conv(tF64, tF32, func(x value.Value, to types.Type) ir.Instruction { return ir.NewFPTrunc(x, to) }, func(b *ir.Block, x value.Value, to types.Type) ir.Instruction { return b.NewFPTrunc(x, to) }, nil)
	case 47:
		conv(tF32, tF64, func(x value.Value, to types.Type) ir.Instruction { return ir.NewFPExt(x, to) }, func(b *ir.Block, x value.Value, to types.Type) ir.Instruction { return b.NewFPExt(x, to) }, nil)
	case 48:
		conv(tF64, tI32, func(x value.Value, to types.Type) ir.Instruction { return ir.NewFPToUI(x, to) }, func(b *ir.Block, x value.Value, to types.Type) ir.Instruction { return b.NewFPToUI(x, to) }, nil)
	case 49:
		conv(tF64, tI32, func(x value.Value, to types.Type) ir.Instruction { return ir.NewFPToSI(x, to) }, func(b *ir.Block, x value.Value, to types.Type) ir.Instruction { return b.NewFPToSI(x, to) }, func(x value.Value) ir.Instruction { return &ir.InstFPToSI{From: x, To: tI32} })
	case 50:
		conv(tI32, tF64, func(x value.Value, to types.Type) ir.Instruction { return ir.NewUIToFP(x, to) }, func(b *ir.Block, x value.Value, to types.Type) ir.Instruction { return b.NewUIToFP(x, to) }, nil)
	case 51:
		conv(tI64, tP32, func(x value.Value, to types.Type) ir.Instruction { return ir.NewIntToPtr(x, to) }, func(b *ir.Block, x value.Value, to types.Type) ir.Instruction { return b.NewIntToPtr(x, to) }, nil)
	case 52:
		conv(tP32, tP32as1, func(x value.Value, to types.Type) ir.Instruction { return ir.NewAddrSpaceCast(x, to) }, func(b *ir.Block, x value.Value, to types.Type) ir.Instruction { return b.NewAddrSpaceCast(x, to) }, nil)
	case 53:
		x := mc.pick(f, tP8, c)
		in = mc.via(func() ir.Instruction { return ir.NewVAArg(x, tI32) }, func(b *ir.Block) ir.Instruction { return b.NewVAArg(x, tI32) })
		mc.use(in, x)
		rt = tI32
	case 54:
		x, y := mc.pick(f, tVec, c), mc.pick(f, tVec, d)
		var mask value.Value
		switch (c + d) % 3 {
		case 0:
			mask = constant.NewZeroInitializer(tVec)
		case 1:
			mask = constant.NewVector(tVec, constant.NewInt(tI32, int64(c%4)), constant.NewInt(tI32, int64(d%4)))
		default:
			mask = constant.NewUndef(tVec)
		}
		in = mc.via(func() ir.Instruction { return ir.NewShuffleVector(x, y, mask) }, func(b *ir.Block) ir.Instruction { return b.NewShuffleVector(x, y, mask) })
		mc.use(in, x, y)
		rt = tVec
	case 55:
		x, e := mc.pick(f, tPair, c), mc.pick(f, tI32, d)
		in = mc.via(func() ir.Instruction { return ir.NewInsertValue(x, e, 0) }, func(b *ir.Block) ir.Instruction { return b.NewInsertValue(x, e, 0) })
		mc.use(in, x, e)
		rt = tPair
	case 56:
		// cleanuppad within none (or within a catchpad of the function)
		_, cps, _ := mc.ehInsts(f)
		var parent ir.ExceptionPad = constant.None
		if len(cps) > 0 && c%2 == 1 {
			parent = cps[d%len(cps)]
		}
		in = mc.via(func() ir.Instruction { return ir.NewCleanupPad(parent) }, func(b *ir.Block) ir.Instruction { return b.NewCleanupPad(parent) })
		if p, ok := parent.(*ir.InstCatchPad); ok {
			mc.use(in, p)
		}
		mc.ehPersonality(f)
		mc.probes["cleanuppad"]++
		rt = tToken
	case 57:
		css, _, _ := mc.ehInsts(f)
		if len(css) == 0 {
			in = ir.NewAlloca(tI8)
			rt = types.NewPointer(tI8)
			break
		}
		cs := css[c%len(css)]
		args := []value.Value{constant.NewNull(tP8), constant.NewInt(tI32, int64(d%100)), constant.NewNull(tP8)}
		in = mc.via(func() ir.Instruction { return ir.NewCatchPad(cs, args...) }, func(b *ir.Block) ir.Instruction { return b.NewCatchPad(cs, args...) })
		mc.use(in, cs)
		mc.probes["catchpad"]++
		rt = tToken
	case 58:
		// a call of an inline-assembly expression
		x := mc.pick(f, tI32, c)
		asm := ir.NewInlineAsm(tAsmFn, []string{"bswap $0", "nop", "rorl $$8, $0"}[d%3], "=r,0,~{dirflag},~{fpsr},~{flags}")
		asm.SideEffect = d%2 == 0
		asm.AlignStack = d%5 == 0
		if d%7 == 0 {
			asm.IntelDialect = true
		}
		in = mc.via(func() ir.Instruction { return ir.NewCall(asm, x) }, func(b *ir.Block) ir.Instruction { return b.NewCall(asm, x) })
		mc.use(in, x)
		mc.probes["call of inline assembly"]++
		rt = tI32
	case 59:
		// a decorated call: calling convention, tail marker, return attribute,
		// function attributes, operand bundle
		callee := mc.fn(c)
		var args, plain []value.Value
		for i, p := range callee.f.Params {
			x := mc.pick(f, p.Typ, d+i)
			plain = append(plain, x)
			args = append(args, x)
		}
		call := ir.NewCall(callee.f, args...)
		call.Tail = []enum.Tail{enum.TailNone, enum.TailTail, enum.TailMustTail, enum.TailNoTail}[d%4]
		call.CallingConv = []enum.CallingConv{enum.CallingConvNone, enum.CallingConvFast, enum.CallingConvCold, enum.CallingConv(90), enum.CallingConvC}[c%5]
		if callee.f.Sig.RetType.Equal(tI32) || callee.f.Sig.RetType.Equal(tI64) {
			call.ReturnAttrs = append(call.ReturnAttrs, []ir.ReturnAttribute{enum.ReturnAttrSignExt, enum.ReturnAttrZeroExt, enum.ReturnAttrNoUndef}[d%3])
		}
		call.FuncAttrs = append(call.FuncAttrs, []ir.FuncAttribute{enum.FuncAttrNoUnwind, ir.AttrString("srcloc"), ir.AttrPair{Key: "k", Value: "v"}, enum.FuncAttrReadOnly}[(c+d)%4])
		bx := mc.pick(f, tI32, c+d)
		call.OperandBundles = append(call.OperandBundles, ir.NewOperandBundle([]string{"deopt", "funclet", "gc-live"}[c%3], bx))
		in = call
		mc.use(in, append([]value.Value{callee.f, bx}, plain...)...)
		mc.probes["decorated call (convention, tail, attributes, operand bundle)"]++
		rt = callee.f.Sig.RetType
	case 60:
		// load/store/alloca decorations: volatile, atomic, alignment, address space
		p := mc.pick(f, tP32, c)
		ld := ir.NewLoad(tI32, p)
		switch d % 4 {
		case 0:
			ld.Volatile = true
		case 1:
			ld.Atomic, ld.Ordering, ld.SyncScope = true, enum.AtomicOrderingAcquire, "singlethread"
			ld.Align = 4
		case 2:
			ld.Align = ir.Align(1 << uint(c%4))
		}
		in = ld
		mc.use(in, p)
		rt = tI32
	case 61:
		// alloca with an element count, alignment and inalloca/swifterror markers
		n := mc.pick(f, tI32, c)
		al := ir.NewAlloca(tI32)
		al.NElems = n
		al.Align = ir.Align(1 << uint(d%4))
		al.InAlloca = d%5 == 0
		in = al
		mc.use(in, n)
		rt = tP32
	case 62:
		// integer arithmetic with overflow flags
		x, y := mc.pick(f, tI32, c), mc.pick(f, tI32, d)
		a := ir.NewAdd(x, y)
		a.OverflowFlags = [][]enum.OverflowFlag{{enum.OverflowFlagNSW}, {enum.OverflowFlagNUW}, {enum.OverflowFlagNUW, enum.OverflowFlagNSW}}[(c+d)%3]
		in = a
		mc.use(in, x, y)
		rt = tI32
	case 63:
		// getelementptr with several indices into an array-of-struct global type
		p := mc.pick(f, tPPair, c)
		i0 := mc.pick(f, tI64, d)
		g := ir.NewGetElementPtr(tPair, p, i0)
		g.InBounds = d%2 == 0
		in = g
		mc.use(in, p, i0)
		rt = tPPair
	default:
		in = ir.NewAlloca(tI8)
		rt = types.NewPointer(tI8)
	}
	return in, rt
}

// newTerm2 builds the terminator kinds 6…nTermKinds-1 (nil: does not apply).
func (mc *machine) newTerm2(f *mfunc, b *ir.Block, s Step) ir.Terminator {
	viaBlock := s.P%2 == 1
	switch s.K % nTermKinds {
	case 6:
		// indirectbr on a blockaddress constant or a pointer value
		var addr value.Value
		tb := mc.block(f, s.C)
		if s.C%2 == 0 {
			addr = constant.NewBlockAddress(f.f, tb)
		} else {
			addr = mc.pick(f, tP8, s.C)
		}
		targets := []*ir.Block{tb}
		if s.D%2 == 0 {
			targets = append(targets, mc.block(f, s.D))
		}
		if s.D%3 == 0 {
			// a target listed twice, followed by another block (jump tables repeat
			// their entries)
			targets = []*ir.Block{tb, tb, mc.block(f, s.D+1), tb}
			mc.probes["indirectbr with a repeated target"]++
		}
		var t *ir.TermIndirectBr
		if viaBlock {
			t = b.NewIndirectBr(addr, targets...)
		} else {
			t = ir.NewIndirectBr(addr, targets...)
		}
		used := []value.Value{}
		if _, isConst := addr.(constant.Constant); !isConst {
			used = append(used, addr)
		} else {
			used = append(used, tb)
		}
		for _, x := range targets {
			used = append(used, x)
		}
		mc.use(t, used...)
		mc.probes["indirectbr"]++
		return t
	case 7:
		callee := mc.fn(s.C)
		var args, plain []value.Value
		for i, p := range callee.f.Params {
			x := mc.pick(f, p.Typ, s.D+i)
			plain = append(plain, x)
			args = append(args, x)
		}
		b1, b2 := mc.block(f, s.D), mc.block(f, s.D+3)
		var t *ir.TermCallBr
		if viaBlock {
			t = b.NewCallBr(callee.f, args, b1, b2)
		} else {
			t = ir.NewCallBr(callee.f, args, b1, b2)
		}
		mc.vtype[t] = callee.f.Sig.RetType
		mc.born[t] = mc.stepNo
		if s.Name != "" && !callee.f.Sig.RetType.Equal(types.Void) {
			t.SetName(mc.uniq(f.lnames, s.Name))
		}
		mc.use(t, append([]value.Value{callee.f, b1, b2}, plain...)...)
		mc.probes["callbr"]++
		return t
	case 8:
		x := mc.pick(f, tLPad, s.C)
		var t *ir.TermResume
		if viaBlock {
			t = b.NewResume(x)
		} else {
			t = ir.NewResume(x)
		}
		mc.use(t, x)
		return t
	case 9:
		_, cps, cls := mc.ehInsts(f)
		var parent ir.ExceptionPad = constant.None
		switch {
		case len(cps) > 0 && s.C%3 == 1:
			parent = cps[s.D%len(cps)]
		case len(cls) > 0 && s.C%3 == 2:
			parent = cls[s.D%len(cls)]
		}
		handlers := []*ir.Block{mc.block(f, s.C)}
		if s.D%3 == 0 {
			handlers = append(handlers, mc.block(f, s.C+1))
		}
		var unwind *ir.Block
		if s.D%2 == 1 {
			unwind = mc.block(f, s.D)
		}
		var t *ir.TermCatchSwitch
		if viaBlock {
			t = b.NewCatchSwitch(parent, handlers, unwind)
		} else {
			t = ir.NewCatchSwitch(parent, handlers, unwind)
		}
		mc.vtype[t] = tToken
		mc.born[t] = mc.stepNo
		if s.Name != "" {
			t.SetName(mc.uniq(f.lnames, s.Name))
		}
		var used []value.Value
		if _, none := parent.(*constant.NoneToken); !none {
			used = append(used, parent)
		}
		for _, h := range handlers {
			used = append(used, h)
		}
		if unwind != nil {
			used = append(used, unwind)
		}
		mc.use(t, used...)
		mc.ehPersonality(f)
		mc.probes["catchswitch"]++
		return t
	case 10:
		_, cps, _ := mc.ehInsts(f)
		if len(cps) == 0 {
			return nil
		}
		cp, tb := cps[s.C%len(cps)], mc.block(f, s.D)
		var t *ir.TermCatchRet
		if viaBlock {
			t = b.NewCatchRet(cp, tb)
		} else {
			t = ir.NewCatchRet(cp, tb)
		}
		mc.use(t, cp, tb)
		mc.probes["catchret"]++
		return t
	case 11:
		_, _, cls := mc.ehInsts(f)
		if len(cls) == 0 {
			return nil
		}
		cl := cls[s.C%len(cls)]
		var unwind *ir.Block
		if s.D%2 == 1 {
			unwind = mc.block(f, s.D)
		}
		var t *ir.TermCleanupRet
		if viaBlock {
			t = b.NewCleanupRet(cl, unwind)
		} else {
			t = ir.NewCleanupRet(cl, unwind)
		}
		if unwind != nil {
			mc.use(t, cl, unwind)
		} else {
			mc.use(t, cl)
		}
		mc.probes["cleanupret"]++
		return t
	}
	return nil
}

// konst2 returns, for some selectors, a constant of type t of a kind the first
// generator never built: the remaining constant-expression kinds (over the
// addresses of globals, so that their text depends on names and numbering),
// aggregate constants, poison. nil: no such constant for this type/selector.
func (mc *machine) konst2(t types.Type, sel int) value.Value {
	if !mc.richConsts || sel%3 != 0 {
		return nil
	}
	sel /= 3
	var g *ir.Global
	if len(mc.globals) > 0 {
		g = mc.globals[sel%len(mc.globals)]
	}
	addr := func() constant.Constant {
		if g == nil {
			return constant.NewInt(tI64, int64(sel%97))
		}
		return constant.NewPtrToInt(g, tI64)
	}
	k := constant.NewInt(tI64, int64(1+sel%7))
	mc.probes["operand or initialiser is a constant expression of a rarer kind"]++
	switch {
	case t.Equal(tI64):
		switch sel % 12 {
		case 0:
			return constant.NewAdd(addr(), k)
		case 1:
			return constant.NewSub(addr(), k)
		case 2:
			return constant.NewMul(addr(), k)
		case 3:
			return constant.NewShl(addr(), k)
		case 4:
			return constant.NewLShr(addr(), k)
		case 5:
			return constant.NewAShr(addr(), k)
		case 6:
			return constant.NewAnd(addr(), k)
		case 7:
			return constant.NewOr(addr(), k)
		case 8:
			return constant.NewXor(addr(), k)
		case 9:
			return constant.NewZExt(constant.NewTrunc(addr(), tI32), tI64)
		case 10:
			return constant.NewSExt(constant.NewTrunc(addr(), tI32), tI64)
		default:
			return constant.NewSelect(constant.NewICmp(enum.IPredULT, addr(), k), addr(), k)
		}
	case t.Equal(tI32):
		switch sel % 5 {
		case 0:
			return constant.NewTrunc(addr(), tI32)
		case 1:
			return constant.NewFPToUI(constant.NewUIToFP(addr(), tF64), tI32)
		case 2:
			return constant.NewFPToSI(constant.NewSIToFP(addr(), tF64), tI32)
		case 3:
			return constant.NewExtractElement(constant.NewVector(tVec, constant.NewTrunc(addr(), tI32), constant.NewInt(tI32, 2)), constant.NewInt(tI32, 0))
		default:
			return constant.NewPoison(tI32)
		}
	case t.Equal(tF64):
		switch sel % 4 {
		case 0:
			return constant.NewUIToFP(addr(), tF64)
		case 1:
			return constant.NewSIToFP(addr(), tF64)
		case 2:
			return constant.NewFPExt(constant.NewFPTrunc(constant.NewSIToFP(addr(), tF64), tF32), tF64)
		default:
			return constant.NewFNeg(constant.NewUIToFP(addr(), tF64))
		}
	case t.Equal(tF32):
		return constant.NewFPTrunc(constant.NewUIToFP(addr(), tF64), tF32)
	case t.Equal(tI1):
		if sel%2 == 0 {
			return constant.NewICmp(enum.IPredNE, addr(), k)
		}
		return constant.NewFCmp(enum.FPredOLT, constant.NewUIToFP(addr(), tF64), constant.NewFloat(tF64, 1))
	case t.Equal(tP32):
		if sel%2 == 0 {
			return constant.NewIntToPtr(constant.NewAdd(addr(), k), tP32)
		}
		return constant.NewSelect(constant.NewICmp(enum.IPredEQ, addr(), k), constant.NewNull(tP32), constant.NewIntToPtr(addr(), tP32))
	case t.Equal(tVec):
		if sel%2 == 0 {
			return constant.NewInsertElement(constant.NewUndef(tVec), constant.NewTrunc(addr(), tI32), constant.NewInt(tI32, 1))
		}
		return constant.NewShuffleVector(constant.NewVector(tVec, constant.NewTrunc(addr(), tI32), constant.NewInt(tI32, 1)), constant.NewUndef(tVec), constant.NewZeroInitializer(tVec))
	case t.Equal(tPair):
		if sel%2 == 0 {
			return constant.NewStruct(tPair, constant.NewTrunc(addr(), tI32), constant.NewBool(sel%4 == 0))
		}
		return constant.NewPoison(tPair)
	}
	return nil
}

// decorateFunc assigns optional fields of a freshly created function (step
// "func" with P != 0): calling convention, attributes with and without
// arguments, section, comdat, GC, prefix data, parameter attributes.
func (mc *machine) decorateFunc(f *ir.Func, sel int) {
	mc.probes["function with optional fields (convention, attributes, section, comdat, …)"]++
	if sel&1 != 0 {
		f.CallingConv = []enum.CallingConv{enum.CallingConvFast, enum.CallingConvCold, enum.CallingConv(77), enum.CallingConvX86StdCall}[sel/2%4]
	}
	if sel&2 != 0 {
		f.FuncAttrs = append(f.FuncAttrs, []ir.FuncAttribute{ir.AlignStack(16), ir.AllocSize{ElemSizeIndex: 0, NElemsIndex: -1}, ir.VectorScaleRange{Min: 1, Max: 4}, ir.UnwindTable{Kind: enum.UnwindTableKindSync}, enum.FuncAttrNoReturn}[sel/4%5])
	}
	if sel&4 != 0 {
		f.Section = fmt.Sprintf(".text.s%d", sel%3)
	}
	if sel&8 != 0 {
		name := fmt.Sprintf("cd%d", sel%4)
		var cd *ir.ComdatDef
		for _, c := range mc.m.ComdatDefs {
			if c.Name == name {
				cd = c
			}
		}
		if cd == nil {
			cd = &ir.ComdatDef{Name: name, Kind: []enum.SelectionKind{enum.SelectionKindAny, enum.SelectionKindLargest, enum.SelectionKindNoDeduplicate}[sel%3]}
			if sel%5 == 3 {
				// used but never added to m.ComdatDefs (the API does not ask for it; the
				// printed module then lacks the definition, as written)
				cd.Name = name + ".unregistered"
				mc.probes["comdat used without being registered in the module"]++
			} else {
				mc.m.ComdatDefs = append(mc.m.ComdatDefs, cd)
			}
		}
		f.Comdat = cd
	}
	if sel&16 != 0 {
		f.GC = "statepoint-example"
	}
	if sel&32 != 0 {
		f.Prefix = constant.NewInt(tI32, int64(sel%1000))
	}
	if sel&64 != 0 {
		f.Visibility = []enum.Visibility{enum.VisibilityHidden, enum.VisibilityProtected}[sel/128%2]
		f.UnnamedAddr = []enum.UnnamedAddr{enum.UnnamedAddrUnnamedAddr, enum.UnnamedAddrLocalUnnamedAddr}[sel/256%2]
	}
	if f.Sig.RetType.Equal(tI32) && sel&128 != 0 {
		f.ReturnAttrs = append(f.ReturnAttrs, enum.ReturnAttrSignExt)
	}
	for i, p := range f.Params {
		if (sel>>uint(i))&3 != 3 {
			continue
		}
		if p.Typ.Equal(tP32) {
			p.Attrs = append(p.Attrs, []ir.ParamAttribute{ir.Byval{Typ: tI32}, ir.Dereferenceable{N: 4}, ir.SRet{Typ: tI32}, enum.ParamAttrNoCapture, ir.ByRef{Typ: tI32}, ir.ElementType{Typ: tI32}}[(sel/8+i)%6])
		} else {
			p.Attrs = append(p.Attrs, []ir.ParamAttribute{enum.ParamAttrNoUndef, enum.ParamAttrInReg}[(sel+i)%2])
		}
	}
}

// decorateGlobal assigns optional fields of a freshly created global variable.
func (mc *machine) decorateGlobal(g *ir.Global, sel int) {
	mc.probes["global with optional fields (TLS model, section, visibility, …)"]++
	if sel&1 != 0 {
		g.TLSModel = []enum.TLSModel{enum.TLSModelGeneric, enum.TLSModelLocalExec, enum.TLSModelInitialExec, enum.TLSModelLocalDynamic}[sel/2%4]
	}
	if sel&2 != 0 {
		g.Section = fmt.Sprintf(".data.s%d", sel%3)
	}
	if sel&4 != 0 {
		g.Visibility = enum.VisibilityHidden
	}
	if sel&8 != 0 {
		g.UnnamedAddr = enum.UnnamedAddrUnnamedAddr
	}
	if sel&16 != 0 {
		g.ExternallyInitialized = g.Init != nil
	}
	if sel&32 != 0 {
		g.Preemption = enum.PreemptionDSOLocal
	}
	if sel&64 != 0 {
		g.Partition = "part"
	}
	if sel&128 != 0 {
		g.FuncAttrs = append(g.FuncAttrs, ir.AttrPair{Key: "bss-section", Value: ".b"})
	}
}
